import Abverif.Proofs.Lemmas.SessReply
import Abverif.Proofs.Lemmas.SessGone
/-
Helper lemmas for C06: the transport reference is written by `onOpen` / `onClose` only (`Stable` through every other
function of the model), and what the default clean-up body (`_errback_outstanding_requests`) does to tables and futures.
-/
namespace Abverif.Session
open Abverif.SessCodes

/-- `transport` (and the scheduling mode) unchanged -/
def Stable (s : Sess) (_ : List SOut) (s' : Sess) : Prop := s'.transport = s.transport ∧ s'.mode = s.mode

theorem stableLiftQ : LiftQ Stable (fun _ => True) where
  refl := fun _ => ⟨rfl, rfl⟩
  trans := fun h1 h2 => ⟨h2.1.trans h1.1, h2.2.trans h1.2⟩
  post := fun _ _ => trivial
  caught := fun r => r
  quiet := fun _ q => by
    have := q.life
    simp only [Sess.life, Life.mk.injEq] at this
    exact ⟨this.2.1, this.1⟩
  lifeApi := fun {s} a ha _ => by
    cases a <;> simp [Api.isLife] at ha
    · simp only [apiStep, apiJoin]; split <;> (try split) <;> exact ⟨rfl, rfl⟩
    · simp only [apiStep, apiLeave]; split <;> (try split) <;> (try split) <;> exact ⟨rfl, rfl⟩
    · simp only [apiStep, apiDisconnect]; split <;> exact ⟨rfl, rfl⟩

theorem emitCb_stable (s : Sess) (o : SOut) : Stable s (emitCb s o).2 (emitCb s o).1 := by
  have := emitCb_life s o
  simp only [Sess.life, Life.mk.injEq] at this
  exact ⟨this.2.1, this.1⟩

theorem stable_trans {s1 s2 s3 : Sess} {o1 o2 o3 : List SOut} (h1 : Stable s1 o1 s2) (h2 : Stable s2 o2 s3) : Stable s1 o3 s3 :=
  ⟨h2.1.trans h1.1, h2.2.trans h1.2⟩

theorem runHook_stable (s : Sess) (h : Hook) (arg : Nat) (act : HAct) (body : Sess → Sess × List SOut)
    (hb : ∀ s, Stable s (body s).2 (body s).1) : Stable s (runHook s h arg act body).2 (runHook s h arg act body).1 := by
  unfold runHook
  have hb1 : Stable s (if act.dflt then body s else (s, [])).2 (if act.dflt then body s else (s, [])).1 := by
    split
    · exact hb s
    · exact ⟨rfl, rfl⟩
  generalize (if act.dflt = true then body s else (s, [])) = r1 at hb1 ⊢
  simp only []
  split
  · exact hb1
  · exact stable_trans hb1 (stableLiftQ.toLift.runCalls trivial none act.calls)

theorem deferLeaf_closeIfTransport_stable (s : Sess) : Stable s (deferLeaf s .closeIfTransport).2 (deferLeaf s .closeIfTransport).1 := by
  unfold deferLeaf
  split
  · simp only [runLeaf]; split <;> exact ⟨rfl, rfl⟩
  · exact ⟨rfl, rfl⟩

theorem onLeaveDefault_stable (s : Sess) (reason : Nat) : Stable s (onLeaveDefault s reason).2 (onLeaveDefault s reason).1 := by
  unfold onLeaveDefault
  have h1 : Stable s (rejectList s.clearTables (.closed reason) s.outstanding).2 (rejectList s.clearTables (.closed reason) s.outstanding).1 :=
    stableLiftQ.quiet trivial (Quiet.congr_left (rejectList_quiet _ _ _) rfl rfl)
  exact stable_trans h1 (deferLeaf_closeIfTransport_stable _)

theorem onDisconnectDefault_stable (s : Sess) : Stable s (onDisconnectDefault s).2 (onDisconnectDefault s).1 :=
  stableLiftQ.quiet trivial (Quiet.congr_left (rejectList_quiet _ _ _) rfl rfl)

theorem leaveHook_stable (s : Sess) (reason : Nat) (act : HAct) : Stable s (leaveHook s reason act).2 (leaveHook s reason act).1 := by
  unfold leaveHook
  exact stable_trans (runHook_stable s .onLeave reason act _ (fun s => onLeaveDefault_stable s reason)) (emitCb_stable _ _)

theorem disconnectHook_stable (s : Sess) (act : HAct) : Stable s (disconnectHook s act).2 (disconnectHook s act).1 := by
  unfold disconnectHook
  exact stable_trans (runHook_stable s .onDisconnect 0 act _ onDisconnectDefault_stable) (emitCb_stable _ _)


theorem stable_refl (s : Sess) (o : List SOut) : Stable s o s := ⟨rfl, rfl⟩

theorem runLeaf_stable (s : Sess) (k : Cont) : Stable s (runLeaf s k).2 (runLeaf s k).1 := by
  cases k with
  | closeIfTransport => simp only [runLeaf]; split <;> exact ⟨rfl, rfl⟩
  | welcome2 act => simp only [runLeaf]; exact runHook_stable s .onJoin 0 act _ (fun s => ⟨rfl, rfl⟩)
  | connect _ => exact ⟨rfl, rfl⟩
  | welcome1 _ _ _ => exact ⟨rfl, rfl⟩
  | challenge1 _ _ => exact ⟨rfl, rfl⟩
  | invDone _ _ => exact ⟨rfl, rfl⟩

theorem deferLeaf_stable (s : Sess) (k : Cont) : Stable s (deferLeaf s k).2 (deferLeaf s k).1 := by
  unfold deferLeaf
  split
  · exact runLeaf_stable s k
  · exact ⟨rfl, rfl⟩

theorem replySend_stable (s : Sess) (m : OutMsg) : Stable s (replySend s m).2.1 (replySend s m).1 := by
  unfold replySend; split <;> exact ⟨rfl, rfl⟩

theorem sendWithFallback_stable (s : Sess) (r : ReqId) (m : OutMsg) : Stable s (sendWithFallback s r m).2 (sendWithFallback s r m).1 := by
  unfold sendWithFallback
  simp only []
  split
  · exact replySend_stable s m
  · split
    · exact replySend_stable s m
    · exact stable_trans (replySend_stable s m) (replySend_stable _ _)

theorem invDone_stable (s : Sess) (r : ReqId) (o : EOut) : Stable s (invDone s r o).2 (invDone s r o).1 := by
  unfold invDone
  split
  · exact ⟨rfl, rfl⟩
  · simp only []
    split
    · split
      · exact ⟨rfl, rfl⟩
      · exact stable_trans (s2 := { s with invs := adel r s.invs }) (o1 := []) ⟨rfl, rfl⟩ (sendWithFallback_stable _ _ _)
    · split
      · exact ⟨rfl, rfl⟩
      · exact stable_trans (s2 := { s with invs := adel r s.invs }) (o1 := []) ⟨rfl, rfl⟩ (sendWithFallback_stable _ _ _)

theorem challengeFail_stable (s : Sess) (lact : HAct) : Stable s (challengeFail s lact).2 (challengeFail s lact).1 := by
  unfold challengeFail
  split
  · exact ⟨rfl, rfl⟩
  · exact stable_trans (s2 := { s with ended := true }) (o1 := []) ⟨rfl, rfl⟩ (leaveHook_stable _ 3 lact)

theorem runCont_stable (s : Sess) (k : Cont) : Stable s (runCont s k).2 (runCont s k).1 := by
  cases k with
  | closeIfTransport => exact runLeaf_stable s _
  | welcome2 act => exact runLeaf_stable s _
  | connect act =>
    simp only [runCont]
    exact runHook_stable s .onConnect 0 act apiJoin (fun s => stableLiftQ.toLift.api .join trivial)
  | welcome1 sid res jact =>
    simp only [runCont]
    cases res with
    | deny => simp only []; split <;> exact ⟨rfl, rfl⟩
    | raised => simp only []; split <;> exact ⟨rfl, rfl⟩
    | ok =>
      simp only []
      split
      · exact ⟨rfl, rfl⟩
      · exact stable_trans (s2 := { s with sessionId := some sid }) (o1 := []) ⟨rfl, rfl⟩ (deferLeaf_stable _ _)
  | challenge1 res lact =>
    simp only [runCont]
    cases res with
    | sig =>
      simp only []
      split
      · exact ⟨rfl, rfl⟩
      · split
        · exact ⟨rfl, rfl⟩
        · exact challengeFail_stable s lact
    | none_ =>
      simp only []
      split
      · exact ⟨rfl, rfl⟩
      · exact challengeFail_stable s lact
    | raised => exact challengeFail_stable s lact
  | invDone r o => exact invDone_stable s r o

theorem defer_stable (s : Sess) (k : Cont) : Stable s (defer s k).2 (defer s k).1 := by
  unfold defer
  split
  · exact runCont_stable s k
  · exact ⟨rfl, rfl⟩

theorem settleInv_stable (s : Sess) (r : ReqId) (o : EOut) : Stable s (settleInv s r o).2 (settleInv s r o).1 := by
  unfold settleInv
  split
  · exact ⟨rfl, rfl⟩
  · next x _ =>
    split
    · exact ⟨rfl, rfl⟩
    · exact stable_trans (s2 := { s with invs := aupd r { x with st := .fired } s.invs }) (o1 := []) ⟨rfl, rfl⟩ (defer_stable _ _)

theorem progressLoop_stable (s : Sess) (r : ReqId) (vs : List Val) : Stable s (progressLoop s r vs).2.1 (progressLoop s r vs).1 := by
  induction vs generalizing s with
  | nil => exact ⟨rfl, rfl⟩
  | cons v vs ih =>
    unfold progressLoop
    split
    · exact ⟨rfl, rfl⟩
    · simp only []
      split
      · exact stable_trans (replySend_stable s _) (ih _)
      · exact replySend_stable s _

theorem onInvocation_stable (s : Sess) (beh : List HAct) (r : ReqId) (reg : RegId) (p : Payload) (rp : Bool) :
    Stable s (onInvocation s beh r reg p rp).2 (onInvocation s beh r reg p rp).1 := by
  unfold onInvocation
  split
  · exact ⟨rfl, rfl⟩
  · split
    · exact ⟨rfl, rfl⟩
    · next g _ =>
      simp only []
      generalize hs0 : (if (g.detailsArg.isSome && rp) = true then { s with progs := r :: s.progs } else s) = s0
      have h0 : Stable s ([] : List SOut) s0 := by subst hs0; split <;> exact ⟨rfl, rfl⟩
      have h1 := progressLoop_stable s0 r (if (g.detailsArg.isSome && rp) = true then (beh.headD {}).progress else [])
      generalize (progressLoop s0 r (if (g.detailsArg.isSome && rp) = true then (beh.headD {}).progress else [])) = r1 at h1 ⊢
      have h2 : Stable r1.1 (if r1.2.2 = true then (r1.1, []) else runCalls r1.1 none (beh.headD {}).calls).2
          (if r1.2.2 = true then (r1.1, []) else runCalls r1.1 none (beh.headD {}).calls).1 := by
        split
        · exact ⟨rfl, rfl⟩
        · exact stableLiftQ.toLift.runCalls trivial none _
      generalize (if r1.2.2 = true then (r1.1, []) else runCalls r1.1 none (beh.headD {}).calls) = r2 at h2 ⊢
      generalize (if r1.2.2 = true then some (EOut.raised .sendExc)
        else if (beh.headD {}).raises = true then some (EOut.raised (beh.headD {}).exc)
        else if (beh.headD {}).ret = Ret.pending then none else some (retOut (beh.headD {}).ret)) = outcome
      have h012 : Stable s ([] : List SOut) r2.1 := stable_trans (stable_trans h0 h1 (o3 := [])) h2
      cases outcome with
      | none => exact ⟨h012.1, h012.2⟩
      | some o =>
        have h3 := defer_stable { r2.1 with invs := aset r { reg := reg, st := IState.fired } r2.1.invs } (.invDone r o)
        exact ⟨h3.1.trans h012.1, h3.2.trans h012.2⟩

theorem lateProgress_stable (s : Sess) (r : ReqId) (v : Val) : Stable s (lateProgress s r v).2 (lateProgress s r v).1 := by
  unfold lateProgress
  split
  · exact ⟨rfl, rfl⟩
  · split
    · exact ⟨rfl, rfl⟩
    · exact replySend_stable s _

theorem preSession_stable (s : Sess) (beh : List HAct) (m : InMsg) : Stable s (preSession s beh m).2 (preSession s beh m).1 := by
  unfold preSession
  split
  · exact ⟨rfl, rfl⟩
  cases m with
  | welcome sid =>
    simp only [preSessionOpen]
    exact stable_trans (runHook_stable s .onWelcome 0 _ _ (fun s => ⟨rfl, rfl⟩)) (defer_stable _ _)
  | abort => exact stable_trans (s2 := { s with ended := true }) (o1 := []) ⟨rfl, rfl⟩ (leaveHook_stable _ 2 _)
  | challenge =>
    simp only [preSessionOpen]
    exact stable_trans (runHook_stable s .onChallenge 0 _ _ (fun s => ⟨rfl, rfl⟩)) (defer_stable _ _)
  | goodbye => exact ⟨rfl, rfl⟩
  | result _ _ _ => exact ⟨rfl, rfl⟩
  | error _ _ _ _ => exact ⟨rfl, rfl⟩
  | published _ _ => exact ⟨rfl, rfl⟩
  | subscribed _ _ => exact ⟨rfl, rfl⟩
  | unsubscribed _ => exact ⟨rfl, rfl⟩
  | registered _ _ => exact ⟨rfl, rfl⟩
  | unregistered _ _ => exact ⟨rfl, rfl⟩
  | event _ _ _ => exact ⟨rfl, rfl⟩
  | invocation _ _ _ _ => exact ⟨rfl, rfl⟩
  | interrupt _ => exact ⟨rfl, rfl⟩
  | other => exact ⟨rfl, rfl⟩

theorem onEstablished_stable (s : Sess) (beh : List HAct) (m : InMsg) : Stable s (onEstablished s beh m).2 (onEstablished s beh m).1 := by
  by_cases hm : m.isReplySide = true
  · exact stableLiftQ.established trivial beh m hm
  · cases m <;> simp [InMsg.isReplySide] at hm
    · simp only [onEstablished]
      split
      · exact ⟨rfl, rfl⟩
      · exact stable_trans (s2 := { s with sessionId := none, ended := true }) (o1 := []) ⟨rfl, rfl⟩ (leaveHook_stable _ 0 _)
    · exact onInvocation_stable s beh _ _ _ _
    · exact settleInv_stable s _ _

theorem tickList_stable (s : Sess) (items : List SOut) : Stable s (tickList s items).2 (tickList s items).1 := by
  induction items generalizing s with
  | nil => exact ⟨rfl, rfl⟩
  | cons o rest ih =>
    cases o with
    | later k => simp only [tickList]; exact stable_trans (runCont_stable s k) (ih _)
    | _ => simp only [tickList]; exact ih s

theorem drain_stable (n : Nat) (s : Sess) : Stable s (drain n s).2 (drain n s).1 := by
  induction n generalizing s with
  | zero => exact ⟨rfl, rfl⟩
  | succ n ih =>
    unfold drain
    split
    · exact ⟨rfl, rfl⟩
    · exact stable_trans (o3 := []) (stable_trans (s2 := { s with cbq := [] }) (o1 := []) (o3 := []) ⟨rfl, rfl⟩ (tickList_stable _ _)) (ih _)

/-! ### the default clean-up body -/

theorem clearTables_tbl (s : Sess) (k : Kind) : s.clearTables.tbl k = [] := by cases k <;> rfl

theorem rejectList_tbl (s : Sess) (o : Outcome) (fs : List FutId) (k : Kind) : (rejectList s o fs).1.tbl k = s.tbl k := by
  induction fs generalizing s with
  | nil => rfl
  | cons f fs ih =>
    rw [rejectList_cons]; split
    · exact ih s
    · simp only []; rw [ih, settle_tbl]

/-- the default clean-up body: afterwards the six tables are empty -/
theorem errback_outstanding_empties (s : Sess) (o : Outcome) (k : Kind) :
    (rejectList s.clearTables o s.outstanding).1.tbl k = [] := by
  rw [rejectList_tbl, clearTables_tbl]

theorem settle_called_self {s : Sess} {f : Nat} (hf : f < s.futs.length) (o : Outcome) : (settle s f o).1.called f = true := by
  have hx : s.futs[f]? = some s.futs[f] := by simp [hf]
  unfold settle
  rw [hx]
  simp only []
  split
  · next hc => simp [called_eq, hf, hc]
  · split
    · rw [called_eq, (emitCb_fields _ _).2.2.1]; simp [hf]
    · simp [called_eq, hf]

theorem settle_called_mono {s : Sess} (f g : Nat) (o : Outcome) (h : s.called g = true) : (settle s f o).1.called g = true := by
  unfold settle
  split
  · exact h
  · next x hx =>
    have key : ∀ y : Fut, (y.cell.isSome = true ∨ f ≠ g) → y.cell.isSome = x.cell.isSome ∨ y.cell.isSome = true →
        Sess.called { s with futs := s.futs.set f y } g = true := by
      intro y _ hy
      rw [called_eq] at h ⊢
      by_cases e : f = g
      · subst e
        simp only [hx] at h
        have hl : f < s.futs.length := by
          rcases Nat.lt_or_ge f s.futs.length with h1 | h1
          · exact h1
          · simp [List.getElem?_eq_none h1] at hx
        simp only [List.getElem?_set_self hl]
        rcases hy with hy | hy
        · rw [hy]; exact h
        · exact hy
      · simpa [List.getElem?_set_ne e] using h
    split
    · exact key _ (Or.inl (by simp [*])) (Or.inl rfl)
    · split
      · rw [called_eq, (emitCb_fields _ _).2.2.1, ← called_eq]
        exact key _ (Or.inl rfl) (Or.inr rfl)
      · exact key _ (Or.inl rfl) (Or.inr rfl)

theorem settle_futs_length (s : Sess) (f : Nat) (o : Outcome) : (settle s f o).1.futs.length = s.futs.length :=
  (settle_fields s f o).2.1

theorem rejectList_called (s : Sess) (o : Outcome) (fs : List FutId) :
    (∀ g, s.called g = true → (rejectList s o fs).1.called g = true) ∧
    (∀ f ∈ fs, (f : Nat) < s.futs.length → (rejectList s o fs).1.called f = true) := by
  induction fs generalizing s with
  | nil => exact ⟨fun g h => h, fun f hf => by simp at hf⟩
  | cons f fs ih =>
    rw [rejectList_cons]
    split
    · next hc =>
      obtain ⟨i1, i2⟩ := ih s
      refine ⟨i1, fun g hg hl => ?_⟩
      rcases List.mem_cons.mp hg with e | e
      · subst e; exact i1 _ hc
      · exact i2 g e hl
    · obtain ⟨i1, i2⟩ := ih (settle s f o).1
      simp only []
      refine ⟨fun g h => i1 g (settle_called_mono f g o h), fun g hg hl => ?_⟩
      rcases List.mem_cons.mp hg with e | e
      · subst e; exact i1 _ (settle_called_self hl o)
      · exact i2 g e (by rw [settle_futs_length]; exact hl)


end Abverif.Session
