import Abverif.Model.Pmce
/- C12: the two small lattices (permessage-bzip2: compression levels; permessage-brotli: context takeover),
   render -> `_parseExtensionsHeader` -> parse round trips and negotiation facts, all by kernel evaluation of the
   complete lattices. Both `Offer.parse` default every flag to False/0, so the round trips are exact. -/
namespace Abverif.Pmce
open Abverif.DeflateConsts

/-- first entry of a parsed header with the given extension name -/
def findExt (name : List Char) : List (List Char × Params) → Option Params
  | [] => none
  | (n, ps) :: rest => if n = name then some ps else findExt name rest

/-- bzip2 offers: exact round trip on the whole lattice (2 x 10) -/
theorem bz_parse_render_offer : ∀ o ∈ BzOffer.all,
    (findExt bzip2ExtensionName (parseExtensionsHeader o.render)).bind BzOffer.parse = some o := by
  decide +kernel

/-- bzip2 responses: the client recovers what the server rendered, for all 10 x 10 (requested, echoed) levels -/
theorem bz_parse_render_response : ∀ s ∈ lvlVals, ∀ c ∈ lvlVals,
    (findExt bzip2ExtensionName (parseExtensionsHeader (BzOfferAccept.render ⟨⟨true, s⟩, c, none⟩))).bind
      BzResponse.parse = some ⟨c, s⟩ := by
  decide +kernel

/-- bzip2: whatever passes the guards, each end compresses at a level not above what the other end allowed
(`compress_level` overrides are bounded by the peer's `*_max_compress_level`) -/
theorem bz_levels_respected : ∀ o ∈ BzOffer.all, ∀ rl ∈ lvlVals, ∀ l ∈ (none :: bzip2LevelPermissible.map some),
    let a : BzOfferAccept := ⟨o, rl, l⟩
    a.guard = true →
      (o.reqMcl ≠ 0 → (BzPmce.fromOfferAccept true a).sMcl ≤ o.reqMcl)
      ∧ (rl ≠ 0 → o.acceptMcl = true) := by
  decide +kernel

/-- brotli offers / responses: exact round trips on the whole lattice (2 x 2 each) -/
theorem br_parse_render_offer : ∀ o ∈ BrOffer.all,
    (findExt brotliExtensionName (parseExtensionsHeader o.render)).bind BrOffer.parse = some o := by
  decide +kernel

theorem br_parse_render_response : ∀ s ∈ bools, ∀ c ∈ bools,
    (findExt brotliExtensionName (parseExtensionsHeader (BrOfferAccept.render ⟨⟨true, s⟩, c, none⟩))).bind
      BrResponse.parse = some ⟨c, s⟩ := by
  decide +kernel

/-- brotli: for every offer, accept and response-accept passing the guards, an end that resets its inflater is
paired with a deflater that resets too (the brotli analogue of `negotiation_compatible`) -/
theorem br_negotiation_compatible : ∀ o ∈ BrOffer.all, ∀ rn ∈ bools, ∀ n ∈ optBools, ∀ yn ∈ optBools,
    let a : BrOfferAccept := ⟨o, rn, n⟩
    let ra : BrResponseAccept := ⟨⟨rn, o.reqNct⟩, yn⟩
    a.guard = true → ra.guard = true →
      ((BrPmce.fromResponseAccept false ra).sNct = true → (BrPmce.fromOfferAccept true a).sNct = true)
      ∧ ((BrPmce.fromOfferAccept true a).cNct = true → (BrPmce.fromResponseAccept false ra).cNct = true) := by
  decide +kernel

end Abverif.Pmce
