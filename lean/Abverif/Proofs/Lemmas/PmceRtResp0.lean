import Abverif.Model.Pmce
/- C12 round trip, responses, slice server_no_context_takeover=false, client_no_context_takeover=false (kernel-checked) -/
namespace Abverif.Pmce
theorem parse_render_response_slice0 :
    ∀ sw ∈ winVals, ∀ cw ∈ winVals,
      (OfferAccept.reparse ⟨⟨true, true, false, sw⟩, false, cw, none, none, none⟩) = some ⟨cw, false, sw, false⟩ := by
  decide +kernel
end Abverif.Pmce
