import Abverif.Proofs.Lemmas.SchemaRT5
/-
Round trip, part 6: `Schema.parse (Schema.marshal m) = m` for every well-formed schema without a `roles` entry.
-/
namespace Abverif.Wamp
open Schema

theorem kwargsCheck_ok {O : Oracles} {t : TailSpec} {m : Msg} (h : tailStrict O t m = true) :
    kwargsCheck m = .ok () := by
  have := (tailStrict_parts h).2.1
  unfold kwargsCheck
  cases hv : m.get cs!"kwargs" <;> simp_all <;> rfl

/-- generic round trip (first form: schemas without a `roles` entry) -/
theorem parse_marshal_noRoles (σ : Schema) (O : Oracles)
    (hwf : σ.wf = true) (hwfO : σ.wfO O = true) (hnr : σ.noRoles = true)
    (m : Msg) (hv : σ.valid O m = true) : σ.parse O (σ.marshal m) = .ok m := by
  simp only [Schema.valid, Bool.and_eq_true] at hv
  obtain ⟨hst, hres⟩ := hv
  have hnames := (strict_parts hst).1
  have hnd := (wf_parts hwf).1
  -- the message rebuilt from its attribute values
  have hm : σ.fieldNames.map (fun f => (f, Msg.get m f)) = m := by
    rw [← hnames]; rw [← hnames] at hnd; exact Msg.rebuild m hnd
  unfold Schema.parse
  simp only [lengths_marshal hwf, Bool.not_true, Bool.false_eq_true, if_false]
  rw [parsePos_marshal hwf hwfO hst hres, optsOf_marshal' hwf, parseOpts_marshal hwf hwfO hnr hst hres]
  have hcm : (if σ.custom = true then
        [(cs!"custom", WVal.dict ((σ.marshalDict m).filter (fun kv => O.customAttr kv.1)))] else ([] : Msg)) =
      (if σ.custom = true then [cs!"custom"] else []).map (fun f => (f, Msg.get m f)) := by
    by_cases hc : σ.custom = true
    · simp [hc, custom_filter hwf hwfO hst hc]
    · simp [hc]
  cases htl : σ.tail with
  | none =>
    have hfn : σ.fieldNames = σ.pos.filterMap PosStep.field? ++ [] ++ σ.opts.map (·.field) ++
        (if σ.custom = true then [cs!"custom"] else []) := by
      simp [Schema.fieldNames, htl]
    have hassemble : (σ.pos.filterMap PosStep.field?).map (fun f => (f, Msg.get m f)) ++ [] ++
        σ.opts.map (fun s => (s.field, Msg.get m s.field)) ++
        (if σ.custom = true then
          [(cs!"custom", WVal.dict ((σ.marshalDict m).filter (fun kv => O.customAttr kv.1)))] else ([] : Msg)) = m := by
      rw [hcm]
      conv => rhs; rw [← hm, hfn]
      simp [List.map_append, List.map_map, Function.comp_def]
    simp only [pure, Except.pure, bind, Except.bind, Option.isSome_none, Bool.false_eq_true, if_false]
    rw [hassemble, ctorOpts_ok hres σ.opts (fun _ h => h), ctorCross_ok σ.cross (residual_parts hres).2.2]
  | some t =>
    have hfn : σ.fieldNames = σ.pos.filterMap PosStep.field? ++ tailFields ++ σ.opts.map (·.field) ++
        (if σ.custom = true then [cs!"custom"] else []) := by
      simp [Schema.fieldNames, htl, tailFields]
    have hts := (strict_parts hst).2.2.2.1
    rw [htl] at hts
    have hassemble : (σ.pos.filterMap PosStep.field?).map (fun f => (f, Msg.get m f)) ++ tailMsg m ++
        σ.opts.map (fun s => (s.field, Msg.get m s.field)) ++
        (if σ.custom = true then
          [(cs!"custom", WVal.dict ((σ.marshalDict m).filter (fun kv => O.customAttr kv.1)))] else ([] : Msg)) = m := by
      rw [hcm]
      conv => rhs; rw [← hm, hfn]
      simp [List.map_append, List.map_map, Function.comp_def, tailMsg, tailFields]
    dsimp only
    rw [parseTail_marshal hwf htl hst hres]
    simp only [pure, Except.pure, bind, Except.bind, Option.isSome_some, if_true]
    rw [hassemble, ctorOpts_ok hres σ.opts (fun _ h => h), ctorCross_ok σ.cross (residual_parts hres).2.2,
      kwargsCheck_ok hts]

end Abverif.Wamp
