import Abverif.Proofs.Lemmas.SchemaRT5
/-
Round trip, part 6: `Schema.parse (Schema.marshal m) = m` for every well-formed schema without a `roles` entry.
-/
namespace Abverif.Wamp
open Schema

theorem kwargsCheck_ok {O : Oracles} {t : TailSpec} {m : Msg} (h : tailStrict O t m = true) :
    kwargsCheck m = .ok () := by
  have := (tailStrict_parts h).2.1
  unfold kwargsCheck
  cases hv : m.get cs!"kwargs" <;> simp_all <;> rfl

/-- the field-by-field part of `parse` reads the attributes back -/
theorem parseFields_marshal (σ : Schema) (O : Oracles)
    (hwf : σ.wf = true) (hwfO : σ.wfO O = true)
    (m : Msg) (hst : σ.strict O m = true) (hres : σ.residual O m = true) :
    σ.parseFields O (σ.marshal m) = .ok m := by
  have hnames := (strict_parts hst).1
  have hnd := (wf_parts hwf).1
  have hm : σ.fieldNames.map (fun f => (f, Msg.get m f)) = m := by
    rw [← hnames]; rw [← hnames] at hnd; exact Msg.rebuild m hnd
  unfold Schema.parseFields
  simp only [lengths_marshal hwf, Bool.not_true, Bool.false_eq_true, if_false]
  rw [parsePos_marshal hwf hwfO hst hres, optsOf_marshal' hwf, parseOpts_marshal hwf hwfO hst hres]
  have hcm : σ.customPart O (σ.marshal m) =
      (if σ.custom = true then [cs!"custom"] else []).map (fun f => (f, Msg.get m f)) := by
    unfold Schema.customPart
    rw [optsOf_marshal' hwf]
    by_cases hc : σ.custom = true
    · simp [hc, custom_filter hwf hwfO hst hc]
    · simp [hc]
  rw [hcm]
  unfold Schema.tailPart
  rw [optsOf_marshal' hwf]
  cases htl : σ.tail with
  | none =>
    have hfn : σ.fieldNames = σ.pos.filterMap PosStep.field? ++ [] ++ σ.opts.map (·.field) ++
        (if σ.custom = true then [cs!"custom"] else []) := by
      simp [Schema.fieldNames, htl]
    simp only [pure, Except.pure, bind, Except.bind]
    congr 1
    conv => rhs; rw [← hm, hfn]
    simp [List.map_append, List.map_map, Function.comp_def]
  | some t =>
    have hfn : σ.fieldNames = σ.pos.filterMap PosStep.field? ++ tailFields ++ σ.opts.map (·.field) ++
        (if σ.custom = true then [cs!"custom"] else []) := by
      simp [Schema.fieldNames, htl, tailFields]
    dsimp only
    rw [parseTail_marshal hwf htl hst hres]
    simp only [pure, Except.pure, bind, Except.bind]
    congr 1
    conv => rhs; rw [← hm, hfn]
    simp [List.map_append, List.map_map, Function.comp_def, tailMsg, tailFields]

/-- everything before the constructor reads the attributes back: the cross-field checks of `parse` are among the
constructor's assertions (`wf`), which a valid message satisfies -/
theorem parseStage_marshal (σ : Schema) (O : Oracles)
    (hwf : σ.wf = true) (hwfO : σ.wfO O = true)
    (m : Msg) (hst : σ.strict O m = true) (hres : σ.residual O m = true) :
    σ.parseStage O (σ.marshal m) = .ok m := by
  unfold Schema.parseStage
  rw [parseFields_marshal σ O hwf hwfO m hst hres]
  have hpc : ctorCross .protocol O m σ.pcross = .ok () :=
    ctorCross_ok .protocol σ.pcross (fun c hc => (residual_parts hres).2.2 c ((wf_parts hwf).2.2.2.2.2.2.2.2 c hc))
  simp only [bind, Except.bind, hpc]
  rfl

/-- the constructor accepts every valid message -/
theorem ctorStage_valid (σ : Schema) (O : Oracles) (m : Msg) (hst : σ.strict O m = true) (hres : σ.residual O m = true) :
    σ.ctorStage O m = .ok () := by
  unfold Schema.ctorStage
  rw [ctorOpts_ok hres σ.opts (fun _ h => h), ctorCross_ok σ.ctorErr σ.cross (residual_parts hres).2.2]
  simp only [bind, Except.bind]
  cases htl : σ.tail with
  | none => rfl
  | some t =>
    have hts := (strict_parts hst).2.2.2.1
    rw [htl] at hts
    simp only [Option.isSome_some, if_true]
    exact kwargsCheck_ok hts

/-- generic round trip -/
theorem parse_marshal_generic (σ : Schema) (O : Oracles)
    (hwf : σ.wf = true) (hwfO : σ.wfO O = true)
    (m : Msg) (hv : σ.valid O m = true) : σ.parse O (σ.marshal m) = .ok m := by
  simp only [Schema.valid, Bool.and_eq_true] at hv
  obtain ⟨hst, hres⟩ := hv
  unfold Schema.parse
  rw [parseStage_marshal σ O hwf hwfO m hst hres]
  simp only [bind, Except.bind, ctorStage_valid σ O m hst hres]
  rfl

end Abverif.Wamp
