import Abverif.Proofs.Lemmas.WsJudge
/-
Refinement of the receive model to the whole-stream judge, part 2: the loop.
-/
namespace Abverif.Ws
open Abverif.WsSpec

/-! ### sending never adds a receive event to the log -/

theorem evsOf_emit_write (s : S) (d : Bytes) : evsOf (s.emit (.write d)).log = evsOf s.log := by
  simp [S.emit, evsOf, List.filterMap_append, evOfOut]

theorem evsOf_emit_raised (s : S) (e : Err) : evsOf (s.emit (.raised e)).log = evsOf s.log := by
  simp [S.emit, evsOf, List.filterMap_append, evOfOut]

theorem sendTick_evs (s : S) : evsOf (sendTick s).log = evsOf s.log := by
  unfold sendTick
  split
  · dsimp only
    split
    · simp [S.timer, S.emit, evsOf, List.filterMap_append, evOfOut]
    · simp [S.timer]
  · rfl

theorem trigger_evs (s : S) : evsOf (trigger s).log = evsOf s.log := by
  unfold trigger
  split
  · rw [sendTick_evs]
  · rfl

theorem sendData_evs (s : S) (d : Bytes) (sync : Bool) (chop : Nat) :
    evsOf (sendData s d sync chop).log = evsOf s.log := by
  unfold sendData
  split
  · rw [trigger_evs]
  · split
    · rw [trigger_evs]
    · split
      · exact evsOf_emit_raised _ _
      · exact evsOf_emit_write _ _

theorem sendFrame_evs (s : S) (opcode : Nat) (pl : Bytes) (fin : Bool) (rsv : Nat) (sync : Bool) (chop : Nat) :
    evsOf (sendFrame s opcode pl fin rsv sync chop).log = evsOf s.log := by
  unfold sendFrame
  dsimp only
  have hk : (drawKey s).1.log = s.log := by unfold drawKey; split <;> rfl
  split
  · rw [evsOf_emit_raised, hk]
  · rw [sendData_evs]
    show evsOf (drawKey s).1.log = _
    rw [hk]

theorem sendPong_evs (s : S) (pl : Bytes) : evsOf (sendPong s pl).log = evsOf s.log := by
  unfold sendPong
  split
  · rfl
  · split
    · exact evsOf_emit_raised _ _
    · exact sendFrame_evs _ _ _ _ _ _ _

/-! ### header steps that end the run -/

theorem applyViolations_Failed (s : S) (vs : List HV) (hne : vs ≠ []) (hf : s.cfg.failByDrop = true)
    (hst : s.st ≠ .closed) :
    (applyViolations s vs).2 = true ∧ Failed s (applyViolations s vs).1 := by
  cases vs with
  | nil => exact absurd rfl hne
  | cons v vs =>
    unfold applyViolations
    have hv := violation_Failed s 1002 hf hst
    generalize violation s 1002 = r at hv
    obtain ⟨s', stop⟩ := r
    simp only at hv
    simp [hv.2, hv.1]

theorem extLenStep_bad (s : S) (l p : Nat) (h : extLenOk l p = false) (hf : s.cfg.failByDrop = true)
    (hst : s.st ≠ .closed) : (extLenStep s l p).2 = true ∧ Failed s (extLenStep s l p).1 := by
  have hv := violation_Failed s 1002 hf hst
  unfold extLenOk at h
  unfold extLenStep
  by_cases h1 : l = 126
  · subst h1
    simp only [if_true, decide_eq_false_iff_not] at h
    have : p < 126 := by omega
    simp [this, hv.1, hv.2]
  · by_cases h2 : l = 127
    · subst h2
      simp only [h1, if_true, if_false, Bool.and_eq_false_iff, decide_eq_false_iff_not] at h
      by_cases a : p > 0x7FFFFFFFFFFFFFFF
      · simp [a, hv.1, hv.2]
      · have b : p < 65536 := by omega
        simp [a, b, hv.1, hv.2]
    · simp [h1, h2] at h

theorem drain_stop (F : Nat) (s x : S) (buf b : Bytes) (h : processData s buf = (x, b, false)) :
    drain (F + 1) s buf = (x, b) := by
  rw [drain_one, h]; simp

theorem drain_stop2 (F : Nat) (s : S) (buf : Bytes) (h : (processData s buf).2.2 = false) :
    (drain (F + 1) s buf).1 = (processData s buf).1 := by
  rw [drain_one, h]; simp

theorem processHeader_viol (s : S) (o0 o1 : UInt8) (buf : Bytes)
    (hv : headerViolations s.cfg s.insideMessage (Hd.ofOctets o0 o1).fin (Hd.ofOctets o0 o1).rsv
      (Hd.ofOctets o0 o1).opcode (Hd.ofOctets o0 o1).masked (Hd.ofOctets o0 o1).len7 ≠ [])
    (hf : s.cfg.failByDrop = true) (hst : s.st ≠ .closed) :
    (processHeader s o0 o1 buf).2.2 = false ∧ Failed s (processHeader s o0 o1 buf).1 := by
  have ha := applyViolations_Failed s _ hv hf hst
  unfold processHeader
  unfold Hd.ofOctets at *
  simp only at *
  simp only [ha.1, if_true]
  exact ⟨trivial, ha.2⟩

theorem processHeader_short (s : S) (o0 o1 : UInt8) (rest2 : Bytes)
    (hv : headerViolations s.cfg s.insideMessage (Hd.ofOctets o0 o1).fin (Hd.ofOctets o0 o1).rsv
      (Hd.ofOctets o0 o1).opcode (Hd.ofOctets o0 o1).masked (Hd.ofOctets o0 o1).len7 = [])
    (hlen : rest2.length < (Hd.ofOctets o0 o1).extN + (Hd.ofOctets o0 o1).keyN) :
    processHeader s o0 o1 (o0 :: o1 :: rest2) = (s, o0 :: o1 :: rest2, false) := by
  have hh := headerLen_hd (Hd.ofOctets o0 o1)
  unfold processHeader
  unfold Hd.ofOctets at *
  simp only at *
  have hav : applyViolations s [] = (s, false) := rfl
  simp only [hv, hav, Bool.false_eq_true, if_false]
  have hl : ¬ (o0 :: o1 :: rest2).length ≥ headerLen (decide (o1.toNat / 128 = 1)) (o1.toNat % 128) := by
    rw [hh]; simp only [List.length_cons]; omega
  simp only [hl, if_false]

theorem processHeader_extbad (s : S) (o0 o1 : UInt8) (rest2 : Bytes)
    (hv : headerViolations s.cfg s.insideMessage (Hd.ofOctets o0 o1).fin (Hd.ofOctets o0 o1).rsv
      (Hd.ofOctets o0 o1).opcode (Hd.ofOctets o0 o1).masked (Hd.ofOctets o0 o1).len7 = [])
    (hlen : (Hd.ofOctets o0 o1).extN + (Hd.ofOctets o0 o1).keyN ≤ rest2.length)
    (hext : extLenOk (Hd.ofOctets o0 o1).len7 ((Hd.ofOctets o0 o1).plen rest2) = false)
    (hf : s.cfg.failByDrop = true) (hst : s.st ≠ .closed) :
    (processHeader s o0 o1 (o0 :: o1 :: rest2)).2.2 = false ∧
    Failed s (processHeader s o0 o1 (o0 :: o1 :: rest2)).1 := by
  have hh := headerLen_hd (Hd.ofOctets o0 o1)
  have hb := extLenStep_bad s (Hd.ofOctets o0 o1).len7 ((Hd.ofOctets o0 o1).plen rest2) hext hf hst
  unfold processHeader
  unfold Hd.ofOctets Hd.plen Hd.extN at *
  simp only at *
  have hav : applyViolations s [] = (s, false) := rfl
  simp only [hv, hav, Bool.false_eq_true, if_false]
  have hl : (o0 :: o1 :: rest2).length ≥ headerLen (decide (o1.toNat / 128 = 1)) (o1.toNat % 128) := by
    rw [hh]; simp only [List.length_cons]; omega
  simp only [hl, if_true]
  have e : List.drop 2 (o0 :: o1 :: rest2) = rest2 := rfl
  simp only [e, hb.1, if_true]
  exact ⟨trivial, hb.2⟩

/-! ### a data frame at the loop level -/

theorem unmaskAvail_nil (c : Ctx) (k : Option Abverif.Xor.Key) : unmaskAvail c k [] = [] := by
  unfold unmaskAvail
  cases k with
  | none => rfl
  | some k => cases c.applyMask <;> simp [Abverif.Xor.spec, Abverif.Xor.specBytes]

theorem uAfter_nil (j : J) : uAfter j [] = j.utf8 := by
  unfold uAfter; split <;> rfl

theorem Rel.WF {c : Ctx} {s : S} {j : J} (hr : Rel c s j) : WF s := by
  intro h hh; rw [hr.cur] at hh; cases hh

theorem Rel.open_ne {c : Ctx} {s : S} {j : J} (hr : Rel c s j) : s.st ≠ .closed := by
  rw [hr.q.st]; decide

/-- going on behind a processed frame: the rest may be empty -/
theorem drain_rest (c : Ctx) (s' : S) (j' : J) (rest : Bytes) (F F' : Nat) (hr : Rel c s' j')
    (hF : mu s' rest < F) (hF' : 0 < F' ∧ (rest ≠ [] → mu s' rest < F')) :
    (if decide (rest.length > 0) && decide (s'.st ≠ .closed) then drain F' s' rest else (s', rest)) = drain F s' rest := by
  by_cases hne : rest = []
  · subst hne
    cases F with
    | zero => omega
    | succ F =>
      simp only [List.length_nil, Nat.lt_irrefl, decide_false, Bool.false_and, Bool.false_eq_true, if_false]
      rw [drain_stop F s' s' [] [] (processData_short s' [] hr.cur (by simp))]
  · have hpos : rest.length > 0 := by
      cases rest with
      | nil => exact absurd rfl hne
      | cons _ _ => simp
    simp only [hpos, decide_true, Bool.true_and, hr.open_ne, ne_eq, not_false_eq_true, if_true]
    exact drain_fuel F' F s' rest hr.WF hr.q.fbd hr.open_ne (hF'.2 hne) hF

/-- what a step of the judge means for the engine's loop -/
def StepAgree (c : Ctx) (s : S) (buf : Bytes) (F : Nat) : JStep → Prop
  | .next j' rest => ∃ s', Rel c s' j' ∧ rest.length + 2 ≤ buf.length ∧ drain F s buf = drain F s' rest
  | .done evs v r => Agree c (drain F s buf).1 evs v r

theorem data_refines (c : Ctx) (s : S) (j : J) (o0 o1 : UInt8) (rest2 : Bytes) (F : Nat) (hr : Rel c s j)
    (hv : headerViolations s.cfg s.insideMessage (Hd.ofOctets o0 o1).fin (Hd.ofOctets o0 o1).rsv
      (Hd.ofOctets o0 o1).opcode (Hd.ofOctets o0 o1).masked (Hd.ofOctets o0 o1).len7 = [])
    (hlen : (Hd.ofOctets o0 o1).extN + (Hd.ofOctets o0 o1).keyN ≤ rest2.length)
    (hext : extLenOk (Hd.ofOctets o0 o1).len7 ((Hd.ofOctets o0 o1).plen rest2) = true)
    (hop : ¬ (Hd.ofOctets o0 o1).opcode ≥ 8)
    (hF : mu s (o0 :: o1 :: rest2) < F) :
    StepAgree c s (o0 :: o1 :: rest2) F
      (judgeData c j (o0 :: o1 :: rest2).length (Hd.ofOctets o0 o1) ((Hd.ofOctets o0 o1).plen rest2)
        (unmaskAvail c ((Hd.ofOctets o0 o1).key rest2)
          ((rest2.drop ((Hd.ofOctets o0 o1).extN + (Hd.ofOctets o0 o1).keyN)).take ((Hd.ofOctets o0 o1).plen rest2)))
        (decide ((rest2.drop ((Hd.ofOctets o0 o1).extN + (Hd.ofOctets o0 o1).keyN)).length
          ≥ (Hd.ofOctets o0 o1).plen rest2))
        ((rest2.drop ((Hd.ofOctets o0 o1).extN + (Hd.ofOctets o0 o1).keyN)).drop ((Hd.ofOctets o0 o1).plen rest2))) := by
  have e1 := processData_none s o0 o1 rest2 hr.cur
  have e2 := processHeader_run s o0 o1 rest2 hv hlen hext
  have hmu : mu s (o0 :: o1 :: rest2) = 2 * (rest2.length + 2) := by
    unfold mu; simp [hr.cur]
  generalize Hd.ofOctets o0 o1 = h at *
  generalize hbody : rest2.drop (h.extN + h.keyN) = body at *
  have hbl : body.length + 2 ≤ (o0 :: o1 :: rest2).length := by
    rw [← hbody]; simp only [List.length_drop, List.length_cons]; omega
  generalize hum : (h.masked && decide (h.plen rest2 > 0) && s.cfg.applyMask) = um at *
  have hd : ¬ (hdrRec h rest2).opcode > 7 := by
    show ¬ h.opcode > 7; omega
  have ob := onFrameBegin_data_eq { s with cur := some (hdrRec h rest2), ptr := 0, unmask := um } (hdrRec h rest2)
    hd hr.q.nf
  have hm := dataBegin_Mid c s j h rest2 um hr
  have ol := overLimit_eq c s j h rest2 um hr
  rw [ob] at e2
  generalize hsB : dataBegin { s with cur := some (hdrRec h rest2), ptr := 0, unmask := um } (hdrRec h rest2) = sB at *
  have hun : unmaskChunk sB (hdrRec h rest2) (body.take (h.plen rest2))
      = unmaskAvail c (h.key rest2) (body.take (h.plen rest2)) := by
    apply unmaskChunk_eq c sB h rest2 _ hm.q.ctx hm.ptr
    · rw [hm.unmask, ← hum]
      have : sB.cfg = s.cfg := by rw [← hsB]; simp [dataBegin, openMsg_cfg]
      rw [this]
    · intro hz; rw [hz]; rfl
  obtain ⟨F, rfl⟩ : ∃ F', F = F' + 2 := ⟨F - 2, by omega⟩
  have hd1 := drain_one (F + 1) s (o0 :: o1 :: rest2)
  rw [e1, e2] at hd1
  simp only [] at hd1
  by_cases hover : overLimit { s with cur := some (hdrRec h rest2), ptr := 0, unmask := um } (hdrRec h rest2) = true
  · -- a limit is exceeded at the header
    have hfc := failConnection_Failed sB 1009 hm.q.fbd (by rw [hm.q.st]; decide)
    have hj : ((0 < c.maxMsg && c.maxMsg < (j.enter c h (h.plen rest2)).total) = true) ∨
        ((0 < c.maxFrame && c.maxFrame < h.plen rest2) = true) := by
      rw [ol] at hover
      simpa [Bool.or_eq_true] using hover
    simp only [hover, if_true, hfc.1, ne_eq, not_true_eq_false, decide_false, Bool.and_false, Bool.false_eq_true,
      if_false] at hd1
    have hag : Agree c (drain (F + 1 + 1) s (o0 :: o1 :: rest2)).1 (j.enter c h (h.plen rest2)).evs (.fail 1009)
        (o0 :: o1 :: rest2).length := by
      rw [hd1]
      exact Agree.of_Failed c sB _ _ 1009 _ hfc hm.evs
    have hjd : judgeData c j (o0 :: o1 :: rest2).length h (h.plen rest2)
        (unmaskAvail c (h.key rest2) (body.take (h.plen rest2))) (decide (body.length ≥ h.plen rest2))
        (body.drop (h.plen rest2)) = .done (j.enter c h (h.plen rest2)).evs (.fail 1009) (o0 :: o1 :: rest2).length := by
      unfold judgeData
      rcases hj with hj | hj
      · simp only [hj, if_true]
      · by_cases hj0 : (0 < c.maxMsg && c.maxMsg < (j.enter c h (h.plen rest2)).total) = true
        · simp only [hj0, if_true]
        · simp only [hj0, hj, if_true, Bool.false_eq_true, if_false]
    rw [hjd]
    exact hag
  · have hover' : overLimit { s with cur := some (hdrRec h rest2), ptr := 0, unmask := um } (hdrRec h rest2)
        = false := by simpa using hover
    have hjA : (0 < c.maxMsg && c.maxMsg < (j.enter c h (h.plen rest2)).total) = false ∧
        (0 < c.maxFrame && c.maxFrame < h.plen rest2) = false := by
      rw [ol] at hover'
      simpa [Bool.or_eq_false_iff] using hover'
    simp only [hover', Bool.false_eq_true, if_false] at hd1
    have hopen : sB.st ≠ .closed := by rw [hm.q.st]; decide
    simp only [hopen, ne_eq, not_false_eq_true, decide_true, Bool.and_true] at hd1
    have pr := payload_refines c sB (j.enter c h (h.plen rest2)) (hdrRec h rest2) um body hm hd
    have hlenhdr : (hdrRec h rest2).length = h.plen rest2 := rfl
    rw [hlenhdr, hun] at pr
    generalize unmaskAvail c (h.key rest2) (body.take (h.plen rest2)) = un at *
    generalize hj1 : j.enter c h (h.plen rest2) = j1 at *
    have pds := processData_some sB (hdrRec h rest2) body hm.cur
    -- the judge behind the limit tests
    have hjd0 : judgeData c j (o0 :: o1 :: rest2).length h (h.plen rest2) un (decide (body.length ≥ h.plen rest2))
        (body.drop (h.plen rest2)) =
        (if uAfter j1 un = .rej then .done j1.evs (.fail 1007) (o0 :: o1 :: rest2).length else
         if !decide (body.length ≥ h.plen rest2) then .done j1.evs .ok (o0 :: o1 :: rest2).length else
         if h.fin then
           if (j1.after un).validate && !(j1.after un).compressed && decide (uAfter j1 un ≠ .s0)
           then .done (j1.after un).evs (.fail 1007) (o0 :: o1 :: rest2).length
           else .next (j1.after un).deliver (body.drop (h.plen rest2))
         else .next (j1.after un) (body.drop (h.plen rest2))) := by
      unfold judgeData
      simp only [hj1, hjA.1, hjA.2, Bool.false_eq_true, if_false]
      rfl
    rw [hjd0]
    by_cases hu : uAfter j1 un = .rej
    · -- invalid UTF-8 in the octets present
      simp only [hu, if_true]
      have hbne : body ≠ [] := by
        intro hb
        have hun0 : un = [] := by
          have := hun
          rw [hb] at this
          simp only [List.take_nil] at this
          rw [← this]
          unfold unmaskChunk; split
          · split <;> simp [Abverif.Xor.spec, Abverif.Xor.specBytes]
          · rfl
        rw [hun0, uAfter_nil] at hu
        exact hm.msg.notRej hu
      have hbl0 : body.length > 0 := by
        cases body with
        | nil => exact absurd rfl hbne
        | cons _ _ => simp
      simp only [hbl0, decide_true, Bool.or_true, if_true] at hd1
      have hp := pr.1 hu
      show Agree c (drain (F + 1 + 1) s (o0 :: o1 :: rest2)).1 j1.evs (.fail 1007) (o0 :: o1 :: rest2).length
      rw [hd1, drain_stop2 F sB body (by rw [pds]; exact hp.1), pds]
      exact Agree.of_Failed c sB _ _ 1007 _ hp.2 hm.evs
    · simp only [hu, if_false]
      by_cases hcomp : body.length ≥ h.plen rest2
      · -- the whole frame is there
        simp only [hcomp, decide_true, Bool.not_true, Bool.false_eq_true, if_false]
        have hfl : (decide (h.plen rest2 = 0) || decide (body.length > 0)) = true := by
          by_cases hz : h.plen rest2 = 0
          · simp [hz]
          · have : body.length > 0 := by omega
            simp [this]
        simp only [hfl, if_true] at hd1
        have hrl : (body.drop (h.plen rest2)).length + 2 ≤ (o0 :: o1 :: rest2).length := by
          simp only [List.length_drop]; omega
        have hFF : 2 * (body.drop (h.plen rest2)).length < F := by
          simp only [List.length_drop, List.length_cons] at hbl ⊢
          omega
        cases hfin : h.fin with
        | false =>
          simp only [Bool.false_eq_true, if_false]
          have hp := pr.2.2.1 hu hcomp hfin
          have hmu' : mu { frameDone sB (h.plen rest2) un with cur := none } (body.drop (h.plen rest2))
              = 2 * (body.drop (h.plen rest2)).length := by
            unfold mu; simp
          refine ⟨_, hp.2, hrl, ?_⟩
          rw [hd1, drain_one, pds, hp.1]
          exact drain_rest c _ _ _ _ _ hp.2 (by rw [hmu']; omega) ⟨by omega, fun _ => by rw [hmu']; omega⟩
        | true =>
          simp only [if_true]
          by_cases hb : ((j1.after un).validate && !(j1.after un).compressed && decide (uAfter j1 un ≠ .s0)) = true
          · simp only [hb, if_true]
            have hp := pr.2.2.2.1 hu hcomp hfin hb
            show Agree c (drain (F + 1 + 1) s (o0 :: o1 :: rest2)).1 (j1.after un).evs (.fail 1007) (o0 :: o1 :: rest2).length
            rw [hd1, drain_stop2 F sB body (by rw [pds]; exact hp.1), pds]
            exact Agree.of_Failed c sB _ _ 1007 _ hp.2 hm.evs
          · have hb' : ((j1.after un).validate && !(j1.after un).compressed && decide (uAfter j1 un ≠ .s0)) = false := by
              simpa using hb
            simp only [hb', Bool.false_eq_true, if_false]
            obtain ⟨s', e', hr'⟩ := pr.2.2.2.2 hu hcomp hfin hb'
            have hmu' : mu s' (body.drop (h.plen rest2)) = 2 * (body.drop (h.plen rest2)).length := by
              unfold mu; simp [hr'.cur]
            refine ⟨s', hr', hrl, ?_⟩
            rw [hd1, drain_one, pds, e']
            exact drain_rest c _ _ _ _ _ hr' (by rw [hmu']; omega) ⟨by omega, fun _ => by rw [hmu']; omega⟩
      · -- only a part of the payload is there
        simp only [hcomp, decide_false, Bool.not_false, if_true]
        have hlt : body.length < h.plen rest2 := by omega
        show Agree c (drain (F + 1 + 1) s (o0 :: o1 :: rest2)).1 j1.evs .ok (o0 :: o1 :: rest2).length
        rw [hd1]
        by_cases hfl : (decide (h.plen rest2 = 0) || decide (body.length > 0)) = true
        · simp only [hfl, if_true]
          have hp := pr.2.1 hu hlt
          rw [drain_stop F sB _ body [] (by rw [pds]; exact hp)]
          have q := afterChunk_quiet c sB body.length un hm.q
          exact ⟨by simp only [afterChunk]; exact hm.evs, q.st, q.nf⟩
        · simp only [hfl, Bool.false_eq_true, if_false]
          exact ⟨hm.evs, hm.q.st, hm.q.nf⟩

end Abverif.Ws
