import Abverif.Proofs.Lemmas.WsJudge
/-
Refinement of the receive model to the whole-stream judge, part 2: the loop.
-/
namespace Abverif.Ws
open Abverif.WsSpec

/-! ### sending never adds a receive event to the log -/

theorem evsOf_emit_write (s : S) (d : Bytes) : evsOf (s.emit (.write d)).log = evsOf s.log := by
  simp [S.emit, evsOf, List.filterMap_append, evOfOut]

theorem evsOf_emit_raised (s : S) (e : Err) : evsOf (s.emit (.raised e)).log = evsOf s.log := by
  simp [S.emit, evsOf, List.filterMap_append, evOfOut]

theorem sendTick_evs (s : S) : evsOf (sendTick s).log = evsOf s.log := by
  unfold sendTick
  split
  · dsimp only
    split
    · simp [S.timer, S.emit, evsOf, List.filterMap_append, evOfOut]
    · simp [S.timer]
  · rfl

theorem trigger_evs (s : S) : evsOf (trigger s).log = evsOf s.log := by
  unfold trigger
  split
  · rw [sendTick_evs]
  · rfl

theorem sendData_evs (s : S) (d : Bytes) (sync : Bool) (chop : Nat) :
    evsOf (sendData s d sync chop).log = evsOf s.log := by
  unfold sendData
  split
  · rw [trigger_evs]
  · split
    · rw [trigger_evs]
    · split
      · exact evsOf_emit_raised _ _
      · exact evsOf_emit_write _ _

theorem sendFrame_evs (s : S) (opcode : Nat) (pl : Bytes) (fin : Bool) (rsv : Nat) (sync : Bool) (chop : Nat) :
    evsOf (sendFrame s opcode pl fin rsv sync chop).log = evsOf s.log := by
  unfold sendFrame
  dsimp only
  have hk : (drawKey s).1.log = s.log := by unfold drawKey; split <;> rfl
  split
  · rw [evsOf_emit_raised, hk]
  · rw [sendData_evs]
    show evsOf (drawKey s).1.log = _
    rw [hk]

theorem sendPong_evs (s : S) (pl : Bytes) : evsOf (sendPong s pl).log = evsOf s.log := by
  unfold sendPong
  split
  · rfl
  · split
    · exact evsOf_emit_raised _ _
    · exact sendFrame_evs _ _ _ _ _ _ _

/-! ### header steps that end the run -/

theorem applyViolations_Failed (s : S) (vs : List HV) (hne : vs ≠ []) (hf : s.cfg.failByDrop = true)
    (hst : s.st ≠ .closed) :
    (applyViolations s vs).2 = true ∧ Failed s (applyViolations s vs).1 := by
  cases vs with
  | nil => exact absurd rfl hne
  | cons v vs =>
    unfold applyViolations
    have hv := violation_Failed s 1002 hf hst
    generalize violation s 1002 = r at hv
    obtain ⟨s', stop⟩ := r
    simp only at hv
    simp [hv.2, hv.1]

theorem extLenStep_bad (s : S) (l p : Nat) (h : extLenOk l p = false) (hf : s.cfg.failByDrop = true)
    (hst : s.st ≠ .closed) : (extLenStep s l p).2 = true ∧ Failed s (extLenStep s l p).1 := by
  have hv := violation_Failed s 1002 hf hst
  unfold extLenOk at h
  unfold extLenStep
  by_cases h1 : l = 126
  · subst h1
    simp only [if_true, decide_eq_false_iff_not] at h
    have : p < 126 := by omega
    simp [this, hv.1, hv.2]
  · by_cases h2 : l = 127
    · subst h2
      simp only [h1, if_true, if_false, Bool.and_eq_false_iff, decide_eq_false_iff_not] at h
      by_cases a : p > 0x7FFFFFFFFFFFFFFF
      · simp [a, hv.1, hv.2]
      · have b : p < 65536 := by omega
        simp [a, b, hv.1, hv.2]
    · simp [h1, h2] at h

theorem drain_stop (F : Nat) (s x : S) (buf b : Bytes) (hwc : s.wasClean = false)
    (h : processData s buf = (x, b, false)) : drain (F + 1) s buf = (x, b) := by
  rw [drain_one _ _ _ hwc, h]; simp

theorem drain_stop2 (F : Nat) (s : S) (buf : Bytes) (hwc : s.wasClean = false)
    (h : (processData s buf).2.2 = false) : (drain (F + 1) s buf).1 = (processData s buf).1 := by
  rw [drain_one _ _ _ hwc, h]; simp

/-- once the peer's close frame has been taken in, the loop does nothing -/
theorem drain_wasClean (F : Nat) (s : S) (buf : Bytes) (h : s.wasClean = true) : drain F s buf = (s, buf) := by
  cases F with
  | zero => rfl
  | succ F => rw [drain]; simp [h]

theorem processHeader_viol (s : S) (o0 o1 : UInt8) (buf : Bytes)
    (hv : headerViolations s.cfg s.insideMessage (Hd.ofOctets o0 o1).fin (Hd.ofOctets o0 o1).rsv
      (Hd.ofOctets o0 o1).opcode (Hd.ofOctets o0 o1).masked (Hd.ofOctets o0 o1).len7 ≠ [])
    (hf : s.cfg.failByDrop = true) (hst : s.st ≠ .closed) :
    (processHeader s o0 o1 buf).2.2 = false ∧ Failed s (processHeader s o0 o1 buf).1 := by
  have ha := applyViolations_Failed s _ hv hf hst
  unfold processHeader
  unfold Hd.ofOctets at *
  simp only at *
  simp only [ha.1, if_true]
  exact ⟨trivial, ha.2⟩

theorem processHeader_short (s : S) (o0 o1 : UInt8) (rest2 : Bytes)
    (hv : headerViolations s.cfg s.insideMessage (Hd.ofOctets o0 o1).fin (Hd.ofOctets o0 o1).rsv
      (Hd.ofOctets o0 o1).opcode (Hd.ofOctets o0 o1).masked (Hd.ofOctets o0 o1).len7 = [])
    (hlen : rest2.length < (Hd.ofOctets o0 o1).extN + (Hd.ofOctets o0 o1).keyN) :
    processHeader s o0 o1 (o0 :: o1 :: rest2) = (s, o0 :: o1 :: rest2, false) := by
  have hh := headerLen_hd (Hd.ofOctets o0 o1)
  unfold processHeader
  unfold Hd.ofOctets at *
  simp only at *
  have hav : applyViolations s [] = (s, false) := rfl
  simp only [hv, hav, Bool.false_eq_true, if_false]
  have hl : ¬ (o0 :: o1 :: rest2).length ≥ headerLen (decide (o1.toNat / 128 = 1)) (o1.toNat % 128) := by
    rw [hh]; simp only [List.length_cons]; omega
  simp only [hl, if_false]

theorem processHeader_extbad (s : S) (o0 o1 : UInt8) (rest2 : Bytes)
    (hv : headerViolations s.cfg s.insideMessage (Hd.ofOctets o0 o1).fin (Hd.ofOctets o0 o1).rsv
      (Hd.ofOctets o0 o1).opcode (Hd.ofOctets o0 o1).masked (Hd.ofOctets o0 o1).len7 = [])
    (hlen : (Hd.ofOctets o0 o1).extN + (Hd.ofOctets o0 o1).keyN ≤ rest2.length)
    (hext : extLenOk (Hd.ofOctets o0 o1).len7 ((Hd.ofOctets o0 o1).plen rest2) = false)
    (hf : s.cfg.failByDrop = true) (hst : s.st ≠ .closed) :
    (processHeader s o0 o1 (o0 :: o1 :: rest2)).2.2 = false ∧
    Failed s (processHeader s o0 o1 (o0 :: o1 :: rest2)).1 := by
  have hh := headerLen_hd (Hd.ofOctets o0 o1)
  have hb := extLenStep_bad s (Hd.ofOctets o0 o1).len7 ((Hd.ofOctets o0 o1).plen rest2) hext hf hst
  unfold processHeader
  unfold Hd.ofOctets Hd.plen Hd.extN at *
  simp only at *
  have hav : applyViolations s [] = (s, false) := rfl
  simp only [hv, hav, Bool.false_eq_true, if_false]
  have hl : (o0 :: o1 :: rest2).length ≥ headerLen (decide (o1.toNat / 128 = 1)) (o1.toNat % 128) := by
    rw [hh]; simp only [List.length_cons]; omega
  simp only [hl, if_true]
  have e : List.drop 2 (o0 :: o1 :: rest2) = rest2 := rfl
  simp only [e, hb.1, if_true]
  exact ⟨trivial, hb.2⟩

/-! ### a data frame at the loop level -/

theorem unmaskAvail_nil (c : Ctx) (k : Option Abverif.Xor.Key) : unmaskAvail c k [] = [] := by
  unfold unmaskAvail
  cases k with
  | none => rfl
  | some k => cases c.applyMask <;> simp [Abverif.Xor.spec, Abverif.Xor.specBytes]

theorem uAfter_nil (j : J) : uAfter j [] = j.utf8 := by
  unfold uAfter; split <;> rfl

theorem Rel.WF {c : Ctx} {s : S} {j : J} (hr : Rel c s j) : WF s := by
  intro h hh; rw [hr.cur] at hh; cases hh

theorem Rel.open_ne {c : Ctx} {s : S} {j : J} (hr : Rel c s j) : s.st ≠ .closed := by
  rw [hr.q.st]; decide

/-- going on behind a processed frame: the rest may be empty -/
theorem drain_rest (c : Ctx) (s' : S) (j' : J) (rest : Bytes) (F F' : Nat) (hr : Rel c s' j')
    (hF : mu s' rest < F) (hF' : 0 < F' ∧ (rest ≠ [] → mu s' rest < F')) :
    (if decide (rest.length > 0) && decide (s'.st ≠ .closed) then drain F' s' rest else (s', rest)) = drain F s' rest := by
  by_cases hne : rest = []
  · subst hne
    cases F with
    | zero => omega
    | succ F =>
      simp only [List.length_nil, Nat.lt_irrefl, decide_false, Bool.false_and, Bool.false_eq_true, if_false]
      rw [drain_stop F s' s' [] [] hr.q.wc (processData_short s' [] hr.cur (by simp))]
  · have hpos : rest.length > 0 := by
      cases rest with
      | nil => exact absurd rfl hne
      | cons _ _ => simp
    simp only [hpos, decide_true, Bool.true_and, hr.open_ne, ne_eq, not_false_eq_true, if_true]
    exact drain_fuel F' F s' rest hr.WF hr.q.fbd hr.open_ne (hF'.2 hne) hF

/-- what a step of the judge means for the engine's loop -/
def StepAgree (c : Ctx) (s : S) (buf : Bytes) (F : Nat) : JStep → Prop
  | .next j' rest => ∃ s', Rel c s' j' ∧ rest.length + 2 ≤ buf.length ∧ drain F s buf = drain F s' rest
  | .done evs v r => Agree c (drain F s buf).1 evs v r

theorem data_refines (c : Ctx) (s : S) (j : J) (o0 o1 : UInt8) (rest2 : Bytes) (F : Nat) (hr : Rel c s j)
    (hv : headerViolations s.cfg s.insideMessage (Hd.ofOctets o0 o1).fin (Hd.ofOctets o0 o1).rsv
      (Hd.ofOctets o0 o1).opcode (Hd.ofOctets o0 o1).masked (Hd.ofOctets o0 o1).len7 = [])
    (hlen : (Hd.ofOctets o0 o1).extN + (Hd.ofOctets o0 o1).keyN ≤ rest2.length)
    (hext : extLenOk (Hd.ofOctets o0 o1).len7 ((Hd.ofOctets o0 o1).plen rest2) = true)
    (hop : ¬ (Hd.ofOctets o0 o1).opcode ≥ 8)
    (hF : mu s (o0 :: o1 :: rest2) < F) :
    StepAgree c s (o0 :: o1 :: rest2) F
      (judgeData c j (o0 :: o1 :: rest2).length (Hd.ofOctets o0 o1) ((Hd.ofOctets o0 o1).plen rest2)
        (unmaskAvail c ((Hd.ofOctets o0 o1).key rest2)
          ((rest2.drop ((Hd.ofOctets o0 o1).extN + (Hd.ofOctets o0 o1).keyN)).take ((Hd.ofOctets o0 o1).plen rest2)))
        (decide ((rest2.drop ((Hd.ofOctets o0 o1).extN + (Hd.ofOctets o0 o1).keyN)).length
          ≥ (Hd.ofOctets o0 o1).plen rest2))
        ((rest2.drop ((Hd.ofOctets o0 o1).extN + (Hd.ofOctets o0 o1).keyN)).drop ((Hd.ofOctets o0 o1).plen rest2))) := by
  have e1 := processData_none s o0 o1 rest2 hr.cur
  have e2 := processHeader_run s o0 o1 rest2 hv hlen hext
  have hmu : mu s (o0 :: o1 :: rest2) = 2 * (rest2.length + 2) := by
    unfold mu; simp [hr.cur]
  generalize Hd.ofOctets o0 o1 = h at *
  generalize hbody : rest2.drop (h.extN + h.keyN) = body at *
  have hbl : body.length + 2 ≤ (o0 :: o1 :: rest2).length := by
    rw [← hbody]; simp only [List.length_drop, List.length_cons]; omega
  generalize hum : (h.masked && decide (h.plen rest2 > 0) && s.cfg.applyMask) = um at *
  have hd : ¬ (hdrRec h rest2).opcode > 7 := by
    show ¬ h.opcode > 7; omega
  have ob := onFrameBegin_data_eq { s with cur := some (hdrRec h rest2), ptr := 0, unmask := um } (hdrRec h rest2)
    hd hr.q.nf
  have hm := dataBegin_Mid c s j h rest2 um hr
  have ol := overLimit_eq c s j h rest2 um hr
  rw [ob] at e2
  generalize hsB : dataBegin { s with cur := some (hdrRec h rest2), ptr := 0, unmask := um } (hdrRec h rest2) = sB at *
  have hun : unmaskChunk sB (hdrRec h rest2) (body.take (h.plen rest2))
      = unmaskAvail c (h.key rest2) (body.take (h.plen rest2)) := by
    apply unmaskChunk_eq c sB h rest2 _ hm.q.ctx hm.ptr
    · rw [hm.unmask, ← hum]
      have : sB.cfg = s.cfg := by rw [← hsB]; simp [dataBegin, openMsg_cfg]
      rw [this]
    · intro hz; rw [hz]; rfl
  obtain ⟨F, rfl⟩ : ∃ F', F = F' + 2 := ⟨F - 2, by omega⟩
  have hd1 := drain_one (F + 1) s (o0 :: o1 :: rest2) hr.q.wc
  rw [e1, e2] at hd1
  simp only [] at hd1
  by_cases hover : overLimit { s with cur := some (hdrRec h rest2), ptr := 0, unmask := um } (hdrRec h rest2) = true
  · -- a limit is exceeded at the header
    have hfc := failConnection_Failed sB 1009 hm.q.fbd (by rw [hm.q.st]; decide)
    have hj : ((0 < c.maxMsg && c.maxMsg < (j.enter c h (h.plen rest2)).total) = true) ∨
        ((0 < c.maxFrame && c.maxFrame < h.plen rest2) = true) := by
      rw [ol] at hover
      simpa [Bool.or_eq_true] using hover
    simp only [hover, if_true, hfc.1, ne_eq, not_true_eq_false, decide_false, Bool.and_false, Bool.false_eq_true,
      if_false] at hd1
    have hag : Agree c (drain (F + 1 + 1) s (o0 :: o1 :: rest2)).1 (j.enter c h (h.plen rest2)).evs (.fail 1009)
        (o0 :: o1 :: rest2).length := by
      rw [hd1]
      exact Agree.of_Failed c sB _ _ 1009 _ hfc hm.evs
    have hjd : judgeData c j (o0 :: o1 :: rest2).length h (h.plen rest2)
        (unmaskAvail c (h.key rest2) (body.take (h.plen rest2))) (decide (body.length ≥ h.plen rest2))
        (body.drop (h.plen rest2)) = .done (j.enter c h (h.plen rest2)).evs (.fail 1009) (o0 :: o1 :: rest2).length := by
      unfold judgeData
      rcases hj with hj | hj
      · simp only [hj, if_true]
      · by_cases hj0 : (0 < c.maxMsg && c.maxMsg < (j.enter c h (h.plen rest2)).total) = true
        · simp only [hj0, if_true]
        · simp only [hj0, hj, if_true, Bool.false_eq_true, if_false]
    rw [hjd]
    exact hag
  · have hover' : overLimit { s with cur := some (hdrRec h rest2), ptr := 0, unmask := um } (hdrRec h rest2)
        = false := by simpa using hover
    have hjA : (0 < c.maxMsg && c.maxMsg < (j.enter c h (h.plen rest2)).total) = false ∧
        (0 < c.maxFrame && c.maxFrame < h.plen rest2) = false := by
      rw [ol] at hover'
      simpa [Bool.or_eq_false_iff] using hover'
    simp only [hover', Bool.false_eq_true, if_false] at hd1
    have hopen : sB.st ≠ .closed := by rw [hm.q.st]; decide
    simp only [hopen, ne_eq, not_false_eq_true, decide_true, Bool.and_true] at hd1
    have pr := payload_refines c sB (j.enter c h (h.plen rest2)) (hdrRec h rest2) um body hm hd
    have hlenhdr : (hdrRec h rest2).length = h.plen rest2 := rfl
    rw [hlenhdr, hun] at pr
    generalize unmaskAvail c (h.key rest2) (body.take (h.plen rest2)) = un at *
    generalize hj1 : j.enter c h (h.plen rest2) = j1 at *
    have pds := processData_some sB (hdrRec h rest2) body hm.cur
    -- the judge behind the limit tests
    have hjd0 : judgeData c j (o0 :: o1 :: rest2).length h (h.plen rest2) un (decide (body.length ≥ h.plen rest2))
        (body.drop (h.plen rest2)) =
        (if uAfter j1 un = .rej then .done j1.evs (.fail 1007) (o0 :: o1 :: rest2).length else
         if !decide (body.length ≥ h.plen rest2) then .done j1.evs .ok (o0 :: o1 :: rest2).length else
         if h.fin then
           if (j1.after un).validate && !(j1.after un).compressed && decide (uAfter j1 un ≠ .s0)
           then .done (j1.after un).evs (.fail 1007) (o0 :: o1 :: rest2).length
           else .next (j1.after un).deliver (body.drop (h.plen rest2))
         else .next (j1.after un) (body.drop (h.plen rest2))) := by
      unfold judgeData
      simp only [hj1, hjA.1, hjA.2, Bool.false_eq_true, if_false]
      rfl
    rw [hjd0]
    by_cases hu : uAfter j1 un = .rej
    · -- invalid UTF-8 in the octets present
      simp only [hu, if_true]
      have hbne : body ≠ [] := by
        intro hb
        have hun0 : un = [] := by
          have := hun
          rw [hb] at this
          simp only [List.take_nil] at this
          rw [← this]
          unfold unmaskChunk; split
          · split <;> simp [Abverif.Xor.spec, Abverif.Xor.specBytes]
          · rfl
        rw [hun0, uAfter_nil] at hu
        exact hm.msg.notRej hu
      have hbl0 : body.length > 0 := by
        cases body with
        | nil => exact absurd rfl hbne
        | cons _ _ => simp
      simp only [hbl0, decide_true, Bool.or_true, if_true] at hd1
      have hp := pr.1 hu
      show Agree c (drain (F + 1 + 1) s (o0 :: o1 :: rest2)).1 j1.evs (.fail 1007) (o0 :: o1 :: rest2).length
      rw [hd1, drain_stop2 F sB body hm.q.wc (by rw [pds]; exact hp.1), pds]
      exact Agree.of_Failed c sB _ _ 1007 _ hp.2 hm.evs
    · simp only [hu, if_false]
      by_cases hcomp : body.length ≥ h.plen rest2
      · -- the whole frame is there
        simp only [hcomp, decide_true, Bool.not_true, Bool.false_eq_true, if_false]
        have hfl : (decide (h.plen rest2 = 0) || decide (body.length > 0)) = true := by
          by_cases hz : h.plen rest2 = 0
          · simp [hz]
          · have : body.length > 0 := by omega
            simp [this]
        simp only [hfl, if_true] at hd1
        have hrl : (body.drop (h.plen rest2)).length + 2 ≤ (o0 :: o1 :: rest2).length := by
          simp only [List.length_drop]; omega
        have hFF : 2 * (body.drop (h.plen rest2)).length < F := by
          simp only [List.length_drop, List.length_cons] at hbl ⊢
          omega
        cases hfin : h.fin with
        | false =>
          simp only [Bool.false_eq_true, if_false]
          have hp := pr.2.2.1 hu hcomp hfin
          have hmu' : mu { frameDone sB (h.plen rest2) un with cur := none } (body.drop (h.plen rest2))
              = 2 * (body.drop (h.plen rest2)).length := by
            unfold mu; simp
          refine ⟨_, hp.2, hrl, ?_⟩
          rw [hd1, drain_one _ _ _ hm.q.wc, pds, hp.1]
          exact drain_rest c _ _ _ _ _ hp.2 (by rw [hmu']; omega) ⟨by omega, fun _ => by rw [hmu']; omega⟩
        | true =>
          simp only [if_true]
          by_cases hb : ((j1.after un).validate && !(j1.after un).compressed && decide (uAfter j1 un ≠ .s0)) = true
          · simp only [hb, if_true]
            have hp := pr.2.2.2.1 hu hcomp hfin hb
            show Agree c (drain (F + 1 + 1) s (o0 :: o1 :: rest2)).1 (j1.after un).evs (.fail 1007) (o0 :: o1 :: rest2).length
            rw [hd1, drain_stop2 F sB body hm.q.wc (by rw [pds]; exact hp.1), pds]
            exact Agree.of_Failed c sB _ _ 1007 _ hp.2 hm.evs
          · have hb' : ((j1.after un).validate && !(j1.after un).compressed && decide (uAfter j1 un ≠ .s0)) = false := by
              simpa using hb
            simp only [hb', Bool.false_eq_true, if_false]
            obtain ⟨s', e', hr'⟩ := pr.2.2.2.2 hu hcomp hfin hb'
            have hmu' : mu s' (body.drop (h.plen rest2)) = 2 * (body.drop (h.plen rest2)).length := by
              unfold mu; simp [hr'.cur]
            refine ⟨s', hr', hrl, ?_⟩
            rw [hd1, drain_one _ _ _ hm.q.wc, pds, e']
            exact drain_rest c _ _ _ _ _ hr' (by rw [hmu']; omega) ⟨by omega, fun _ => by rw [hmu']; omega⟩
      · -- only a part of the payload is there
        simp only [hcomp, decide_false, Bool.not_false, if_true]
        have hlt : body.length < h.plen rest2 := by omega
        show Agree c (drain (F + 1 + 1) s (o0 :: o1 :: rest2)).1 j1.evs .ok (o0 :: o1 :: rest2).length
        rw [hd1]
        by_cases hfl : (decide (h.plen rest2 = 0) || decide (body.length > 0)) = true
        · simp only [hfl, if_true]
          have hp := pr.2.1 hu hlt
          rw [drain_stop F sB _ body [] hm.q.wc (by rw [pds]; exact hp)]
          have q := afterChunk_quiet c sB body.length un hm.q
          exact ⟨by simp only [afterChunk]; exact hm.evs, q.st, q.nf⟩
        · simp only [hfl, Bool.false_eq_true, if_false]
          exact ⟨hm.evs, hm.q.st, hm.q.nf⟩

/-! ### control frames -/

theorem control_payload (s : S) (hdr : Hdr) (body : Bytes) (hc : hdr.opcode > 7) (hp : s.ptr = 0)
    (hcd : s.controlData = []) :
    (body.length < hdr.length →
      processPayload s hdr body =
        ({ s with ptr := body.length, controlData := unmaskChunk s hdr (body.take hdr.length) }, [], false)) ∧
    (hdr.length ≤ body.length →
      processPayload s hdr body =
        ({ processControlFrame { s with ptr := hdr.length, controlData := unmaskChunk s hdr (body.take hdr.length) } hdr
            with cur := none }, body.drop hdr.length, decide ((body.drop hdr.length).length > 0))) := by
  rw [processPayload_finish, hp, Nat.sub_zero]
  have e : consume s hdr (body.take hdr.length) =
      ({ s with ptr := (body.take hdr.length).length,
                controlData := unmaskChunk s hdr (body.take hdr.length) }, true) := by
    simp [consume, onFrameData, hc, hp, hcd]
  rw [e]
  constructor
  · intro hlt
    have hl : (body.take hdr.length).length = body.length := by rw [List.length_take]; omega
    unfold finishPayload
    have hne : ¬ body.length = hdr.length := by omega
    simp only [Bool.not_true, Bool.false_eq_true, if_false, hl, hne]
    rw [List.drop_of_length_le (Nat.le_of_lt hlt)]
    simp
  · intro hle
    have hl : (body.take hdr.length).length = hdr.length := by rw [List.length_take]; omega
    unfold finishPayload onFrameEnd
    simp only [Bool.not_true, Bool.false_eq_true, if_false, hl, if_true, hc]

/-- the fields the abstraction relation reads are the same in both states -/
structure SameRecv (a b : S) : Prop where
  st : b.st = a.st
  nf : b.failedByMe = a.failedByMe
  lost : b.lost = a.lost
  pp : b.pingPending = a.pingPending
  pt : b.tPingTimeout = a.tPingTimeout
  cfg : b.cfg = a.cfg
  inside : b.insideMessage = a.insideMessage
  binary : b.msgBinary = a.msgBinary
  compressed : b.msgCompressed = a.msgCompressed
  utf8On : b.utf8On = a.utf8On
  md : b.messageData = a.messageData
  total : b.totalLen = a.totalLen
  utf8 : b.utf8 = a.utf8
  ends : b.utf8Ends = a.utf8Ends
  wc : b.wasClean = a.wasClean

theorem SameRecv.of_SendEq {a b : S} (h : SendEq a b) : SameRecv a b := by
  unfold SendEq at h
  refine ⟨?_, ?_, ?_, ?_, ?_, ?_, ?_, ?_, ?_, ?_, ?_, ?_, ?_, ?_, ?_⟩ <;> rw [h]

theorem SameRecv.trans {a b c : S} (h1 : SameRecv a b) (h2 : SameRecv b c) : SameRecv a c :=
  ⟨h2.st.trans h1.st, h2.nf.trans h1.nf, h2.lost.trans h1.lost, h2.pp.trans h1.pp, h2.pt.trans h1.pt,
   h2.cfg.trans h1.cfg, h2.inside.trans h1.inside, h2.binary.trans h1.binary, h2.compressed.trans h1.compressed,
   h2.utf8On.trans h1.utf8On, h2.md.trans h1.md, h2.total.trans h1.total, h2.utf8.trans h1.utf8, h2.ends.trans h1.ends,
   h2.wc.trans h1.wc⟩

theorem Rel.transfer {c : Ctx} {a b : S} {j : J} (hr : Rel c a j) (hs : SameRecv a b) (hcur : b.cur = none)
    (e : Ev) (hev : evsOf b.log = evsOf a.log ++ [e]) : Rel c b { j with evs := j.evs ++ [e] } := by
  refine ⟨⟨?_, ?_, ?_, ?_, ?_, ?_, ?_, ?_⟩, hcur, ?_, ?_, fun hin => ⟨?_, ?_, ?_, ?_, ?_, ?_, ?_⟩⟩
  · rw [hs.st]; exact hr.q.st
  · rw [hs.nf]; exact hr.q.nf
  · rw [hs.lost]; exact hr.q.lost
  · rw [hs.pp]; exact hr.q.pp
  · rw [hs.pt]; exact hr.q.pt
  · rw [hs.cfg]; exact hr.q.fbd
  · rw [hs.cfg]; exact hr.q.ctx
  · rw [hs.wc]; exact hr.q.wc
  · rw [hs.inside]; exact hr.inside
  · rw [hev, hr.evs]
  · rw [hs.binary]; exact (hr.msg hin).binary
  · rw [hs.compressed]; exact (hr.msg hin).compressed
  · rw [hs.utf8On]; exact (hr.msg hin).validate
  · rw [hs.md]; exact (hr.msg hin).acc
  · rw [hs.total]; exact (hr.msg hin).total
  · exact (hr.msg hin).notRej
  · intro hv
    rw [hs.utf8, hs.ends]
    exact (hr.msg hin).utf8 hv

theorem ping_step (c : Ctx) (s y : S) (j : J) (hdr : Hdr) (hop : hdr.opcode = 9) (hr : Rel c s j)
    (hy : SameRecv s y) (hylog : y.log = s.log) :
    Rel c { processControlFrame y hdr with cur := none } { j with evs := j.evs ++ [.ping y.controlData] } := by
  have hst : y.st = .opened := by rw [hy.st]; exact hr.q.st
  have e : processControlFrame y hdr = sendPong (({ y with controlData := [] } : S).emit (.onPing y.controlData)) y.controlData := by
    unfold processControlFrame onPingFrame
    simp [hop, S.emit, hst]
  have hse := sendPong_SendEq (({ y with controlData := [] } : S).emit (.onPing y.controlData)) y.controlData
  have hsr := SameRecv.of_SendEq hse
  have hev := sendPong_evs (({ y with controlData := [] } : S).emit (.onPing y.controlData)) y.controlData
  rw [e]
  apply Rel.transfer hr (b := { sendPong (({ y with controlData := [] } : S).emit (.onPing y.controlData)) y.controlData with cur := none })
  · exact ⟨hsr.st.trans hy.st, hsr.nf.trans hy.nf, hsr.lost.trans hy.lost, hsr.pp.trans hy.pp, hsr.pt.trans hy.pt,
      hsr.cfg.trans hy.cfg, hsr.inside.trans hy.inside, hsr.binary.trans hy.binary, hsr.compressed.trans hy.compressed,
      hsr.utf8On.trans hy.utf8On, hsr.md.trans hy.md, hsr.total.trans hy.total, hsr.utf8.trans hy.utf8,
      hsr.ends.trans hy.ends, hsr.wc.trans hy.wc⟩
  · rfl
  · show evsOf (sendPong _ _).log = _
    rw [hev]
    show evsOf (y.log ++ [Out.onPing y.controlData]) = _
    rw [evsOf_append, hylog]
    rfl

theorem pong_step (c : Ctx) (s y : S) (j : J) (hdr : Hdr) (hop : hdr.opcode = 10) (hr : Rel c s j)
    (hy : SameRecv s y) (hylog : y.log = s.log) :
    Rel c { processControlFrame y hdr with cur := none } { j with evs := j.evs ++ [.pong y.controlData] } := by
  have hpp : y.pingPending = none := by rw [hy.pp]; exact hr.q.pp
  have e : processControlFrame y hdr = (({ y with controlData := [] } : S).emit (.onPong y.controlData)) := by
    unfold processControlFrame onPongFrame
    simp [hop, hpp]
  rw [e]
  apply Rel.transfer hr (b := { (({ y with controlData := [] } : S).emit (.onPong y.controlData)) with cur := none })
  · exact ⟨hy.st, hy.nf, hy.lost, hy.pp, hy.pt, hy.cfg, hy.inside, hy.binary, hy.compressed, hy.utf8On, hy.md,
      hy.total, hy.utf8, hy.ends, hy.wc⟩
  · rfl
  · show evsOf (y.log ++ [Out.onPong y.controlData]) = _
    rw [evsOf_append, hylog]
    rfl

/-! ### a close frame from the peer -/

/-- the fields the close agreement reads -/
structure CloseFacts (x r : S) (st : St) : Prop where
  st : r.st = st
  clean : r.wasClean = x.wasClean
  nf : r.failedByMe = x.failedByMe
  rcc : r.remoteCloseCode = x.remoteCloseCode
  rcr : r.remoteCloseReason = x.remoteCloseReason
  evs : evsOf r.log = evsOf x.log
  cfg : r.cfg = x.cfg

theorem sendCloseFrame_reply (x : S) (code : Option Nat) (reason : Option Bytes) (hst : x.st = .opened) :
    CloseFacts x (sendCloseFrame x code reason true) .closing := by
  have hse := sendFrame_SendEq x 8 (closePayload code reason) true 0 false 0
  have hev := sendFrame_evs x 8 (closePayload code reason) true 0 false 0
  unfold sendCloseFrame
  simp only [hst, Bool.not_true, Bool.false_and, Bool.false_eq_true, if_false]
  exact ⟨rfl, hse.wasClean, hse.failedByMe, hse.remoteCloseCode, hse.remoteCloseReason, hev, hse.cfg⟩

theorem replyClose_facts (x : S) (hst : x.st = .opened) : CloseFacts x (replyClose x) .closing := by
  unfold replyClose
  split
  · exact sendCloseFrame_reply x _ _ hst
  · exact sendCloseFrame_reply x _ _ hst

theorem afterCloseHandshake_facts (r : S) (hst : r.st = .closing) :
    CloseFacts r (afterCloseHandshake r false).1 (if r.cfg.isServer then .closed else .closing) := by
  unfold afterCloseHandshake
  cases hs : r.cfg.isServer with
  | true =>
    simp only [if_true]
    unfold dropConnection flushQueue
    have : r.st ≠ .closed := by rw [hst]; decide
    simp only [this, ne_eq, not_false_eq_true, if_true]
    refine ⟨rfl, rfl, rfl, rfl, rfl, ?_, rfl⟩
    have hw : ∀ q : List Bytes, List.filterMap evOfOut (q.map Out.write) = [] := by
      intro q; induction q with
      | nil => rfl
      | cons b q ih => simp [List.filterMap_cons, evOfOut, ih]
    simp [S.emit, evsOf, List.filterMap_append, evOfOut, hw]
  | false =>
    simp only [Bool.false_eq_true, if_false]
    split
    · exact ⟨hst, rfl, rfl, rfl, rfl, rfl, rfl⟩
    · exact ⟨hst, rfl, rfl, rfl, rfl, rfl, rfl⟩

/-- a legal close frame: code and reason recorded, the close is clean, reply sent, server drops / client waits -/
theorem onCloseFrame_ok (z : S) (code : Option Nat) (reason : Option Bytes) (hst : z.st = .opened)
    (hcv : ∀ cd, code = some cd → closeCodeInvalid cd = false)
    (hrv : ∀ r, reason = some r → utf8Valid r = true) :
    (onCloseFrame z code reason).1.wasClean = true ∧
    (onCloseFrame z code reason).1.failedByMe = z.failedByMe ∧
    (onCloseFrame z code reason).1.remoteCloseCode = code ∧
    (onCloseFrame z code reason).1.remoteCloseReason = reason ∧
    evsOf (onCloseFrame z code reason).1.log = evsOf z.log ∧
    (onCloseFrame z code reason).1.st = (if z.cfg.isServer then .closed else .closing) := by
  -- the state after the code and reason checks
  have key : ∀ (w : S), w.st = .opened →
      (closeStateStep w).1.wasClean = true ∧ (closeStateStep w).1.failedByMe = w.failedByMe ∧
      (closeStateStep w).1.remoteCloseCode = w.remoteCloseCode ∧
      (closeStateStep w).1.remoteCloseReason = w.remoteCloseReason ∧
      evsOf (closeStateStep w).1.log = evsOf w.log ∧
      (closeStateStep w).1.st = (if w.cfg.isServer then .closed else .closing) := by
    intro w hw
    have f1 := replyClose_facts { w with wasClean := true } hw
    have f2 := afterCloseHandshake_facts (replyClose { w with wasClean := true }) f1.st
    have e : closeStateStep w = afterCloseHandshake (replyClose { w with wasClean := true }) false := by
      unfold closeStateStep
      split
      · rename_i h; rw [hw] at h; cases h
      · rfl
      · rename_i h; rw [hw] at h; cases h
      · rename_i h; rw [hw] at h; cases h
    rw [e]
    refine ⟨f2.clean.trans f1.clean, f2.nf.trans f1.nf, f2.rcc.trans f1.rcc, f2.rcr.trans f1.rcr,
      f2.evs.trans f1.evs, ?_⟩
    rw [f2.st, f1.cfg]
  unfold onCloseFrame closeCodeStep closeReasonStep
  cases code with
  | none =>
    cases reason with
    | none =>
      simp only [Bool.false_eq_true, if_false]
      exact key _ hst
    | some r =>
      have := hrv r rfl
      simp only [Bool.false_eq_true, if_false, this, Bool.not_true]
      exact key _ hst
  | some cd =>
    have hc := hcv cd rfl
    cases reason with
    | none =>
      simp only [hc, Bool.false_eq_true, if_false]
      exact key _ hst
    | some r =>
      have := hrv r rfl
      simp only [hc, Bool.false_eq_true, if_false, this, Bool.not_true]
      exact key _ hst

theorem onCloseFrame_badcode (z : S) (cd : Nat) (reason : Option Bytes) (hf : z.cfg.failByDrop = true)
    (hst : z.st ≠ .closed) (hc : closeCodeInvalid cd = true) : Failed z (onCloseFrame z (some cd) reason).1 := by
  have hv := violation_Failed { z with remoteCloseCode := none, remoteCloseReason := none } 1002 hf hst
  unfold onCloseFrame closeCodeStep
  simp only [hc, if_true]
  generalize violation { z with remoteCloseCode := none, remoteCloseReason := none } 1002 = r at hv
  obtain ⟨s', stop⟩ := r
  simp only at hv
  simp only [hv.2, if_true]
  exact hv.1

theorem onCloseFrame_badreason (z : S) (code : Option Nat) (r : Bytes) (hf : z.cfg.failByDrop = true)
    (hst : z.st ≠ .closed) (hcv : ∀ cd, code = some cd → closeCodeInvalid cd = false)
    (hr : utf8Valid r = false) : Failed z (onCloseFrame z code (some r)).1 := by
  unfold onCloseFrame closeCodeStep closeReasonStep
  cases code with
  | none =>
    simp only [Bool.false_eq_true, if_false, hr, Bool.not_false, if_true]
    have hv := violation_Failed { z with remoteCloseCode := none, remoteCloseReason := none } 1007 hf hst
    simp only [hv.2, if_true]
    exact hv.1
  | some cd =>
    have hc := hcv cd rfl
    simp only [hc, Bool.false_eq_true, if_false, hr, Bool.not_false, if_true]
    have hv := violation_Failed { z with remoteCloseCode := some cd, remoteCloseReason := none } 1007 hf hst
    simp only [hv.2, if_true]
    exact hv.1

theorem closeCodeOf_eq (un : Bytes) :
    closeCodeOf un = (if un.length ≥ 2 then some (beNat (un.take 2)) else none) := by
  unfold closeCodeOf
  by_cases h : un.length > 1
  · have : un.length ≥ 2 := h
    simp [h, this]
  · have : ¬ un.length ≥ 2 := by omega
    simp [h, this]

theorem closeReasonOf_eq (un : Bytes) :
    closeReasonOf un = (if un.length > 2 then some (un.drop 2) else none) := rfl

/-- what `headerOk` says about a control frame -/
theorem headerOk_control (c : Ctx) (inside : Bool) (h : Hd) (hok : headerOk c inside h.fin h.rsv h.opcode h.masked h.len7 = true)
    (hop : h.opcode ≥ 8) : (h.opcode = 8 ∨ h.opcode = 9 ∨ h.opcode = 10) ∧ h.len7 ≤ 125 := by
  unfold headerOk okFlags at hok
  simp only [Bool.and_eq_true, Bool.or_eq_true, decide_eq_true_eq, Bool.not_eq_true'] at hok
  obtain ⟨⟨⟨⟨_, _⟩, h3⟩, h4⟩, _⟩ := hok
  constructor
  · rcases h3 with ((((h3 | h3) | h3) | h3) | h3) | h3 <;> omega
  · rcases h4 with h4 | h4
    · omega
    · have := h4.1.2
      simp only [decide_eq_false_iff_not] at this
      omega

theorem drain_after_closed (F : Nat) (s' : S) (rest : Bytes) (h : s'.st = .closed) :
    (if decide (rest.length > 0) && decide (s'.st ≠ .closed) then drain F s' rest else (s', rest)) = (s', rest) := by
  simp [h]

theorem drain_after_empty (F : Nat) (s' : S) (rest : Bytes) (h : rest.length = 0) :
    (if decide (rest.length > 0) && decide (s'.st ≠ .closed) then drain F s' rest else (s', rest)) = (s', rest) := by
  simp [h]

theorem ofCfg_isServer (cfg : Cfg) (c : Ctx) (h : Ctx.ofCfg cfg = c) : c.isServer = cfg.isServer := by
  subst h; rfl

/-- **control frames at the loop level** -/
theorem control_refines (c : Ctx) (s : S) (j : J) (o0 o1 : UInt8) (rest2 : Bytes) (F : Nat) (hr : Rel c s j)
    (hv : headerViolations s.cfg s.insideMessage (Hd.ofOctets o0 o1).fin (Hd.ofOctets o0 o1).rsv
      (Hd.ofOctets o0 o1).opcode (Hd.ofOctets o0 o1).masked (Hd.ofOctets o0 o1).len7 = [])
    (hok : headerOk c j.inside (Hd.ofOctets o0 o1).fin (Hd.ofOctets o0 o1).rsv (Hd.ofOctets o0 o1).opcode
      (Hd.ofOctets o0 o1).masked (Hd.ofOctets o0 o1).len7 = true)
    (hlen : (Hd.ofOctets o0 o1).extN + (Hd.ofOctets o0 o1).keyN ≤ rest2.length)
    (hext : extLenOk (Hd.ofOctets o0 o1).len7 ((Hd.ofOctets o0 o1).plen rest2) = true)
    (hop : (Hd.ofOctets o0 o1).opcode ≥ 8)
    (hF : mu s (o0 :: o1 :: rest2) < F) :
    StepAgree c s (o0 :: o1 :: rest2) F
      (if !decide ((rest2.drop ((Hd.ofOctets o0 o1).extN + (Hd.ofOctets o0 o1).keyN)).length
            ≥ (Hd.ofOctets o0 o1).plen rest2)
       then .done j.evs .ok (o0 :: o1 :: rest2).length
       else judgeControl j (o0 :: o1 :: rest2).length (Hd.ofOctets o0 o1).opcode
        (unmaskAvail c ((Hd.ofOctets o0 o1).key rest2)
          ((rest2.drop ((Hd.ofOctets o0 o1).extN + (Hd.ofOctets o0 o1).keyN)).take ((Hd.ofOctets o0 o1).plen rest2)))
        ((rest2.drop ((Hd.ofOctets o0 o1).extN + (Hd.ofOctets o0 o1).keyN)).drop ((Hd.ofOctets o0 o1).plen rest2))) := by
  have e1 := processData_none s o0 o1 rest2 hr.cur
  have e2 := processHeader_run s o0 o1 rest2 hv hlen hext
  have hmu : mu s (o0 :: o1 :: rest2) = 2 * (rest2.length + 2) := by
    unfold mu; simp [hr.cur]
  have hctl := headerOk_control c j.inside (Hd.ofOctets o0 o1) hok hop
  generalize Hd.ofOctets o0 o1 = h at *
  generalize hbody : rest2.drop (h.extN + h.keyN) = body at *
  have hbl : body.length + 2 ≤ (o0 :: o1 :: rest2).length := by
    rw [← hbody]; simp only [List.length_drop, List.length_cons]; omega
  generalize hum : (h.masked && decide (h.plen rest2 > 0) && s.cfg.applyMask) = um at *
  have hc7 : (hdrRec h rest2).opcode > 7 := by
    show h.opcode > 7; omega
  have ob : onFrameBegin { s with cur := some (hdrRec h rest2), ptr := 0, unmask := um } (hdrRec h rest2)
      = { s with cur := some (hdrRec h rest2), ptr := 0, unmask := um, controlData := [] } := by
    unfold onFrameBegin; simp [hc7]
  rw [ob] at e2
  generalize hsC : ({ s with cur := some (hdrRec h rest2), ptr := 0, unmask := um, controlData := [] } : S) = sC at *
  have hsame : SameRecv s sC := by
    rw [← hsC]; exact ⟨rfl, rfl, rfl, rfl, rfl, rfl, rfl, rfl, rfl, rfl, rfl, rfl, rfl, rfl, rfl⟩
  have hlogC : sC.log = s.log := by rw [← hsC]
  have hcurC : sC.cur = some (hdrRec h rest2) := by rw [← hsC]
  have hptrC : sC.ptr = 0 := by rw [← hsC]
  have hcdC : sC.controlData = [] := by rw [← hsC]
  have hunmC : sC.unmask = um := by rw [← hsC]
  have hcfgC : sC.cfg = s.cfg := hsame.cfg
  have hopenC : sC.st ≠ .closed := by rw [hsame.st, hr.q.st]; decide
  have hun : unmaskChunk sC (hdrRec h rest2) (body.take (h.plen rest2))
      = unmaskAvail c (h.key rest2) (body.take (h.plen rest2)) := by
    apply unmaskChunk_eq c sC h rest2 _ (by rw [hcfgC]; exact hr.q.ctx) hptrC
    · rw [hunmC, ← hum, hcfgC]
    · intro hz; rw [hz]; rfl
  obtain ⟨F, rfl⟩ : ∃ F', F = F' + 2 := ⟨F - 2, by omega⟩
  have hwcC : sC.wasClean = false := by rw [hsame.wc]; exact hr.q.wc
  have hd1 := drain_one (F + 1) s (o0 :: o1 :: rest2) hr.q.wc
  rw [e1, e2] at hd1
  simp only [hopenC, ne_eq, not_false_eq_true, decide_true, Bool.and_true] at hd1
  have cp := control_payload sC (hdrRec h rest2) body hc7 hptrC hcdC
  have hlenhdr : (hdrRec h rest2).length = h.plen rest2 := rfl
  rw [hlenhdr, hun] at cp
  generalize unmaskAvail c (h.key rest2) (body.take (h.plen rest2)) = un at *
  have pds := processData_some sC (hdrRec h rest2) body hcurC
  by_cases hcomp : body.length ≥ h.plen rest2
  · simp only [hcomp, decide_true, Bool.not_true, Bool.false_eq_true, if_false]
    have hfl : (decide (h.plen rest2 = 0) || decide (body.length > 0)) = true := by
      by_cases hz : h.plen rest2 = 0
      · simp [hz]
      · have : body.length > 0 := by omega
        simp [this]
    simp only [hfl, if_true] at hd1
    have hp := cp.2 hcomp
    have hrl : (body.drop (h.plen rest2)).length + 2 ≤ (o0 :: o1 :: rest2).length := by
      simp only [List.length_drop]; omega
    have hFF : 2 * (body.drop (h.plen rest2)).length < F := by
      simp only [List.length_drop, List.length_cons] at hbl ⊢
      omega
    generalize hy : ({ sC with ptr := h.plen rest2, controlData := un } : S) = y at *
    have hsy : SameRecv s y := by
      rw [← hy]
      exact ⟨hsame.st, hsame.nf, hsame.lost, hsame.pp, hsame.pt, hsame.cfg, hsame.inside, hsame.binary,
        hsame.compressed, hsame.utf8On, hsame.md, hsame.total, hsame.utf8, hsame.ends, hsame.wc⟩
    have hylog : y.log = s.log := by rw [← hy]; exact hlogC
    have hycd : y.controlData = un := by rw [← hy]
    have hopy : (hdrRec h rest2).opcode = h.opcode := rfl
    unfold judgeControl
    rcases hctl.1 with h8 | h9 | h10
    · -- close
      have n9 : ¬ h.opcode = 9 := by omega
      have n10 : ¬ h.opcode = 10 := by omega
      simp only [n9, n10, if_false]
      have epc : processControlFrame y (hdrRec h rest2)
          = (onCloseFrame { y with controlData := [] } (closeCodeOf un) (closeReasonOf un)).1 := by
        unfold processControlFrame; simp [hopy, h8, hycd]
      have hzst : ({ y with controlData := [] } : S).st = .opened := by
        show y.st = .opened; rw [hsy.st]; exact hr.q.st
      have hzf : ({ y with controlData := [] } : S).cfg.failByDrop = true := by
        show y.cfg.failByDrop = true; rw [hsy.cfg]; exact hr.q.fbd
      have hzlog : evsOf ({ y with controlData := [] } : S).log = j.evs := by
        show evsOf y.log = j.evs; rw [hylog]; exact hr.evs
      rw [← closeCodeOf_eq, ← closeReasonOf_eq]
      have hdrn : drain (F + 1 + 1) s (o0 :: o1 :: rest2)
          = (if decide ((body.drop (h.plen rest2)).length > 0)
                && decide (({ processControlFrame y (hdrRec h rest2) with cur := none } : S).st ≠ .closed)
             then drain F { processControlFrame y (hdrRec h rest2) with cur := none } (body.drop (h.plen rest2))
             else ({ processControlFrame y (hdrRec h rest2) with cur := none }, body.drop (h.plen rest2))) := by
        rw [hd1, drain_one _ _ _ hwcC, pds, hp]
      -- every failing case ends the same way
      have failcase : ∀ code, Failed { y with controlData := [] } (processControlFrame y (hdrRec h rest2)) →
          Agree c (drain (F + 1 + 1) s (o0 :: o1 :: rest2)).1 j.evs (.fail code) (o0 :: o1 :: rest2).length := by
        intro code hfl'
        rw [hdrn, drain_after_closed F { processControlFrame y (hdrRec h rest2) with cur := none } _ hfl'.1]
        exact ⟨by show evsOf (processControlFrame y (hdrRec h rest2)).log = j.evs; rw [hfl'.2.2]; exact hzlog,
          hfl'.1, hfl'.2.1⟩
      -- every accepted close frame ends the same way
      have okcase : ∀ code reason, closeCodeOf un = code → closeReasonOf un = reason →
          (∀ cd, code = some cd → closeCodeInvalid cd = false) → (∀ r, reason = some r → utf8Valid r = true) →
          Agree c (drain (F + 1 + 1) s (o0 :: o1 :: rest2)).1 (j.evs ++ [.close code reason]) .closedByPeer
            (body.drop (h.plen rest2)).length := by
        intro code reason hcode hreason hcv hrv
        have hk := onCloseFrame_ok { y with controlData := [] } code reason hzst hcv hrv
        rw [← hcode, ← hreason, ← epc] at hk
        have hsrv : y.cfg.isServer = c.isServer := by
          rw [hsy.cfg, ← ofCfg_isServer s.cfg c hr.q.ctx]
        have hstf : (processControlFrame y (hdrRec h rest2)).st = (if c.isServer then St.closed else St.closing) := by
          rw [hk.2.2.2.2.2]
          show (if y.cfg.isServer = true then St.closed else St.closing) = _
          rw [hsrv]
        have hstop : (drain (F + 1 + 1) s (o0 :: o1 :: rest2)).1
            = { processControlFrame y (hdrRec h rest2) with cur := none } := by
          rw [hdrn]
          split
          · rw [drain_wasClean F _ _ (by show (processControlFrame y (hdrRec h rest2)).wasClean = true; exact hk.1)]
          · rfl
        rw [hstop]
        refine ⟨?_, hk.1, ?_, hstf⟩
        · show evsOf (processControlFrame y (hdrRec h rest2)).log
            ++ [Ev.close (processControlFrame y (hdrRec h rest2)).remoteCloseCode
                (processControlFrame y (hdrRec h rest2)).remoteCloseReason] = _
          rw [hk.2.2.2.2.1, hzlog, hk.2.2.1, hk.2.2.2.1, hcode, hreason]
        · show (processControlFrame y (hdrRec h rest2)).failedByMe = false
          rw [hk.2.1]; show y.failedByMe = false; rw [hsy.nf]; exact hr.q.nf
      cases hcode : closeCodeOf un with
      | some cd =>
        simp only []
        by_cases hcok : closeCodeOk cd = true
        · have hci : closeCodeInvalid cd = false := (close_code_rule cd).mpr hcok
          simp only [hcok, Bool.not_true, Bool.false_eq_true, if_false]
          cases hreason : closeReasonOf un with
          | some r =>
            simp only []
            by_cases hrv : utf8Valid r = true
            · simp only [hrv, Bool.not_true, Bool.false_eq_true, if_false]
              exact okcase _ _ hcode hreason (fun cd' e => by cases e; exact hci) (fun r' e => by cases e; exact hrv)
            · have hrv' : utf8Valid r = false := by simpa using hrv
              simp only [hrv', Bool.not_false, if_true]
              refine failcase 1007 ?_
              rw [epc, hcode, hreason]
              exact onCloseFrame_badreason _ _ r hzf (by rw [hzst]; decide) (fun cd' e => by cases e; exact hci) hrv'
          | none =>
            simp only []
            exact okcase _ _ hcode hreason (fun cd' e => by cases e; exact hci) (fun r' e => by cases e)
        · have hcok' : closeCodeOk cd = false := by simpa using hcok
          have hci : closeCodeInvalid cd = true := by
            cases hx : closeCodeInvalid cd with
            | true => rfl
            | false => rw [(close_code_rule cd).mp hx] at hcok'; cases hcok'
          simp only [hcok', Bool.not_false, if_true]
          refine failcase 1002 ?_
          rw [epc, hcode]
          exact onCloseFrame_badcode _ cd _ hzf (by rw [hzst]; decide) hci
      | none =>
        simp only []
        have hrn : closeReasonOf un = none := by
          unfold closeCodeOf at hcode
          unfold closeReasonOf
          by_cases hl : un.length > 1
          · simp [hl] at hcode
          · have : ¬ un.length > 2 := by omega
            simp [this]
        exact okcase _ _ hcode hrn (fun cd' e => by cases e) (fun r' e => by cases e)
    · -- ping
      simp only [h9, if_true]
      have hrel := ping_step c s y j (hdrRec h rest2) (by rw [hopy]; exact h9) hr hsy hylog
      rw [hycd] at hrel
      have hmu' : mu { processControlFrame y (hdrRec h rest2) with cur := none } (body.drop (h.plen rest2))
          = 2 * (body.drop (h.plen rest2)).length := by
        unfold mu; simp
      refine ⟨_, hrel, hrl, ?_⟩
      rw [hd1, drain_one _ _ _ hwcC, pds, hp]
      exact drain_rest c _ _ _ _ _ hrel (by rw [hmu']; omega) ⟨by omega, fun _ => by rw [hmu']; omega⟩
    · -- pong
      have n9 : ¬ h.opcode = 9 := by omega
      simp only [n9, h10, if_false, if_true]
      have hrel := pong_step c s y j (hdrRec h rest2) (by rw [hopy]; exact h10) hr hsy hylog
      rw [hycd] at hrel
      have hmu' : mu { processControlFrame y (hdrRec h rest2) with cur := none } (body.drop (h.plen rest2))
          = 2 * (body.drop (h.plen rest2)).length := by
        unfold mu; simp
      refine ⟨_, hrel, hrl, ?_⟩
      rw [hd1, drain_one _ _ _ hwcC, pds, hp]
      exact drain_rest c _ _ _ _ _ hrel (by rw [hmu']; omega) ⟨by omega, fun _ => by rw [hmu']; omega⟩
  · -- the control frame is not complete yet: nothing happens
    simp only [hcomp, decide_false, Bool.not_false, if_true]
    have hlt : body.length < h.plen rest2 := by omega
    show Agree c (drain (F + 1 + 1) s (o0 :: o1 :: rest2)).1 j.evs .ok (o0 :: o1 :: rest2).length
    rw [hd1]
    by_cases hfl : (decide (h.plen rest2 = 0) || decide (body.length > 0)) = true
    · simp only [hfl, if_true]
      rw [drain_stop F sC _ body [] hwcC (by rw [pds]; exact cp.1 hlt)]
      exact ⟨by show evsOf sC.log = j.evs; rw [hlogC]; exact hr.evs, by show sC.st = .opened; rw [hsame.st]; exact hr.q.st,
        by show sC.failedByMe = false; rw [hsame.nf]; exact hr.q.nf⟩
    · simp only [hfl, Bool.false_eq_true, if_false]
      exact ⟨by rw [hlogC]; exact hr.evs, by rw [hsame.st]; exact hr.q.st, by rw [hsame.nf]; exact hr.q.nf⟩

end Abverif.Ws
