import Abverif.Proofs.Lemmas.SessInvWalk
/-
A `Subscription` object that is attached nowhere and waits in no subscribe request (`Gone`) stays so, and its
handler is never invoked again — through every step of the model.
-/
namespace Abverif.Session
open Abverif.SessCodes

/-- future `o` exists, is attached under no subscription id, is in no outstanding subscribe request, and no handler
invocation waits in the callback queue -/
structure Gone (o : Nat) (s : Sess) : Prop where
  objs : (objsOf s.subs).count o = 0
  reqs : (futsOf (s.tbl .subscribe)).count o = 0
  bound : o < s.futs.length
  cbq : ∀ x ∈ s.cbq, isInvoke x = false

def invokesObj (o : Nat) : SOut → Bool
  | .invoke obj _ _ _ => obj == o
  | _ => false

/-- no output is an invocation of the handler of `o` -/
def NoInv (o : Nat) (outs : List SOut) : Prop := ∀ x ∈ outs, invokesObj o x = false

def GoneRel (o : Nat) (s : Sess) (outs : List SOut) (s' : Sess) : Prop := Gone o s' ∧ NoInv o outs

theorem NoInv.nil (o : Nat) : NoInv o [] := by simp [NoInv]
theorem NoInv.append {o : Nat} {a b : List SOut} (ha : NoInv o a) (hb : NoInv o b) : NoInv o (a ++ b) := by
  intro x hx; rcases List.mem_append.mp hx with h | h
  · exact ha x h
  · exact hb x h
theorem NoInv.of_not_invoke {o : Nat} {a : List SOut} (h : ∀ x ∈ a, isInvoke x = false) : NoInv o a := by
  intro x hx; have := h x hx; cases x <;> simp_all [invokesObj, isInvoke]
theorem NoInv.map_toCaught {o : Nat} {a : List SOut} (ha : NoInv o a) : NoInv o (a.map toCaught) := by
  intro x hx
  obtain ⟨y, hy, rfl⟩ := List.mem_map.mp hx
  have := ha y hy
  cases y <;> simp_all [toCaught, invokesObj]

theorem GoneRel.refl {o : Nat} {s : Sess} (h : Gone o s) : GoneRel o s [] s := ⟨h, NoInv.nil o⟩
theorem GoneRel.trans {o : Nat} {s1 s2 s3 : Sess} {o1 o2 : List SOut} (h1 : GoneRel o s1 o1 s2) (h2 : GoneRel o s2 o2 s3) :
    GoneRel o s1 (o1 ++ o2) s3 := ⟨h2.1, h1.2.append h2.2⟩

/-- `Gone` only reads `subs`, the subscribe table, `futs.length` and `cbq` -/
theorem Gone.of {o : Nat} {s s' : Sess} (h : Gone o s) (h1 : ∀ x : Nat, (objsOf s'.subs).count x ≤ (objsOf s.subs).count x)
    (h2 : (s'.tbl .subscribe).Sublist (s.tbl .subscribe)) (h3 : s.futs.length ≤ s'.futs.length)
    (h4 : ∀ x ∈ s'.cbq, x ∈ s.cbq ∨ isInvoke x = false) : Gone o s' := by
  refine ⟨?_, ?_, Nat.lt_of_lt_of_le h.bound h3, ?_⟩
  · have := h1 o; have := h.objs; omega
  · have := (h2.map (·.2.fut)).count_le o; have := h.reqs; simp only [futsOf] at *; omega
  · intro x hx; rcases h4 x hx with h5 | h5
    · exact h.cbq x h5
    · exact h5

theorem emitCb_gone {o : Nat} {s : Sess} (h : Gone o s) {x : SOut} (hx : isInvoke x = false) :
    GoneRel o s (emitCb s x).2 (emitCb s x).1 := by
  obtain ⟨f1, f2, f3, f4, f5, f6⟩ := emitCb_fields s x
  refine ⟨h.of (fun y => by rw [f2]; exact Nat.le_refl _) (by rw [f1]; exact List.Sublist.refl _) (by rw [f3]; exact Nat.le_refl _) ?_, ?_⟩
  · intro y hy
    rcases f6 with e | e <;> rw [e] at hy
    · exact Or.inl hy
    · rcases List.mem_append.mp hy with hy | hy
      · exact Or.inl hy
      · simp at hy; subst hy; exact Or.inr hx
  · apply NoInv.of_not_invoke
    rcases f5 with e | e <;> rw [e] <;> simp [hx]

theorem settle_fields (s : Sess) (f : Nat) (o : Outcome) :
    (settle s f o).1.subs = s.subs ∧ (settle s f o).1.futs.length = s.futs.length ∧
    (∀ x ∈ (settle s f o).1.cbq, x ∈ s.cbq ∨ isInvoke x = false) ∧ (∀ x ∈ (settle s f o).2, isInvoke x = false) := by
  unfold settle
  split
  · exact ⟨rfl, rfl, fun x hx => Or.inl hx, by simp [isInvoke]⟩
  · split
    · exact ⟨rfl, by simp, fun x hx => Or.inl hx, by simp [isInvoke]⟩
    · split
      · obtain ⟨f1, f2, f3, f4, f5, f6⟩ := emitCb_fields
          { s with futs := s.futs.set f { (‹Fut› : Fut) with cell := some o, count := (‹Fut› : Fut).count + 1 } } (.callback f o)
        refine ⟨f2, by rw [f3]; simp, ?_, ?_⟩
        · intro x hx
          rcases f6 with e | e <;> rw [e] at hx
          · exact Or.inl hx
          · rcases List.mem_append.mp hx with hx | hx
            · exact Or.inl hx
            · simp at hx; subst hx; exact Or.inr rfl
        · intro x hx
          simp only [List.mem_cons] at hx
          rcases hx with hx | hx
          · subst hx; rfl
          · rcases f5 with e | e <;> rw [e] at hx <;> simp at hx
            subst hx; rfl
      · exact ⟨rfl, by simp, fun x hx => Or.inl hx, by simp [isInvoke]⟩

theorem settle_gone {o : Nat} {s : Sess} (h : Gone o s) (f : Nat) (v : Outcome) :
    GoneRel o s (settle s f v).2 (settle s f v).1 := by
  obtain ⟨f1, f2, f3, f4⟩ := settle_fields s f v
  exact ⟨h.of (fun y => by rw [f1]; exact Nat.le_refl _) (by rw [settle_tbl]; exact List.Sublist.refl _) (by rw [f2]; exact Nat.le_refl _) f3,
    NoInv.of_not_invoke f4⟩

theorem out_gone {o : Nat} {s : Sess} (h : Gone o s) {os : List SOut} (ho : ∀ x ∈ os, isInvoke x = false) : GoneRel o s os s :=
  ⟨h, NoInv.of_not_invoke ho⟩

theorem request_gone {o : Nat} {s : Sess} (h : Gone o s) (k : Kind) (mkReq : FutId → Req) (mkMsg : ReqId → OutMsg)
    (hr : ∀ f, (mkReq f).fut = f) (keep : Bool) (snd : SendRes) :
    GoneRel o s (request s k mkReq mkMsg keep snd).2 (request s k mkReq mkMsg keep snd).1 := by
  obtain ⟨hi, hs, hl, hc, ht0, ht, hcbq⟩ := request_fields s k mkReq mkMsg keep snd
  refine ⟨⟨by rw [hs]; exact h.objs, ?_, by have := h.bound; omega, by rw [hcbq]; exact h.cbq⟩, ?_⟩
  · by_cases hk : k = .subscribe
    · subst hk
      have h1 := ((ht0.map (·.2.fut)).count_le o)
      have h2 := count_futsOf_aset o s.drawId.2 (mkReq s.futs.length) (s.tbl .subscribe)
      rw [hr] at h2
      have := h.reqs; have := h.bound
      simp only [futsOf] at *
      split at h2 <;> omega
    · rw [ht _ (Ne.symm hk)]; exact h.reqs
  · apply NoInv.of_not_invoke
    cases snd <;> cases keep <;> simp [request, sendReq_ok, sendReq_fail_keep, sendReq_fail_forget, isInvoke]

theorem apiStep_gone {o : Nat} {s : Sess} (a : Api) (h : Gone o s) : GoneRel o s (apiStep s a).2 (apiStep s a).1 := by
  cases a with
  | call u a k opts r =>
    simp only [apiStep, apiCall]
    split
    · exact out_gone h (by simp [isInvoke])
    · exact request_gone h _ _ _ (fun _ => rfl) _ _
  | publish u a k opts r =>
    simp only [apiStep, apiPublish]
    split
    · exact out_gone h (by simp [isInvoke])
    · split
      · exact request_gone h _ _ _ (fun _ => rfl) _ _
      · cases r
        · rw [sendReq_ok]
          exact ⟨h.of (fun _ => Nat.le_refl _) (by simp) (Nat.le_refl _) (fun x hx => Or.inl hx),
            NoInv.of_not_invoke (by simp [isInvoke])⟩
        · simp only [sendReq, Bool.false_eq_true, ↓reduceIte]
          refine ⟨h.of (fun _ => by simp) ?_ (by simp) (fun x hx => Or.inl (by simpa using hx)),
            NoInv.of_not_invoke (by simp [isInvoke])⟩
          rw [setTbl_tbl_ne (by decide)]; simp
  | subscribe hh t opts r =>
    simp only [apiStep, apiSubscribe]
    split
    · exact out_gone h (by simp [isInvoke])
    · exact request_gone h _ _ _ (fun _ => rfl) _ _
  | register hh t opts r =>
    simp only [apiStep, apiRegister]
    split
    · exact out_gone h (by simp [isInvoke])
    · exact request_gone h _ _ _ (fun _ => rfl) _ _
  | unsubscribe obj r =>
    simp only [apiStep, apiUnsubscribe]
    split
    · exact out_gone h (by simp [isInvoke])
    · next sid _ =>
      split
      · exact out_gone h (by simp [isInvoke])
      · have h1 : Gone o { s with subs := aupd sid (removeObj obj ((alookup sid s.subs).getD [])) s.subs } :=
          h.of (fun x => count_objsOf_aupd_le x s.subs sid (removeObj_sublist _ _)) (List.Sublist.refl _) (Nat.le_refl _)
            (fun x hx => Or.inl hx)
        split
        · exact request_gone h1 _ _ _ (fun _ => rfl) _ _
        · unfold futureSuccess
          generalize hl : removeObj obj ((alookup sid s.subs).getD []) = l at h1 ⊢
          have h2 : Gone o { ({ s with subs := aupd sid l s.subs } : Sess) with futs := s.futs ++ [{ kind := .unsubscribe, cell := some (.value (.int l.length)), count := 1 }] } :=
            h1.of (fun _ => Nat.le_refl _) (List.Sublist.refl _) (by simp) (fun x hx => Or.inl hx)
          have h3 := emitCb_gone h2 (x := .callback s.futs.length (.value (.int l.length))) rfl
          exact ⟨h3.1, (NoInv.of_not_invoke (by simp [isInvoke])).append h3.2⟩
  | unregister obj r =>
    simp only [apiStep, apiUnregister]
    split
    · exact out_gone h (by simp [isInvoke])
    · split
      · exact out_gone h (by simp [isInvoke])
      · exact request_gone h _ _ _ (fun _ => rfl) _ _
  | cancel f =>
    simp only [apiStep, apiCancel]
    split
    · exact out_gone h (by simp [isInvoke])
    · split
      · exact GoneRel.refl h
      · split
        · exact out_gone h (by simp [isInvoke])
        · next x _ _ _ =>
          have hmsgs : ∀ y ∈ cancelMsgs s f x.kind, isInvoke y = false := by
            intro y hy; unfold cancelMsgs at hy; split at hy
            · split at hy <;> simp at hy; subst hy; rfl
            · simp at hy
          unfold cancelDo
          split
          · refine ⟨h.of (fun _ => Nat.le_refl _) (List.Sublist.refl _) (by simp) (fun y hy => Or.inl hy), NoInv.of_not_invoke ?_⟩
            intro y hy
            rcases List.mem_append.mp hy with hy | hy
            · exact hmsgs y hy
            · simp at hy; rcases hy with hy | hy <;> subst hy <;> rfl
          · refine ⟨h.of (fun _ => Nat.le_refl _) (List.Sublist.refl _) (by simp) ?_, NoInv.of_not_invoke (by simp [isInvoke])⟩
            intro y hy
            simp only [List.mem_append, List.mem_singleton] at hy
            rcases hy with (hy | hy) | hy
            · exact Or.inl hy
            · exact Or.inr (hmsgs y hy)
            · subst hy; exact Or.inr rfl
  | join =>
    simp only [apiStep, apiJoin]
    split
    · exact out_gone h (by simp [isInvoke])
    · split
      · exact out_gone h (by simp [isInvoke])
      · exact ⟨h.of (fun _ => Nat.le_refl _) (List.Sublist.refl _) (Nat.le_refl _) (fun y hy => Or.inl hy),
          NoInv.of_not_invoke (by simp [isInvoke])⟩
  | leave =>
    simp only [apiStep, apiLeave]
    split
    · exact GoneRel.refl h
    · split
      · exact GoneRel.refl h
      · split
        · exact out_gone h (by simp [isInvoke])
        · exact ⟨h.of (fun _ => Nat.le_refl _) (List.Sublist.refl _) (Nat.le_refl _) (fun y hy => Or.inl hy),
            NoInv.of_not_invoke (by simp [isInvoke])⟩
  | disconnect =>
    simp only [apiStep, apiDisconnect]
    split
    · exact out_gone h (by simp [isInvoke])
    · exact GoneRel.refl h

theorem mem_objsOf {subs : List (SubId × List SubRec)} {sub : SubId} {l : List SubRec} {r : SubRec}
    (h : alookup sub subs = some l) (hr : r ∈ l) : r.obj ∈ objsOf subs := by
  simp only [objsOf, List.mem_flatMap, List.mem_map]
  exact ⟨(sub, l), alookup_some_mem h, r, hr, rfl⟩

theorem goneLift (o : Nat) : Lift (GoneRel o) (Gone o) where
  refl := GoneRel.refl
  trans := GoneRel.trans
  post := fun _ r => r.1
  caught := fun r => ⟨r.1, r.2.map_toCaught⟩
  api := fun a h => apiStep_gone a h
  userError := fun h => emitCb_gone h rfl
  invoke := by
    intro s sub r args kw h hr
    refine ⟨h, ?_⟩
    intro x hx
    simp only [List.mem_singleton] at hx
    subst hx
    simp only [invokesObj, beq_eq_false_iff_ne, ne_eq]
    intro e
    cases hl : alookup sub s.subs with
    | none => simp [hl] at hr
    | some l =>
      simp only [hl, Option.getD_some, List.any_eq_true, beq_iff_eq] at hr
      obtain ⟨r', hr', e'⟩ := hr
      have hm : r'.obj ∈ objsOf s.subs := mem_objsOf hl hr'
      have := List.count_pos_iff.mpr hm
      rw [e', e, h.objs] at this
      exact absurd this (by decide)


theorem rejectList_gone {o : Nat} {s : Sess} (h : Gone o s) (v : Outcome) (fs : List FutId) :
    GoneRel o s (rejectList s v fs).2 (rejectList s v fs).1 :=
  rejectList_lift (R := GoneRel o) (P := Gone o) GoneRel.refl GoneRel.trans (fun _ r => r.1)
    (fun f v h _ => settle_gone h f v) h v fs

theorem NoInv.map_toLost {o : Nat} {a : List SOut} (ha : NoInv o a) : NoInv o (a.map toLost) := by
  intro x hx
  obtain ⟨y, hy, rfl⟩ := List.mem_map.mp hx
  have := ha y hy
  cases y <;> simp_all [toLost, invokesObj]

theorem goneLiftX (o : Nat) : LiftX (GoneRel o) (Gone o) (fun x => !isInvoke x) where
  toLift := goneLift o
  okOf := by intro x hx; cases x <;> simp [lcOut, isInvoke] at hx ⊢
  lc := fun {s s'} h hc => by
    obtain ⟨_, _, e3, e4, e5⟩ := core_fields hc
    exact ⟨h.of (fun _ => by rw [e3]; exact Nat.le_refl _) (by rw [core_tbl hc]; exact List.Sublist.refl _)
      (by rw [e4]; exact Nat.le_refl _) (fun x hx => Or.inl (e5 ▸ hx)), NoInv.nil o⟩
  out := fun h ho => out_gone h (fun x hx => by simpa using ho x hx)
  emit := fun h ho => emitCb_gone h (by simpa using ho)
  enq := fun k h =>
    ⟨h.of (fun _ => Nat.le_refl _) (List.Sublist.refl _) (Nat.le_refl _) (fun x hx => by
      rcases List.mem_append.mp hx with hx | hx
      · exact Or.inl hx
      · simp at hx; subst hx; exact Or.inr rfl), NoInv.nil o⟩
  lostMap := fun r => ⟨r.1, r.2.map_toLost⟩
  cbqOk := fun h x hx => by simpa using h.cbq x hx
  clearQ := fun h =>
    ⟨h.of (fun _ => Nat.le_refl _) (List.Sublist.refl _) (Nat.le_refl _) (fun x hx => by simp at hx), NoInv.nil o⟩
  rejectAll := fun {s} v h =>
    rejectList_gone (s := s.clearTables)
      (h.of (fun _ => Nat.le_refl _) (List.nil_sublist _) (Nat.le_refl _) (fun x hx => Or.inl hx)) v s.outstanding

theorem pop_gone {o : Nat} {s : Sess} (h : Gone o s) (kind : Kind) (id : ReqId) :
    Gone o (s.setTbl kind (adel id (s.tbl kind))) := by
  refine h.of (fun _ => by simp) ?_ (by simp) (fun x hx => Or.inl (by simpa using hx))
  rw [setTbl_tbl]; split
  · next e => rw [← e]; exact adel_sublist _ _
  · exact List.Sublist.refl _

theorem popReply_gone {o : Nat} {s : Sess} (h : Gone o s) (kind : Kind) (id : ReqId) (k : Sess → Req → Sess × List SOut)
    (hk : ∀ s1 r, Gone o s1 → (kind = .subscribe → (r.fut : Nat) ≠ o) → GoneRel o s1 (k s1 r).2 (k s1 r).1) :
    GoneRel o s (popReply s kind id k).2 (popReply s kind id k).1 := by
  unfold popReply
  split
  · exact out_gone h (by simp [isInvoke])
  · next r hr =>
    have h1 := pop_gone h kind id
    simp only []
    split
    · exact GoneRel.refl h1
    · refine hk _ r h1 (fun e he => ?_)
      subst e
      have hm : r.fut ∈ futsOf (s.tbl .subscribe) := List.mem_map.mpr ⟨(id, r), alookup_some_mem hr, rfl⟩
      have := List.count_pos_iff.mpr hm
      rw [he, h.reqs] at this
      exact absurd this (by decide)

theorem onEstablished_gone {o : Nat} {s : Sess} (h : Gone o s) (beh : List HAct) (m : InMsg) :
    GoneRel o s (onEstablished s beh m).2 (onEstablished s beh m).1 := by
  cases m with
  | goodbye =>
    simp only [onEstablished]
    split
    · exact out_gone h (by simp [isInvoke])
    · exact (goneLiftX o).goodbye h _
  | event sub pub p =>
    simp only [onEstablished]
    split
    · exact out_gone h (by simp [isInvoke])
    · exact (goneLift o).dispatch h _ _ _ _ _
  | published id pub =>
    simp only [onEstablished]
    exact popReply_gone h _ _ _ (fun s1 r h1 _ => settle_gone h1 _ _)
  | subscribed id sub =>
    simp only [onEstablished]
    refine popReply_gone h _ _ _ (fun s1 r h1 hne => ?_)
    have hne' := hne rfl
    refine settle_gone (s := { s1 with subs := _ }) ?_ _ _
    refine ⟨?_, h1.reqs, h1.bound, h1.cbq⟩
    have hcnt : ∀ l : List (SubId × List SubRec), (objsOf l).count o = 0 →
        ∀ rec_ : SubRec, rec_.obj = r.fut →
        (objsOf (match alookup sub l with
                 | none => l ++ [(sub, [rec_])]
                 | some l' => aupd sub (l' ++ [rec_]) l)).count o = 0 := by
      intro l hl rec_ hrec
      cases hlk : alookup sub l with
      | none => simp only []; rw [count_objsOf_append_new, hrec, hl]; simp [Ne.symm hne']
      | some l' => simp only []; rw [count_objsOf_aupd_append o rec_ hlk, hrec, hl]; simp [Ne.symm hne']
    exact hcnt s1.subs h1.objs _ rfl
  | unsubscribed id =>
    simp only [onEstablished]
    refine popReply_gone h _ _ _ (fun s1 r h1 _ => ?_)
    refine settle_gone (s := { s1 with subs := adel r.target s1.subs }) ?_ _ _
    exact h1.of (fun x => count_objsOf_adel x _ _) (List.Sublist.refl _) (Nat.le_refl _) (fun x hx => Or.inl hx)
  | result id p progress =>
    simp only [onEstablished]
    split
    · exact out_gone h (by simp [isInvoke])
    · split
      · split
        · exact GoneRel.refl h
        · exact GoneRel.trans (out_gone h (os := [_]) (by simp [isInvoke])) ((goneLift o).runAct h none _)
      · have h1 := pop_gone h .call id
        split
        · exact GoneRel.refl h1
        · exact settle_gone h1 _ _
  | registered id reg =>
    simp only [onEstablished]
    refine popReply_gone h _ _ _ (fun s1 r h1 _ => ?_)
    split
    · refine settle_gone (s := { s1 with regs := _ }) ?_ _ _
      exact h1.of (fun _ => Nat.le_refl _) (List.Sublist.refl _) (Nat.le_refl _) (fun x hx => Or.inl hx)
    · exact out_gone h1 (by simp [isInvoke])
  | unregistered id reg =>
    simp only [onEstablished]
    split
    · split
      · exact out_gone h (by simp [isInvoke])
      · exact GoneRel.refl h
    · refine popReply_gone h _ _ _ (fun s1 r h1 _ => ?_)
      refine settle_gone (s := { s1 with regs := _ }) ?_ _ _
      exact h1.of (fun _ => Nat.le_refl _) (List.Sublist.refl _) (Nat.le_refl _) (fun x hx => Or.inl hx)
  | error reqType id uri p =>
    simp only [onEstablished]
    split
    · exact out_gone h (by simp [isInvoke])
    · next k _ =>
      split
      · exact out_gone h (by simp [isInvoke])
      · have h1 := pop_gone h k id
        split
        · exact GoneRel.refl h1
        · exact settle_gone h1 _ _
  | invocation id reg p rp => exact (goneLiftX o).onInvocation h beh id reg p _
  | interrupt id => exact (goneLiftX o).settleInv h id _
  | welcome sid => exact out_gone h (by simp [onEstablished, isInvoke])
  | abort => exact out_gone h (by simp [onEstablished, isInvoke])
  | challenge => exact out_gone h (by simp [onEstablished, isInvoke])
  | other => exact out_gone h (by simp [onEstablished, isInvoke])

theorem step_gone {o : Nat} {s : Sess} (e : SEv) (h : Gone o s) : GoneRel o s (step s e).2 (step s e).1 :=
  (goneLiftX o).step (fun beh m h => onEstablished_gone h beh m) h e

/-- once gone, never invoked again — for every continuation of the history -/
theorem run_gone {o : Nat} {s : Sess} (h : Gone o s) (hist : List SEv) : GoneRel o s (runOuts s hist) (runState s hist) :=
  run_lift (R := GoneRel o) (P := Gone o) GoneRel.refl GoneRel.trans (fun _ r => r.1) (fun e h => step_gone e h) h hist

end Abverif.Session
