import Abverif.Proofs.Lemmas.C13Framing
/-
C13 helper lemmas: the 4-octet handshake accumulator followed by the framing is independent of how
the byte stream is cut into reads (any number of reads, empty reads included).
-/
namespace Abverif.RawSocket

/-- both accumulators compute "the first four octets so far, and what follows them" -/
theorem accumulate_eq (v : Variant) (acc data : Bytes) (h : acc.length < 4) :
    accumulate v acc data = ((acc ++ data).take 4, (acc ++ data).drop 4) := by
  cases v with
  | twisted =>
    simp only [accumulate, twAccumulate]
    rw [List.take_append, List.drop_append, List.take_of_length_le (by omega : acc.length ≤ 4),
      List.drop_of_length_le (by omega : acc.length ≤ 4)]
    simp
  | asyncio =>
    simp only [accumulate, aioAccumulate]
    split
    · rfl
    · rename_i hlt
      rw [List.take_of_length_le (by omega), List.drop_of_length_le (by omega)]

/-- the handshake phase as a function of all octets received so far -/
def hsStep (c : Cfg) (t : Bytes) : Phase × List Ev :=
  match split4 t with
  | some (o1, o2, o3, o4, rest) => finishHs c o1 o2 o3 o4 rest
  | none => (.handshake t, [])

theorem connFeed_hs (c : Cfg) (acc data : Bytes) (h : acc.length < 4) :
    connFeed c (.handshake acc) data = hsStep c (acc ++ data) := by
  simp only [connFeed, accumulate_eq c.variant acc data h, hsStep]
  cases h4 : split4 (acc ++ data) with
  | none =>
    have hl := split4_none.mp h4
    rw [List.take_of_length_le (by omega), h4]
  | some q =>
    obtain ⟨o1, o2, o3, o4, rest⟩ := q
    have hs := split4_some.mp h4
    rw [hs]
    simp [split4]

theorem feed_init_nil (F : Framing) : feed F PSt.init [] = (some PSt.init, []) := by
  simp [feed, PSt.init, loop, split4]

/-- `finishHs` without the `if data:` special case -/
theorem finishHs_eq (c : Cfg) (o1 o2 o3 o4 : UInt8) (rest : Bytes) :
    finishHs c o1 o2 o3 o4 rest =
      if (hsEval c o1 o2 o3 o4).accepted then
        (phaseOf (feed (framingOf c) PSt.init rest).1,
         hsEvents (hsEval c o1 o2 o3 o4) ++ (feed (framingOf c) PSt.init rest).2)
      else (.dead, hsEvents (hsEval c o1 o2 o3 o4)) := by
  simp only [finishHs]
  split
  · cases rest with
    | nil => simp [feed_init_nil, phaseOf]
    | cons x xs => simp
  · rfl

theorem connFeedAll_dead (c : Cfg) (cs : List Bytes) : connFeedAll c .dead cs = (.dead, []) := by
  induction cs with
  | nil => rfl
  | cons d ds ih => simp [connFeedAll, connFeed, ih]

/-- after the handshake the connection is the framing machine -/
theorem connFeedAll_established (c : Cfg) : ∀ (cs : List Bytes) (op : Option PSt),
    connFeedAll c (phaseOf op) cs =
      (phaseOf (feedAll (framingOf c) op cs).1, (feedAll (framingOf c) op cs).2) := by
  intro cs
  induction cs with
  | nil => intro op; cases op <;> simp [connFeedAll, feedAll]
  | cons d ds ih =>
    intro op
    cases op with
    | none => simp [phaseOf, connFeedAll_dead, feedAll]
    | some p =>
      have e : connFeedAll c (phaseOf (some p)) (d :: ds) =
          ((connFeedAll c (phaseOf (feed (framingOf c) p d).1) ds).1,
           (feed (framingOf c) p d).2 ++ (connFeedAll c (phaseOf (feed (framingOf c) p d).1) ds).2) := rfl
      rw [e, ih]
      simp [feedAll]

/-- **segmentation independence of the whole connection** (handshake accumulator + framing):
any number of reads, of any sizes (empty ones included), gives the same events and the same
final phase as one read of the concatenation. -/
theorem conn_segmentation (c : Cfg) : ∀ (cs : List Bytes) (acc : Bytes), acc.length < 4 →
    connFeedAll c (.handshake acc) cs = connFeed c (.handshake acc) cs.flatten := by
  intro cs
  induction cs with
  | nil =>
    intro acc h
    rw [connFeed_hs c acc _ h]
    simp only [connFeedAll, List.flatten_nil, List.append_nil, hsStep]
    rw [split4_none.mpr h]
  | cons d ds ih =>
    intro acc h
    simp only [connFeedAll, List.flatten_cons]
    rw [connFeed_hs c acc d h, connFeed_hs c acc _ h, ← List.append_assoc]
    cases h4 : split4 (acc ++ d) with
    | none =>
      have hl := split4_none.mp h4
      simp only [hsStep, h4]
      rw [ih (acc ++ d) hl, connFeed_hs c _ _ hl]
      simp [hsStep]
    | some q =>
      obtain ⟨o1, o2, o3, o4, rest⟩ := q
      simp only [hsStep, h4, split4_append ds.flatten h4]
      rw [finishHs_eq, finishHs_eq]
      by_cases ha : (hsEval c o1 o2 o3 o4).accepted = true
      · simp only [ha, if_true]
        rw [connFeedAll_established]
        have h1 := feedAll_eq_parse (framingOf c) (rest :: ds) PSt.init (inv_init _)
        have h2 := feed_eq (framingOf c) PSt.init (rest ++ ds.flatten) (inv_init _)
        simp only [feedAll, List.flatten_cons] at h1
        rw [h2, ← h1]
        simp [List.append_assoc]
      · simp only [ha]
        simp [connFeedAll_dead]

end Abverif.RawSocket
