import Abverif.Proofs.Lemmas.SchemaRT1
/-
Round trip, part 2: layout of the marshalled list, the options position, positional fields.
-/
namespace Abverif.Wamp
open Schema

/-- the positional part of `marshal` is dropped-last exactly when the optional dictionary is empty -/
def Schema.dropped (σ : Schema) (m : Msg) : Bool := σ.optsOptional && (σ.marshalDict m).isEmpty

def Schema.posVals (σ : Schema) (m : Msg) : List WVal := σ.pos.map (σ.marshalPosStep m)

def Schema.tailVals (σ : Schema) (m : Msg) : List WVal := if σ.tail.isSome then marshalTail m else []

theorem marshal_eq (σ : Schema) (m : Msg) :
    σ.marshal m = .int σ.code :: ((if σ.dropped m then (σ.posVals m).dropLast else σ.posVals m) ++ σ.tailVals m) := by
  simp [Schema.marshal, Schema.dropped, Schema.posVals, Schema.tailVals]

theorem posVals_length (σ : Schema) (m : Msg) : (σ.posVals m).length = σ.k := by
  simp [Schema.posVals, Schema.k]

/-- `optsPos = some j` pins down the position of the `.opts` step -/
theorem optsPos_spec {σ : Schema} {j : Nat} (h : σ.optsPos = some j) :
    ∃ i, j = i + 1 ∧ ∃ hi : i < σ.pos.length, σ.pos[i] = PosStep.opts := by
  unfold Schema.optsPos at h
  simp only at h
  split at h
  · rename_i hlt
    refine ⟨_, (Option.some.inj h).symm, hlt, ?_⟩
    have := List.findIdx_getElem (w := hlt)
    revert this
    cases σ.pos[List.findIdx (fun p => match p with | .opts => true | _ => false) σ.pos] <;> simp
  · simp at h

theorem marshalPosStep_opts (σ : Schema) (m : Msg) : σ.marshalPosStep m .opts = .dict (σ.marshalDict m) := rfl

/-- the options dictionary `parse` reads from the marshalled message is the one `marshal` wrote -/
theorem optsAt_marshal {σ : Schema} {m : Msg} (hwf : σ.wf = true) {j : Nat} (h : σ.optsPos = some j) :
    ((σ.marshal m).getD j .null).entries = σ.marshalDict m := by
  obtain ⟨i, rfl, hi, hpi⟩ := optsPos_spec h
  rw [marshal_eq, List.getD_cons_succ, List.getD_eq_getElem?_getD]
  by_cases hd : σ.dropped m = true
  · -- optional dictionary, empty: the position is not there at all
    simp only [hd, if_true]
    have hopt : σ.optsOptional = true := by
      simp only [Schema.dropped, Bool.and_eq_true] at hd; exact hd.1
    have hemp : (σ.marshalDict m).isEmpty = true := by
      simp only [Schema.dropped, Bool.and_eq_true] at hd; exact hd.2
    rcases (wf_parts hwf).2.2.2.2.1 with h0 | ⟨htl, hk, _⟩
    · simp [hopt] at h0
    · have hik : i + 1 = σ.k := by rw [h] at hk; exact Option.some.inj hk
      have htv : σ.tailVals m = [] := by
        simp only [Schema.tailVals]
        cases hh : σ.tail <;> simp_all
      rw [htv, List.append_nil]
      have : ((σ.posVals m).dropLast)[i]? = none := by
        apply List.getElem?_eq_none
        simp [posVals_length]
        omega
      rw [this]
      simp only [Option.getD_none, WVal.entries]
      exact (List.isEmpty_iff.mp hemp).symm
  · simp only [hd, Bool.false_eq_true, if_false]
    have hlt : i < (σ.posVals m).length := by rw [posVals_length]; exact hi
    rw [List.getElem?_append_left hlt]
    simp only [Schema.posVals, List.getElem?_map, List.getElem?_eq_getElem hi, Option.map_some, hpi,
      marshalPosStep_opts, Option.getD_some, WVal.entries]

theorem optsOf_marshal {σ : Schema} {m : Msg} (hwf : σ.wf = true)
    (hne : σ.optsPos.isSome = true) : σ.optsOf (σ.marshal m) = σ.marshalDict m := by
  unfold Schema.optsOf
  cases h : σ.optsPos with
  | none => simp [h] at hne
  | some j => exact optsAt_marshal hwf h

/-- without an options position there is nothing to write either -/
theorem marshalDict_nil_of_no_opts {σ : Schema} {m : Msg} (hwf : σ.wf = true) (h : σ.optsPos.isSome = false) :
    σ.marshalDict m = [] := by
  rcases (wf_parts hwf).2.2.2.1 with h0 | h0
  · simp only [Bool.and_eq_true, List.isEmpty_iff, Bool.not_eq_true', Option.isNone_iff_eq_none] at h0
    obtain ⟨⟨ho, ht⟩, hc⟩ := h0
    simp [Schema.marshalDict, ho, ht, hc]
  · rw [h] at h0; exact absurd h0 (by simp)

theorem optsOf_marshal' {σ : Schema} {m : Msg} (hwf : σ.wf = true) : σ.optsOf (σ.marshal m) = σ.marshalDict m := by
  by_cases hne : σ.optsPos.isSome = true
  · exact optsOf_marshal hwf hne
  · have hn : σ.optsPos.isSome = false := by simpa using hne
    rw [marshalDict_nil_of_no_opts hwf hn]
    unfold Schema.optsOf
    cases h : σ.optsPos with
    | none => rfl
    | some j => simp [h] at hn

/-! ### positional fields -/

/-- the attribute a positional step produces -/
def PosStep.fieldVal (m : Msg) (p : PosStep) : Option (Str × WVal) := p.field?.map (fun f => (f, m.get f))

theorem parsePos_nil_input (O : Oracles) (w : List WVal) : ∀ ps : List PosStep, parsePos O w ps [] = .ok [] := by
  intro ps
  induction ps with
  | nil => rfl
  | cons p t ih => simp only [parsePos, ih]

theorem parsePos_map {σ : Schema} {O : Oracles} {m : Msg} (w : List WVal) (qs : List PosStep) (rest : List WVal)
    (hrest : parsePos O w qs rest = .ok (qs.filterMap (PosStep.fieldVal m))) :
    ∀ ps : List PosStep, (∀ p ∈ ps, p.parse O w (σ.marshalPosStep m p) = .ok (p.fieldVal m)) →
      parsePos O w (ps ++ qs) (ps.map (σ.marshalPosStep m) ++ rest) = .ok ((ps ++ qs).filterMap (PosStep.fieldVal m)) := by
  intro ps
  induction ps with
  | nil => intro _; simpa using hrest
  | cons p t ih =>
    intro h
    have hp := h p List.mem_cons_self
    have ht := ih (fun x hx => h x (List.mem_cons_of_mem _ hx))
    simp only [List.cons_append, List.map_cons, parsePos, hp, ht, List.filterMap_cons]
    cases hfv : p.fieldVal m <;> rfl

end Abverif.Wamp
