import Abverif.Proofs.Lemmas.SchemaOpts
/-
HELLO / WELCOME `roles`: `rolesCheck (rolesEncode v) = v` for every value `rolesValid` admits.
-/
namespace Abverif.Wamp

theorem Dict.get?_of_mem_nodup {d : Dict} (hnd : nodup (d.map (·.1)) = true) {k : Str} {v : WVal} (h : (k, v) ∈ d) :
    Dict.get? d k = some v := by
  induction d with
  | nil => simp at h
  | cons kv t ih =>
    obtain ⟨g, x⟩ := kv
    simp only [List.map_cons] at hnd
    rw [nodup_cons] at hnd
    rcases List.mem_cons.mp h with heq | ht
    · injection heq with h1 h2
      subst h1 h2
      exact Dict.get?_cons_self _ _ _
    · have hg : g ≠ k := by
        intro e; subst e
        exact (any_beq_false_iff.mp hnd.1) (List.mem_map_of_mem (f := (·.1)) ht)
      rw [Dict.get?_cons_ne x t hg]
      exact ih hnd.2 ht

/-- a list that agrees with `fd` on keys (in order) and whose values are what `fd` maps those keys to is `fd` -/
theorem eq_of_keys_and_lookup (fd : Dict) (hnd : nodup (fd.map (·.1)) = true) :
    ∀ L : Dict, L.map (·.1) = fd.map (·.1) → (∀ e ∈ L, Dict.get? fd e.1 = some e.2) → L = fd := by
  induction fd with
  | nil =>
    intro L hk _
    simpa using hk
  | cons kv t ih =>
    obtain ⟨k, v⟩ := kv
    intro L hk hl
    simp only [List.map_cons] at hnd
    rw [nodup_cons] at hnd
    cases L with
    | nil => simp at hk
    | cons e L' =>
      obtain ⟨k', v'⟩ := e
      simp only [List.map_cons, List.cons.injEq] at hk
      obtain ⟨hk1, hk2⟩ := hk
      subst hk1
      have h0 := hl (k', v') List.mem_cons_self
      rw [Dict.get?_cons_self] at h0
      injection h0 with h0
      subst h0
      congr 1
      apply ih hnd.2 L' hk2
      intro e he
      have h1 := hl e (List.mem_cons_of_mem _ he)
      have hne : k' ≠ e.1 := by
        intro heq
        have : e.1 ∈ t.map (·.1) := by rw [← hk2]; exact List.mem_map_of_mem he
        rw [← heq] at this
        exact (any_beq_false_iff.mp hnd.1) this
      rw [Dict.get?_cons_ne _ _ hne] at h1
      exact h1

theorem featCanon_mem {fd : Dict} {known : List Str} : ∀ e ∈ featCanon fd known, Dict.get? fd e.1 = some e.2 := by
  intro e he
  unfold featCanon at he
  obtain ⟨f, _, hf⟩ := List.mem_filterMap.mp he
  split at hf
  · rename_i b hb
    injection hf with hf
    subst hf
    exact hb
  · cases hf

theorem featCanon_eq {fd : Dict} {known : List Str} (h : rolesFeatValid known fd = true) : featCanon fd known = fd := by
  simp only [rolesFeatValid, Bool.and_eq_true, beq_iff_eq] at h
  obtain ⟨⟨_, hk⟩, hnd⟩ := h
  exact eq_of_keys_and_lookup fd hnd _ hk featCanon_mem

theorem featBad_false_of_all_bool {fd : Dict} (h : fd.all (fun kv => kv.2.isBool) = true) (f : Str) : featBad fd f = false := by
  unfold featBad
  cases hg : Dict.get? fd f with
  | none => rfl
  | some v =>
    have : v.isBool = true := by
      unfold Dict.get? at hg
      cases hfind : fd.find? (fun kv => kv.1 == f) with
      | none => simp [hfind] at hg
      | some kv =>
        simp only [hfind, Option.map_some, Option.some.injEq] at hg
        subst hg
        exact List.all_eq_true.mp h kv (List.mem_of_find?_eq_some hfind)
    cases v <;> simp_all [WVal.isBool]

theorem featuresCheck_valid {site : Str} {known : List Str} {fd : Dict} (h : rolesFeatValid known fd = true) :
    featuresCheck site known fd = .ok fd := by
  have hc := featCanon_eq h
  simp only [rolesFeatValid, Bool.and_eq_true] at h
  obtain ⟨⟨hb, _⟩, _⟩ := h
  unfold featuresCheck
  have hbad : known.any (featBad fd) = false := by
    rw [List.any_eq_false]
    intro f _
    simp [featBad_false_of_all_bool hb f]
  simp only [Bool.false_eq_true, if_false, hbad, hc]

theorem roleEnc_nil : roleEnc (.dict []) = .dict [] := rfl
theorem roleEnc_cons (e : Str × WVal) (fd : Dict) : roleEnc (.dict (e :: fd)) = .dict [(cs!"features", .dict (e :: fd))] := rfl

theorem rolesEncode_dict (dr : Dict) : rolesEncode (.dict dr) = .dict (dr.map (fun rv => (rv.1, roleEnc rv.2))) := rfl

theorem rolesLoop_encode (site : Str) (allowed : List Str) (feats : List (Str × List Str)) :
    ∀ dr : Dict,
      dr.all (fun rv => strMem rv.1 allowed &&
        (match rv.2 with | .dict fd => rolesFeatValid (roleKnown feats rv.1) fd | _ => false)) = true →
      rolesLoop site allowed feats (dr.map (fun rv => (rv.1, roleEnc rv.2))) = .ok dr := by
  intro dr
  induction dr with
  | nil => intro _; rfl
  | cons rv t ih =>
    obtain ⟨role, fs⟩ := rv
    intro h
    simp only [List.all_cons, Bool.and_eq_true] at h
    obtain ⟨⟨hrole, hfs⟩, ht⟩ := h
    have iht := ih ht
    simp only [List.map_cons]
    cases fs with
    | dict fd =>
      simp only at hfs
      cases fd with
      | nil =>
        rw [roleEnc_nil]
        simp only [rolesLoop, hrole, Bool.not_true, Bool.false_eq_true, if_false, Dict.get?, List.find?,
          Option.map_none]
        rw [iht]
        rfl
      | cons e fd' =>
        rw [roleEnc_cons]
        simp only [rolesLoop, hrole, Bool.not_true, Bool.false_eq_true, if_false, Dict.get?_cons_self]
        rw [featuresCheck_valid hfs]
        simp only [bind, Except.bind]
        rw [iht]
        rfl
    | _ => simp at hfs

theorem rolesCheck_encode {site : Str} {allowed : List Str} {feats : List (Str × List Str)} {v : WVal}
    (h : rolesValid allowed feats v = true) : rolesCheck site allowed feats (rolesEncode v) = .ok v := by
  cases v with
  | dict dr =>
    simp only [rolesValid, Bool.and_eq_true, Bool.not_eq_true'] at h
    obtain ⟨⟨hne, _⟩, hall⟩ := h
    rw [rolesEncode_dict]
    cases dr with
    | nil => simp at hne
    | cons rv t =>
      have := rolesLoop_encode site allowed feats (rv :: t) hall
      simp only [List.map_cons] at this ⊢
      simp only [rolesCheck, this]
      rfl
  | _ => simp [rolesValid] at h

/-- a value of the declared type passes the check, after the re-encoding `marshal` applies — every option type -/
theorem OTy.check_encode_of_valid (O : Oracles) (site : Str) {ty : OTy} {v : WVal}
    (h : ty.valid O v = true) : ty.check O site (ty.encode v) = .ok v := by
  by_cases hr : ty.isRoles = false
  · rw [OTy.encode_of_not_roles hr]
    exact OTy.check_of_valid O site hr h
  · cases ty <;> simp [OTy.isRoles] at hr
    simp only [OTy.valid] at h
    simp only [OTy.encode, OTy.check]
    exact rolesCheck_encode h

end Abverif.Wamp
