import Abverif.Proofs.Lemmas.SchemaRT2
/-
Round trip, part 3: every positional step reads back its attribute; the args/kwargs/payload tail.
-/
namespace Abverif.Wamp
open Schema

theorem PosStep.parse_marshal {σ : Schema} {O : Oracles} {m : Msg}
    (hwf : σ.wf = true) (hwfO : σ.wfO O = true)
    (hst : σ.strict O m = true) (hres : σ.residual O m = true) {p : PosStep} (hp : p ∈ σ.pos) :
    p.parse O (σ.marshal m) (σ.marshalPosStep m p) = .ok (p.fieldVal m) := by
  have hps := (strict_parts hst).2.1 p hp
  cases p with
  | id f =>
    simp only [PosStep.strict] at hps
    simp only [PosStep.parse, Schema.marshalPosStep, PosStep.field?, PosStep.fieldVal, Option.map_some]
    cases hv : m.get f <;> simp_all [checkId]
    rfl
  | uri f fl =>
    simp only [PosStep.strict] at hps
    simp only [PosStep.parse, Schema.marshalPosStep, PosStep.field?, PosStep.fieldVal, Option.map_some, checkUri, hps, if_true]
    rfl
  | str f =>
    simp only [PosStep.strict] at hps
    simp only [PosStep.parse, Schema.marshalPosStep, PosStep.field?, PosStep.fieldVal, Option.map_some]
    cases hv : m.get f <;> simp_all [checkStr, WVal.isStr]
    rfl
  | extra f =>
    simp only [PosStep.strict] at hps
    simp only [PosStep.parse, Schema.marshalPosStep, PosStep.field?, PosStep.fieldVal, Option.map_some]
    cases hv : m.get f <;> simp_all [checkExtra]
    rfl
  | intEnum f allowed =>
    simp only [PosStep.strict] at hps
    simp only [PosStep.parse, Schema.marshalPosStep, PosStep.field?, PosStep.fieldVal, Option.map_some]
    cases hv : m.get f <;> simp_all
    rfl
  | opts =>
    simp only [PosStep.parse, Schema.marshalPosStep, checkExtra, PosStep.fieldVal, PosStep.field?, Option.map_none]
    rfl
  | uriByMatch f optsPos key vals =>
    simp only [PosStep.strict] at hps
    have hpw := (wf_parts hwf).2.2.2.2.2.2.1 _ hp
    simp only [PosStep.wf, Bool.and_eq_true, beq_iff_eq, List.any_eq_true] at hpw
    obtain ⟨hop, s, hs, ⟨hk, hf⟩, hty⟩ := hpw
    have hsres := (residual_parts hres).1 s hs
    simp only [PosStep.parse, Schema.marshalPosStep, PosStep.field?, PosStep.fieldVal, Option.map_some]
    rw [optsAt_marshal hwf hop]
    rw [← hk, get?_marshalDict_opt hwf hwfO hst hs]
    -- shape of the `match` step
    split at hty
    case h_2 => exact absurd hty (by simp)
    rename_i vs d d' hsty hsd hsm
    simp only [Bool.and_eq_true, beq_iff_eq] at hty
    obtain ⟨⟨⟨hvs, hdd⟩, hfl⟩, hdm⟩ := hty
    subst hvs hdd
    have hfl' : matchFlags d = {} := by simpa using hfl
    by_cases hem : s.mm.emits (m.get s.field) = true
    · unfold OptStep.residual at hsres
      rw [if_pos hem, Bool.and_eq_true] at hsres
      have hval := hsres.1
      rw [hsty] at hval
      simp only [hem, if_true, hsty, OTy.encode]
      rw [hf] at hval ⊢
      cases hv : m.get key with
      | str x =>
        simp only [hv, OTy.valid] at hval
        simp only [hval, if_true]
        rw [hv] at hps
        simp only [strOf] at hps
        simp only [checkUri, hps, if_true]
        rfl
      | _ => simp [hv, OTy.valid] at hval
    · unfold OptStep.residual at hsres
      rw [if_neg hem, Bool.and_eq_true, Bool.and_eq_true] at hsres
      have hd := isDflt_eq hsres.1.1
      simp only [hem]
      rw [hf, hsd] at hd
      rw [hd] at hps
      simp only [strOf, hfl'] at hps
      simp only [checkUri, hps, if_true]
      rfl

/-! ### the tail -/

theorem tailStrict_parts {O : Oracles} {t : TailSpec} {m : Msg} (h : tailStrict O t m = true) :
    ((m.get cs!"payload").isNull = true ∨ (m.get cs!"payload").isBytes = true) ∧
    ((match m.get cs!"kwargs" with | .null => true | .dict _ => true | _ => false) = true) ∧
    ((m.get cs!"payload").isNull = true ∨ ((m.get cs!"args").isNull = true ∧ (m.get cs!"kwargs").isNull = true)) ∧
    ((m.get cs!"enc_algo").isNull = true ∨ validEncAlgo O (m.get cs!"enc_algo") = true) ∧
    ((m.get cs!"enc_key").isNull = true ∨ (m.get cs!"enc_key").isStr = true) ∧
    ((m.get cs!"enc_serializer").isNull = true ∨ validEncSer O (m.get cs!"enc_serializer") = true) ∧
    (((m.get cs!"enc_algo").isNull = true ∧ (m.get cs!"enc_key").isNull = true ∧ (m.get cs!"enc_serializer").isNull = true) ∨
      ((m.get cs!"payload").isNull = false ∧ (m.get cs!"enc_algo").isNull = false)) := by
  simp only [tailStrict, Bool.and_eq_true, Bool.or_eq_true, Bool.not_eq_true'] at h
  obtain ⟨⟨⟨⟨⟨⟨⟨h1, _⟩, h3⟩, h4⟩, h5⟩, h6⟩, h7⟩, h8⟩ := h
  refine ⟨h1, h3, h4, h5, h6, h7, ?_⟩
  rcases h8 with ⟨⟨a, b⟩, c⟩ | ⟨a, b⟩
  · exact Or.inl ⟨a, b, c⟩
  · exact Or.inr ⟨a, b⟩

theorem tailResidual_parts {t : TailSpec} {m : Msg} (h : tailResidual t m = true) :
    ((m.get cs!"payload").isNull = true ∨ (m.get cs!"payload").truthy = true) ∧
    ((m.get cs!"kwargs").isNull = true ∨ (m.get cs!"kwargs").truthy = true) ∧
    ((m.get cs!"args").isNull = true ∨ (m.get cs!"args").isList = true) ∧
    ((m.get cs!"kwargs").truthy = true ∨ (m.get cs!"args").isNull = true ∨ (m.get cs!"args").truthy = true) ∧
    (t.variant = .publish → (m.get cs!"kwargs").truthy = true → (m.get cs!"args").isList = true) := by
  simp only [tailResidual, Bool.and_eq_true, Bool.or_eq_true] at h
  obtain ⟨⟨⟨⟨h1, h2⟩, h3⟩, h4⟩, h5⟩ := h
  refine ⟨h1, h2, h3, ?_, ?_⟩
  · rcases h4 with (a | b) | c
    · exact Or.inl a
    · exact Or.inr (Or.inl b)
    · exact Or.inr (Or.inr c)
  · intro hv hk
    rw [hv] at h5
    simpa [hk] using h5

theorem encGet_ok {d : Dict} {key : Str} {valid : WVal → Bool} {v : WVal}
    (hget : (d.get? key).getD .null = v) (hv : v.isNull = true ∨ valid v = true) :
    encGet d key valid = .ok v := by
  unfold encGet
  simp only [hget]
  rcases hv with h | h
  · cases v <;> simp_all [WVal.isNull]
  · simp [h]

end Abverif.Wamp
