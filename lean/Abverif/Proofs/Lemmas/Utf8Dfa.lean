import Abverif.Model.Utf8Spec
/-
C09 helper lemmas, part 1: grammar ⇔ decision procedure ⇔ automaton.
`lang s` is the residual language of automaton state `s` written from the grammar: the byte strings that
complete a UTF8-char whose beginning put the automaton in `s`, followed by any well-formed string.
-/
namespace Abverif.Utf8

/-! ### `wf` decides `WF` -/

theorem WF_of_wf (b : Bytes) : wf b = true → WF b := by
  fun_induction wf b <;> intro h <;> (try simp only [Bool.and_eq_true, Bool.false_eq_true] at h)
  next => exact WF.nil
  next a r h1 ih => exact WF.cons [a] r (UChar.utf8_1 a h1) (ih h)
  next a _ h2 b r ih => exact WF.cons [a, b] r (UChar.utf8_2 a b h2 h.1) (ih h.2)
  next a _ _ h3 b c r ih => exact WF.cons [a, b, c] r (UChar.utf8_3_e0 a b c h3 h.1.1 h.1.2) (ih h.2)
  next a _ _ _ h3 b c r ih => exact WF.cons [a, b, c] r (UChar.utf8_3_e1_ec a b c h3 h.1.1 h.1.2) (ih h.2)
  next a _ _ _ _ h3 b c r ih => exact WF.cons [a, b, c] r (UChar.utf8_3_ed a b c h3 h.1.1 h.1.2) (ih h.2)
  next a _ _ _ _ _ h3 b c r ih => exact WF.cons [a, b, c] r (UChar.utf8_3_ee_ef a b c h3 h.1.1 h.1.2) (ih h.2)
  next a _ _ _ _ _ _ h4 b c d r ih =>
    exact WF.cons [a, b, c, d] r (UChar.utf8_4_f0 a b c d h4 h.1.1.1 h.1.1.2 h.1.2) (ih h.2)
  next a _ _ _ _ _ _ _ h4 b c d r ih =>
    exact WF.cons [a, b, c, d] r (UChar.utf8_4_f1_f3 a b c d h4 h.1.1.1 h.1.1.2 h.1.2) (ih h.2)
  next a _ _ _ _ _ _ _ _ h4 b c d r ih =>
    exact WF.cons [a, b, c, d] r (UChar.utf8_4_f4 a b c d h4 h.1.1.1 h.1.1.2 h.1.2) (ih h.2)

/-- two disjoint ranges cannot both contain `a` -/
theorem inR_excl {lo hi lo' hi' : Nat} {a : UInt8} (h : inR lo hi a = true) (hd : hi < lo' ∨ hi' < lo) :
    inR lo' hi' a = false := by
  simp only [inR, Bool.and_eq_true, decide_eq_true_eq] at h
  simp only [inR, Bool.and_eq_false_iff, decide_eq_false_iff_not]
  omega

theorem wf_UChar_append (c r : Bytes) (hc : UChar c) : wf (c ++ r) = wf r := by
  cases hc with
  | utf8_1 a h => simp only [List.cons_append, List.nil_append]; rw [wf.eq_def]; simp [h]
  | utf8_2 a b h hb =>
    simp only [List.cons_append, List.nil_append]; rw [wf.eq_def]
    simp [h, hb, inR_excl h (lo' := 0) (hi' := 0x7F) (by omega)]
  | utf8_3_e0 a b c h hb hc' =>
    simp only [List.cons_append, List.nil_append]; rw [wf.eq_def]
    simp [h, hb, hc', inR_excl h (lo' := 0) (hi' := 0x7F) (by omega),
      inR_excl h (lo' := 0xC2) (hi' := 0xDF) (by omega)]
  | utf8_3_e1_ec a b c h hb hc' =>
    simp only [List.cons_append, List.nil_append]; rw [wf.eq_def]
    simp [h, hb, hc', inR_excl h (lo' := 0) (hi' := 0x7F) (by omega),
      inR_excl h (lo' := 0xC2) (hi' := 0xDF) (by omega), inR_excl h (lo' := 0xE0) (hi' := 0xE0) (by omega)]
  | utf8_3_ed a b c h hb hc' =>
    simp only [List.cons_append, List.nil_append]; rw [wf.eq_def]
    simp [h, hb, hc', inR_excl h (lo' := 0) (hi' := 0x7F) (by omega),
      inR_excl h (lo' := 0xC2) (hi' := 0xDF) (by omega), inR_excl h (lo' := 0xE0) (hi' := 0xE0) (by omega),
      inR_excl h (lo' := 0xE1) (hi' := 0xEC) (by omega)]
  | utf8_3_ee_ef a b c h hb hc' =>
    simp only [List.cons_append, List.nil_append]; rw [wf.eq_def]
    simp [h, hb, hc', inR_excl h (lo' := 0) (hi' := 0x7F) (by omega),
      inR_excl h (lo' := 0xC2) (hi' := 0xDF) (by omega), inR_excl h (lo' := 0xE0) (hi' := 0xE0) (by omega),
      inR_excl h (lo' := 0xE1) (hi' := 0xEC) (by omega), inR_excl h (lo' := 0xED) (hi' := 0xED) (by omega)]
  | utf8_4_f0 a b c d h hb hc' hd =>
    simp only [List.cons_append, List.nil_append]; rw [wf.eq_def]
    simp [h, hb, hc', hd, inR_excl h (lo' := 0) (hi' := 0x7F) (by omega),
      inR_excl h (lo' := 0xC2) (hi' := 0xDF) (by omega), inR_excl h (lo' := 0xE0) (hi' := 0xE0) (by omega),
      inR_excl h (lo' := 0xE1) (hi' := 0xEC) (by omega), inR_excl h (lo' := 0xED) (hi' := 0xED) (by omega),
      inR_excl h (lo' := 0xEE) (hi' := 0xEF) (by omega)]
  | utf8_4_f1_f3 a b c d h hb hc' hd =>
    simp only [List.cons_append, List.nil_append]; rw [wf.eq_def]
    simp [h, hb, hc', hd, inR_excl h (lo' := 0) (hi' := 0x7F) (by omega),
      inR_excl h (lo' := 0xC2) (hi' := 0xDF) (by omega), inR_excl h (lo' := 0xE0) (hi' := 0xE0) (by omega),
      inR_excl h (lo' := 0xE1) (hi' := 0xEC) (by omega), inR_excl h (lo' := 0xED) (hi' := 0xED) (by omega),
      inR_excl h (lo' := 0xEE) (hi' := 0xEF) (by omega), inR_excl h (lo' := 0xF0) (hi' := 0xF0) (by omega)]
  | utf8_4_f4 a b c d h hb hc' hd =>
    simp only [List.cons_append, List.nil_append]; rw [wf.eq_def]
    simp [h, hb, hc', hd, inR_excl h (lo' := 0) (hi' := 0x7F) (by omega),
      inR_excl h (lo' := 0xC2) (hi' := 0xDF) (by omega), inR_excl h (lo' := 0xE0) (hi' := 0xE0) (by omega),
      inR_excl h (lo' := 0xE1) (hi' := 0xEC) (by omega), inR_excl h (lo' := 0xED) (hi' := 0xED) (by omega),
      inR_excl h (lo' := 0xEE) (hi' := 0xEF) (by omega), inR_excl h (lo' := 0xF0) (hi' := 0xF0) (by omega),
      inR_excl h (lo' := 0xF1) (hi' := 0xF3) (by omega)]

theorem wf_of_WF (b : Bytes) (h : WF b) : wf b = true := by
  induction h with
  | nil => rfl
  | cons c r hc _ ih => rw [wf_UChar_append c r hc]; exact ih

/-! ### residual languages of the automaton states, from the grammar -/

def lang2 : Bytes → Bool
  | b :: r => isTail b && wf r
  | [] => false
def lang3 : Bytes → Bool
  | b :: r => isTail b && lang2 r
  | [] => false
def lang4 : Bytes → Bool
  | b :: r => inR 0xA0 0xBF b && lang2 r
  | [] => false
def lang5 : Bytes → Bool
  | b :: r => inR 0x80 0x9F b && lang2 r
  | [] => false
def lang6 : Bytes → Bool
  | b :: r => inR 0x90 0xBF b && lang3 r
  | [] => false
def lang7 : Bytes → Bool
  | b :: r => isTail b && lang3 r
  | [] => false
def lang8 : Bytes → Bool
  | b :: r => inR 0x80 0x8F b && lang3 r
  | [] => false

def lang (s : Nat) (t : Bytes) : Bool :=
  match s with
  | 0 => wf t
  | 2 => lang2 t
  | 3 => lang3 t
  | 4 => lang4 t
  | 5 => lang5 t
  | 6 => lang6 t
  | 7 => lang7 t
  | 8 => lang8 t
  | _ => false

theorem rfcStep_lt (s o : Nat) : rfcStep s o < 9 := by
  unfold rfcStep
  repeat' split
  all_goals omega

theorem rfcStep_reject (o : Nat) : rfcStep 1 o = 1 := rfl

theorem rfcStep0_eq (a : UInt8) : rfcStep 0 a.toNat =
    if inR 0x00 0x7F a then 0 else if inR 0xC2 0xDF a then 2 else if inR 0xE0 0xE0 a then 4
    else if inR 0xE1 0xEC a then 3 else if inR 0xED 0xED a then 5 else if inR 0xEE 0xEF a then 3
    else if inR 0xF0 0xF0 a then 6 else if inR 0xF1 0xF3 a then 7 else if inR 0xF4 0xF4 a then 8 else 1 := by
  simp only [rfcStep, inR, Bool.and_eq_true, decide_eq_true_eq]
  repeat' split
  all_goals omega

theorem lang_step0 (a : UInt8) (r : Bytes) : wf (a :: r) = lang (rfcStep 0 a.toNat) r := by
  rw [rfcStep0_eq, wf.eq_def]
  simp only
  repeat' split
  all_goals first
    | rfl
    | contradiction
    | (simp [lang, lang2, lang3, lang4, lang5, lang6, lang7, lang8, Bool.and_assoc]; done)
    | (rename_i hx
       rcases r with _ | ⟨b, _ | ⟨c, _ | ⟨d, r⟩⟩⟩ <;>
         first
         | exact (hx _ _ rfl).elim
         | exact (hx _ _ _ rfl).elim
         | exact (hx _ _ _ _ rfl).elim
         | simp [lang, lang2, lang3, lang4, lang5, lang6, lang7, lang8])

/-- one-byte derivative of a range test followed by residual language `k` -/
theorem step_range (lo hi k : Nat) (a : UInt8) (r : Bytes) :
    (inR lo hi a && lang k r) = lang (if lo ≤ a.toNat ∧ a.toNat ≤ hi then k else 1) r := by
  by_cases h : lo ≤ a.toNat ∧ a.toNat ≤ hi
  · simp [inR, h]
  · have : inR lo hi a = false := by
      simp only [inR, Bool.and_eq_false_iff, decide_eq_false_iff_not]; omega
    simp [this, h, lang]

theorem lang_step (s : Nat) (hs : s < 9) (a : UInt8) (r : Bytes) :
    lang s (a :: r) = lang (rfcStep s a.toNat) r := by
  match s, hs with
  | 0, _ => exact lang_step0 a r
  | 1, _ => rfl
  | 2, _ => exact step_range 0x80 0xBF 0 a r
  | 3, _ => exact step_range 0x80 0xBF 2 a r
  | 4, _ => exact step_range 0xA0 0xBF 2 a r
  | 5, _ => exact step_range 0x80 0x9F 2 a r
  | 6, _ => exact step_range 0x90 0xBF 3 a r
  | 7, _ => exact step_range 0x80 0xBF 3 a r
  | 8, _ => exact step_range 0x80 0x8F 3 a r

/-! ### runs -/

theorem run_append (step : Nat → Nat → Nat) (s : Nat) (a b : Bytes) :
    run step s (a ++ b) = run step (run step s a) b := by
  induction a generalizing s with
  | nil => rfl
  | cons x xs ih => simp only [List.cons_append, run, ih]

theorem run_reject (b : Bytes) : run rfcStep 1 b = 1 := by
  induction b with
  | nil => rfl
  | cons x xs ih => simpa [run, rfcStep_reject] using ih

theorem run_lt (s : Nat) (hs : s < 9) (b : Bytes) : run rfcStep s b < 9 := by
  induction b generalizing s with
  | nil => exact hs
  | cons x xs ih => exact ih _ (rfcStep_lt _ _)

theorem lang_nil : ∀ s, s < 9 → ((s = 0) ↔ lang s [] = true) := by decide

/-- the automaton started in `s` ends in the accepting state exactly on the residual language of `s` -/
theorem run_accepts (s : Nat) (hs : s < 9) (b : Bytes) : run rfcStep s b = 0 ↔ lang s b = true := by
  induction b generalizing s with
  | nil => exact lang_nil s hs
  | cons a r ih => rw [lang_step s hs, run]; exact ih _ (rfcStep_lt _ _)

/-- a completion for every live state -/
def witness (s : Nat) : Bytes :=
  match s with
  | 2 => [0x80]
  | 3 => [0x80, 0x80]
  | 4 => [0xA0, 0x80]
  | 5 => [0x80, 0x80]
  | 6 => [0x90, 0x80, 0x80]
  | 7 => [0x80, 0x80, 0x80]
  | 8 => [0x80, 0x80, 0x80]
  | _ => []

theorem witness_ok : ∀ s, s < 9 → s ≠ 1 → run rfcStep s (witness s) = 0 := by decide

theorem witness_mem : ∀ s, s < 9 → witness s ∈ completions := by decide

end Abverif.Utf8
