import Abverif.Proofs.Lemmas.C19Bytes
/-
C19 — structural facts about the reference primitives: output lengths of SHA-1, SHA-256, HMAC, PBKDF2.
(These are facts about the Lean reference implementations. That the reference equals OpenSSL's /
hashlib's functions is NOT proved; it is tested differentially by harness/c19.py and on RFC vectors.)
-/
namespace Abverif.Crypto

theorem be32_length (w : UInt32) : (be32 w).length = 4 := rfl
theorem be32n_length (n : Nat) : (be32n n).length = 4 := rfl
theorem be64_length (n : Nat) : (be64 n).length = 8 := rfl

theorem Sha256.hash_length (m : Bytes) : (Sha256.hash m).length = 32 := by
  simp [Sha256.hash, Sha256.State.toBytes, be32_length]

theorem Sha1.hash_length (m : Bytes) : (Sha1.hash m).length = 20 := by
  simp [Sha1.hash, Sha1.State.toBytes, be32_length]

/-- a hash algorithm record is coherent when its hash always returns `outLen` octets -/
def HashAlg.Coherent (A : HashAlg) : Prop := ∀ m, (A.hash m).length = A.outLen

theorem sha256Alg_coherent : sha256Alg.Coherent := Sha256.hash_length
theorem sha1Alg_coherent : sha1Alg.Coherent := Sha1.hash_length

namespace Hmac

theorem hmac_length {A : HashAlg} (hA : A.Coherent) (k m : Bytes) : (hmac A k m).length = A.outLen := by
  simp only [hmac]; exact hA _

theorem sha256_length (k m : Bytes) : (sha256 k m).length = 32 := hmac_length sha256Alg_coherent k m
theorem sha1_length (k m : Bytes) : (sha1 k m).length = 20 := hmac_length sha1Alg_coherent k m

/-- the block key always has block size (when the hash output fits in a block) -/
theorem blockKey_length {A : HashAlg} (hA : A.Coherent) (hle : A.outLen ≤ A.blockSize) (k : Bytes) :
    (blockKey A k).length = A.blockSize := by
  simp only [blockKey]
  split
  · rw [List.length_append, List.length_replicate, hA]; omega
  · rw [List.length_append, List.length_replicate]; omega

/-- RFC 2104 unfolded for SHA-256 -/
theorem sha256_eq (k m : Bytes) :
    sha256 k m = Sha256.hash ((blockKey sha256Alg k).map (· ^^^ 0x5c)
      ++ Sha256.hash ((blockKey sha256Alg k).map (· ^^^ 0x36) ++ m)) := rfl

/-- keys longer than the block are replaced by their hash (RFC 2104 §2) -/
theorem hmac_long_key (A : HashAlg) (hA : A.Coherent) (hle : A.outLen ≤ A.blockSize) (k m : Bytes)
    (h : k.length > A.blockSize) : hmac A k m = hmac A (A.hash k) m := by
  have h2 : ¬ (A.hash k).length > A.blockSize := by rw [hA]; omega
  simp only [hmac, blockKey, h, if_true, h2, if_false]

/-- trailing zero octets of a short key do not matter (RFC 2104 zero padding) -/
theorem hmac_zero_pad (A : HashAlg) (k m : Bytes) (n : Nat) (h : k.length + n ≤ A.blockSize) :
    hmac A (k ++ List.replicate n 0) m = hmac A k m := by
  have h1 : ¬ (k ++ List.replicate n 0).length > A.blockSize := by simp; omega
  have h2 : ¬ k.length > A.blockSize := by omega
  have e : blockKey A (k ++ List.replicate n 0) = blockKey A k := by
    unfold blockKey
    rw [if_neg h1, if_neg h2, List.append_assoc, List.length_append, List.length_replicate,
      List.replicate_append_replicate]
    congr 2; omega
  simp only [hmac, e]

end Hmac

namespace Pbkdf2

theorem iter_length {prf : Bytes → Bytes → Bytes} {h : Nat} (hp : ∀ k m, (prf k m).length = h)
    (pw : Bytes) : ∀ (n : Nat) (u acc : Bytes), acc.length = h → (iter prf pw n u acc).length = h
  | 0, _, _, ha => ha
  | n + 1, u, acc, ha => by
    simp only [iter]
    exact iter_length hp pw n _ _ (by rw [xorBytes_length, ha, hp]; omega)

theorem block_length {prf : Bytes → Bytes → Bytes} {h : Nat} (hp : ∀ k m, (prf k m).length = h)
    (pw salt : Bytes) (c i : Nat) : (block prf pw salt c i).length = h := by
  simp only [block]; exact iter_length hp pw _ _ _ (hp _ _)

theorem flatten_map_length {α} (f : α → Bytes) (h : Nat) (hf : ∀ a, (f a).length = h) :
    ∀ l : List α, ((l.map f).flatten).length = l.length * h
  | [] => by simp
  | a :: l => by
    simp only [List.map_cons, List.flatten_cons, List.length_append, hf, flatten_map_length f h hf l,
      List.length_cons]
    rw [Nat.succ_mul]; omega

/-- the derived key has exactly the requested length -/
theorem derive_length {prf : Bytes → Bytes → Bytes} {h : Nat} (hp : ∀ k m, (prf k m).length = h)
    (pw salt : Bytes) (c dkLen : Nat) (hge : dkLen ≤ (dkLen + h - 1) / h * h) :
    (derive prf h pw salt c dkLen).length = dkLen := by
  simp only [derive, List.length_take]
  rw [flatten_map_length _ h (fun i => block_length hp pw salt c (i + 1)), List.length_range]
  omega

theorem hmacSha256_length (pw salt : Bytes) (c dkLen : Nat) : (hmacSha256 pw salt c dkLen).length = dkLen :=
  derive_length Hmac.sha256_length pw salt c dkLen (by omega)

theorem hmacSha1_length (pw salt : Bytes) (c dkLen : Nat) : (hmacSha1 pw salt c dkLen).length = dkLen :=
  derive_length Hmac.sha1_length pw salt c dkLen (by omega)

/-- one iteration: the block is the PRF of `salt ‖ INT(i)` -/
theorem block_one (prf : Bytes → Bytes → Bytes) (pw salt : Bytes) (i : Nat) :
    block prf pw salt 1 i = prf pw (salt ++ be32n i) := rfl

/-- two iterations: `U_1 ⊕ PRF(P, U_1)` -/
theorem block_two (prf : Bytes → Bytes → Bytes) (pw salt : Bytes) (i : Nat) :
    block prf pw salt 2 i
      = xorBytes (prf pw (salt ++ be32n i)) (prf pw (prf pw (salt ++ be32n i))) := rfl

/-- a shorter key is a prefix of a longer one derived with the same parameters -/
theorem derive_prefix (prf : Bytes → Bytes → Bytes) (h : Nat)
    (pw salt : Bytes) (c l : Nat) (hl : l ≤ h) :
    derive prf h pw salt c l = (block prf pw salt c 1).take l := by
  simp only [derive]
  rcases Nat.eq_zero_or_pos l with h0 | hl0
  · subst h0; simp
  · have : (l + h - 1) / h = 1 := by
      apply Nat.div_eq_of_lt_le <;> omega
    rw [this]
    simp [List.range_succ]

end Pbkdf2
end Abverif.Crypto
