import Abverif.Proofs.Lemmas.WsJudge2
import Abverif.Proofs.C01
import Abverif.Proofs.C15
/-
The sender's frame encoder against the judge: what `encodeFrame` writes is parsed by `judgeStep` as exactly the
frame that was encoded (header bits, length, key, payload).
-/
namespace Abverif.Ws
open Abverif.WsSpec

theorem ofOctets_b0_b1 (fin masked : Bool) (rsv opcode l7 : Nat) (hr : rsv < 8) (ho : opcode < 16) (hl : l7 < 128) :
    Hd.ofOctets (b0 fin rsv opcode) (b1 masked l7) =
      { fin := fin, rsv := rsv, opcode := opcode, masked := masked, len7 := l7 } := by
  unfold Hd.ofOctets b0 b1
  have e0 : (UInt8.ofNat ((if fin then 128 else 0) + rsv % 8 * 16 + opcode % 16)).toNat
      = (if fin then 128 else 0) + rsv * 16 + opcode := by
    simp only [UInt8.toNat_ofNat']
    cases fin <;> simp <;> omega
  have e1 : (UInt8.ofNat ((if masked then 128 else 0) + l7)).toNat = (if masked then 128 else 0) + l7 := by
    simp only [UInt8.toNat_ofNat']
    cases masked <;> simp <;> omega
  rw [e0, e1]
  cases fin <;> cases masked <;> simp <;> omega

theorem spec_length (k : Abverif.Xor.Key) (p : Nat) (d : Bytes) : (Abverif.Xor.spec k p d).1.length = d.length :=
  specBytes_len k p d

/-- the sender's masking undone by the judge's unmasking -/
theorem unmask_mask (c : Ctx) (k : Abverif.Xor.Key) (am : Bool) (pl : Bytes) (ham : c.applyMask = am) :
    unmaskAvail c (some k) (if decide (pl.length > 0) && am then (Abverif.Xor.spec k 0 pl).1 else pl) = pl := by
  unfold unmaskAvail
  simp only [ham]
  cases am with
  | false => simp
  | true =>
    by_cases hp : pl.length > 0
    · simp only [hp, decide_true, Bool.and_true, if_true]
      exact Abverif.Xor.involutive k 0 pl
    · have : pl = [] := by
        cases pl with
        | nil => rfl
        | cons _ _ => simp at hp
      subst this
      simp [Abverif.Xor.spec, Abverif.Xor.specBytes]

/-- the body of a frame as the judge computes it from the octets behind the first two -/
theorem judgeStep_frame (c : Ctx) (j : J) (h : Hd) (o0 o1 : UInt8) (el kb plm after : Bytes) (plen : Nat)
    (key : Option Abverif.Xor.Key)
    (hh : Hd.ofOctets o0 o1 = h)
    (hext : el.length = h.extN) (hkn : kb.length = h.keyN)
    (hplen : h.plen (el ++ kb ++ plm ++ after) = plen) (hok : extLenOk h.len7 plen = true)
    (hkey : h.key (el ++ kb ++ plm ++ after) = key) (hpl : plm.length = plen) :
    judgeStep c j (o0 :: o1 :: (el ++ kb ++ plm ++ after)) =
      (if !headerOk c j.inside h.fin h.rsv h.opcode h.masked h.len7
       then .done j.evs (.fail 1002) (o0 :: o1 :: (el ++ kb ++ plm ++ after)).length
       else if h.opcode ≥ 8 then
         judgeControl j (o0 :: o1 :: (el ++ kb ++ plm ++ after)).length h.opcode (unmaskAvail c key plm) after
       else judgeData c j (o0 :: o1 :: (el ++ kb ++ plm ++ after)).length h plen (unmaskAvail c key plm) true after) := by
  unfold judgeStep
  simp only [hh]
  by_cases hhok : headerOk c j.inside h.fin h.rsv h.opcode h.masked h.len7 = true
  · simp only [hhok, Bool.not_true, Bool.false_eq_true, if_false]
    have hlen : ¬ (el ++ kb ++ plm ++ after).length < h.extN + h.keyN := by
      simp only [List.length_append]; omega
    simp only [hlen, if_false, hplen, hok, Bool.not_true, Bool.false_eq_true, hkey]
    have hbody : (el ++ kb ++ plm ++ after).drop (h.extN + h.keyN) = plm ++ after := by
      rw [← hext, ← hkn, ← List.length_append, List.append_assoc (el ++ kb), List.drop_left]
    rw [hbody]
    have htake : (plm ++ after).take plen = plm := by rw [← hpl, List.take_left]
    have hdrop : (plm ++ after).drop plen = after := by rw [← hpl, List.drop_left]
    have hcomp : (plm ++ after).length ≥ plen := by simp only [List.length_append]; omega
    rw [htake, hdrop]
    simp only [hcomp, decide_true, Bool.not_true, Bool.false_eq_true, if_false]
  · have : headerOk c j.inside h.fin h.rsv h.opcode h.masked h.len7 = false := by simpa using hhok
    simp only [this, Bool.not_false, if_true]

/-- **what `encodeFrame` writes, the judge reads back**: header bits, length, key and payload -/
theorem judgeStep_encodeFrame (c : Ctx) (j : J) (fin : Bool) (rsv opcode : Nat) (key : Option Abverif.Xor.Key)
    (am : Bool) (pl raw after : Bytes) (hr : rsv < 8) (ho : opcode < 16)
    (henc : encodeFrame fin rsv opcode key am pl = some raw) (ham : c.applyMask = am) :
    ∃ l7 el, encodeLen pl.length = some (l7, el) ∧
      judgeStep c j (raw ++ after) =
        (if !headerOk c j.inside fin rsv opcode key.isSome l7
         then .done j.evs (.fail 1002) (raw ++ after).length
         else if opcode ≥ 8 then judgeControl j (raw ++ after).length opcode pl after
         else judgeData c j (raw ++ after).length
           { fin := fin, rsv := rsv, opcode := opcode, masked := key.isSome, len7 := l7 } pl.length pl true after) := by
  unfold encodeFrame at henc
  cases hel : encodeLen pl.length with
  | none => rw [hel] at henc; cases henc
  | some p =>
    obtain ⟨l7, el⟩ := p
    rw [hel] at henc
    have rt := lenCodec_roundtrip pl.length l7 el hel
    refine ⟨l7, el, rfl, ?_⟩
    cases key with
    | some k =>
      simp only [Option.some.injEq] at henc
      subst henc
      have hh := ofOctets_b0_b1 fin true rsv opcode l7 hr ho rt.2.2.1
      have e : ([b0 fin rsv opcode, b1 true l7] ++ el ++ Key.bytes k ++
            (if (decide (pl.length > 0) && am) = true then (Abverif.Xor.spec k 0 pl).1 else pl)) ++ after
          = b0 fin rsv opcode :: b1 true l7 :: (el ++ Key.bytes k ++
            (if (decide (pl.length > 0) && am) = true then (Abverif.Xor.spec k 0 pl).1 else pl) ++ after) := by
        simp [List.append_assoc]
      rw [e]
      have hplm : (if (decide (pl.length > 0) && am) = true then (Abverif.Xor.spec k 0 pl).1 else pl).length
          = pl.length := by
        split
        · exact spec_length k 0 pl
        · rfl
      have hfr := judgeStep_frame c j { fin := fin, rsv := rsv, opcode := opcode, masked := true, len7 := l7 }
        (b0 fin rsv opcode) (b1 true l7) el (Key.bytes k)
        (if (decide (pl.length > 0) && am) = true then (Abverif.Xor.spec k 0 pl).1 else pl) after pl.length (some k)
        hh (by simp only [Hd.extN]; exact rt.2.2.2) (by simp [Hd.keyN, Key.bytes])
        (by
          simp only [Hd.plen, Hd.extN]
          rw [← rt.2.2.2, List.append_assoc, List.append_assoc, List.take_left]
          exact rt.1)
        rt.2.1
        (by
          simp only [Hd.key, Hd.extN, if_true]
          rw [← rt.2.2.2, List.append_assoc, List.append_assoc, List.drop_left]
          simp [Key.bytes])
        hplm
      rw [hfr, unmask_mask c k am pl ham]
      rfl
    | none =>
      simp only [Option.some.injEq] at henc
      subst henc
      have hh := ofOctets_b0_b1 fin false rsv opcode l7 hr ho rt.2.2.1
      have e : ([b0 fin rsv opcode, b1 false l7] ++ el ++ pl) ++ after
          = b0 fin rsv opcode :: b1 false l7 :: (el ++ [] ++ pl ++ after) := by
        simp [List.append_assoc]
      rw [e]
      have hfr := judgeStep_frame c j { fin := fin, rsv := rsv, opcode := opcode, masked := false, len7 := l7 }
        (b0 fin rsv opcode) (b1 false l7) el [] pl after pl.length none
        hh (by simp only [Hd.extN]; exact rt.2.2.2) (by simp [Hd.keyN])
        (by
          simp only [Hd.plen, Hd.extN]
          rw [← rt.2.2.2, List.append_assoc, List.append_assoc, List.take_left]
          exact rt.1)
        rt.2.1
        (by simp [Hd.key])
        rfl
      rw [hfr]
      rfl

end Abverif.Ws
