import Abverif.Model.SessSpec
/-
Helper lemmas for the session proofs (C04, C11): association lists, frame lemmas of the primitives.
-/
namespace Abverif.Session
open Abverif.SessCodes

/-! ### association lists -/

section AList
variable {β : Type}

@[simp] theorem alookup_nil (k : Nat) : alookup k ([] : List (Nat × β)) = none := rfl

theorem alookup_cons (k k' : Nat) (v : β) (l : List (Nat × β)) :
    alookup k ((k', v) :: l) = if k' = k then some v else alookup k l := rfl

theorem alookup_append (k : Nat) (l1 l2 : List (Nat × β)) :
    alookup k (l1 ++ l2) = (alookup k l1).or (alookup k l2) := by
  induction l1 with
  | nil => simp
  | cons e l ih =>
    obtain ⟨k', v⟩ := e
    simp only [List.cons_append, alookup_cons]
    split <;> simp [ih]

@[simp] theorem alookup_adel_self (k : Nat) (l : List (Nat × β)) : alookup k (adel k l) = none := by
  induction l with
  | nil => rfl
  | cons e l ih =>
    obtain ⟨k', v⟩ := e
    simp only [adel]
    split
    · exact ih
    · simp [alookup_cons, *]

theorem alookup_adel_ne {k k' : Nat} (h : k ≠ k') (l : List (Nat × β)) :
    alookup k (adel k' l) = alookup k l := by
  induction l with
  | nil => rfl
  | cons e l ih =>
    obtain ⟨k'', v⟩ := e
    simp only [adel]
    split
    · next h' => subst h'; simp [alookup_cons, ih, Ne.symm h]
    · simp [alookup_cons, ih]

@[simp] theorem alookup_aset_self (k : Nat) (v : β) (l : List (Nat × β)) : alookup k (aset k v l) = some v := by
  simp [aset, alookup_append, alookup_cons]

theorem alookup_aset_ne {k k' : Nat} (h : k ≠ k') (v : β) (l : List (Nat × β)) :
    alookup k (aset k' v l) = alookup k l := by
  simp [aset, alookup_append, alookup_cons, alookup_adel_ne h, Ne.symm h]

theorem alookup_some_mem {k : Nat} {v : β} {l : List (Nat × β)} (h : alookup k l = some v) : (k, v) ∈ l := by
  induction l with
  | nil => simp at h
  | cons e l ih =>
    obtain ⟨k', v'⟩ := e
    simp only [alookup_cons] at h
    split at h
    · next hk => subst hk; simp at h; subst h; simp
    · exact List.mem_cons_of_mem _ (ih h)

theorem alookup_none_iff {k : Nat} {l : List (Nat × β)} : alookup k l = none ↔ k ∉ akeys l := by
  induction l with
  | nil => simp [akeys]
  | cons e l ih =>
    obtain ⟨k', v'⟩ := e
    simp only [alookup_cons, akeys, List.map_cons, List.mem_cons, not_or]
    split
    · next hk => subst hk; simp
    · next hk => simp only [akeys] at ih; rw [ih]; constructor
                 · intro h; exact ⟨fun e => hk e.symm, h⟩
                 · intro h; exact h.2

theorem alookup_isSome_iff {k : Nat} {l : List (Nat × β)} : (alookup k l).isSome ↔ k ∈ akeys l := by
  cases h : alookup k l with
  | none => simp [alookup_none_iff.mp h]
  | some v =>
    simp only [Option.isSome_some, true_iff]
    exact List.mem_map.mpr ⟨(k, v), alookup_some_mem h, rfl⟩

theorem adel_sublist (k : Nat) (l : List (Nat × β)) : (adel k l).Sublist l := by
  induction l with
  | nil => exact List.Sublist.slnil
  | cons e l ih =>
    obtain ⟨k', v⟩ := e
    simp only [adel]
    split
    · exact List.Sublist.cons _ ih
    · exact List.Sublist.cons_cons _ ih

theorem mem_adel {k : Nat} {e : Nat × β} {l : List (Nat × β)} (h : e ∈ adel k l) : e ∈ l ∧ e.1 ≠ k := by
  induction l with
  | nil => simp [adel] at h
  | cons x l ih =>
    obtain ⟨k', v⟩ := x
    simp only [adel] at h
    split at h
    · exact ⟨List.mem_cons_of_mem _ (ih h).1, (ih h).2⟩
    · next hk =>
      rcases List.mem_cons.mp h with h | h
      · subst h; exact ⟨List.mem_cons_self, hk⟩
      · exact ⟨List.mem_cons_of_mem _ (ih h).1, (ih h).2⟩

theorem akeys_adel_subset (k : Nat) (l : List (Nat × β)) : ∀ x ∈ akeys (adel k l), x ∈ akeys l ∧ x ≠ k := by
  intro x hx
  simp only [akeys, List.mem_map] at hx ⊢
  obtain ⟨e, he, rfl⟩ := hx
  exact ⟨⟨e, (mem_adel he).1, rfl⟩, (mem_adel he).2⟩

theorem akeys_aset (k : Nat) (v : β) (l : List (Nat × β)) : akeys (aset k v l) = akeys (adel k l) ++ [k] := by
  simp [akeys, aset]

theorem alookup_aupd_self (k : Nat) (v : β) (l : List (Nat × β)) :
    alookup k (aupd k v l) = if (alookup k l).isSome then some v else none := by
  induction l with
  | nil => rfl
  | cons e l ih =>
    obtain ⟨k', v'⟩ := e
    simp only [aupd]
    split
    · next hk => subst hk; simp [alookup_cons]
    · next hk => simp [alookup_cons, hk, ih]

theorem alookup_aupd_ne {k k' : Nat} (h : k ≠ k') (v : β) (l : List (Nat × β)) :
    alookup k (aupd k' v l) = alookup k l := by
  induction l with
  | nil => rfl
  | cons e l ih =>
    obtain ⟨k'', v'⟩ := e
    simp only [aupd]
    split
    · next hk => subst hk; simp [alookup_cons, Ne.symm h]
    · simp [alookup_cons, ih]

end AList

end Abverif.Session
