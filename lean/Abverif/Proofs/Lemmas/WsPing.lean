import Abverif.Proofs.Lemmas.WsOps
/-
The invariant behind "automatic pings keep being sent for as long as the connection is open" (C17):
`PK s`: while OPEN with a ping interval configured, the next ping is scheduled or a pong deadline is pending; a scheduled
ping is due no later than now + interval, a pending pong deadline no later than now + timeout.
`PP a b := PK a → PK b` for every engine function, bottom-up, in the order of `WsOps.lean`.
-/
namespace Abverif.Ws

def PK (s : S) : Prop :=
  (s.st = .opened → s.cfg.pingInterval > 0 → s.tPingNext.isSome ∨ s.tPingTimeout.isSome) ∧
  (∀ D q, s.tPingNext = some (D, q) → D ≤ s.now + s.cfg.pingInterval) ∧
  (∀ D q, s.tPingTimeout = some (D, q) → D ≤ s.now + s.cfg.pingTimeout)

def PP (a b : S) : Prop := PK a → PK b

theorem PP.refl (a : S) : PP a a := id
theorem PP.trans {a b c : S} (h1 : PP a b) (h2 : PP b c) : PP a c := fun h => h2 (h1 h)

/-- the clock moved forward, no new OPEN, both ping timers kept -/
theorem PP.of_le {a b : S} (h0 : b.st = .opened → a.st = .opened) (h1 : a.now ≤ b.now) (h2 : b.cfg = a.cfg)
    (h3 : b.tPingNext = a.tPingNext) (h4 : b.tPingTimeout = a.tPingTimeout) : PP a b := by
  intro k
  refine ⟨fun ho hi => ?_, fun D q h => ?_, fun D q h => ?_⟩
  · rw [h3, h4]; rw [h2] at hi; exact k.1 (h0 ho) hi
  · rw [h3] at h; have := k.2.1 D q h; rw [h2]; omega
  · rw [h4] at h; have := k.2.2 D q h; rw [h2]; omega

/-- the connection left OPEN (or never was): timers kept or cleared -/
theorem PP.of_notOpen {a b : S} (h0 : b.st ≠ .opened) (h1 : a.now ≤ b.now) (h2 : b.cfg = a.cfg)
    (h3 : b.tPingNext = a.tPingNext ∨ b.tPingNext = none) (h4 : b.tPingTimeout = a.tPingTimeout ∨ b.tPingTimeout = none) :
    PP a b := by
  intro k
  refine ⟨fun ho => absurd ho h0, fun D q h => ?_, fun D q h => ?_⟩
  · rcases h3 with e | e
    · rw [e] at h; have := k.2.1 D q h; rw [h2]; omega
    · rw [e] at h; cases h
  · rcases h4 with e | e
    · rw [e] at h; have := k.2.2 D q h; rw [h2]; omega
    · rw [e] at h; cases h

theorem PP.of_same {a b : S} (h0 : b.st = a.st) (h1 : b.now = a.now) (h2 : b.cfg = a.cfg)
    (h3 : b.tPingNext = a.tPingNext) (h4 : b.tPingTimeout = a.tPingTimeout) : PP a b :=
  PP.of_le (fun h => by rw [← h0]; exact h) (by rw [h1]; exact Nat.le_refl _) h2 h3 h4

theorem PP.pre {a a' b : S} (h : PP a' b) (h0 : a'.st = a.st) (h1 : a'.now = a.now) (h2 : a'.cfg = a.cfg)
    (h3 : a'.tPingNext = a.tPingNext) (h4 : a'.tPingTimeout = a.tPingTimeout) : PP a b :=
  (PP.of_same h0 h1 h2 h3 h4).trans h

theorem PP.post {a b b' : S} (h : PP a b) (h0 : b'.st = b.st) (h1 : b'.now = b.now) (h2 : b'.cfg = b.cfg)
    (h3 : b'.tPingNext = b.tPingNext) (h4 : b'.tPingTimeout = b.tPingTimeout) : PP a b' :=
  h.trans (PP.of_same h0 h1 h2 h3 h4)


theorem PP.of_SendEq {a b : S} (h : SendEq a b) : PP a b := PP.of_same h.st h.now h.cfg h.tPingNext h.tPingTimeout

theorem emit_PP (s : S) (o : Out) : PP s (s.emit o) := PP.of_same rfl rfl rfl rfl rfl
theorem timer_PP (s : S) (d : Nat) : PP s (s.timer d).1 := PP.of_same rfl rfl rfl rfl rfl
theorem armCloseHs_PP (s : S) : PP s (armCloseHs s) := PP.of_same rfl rfl rfl rfl rfl
theorem armServerDrop_PP (s : S) : PP s (armServerDrop s) := PP.of_same rfl rfl rfl rfl rfl
theorem sendTick_PP (s : S) : PP s (sendTick s) := PP.of_SendEq (sendTick_SendEq s)
theorem sendFrame_PP (s : S) (op : Nat) (pl : Bytes) (fin : Bool) (rsv : Nat) (sync : Bool) (chop : Nat) :
    PP s (sendFrame s op pl fin rsv sync chop) := PP.of_SendEq (sendFrame_SendEq s op pl fin rsv sync chop)

/-- scheduling the next ping establishes the first clause whatever held before -/
theorem armPingNext_PK (s : S) (h2 : ∀ D q, s.tPingTimeout = some (D, q) → D ≤ s.now + s.cfg.pingTimeout) :
    PK (armPingNext s) := by
  refine ⟨fun _ _ => Or.inl (by simp [armPingNext, S.timer]), fun D q h => ?_, fun D q h => h2 D q h⟩
  simp only [armPingNext, S.timer, Option.some.injEq, Prod.mk.injEq] at h
  show D ≤ s.now + s.cfg.pingInterval
  rw [← h.1]; unfold batched; exact Nat.div_mul_le_self _ _

theorem armPingNext_PP (s : S) : PP s (armPingNext s) := fun k => armPingNext_PK s k.2.2

theorem armPingTimeout_PK (s : S) (h1 : ∀ D q, s.tPingNext = some (D, q) → D ≤ s.now + s.cfg.pingInterval) :
    PK (armPingTimeout s) := by
  refine ⟨fun _ _ => Or.inr (by simp [armPingTimeout, S.timer]), fun D q h => h1 D q h, fun D q h => ?_⟩
  simp only [armPingTimeout, S.timer, Option.some.injEq, Prod.mk.injEq] at h
  show D ≤ s.now + s.cfg.pingTimeout
  rw [← h.1]; unfold batched; exact Nat.div_mul_le_self _ _

theorem armPingTimeout_PP (s : S) : PP s (armPingTimeout s) := fun k => armPingTimeout_PK s k.2.1

theorem sendPing_PP (s : S) (pl : Bytes) : PP s (sendPing s pl) := by
  unfold sendPing
  split
  · exact PP.refl s
  · split
    · exact emit_PP _ _
    · exact sendFrame_PP _ _ _ _ _ _ _

theorem sendPong_PP (s : S) (pl : Bytes) : PP s (sendPong s pl) := by
  unfold sendPong
  split
  · exact PP.refl s
  · split
    · exact emit_PP _ _
    · exact sendFrame_PP _ _ _ _ _ _ _

theorem sendCloseFrame_PP (s : S) (c : Option Nat) (r : Option Bytes) (i : Bool) : PP s (sendCloseFrame s c r i) := by
  unfold sendCloseFrame
  split
  · exact PP.refl s
  · exact PP.refl s
  · exact emit_PP _ _
  · dsimp only
    have e := sendFrame_SendEq s 8 (closePayload c r) true 0 false 0
    have key : ∀ t : S, t.st = .closing → t.now = (sendFrame s 8 (closePayload c r)).now →
        t.cfg = (sendFrame s 8 (closePayload c r)).cfg → t.tPingNext = (sendFrame s 8 (closePayload c r)).tPingNext →
        t.tPingTimeout = (sendFrame s 8 (closePayload c r)).tPingTimeout → PP s t :=
      fun t h0 h1 h2 h3 h4 => PP.of_notOpen (by rw [h0]; simp) (by rw [h1, e.now]; exact Nat.le_refl _) (by rw [h2, e.cfg])
        (Or.inl (by rw [h3, e.tPingNext])) (Or.inl (by rw [h4, e.tPingTimeout]))
    split
    · exact fun k => armCloseHs_PP _ (key _ rfl rfl rfl rfl rfl k)
    · exact key _ rfl rfl rfl rfl rfl

theorem sendClose_PP (s : S) (c : Option Nat) (r : Option Bytes) : PP s (sendClose s c r) := by
  unfold sendClose
  split
  · exact emit_PP _ _
  · split
    · exact emit_PP _ _
    · exact sendCloseFrame_PP _ _ _ _

theorem dropConnection_PP (s : S) (a : Bool) : PP s (dropConnection s a) := by
  unfold dropConnection
  split
  · exact PP.of_notOpen (by simp [S.emit]) (Nat.le_refl _) rfl (Or.inl rfl) (Or.inl rfl)
  · exact PP.refl s

theorem failConnection_PP (s : S) (code : Nat) : PP s (failConnection s code) := by
  unfold failConnection
  split
  · dsimp only
    split
    · exact PP.pre (dropConnection_PP _ _) rfl rfl rfl rfl rfl
    · split
      · exact PP.pre (sendCloseFrame_PP _ _ _ _) rfl rfl rfl rfl rfl
      · exact PP.pre (dropConnection_PP _ _) rfl rfl rfl rfl rfl
  · exact PP.refl s

theorem violation_PP (s : S) (code : Nat) : PP s (violation s code).1 := failConnection_PP s code

theorem closeCodeStep_PP (s : S) (c : Option Nat) : PP s (closeCodeStep s c).1 := by
  unfold closeCodeStep
  split
  · split
    · have hv := violation_PP s 1002
      generalize violation s 1002 = r at hv
      obtain ⟨s', stop⟩ := r
      dsimp only
      split
      · exact hv
      · exact hv.post rfl rfl rfl rfl rfl
    · exact PP.of_same rfl rfl rfl rfl rfl
  · exact PP.of_same rfl rfl rfl rfl rfl

theorem closeReasonStep_PP (s : S) (r : Option Bytes) : PP s (closeReasonStep s r).1 := by
  unfold closeReasonStep
  split
  · split
    · exact violation_PP _ _
    · exact PP.of_same rfl rfl rfl rfl rfl
  · exact PP.refl s

theorem replyClose_PP (s : S) : PP s (replyClose s) := by
  unfold replyClose; split <;> exact sendCloseFrame_PP _ _ _ _

theorem afterCloseHandshake_PP (s : S) (a : Bool) : PP s (afterCloseHandshake s a).1 := by
  unfold afterCloseHandshake
  split
  · exact dropConnection_PP _ _
  · split
    · exact armServerDrop_PP _
    · exact PP.refl s

theorem closeStateStep_PP (s : S) : PP s (closeStateStep s).1 := by
  unfold closeStateStep
  split
  · exact PP.pre (afterCloseHandshake_PP _ _) rfl rfl rfl rfl rfl
  · exact PP.pre ((replyClose_PP _).trans (afterCloseHandshake_PP _ _)) rfl rfl rfl rfl rfl
  · exact PP.of_same rfl rfl rfl rfl rfl
  · exact emit_PP _ _

theorem onCloseFrame_PP (s : S) (c : Option Nat) (r : Option Bytes) : PP s (onCloseFrame s c r).1 := by
  unfold onCloseFrame
  dsimp only
  have h0 : PP s { s with remoteCloseCode := none, remoteCloseReason := none } := PP.of_same rfl rfl rfl rfl rfl
  have h1 := closeCodeStep_PP { s with remoteCloseCode := none, remoteCloseReason := none } c
  generalize closeCodeStep { s with remoteCloseCode := none, remoteCloseReason := none } c = r1 at h1
  split
  · exact h0.trans h1
  · have h2 := closeReasonStep_PP r1.1 r
    generalize closeReasonStep r1.1 r = r2 at h2
    split
    · exact (h0.trans h1).trans h2
    · exact ((h0.trans h1).trans h2).trans (closeStateStep_PP _)

theorem connectionLost_PP (s : S) : PP s (connectionLost s) := by
  unfold connectionLost
  split
  · exact PP.refl s
  · refine PP.of_notOpen ?_ ?_ ?_ ?_ ?_
    · unfold reportClose markClosed cancelOnLost
      split <;> split <;> (try split) <;> simp_all [S.emit]
    · unfold reportClose markClosed cancelOnLost
      split <;> split <;> (try split) <;> exact Nat.le_refl _
    · unfold reportClose markClosed cancelOnLost
      split <;> split <;> (try split) <;> rfl
    · right
      unfold reportClose markClosed cancelOnLost
      split <;> split <;> (try split) <;> rfl
    · right
      unfold reportClose markClosed cancelOnLost
      split <;> split <;> (try split) <;> rfl

theorem sendAutoPing_PP (s : S) : PP s (sendAutoPing s) := by
  intro k
  unfold sendAutoPing
  dsimp only
  have e := sendPing_SendEq (beginAutoPing s) ((beginAutoPing s).pingPending.getD [])
  generalize sendPing (beginAutoPing s) ((beginAutoPing s).pingPending.getD []) = s2 at e
  have hn : s2.tPingNext = none := by rw [e.tPingNext]; rfl
  have ht : s2.tPingTimeout = s.tPingTimeout := by rw [e.tPingTimeout]; rfl
  have hnow : s2.now = s.now := by rw [e.now]; rfl
  have hcfg : s2.cfg = s.cfg := by rw [e.cfg]; rfl
  have h3 : ∀ D q, s2.tPingTimeout = some (D, q) → D ≤ s2.now + s2.cfg.pingTimeout := by
    intro D q h; rw [ht] at h; rw [hnow, hcfg]; exact k.2.2 D q h
  split
  · exact armPingTimeout_PK s2 (fun D q h => by rw [hn] at h; cases h)
  · split
    · exact armPingNext_PK s2 h3
    · rename_i hc
      refine ⟨fun ho hi => absurd (by simp [ho, hi]) hc, fun D q h => (by rw [hn] at h; cases h), h3⟩

theorem cancelAutoPingTimeout_PP (s : S) : PP s (cancelAutoPingTimeout s) := by
  intro k
  unfold cancelAutoPingTimeout
  dsimp only
  split
  · exact armPingNext_PK _ (fun D q h => by cases h)
  · rename_i hc
    exact ⟨fun _ hi => absurd hi hc, fun D q h => (by cases h), fun D q h => (by cases h)⟩

theorem onMessageFrameBegin_PP (s : S) (n : Nat) : PP s (onMessageFrameBegin s n) := by
  unfold onMessageFrameBegin
  dsimp only
  split
  · split
    · exact PP.pre (failConnection_PP _ _) rfl rfl rfl rfl rfl
    · split
      · exact PP.pre (failConnection_PP _ _) rfl rfl rfl rfl rfl
      · exact PP.of_same rfl rfl rfl rfl rfl
  · exact PP.of_same rfl rfl rfl rfl rfl

theorem onFrameBegin_PP (s : S) (h : Hdr) : PP s (onFrameBegin s h) := by
  unfold onFrameBegin
  split
  · exact PP.of_same rfl rfl rfl rfl rfl
  · dsimp only
    split
    · split
      · exact PP.pre (onMessageFrameBegin_PP _ _) rfl rfl rfl rfl rfl
      · exact PP.pre (onMessageFrameBegin_PP _ _) rfl rfl rfl rfl rfl
    · exact onMessageFrameBegin_PP _ _

theorem utf8Step_PP (s : S) (p : Bytes) : PP s (utf8Step s p).1 := by
  unfold utf8Step
  split
  · split
    · exact PP.pre (violation_PP _ _) rfl rfl rfl rfl rfl
    · exact PP.of_same rfl rfl rfl rfl rfl
  · exact PP.refl s

theorem onFrameData_PP (s : S) (h : Hdr) (p : Bytes) : PP s (onFrameData s h p).1 := by
  unfold onFrameData
  split
  · exact PP.of_same rfl rfl rfl rfl rfl
  · dsimp only
    have h0 := utf8Step_PP s p
    generalize utf8Step s p = r at h0
    split
    · exact h0
    · unfold onMessageFrameData
      split
      · exact h0.post rfl rfl rfl rfl rfl
      · exact h0

theorem onPongFrame_PP (s : S) (p : Bytes) : PP s (onPongFrame s p) := by
  intro k
  unfold onPongFrame
  split
  · split
    · dsimp only
      split
      · exact armPingNext_PK _ (fun D q h => by cases h)
      · rename_i hc
        refine ⟨fun _ hi => ?_, fun D q h => k.2.1 D q h, fun D q h => (by cases h)⟩
        left
        cases hn : s.tPingNext with
        | some t => rfl
        | none => exact absurd (by simp [hn]; exact hi) hc
    · exact k
  · exact k

theorem onPingFrame_PP (s : S) (p : Bytes) : PP s (onPingFrame s p) := by
  unfold onPingFrame
  dsimp only
  split
  · exact PP.pre (sendPong_PP _ _) rfl rfl rfl rfl rfl
  · exact emit_PP _ _

theorem processControlFrame_PP (s : S) (h : Hdr) : PP s (processControlFrame s h) := by
  unfold processControlFrame
  dsimp only
  split
  · exact PP.pre (onCloseFrame_PP _ _ _) rfl rfl rfl rfl rfl
  · split
    · exact PP.pre (onPingFrame_PP _ _) rfl rfl rfl rfl rfl
    · split
      · exact PP.pre ((onPongFrame_PP _ _).trans (emit_PP _ _)) rfl rfl rfl rfl rfl
      · exact PP.of_same rfl rfl rfl rfl rfl

theorem endDataFrame_PP (s : S) : PP s (endDataFrame s) := by
  unfold endDataFrame
  dsimp only
  split <;> split <;> first | exact PP.of_same rfl rfl rfl rfl rfl | exact PP.pre (cancelAutoPingTimeout_PP _) rfl rfl rfl rfl rfl

theorem endMessageStep_PP (s : S) : PP s (endMessageStep s).1 := by
  unfold endMessageStep
  dsimp only
  have h0 : PP s (if (s.utf8On && !s.msgCompressed && !s.utf8Ends) = true
      then ((violation s 1007).1, !(violation s 1007).2) else (s, true)).1 := by
    split
    · exact violation_PP _ _
    · exact PP.refl s
  generalize (if (s.utf8On && !s.msgCompressed && !s.utf8Ends) = true
      then ((violation s 1007).1, !(violation s 1007).2) else (s, true)) = r at h0
  split
  · exact h0
  · unfold resetMessage deliverMessage
    split
    · exact h0.post rfl rfl rfl rfl rfl
    · exact h0.post rfl rfl rfl rfl rfl

theorem onFrameEnd_PP (s : S) (h : Hdr) : PP s (onFrameEnd s h).1 := by
  unfold onFrameEnd
  split
  · exact (processControlFrame_PP s h).post rfl rfl rfl rfl rfl
  · dsimp only
    split
    · exact (endDataFrame_PP s).trans (endMessageStep_PP _)
    · exact (endDataFrame_PP s).post rfl rfl rfl rfl rfl

theorem applyViolations_PP (s : S) (vs : List HV) : PP s (applyViolations s vs).1 := by
  induction vs generalizing s with
  | nil => exact PP.refl s
  | cons v vs ih =>
    unfold applyViolations
    have hv := violation_PP s 1002
    generalize violation s 1002 = r at hv
    obtain ⟨s', stop⟩ := r
    dsimp only
    split
    · exact hv
    · exact hv.trans (ih _)

theorem extLenStep_PP (s : S) (a b : Nat) : PP s (extLenStep s a b).1 := by
  unfold extLenStep
  split
  · split
    · exact violation_PP _ _
    · exact PP.refl s
  · split
    · dsimp only
      have h0 : PP s (if b > 0x7FFFFFFFFFFFFFFF then violation s 1002 else (s, false)).1 := by
        split
        · exact violation_PP _ _
        · exact PP.refl s
      generalize (if b > 0x7FFFFFFFFFFFFFFF then violation s 1002 else (s, false)) = r at h0
      split
      · exact h0
      · split
        · exact h0.trans (violation_PP _ _)
        · exact h0
    · exact PP.refl s

theorem processHeader_PP (s : S) (o0 o1 : UInt8) (buf : Bytes) : PP s (processHeader s o0 o1 buf).1 := by
  unfold processHeader
  dsimp only
  have h0 := applyViolations_PP s (headerViolations s.cfg s.insideMessage (o0.toNat / 128 = 1) (o0.toNat / 16 % 8)
    (o0.toNat % 16) (o1.toNat / 128 = 1) (o1.toNat % 128))
  generalize applyViolations s (headerViolations s.cfg s.insideMessage (o0.toNat / 128 = 1) (o0.toNat / 16 % 8)
    (o0.toNat % 16) (o1.toNat / 128 = 1) (o1.toNat % 128)) = r0 at h0
  split
  · exact h0
  · split
    · have h1 := extLenStep_PP r0.1 (o1.toNat % 128)
        (if o1.toNat % 128 < 126 then o1.toNat % 128 else
          beNat ((buf.drop 2).take (if o1.toNat % 128 = 126 then 2 else if o1.toNat % 128 = 127 then 8 else 0)))
      generalize extLenStep r0.1 (o1.toNat % 128)
        (if o1.toNat % 128 < 126 then o1.toNat % 128 else
          beNat ((buf.drop 2).take (if o1.toNat % 128 = 126 then 2 else if o1.toNat % 128 = 127 then 8 else 0))) = r1 at h1
      split
      · exact h0.trans h1
      · exact (h0.trans h1).trans (PP.pre (onFrameBegin_PP _ _) rfl rfl rfl rfl rfl)
    · exact h0

theorem processPayload_PP (s : S) (h : Hdr) (buf : Bytes) : PP s (processPayload s h buf).1 := by
  unfold processPayload
  dsimp only
  have h1 : PP s (onFrameData { s with ptr := s.ptr + (buf.take (h.length - s.ptr)).length }
      h (unmaskChunk s h (buf.take (h.length - s.ptr)))).1 := PP.pre (onFrameData_PP _ _ _) rfl rfl rfl rfl rfl
  generalize onFrameData { s with ptr := s.ptr + (buf.take (h.length - s.ptr)).length }
    h (unmaskChunk s h (buf.take (h.length - s.ptr))) = r at h1
  split
  · exact h1
  · have h2 : PP r.1 (if r.1.ptr = h.length then onFrameEnd r.1 h else (r.1, true)).1 := by
      split
      · exact onFrameEnd_PP _ _
      · exact PP.refl _
    generalize (if r.1.ptr = h.length then onFrameEnd r.1 h else (r.1, true)) = r2 at h2
    split
    · exact h1.trans h2
    · exact h1.trans h2

theorem processData_PP (s : S) (buf : Bytes) : PP s (processData s buf).1 := by
  unfold processData
  split
  · split
    · exact processHeader_PP _ _ _ _
    · exact PP.refl s
  · exact processPayload_PP _ _ _

theorem drain_PP (fuel : Nat) (s : S) (buf : Bytes) : PP s (drain fuel s buf).1 := by
  induction fuel generalizing s buf with
  | zero => exact PP.refl s
  | succ n ih =>
    unfold drain
    split
    · exact PP.refl s
    · have h := processData_PP s buf
      generalize processData s buf = r at h
      dsimp only
      split
      · exact h.trans (ih _ _)
      · exact h

theorem dataReceived_PP (s : S) (d : Bytes) : PP s (dataReceived s d) := by
  unfold dataReceived
  split
  · exact PP.refl s
  · have hd := drain_PP (drainFuel (s.data ++ d)) { s with data := [] } (s.data ++ d)
    split
    · exact (PP.pre hd rfl rfl rfl rfl rfl).post rfl rfl rfl rfl rfl
    · exact (PP.pre hd rfl rfl rfl rfl rfl).post rfl rfl rfl rfl rfl
    · exact PP.of_same rfl rfl rfl rfl rfl

theorem handshakeDone_PP (s : S) : PP s (handshakeDone s) := by
  intro k
  unfold handshakeDone
  split
  · exact k
  · dsimp only
    split
    · exact armPingNext_PK _ (fun D q h => k.2.2 D q h)
    · rename_i hc
      exact ⟨fun _ hi => absurd hi hc, fun D q h => k.2.1 D q h, fun D q h => k.2.2 D q h⟩

theorem fire_PP (s : S) (k : TK) : PP s (fire s k) := by
  cases k <;> simp only [fire]
  · split
    · exact PP.pre (dropConnection_PP _ _) rfl rfl rfl rfl rfl
    · exact PP.of_same rfl rfl rfl rfl rfl
  · split
    · exact PP.pre (dropConnection_PP _ _) rfl rfl rfl rfl rfl
    · exact PP.of_same rfl rfl rfl rfl rfl
  · split
    · exact PP.pre (dropConnection_PP _ _) rfl rfl rfl rfl rfl
    · exact PP.of_same rfl rfl rfl rfl rfl
  · -- the pong deadline fires: the connection is dropped, or was CLOSED already
    split
    · rename_i hc
      unfold dropConnection
      simp only [hc, ne_eq, not_false_eq_true, if_true]
      exact PP.of_notOpen (by simp [S.emit]) (Nat.le_refl _) rfl (Or.inl rfl) (Or.inr rfl)
    · rename_i hc
      have hc' : s.st = .closed := by simpa using hc
      exact PP.of_notOpen (by simp [hc']) (Nat.le_refl _) rfl (Or.inl rfl) (Or.inr rfl)
  · exact sendAutoPing_PP s
  · exact PP.pre (sendTick_PP _) rfl rfl rfl rfl rfl

/-- the clock moves forward (nothing else) -/
theorem PP.preNow {a a' b : S} (h : PP a' b) (h0 : a'.st = a.st) (h1 : a.now ≤ a'.now) (h2 : a'.cfg = a.cfg)
    (h3 : a'.tPingNext = a.tPingNext) (h4 : a'.tPingTimeout = a.tPingTimeout) : PP a b :=
  (PP.of_le (fun x => by rw [← h0]; exact x) h1 h2 h3 h4).trans h

theorem advanceTo_PP (target : Nat) : ∀ (fuel : Nat) (s : S), PP s (advanceTo target fuel s) := by
  intro fuel
  induction fuel with
  | zero => intro s; exact PP.refl s
  | succ n ih =>
    intro s
    unfold advanceTo
    split
    · split
      · exact PP.preNow ((fire_PP _ _).trans (ih _)) rfl (Nat.le_max_left _ _) rfl rfl rfl
      · exact PP.of_le (fun x => x) (Nat.le_max_left _ _) rfl rfl rfl
    · exact PP.of_le (fun x => x) (Nat.le_max_left _ _) rfl rfl rfl

theorem pump_PP (s : S) : PP s (pump s) := advanceTo_PP _ _ _
theorem advance_PP (s : S) (dt : Nat) : PP s (advance s dt) := advanceTo_PP _ _ _

end Abverif.Ws
