import Abverif.Proofs.Lemmas.SchemaRT6
/-
Strictness (C08): whatever `Schema.parse` accepts satisfies `Schema.strict`
(ids in range, URIs accepted by the recogniser for their flags, options of their checked types, tail well-shaped).
-/
namespace Abverif.Wamp
open Schema

theorem bind_eq_ok {α β : Type} {x : Except Err α} {f : α → Except Err β} {b : β}
    (h : (x >>= f) = .ok b) : ∃ a, x = .ok a ∧ f a = .ok b := by
  cases x with
  | error e => simp [bind, Except.bind] at h
  | ok a => exact ⟨a, rfl, h⟩

/-- in a list with distinct names, membership determines `get` -/
theorem Msg.get_of_mem {m : Msg} (hnd : nodup (m.map (·.1)) = true) {f : Str} {v : WVal} (h : (f, v) ∈ m) :
    Msg.get m f = v := by
  induction m with
  | nil => simp at h
  | cons kv t ih =>
    obtain ⟨k, x⟩ := kv
    simp only [List.map_cons] at hnd
    rw [nodup_cons] at hnd
    rcases List.mem_cons.mp h with heq | ht
    · injection heq with h1 h2
      subst h1 h2
      exact Msg.get_cons_self _ _ _
    · have hk : k ≠ f := by
        intro e
        subst e
        have := any_beq_false_iff.mp hnd.1
        exact this (List.mem_map_of_mem (f := (·.1)) ht)
      rw [Msg.get_cons_ne x t hk]
      exact ih hnd.2 ht

/-! ### positional steps -/

/-- what a successful positional step says about the value it read -/
def PosStep.local (O : Oracles) (w : List WVal) : PosStep → WVal → Prop
  | .id _, v => ∃ i, v = .int i ∧ idOk i = true
  | .uri _ fl, v => uriOk O fl v = true
  | .str _, v => v.isStr = true
  | .extra _, v => ∃ d, v = .dict d
  | .intEnum _ allowed, v => ∃ i, v = .int i ∧ allowed.contains i = true
  | .opts, _ => True
  | .uriByMatch _ op key vals, v =>
      match Dict.get? ((w.getD op .null).entries) key with
      | none => uriOk O {} v = true
      | some (.str s) => strMem s vals = true ∧ uriOk O (matchFlags s) v = true
      | some _ => False

theorem PosStep.parse_ok {O : Oracles} {w : List WVal} {x : WVal} {p : PosStep} {r : Option (Str × WVal)}
    (h : p.parse O w x = .ok r) :
    (r = p.field?.map (fun f => (f, (r.map (·.2)).getD .null))) ∧
    (∀ f v, r = some (f, v) → p.local O w v) := by
  cases p with
  | id f =>
    simp only [PosStep.parse] at h
    obtain ⟨a, ha, hb⟩ := bind_eq_ok h
    cases hb
    refine ⟨by simp [PosStep.field?], ?_⟩
    intro f' v hv
    injection hv with hv; injection hv with h1 h2
    subst h2
    unfold checkId at ha
    split at ha
    · rename_i i
      split at ha
      · cases ha; exact ⟨i, rfl, by assumption⟩
      · simp [fail] at ha
    · simp [fail] at ha
  | uri f fl =>
    simp only [PosStep.parse] at h
    obtain ⟨a, ha, hb⟩ := bind_eq_ok h
    cases hb
    refine ⟨by simp [PosStep.field?], ?_⟩
    intro f' v hv
    injection hv with hv; injection hv with h1 h2
    subst h2
    unfold checkUri at ha
    split at ha
    · cases ha; assumption
    · simp [fail] at ha
  | str f =>
    simp only [PosStep.parse] at h
    obtain ⟨a, ha, hb⟩ := bind_eq_ok h
    cases hb
    refine ⟨by simp [PosStep.field?], ?_⟩
    intro f' v hv
    injection hv with hv; injection hv with h1 h2
    subst h2
    unfold checkStr at ha
    split at ha
    · cases ha; rfl
    · simp [fail] at ha
  | extra f =>
    simp only [PosStep.parse] at h
    obtain ⟨a, ha, hb⟩ := bind_eq_ok h
    cases hb
    refine ⟨by simp [PosStep.field?], ?_⟩
    intro f' v hv
    injection hv with hv; injection hv with h1 h2
    subst h2
    exact ⟨a, rfl⟩
  | intEnum f allowed =>
    simp only [PosStep.parse] at h
    split at h
    · rename_i i
      split at h
      · cases h
        refine ⟨by simp [PosStep.field?], ?_⟩
        intro f' v hv
        injection hv with hv; injection hv with h1 h2
        subst h2
        exact ⟨i, rfl, by assumption⟩
      · simp [fail] at h
    · simp [fail] at h
  | opts =>
    simp only [PosStep.parse] at h
    obtain ⟨a, ha, hb⟩ := bind_eq_ok h
    cases hb
    exact ⟨by simp [PosStep.field?], by intro f v hv; cases hv⟩
  | uriByMatch f op key vals =>
    simp only [PosStep.parse] at h
    split at h
    · rename_i hg
      obtain ⟨a, ha, hb⟩ := bind_eq_ok h
      cases hb
      refine ⟨by simp [PosStep.field?], ?_⟩
      intro f' v hv
      injection hv with hv; injection hv with h1 h2
      subst h2
      simp only [PosStep.local, hg]
      unfold checkUri at ha
      split at ha
      · cases ha; assumption
      · simp [fail] at ha
    · rename_i s hg
      split at h
      · rename_i hmem
        obtain ⟨a, ha, hb⟩ := bind_eq_ok h
        cases hb
        refine ⟨by simp [PosStep.field?], ?_⟩
        intro f' v hv
        injection hv with hv; injection hv with h1 h2
        subst h2
        simp only [PosStep.local, hg]
        unfold checkUri at ha
        split at ha
        · cases ha; exact ⟨hmem, by assumption⟩
        · simp [fail] at ha
      · simp [fail] at h
    · simp [fail] at h

theorem parsePos_ok {O : Oracles} {w : List WVal} :
    ∀ (ps : List PosStep) (vs : List WVal) (pm : Msg),
      parsePos O w ps vs = .ok pm → ps.length ≤ vs.length →
      pm.map (·.1) = ps.filterMap PosStep.field? ∧
      ∀ p ∈ ps, ∀ f, p.field? = some f → ∃ v, (f, v) ∈ pm ∧ p.local O w v := by
  intro ps
  induction ps with
  | nil =>
    intro vs pm h _
    simp only [parsePos, pure, Except.pure] at h
    cases h
    exact ⟨rfl, by intro p hp; cases hp⟩
  | cons p t ih =>
    intro vs pm h hl
    cases vs with
    | nil => simp at hl
    | cons x vs =>
      simp only [parsePos] at h
      obtain ⟨r, hr, h⟩ := bind_eq_ok h
      obtain ⟨rest, hrest, h⟩ := bind_eq_ok h
      simp only [pure, Except.pure, Except.ok.injEq] at h
      have hl' : t.length ≤ vs.length := by simpa using hl
      obtain ⟨ihn, ihl⟩ := ih vs rest hrest hl'
      obtain ⟨hshape, hloc⟩ := PosStep.parse_ok hr
      cases hpf : p.field? with
      | none =>
        rw [hpf] at hshape
        simp only [Option.map_none] at hshape
        subst hshape
        simp only at h
        subst h
        refine ⟨by simp [List.filterMap_cons, hpf, ihn], ?_⟩
        intro q hq f hf
        rcases List.mem_cons.mp hq with rfl | hq
        · rw [hpf] at hf; cases hf
        · exact ihl q hq f hf
      | some f0 =>
        rw [hpf] at hshape
        simp only [Option.map_some] at hshape
        rw [hshape] at h hloc
        simp only at h
        subst h
        refine ⟨by simp [List.filterMap_cons, hpf, ihn], ?_⟩
        intro q hq f hf
        rcases List.mem_cons.mp hq with rfl | hq
        · rw [hpf] at hf
          injection hf with hf
          subst hf
          exact ⟨_, List.mem_cons_self, hloc _ _ rfl⟩
        · obtain ⟨v, hv, hlv⟩ := ihl q hq f hf
          exact ⟨v, List.mem_cons_of_mem _ hv, hlv⟩

theorem parsePos_snoc_opts {O : Oracles} {w : List WVal} :
    ∀ (ps : List PosStep) (vs : List WVal), vs.length = ps.length →
      parsePos O w (ps ++ [PosStep.opts]) vs = parsePos O w ps vs := by
  intro ps
  induction ps with
  | nil =>
    intro vs h
    have : vs = [] := List.length_eq_zero_iff.mp (by simpa using h)
    subst this
    simp [parsePos]
  | cons p t ih =>
    intro vs h
    cases vs with
    | nil => simp at h
    | cons x vs =>
      have h' : vs.length = t.length := by simpa using h
      simp only [List.cons_append, parsePos, ih vs h']

/-! ### typed entries -/

theorem OptStep.parse_ok {O : Oracles} {d : Dict} {s : OptStep} {v : WVal}
    (hwf : OptStep.wf s = true) (hr : s.ty.isRoles = false) (h : s.parse O d = .ok v) :
    isDflt s.dflt v = true ∨ s.ty.valid O v = true := by
  unfold OptStep.parse at h
  have hd : isDflt s.dflt s.dflt = true := by
    apply isDflt_self
    simp only [OptStep.wf, Bool.and_eq_true] at hwf
    exact hwf.1.1
  split at h
  · split at h
    · simp [fail] at h
    · split at h
      · cases h; exact Or.inl hd
      · split at h
        · simp [fail] at h
        · cases h; exact Or.inl hd
  · obtain ⟨h1, h2⟩ := OTy.valid_of_check O s.field hr h
    subst h1
    exact Or.inr h2

theorem parseOpts_ok {O : Oracles} {d : Dict} :
    ∀ (ss : List OptStep) (om : Msg), (∀ s ∈ ss, OptStep.wf s = true ∧ s.ty.isRoles = false) →
      parseOpts O d ss = .ok om →
      om.map (·.1) = ss.map (·.field) ∧
      ∀ s ∈ ss, ∃ v, (s.field, v) ∈ om ∧ s.parse O d = .ok v ∧ (isDflt s.dflt v = true ∨ s.ty.valid O v = true) := by
  intro ss
  induction ss with
  | nil =>
    intro om _ h
    simp only [parseOpts, pure, Except.pure] at h
    cases h
    exact ⟨rfl, by intro s hs; cases hs⟩
  | cons s t ih =>
    intro om hw h
    simp only [parseOpts] at h
    obtain ⟨v, hv, h⟩ := bind_eq_ok h
    obtain ⟨rest, hrest, h⟩ := bind_eq_ok h
    simp only [pure, Except.pure, Except.ok.injEq] at h
    subst h
    obtain ⟨ihn, ihl⟩ := ih rest (fun x hx => hw x (List.mem_cons_of_mem _ hx)) hrest
    refine ⟨by simp [ihn], ?_⟩
    intro q hq
    rcases List.mem_cons.mp hq with rfl | hq
    · exact ⟨v, List.mem_cons_self, hv, OptStep.parse_ok (hw _ List.mem_cons_self).1 (hw _ List.mem_cons_self).2 hv⟩
    · obtain ⟨x, hx, hp, hval⟩ := ihl q hq
      exact ⟨x, List.mem_cons_of_mem _ hx, hp, hval⟩

/-! ### the tail -/

def argsShape : ArgsVariant → WVal → Bool
  | .std, a => a.isNull || a.isList
  | .publish, a => a.isNull || a.isList || a.isStr || a.isBytes

theorem checkArgs_ok {v : ArgsVariant} {x a : WVal} (h : checkArgs v x = .ok a) : argsShape v a = true := by
  unfold checkArgs at h
  split at h
  · simp only [Except.ok.injEq] at h; subst h; rfl
  · simp only [Except.ok.injEq] at h; subst h; cases v <;> rfl
  · simp only [Except.ok.injEq] at h; subst h; rfl
  · simp only [Except.ok.injEq] at h; subst h; rfl
  · simp [fail] at h

theorem argsPart_ok {t : TailSpec} {k : Nat} {w : List WVal} {a : WVal} (h : argsPart t k w = .ok a) :
    argsShape t.variant a = true := by
  unfold argsPart at h
  split at h
  · exact checkArgs_ok h
  · cases h; cases t.variant <;> rfl

theorem encGet_inv {d : Dict} {key : Str} {valid : WVal → Bool} {v : WVal} (h : encGet d key valid = .ok v) :
    v.isNull = true ∨ valid v = true := by
  simp only [encGet] at h
  split at h
  · simp [fail] at h
  · rename_i hc
    simp only [Except.ok.injEq] at h
    subst h
    cases hn : ((Dict.get? d key).getD .null).isNull <;> cases hv : valid ((Dict.get? d key).getD .null) <;> simp_all

theorem payloadMode_bytes {k : Nat} {w : List WVal} (h : payloadMode k w = true) :
    (w.getD (k + 1) .null).isBytes = true := by
  unfold payloadMode at h
  simp only [Bool.and_eq_true] at h
  have h2 := h.2
  generalize w.getD (k + 1) .null = x at h2 ⊢
  cases x <;> first | rfl | (simp at h2)

/-- what a successful tail parse says about the six tail attributes: everything the constructor asserts about them
(payload is bytes, the `enc_*` values are valid, `enc_key`/`enc_serializer` only together with `enc_algo`) -/
theorem parseTail_ok {O : Oracles} {t : TailSpec} {k : Nat} {d : Dict} {w : List WVal} {tm : Msg}
    (h : parseTail O t k d w = .ok tm) :
    ∃ a kw p ea ek es, tm = [(cs!"args", a), (cs!"kwargs", kw), (cs!"payload", p),
        (cs!"enc_algo", ea), (cs!"enc_key", ek), (cs!"enc_serializer", es)] ∧
      argsShape t.variant a = true ∧
      (p.isNull = true ∨ (a = .null ∧ kw = .null)) ∧
      (p.isNull = true ∨ p.isBytes = true) ∧
      (ea.isNull = true ∨ validEncAlgo O ea = true) ∧
      (ek.isNull = true ∨ ek.isStr = true) ∧
      (es.isNull = true ∨ validEncSer O es = true) ∧
      ((ea.isNull = true ∧ ek.isNull = true ∧ es.isNull = true) ∨ (p.isNull = false ∧ ea.isNull = false)) := by
  unfold parseTail at h
  split at h
  · rename_i hmode
    obtain ⟨ea, hea, h⟩ := bind_eq_ok h
    obtain ⟨ek, hek, h⟩ := bind_eq_ok h
    obtain ⟨es, hes, h⟩ := bind_eq_ok h
    obtain ⟨u, hg, h⟩ := bind_eq_ok h
    simp only [pure, Except.pure, Except.ok.injEq] at h
    have hb := payloadMode_bytes hmode
    have hpn : (w.getD (k + 1) .null).isNull = false := by
      generalize w.getD (k + 1) .null = x at hb ⊢
      cases x <;> first | rfl | (simp [WVal.isBytes] at hb)
    refine ⟨.null, .null, _, ea, ek, es, h.symm, by cases t.variant <;> rfl, Or.inr ⟨rfl, rfl⟩, Or.inr hb,
      encGet_inv hea, encGet_inv hek, encGet_inv hes, ?_⟩
    unfold encTripleGate at hg
    split at hg
    · simp [fail] at hg
    · rename_i hc
      cases h1 : ea.isNull <;> cases h2 : ek.isNull <;> cases h3 : es.isNull <;> simp_all
  · obtain ⟨a, ha, h⟩ := bind_eq_ok h
    obtain ⟨kw, _, h⟩ := bind_eq_ok h
    simp only [pure, Except.pure, Except.ok.injEq] at h
    exact ⟨a, kw, .null, .null, .null, .null, h.symm, argsPart_ok ha, Or.inl rfl, Or.inl rfl, Or.inl rfl, Or.inl rfl,
      Or.inl rfl, Or.inl ⟨rfl, rfl, rfl⟩⟩

theorem ctorOpts_inv {cls : ErrClass} {m : Msg} : ∀ ss : List OptStep, ctorOpts cls m ss = .ok () → ∀ s ∈ ss, s.cty.ok (m.get s.field) = true := by
  intro ss
  induction ss with
  | nil => intro _ s hs; cases hs
  | cons s t ih =>
    intro h q hq
    unfold ctorOpts at h
    split at h
    · rename_i hok
      rcases List.mem_cons.mp hq with rfl | hq
      · exact hok
      · exact ih h q hq
    · simp [fail] at h

theorem ctorCross_inv {cls : ErrClass} {O : Oracles} {m : Msg} : ∀ cs : List Cross, ctorCross cls O m cs = .ok () → ∀ c ∈ cs, c.ok O m = true := by
  intro cs
  induction cs with
  | nil => intro _ c hc; cases hc
  | cons c t ih =>
    intro h q hq
    unfold ctorCross at h
    split at h
    · rename_i hok
      rcases List.mem_cons.mp hq with rfl | hq
      · exact hok
      · exact ih h q hq
    · simp [fail] at h

/-- names and results of the typed entries, for every option type (`roles` included) -/
theorem parseOpts_mem {O : Oracles} {d : Dict} :
    ∀ (ss : List OptStep) (om : Msg), parseOpts O d ss = .ok om →
      om.map (·.1) = ss.map (·.field) ∧ ∀ s ∈ ss, ∃ v, (s.field, v) ∈ om ∧ s.parse O d = .ok v := by
  intro ss
  induction ss with
  | nil =>
    intro om h
    simp only [parseOpts, pure, Except.pure] at h
    cases h
    exact ⟨rfl, by intro s hs; cases hs⟩
  | cons s t ih =>
    intro om h
    simp only [parseOpts] at h
    obtain ⟨v, hv, h⟩ := bind_eq_ok h
    obtain ⟨rest, hrest, h⟩ := bind_eq_ok h
    simp only [pure, Except.pure, Except.ok.injEq] at h
    subst h
    obtain ⟨ihn, ihl⟩ := ih rest hrest
    refine ⟨by simp [ihn], ?_⟩
    intro q hq
    rcases List.mem_cons.mp hq with rfl | hq
    · exact ⟨v, List.mem_cons_self, hv⟩
    · obtain ⟨x, hx, hp⟩ := ihl q hq
      exact ⟨x, List.mem_cons_of_mem _ hx, hp⟩

theorem length_tail_of_lengths {σ : Schema} {w : List WVal} (hwf : σ.wf = true)
    (hl : σ.lengths.contains w.length = true) :
    σ.pos.length ≤ w.tail.length ∨ (σ.optsOptional = true ∧ w.tail.length + 1 = σ.pos.length) := by
  have hk1 := (wf_parts hwf).2.2.2.2.1
  unfold Schema.lengths at hl
  simp only [List.length_tail]
  split at hl
  · simp only [List.contains_cons, List.contains_nil, Bool.or_false, Bool.or_eq_true, beq_iff_eq, Schema.k] at hl
    left; omega
  · split at hl
    · rename_i hopt
      simp only [List.contains_cons, List.contains_nil, Bool.or_false, Bool.or_eq_true, beq_iff_eq, Schema.k] at hl
      rcases hk1 with h0 | ⟨_, _, hk⟩
      · simp [hopt] at h0
      · simp only [Schema.k] at hk
        rcases hl with h | h
        · right; exact ⟨hopt, by omega⟩
        · left; omega
    · simp only [List.contains_cons, List.contains_nil, Bool.or_false, beq_iff_eq, Schema.k] at hl
      left; omega

theorem parsePos_full {σ : Schema} {O : Oracles} {w : List WVal} {pm : Msg} (hwf : σ.wf = true)
    (hl : σ.lengths.contains w.length = true) (h : parsePos O w σ.pos w.tail = .ok pm) :
    pm.map (·.1) = σ.pos.filterMap PosStep.field? ∧
    ∀ p ∈ σ.pos, ∀ f, p.field? = some f → ∃ v, (f, v) ∈ pm ∧ p.local O w v := by
  rcases length_tail_of_lengths hwf hl with hle | ⟨hopt, hlen⟩
  · exact parsePos_ok σ.pos w.tail pm h hle
  · have hpos := pos_last_opts hwf hopt
    have hdl : w.tail.length = σ.pos.dropLast.length := by
      simp only [List.length_dropLast]; omega
    rw [hpos, parsePos_snoc_opts _ _ hdl] at h
    obtain ⟨hn, hlc⟩ := parsePos_ok σ.pos.dropLast w.tail pm h (by omega)
    refine ⟨?_, ?_⟩
    · rw [hn]
      conv => rhs; rw [hpos]
      simp [List.filterMap_append, PosStep.field?]
    · intro p hp f hf
      rw [hpos] at hp
      rcases List.mem_append.mp hp with hp | hp
      · exact hlc p hp f hf
      · simp only [List.mem_singleton] at hp
        subst hp
        simp [PosStep.field?] at hf

/-- what the tail of a successfully parsed message looks like (in terms of the message's attributes) -/
def TailInv (O : Oracles) (t : TailSpec) (m : Msg) : Prop :=
  argsShape t.variant (m.get cs!"args") = true ∧
  ((m.get cs!"payload").isNull = true ∨ (m.get cs!"args" = .null ∧ m.get cs!"kwargs" = .null)) ∧
  ((m.get cs!"payload").isNull = true ∨ (m.get cs!"payload").isBytes = true) ∧
  ((m.get cs!"enc_algo").isNull = true ∨ validEncAlgo O (m.get cs!"enc_algo") = true) ∧
  ((m.get cs!"enc_key").isNull = true ∨ (m.get cs!"enc_key").isStr = true) ∧
  ((m.get cs!"enc_serializer").isNull = true ∨ validEncSer O (m.get cs!"enc_serializer") = true) ∧
  (((m.get cs!"enc_algo").isNull = true ∧ (m.get cs!"enc_key").isNull = true ∧ (m.get cs!"enc_serializer").isNull = true) ∨
   ((m.get cs!"payload").isNull = false ∧ (m.get cs!"enc_algo").isNull = false))

/-- what the field-by-field part of `parse` establishes about the attributes of the message it returns — for every
class, HELLO and WELCOME included -/
structure FieldsInv (σ : Schema) (O : Oracles) (w : List WVal) (m : Msg) : Prop where
  names : m.map (·.1) = σ.fieldNames
  pos : ∀ p ∈ σ.pos, ∀ f, p.field? = some f → p.local O w (m.get f)
  opts : ∀ s ∈ σ.opts, s.parse O (σ.optsOf w) = .ok (m.get s.field)
  tail : ∀ t, σ.tail = some t → TailInv O t m
  custom : σ.custom = true → m.get cs!"custom" = .dict ((σ.optsOf w).filter (fun kv => O.customAttr kv.1))

theorem parseFields_inv {σ : Schema} {O : Oracles} {w : List WVal} {m' : Msg} (hwf : σ.wf = true)
    (hps : σ.parseFields O w = .ok m') : FieldsInv σ O w m' := by
  unfold Schema.parseFields at hps
  split at hps
  · simp [fail] at hps
  rename_i hlen
  have hl : σ.lengths.contains w.length = true := by
    cases hc : σ.lengths.contains w.length <;> simp_all
  obtain ⟨pm, hpm, hps⟩ := bind_eq_ok hps
  obtain ⟨tm, htm, hps⟩ := bind_eq_ok hps
  obtain ⟨om, hom, hps⟩ := bind_eq_ok hps
  simp only [pure, Except.pure, Except.ok.injEq] at hps
  obtain ⟨hpn, hpl⟩ := parsePos_full hwf hl hpm
  obtain ⟨hon, hol⟩ := parseOpts_mem σ.opts om hom
  -- names
  have htn : tm.map (·.1) = (if σ.tail.isSome then tailFields else []) ∧
      (∀ t, σ.tail = some t → ∃ a kw p ea ek es, tm = [(cs!"args", a), (cs!"kwargs", kw), (cs!"payload", p),
        (cs!"enc_algo", ea), (cs!"enc_key", ek), (cs!"enc_serializer", es)] ∧
        argsShape t.variant a = true ∧ (p.isNull = true ∨ (a = .null ∧ kw = .null)) ∧
        (p.isNull = true ∨ p.isBytes = true) ∧
        (ea.isNull = true ∨ validEncAlgo O ea = true) ∧
        (ek.isNull = true ∨ ek.isStr = true) ∧
        (es.isNull = true ∨ validEncSer O es = true) ∧
        ((ea.isNull = true ∧ ek.isNull = true ∧ es.isNull = true) ∨ (p.isNull = false ∧ ea.isNull = false))) := by
    unfold Schema.tailPart at htm
    split at htm
    · rename_i t ht
      obtain ⟨a, kw, p, ea, ek, es, he, hs⟩ := parseTail_ok htm
      refine ⟨by simp [he, ht, tailFields], fun t' ht' => ?_⟩
      rw [ht] at ht'
      injection ht' with ht'
      subst ht'
      exact ⟨a, kw, p, ea, ek, es, he, hs⟩
    · rename_i ht
      simp only [pure, Except.pure, Except.ok.injEq] at htm
      subst htm
      exact ⟨by simp [ht], by intro t h; simp [ht] at h⟩
  have hcn : (σ.customPart O w).map (·.1) = (if σ.custom then [cs!"custom"] else []) := by
    unfold Schema.customPart
    split <;> simp
  have hnames : m'.map (·.1) = σ.fieldNames := by
    rw [← hps]
    simp only [List.map_append, hpn, htn.1, hon, hcn, Schema.fieldNames]
    cases hts : σ.tail.isSome <;> cases hcu : σ.custom <;> simp [tailFields]
  have hnd : nodup (m'.map (·.1)) = true := by rw [hnames]; exact (wf_parts hwf).1
  have hget : ∀ f v, (f, v) ∈ m' → Msg.get m' f = v := fun f v hm => Msg.get_of_mem hnd hm
  have hmem_pm : ∀ x ∈ pm, x ∈ m' := by
    intro x hx; rw [← hps]; simp [hx]
  have hmem_tm : ∀ x ∈ tm, x ∈ m' := by
    intro x hx; rw [← hps]; simp [hx]
  have hmem_om : ∀ x ∈ om, x ∈ m' := by
    intro x hx; rw [← hps]; simp [hx]
  have hmem_cm : ∀ x ∈ σ.customPart O w, x ∈ m' := by
    intro x hx; rw [← hps]; simp [hx]
  refine ⟨hnames, ?_, ?_, ?_, ?_⟩
  · intro p hp f hf
    obtain ⟨v, hv, hloc⟩ := hpl p hp f hf
    rw [hget _ _ (hmem_pm _ hv)]
    exact hloc
  · intro s hs
    obtain ⟨v, hv, hp⟩ := hol s hs
    rw [hget _ _ (hmem_om _ hv)]
    exact hp
  · intro t ht
    obtain ⟨a, kw, p, ea, ek, es, he, hs⟩ := htn.2 t ht
    have ga : Msg.get m' cs!"args" = a := hget _ _ (hmem_tm _ (by simp [he]))
    have gk : Msg.get m' cs!"kwargs" = kw := hget _ _ (hmem_tm _ (by simp [he]))
    have gp : Msg.get m' cs!"payload" = p := hget _ _ (hmem_tm _ (by simp [he]))
    have gea : Msg.get m' cs!"enc_algo" = ea := hget _ _ (hmem_tm _ (by simp [he]))
    have gek : Msg.get m' cs!"enc_key" = ek := hget _ _ (hmem_tm _ (by simp [he]))
    have ges : Msg.get m' cs!"enc_serializer" = es := hget _ _ (hmem_tm _ (by simp [he]))
    unfold TailInv
    rw [ga, gk, gp, gea, gek, ges]
    exact hs
  · intro hcu
    have : (cs!"custom", WVal.dict ((σ.optsOf w).filter (fun kv => O.customAttr kv.1))) ∈ σ.customPart O w := by
      simp [Schema.customPart, hcu]
    exact hget _ _ (hmem_cm _ this)

/-- **strictness** from the invariant of the field-by-field part plus `_validate_kwargs` -/
theorem strict_of_inv {σ : Schema} {O : Oracles} {w : List WVal} {m' : Msg}
    (hwf : σ.wf = true) (hnr : σ.noRoles = true) (inv : FieldsInv σ O w m')
    (hkw : σ.tail.isSome = true → kwargsCheck m' = .ok ()) : σ.strict O m' = true := by
  have hws : ∀ s ∈ σ.opts, OptStep.wf s = true ∧ s.ty.isRoles = false := by
    intro s hs
    refine ⟨(wf_parts hwf).2.2.2.2.2.2.2.1 s hs, ?_⟩
    simp only [Schema.noRoles, List.all_eq_true, Bool.not_eq_true'] at hnr
    exact hnr s hs
  simp only [Schema.strict, Bool.and_eq_true, List.all_eq_true, beq_iff_eq, Bool.or_eq_true, Bool.not_eq_true']
  refine ⟨⟨⟨⟨inv.names, ?_⟩, ?_⟩, ?_⟩, ?_⟩
  · -- positional
    intro p hp
    cases p with
    | id f =>
      obtain ⟨i, hi, hok⟩ := inv.pos _ hp f rfl
      simp only [PosStep.strict, hi, hok]
    | uri f fl =>
      simp only [PosStep.strict]
      exact inv.pos _ hp f rfl
    | str f =>
      simp only [PosStep.strict]
      exact inv.pos _ hp f rfl
    | extra f =>
      obtain ⟨d, hd⟩ := inv.pos _ hp f rfl
      simp only [PosStep.strict, hd]
    | intEnum f allowed =>
      obtain ⟨i, hi, hok⟩ := inv.pos _ hp f rfl
      simp only [PosStep.strict, hi, hok]
    | opts => rfl
    | uriByMatch f op key vals =>
      have hloc := inv.pos _ hp f rfl
      simp only [PosStep.strict]
      -- the `match` entry of the options
      have hpw := (wf_parts hwf).2.2.2.2.2.2.1 _ hp
      simp only [PosStep.wf, Bool.and_eq_true, beq_iff_eq, List.any_eq_true] at hpw
      obtain ⟨hop, s, hs, ⟨hk, hf⟩, hty⟩ := hpw
      split at hty
      case h_2 => exact absurd hty (by simp)
      rename_i vs d0 d0' hsty hsd hsm
      simp only [Bool.and_eq_true, beq_iff_eq] at hty
      obtain ⟨⟨⟨hvs, hdd⟩, hfl⟩, hdm⟩ := hty
      subst hvs hdd
      have hfl' : matchFlags d0 = {} := by simpa using hfl
      have hp0 := inv.opts s hs
      have hoe : σ.optsOf w = (w.getD op .null).entries := by
        unfold Schema.optsOf; rw [hop]
      rw [hf] at hp0
      unfold OptStep.parse at hp0
      rw [hoe, hk] at hp0
      simp only [PosStep.local] at hloc
      cases hg : Dict.get? ((w.getD op .null).entries) key with
      | none =>
        rw [hg] at hp0 hloc
        have hreq : s.required = false := by
          have := (hws s hs).1
          simp only [OptStep.wf, Bool.and_eq_true] at this
          have h2 := this.1.2
          rw [hsty] at h2
          simpa using h2
        simp only [hreq] at hp0
        have : Msg.get m' key = s.dflt := by
          cases hab : s.absentErrIf with
          | none =>
            rw [hab] at hp0
            simp only [Bool.false_eq_true, if_false, Except.ok.injEq] at hp0
            exact hp0.symm
          | some k2 =>
            rw [hab] at hp0
            simp only [Bool.false_eq_true, if_false] at hp0
            split at hp0
            · simp [fail] at hp0
            · simp only [Except.ok.injEq] at hp0
              exact hp0.symm
        rw [this, hsd]
        simp only [strOf, hfl']
        exact hloc
      | some x =>
        rw [hg] at hp0 hloc
        simp only at hp0
        rw [hsty] at hp0
        cases x with
        | str sx =>
          simp only [OTy.check] at hp0
          split at hp0
          · simp only [Except.ok.injEq] at hp0
            rw [← hp0]
            simp only [strOf]
            exact hloc.2
          · simp [fail] at hp0
        | _ => simp at hloc
  · -- typed entries
    intro s hs
    have hval := OptStep.parse_ok (hws s hs).1 (hws s hs).2 (inv.opts s hs)
    simp only [OptStep.strict, Bool.or_eq_true]
    exact hval
  · -- tail
    cases hts : σ.tail with
    | none => rfl
    | some t =>
      have htsome : σ.tail.isSome = true := by simp [hts]
      obtain ⟨f1, f2, f3, f4, f5, f6, f7⟩ := inv.tail t hts
      have hkw' := hkw htsome
      simp only [tailStrict, Bool.and_eq_true, Bool.or_eq_true, Bool.not_eq_true']
      refine ⟨⟨⟨⟨⟨⟨⟨f3, ?_⟩, ?_⟩, ?_⟩, f4⟩, f5⟩, f6⟩, ?_⟩
      · cases hv : t.variant <;> simp_all [argsShape]
      · unfold kwargsCheck at hkw'
        cases hk : Msg.get m' cs!"kwargs" <;> rw [hk] at hkw' <;> first | rfl | (simp [fail] at hkw')
      · rcases f2 with h | ⟨ha, hk⟩
        · exact Or.inl h
        · exact Or.inr ⟨by rw [ha]; rfl, by rw [hk]; rfl⟩
      · rcases f7 with ⟨x, y, z⟩ | ⟨x, y⟩
        · exact Or.inl ⟨⟨x, y⟩, z⟩
        · exact Or.inr ⟨x, y⟩
  · -- custom attributes
    cases hcu : σ.custom with
    | false => exact Or.inl rfl
    | true =>
      right
      rw [inv.custom hcu]
      simp [List.all_filter]

theorem parseStage_fields {σ : Schema} {O : Oracles} {w : List WVal} {m : Msg} (h : σ.parseStage O w = .ok m) :
    σ.parseFields O w = .ok m ∧ ctorCross .protocol O m σ.pcross = .ok () := by
  unfold Schema.parseStage at h
  obtain ⟨m', hf, h⟩ := bind_eq_ok h
  obtain ⟨u, hc, h⟩ := bind_eq_ok h
  simp only [pure, Except.pure, Except.ok.injEq] at h
  subst h
  exact ⟨hf, hc⟩

/-- **strictness**: a message accepted by `parse` satisfies `Schema.strict` -/
theorem parse_strict_core (σ : Schema) (O : Oracles) (w : List WVal) (m : Msg)
    (hwf : σ.wf = true) (hnr : σ.noRoles = true)
    (h : σ.parse O w = .ok m) : σ.strict O m = true := by
  unfold Schema.parse at h
  obtain ⟨m', hps, h⟩ := bind_eq_ok h
  obtain ⟨u, hcs, h⟩ := bind_eq_ok h
  simp only [pure, Except.pure, Except.ok.injEq] at h
  subst h
  have inv := parseFields_inv hwf (parseStage_fields hps).1
  apply strict_of_inv hwf hnr inv
  intro hts
  unfold Schema.ctorStage at hcs
  obtain ⟨_, _, hcs⟩ := bind_eq_ok hcs
  obtain ⟨_, _, hkw⟩ := bind_eq_ok hcs
  simpa [hts] using hkw

end Abverif.Wamp
