import Abverif.Proofs.Lemmas.SchemaDict
/-
Round trip, part 1: the options dictionary (`parseOpts (marshalDict m) = fields of m`).
-/
namespace Abverif.Wamp
open Schema

/-- first-pass restriction: the generic round-trip theorem covers every option type except `roles` -/
def Schema.noRoles (σ : Schema) : Bool := σ.opts.all (fun s => !s.ty.isRoles)

theorem wf_parts {σ : Schema} (h : σ.wf = true) :
    nodup σ.fieldNames = true ∧
    nodup (σ.opts.map (·.key) ++ (if σ.tail.isSome then encKeys else [])) = true ∧
    ((σ.pos.filter PosStep.isOpts).length ≤ 1) ∧
    ((σ.opts.isEmpty && σ.tail.isNone && !σ.custom) = true ∨ σ.optsPos.isSome = true) ∧
    (σ.optsOptional = false ∨ (σ.tail.isNone = true ∧ σ.optsPos = some σ.k ∧ σ.k ≥ 1)) ∧
    ((σ.custom && σ.tail.isSome) = false) ∧
    (∀ p ∈ σ.pos, PosStep.wf σ p = true) ∧
    (∀ s ∈ σ.opts, OptStep.wf s = true) ∧
    (∀ c ∈ σ.pcross, c ∈ σ.cross) := by
  simp only [Schema.wf, Bool.and_eq_true, decide_eq_true_eq, Bool.or_eq_true, Bool.not_eq_true',
    List.all_eq_true, beq_iff_eq, List.contains_iff_mem] at h
  obtain ⟨⟨⟨⟨⟨⟨⟨⟨h1, h2⟩, h3⟩, h4⟩, h5⟩, h6⟩, h7⟩, h8⟩, h9⟩ := h
  refine ⟨h1, h2, h3, ?_, ?_, ?_, h7, h8, h9⟩
  · simpa using h4
  · rcases h5 with h | ⟨⟨ha, hb⟩, hc⟩
    · exact Or.inl h
    · exact Or.inr ⟨ha, hb, hc⟩
  · simpa using h6

theorem opts_keys_nodup {σ : Schema} (h : σ.wf = true) : (σ.opts.map (·.key)).Nodup := by
  have := (wf_parts h).2.1
  rw [nodup_iff] at this
  exact (List.nodup_append.mp this).1

theorem opts_key_not_enc {σ : Schema} (h : σ.wf = true) (ht : σ.tail.isSome = true) {s : OptStep} (hs : s ∈ σ.opts) :
    s.key ∉ encKeys := by
  have := (wf_parts h).2.1
  rw [nodup_iff, ht] at this
  intro hk
  exact (List.nodup_append.mp this).2.2 s.key (List.mem_map_of_mem hs) s.key hk rfl

theorem enc_key_not_opts {σ : Schema} (h : σ.wf = true) (ht : σ.tail.isSome = true) {k : Str} (hk : k ∈ encKeys) :
    k ∉ σ.opts.map (·.key) := by
  have := (wf_parts h).2.1
  rw [nodup_iff, ht] at this
  intro hm
  exact (List.nodup_append.mp this).2.2 k hm k hk rfl

theorem strict_parts {σ : Schema} {O : Oracles} {m : Msg} (h : σ.strict O m = true) :
    m.map (·.1) = σ.fieldNames ∧
    (∀ p ∈ σ.pos, PosStep.strict O m p = true) ∧
    (∀ s ∈ σ.opts, OptStep.strict O m s = true) ∧
    (match σ.tail with | some t => tailStrict O t m | none => true) = true ∧
    (σ.custom = false ∨ (match m.get cs!"custom" with | .dict c => c.all (fun kv => O.customAttr kv.1) | _ => false) = true) := by
  simp only [Schema.strict, Bool.and_eq_true, List.all_eq_true, beq_iff_eq, Bool.or_eq_true, Bool.not_eq_true'] at h
  obtain ⟨⟨⟨⟨h1, h2⟩, h3⟩, h4⟩, h5⟩ := h
  exact ⟨h1, h2, h3, h4, h5⟩

theorem residual_parts {σ : Schema} {O : Oracles} {m : Msg} (h : σ.residual O m = true) :
    (∀ s ∈ σ.opts, OptStep.residual O σ m s = true) ∧
    (match σ.tail with | some t => tailResidual t m | none => true) = true ∧
    (∀ c ∈ σ.cross, Cross.ok O m c = true) := by
  simp only [Schema.residual, Bool.and_eq_true, List.all_eq_true] at h
  obtain ⟨⟨h1, h2⟩, h3⟩ := h
  exact ⟨h1, h2, h3⟩

/-- keys of the custom attributes written at the top level of WELCOME's details -/
theorem custom_keys {σ : Schema} {O : Oracles} {m : Msg} (hst : σ.strict O m = true) (hc : σ.custom = true) :
    ∀ k ∈ ((m.get cs!"custom").entries).map (·.1), O.customAttr k = true := by
  have := (strict_parts hst).2.2.2.2
  rcases this with h | h
  · simp [hc] at h
  · intro k hk
    split at h
    · rename_i c heq
      simp only [heq, WVal.entries] at hk
      rw [List.all_eq_true] at h
      obtain ⟨kv, hkv, rfl⟩ := List.mem_map.mp hk
      exact h kv hkv
    · simp at h

theorem marshalDict_eq (σ : Schema) (m : Msg) :
    σ.marshalDict m = (if σ.custom then (m.get cs!"custom").entries else []) ++
      (σ.opts.flatMap (marshalOpt m) ++ (if σ.tail.isSome then marshalEnc m else [])) := by
  simp [Schema.marshalDict, List.append_assoc]

theorem get?_marshalDict_opt {σ : Schema} {O : Oracles} {m : Msg}
    (hwf : σ.wf = true) (hwfO : σ.wfO O = true) (hst : σ.strict O m = true) {s : OptStep} (hs : s ∈ σ.opts) :
    Dict.get? (σ.marshalDict m) s.key =
      if s.mm.emits (m.get s.field) = true then some (s.ty.encode (m.get s.field)) else none := by
  rw [marshalDict_eq]
  have hcust : s.key ∉ ((if σ.custom then (m.get cs!"custom").entries else [])).map (·.1) := by
    by_cases hc : σ.custom = true
    · simp only [hc, if_true]
      intro hk
      have h1 := custom_keys hst hc _ hk
      simp only [Schema.wfO, hc, Bool.not_true, Bool.false_or, List.all_eq_true, Bool.not_eq_true'] at hwfO
      rw [hwfO s hs] at h1
      exact Bool.false_ne_true h1
    · simp [hc]
  rw [Dict.get?_append_of_not_mem hcust, get?_flatMap_mem m _ σ.opts s hs (opts_keys_nodup hwf)]
  split
  · rfl
  · by_cases ht : σ.tail.isSome = true
    · simp only [ht, if_true]
      apply Dict.get?_none_of_not_mem
      intro hk
      exact opts_key_not_enc hwf ht hs (marshalEnc_keys m _ hk)
    · simp [ht, Dict.get?]

theorem get?_marshalDict_enc {σ : Schema} {m : Msg} (hwf : σ.wf = true) (ht : σ.tail.isSome = true)
    {k : Str} (hk : k ∈ encKeys) :
    Dict.get? (σ.marshalDict m) k = Dict.get? (marshalEnc m) k := by
  rw [marshalDict_eq]
  have hc : σ.custom = false := by
    have := (wf_parts hwf).2.2.2.2.2.1
    simpa [ht] using this
  simp only [hc, ht, if_true, Bool.false_eq_true, if_false, List.nil_append]
  exact get?_flatMap_not_mem m _ k σ.opts (enc_key_not_opts hwf ht hk)

/-- every typed entry reads back the attribute it was written from -/
theorem OptStep.parse_marshal {σ : Schema} {O : Oracles} {m : Msg}
    (hwf : σ.wf = true) (hwfO : σ.wfO O = true)
    (hst : σ.strict O m = true) (hres : σ.residual O m = true) {s : OptStep} (hs : s ∈ σ.opts) :
    s.parse O (σ.marshalDict m) = .ok (m.get s.field) := by
  have hswf := (wf_parts hwf).2.2.2.2.2.2.2.1 s hs
  have hsres := (residual_parts hres).1 s hs
  unfold OptStep.parse
  rw [get?_marshalDict_opt hwf hwfO hst hs]
  by_cases hem : s.mm.emits (m.get s.field) = true
  · simp only [hem, if_true]
    unfold OptStep.residual at hsres
    rw [if_pos hem, Bool.and_eq_true] at hsres
    exact OTy.check_encode_of_valid O s.field hsres.1
  · simp only [hem]
    unfold OptStep.residual at hsres
    rw [if_neg hem, Bool.and_eq_true, Bool.and_eq_true] at hsres
    obtain ⟨⟨hd, habs⟩, _⟩ := hsres
    have hreq : s.required = false := by
      simp only [OptStep.wf, Bool.and_eq_true] at hswf
      have h2 := hswf.1.2
      cases hty : s.ty with
      | roles a f =>
        rw [hty] at h2
        simp only [Bool.and_eq_true] at h2
        have hmm : s.mm = .always := by
          cases hm : s.mm <;> simp_all
        rw [hmm] at hem
        simp [MMode.emits] at hem
      | _ => rw [hty] at h2; simpa using h2
    simp only [hreq]
    rw [isDflt_eq hd]
    cases hab : s.absentErrIf with
    | none => simp
    | some k =>
      simp only [hab, Bool.not_eq_true'] at habs
      simp [habs]

theorem parseOpts_marshal_aux {σ : Schema} {O : Oracles} {m : Msg}
    (hwf : σ.wf = true) (hwfO : σ.wfO O = true)
    (hst : σ.strict O m = true) (hres : σ.residual O m = true) :
    ∀ ss : List OptStep, (∀ s ∈ ss, s ∈ σ.opts) →
      parseOpts O (σ.marshalDict m) ss = .ok (ss.map (fun s => (s.field, m.get s.field))) := by
  intro ss
  induction ss with
  | nil => intro _; rfl
  | cons s t ih =>
    intro h
    have hs := h s (List.mem_cons_self)
    have ht := ih (fun x hx => h x (List.mem_cons_of_mem _ hx))
    simp only [parseOpts, OptStep.parse_marshal hwf hwfO hst hres hs, ht, List.map_cons]
    rfl

theorem parseOpts_marshal {σ : Schema} {O : Oracles} {m : Msg}
    (hwf : σ.wf = true) (hwfO : σ.wfO O = true)
    (hst : σ.strict O m = true) (hres : σ.residual O m = true) :
    parseOpts O (σ.marshalDict m) σ.opts = .ok (σ.opts.map (fun s => (s.field, m.get s.field))) :=
  parseOpts_marshal_aux hwf hwfO hst hres σ.opts (fun _ h => h)

end Abverif.Wamp
