import Abverif.Proofs.Lemmas.SessLiftX
/-
`LiftS` for relations that also read `transport`: the same lifting through the session-lifecycle functions, except that
a lifecycle-field update is only required to be related when it leaves `transport` alone (so `onOpen` / `onClose`, the
only functions that write it, are the relation's own business). Generated from the `LiftS` section of SessLiftX.lean.
-/
namespace Abverif.Session
open Abverif.SessCodes

structure LiftT (R : Sess → List SOut → Sess → Prop) (P : Sess → Prop) (ok : SOut → Bool) : Prop extends Lift R P where
  okOf : ∀ o, sessOut o = true → ok o = true
  lc : ∀ {s s' : Sess}, P s → s'.core = s.core → s'.callee = s.callee → s'.transport = s.transport → R s [] s'
  out : ∀ {s : Sess} {os : List SOut}, P s → (∀ o ∈ os, ok o = true) → R s os s
  emit : ∀ {s : Sess} {o : SOut}, P s → ok o = true → R s (emitCb s o).2 (emitCb s o).1
  enq : ∀ {s : Sess} (k : Cont), P s → R s [] { s with cbq := s.cbq ++ [.later k] }
  lostMap : ∀ {s o s'}, R s o s' → R s (o.map toLost) s'
  cbqOk : ∀ {s : Sess}, P s → ∀ o ∈ s.cbq, ok o = true
  clearQ : ∀ {s : Sess}, P s → R s [] { s with cbq := [] }
  rejectAll : ∀ {s : Sess} (o : Outcome), P s →
    R s (rejectList s.clearTables o s.outstanding).2 (rejectList s.clearTables o s.outstanding).1

variable {R : Sess → List SOut → Sess → Prop} {P : Sess → Prop} {ok : SOut → Bool}

namespace LiftT

theorem outs (L : LiftT R P ok) {s : Sess} {os : List SOut} (hs : P s) (ho : ∀ o ∈ os, sessOut o = true) : R s os s :=
  L.out hs (fun o h => L.okOf o (ho o h))

theorem out1 (L : LiftT R P ok) {s : Sess} {o : SOut} (hs : P s) (ho : sessOut o = true) : R s [o] s :=
  L.outs hs (by intro x hx; simp at hx; subst hx; exact ho)

theorem cons (L : LiftT R P ok) {s s' : Sess} {o : SOut} {os : List SOut} (hs : P s) (ho : sessOut o = true)
    (h : R s os s') : R s (o :: os) s' :=
  L.trans (L.out1 hs ho) h

/-- a lifecycle-field update, then a step -/
theorem lcThen (L : LiftT R P ok) {s s' s'' : Sess} {o : List SOut} (hs : P s)
    (h : P s' → R s' o s'') (hc : s'.core = s.core) (hk : s'.callee = s.callee) (ht : s'.transport = s.transport) : R s o s'' := by
  have h0 := L.lc hs hc hk ht
  exact L.trans h0 (h (L.post hs h0))

/-- a step, then a lifecycle-field update -/
theorem thenLc (L : LiftT R P ok) {s s' s'' : Sess} {o : List SOut} (hs : P s) (h : R s o s')
    (hc : s''.core = s'.core) (hk : s''.callee = s'.callee) (ht : s''.transport = s'.transport) : R s o s'' := by
  have := L.trans h (L.lc (L.post hs h) hc hk ht)
  rwa [List.append_nil] at this

theorem trans3 (L : LiftT R P ok) {s s1 s2 s3 : Sess} {a b c : List SOut} (h1 : R s a s1) (h2 : R s1 b s2) (h3 : R s2 c s3) :
    R s ((a ++ b) ++ c) s3 := by
  rw [List.append_assoc]; exact L.trans h1 (L.trans h2 h3)

theorem emitLc (L : LiftT R P ok) {s : Sess} {o : SOut} (hs : P s) (ho : sessOut o = true) :
    R s (emitCb s o).2 (emitCb s o).1 := L.emit hs (L.okOf o ho)

theorem runHook (L : LiftT R P ok) {s : Sess} (hs : P s) (h : Hook) (arg : Nat) (act : HAct)
    (body : Sess → Sess × List SOut) (hb : ∀ {s}, P s → R s (body s).2 (body s).1) :
    R s (Session.runHook s h arg act body).2 (Session.runHook s h arg act body).1 := by
  unfold Session.runHook
  have hb1 : R s (if act.dflt then body s else (s, [])).2 (if act.dflt then body s else (s, [])).1 := by
    split
    · exact hb hs
    · exact L.refl hs
  generalize (if act.dflt = true then body s else (s, [])) = r1 at hb1 ⊢
  simp only []
  split
  · exact L.cons hs rfl (L.lostMap hb1)
  · have h2 := L.toLift.runCalls (L.post hs hb1) none act.calls
    exact L.cons hs rfl (L.trans hb1 h2)

theorem runLeaf (L : LiftT R P ok) {s : Sess} (hs : P s) (k : Cont) :
    R s (Session.runLeaf s k).2 (Session.runLeaf s k).1 := by
  cases k with
  | closeIfTransport =>
    simp only [Session.runLeaf]
    split
    · exact L.out1 hs rfl
    · exact L.refl hs
  | welcome2 act =>
    simp only [Session.runLeaf]
    have h1 := L.runHook hs .onJoin 0 act (fun s => (s, [])) (fun h => L.refl h)
    have h2 : R (Session.runHook s .onJoin 0 act (fun s => (s, []))).1
        ((if act.raises = true then (match s.mode with | .sync => [SOut.userError] | .deferred => [SOut.lost .exception]) else []) ++ [SOut.fire .ready])
        (Session.runHook s .onJoin 0 act (fun s => (s, []))).1 := by
      refine L.outs (L.post hs h1) ?_
      intro o ho
      simp only [List.mem_append, List.mem_singleton] at ho
      rcases ho with ho | ho
      · split at ho
        · split at ho <;> simp at ho <;> subst ho <;> rfl
        · simp at ho
      · subst ho; rfl
    have := L.trans h1 h2
    rwa [← List.append_assoc] at this
  | connect _ => exact L.out1 hs rfl
  | welcome1 _ _ _ => exact L.out1 hs rfl
  | challenge1 _ _ => exact L.out1 hs rfl
  | invDone _ _ => exact L.out1 hs rfl

theorem deferLeaf (L : LiftT R P ok) {s : Sess} (hs : P s) (k : Cont) :
    R s (Session.deferLeaf s k).2 (Session.deferLeaf s k).1 := by
  unfold Session.deferLeaf
  split
  · exact L.runLeaf hs k
  · exact L.enq k hs

theorem onLeaveDefault (L : LiftT R P ok) {s : Sess} (hs : P s) (reason : Nat) :
    R s (Session.onLeaveDefault s reason).2 (Session.onLeaveDefault s reason).1 := by
  unfold Session.onLeaveDefault
  have h1 := L.rejectAll (.closed reason) hs
  exact L.trans h1 (L.deferLeaf (L.post hs h1) _)

theorem onDisconnectDefault (L : LiftT R P ok) {s : Sess} (hs : P s) :
    R s (Session.onDisconnectDefault s).2 (Session.onDisconnectDefault s).1 :=
  L.rejectAll (.closed 1) hs

theorem leaveHook (L : LiftT R P ok) {s : Sess} (hs : P s) (reason : Nat) (act : HAct) :
    R s (Session.leaveHook s reason act).2 (Session.leaveHook s reason act).1 := by
  unfold Session.leaveHook
  have h1 := L.runHook hs .onLeave reason act (fun s => Session.onLeaveDefault s reason) (fun h => L.onLeaveDefault h reason)
  refine L.trans h1 (L.emitLc (L.post hs h1) ?_)
  split <;> rfl

theorem disconnectHook (L : LiftT R P ok) {s : Sess} (hs : P s) (act : HAct) :
    R s (Session.disconnectHook s act).2 (Session.disconnectHook s act).1 := by
  unfold Session.disconnectHook
  have h1 := L.runHook hs .onDisconnect 0 act Session.onDisconnectDefault (fun h => L.onDisconnectDefault h)
  refine L.trans h1 (L.emitLc (L.post hs h1) ?_)
  split <;> rfl

theorem challengeFail (L : LiftT R P ok) {s : Sess} (hs : P s) (lact : HAct) :
    R s (Session.challengeFail s lact).2 (Session.challengeFail s lact).1 := by
  unfold Session.challengeFail
  split
  · exact L.outs hs (by intro x hx; simp at hx; rcases hx with hx | hx <;> subst hx <;> rfl)
  · exact L.cons hs rfl (L.cons hs rfl (L.lcThen hs (fun h => L.leaveHook h 3 lact) rfl rfl rfl))

theorem runCont (L : LiftT R P ok)
    (hInv : ∀ {s : Sess} (req : ReqId) (o : EOut), P s → R s (Session.invDone s req o).2 (Session.invDone s req o).1) {s : Sess} (hs : P s) (k : Cont) :
    R s (Session.runCont s k).2 (Session.runCont s k).1 := by
  cases k with
  | closeIfTransport => exact L.runLeaf hs _
  | welcome2 act => exact L.runLeaf hs _
  | connect act =>
    simp only [Session.runCont]
    exact L.runHook hs .onConnect 0 act apiJoin (fun h => L.api .join h)
  | welcome1 sid res jact =>
    simp only [Session.runCont]
    cases res with
    | deny => simp only []; split; exact L.out1 hs rfl; exact L.out1 hs rfl
    | raised =>
      simp only []; split
      · exact L.outs hs (by intro x hx; simp at hx; rcases hx with hx | hx <;> subst hx <;> rfl)
      · exact L.out1 hs rfl
    | ok =>
      simp only []
      split
      · exact L.thenLc hs (L.out1 hs rfl) rfl rfl rfl
      · refine L.lcThen (s' := { s with sessionId := some sid }) hs (fun hs1 => ?_) rfl rfl rfl
        exact L.cons hs1 rfl (L.deferLeaf hs1 _)
  | challenge1 res lact =>
    simp only [Session.runCont]
    cases res with
    | sig =>
      simp only []
      split
      · exact L.out1 hs rfl
      · split
        · exact L.out1 hs rfl
        · exact L.challengeFail hs lact
    | none_ =>
      simp only []
      split
      · exact L.out1 hs rfl
      · exact L.challengeFail hs lact
    | raised => exact L.challengeFail hs lact
  | invDone req o => exact hInv req o hs

theorem defer (L : LiftT R P ok)
    (hInv : ∀ {s : Sess} (req : ReqId) (o : EOut), P s → R s (Session.invDone s req o).2 (Session.invDone s req o).1) {s : Sess} (hs : P s) (k : Cont) :
    R s (Session.defer s k).2 (Session.defer s k).1 := by
  unfold Session.defer
  split
  · exact L.runCont hInv hs k
  · exact L.enq k hs

theorem preSession (L : LiftT R P ok)
    (hInv : ∀ {s : Sess} (req : ReqId) (o : EOut), P s → R s (Session.invDone s req o).2 (Session.invDone s req o).1) {s : Sess} (hs : P s) (beh : List HAct) (m : InMsg) :
    R s (Session.preSession s beh m).2 (Session.preSession s beh m).1 := by
  unfold Session.preSession
  split
  · exact L.out1 hs rfl
  cases m with
  | welcome sid =>
    simp only [Session.preSessionOpen]
    have h1 := L.runHook hs .onWelcome 0 (beh.headD {}) (fun s => (s, [])) (fun h => L.refl h)
    exact L.trans h1 (L.defer hInv (L.post hs h1) _)
  | abort => exact L.lcThen hs (fun h => L.leaveHook h 2 _) rfl rfl rfl
  | challenge =>
    simp only [Session.preSessionOpen]
    have h1 := L.runHook hs .onChallenge 0 (beh.headD {}) (fun s => (s, [])) (fun h => L.refl h)
    exact L.trans h1 (L.defer hInv (L.post hs h1) _)
  | goodbye => exact L.out1 hs rfl
  | result _ _ _ => exact L.out1 hs rfl
  | error _ _ _ _ => exact L.out1 hs rfl
  | published _ _ => exact L.out1 hs rfl
  | subscribed _ _ => exact L.out1 hs rfl
  | unsubscribed _ => exact L.out1 hs rfl
  | registered _ _ => exact L.out1 hs rfl
  | unregistered _ _ => exact L.out1 hs rfl
  | event _ _ _ => exact L.out1 hs rfl
  | invocation _ _ _ _ => exact L.out1 hs rfl
  | interrupt _ => exact L.out1 hs rfl
  | other => exact L.out1 hs rfl

theorem tickList (L : LiftT R P ok)
    (hInv : ∀ {s : Sess} (req : ReqId) (o : EOut), P s → R s (Session.invDone s req o).2 (Session.invDone s req o).1) {s : Sess} (hs : P s) (items : List SOut) (hi : ∀ o ∈ items, ok o = true) :
    R s (Session.tickList s items).2 (Session.tickList s items).1 := by
  induction items generalizing s with
  | nil => exact L.refl hs
  | cons o rest ih =>
    have hrest : ∀ x ∈ rest, ok x = true := fun x hx => hi x (List.mem_cons_of_mem _ hx)
    cases o with
    | later k =>
      simp only [Session.tickList]
      have h1 := L.runCont hInv hs k
      exact L.trans h1 (ih (L.post hs h1) hrest)
    | _ =>
      simp only [Session.tickList]
      exact L.trans (L.out hs (os := [_]) (by intro x hx; simp at hx; subst hx; exact hi _ List.mem_cons_self)) (ih hs hrest)

theorem tick (L : LiftT R P ok)
    (hInv : ∀ {s : Sess} (req : ReqId) (o : EOut), P s → R s (Session.invDone s req o).2 (Session.invDone s req o).1) {s : Sess} (hs : P s) : R s (Session.tick s).2 (Session.tick s).1 := by
  unfold Session.tick
  have h0 := L.clearQ hs
  exact L.trans h0 (L.tickList hInv (L.post hs h0) s.cbq (L.cbqOk hs))

theorem drain (L : LiftT R P ok)
    (hInv : ∀ {s : Sess} (req : ReqId) (o : EOut), P s → R s (Session.invDone s req o).2 (Session.invDone s req o).1) (n : Nat) {s : Sess} (hs : P s) : R s (Session.drain n s).2 (Session.drain n s).1 := by
  induction n generalizing s with
  | zero => exact L.refl hs
  | succ n ih =>
    unfold Session.drain
    split
    · exact L.refl hs
    · have h1 := L.tick hInv hs
      exact L.trans h1 (ih (L.post hs h1))

/-- the whole step function, given the established-session branch -/
theorem goodbye (L : LiftT R P ok) {s : Sess} (hs : P s) (act : HAct) :
    R s ((if s.goodbyeSent then [] else [SOut.send { typ := .goodbye }]) ++ (Session.leaveHook { s with sessionId := none, ended := true } 0 act).2)
      (Session.leaveHook { s with sessionId := none, ended := true } 0 act).1 := by
  have h1 : R s (if s.goodbyeSent then [] else [SOut.send { typ := .goodbye }]) s := by
    split
    · exact L.refl hs
    · exact L.out1 hs rfl
  exact L.trans h1 (L.lcThen hs (fun h => L.leaveHook h 0 act) rfl rfl rfl)


end LiftT

end Abverif.Session
