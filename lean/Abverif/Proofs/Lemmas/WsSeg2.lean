import Abverif.Proofs.Lemmas.WsSeg
/-
Segmentation independence of the receive path, part 2: the `processData` loop (`drain`).
All lemmas are for endpoints that fail by dropping (`failByDrop = true`, the default of autobahn).
-/
namespace Abverif.Ws

/-- the frame pointer never passes the declared payload length -/
def WF (s : S) : Prop := ∀ h, s.cur = some h → s.ptr ≤ h.length

/-- termination measure of the `processData` loop -/
def mu (s : S) (buf : Bytes) : Nat := 2 * buf.length + (if s.cur.isSome then 1 else 0)

/-- a read never hands over an empty buffer in the middle of a frame's payload -/
def NE (s : S) (buf : Bytes) : Prop := buf = [] → ∀ h, s.cur = some h → h.length ≤ s.ptr

theorem violation_closed (s : S) (code : Nat) (hf : s.cfg.failByDrop = true) :
    (violation s code).1.st = .closed ∧ (violation s code).2 = true := by
  by_cases hst : s.st = .closed
  · refine ⟨?_, hf⟩
    unfold violation failConnection
    simp [hst]
  · exact ⟨(violation_drop s code hf hst).2.1, (violation_drop s code hf hst).1⟩

/-! ### facts about `consume` -/

theorem consume_true (s : S) (h : Hdr) (c : Bytes) (hf : s.cfg.failByDrop = true) (hst : s.st ≠ .closed)
    (ht : (consume s h c).2 = true) :
    (consume s h c).1.ptr = s.ptr + c.length ∧ (consume s h c).1.cur = s.cur ∧ (consume s h c).1.st = s.st ∧
    (consume s h c).1.cfg = s.cfg ∧ (consume s h c).1.wasClean = s.wasClean := by
  by_cases hc : h.opcode > 7
  · simp [consume, onFrameData, hc]
  · by_cases hon : (s.utf8On && !s.msgCompressed) = true
    · by_cases hb : utf8Bad s (unmaskChunk s h c) = true
      · have := (consume_data_bad s h c hc hon hb hf hst).1
        rw [this] at ht; cases ht
      · have hg : utf8Bad s (unmaskChunk s h c) = false := by simpa using hb
        rw [consume_data_good s h c hc (fun _ => hg)]
        simp [afterChunk]
    · have hoff : (s.utf8On && !s.msgCompressed) = false := by simpa using hon
      rw [consume_data_good s h c hc (fun hx => by rw [hoff] at hx; cases hx)]
      simp [afterChunk]

theorem consume_false (s : S) (h : Hdr) (c : Bytes) (hf : s.cfg.failByDrop = true) (hst : s.st ≠ .closed)
    (ht : (consume s h c).2 = false) : (consume s h c).1.st = .closed := by
  by_cases hc : h.opcode > 7
  · simp [consume, onFrameData, hc] at ht
  · by_cases hon : (s.utf8On && !s.msgCompressed) = true
    · by_cases hb : utf8Bad s (unmaskChunk s h c) = true
      · exact (consume_data_bad s h c hc hon hb hf hst).2.1
      · have hg : utf8Bad s (unmaskChunk s h c) = false := by simpa using hb
        rw [consume_data_good s h c hc (fun _ => hg)] at ht; cases ht
    · have hoff : (s.utf8On && !s.msgCompressed) = false := by simpa using hon
      rw [consume_data_good s h c hc (fun hx => by rw [hoff] at hx; cases hx)] at ht; cases ht

/-- Lemma B for every frame type -/
theorem consume_append (s : S) (h : Hdr) (a b : Bytes) (ha : a ≠ [])
    (hf : s.cfg.failByDrop = true) (hst : s.st ≠ .closed) :
    ((consume s h a).2 = false →
        (consume s h (a ++ b)).2 = false ∧ DeadSim (consume s h a).1 (consume s h (a ++ b)).1) ∧
    ((consume s h a).2 = true →
        (consume (consume s h a).1 h b).2 = (consume s h (a ++ b)).2 ∧
        ((consume s h (a ++ b)).2 = true → (consume (consume s h a).1 h b).1 = (consume s h (a ++ b)).1) ∧
        ((consume s h (a ++ b)).2 = false → DeadSim (consume (consume s h a).1 h b).1 (consume s h (a ++ b)).1)) := by
  by_cases hc : h.opcode > 7
  · have e := consume_append_control s h a b hc
    have t1 : (consume s h a).2 = true := by simp [consume, onFrameData, hc]
    have t2 : (consume s h (a ++ b)).2 = true := by simp [consume, onFrameData, hc]
    refine ⟨fun hx => (by rw [t1] at hx; cases hx), fun _ => ⟨by rw [e], fun _ => (by rw [e]), fun hx => (by rw [t2] at hx; cases hx)⟩⟩
  · exact consume_append_data s h a b hc ha hf hst

/-! ### facts about the frame end -/

theorem endMessageStep_true_cur (s : S) (ht : (endMessageStep s).2 = true) : (endMessageStep s).1.cur = none := by
  unfold endMessageStep at *
  by_cases hcond : (s.utf8On && !s.msgCompressed && !s.utf8Ends) = true
  · simp only [hcond, if_true] at ht ⊢
    cases hv : (violation s 1007).2
    · simp [hv, resetMessage]
    · simp [hv] at ht
  · simp [hcond, resetMessage]

theorem endMessageStep_false_closed (s : S) (hf : s.cfg.failByDrop = true) (ht : (endMessageStep s).2 = false) :
    (endMessageStep s).1.st = .closed := by
  unfold endMessageStep at *
  by_cases hcond : (s.utf8On && !s.msgCompressed && !s.utf8Ends) = true
  · simp only [hcond, if_true] at ht ⊢
    have hv := violation_closed s 1007 hf
    simp [hv.2, hv.1]
  · simp [hcond] at ht

theorem onFrameEnd_true_cur (s : S) (h : Hdr) (ht : (onFrameEnd s h).2 = true) : (onFrameEnd s h).1.cur = none := by
  unfold onFrameEnd at *
  by_cases hc : h.opcode > 7
  · simp [hc]
  · simp only [hc, if_false] at ht ⊢
    by_cases hfin : h.fin = true
    · simp only [hfin, if_true] at ht ⊢
      exact endMessageStep_true_cur _ ht
    · simp [hfin]

theorem endDataFrame_cfg (s : S) : (endDataFrame s).cfg = s.cfg := (endDataFrame_Ext s).cfg

theorem onFrameEnd_false_closed (s : S) (h : Hdr) (hf : s.cfg.failByDrop = true) (ht : (onFrameEnd s h).2 = false) :
    (onFrameEnd s h).1.st = .closed := by
  unfold onFrameEnd at *
  by_cases hc : h.opcode > 7
  · simp [hc] at ht
  · simp only [hc, if_false] at ht ⊢
    by_cases hfin : h.fin = true
    · simp only [hfin, if_true] at ht ⊢
      exact endMessageStep_false_closed _ (by rw [endDataFrame_cfg]; exact hf) ht
    · simp [hfin] at ht

/-! ### the receive-side frame fields through the begin of a frame -/

theorem dropConnection_recv (s : S) (a : Bool) : (dropConnection s a).ptr = s.ptr ∧ (dropConnection s a).cur = s.cur := by
  unfold dropConnection flushQueue
  split <;> (try split) <;> simp [S.emit]

theorem failConnection_recv (s : S) (code : Nat) (hf : s.cfg.failByDrop = true) :
    (failConnection s code).ptr = s.ptr ∧ (failConnection s code).cur = s.cur := by
  unfold failConnection
  split
  · simp only [hf, if_true]
    exact dropConnection_recv _ _
  · exact ⟨rfl, rfl⟩

theorem onMessageFrameBegin_recv (s : S) (n : Nat) (hf : s.cfg.failByDrop = true) :
    (onMessageFrameBegin s n).ptr = s.ptr ∧ (onMessageFrameBegin s n).cur = s.cur := by
  unfold onMessageFrameBegin
  simp only
  split
  · split
    · exact failConnection_recv _ _ hf
    · split
      · exact failConnection_recv _ _ hf
      · exact ⟨rfl, rfl⟩
  · exact ⟨rfl, rfl⟩

theorem onFrameBegin_recv (s : S) (h : Hdr) (hf : s.cfg.failByDrop = true) :
    (onFrameBegin s h).ptr = s.ptr ∧ (onFrameBegin s h).cur = s.cur := by
  unfold onFrameBegin
  split
  · exact ⟨rfl, rfl⟩
  · simp only
    split
    · split
      · exact onMessageFrameBegin_recv _ _ hf
      · exact onMessageFrameBegin_recv _ _ hf
    · exact onMessageFrameBegin_recv _ _ hf

/-! ### the header step depends only on the header octets -/

theorem applyViolations_fbd (s : S) (vs : List HV) (hf : s.cfg.failByDrop = true) :
    (vs = [] → applyViolations s vs = (s, false)) ∧
    (vs ≠ [] → (applyViolations s vs).2 = true ∧ (applyViolations s vs).1.st = .closed) := by
  cases vs with
  | nil => exact ⟨fun _ => rfl, fun h => absurd rfl h⟩
  | cons v vs =>
    refine ⟨fun h => (by cases h), fun _ => ?_⟩
    unfold applyViolations
    have hv := violation_closed s 1002 hf
    generalize violation s 1002 = r at hv
    obtain ⟨s', stop⟩ := r
    simp only at hv
    simp [hv.1, hv.2]

theorem extLenStep_fbd (s : S) (l p : Nat) (hf : s.cfg.failByDrop = true) :
    ((extLenStep s l p).2 = false → (extLenStep s l p).1 = s) ∧
    ((extLenStep s l p).2 = true → (extLenStep s l p).1.st = .closed) := by
  have hv := violation_closed s 1002 hf
  unfold extLenStep
  split
  · split
    · simp [hv.1, hv.2]
    · simp
  · split
    · by_cases h1 : p > 0x7FFFFFFFFFFFFFFF
      · simp [h1, hv.1, hv.2]
      · by_cases h2 : p < 65536
        · simp [h1, h2, hv.1, hv.2]
        · simp [h1, h2]
    · simp

theorem take_drop_append (buf b : Bytes) (i k : Nat) (h : i + k ≤ buf.length) :
    ((buf ++ b).drop i).take k = (buf.drop i).take k := by
  rw [List.drop_append_of_le_length (by omega)]
  rw [List.take_append_of_le_length (by simp; omega)]

theorem maskOf_append (m : Bool) (len7 : Nat) (buf b : Bytes) (h : headerLen m len7 ≤ buf.length) :
    maskOf m (((buf ++ b).drop (headerLen m len7 - 4)).take 4) = maskOf m ((buf.drop (headerLen m len7 - 4)).take 4) := by
  cases m with
  | false => simp [maskOf]
  | true =>
    rw [take_drop_append]
    unfold headerLen at *
    simp only [if_true] at *
    omega

theorem headerLen_ge (m : Bool) (len7 : Nat) :
    2 + (if len7 = 126 then 2 else if len7 = 127 then 8 else 0) ≤ headerLen m len7 := by
  unfold headerLen; omega

/-- **header step**: with the whole header buffered, more octets behind it change nothing but the rest buffer -/
theorem processHeader_seg (s : S) (o0 o1 : UInt8) (buf b : Bytes) (hf : s.cfg.failByDrop = true) (hb : b ≠ []) :
    ((processHeader s o0 o1 (buf ++ b)).1 = (processHeader s o0 o1 buf).1 ∧
      (processHeader s o0 o1 (buf ++ b)).2.1 = (processHeader s o0 o1 buf).2.1 ++ b ∧
      (processHeader s o0 o1 (buf ++ b)).2.2 = true) ∨
    ((processHeader s o0 o1 buf).1.st = .closed ∧ (processHeader s o0 o1 (buf ++ b)).1 = (processHeader s o0 o1 buf).1) ∨
    (processHeader s o0 o1 buf = (s, buf, false)) := by
  unfold processHeader
  dsimp only
  have hav := applyViolations_fbd s (headerViolations s.cfg s.insideMessage (o0.toNat / 128 = 1) (o0.toNat / 16 % 8)
    (o0.toNat % 16) (o1.toNat / 128 = 1) (o1.toNat % 128)) hf
  by_cases hvs : headerViolations s.cfg s.insideMessage (o0.toNat / 128 = 1) (o0.toNat / 16 % 8)
    (o0.toNat % 16) (o1.toNat / 128 = 1) (o1.toNat % 128) = []
  · rw [hav.1 hvs]
    simp only [Bool.false_eq_true, if_false]
    by_cases hlen : buf.length ≥ headerLen (decide (o1.toNat / 128 = 1)) (o1.toNat % 128)
    · have hlen' : (buf ++ b).length ≥ headerLen (decide (o1.toNat / 128 = 1)) (o1.toNat % 128) := by
        rw [List.length_append]; omega
      simp only [hlen, hlen', if_true]
      rw [take_drop_append buf b 2 _ (by have := headerLen_ge (decide (o1.toNat / 128 = 1)) (o1.toNat % 128); omega)]
      rw [maskOf_append _ _ buf b hlen]
      have he := extLenStep_fbd s (o1.toNat % 128)
        (if o1.toNat % 128 < 126 then o1.toNat % 128 else
          beNat ((buf.drop 2).take (if o1.toNat % 128 = 126 then 2 else if o1.toNat % 128 = 127 then 8 else 0))) hf
      generalize extLenStep s (o1.toNat % 128)
        (if o1.toNat % 128 < 126 then o1.toNat % 128 else
          beNat ((buf.drop 2).take (if o1.toNat % 128 = 126 then 2 else if o1.toNat % 128 = 127 then 8 else 0))) = r1 at he
      by_cases h1 : r1.2 = true
      · simp only [h1, if_true]
        exact Or.inr (Or.inl ⟨he.2 h1, trivial⟩)
      · have h1' : r1.2 = false := by simpa using h1
        simp only [h1', Bool.false_eq_true, if_false]
        refine Or.inl ⟨trivial, ?_, ?_⟩
        · rw [List.drop_append_of_le_length hlen]
        · rw [List.drop_append_of_le_length hlen]
          cases b with
          | nil => exact absurd rfl hb
          | cons x xs => simp; right; omega
    · simp only [hlen, if_false]
      exact Or.inr (Or.inr trivial)
  · have h2 := hav.2 hvs
    simp only [h2.1, if_true]
    exact Or.inr (Or.inl ⟨h2.2, trivial⟩)

theorem headerLen_ge2 (m : Bool) (len7 : Nat) : 2 ≤ headerLen m len7 := by
  unfold headerLen; omega

/-- a header step that asks to be called again consumed the header, and starts the frame at pointer 0 -/
theorem processHeader_true (s : S) (o0 o1 : UInt8) (buf : Bytes) (hf : s.cfg.failByDrop = true)
    (ht : (processHeader s o0 o1 buf).2.2 = true) :
    (processHeader s o0 o1 buf).2.1.length + 2 ≤ buf.length ∧ (processHeader s o0 o1 buf).1.ptr = 0 ∧
    NE (processHeader s o0 o1 buf).1 (processHeader s o0 o1 buf).2.1 := by
  unfold processHeader at ht ⊢
  dsimp only at ht ⊢
  have hav := applyViolations_fbd s (headerViolations s.cfg s.insideMessage (o0.toNat / 128 = 1) (o0.toNat / 16 % 8)
    (o0.toNat % 16) (o1.toNat / 128 = 1) (o1.toNat % 128)) hf
  by_cases hvs : headerViolations s.cfg s.insideMessage (o0.toNat / 128 = 1) (o0.toNat / 16 % 8)
    (o0.toNat % 16) (o1.toNat / 128 = 1) (o1.toNat % 128) = []
  · rw [hav.1 hvs] at ht ⊢
    simp only [Bool.false_eq_true, if_false] at ht ⊢
    by_cases hlen : buf.length ≥ headerLen (decide (o1.toNat / 128 = 1)) (o1.toNat % 128)
    · simp only [hlen, if_true] at ht ⊢
      have he := extLenStep_fbd s (o1.toNat % 128)
        (if o1.toNat % 128 < 126 then o1.toNat % 128 else
          beNat ((buf.drop 2).take (if o1.toNat % 128 = 126 then 2 else if o1.toNat % 128 = 127 then 8 else 0))) hf
      generalize extLenStep s (o1.toNat % 128)
        (if o1.toNat % 128 < 126 then o1.toNat % 128 else
          beNat ((buf.drop 2).take (if o1.toNat % 128 = 126 then 2 else if o1.toNat % 128 = 127 then 8 else 0))) = r1 at he ht
      by_cases h1 : r1.2 = true
      · simp [h1] at ht
      · have h1' : r1.2 = false := by simpa using h1
        have hs1 : r1.1 = s := he.1 h1'
        simp only [h1', Bool.false_eq_true, if_false] at ht ⊢
        have h2 := headerLen_ge2 (decide (o1.toNat / 128 = 1)) (o1.toNat % 128)
        refine ⟨by simp only [List.length_drop]; omega, ?_, ?_⟩
        · rw [(onFrameBegin_recv _ _ (by rw [hs1]; exact hf)).1]
        · intro hnil hh hcur
          rw [(onFrameBegin_recv _ _ (by rw [hs1]; exact hf)).2] at hcur
          rw [(onFrameBegin_recv _ _ (by rw [hs1]; exact hf)).1]
          simp only [Option.some.injEq] at hcur
          rw [← hcur]
          simp only [hnil, List.length_nil, Nat.lt_irrefl, decide_false, Bool.or_false, decide_eq_true_eq] at ht
          simp only
          omega
    · simp [hlen] at ht
  · have h2 := hav.2 hvs
    simp [h2.1] at ht

/-! ### the payload step -/

/-- a payload step that asks to be called again made progress -/
theorem processPayload_true (s : S) (h : Hdr) (buf : Bytes) (hcur : s.cur = some h) (hwf : WF s)
    (hf : s.cfg.failByDrop = true) (hst : s.st ≠ .closed) (ht : (processPayload s h buf).2.2 = true) :
    mu (processPayload s h buf).1 (processPayload s h buf).2.1 < mu s buf ∧ WF (processPayload s h buf).1 ∧
    NE (processPayload s h buf).1 (processPayload s h buf).2.1 := by
  rw [processPayload_eq] at ht ⊢
  dsimp only at ht ⊢
  have hptr := hwf h hcur
  have hlt : (buf.take (h.length - s.ptr)).length ≤ h.length - s.ptr := by
    rw [List.length_take]; exact Nat.min_le_left _ _
  have ct := consume_true s h (buf.take (h.length - s.ptr)) hf hst
  generalize consume s h (buf.take (h.length - s.ptr)) = C at ct ht
  by_cases hC : C.2 = true
  · have ct := ct hC
    simp only [hC, Bool.not_true, Bool.false_eq_true, if_false] at ht ⊢
    by_cases hend : C.1.ptr = h.length
    · simp only [hend, if_true] at ht ⊢
      have hcn := onFrameEnd_true_cur C.1 h
      generalize onFrameEnd C.1 h = r2 at hcn ht
      by_cases h2 : r2.2 = true
      · simp only [h2, Bool.not_true, Bool.false_eq_true, if_false, decide_eq_true_eq] at ht ⊢
        refine ⟨?_, ?_, ?_⟩
        · unfold mu
          rw [hcn h2, hcur]
          simp only [Option.isSome_none, Option.isSome_some, Bool.false_eq_true, if_false, if_true, List.length_drop]
          omega
        · intro h' hh; rw [hcn h2] at hh; cases hh
        · intro hnil; rw [hnil] at ht; simp at ht
      · simp [h2] at ht
    · simp only [hend, if_false, Bool.not_true, Bool.false_eq_true, decide_eq_true_eq] at ht ⊢
      have hrest : 0 < h.length - s.ptr := by
        apply Nat.pos_of_ne_zero
        intro h0
        apply hend
        rw [ct.1, h0, List.take_zero, List.length_nil]
        omega
      refine ⟨?_, ?_, ?_⟩
      · unfold mu
        rw [ct.2.1, hcur]
        simp only [Option.isSome_some, if_true, List.length_drop] at ht ⊢
        omega
      · intro h' hh
        rw [ct.2.1, hcur] at hh
        simp only [Option.some.injEq] at hh
        rw [ct.1, ← hh]
        omega
      · intro hnil; rw [hnil] at ht; simp at ht
  · simp [hC] at ht

/-! ### the loop terminates: every iteration that asks for another one makes progress -/

theorem processData_true (s : S) (buf : Bytes) (hwf : WF s) (hf : s.cfg.failByDrop = true) (hst : s.st ≠ .closed)
    (ht : (processData s buf).2.2 = true) :
    mu (processData s buf).1 (processData s buf).2.1 < mu s buf ∧ WF (processData s buf).1 ∧
    NE (processData s buf).1 (processData s buf).2.1 := by
  unfold processData at ht ⊢
  cases hcur : s.cur with
  | none =>
    simp only [hcur] at ht ⊢
    match buf, ht with
    | [], ht => simp at ht
    | [_], ht => simp at ht
    | o0 :: o1 :: t, ht =>
      simp only at ht ⊢
      have hp := processHeader_true s o0 o1 (o0 :: o1 :: t) hf ht
      refine ⟨?_, ?_, hp.2.2⟩
      · unfold mu
        rw [hcur]
        simp only [Option.isSome_none, Bool.false_eq_true, if_false]
        have := hp.1
        split <;> omega
      · intro h' _; rw [hp.2.1]; exact Nat.zero_le _
  | some h =>
    simp only [hcur] at ht ⊢
    exact processPayload_true s h buf hcur hwf hf hst ht

/-- **termination of the `processData` loop**: the iteration count is bounded by `mu`, so the fuel of `drain` is
never exhausted and its value does not matter -/
theorem drain_fuel (F F' : Nat) (s : S) (buf : Bytes) (hwf : WF s) (hf : s.cfg.failByDrop = true)
    (hst : s.st ≠ .closed) (h1 : mu s buf < F) (h2 : mu s buf < F') : drain F s buf = drain F' s buf := by
  induction F generalizing F' s buf with
  | zero => omega
  | succ F ih =>
    cases F' with
    | zero => omega
    | succ F' =>
      unfold drain
      by_cases hwc : s.wasClean = true
      · simp only [hwc, if_true]
      · simp only [hwc, if_false]
        by_cases hc : ((processData s buf).2.2 && decide ((processData s buf).1.st ≠ .closed)) = true
        · simp only [hc, if_true]
          simp only [Bool.and_eq_true, decide_eq_true_eq] at hc
          have hp := processData_true s buf hwf hf hst hc.1
          exact ih F' _ _ hp.2.1 (by rw [(processData_Ext s buf).cfg]; exact hf) hc.2 (by omega) (by omega)
        · simp only [hc]
          simp

/-! ### one `processData` step on `buf` versus on `buf ++ b` -/

/-- what `processPayload` does once the chunk has been consumed -/
def finishPayload (C : S × Bool) (h : Hdr) (restbuf : Bytes) : S × Bytes × Bool :=
  if !C.2 then (C.1, restbuf, false) else
  let r2 := if C.1.ptr = h.length then onFrameEnd C.1 h else (C.1, true)
  if !r2.2 then (r2.1, restbuf, false) else (r2.1, restbuf, restbuf.length > 0)

theorem processPayload_finish (s : S) (h : Hdr) (buf : Bytes) :
    processPayload s h buf = finishPayload (consume s h (buf.take (h.length - s.ptr))) h (buf.drop (h.length - s.ptr)) := rfl

theorem DeadSim.refl_of_closed (a : S) (h : a.st = .closed) : DeadSim a a := ⟨h, h, rfl, rfl⟩

/-- the whole rest of the frame is buffered: more octets behind it only grow the rest buffer -/
theorem processPayload_seg_full (s : S) (h : Hdr) (buf b : Bytes) (hf : s.cfg.failByDrop = true)
    (hst : s.st ≠ .closed) (hb : b ≠ []) (hlen : h.length - s.ptr ≤ buf.length) :
    ((processPayload s h (buf ++ b)).1 = (processPayload s h buf).1 ∧
      (processPayload s h (buf ++ b)).2.1 = (processPayload s h buf).2.1 ++ b ∧
      (processPayload s h (buf ++ b)).2.2 = true) ∨
    ((processPayload s h buf).1.st = .closed ∧ (processPayload s h (buf ++ b)).1 = (processPayload s h buf).1) := by
  rw [processPayload_finish, processPayload_finish]
  rw [List.take_append_of_le_length hlen, List.drop_append_of_le_length hlen]
  have ct := consume_true s h (buf.take (h.length - s.ptr)) hf hst
  have cf := consume_false s h (buf.take (h.length - s.ptr)) hf hst
  generalize consume s h (buf.take (h.length - s.ptr)) = C at ct cf
  unfold finishPayload
  by_cases hC : C.2 = true
  · simp only [hC, Bool.not_true, Bool.false_eq_true, if_false]
    have ct := ct hC
    by_cases hend : C.1.ptr = h.length
    · simp only [hend, if_true]
      have hfc := onFrameEnd_false_closed C.1 h (by rw [ct.2.2.2.1]; exact hf)
      generalize onFrameEnd C.1 h = r2 at hfc
      by_cases h2 : r2.2 = true
      · simp only [h2, Bool.not_true, Bool.false_eq_true, if_false]
        refine Or.inl ⟨trivial, trivial, ?_⟩
        cases b with
        | nil => exact absurd rfl hb
        | cons x xs => simp; omega
      · have h2' : r2.2 = false := by simpa using h2
        simp only [h2', Bool.not_false, if_true]
        exact Or.inr ⟨hfc h2', trivial⟩
    · simp only [hend, if_false, Bool.not_true, Bool.false_eq_true]
      refine Or.inl ⟨trivial, trivial, ?_⟩
      cases b with
      | nil => exact absurd rfl hb
      | cons x xs => simp; omega
  · have hC' : C.2 = false := by simpa using hC
    simp only [hC', Bool.not_false, if_true]
    exact Or.inr ⟨cf hC', trivial⟩

theorem finishPayload_false (C : S × Bool) (h : Hdr) (rb : Bytes) (hC : C.2 = false) :
    finishPayload C h rb = (C.1, rb, false) := by
  unfold finishPayload; simp [hC]

/-- only a part of the frame's payload is buffered: the read stops in the middle of the frame, and going on with
`b` from there gives what the single read of `buf ++ b` gives -/
theorem processPayload_seg_part (s : S) (h : Hdr) (buf b : Bytes) (hcur : s.cur = some h) (hwf : WF s)
    (hf : s.cfg.failByDrop = true) (hst : s.st ≠ .closed) (hbuf : buf ≠ [])
    (hlen : buf.length < h.length - s.ptr) :
    ((processPayload s h buf).1.st = .closed ∧ DeadSim (processPayload s h buf).1 (processPayload s h (buf ++ b)).1) ∨
    ((processPayload s h buf).2.2 = false ∧ (processPayload s h buf).1.st ≠ .closed ∧ WF (processPayload s h buf).1 ∧
      (processPayload s h buf).1.cfg = s.cfg ∧ (processPayload s h buf).1.wasClean = s.wasClean ∧
      (processPayload s h buf).2.1 = [] ∧
      (processData (processPayload s h buf).1 b = processPayload s h (buf ++ b) ∨
        DeadSim (processData (processPayload s h buf).1 b).1 (processPayload s h (buf ++ b)).1)) := by
  rw [processPayload_finish, processPayload_finish]
  rw [List.take_append, List.drop_append]
  rw [List.take_of_length_le (Nat.le_of_lt hlen), List.drop_of_length_le (Nat.le_of_lt hlen), List.nil_append]
  have LB := consume_append s h buf (b.take (h.length - s.ptr - buf.length)) hbuf hf hst
  have ct := consume_true s h buf hf hst
  have cf := consume_false s h buf hf hst
  by_cases hC : (consume s h buf).2 = true
  · have ct := ct hC
    have LB := LB.2 hC
    have hne : (consume s h buf).1.ptr ≠ h.length := by rw [ct.1]; omega
    have hr : finishPayload (consume s h buf) h [] = ((consume s h buf).1, [], false) := by
      unfold finishPayload; simp [hC, hne]
    rw [hr]
    refine Or.inr ⟨rfl, by rw [ct.2.2.1]; exact hst, ?_, ct.2.2.2.1, ct.2.2.2.2, rfl, ?_⟩
    · intro h' hh
      rw [ct.2.1, hcur] at hh
      simp only [Option.some.injEq] at hh
      rw [ct.1, ← hh]; omega
    · have hpd : processData (consume s h buf).1 b
          = finishPayload (consume (consume s h buf).1 h (b.take (h.length - s.ptr - buf.length))) h
              (b.drop (h.length - s.ptr - buf.length)) := by
        unfold processData
        rw [ct.2.1, hcur]
        simp only
        rw [processPayload_finish, ct.1]
        have : h.length - (s.ptr + buf.length) = h.length - s.ptr - buf.length := by omega
        rw [this]
      simp only
      rw [hpd]
      by_cases hW : (consume s h (buf ++ b.take (h.length - s.ptr - buf.length))).2 = true
      · left
        have e : consume (consume s h buf).1 h (b.take (h.length - s.ptr - buf.length))
            = consume s h (buf ++ b.take (h.length - s.ptr - buf.length)) :=
          Prod.ext (LB.2.1 hW) LB.1
        rw [e]
      · have hW' : (consume s h (buf ++ b.take (h.length - s.ptr - buf.length))).2 = false := by simpa using hW
        right
        rw [finishPayload_false _ _ _ (by rw [LB.1]; exact hW'), finishPayload_false _ _ _ hW']
        exact LB.2.2 hW'
  · have hC' : (consume s h buf).2 = false := by simpa using hC
    have LB := LB.1 hC'
    rw [finishPayload_false _ _ _ hC', finishPayload_false _ _ _ LB.1]
    exact Or.inl ⟨cf hC', LB.2⟩

/-- **one step, two buffers**: what `processData` does on `buf` compared with `buf ++ b`:
(P) the same, with `b` left behind in the rest buffer; (D) both close the connection with the same history;
(W) the short read waits for more, and going on from there with `b` meets the long read -/
theorem processData_seg (s : S) (buf b : Bytes) (hwf : WF s) (hf : s.cfg.failByDrop = true) (hst : s.st ≠ .closed)
    (hb : b ≠ []) (hne : NE s buf) :
    ((processData s (buf ++ b)).1 = (processData s buf).1 ∧
      (processData s (buf ++ b)).2.1 = (processData s buf).2.1 ++ b ∧ (processData s (buf ++ b)).2.2 = true) ∨
    ((processData s buf).1.st = .closed ∧ DeadSim (processData s buf).1 (processData s (buf ++ b)).1) ∨
    ((processData s buf).2.2 = false ∧ (processData s buf).1.st ≠ .closed ∧ WF (processData s buf).1 ∧
      (processData s buf).1.cfg = s.cfg ∧ (processData s buf).1.wasClean = s.wasClean ∧
      (processData (processData s buf).1 ((processData s buf).2.1 ++ b) = processData s (buf ++ b) ∨
        DeadSim (processData (processData s buf).1 ((processData s buf).2.1 ++ b)).1 (processData s (buf ++ b)).1)) := by
  cases hcur : s.cur with
  | none =>
    match buf with
    | [] =>
      have e : processData s [] = (s, [], false) := by unfold processData; simp [hcur]
      rw [e]
      exact Or.inr (Or.inr ⟨rfl, hst, hwf, rfl, rfl, Or.inl rfl⟩)
    | [x] =>
      have e : processData s [x] = (s, [x], false) := by unfold processData; simp [hcur]
      rw [e]
      exact Or.inr (Or.inr ⟨rfl, hst, hwf, rfl, rfl, Or.inl rfl⟩)
    | o0 :: o1 :: t =>
      have e1 : processData s (o0 :: o1 :: t) = processHeader s o0 o1 (o0 :: o1 :: t) := by
        unfold processData; simp [hcur]
      have e2 : processData s (o0 :: o1 :: t ++ b) = processHeader s o0 o1 (o0 :: o1 :: t ++ b) := by
        unfold processData; simp [hcur]
      rw [e1, e2]
      rcases processHeader_seg s o0 o1 (o0 :: o1 :: t) b hf hb with hP | hD | hW
      · exact Or.inl hP
      · exact Or.inr (Or.inl ⟨hD.1, by rw [hD.2]; exact DeadSim.refl_of_closed _ hD.1⟩)
      · rw [hW]
        refine Or.inr (Or.inr ⟨rfl, hst, hwf, rfl, rfl, Or.inl ?_⟩)
        simp only
        exact e2
  | some h =>
    have e1 : ∀ x, processData s x = processPayload s h x := by
      intro x; unfold processData; simp [hcur]
    rw [e1, e1]
    by_cases hlen : h.length - s.ptr ≤ buf.length
    · rcases processPayload_seg_full s h buf b hf hst hb hlen with hP | hD
      · exact Or.inl hP
      · exact Or.inr (Or.inl ⟨hD.1, by rw [hD.2]; exact DeadSim.refl_of_closed _ hD.1⟩)
    · have hlen' : buf.length < h.length - s.ptr := by omega
      have hbuf : buf ≠ [] := by
        intro hnil
        have := hne hnil h hcur
        rw [hnil] at hlen'
        simp only [List.length_nil] at hlen'
        omega
      rcases processPayload_seg_part s h buf b hcur hwf hf hst hbuf hlen' with hD | hW
      · exact Or.inr (Or.inl hD)
      · refine Or.inr (Or.inr ⟨hW.1, hW.2.1, hW.2.2.1, hW.2.2.2.1, hW.2.2.2.2.1, ?_⟩)
        rw [hW.2.2.2.2.2.1, List.nil_append, ← e1 (buf ++ b)]
        rw [← e1 (buf ++ b)] at hW
        exact hW.2.2.2.2.2.2

/-! ### `WF` is an invariant of the loop while the connection lives -/

theorem processHeader_WF (s : S) (o0 o1 : UInt8) (buf : Bytes) (hwf : WF s) (hf : s.cfg.failByDrop = true) :
    (processHeader s o0 o1 buf).1.st = .closed ∨ WF (processHeader s o0 o1 buf).1 := by
  unfold processHeader
  dsimp only
  have hav := applyViolations_fbd s (headerViolations s.cfg s.insideMessage (o0.toNat / 128 = 1) (o0.toNat / 16 % 8)
    (o0.toNat % 16) (o1.toNat / 128 = 1) (o1.toNat % 128)) hf
  by_cases hvs : headerViolations s.cfg s.insideMessage (o0.toNat / 128 = 1) (o0.toNat / 16 % 8)
    (o0.toNat % 16) (o1.toNat / 128 = 1) (o1.toNat % 128) = []
  · rw [hav.1 hvs]
    simp only [Bool.false_eq_true, if_false]
    by_cases hlen : buf.length ≥ headerLen (decide (o1.toNat / 128 = 1)) (o1.toNat % 128)
    · simp only [hlen, if_true]
      have he := extLenStep_fbd s (o1.toNat % 128)
        (if o1.toNat % 128 < 126 then o1.toNat % 128 else
          beNat ((buf.drop 2).take (if o1.toNat % 128 = 126 then 2 else if o1.toNat % 128 = 127 then 8 else 0))) hf
      generalize extLenStep s (o1.toNat % 128)
        (if o1.toNat % 128 < 126 then o1.toNat % 128 else
          beNat ((buf.drop 2).take (if o1.toNat % 128 = 126 then 2 else if o1.toNat % 128 = 127 then 8 else 0))) = r1 at he
      by_cases h1 : r1.2 = true
      · simp only [h1, if_true]
        exact Or.inl (he.2 h1)
      · have h1' : r1.2 = false := by simpa using h1
        have hs1 : r1.1 = s := he.1 h1'
        simp only [h1', Bool.false_eq_true, if_false]
        right
        intro h' _
        rw [(onFrameBegin_recv _ _ (by rw [hs1]; exact hf)).1]
        exact Nat.zero_le _
    · simp only [hlen, if_false]
      exact Or.inr hwf
  · have h2 := hav.2 hvs
    simp only [h2.1, if_true]
    exact Or.inl h2.2

theorem processPayload_WF (s : S) (h : Hdr) (buf : Bytes) (hcur : s.cur = some h) (hwf : WF s)
    (hf : s.cfg.failByDrop = true) (hst : s.st ≠ .closed) :
    (processPayload s h buf).1.st = .closed ∨ WF (processPayload s h buf).1 := by
  rw [processPayload_finish]
  have hptr := hwf h hcur
  have hlt : (buf.take (h.length - s.ptr)).length ≤ h.length - s.ptr := by
    rw [List.length_take]; exact Nat.min_le_left _ _
  have ct := consume_true s h (buf.take (h.length - s.ptr)) hf hst
  have cf := consume_false s h (buf.take (h.length - s.ptr)) hf hst
  generalize consume s h (buf.take (h.length - s.ptr)) = C at ct cf
  unfold finishPayload
  by_cases hC : C.2 = true
  · have ct := ct hC
    simp only [hC, Bool.not_true, Bool.false_eq_true, if_false]
    have hwfC : WF C.1 := by
      intro h' hh
      rw [ct.2.1, hcur] at hh
      simp only [Option.some.injEq] at hh
      rw [ct.1, ← hh]; omega
    by_cases hend : C.1.ptr = h.length
    · simp only [hend, if_true]
      have hcn := onFrameEnd_true_cur C.1 h
      have hfc := onFrameEnd_false_closed C.1 h (by rw [ct.2.2.2.1]; exact hf)
      generalize onFrameEnd C.1 h = r2 at hcn hfc
      by_cases h2 : r2.2 = true
      · simp only [h2, Bool.not_true, Bool.false_eq_true, if_false]
        right; intro h' hh; rw [hcn h2] at hh; cases hh
      · have h2' : r2.2 = false := by simpa using h2
        simp only [h2', Bool.not_false, if_true]
        exact Or.inl (hfc h2')
    · simp only [hend, if_false, Bool.not_true, Bool.false_eq_true]
      exact Or.inr hwfC
  · have hC' : C.2 = false := by simpa using hC
    simp only [hC', Bool.not_false, if_true]
    exact Or.inl (cf hC')

theorem processData_WF (s : S) (buf : Bytes) (hwf : WF s) (hf : s.cfg.failByDrop = true) (hst : s.st ≠ .closed) :
    (processData s buf).1.st = .closed ∨ WF (processData s buf).1 := by
  unfold processData
  cases hcur : s.cur with
  | none =>
    simp only
    match buf with
    | [] => exact Or.inr hwf
    | [_] => exact Or.inr hwf
    | o0 :: o1 :: t => exact processHeader_WF s o0 o1 _ hwf hf
  | some h =>
    simp only
    exact processPayload_WF s h buf hcur hwf hf hst

theorem drain_WF (F : Nat) (s : S) (buf : Bytes) (hwf : WF s) (hf : s.cfg.failByDrop = true) (hst : s.st ≠ .closed) :
    (drain F s buf).1.st = .closed ∨ WF (drain F s buf).1 := by
  induction F generalizing s buf with
  | zero => exact Or.inr hwf
  | succ F ih =>
    rw [drain]
    split
    · exact Or.inr hwf
    · dsimp only
      rcases processData_WF s buf hwf hf hst with hc | hw
      · split
        · rename_i hgo
          simp only [Bool.and_eq_true, decide_eq_true_eq] at hgo
          exact absurd hc hgo.2
        · exact Or.inl hc
      · split
        · rename_i hgo
          simp only [Bool.and_eq_true, decide_eq_true_eq] at hgo
          exact ih _ _ hw (by rw [(processData_Ext s buf).cfg]; exact hf) hgo.2
        · exact Or.inr hw

/-! ### the loop on `buf`, then on the rest plus `b`, versus the loop on `buf ++ b` (Lemma A) -/

theorem drain_clean (F : Nat) (s : S) (buf : Bytes) (hwc : s.wasClean = true) : drain (F + 1) s buf = (s, buf) := by
  rw [drain]; simp [hwc]

theorem drain_go (F : Nat) (s : S) (buf : Bytes) (hwc : s.wasClean = false) (h1 : (processData s buf).2.2 = true)
    (h2 : (processData s buf).1.st ≠ .closed) :
    drain (F + 1) s buf = drain F (processData s buf).1 (processData s buf).2.1 := by
  rw [drain]; simp [hwc, h1, h2]

theorem drain_stop_flag (F : Nat) (s : S) (buf : Bytes) (hwc : s.wasClean = false)
    (h1 : (processData s buf).2.2 = false) :
    drain (F + 1) s buf = ((processData s buf).1, (processData s buf).2.1) := by
  rw [drain]; simp [hwc, h1]

theorem drain_stop_closed (F : Nat) (s : S) (buf : Bytes) (hwc : s.wasClean = false)
    (h2 : (processData s buf).1.st = .closed) :
    drain (F + 1) s buf = ((processData s buf).1, (processData s buf).2.1) := by
  rw [drain]; simp [hwc, h2]

/-- equal results, or both connections over with the same history -/
def SimR (x y : S × Bytes) : Prop := x = y ∨ DeadSim x.1 y.1

theorem drain_seg (F1 : Nat) : ∀ (s : S) (buf b : Bytes) (F3 : Nat), WF s → s.cfg.failByDrop = true →
    s.st ≠ .closed → b ≠ [] → NE s buf → mu s buf < F1 → mu s (buf ++ b) < F3 →
    ((drain F1 s buf).1.st = .closed → DeadSim (drain F1 s buf).1 (drain F3 s (buf ++ b)).1) ∧
    ((drain F1 s buf).1.st ≠ .closed → ∀ F2, mu (drain F1 s buf).1 ((drain F1 s buf).2 ++ b) < F2 →
      SimR (drain F2 (drain F1 s buf).1 ((drain F1 s buf).2 ++ b)) (drain F3 s (buf ++ b))) := by
  induction F1 with
  | zero => intro s buf b F3 _ _ _ _ _ h; omega
  | succ F1 ih =>
    intro s buf b F3 hwf hf hst hb hne hF1 hF3
    cases F3 with
    | zero => omega
    | succ F3 =>
      cases hwc : s.wasClean with
      | true =>
        -- the peer's close frame has been taken in: nothing is processed any more
        rw [drain_clean F1 s buf hwc, drain_clean F3 s (buf ++ b) hwc]
        refine ⟨fun hx => absurd hx hst, fun _ F2 hF2 => Or.inl ?_⟩
        simp only at hF2 ⊢
        obtain ⟨F2, rfl⟩ : ∃ F', F2 = F' + 1 := ⟨F2 - 1, by omega⟩
        exact drain_clean F2 s (buf ++ b) hwc
      | false =>
      have hcfg : (processData s buf).1.cfg = s.cfg := (processData_Ext s buf).cfg
      rcases processData_seg s buf b hwf hf hst hb hne with hP | hD | hW
      · -- (P)
        obtain ⟨p1, p2, p3⟩ := hP
        have hT := processData_true s (buf ++ b) hwf hf hst p3
        rw [p1, p2] at hT
        by_cases hcl : (processData s buf).1.st = .closed
        · rw [drain_stop_closed F1 s buf hwc hcl, drain_stop_closed F3 s (buf ++ b) hwc (by rw [p1]; exact hcl)]
          refine ⟨fun _ => ?_, fun hx => absurd hcl hx⟩
          simp only
          rw [p1]; exact DeadSim.refl_of_closed _ hcl
        · rw [drain_go F3 s (buf ++ b) hwc p3 (by rw [p1]; exact hcl), p1, p2]
          by_cases hfl : (processData s buf).2.2 = true
          · rw [drain_go F1 s buf hwc hfl hcl]
            have hT1 := processData_true s buf hwf hf hst hfl
            exact ih _ _ b F3 hT1.2.1 (by rw [hcfg]; exact hf) hcl hb hT1.2.2 (by omega) (by omega)
          · have hfl' : (processData s buf).2.2 = false := by simpa using hfl
            rw [drain_stop_flag F1 s buf hwc hfl']
            refine ⟨fun hx => absurd hx hcl, fun _ F2 hF2 => ?_⟩
            simp only at hF2 ⊢
            exact Or.inl (drain_fuel F2 F3 _ _ hT.2.1 (by rw [hcfg]; exact hf) hcl hF2 (by omega))
      · -- (D)
        rw [drain_stop_closed F1 s buf hwc hD.1, drain_stop_closed F3 s (buf ++ b) hwc hD.2.2.1]
        exact ⟨fun _ => hD.2, fun hx => absurd hD.1 hx⟩
      · -- (W)
        obtain ⟨w1, w2, w3, w4, wc, w5⟩ := hW
        have hwc1 : (processData s buf).1.wasClean = false := by rw [wc]; exact hwc
        rw [drain_stop_flag F1 s buf hwc w1]
        refine ⟨fun hx => absurd hx w2, fun _ F2 hF2 => ?_⟩
        simp only at hF2 ⊢
        cases F2 with
        | zero => omega
        | succ F2 =>
          have hf1 : (processData s buf).1.cfg.failByDrop = true := by rw [w4]; exact hf
          rcases w5 with e | d
          · by_cases hgo : (processData s (buf ++ b)).2.2 = true ∧ (processData s (buf ++ b)).1.st ≠ .closed
            · have hT := processData_true s (buf ++ b) hwf hf hst hgo.1
              have hTq := processData_true (processData s buf).1 ((processData s buf).2.1 ++ b) w3 hf1 w2
                (by rw [e]; exact hgo.1)
              rw [drain_go F3 s (buf ++ b) hwc hgo.1 hgo.2,
                drain_go F2 _ _ hwc1 (by rw [e]; exact hgo.1) (by rw [e]; exact hgo.2), e]
              rw [e] at hTq
              refine Or.inl (drain_fuel F2 F3 _ _ hT.2.1 ?_ hgo.2 (by omega) (by omega))
              rw [(processData_Ext s (buf ++ b)).cfg]; exact hf
            · have hstop : ∀ F, drain (F + 1) s (buf ++ b)
                  = ((processData s (buf ++ b)).1, (processData s (buf ++ b)).2.1) := by
                intro F
                by_cases hx : (processData s (buf ++ b)).2.2 = true
                · have : (processData s (buf ++ b)).1.st = .closed := by
                    apply Classical.byContradiction; intro hy; exact hgo ⟨hx, hy⟩
                  exact drain_stop_closed F _ _ hwc this
                · exact drain_stop_flag F _ _ hwc (by simpa using hx)
              have hstop2 : drain (F2 + 1) (processData s buf).1 ((processData s buf).2.1 ++ b)
                  = ((processData s (buf ++ b)).1, (processData s (buf ++ b)).2.1) := by
                by_cases hx : (processData s (buf ++ b)).2.2 = true
                · have : (processData s (buf ++ b)).1.st = .closed := by
                    apply Classical.byContradiction; intro hy; exact hgo ⟨hx, hy⟩
                  rw [drain_stop_closed F2 _ _ hwc1 (by rw [e]; exact this), e]
                · rw [drain_stop_flag F2 _ _ hwc1 (by rw [e]; simpa using hx), e]
              rw [hstop F3, hstop2]
              exact Or.inl rfl
          · rw [drain_stop_closed F2 _ _ hwc1 d.1, drain_stop_closed F3 _ _ hwc d.2.1]
            exact Or.inr d

end Abverif.Ws
