import Abverif.Proofs.Lemmas.SchemaRoles
/-
Lookups in the options dictionary written by `Schema.marshalDict`.
-/
namespace Abverif.Wamp
open Schema

theorem marshalOpt_keys (m : Msg) (s : OptStep) : ∀ k ∈ (marshalOpt m s).map (·.1), k = s.key := by
  intro k hk
  unfold marshalOpt at hk
  split at hk <;> simp_all

theorem get?_flatMap_not_mem (m : Msg) (tl : Dict) (k : Str) :
    ∀ (opts : List OptStep), k ∉ opts.map (·.key) →
      Dict.get? (opts.flatMap (marshalOpt m) ++ tl) k = Dict.get? tl k := by
  intro opts
  induction opts with
  | nil => intro _; rfl
  | cons h t ih =>
    intro hk
    simp only [List.map_cons, List.mem_cons, not_or] at hk
    rw [List.flatMap_cons, List.append_assoc]
    rw [Dict.get?_append_of_not_mem]
    · exact ih hk.2
    · intro hmem
      exact hk.1 (marshalOpt_keys m h k hmem)

theorem get?_flatMap_mem (m : Msg) (tl : Dict) :
    ∀ (opts : List OptStep) (s : OptStep), s ∈ opts → (opts.map (·.key)).Nodup →
      Dict.get? (opts.flatMap (marshalOpt m) ++ tl) s.key =
        if s.mm.emits (m.get s.field) = true then some (s.ty.encode (m.get s.field))
        else Dict.get? tl s.key := by
  intro opts
  induction opts with
  | nil => intro s hs; simp at hs
  | cons h t ih =>
    intro s hs hnd
    simp only [List.map_cons, List.nodup_cons] at hnd
    rw [List.flatMap_cons, List.append_assoc]
    rcases List.mem_cons.mp hs with rfl | hst
    · -- the head is the step itself
      by_cases hem : s.mm.emits (m.get s.field) = true
      · have : marshalOpt m s = [(s.key, s.ty.encode (m.get s.field))] := by simp [marshalOpt, hem]
        rw [this, List.cons_append, Dict.get?_cons_self, if_pos hem]
      · have : marshalOpt m s = [] := by simp [marshalOpt, hem]
        rw [this, List.nil_append, if_neg hem]
        exact get?_flatMap_not_mem m tl s.key t hnd.1
    · have hne : h.key ≠ s.key := by
        intro e
        apply hnd.1
        rw [e]
        exact List.mem_map_of_mem hst
      rw [Dict.get?_append_of_not_mem]
      · exact ih s hst hnd.2
      · intro hmem
        exact hne (marshalOpt_keys m h _ hmem).symm

theorem encEntry_keys (m : Msg) (f : Str) : ∀ k ∈ (encEntry m f).map (·.1), k = f := by
  intro k hk
  unfold encEntry at hk
  split at hk <;> simp_all

theorem get?_encEntry_self (m : Msg) (f : Str) (tl : Dict) :
    Dict.get? (encEntry m f ++ tl) f = if (m.get f).isNull = false then some (m.get f) else Dict.get? tl f := by
  unfold encEntry
  by_cases h : (m.get f).isNull = true
  · simp [h]
  · simp only [h]
    simp [Dict.get?_cons_self]

theorem get?_encEntry_ne (m : Msg) {f k : Str} (tl : Dict) (h : f ≠ k) :
    Dict.get? (encEntry m f ++ tl) k = Dict.get? tl k :=
  Dict.get?_append_of_not_mem (fun hm => h (encEntry_keys m f k hm).symm)

/-- the `enc_*` entries `marshal` writes next to a payload -/
theorem marshalEnc_keys (m : Msg) : ∀ k ∈ (marshalEnc m).map (·.1), k ∈ encKeys := by
  intro k hk
  unfold marshalEnc at hk
  split at hk
  · simp only [List.map_append, List.mem_append] at hk
    rcases hk with h | h | h
    · simp [encKeys, encEntry_keys m _ k h]
    · simp [encKeys, encEntry_keys m _ k h]
    · simp [encKeys, encEntry_keys m _ k h]
  · simp at hk

theorem get?_marshalEnc_algo (m : Msg) :
    Dict.get? (marshalEnc m) cs!"enc_algo" =
      if (m.get cs!"payload").truthy = true ∧ (m.get cs!"enc_algo").isNull = false then some (m.get cs!"enc_algo") else none := by
  unfold marshalEnc
  by_cases hp : (m.get cs!"payload").truthy = true
  · simp only [hp, if_true, true_and]
    rw [get?_encEntry_self]
    split
    · rfl
    · rw [get?_encEntry_ne m _ (by decide), ← List.append_nil (encEntry m _), get?_encEntry_ne m _ (by decide)]
      rfl
  · simp [hp, Dict.get?]

theorem get?_marshalEnc_key (m : Msg) :
    Dict.get? (marshalEnc m) cs!"enc_key" =
      if (m.get cs!"payload").truthy = true ∧ (m.get cs!"enc_key").isNull = false then some (m.get cs!"enc_key") else none := by
  unfold marshalEnc
  by_cases hp : (m.get cs!"payload").truthy = true
  · simp only [hp, if_true, true_and]
    rw [get?_encEntry_ne m _ (by decide), get?_encEntry_self]
    split
    · rfl
    · rw [← List.append_nil (encEntry m _), get?_encEntry_ne m _ (by decide)]
      rfl
  · simp [hp, Dict.get?]

theorem get?_marshalEnc_ser (m : Msg) :
    Dict.get? (marshalEnc m) cs!"enc_serializer" =
      if (m.get cs!"payload").truthy = true ∧ (m.get cs!"enc_serializer").isNull = false then some (m.get cs!"enc_serializer") else none := by
  unfold marshalEnc
  by_cases hp : (m.get cs!"payload").truthy = true
  · simp only [hp, if_true, true_and]
    rw [get?_encEntry_ne m _ (by decide), get?_encEntry_ne m _ (by decide), ← List.append_nil (encEntry m _),
      get?_encEntry_self]
    split
    · rfl
    · rfl
  · simp [hp, Dict.get?]

end Abverif.Wamp
