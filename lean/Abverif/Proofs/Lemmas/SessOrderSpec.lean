import Abverif.Model.SessTrace
/-
The ordering part of the trace Spec (`SessTrace.stepCheck`, Twisted scheduling) as a function of six fields of the
reader's state: which violations of the clauses "callbacks and observers in order, each at most once per connection",
"onLeave exactly at session ends / aborted joins" and "a message illegal in the current phase is rejected" an observed
event produces depends on `up`, `welcomed`, `ended`, `rank`, `orank`, `owedLeave` only. `oStep` is that function;
`stepCheck_order` says the real Spec reports no violation of these clauses that `oStep` does not report.
-/
namespace Abverif.SessTrace
open Abverif.Session

/-- violations of the ordering / once-only / leave / gate clauses -/
def Viol.isOrder : Viol → Bool
  | .hookOrder _ | .obsOrder _ | .leaveUnexpected | .leaveMissing | .gate => true
  | _ => false

structure OS where
  up : Bool
  welcomed : Bool
  ended : Bool
  rank : Nat
  orank : Nat
  owedLeave : Nat
deriving DecidableEq, Repr

def Scan.os (σ : Scan) : OS :=
  { up := σ.up, welcomed := σ.welcomed, ended := σ.ended, rank := σ.rank, orank := σ.orank, owedLeave := σ.owedLeave }

/-- the ordering part of `scanOut` -/
def oScan (o : OS) : SOut → OS × List Viol
  | .hook h _ =>
    let r := hookRank h
    if r = 0 then (o, []) else
    let v1 := if r ≤ o.rank then [Viol.hookOrder h] else []
    let o := { o with rank := max r o.rank }
    if h = .onLeave then
      let o := { o with ended := true }
      if o.owedLeave = 0 then (o, v1 ++ [.leaveUnexpected])
      else ({ o with owedLeave := o.owedLeave - 1 }, v1)
    else (o, v1)
  | .fire e =>
    let r := obsRank e
    ({ o with orank := max r o.orank }, if r ≤ o.orank then [Viol.obsOrder e] else [])
  | .send m => if m.typ = .hello then ({ o with ended := false }, []) else (o, [])
  | _ => (o, [])

def oScans (o : OS) : List SOut → OS × List Viol
  | [] => (o, [])
  | x :: xs =>
    let r1 := oScan o x
    let r2 := oScans r1.1 xs
    (r2.1, r1.2 ++ r2.2)

/-- the ordering part of `preCheck` -/
def oPre (o : OS) (e : SEv) (vis : List SOut) : OS × List Viol :=
  match e with
  | .open_ _ => ({ o with up := true, welcomed := false, ended := false, rank := 0, orank := 0, owedLeave := 0 }, [])
  | .closed _ => ({ o with owedLeave := o.owedLeave + (if o.welcomed then 1 else 0) }, [])
  | .msg m beh =>
    if isIllegal o.welcomed o.ended m then (o, if vis = [.raise_ .protocolError] then [] else [.gate]) else
    match m with
    | .welcome _ => ({ o with welcomed := o.up && !(beh.headD {}).raises && (beh.headD {}).ret == .unit }, [])
    | .goodbye => ({ o with owedLeave := o.owedLeave + 1, welcomed := false }, [])
    | .abort => ({ o with owedLeave := o.owedLeave + 1 }, [])
    | .challenge => ({ o with owedLeave := o.owedLeave + (if (beh.headD {}).raises then 1 else 0) }, [])
    | _ => (o, [])
  | _ => (o, [])

/-- the ordering part of `stepCheck .sync` (the loop is idle after every event) -/
def oStep (o : OS) (e : SEv) (outs : List SOut) : OS × List Viol :=
  let vis := outs.filter visible
  let pre := oPre o e vis
  let r := oScans pre.1 vis
  let o2 : OS := { r.1 with owedLeave := 0 }
  let o3 : OS := match e with | .closed _ => { o2 with up := false, welcomed := false } | _ => o2
  (o3, pre.2 ++ r.2 ++ (if r.1.owedLeave > 0 then [.leaveMissing] else []))

/-! ### `scanOut` -/

theorem scanOut_os (σ : Scan) (x : SOut) :
    (scanOut σ x).1.os = (oScan σ.os x).1 ∧ ∀ v ∈ (scanOut σ x).2, v.isOrder = true → v ∈ (oScan σ.os x).2 := by
  cases x with
  | hook h a =>
    simp only [scanOut, oScan]
    by_cases h0 : hookRank h = 0
    · simp [h0]
    · simp only [h0, ↓reduceIte]
      by_cases hl : h = .onLeave
      · subst hl
        simp only [↓reduceIte, Scan.os]
        by_cases ho : σ.owedLeave = 0
        · simp [ho]
          intro v hv _
          rcases hv with ⟨hle, rfl⟩ | rfl
          · left; simp [hle]
          · right; rfl
        · simp [ho]
          intro hle _; simp [hle]
      · simp [hl, Scan.os]
        intro hle _; simp [hle]
  | fire e =>
    simp only [scanOut, oScan]
    by_cases he : e = .join
    · subst he; simp [Scan.os]
      intro hle _; simp [hle]
    · simp [he, Scan.os]
      intro hle _; simp [hle]
  | send m =>
    simp only [scanOut, oScan]
    split
    · next h => simp [h, Scan.os]
    · next h =>
      refine ⟨by simp [h, Scan.os], ?_⟩
      intro v hv hvo
      split at hv <;> simp at hv
      subst hv; simp [Viol.isOrder] at hvo
    · next h =>
      have hne : m.typ ≠ .hello := by rw [h]; decide
      simp only [hne, ↓reduceIte]
      split
      · split
        · refine ⟨rfl, ?_⟩; intro v hv hvo; simp at hv; subst hv; simp [Viol.isOrder] at hvo
        · refine ⟨rfl, ?_⟩; intro v hv hvo; split at hv <;> simp at hv; subst hv; simp [Viol.isOrder] at hvo
      · split
        · refine ⟨rfl, ?_⟩; intro v hv hvo; simp at hv; subst hv; simp [Viol.isOrder] at hvo
        · refine ⟨rfl, ?_⟩; intro v hv hvo; split at hv <;> simp at hv; subst hv; simp [Viol.isOrder] at hvo
    · next h =>
      have hne : m.typ ≠ .hello := by rw [h]; decide
      simp only [hne, ↓reduceIte]
      split
      · refine ⟨rfl, ?_⟩; intro v hv hvo; simp at hv; subst hv; simp [Viol.isOrder] at hvo
      · exact ⟨rfl, by simp⟩
    · next h1 h2 h3 h4 =>
      have hne : m.typ ≠ .hello := fun h => h1 h
      simp [hne]
  | ret f => simp [scanOut, oScan, Scan.os]
  | complete f o =>
    simp only [scanOut, oScan]
    split
    · split <;> simp [Scan.os]
    · simp [Scan.os]
  | _ => simp [scanOut, oScan]

theorem scanOuts_os (σ : Scan) (xs : List SOut) :
    (scanOuts σ xs).1.os = (oScans σ.os xs).1 ∧ ∀ v ∈ (scanOuts σ xs).2, v.isOrder = true → v ∈ (oScans σ.os xs).2 := by
  induction xs generalizing σ with
  | nil => simp [scanOuts, oScans]
  | cons x xs ih =>
    obtain ⟨h1, h2⟩ := scanOut_os σ x
    obtain ⟨i1, i2⟩ := ih (scanOut σ x).1
    simp only [scanOuts, oScans]
    rw [← h1]
    refine ⟨i1, ?_⟩
    intro v hv hvo
    rcases List.mem_append.mp hv with hv | hv
    · exact List.mem_append.mpr (Or.inl (h2 v hv hvo))
    · exact List.mem_append.mpr (Or.inr (i2 v hv hvo))

/-! ### `preCheck`, `stepCheck` -/

theorem not_order_of_mem_ite {c : Prop} [Decidable c] {w v : Viol} (hw : w.isOrder = false)
    (hv : v ∈ (if c then [] else [w])) (hvo : v.isOrder = true) : False := by
  split at hv
  · simp at hv
  · simp at hv; subst hv; simp [hw] at hvo

theorem vGoodbye_not_order (wasJoined wasGb replied : Bool) (v : Viol)
    (hv : v ∈ (if !wasJoined then [] else if !wasGb && !replied then [Viol.goodbyeUnanswered]
      else if wasGb && replied then [Viol.goodbyeEchoed] else [])) : v.isOrder = false := by
  split at hv
  · simp at hv
  · split at hv
    · simp at hv; subst hv; rfl
    · split at hv
      · simp at hv; subst hv; rfl
      · simp at hv

theorem noReply_not_order {c : Prop} [Decidable c] (l : List (ReqId × Owed)) (v : Viol)
    (hv : v ∈ if c then l.map (fun x => Viol.noReply x.1) else []) : v.isOrder = false := by
  split at hv
  · simp only [List.mem_map] at hv
    obtain ⟨x, _, rfl⟩ := hv
    rfl
  · simp at hv

theorem preCheck_os (σ : Scan) (e : SEv) (vis : List SOut) :
    (preCheck σ e vis).1.os = (oPre σ.os e vis).1 ∧
    ∀ v ∈ (preCheck σ e vis).2, v.isOrder = true → v ∈ (oPre σ.os e vis).2 := by
  cases e with
  | open_ acts => simp [preCheck, oPre, Scan.os]
  | closed acts => exact ⟨rfl, fun v hv _ => by simp [preCheck] at hv⟩
  | msg m beh =>
    by_cases hi : isIllegal σ.welcomed σ.ended m = true
    · have h1 : preCheck σ (.msg m beh) vis = (σ, if vis = [.raise_ .protocolError] then [] else [.gate]) := by
        simp only [preCheck, hi, ↓reduceIte]
      have h2 : oPre σ.os (.msg m beh) vis = (σ.os, if vis = [.raise_ .protocolError] then [] else [.gate]) := by
        have : isIllegal σ.os.welcomed σ.os.ended m = true := hi
        simp only [oPre, this, ↓reduceIte]
      rw [h1, h2]
      exact ⟨rfl, fun v hv _ => hv⟩
    · have hi0 : isIllegal σ.welcomed σ.ended m = false := by simpa using hi
      have hi' : isIllegal σ.os.welcomed σ.os.ended m = false := hi0
      simp only [preCheck, oPre, hi0, hi', Bool.false_eq_true, ↓reduceIte]
      cases m with
      | welcome sid => exact ⟨rfl, by simp⟩
      | goodbye => exact ⟨rfl, by simp⟩
      | abort => exact ⟨rfl, by simp⟩
      | challenge => exact ⟨rfl, by simp⟩
      | invocation req reg p rp =>
        simp only []
        split
        · exact ⟨rfl, fun v hv hvo => (not_order_of_mem_ite rfl hv hvo).elim⟩
        · split
          · exact ⟨rfl, fun v hv hvo => (not_order_of_mem_ite rfl hv hvo).elim⟩
          · split
            · refine ⟨?_, fun v hv hvo => (not_order_of_mem_ite rfl hv hvo).elim⟩
              simp only []
              split <;> (try split) <;> rfl
            · exact ⟨rfl, fun v hv hvo => (not_order_of_mem_ite rfl hv hvo).elim⟩
      | interrupt req =>
        simp only []
        split
        · split
          · exact ⟨rfl, by simp⟩
          · exact ⟨rfl, by simp⟩
        · exact ⟨rfl, by simp⟩
      | _ => exact ⟨rfl, by simp⟩
  | api a =>
    simp only [preCheck, oPre]
    split
    · exact ⟨rfl, fun v hv hvo => (not_order_of_mem_ite rfl hv hvo).elim⟩
    · split <;> exact ⟨rfl, by simp⟩
  | resolve req r =>
    simp only [preCheck, oPre]
    split <;> exact ⟨rfl, by simp⟩
  | fail req x =>
    simp only [preCheck, oPre]
    split <;> exact ⟨rfl, by simp⟩
  | pump => exact ⟨rfl, by simp [preCheck]⟩
  | tick => exact ⟨rfl, by simp [preCheck]⟩
  | fault l => exact ⟨rfl, by simp [preCheck]⟩
  | lateProgress r v => exact ⟨rfl, by simp [preCheck]⟩

/-- the Spec (Twisted scheduling) reports no violation of the ordering / leave / gate clauses that `oStep` does not
report, and the six fields evolve as `oStep` says -/
theorem stepCheck_order (σ : Scan) (e : SEv) (outs : List SOut) :
    (stepCheck .sync σ e outs).1.os = (oStep σ.os e outs).1 ∧
    ∀ v ∈ (stepCheck .sync σ e outs).2, v.isOrder = true → v ∈ (oStep σ.os e outs).2 := by
  obtain ⟨p1, p2⟩ := preCheck_os σ e (outs.filter visible)
  obtain ⟨s1, s2⟩ := scanOuts_os (preCheck σ e (outs.filter visible)).1 (outs.filter visible)
  rw [p1] at s1 s2
  have hq : quiet .sync e = true := by cases e <;> rfl
  constructor
  · simp only [stepCheck, oStep, hq, Bool.true_and, ↓reduceIte]
    rw [← s1]
    cases e <;> (simp only []; split <;> rfl)
  · intro v hv hvo
    simp only [stepCheck, hq, Bool.true_and, ↓reduceIte, List.mem_append] at hv
    simp only [oStep, List.mem_append]
    rcases hv with ((((hv | hv) | hv) | hv) | hv) | hv
    · exact Or.inl (Or.inl (p2 v hv hvo))
    · exact Or.inl (Or.inr (s2 v hv hvo))
    · -- the GOODBYE clauses are not ordering clauses
      exfalso
      cases e with
      | msg m beh =>
        cases m with
        | goodbye => have := vGoodbye_not_order _ _ _ v hv; simp [this] at hvo
        | _ => simp at hv
      | _ => simp at hv
    · right
      have : (scanOuts (preCheck σ e (outs.filter visible)).1 (outs.filter visible)).1.owedLeave =
          (oScans (oPre σ.os e (outs.filter visible)).1 (outs.filter visible)).1.owedLeave := by
        rw [← s1]; rfl
      rw [← this]
      simpa using hv
    · exfalso
      have hp : ∀ σ' : Scan, v ∈ stillPending σ' → False := by
        intro σ' h
        simp only [stillPending, List.mem_map] at h
        obtain ⟨f, _, rfl⟩ := h
        simp [Viol.isOrder] at hvo
      cases e with
      | closed acts => exact hp _ hv
      | msg m beh =>
        cases m with
        | goodbye =>
          simp only [] at hv
          split at hv
          · exact hp _ hv
          · simp at hv
        | abort =>
          simp only [] at hv
          split at hv
          · exact hp _ hv
          · simp at hv
        | _ => simp at hv
      | _ => simp at hv
    · have := noReply_not_order _ v hv
      simp [this] at hvo

/-- over a whole trace -/
def oCheckFrom : OS → Trace → List Viol
  | _, [] => []
  | o, (e, outs) :: rest => (oStep o e outs).2 ++ oCheckFrom (oStep o e outs).1 rest

theorem checkFrom_order (i : Nat) (σ : Scan) (tr : Trace) :
    ∀ iv ∈ checkFrom .sync i σ tr, iv.2.isOrder = true → iv.2 ∈ oCheckFrom σ.os tr := by
  induction tr generalizing i σ with
  | nil => simp [checkFrom]
  | cons x rest ih =>
    obtain ⟨e, outs⟩ := x
    obtain ⟨h1, h2⟩ := stepCheck_order σ e outs
    intro iv hiv hvo
    simp only [checkFrom, List.mem_append, List.mem_map] at hiv
    simp only [oCheckFrom, List.mem_append]
    rcases hiv with ⟨v, hv, rfl⟩ | hiv
    · exact Or.inl (h2 v hv hvo)
    · right
      rw [← h1]
      exact ih _ _ iv hiv hvo

end Abverif.SessTrace
