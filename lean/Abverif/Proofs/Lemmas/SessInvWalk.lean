import Abverif.Proofs.Lemmas.SessInv
/-
The state invariant `Inv` is preserved by every step of the model, and no step outputs a double completion
(`AlreadyCalled`) or an impossible branch (`Internal`): `step_inv`, `run_inv`.
-/
namespace Abverif.Session
open Abverif.SessCodes

/-! ### frame lemmas -/

@[simp] theorem setTbl_tbl_self (s : Sess) (k : Kind) (t : Table) : (s.setTbl k t).tbl k = t := by cases k <;> rfl
theorem setTbl_tbl_ne {k k' : Kind} (h : k' ≠ k) (s : Sess) (t : Table) : (s.setTbl k t).tbl k' = s.tbl k' := by
  cases k <;> cases k' <;> first | rfl | exact absurd rfl h
theorem setTbl_tbl (s : Sess) (k k' : Kind) (t : Table) : (s.setTbl k t).tbl k' = if k' = k then t else s.tbl k' := by
  by_cases h : k' = k
  · subst h; simp
  · simp [h, setTbl_tbl_ne h]
@[simp] theorem setTbl_subs (s : Sess) (k : Kind) (t : Table) : (s.setTbl k t).subs = s.subs := by cases k <;> rfl
@[simp] theorem setTbl_futs (s : Sess) (k : Kind) (t : Table) : (s.setTbl k t).futs = s.futs := by cases k <;> rfl
@[simp] theorem setTbl_issued (s : Sess) (k : Kind) (t : Table) : (s.setTbl k t).issued = s.issued := by cases k <;> rfl
@[simp] theorem setTbl_nextId (s : Sess) (k : Kind) (t : Table) : (s.setTbl k t).nextId = s.nextId := by cases k <;> rfl
@[simp] theorem setTbl_cbq (s : Sess) (k : Kind) (t : Table) : (s.setTbl k t).cbq = s.cbq := by cases k <;> rfl
@[simp] theorem setTbl_transport (s : Sess) (k : Kind) (t : Table) : (s.setTbl k t).transport = s.transport := by cases k <;> rfl
@[simp] theorem setTbl_mode (s : Sess) (k : Kind) (t : Table) : (s.setTbl k t).mode = s.mode := by cases k <;> rfl
@[simp] theorem setTbl_regs (s : Sess) (k : Kind) (t : Table) : (s.setTbl k t).regs = s.regs := by cases k <;> rfl

theorem called_eq (s : Sess) (f : Nat) : s.called f = (match s.futs[f]? with | some x => x.cell.isSome | none => false) := rfl

theorem Inv'.congr {s s' : Sess} (h : Inv' s) (ht : ∀ k, s'.tbl k = s.tbl k) (hs : s'.subs = s.subs)
    (hf : s'.futs = s.futs) (hi : s'.issued = s.issued) : Inv' s' := by
  refine ⟨h.keys.same hi (fun k => by rw [ht k]; exact List.Sublist.refl _), ?_, ?_, ?_⟩
  · intro x hx; exact h.count x (hf ▸ hx)
  · refine h.subs.of_le (by rw [hf]; exact Nat.le_refl _) (fun x => ?_)
    simp [occ, hs, ht]
  · refine h.futb.of (by rw [hf]; exact Nat.le_refl _) (fun k e he => Or.inl (ht k ▸ he))

/-- tables may shrink, attached handlers may shrink, futures may be rewritten in place keeping `Fut.ok` -/
theorem Inv'.shrink {s s' : Sess} (h : Inv' s) (hi : s'.issued = s.issued)
    (ht : ∀ k, (s'.tbl k).Sublist (s.tbl k)) (ho : ∀ x : Nat, (objsOf s'.subs).count x ≤ (objsOf s.subs).count x)
    (hl : s.futs.length ≤ s'.futs.length) (hc : ∀ x ∈ s'.futs, x.oldIn s ∨ x.ok) : Inv' s' := by
  refine ⟨h.keys.same hi (fun k => (ht k).map _), h.count.of_forall hc, ?_, ?_⟩
  · refine h.subs.of_le (by omega) (fun x => ?_)
    have := ((ht .subscribe).map (·.2.fut)).count_le x
    have := ho x
    simp only [occ, futsOf]; omega
  · exact h.futb.of (by omega) (fun k e he => Or.inl ((ht k).subset he))

theorem Clean.single {o : SOut} (h1 : o ≠ .raise_ .alreadyCalled) (h2 : o ≠ .caught .alreadyCalled)
    (h3 : o ≠ .raise_ .internal) (h4 : o ≠ .caught .internal) : Clean [o] := by
  intro x hx; simp at hx; subst hx; exact ⟨h1, h2, h3, h4⟩

theorem emitCb_fields (s : Sess) (o : SOut) :
    (∀ k, (emitCb s o).1.tbl k = s.tbl k) ∧ (emitCb s o).1.subs = s.subs ∧ (emitCb s o).1.futs = s.futs ∧
    (emitCb s o).1.issued = s.issued ∧ ((emitCb s o).2 = [o] ∨ (emitCb s o).2 = []) := by
  unfold emitCb; split
  · simp
  · refine ⟨fun k => by cases k <;> rfl, rfl, rfl, rfl, Or.inr rfl⟩

theorem emitCb_inv {s : Sess} (h : Inv s) {o : SOut} (ho : reqIdOf o = none) (hc : Clean [o]) :
    InvRel s (emitCb s o).2 (emitCb s o).1 := by
  obtain ⟨f1, f2, f3, f4, f5⟩ := emitCb_fields s o
  refine ⟨emitCb_idrel h.1 ho, h.2.congr f1 f2 f3 f4, ?_, by rw [f3]; exact Nat.le_refl _⟩
  rcases f5 with e | e <;> rw [e]
  · exact hc
  · exact Clean.nil

/-- a state update that touches none of the fields the invariants read, followed by `t` -/
theorem InvRel.congr_left {s s1 s' : Sess} {o : List SOut} (hi : s.issued = s1.issued) (hl : s.futs.length = s1.futs.length)
    (r : InvRel s1 o s') : InvRel s o s' :=
  ⟨IdRel.congr_left hi r.1, r.2.1, r.2.2.1, hl ▸ r.2.2.2⟩

theorem out_inv {s : Sess} (h : Inv s) {os : List SOut} (ho : reqIds os = []) (hc : Clean os) : InvRel s os s :=
  ⟨out_idrel h.1 ho, h.2, hc, Nat.le_refl _⟩

theorem settle_open {s : Sess} {f : Nat} {x : Fut} (hx : s.futs[f]? = some x) (hc : x.cell.isSome = false) (o : Outcome) :
    settle s f o =
      if x.watched then
        ((emitCb { s with futs := s.futs.set f { x with cell := some o, count := x.count + 1 } } (.callback f o)).1,
         .complete f o :: (emitCb { s with futs := s.futs.set f { x with cell := some o, count := x.count + 1 } } (.callback f o)).2)
      else ({ s with futs := s.futs.set f { x with cell := some o, count := x.count + 1 } }, [.complete f o]) := by
  simp [settle, hx, hc]

theorem settle_inv {s : Sess} (h : Inv s) {f : Nat} (hf : f < s.futs.length) (hc : s.called f = false) (o : Outcome) :
    InvRel s (settle s f o).2 (settle s f o).1 := by
  refine ⟨settle_idrel h.1 f o, ?_⟩
  have hx : s.futs[f]? = some s.futs[f] := by simp [hf]
  rw [called_eq, hx] at hc
  simp only at hc
  have hok := h.2.count _ (List.getElem_mem hf)
  have hcnt : s.futs[f].count = 0 := by simpa [Fut.ok, hc] using hok
  rw [settle_open hx hc]
  have hnew : Fut.ok { s.futs[f] with cell := some o, count := s.futs[f].count + 1 } := by simp [Fut.ok, hcnt]
  have key : Inv' { s with futs := s.futs.set f { s.futs[f] with cell := some o, count := s.futs[f].count + 1 } } := by
    refine h.2.shrink rfl (fun k => by cases k <;> exact List.Sublist.refl _) (fun x => Nat.le_refl _) (by simp) ?_
    intro x hx'
    simp only at hx'
    rcases List.mem_or_eq_of_mem_set hx' with h1 | h1
    · exact Or.inl (Fut.oldIn_of_mem h1)
    · exact Or.inr (h1 ▸ hnew)
  have hcl : Clean [SOut.complete f o] := Clean.single (by simp) (by simp) (by simp) (by simp)
  split
  · have e := emitCb_fields { s with futs := s.futs.set f { s.futs[f] with cell := some o, count := s.futs[f].count + 1 } } (.callback f o)
    obtain ⟨f1, f2, f3, f4, f5⟩ := e
    refine ⟨Inv'.congr key f1 f2 f3 f4, ?_, by rw [f3]; simp⟩
    rcases f5 with e | e <;> simp only [e]
    · exact hcl.append (Clean.single (by simp) (by simp) (by simp) (by simp))
    · exact hcl
  · exact ⟨key, hcl, by simp⟩


/-! ### the request APIs -/

theorem mem_aset {β : Type} {k : Nat} {v : β} {l : List (Nat × β)} {e : Nat × β} (h : e ∈ aset k v l) :
    e ∈ l ∨ e = (k, v) := by
  simp only [aset, List.mem_append, List.mem_singleton] at h
  rcases h with h | h
  · exact Or.inl (mem_adel h).1
  · exact Or.inr h

@[simp] theorem drawId_tbl (s : Sess) (k : Kind) : s.drawId.1.tbl k = s.tbl k := by cases k <;> rfl
@[simp] theorem drawId_subs (s : Sess) : s.drawId.1.subs = s.subs := rfl
@[simp] theorem drawId_futs (s : Sess) : s.drawId.1.futs = s.futs := rfl
@[simp] theorem drawId_issued (s : Sess) : s.drawId.1.issued = s.issued + 1 := rfl
@[simp] theorem drawId_cbq (s : Sess) : s.drawId.1.cbq = s.cbq := rfl
@[simp] theorem drawId_nextId (s : Sess) : s.drawId.1.nextId = s.drawId.2 := rfl
@[simp] theorem newFut_tbl (s : Sess) (k k' : Kind) : (s.newFut k).1.tbl k' = s.tbl k' := by cases k' <;> rfl
@[simp] theorem newFut_subs (s : Sess) (k : Kind) : (s.newFut k).1.subs = s.subs := rfl
@[simp] theorem newFut_futs (s : Sess) (k : Kind) : (s.newFut k).1.futs = s.futs ++ [{ kind := k }] := rfl
@[simp] theorem newFut_issued (s : Sess) (k : Kind) : (s.newFut k).1.issued = s.issued := rfl
@[simp] theorem newFut_cbq (s : Sess) (k : Kind) : (s.newFut k).1.cbq = s.cbq := rfl
@[simp] theorem newFut_nextId (s : Sess) (k : Kind) : (s.newFut k).1.nextId = s.nextId := rfl
@[simp] theorem newFut_snd (s : Sess) (k : Kind) : (s.newFut k).2 = s.futs.length := rfl
@[simp] theorem unwatch_tbl (s : Sess) (f : Nat) (k : Kind) : (s.unwatch f).tbl k = s.tbl k := by
  unfold Sess.unwatch; split <;> cases k <;> rfl
@[simp] theorem unwatch_subs (s : Sess) (f : Nat) : (s.unwatch f).subs = s.subs := by unfold Sess.unwatch; split <;> rfl
@[simp] theorem unwatch_issued (s : Sess) (f : Nat) : (s.unwatch f).issued = s.issued := by unfold Sess.unwatch; split <;> rfl
@[simp] theorem unwatch_cbq (s : Sess) (f : Nat) : (s.unwatch f).cbq = s.cbq := by unfold Sess.unwatch; split <;> rfl
@[simp] theorem unwatch_nextId (s : Sess) (f : Nat) : (s.unwatch f).nextId = s.nextId := by unfold Sess.unwatch; split <;> rfl
@[simp] theorem unwatch_futs_length (s : Sess) (f : Nat) : (s.unwatch f).futs.length = s.futs.length := by
  unfold Sess.unwatch; split <;> simp
theorem unwatch_futs_ok (s : Sess) (f : Nat) : ∀ x ∈ (s.unwatch f).futs, x ∈ s.futs ∨ ∃ y ∈ s.futs, x = { y with watched := false } := by
  unfold Sess.unwatch; split
  · next y hy =>
    intro x hx
    rcases List.mem_or_eq_of_mem_set hx with h | h
    · exact Or.inl h
    · exact Or.inr ⟨y, List.mem_of_getElem? hy, h⟩
  · intro x hx; exact Or.inl hx

theorem sendReq_ok (s : Sess) (k : Kind) (id : ReqId) (m : OutMsg) (f : Option FutId) (keep : Bool) :
    sendReq s k id m f keep .ok = (s, [.send m, match f with | some f => .ret f | none => .retNone]) := rfl
theorem sendReq_fail_keep (s : Sess) (k : Kind) (id : ReqId) (m : OutMsg) (f : FutId) :
    sendReq s k id m (some f) true .raises = (s.unwatch f, [.send m, .raise_ .sendFailed]) := rfl
theorem sendReq_fail_forget (s : Sess) (k : Kind) (id : ReqId) (m : OutMsg) (f : FutId) :
    sendReq s k id m (some f) false .raises =
      ((s.unwatch f).setTbl k (adel id ((s.unwatch f).tbl k)), [.send m, .raise_ .sendFailed]) := rfl

theorem request_idrel {s : Sess} (h : IdInv s) (k : Kind) (mkReq : FutId → Req) (mkMsg : ReqId → OutMsg)
    (hm : ∀ id, isReqType (mkMsg id).typ = true ∧ (mkMsg id).req = id) (keep : Bool) (snd : SendRes) :
    IdRel s (request s k mkReq mkMsg keep snd).2 (request s k mkReq mkMsg keep snd).1 := by
  have hq := h.2
  have := hm s.drawId.2
  cases snd <;> cases keep <;> refine IdRel.of_draw h ?_ ?_ ?_ ?_ <;>
    simp [request, sendReq_ok, sendReq_fail_keep, sendReq_fail_forget, reqIds, reqIdOf, this] <;> exact hq

/-- the fields of the state after a request API -/
theorem request_fields (s : Sess) (k : Kind) (mkReq : FutId → Req) (mkMsg : ReqId → OutMsg) (keep : Bool) (snd : SendRes) :
    (request s k mkReq mkMsg keep snd).1.issued = s.issued + 1 ∧ (request s k mkReq mkMsg keep snd).1.subs = s.subs ∧
      (request s k mkReq mkMsg keep snd).1.futs.length = s.futs.length + 1 ∧
      (∀ x ∈ (request s k mkReq mkMsg keep snd).1.futs, x.oldIn s ∨ x.ok) ∧
      ((request s k mkReq mkMsg keep snd).1.tbl k).Sublist (aset s.drawId.2 (mkReq s.futs.length) (s.tbl k)) ∧
      (∀ k', k' ≠ k → (request s k mkReq mkMsg keep snd).1.tbl k' = s.tbl k') := by
  have hnew : ∀ x ∈ s.futs ++ [({ kind := k } : Fut)], x.oldIn s ∨ x.ok := by
    intro x hx
    rcases List.mem_append.mp hx with h | h
    · exact Or.inl (Fut.oldIn_of_mem h)
    · simp at h; subst h; exact Or.inr (by simp [Fut.ok])
  have hnew' : ∀ (t : Table) (f : Nat), ∀ x ∈ (((s.drawId.1.newFut k).1.setTbl k t).unwatch f).futs, x.oldIn s ∨ x.ok := by
    intro t f x hx
    have e1 : ((s.drawId.1.newFut k).1.setTbl k t).futs = s.futs ++ [({ kind := k } : Fut)] := by simp
    rcases unwatch_futs_ok _ f x hx with h | ⟨y, hy, rfl⟩
    · exact hnew x (e1 ▸ h)
    · rcases hnew y (e1 ▸ hy) with ⟨z, hz, e2, e3⟩ | h
      · exact Or.inl ⟨z, hz, e2, e3⟩
      · exact Or.inr (by simpa [Fut.ok] using h)
  cases snd <;> cases keep <;>
    simp only [request, sendReq_ok, sendReq_fail_keep, sendReq_fail_forget]
  · refine ⟨by simp, by simp, by simp, fun x hx => hnew x (by simpa using hx), by simp, fun k' hk' => by simp [setTbl_tbl_ne hk']⟩
  · refine ⟨by simp, by simp, by simp, fun x hx => hnew x (by simpa using hx), by simp, fun k' hk' => by simp [setTbl_tbl_ne hk']⟩
  · refine ⟨by simp, by simp, by simp, fun x hx => hnew' _ _ x (by simpa using hx), ?_, fun k' hk' => by simp [setTbl_tbl_ne hk']⟩
    simp only [setTbl_tbl_self, unwatch_tbl, newFut_tbl, drawId_tbl, newFut_snd, drawId_futs]
    exact adel_sublist _ _
  · refine ⟨by simp, by simp, by simp, fun x hx => hnew' _ _ x hx, by simp, fun k' hk' => by simp [setTbl_tbl_ne hk']⟩

theorem request_inv {s : Sess} (h : Inv s) (k : Kind) (mkReq : FutId → Req) (mkMsg : ReqId → OutMsg)
    (hr : ∀ f, (mkReq f).fut = f) (hm : ∀ id, isReqType (mkMsg id).typ = true ∧ (mkMsg id).req = id)
    (keep : Bool) (snd : SendRes) :
    InvRel s (request s k mkReq mkMsg keep snd).2 (request s k mkReq mkMsg keep snd).1 := by
  refine ⟨request_idrel h.1 k mkReq mkMsg hm keep snd, ?_⟩
  have hid := drawId_id s h.1
  obtain ⟨hi, hs, hl, hc, ht0, ht⟩ := request_fields s k mkReq mkMsg keep snd
  rw [hid] at ht0
  refine ⟨⟨?_, h.2.count.of_forall hc, ?_, ?_⟩, ?_, by omega⟩
  · refine h.2.keys.draw hi k ?_ (fun k' hk' => by rw [ht k' hk']; exact List.Sublist.refl _)
    exact List.Sublist.trans (ht0.map _ : (akeys _).Sublist (akeys _)) (akeys_aset_sublist _ _ _)
  · refine h.2.subs.of_new hl (fun x => ?_)
    simp only [occ, hs]
    by_cases hk : k = .subscribe
    · subst hk
      have h1 := ((ht0.map (·.2.fut)).count_le x)
      have h2 := count_futsOf_aset x (idOf s.issued) (mkReq s.futs.length) (s.tbl .subscribe)
      rw [hr] at h2
      simp only [futsOf] at h2 ⊢
      omega
    · rw [ht _ (Ne.symm hk)]; omega
  · intro k' e' he'
    by_cases hk : k' = k
    · subst hk
      rcases mem_aset (ht0.subset he') with h1 | h1
      · exact Nat.lt_of_lt_of_le (h.2.futb k' e' h1) (by omega)
      · subst h1; simp only [hr]; exact Nat.lt_of_lt_of_le (Nat.lt_succ_self _) (by omega)
    · rw [ht k' hk] at he'
      exact Nat.lt_of_lt_of_le (h.2.futb k' e' he') (by omega)
  · cases snd <;> cases keep <;> simp only [request, sendReq_ok, sendReq_fail_keep, sendReq_fail_forget] <;>
      intro x hx <;> simp at hx <;> rcases hx with hx | hx <;> subst hx <;> simp


theorem aupd_of_none {β : Type} {k : Nat} (v : β) {l : List (Nat × β)} (h : alookup k l = none) : aupd k v l = l := by
  induction l with
  | nil => rfl
  | cons e t ih =>
    obtain ⟨k', v'⟩ := e
    simp only [alookup_cons] at h
    split at h
    · simp at h
    · next hk => simp [aupd, hk, ih h]

theorem count_objsOf_aupd_le (x : Nat) (subs : List (SubId × List SubRec)) (sid : SubId) {l' : List SubRec}
    (hs : l'.Sublist ((alookup sid subs).getD [])) :
    (objsOf (aupd sid l' subs)).count x ≤ (objsOf subs).count x := by
  cases h : alookup sid subs with
  | none => rw [aupd_of_none _ h]; exact Nat.le_refl _
  | some l => rw [h] at hs; exact count_objsOf_aupd_sublist x subs sid h hs

theorem out1_clean_raise {e : Exc} (h1 : e ≠ .alreadyCalled) (h2 : e ≠ .internal) : Clean [SOut.raise_ e] :=
  Clean.single (by simpa using h1) (by simp) (by simpa using h2) (by simp)

theorem raise_inv {s : Sess} (h : Inv s) {e : Exc} (h1 : e ≠ .alreadyCalled) (h2 : e ≠ .internal) :
    InvRel s [.raise_ e] s := out_inv h rfl (out1_clean_raise h1 h2)

theorem futureSuccess_inv {s : Sess} (h : Inv s) (k : Kind) (o : Outcome) :
    InvRel s (futureSuccess s k o).2 (futureSuccess s k o).1 := by
  have hq := h.1.2
  unfold futureSuccess
  obtain ⟨f1, f2, f3, f4, f5⟩ := emitCb_fields { s with futs := s.futs ++ [{ kind := k, cell := some o, count := 1 }] }
    (.callback s.futs.length o)
  refine ⟨?_, ?_, ?_, ?_⟩
  · refine IdRel.of_same h.1 ?_ ?_ ?_ ?_ <;> id_frame
  · refine Inv'.congr (s := { s with futs := s.futs ++ [{ kind := k, cell := some o, count := 1 }] }) ?_ f1 f2 f3 f4
    refine h.2.shrink rfl (fun k => by cases k <;> exact List.Sublist.refl _) (fun x => Nat.le_refl _) (by simp) ?_
    intro x hx
    rcases List.mem_append.mp hx with hx | hx
    · exact Or.inl (Fut.oldIn_of_mem hx)
    · simp at hx; subst hx; exact Or.inr (by simp [Fut.ok])
  · simp only []
    rcases f5 with e | e <;> rw [e] <;> exact Clean.of_all (by simp [cleanB])
  · simp only []; rw [f3]; simp

theorem apiStep_inv {s : Sess} (a : Api) (h : Inv s) : InvRel s (apiStep s a).2 (apiStep s a).1 := by
  cases a with
  | call u a k o r =>
    simp only [apiStep, apiCall]
    split
    · exact raise_inv h (by simp) (by simp)
    · exact request_inv h _ _ _ (fun _ => rfl) (fun _ => ⟨rfl, rfl⟩) _ _
  | publish u a k o r =>
    simp only [apiStep, apiPublish]
    split
    · exact raise_inv h (by simp) (by simp)
    · split
      · exact request_inv h _ _ _ (fun _ => rfl) (fun _ => ⟨rfl, rfl⟩) _ _
      · refine ⟨apiStep_idrel_publish_noack h.1 u a k o r, ?_⟩
        have hid := drawId_id s h.1
        cases r
        · rw [sendReq_ok]
          refine ⟨⟨h.2.keys.draw (k0 := .publish) (by simp) (by simp)
              (fun k _ => by simp), fun x hx => h.2.count x hx, ?_, ?_⟩, ?_, Nat.le_refl _⟩
          · exact h.2.subs.of_le (Nat.le_refl _) (fun x => by simp [occ])
          · exact h.2.futb.of (Nat.le_refl _) (fun k e he => Or.inl (by simpa using he))
          · intro x hx; simp at hx; rcases hx with hx | hx <;> subst hx <;> simp
        · simp only [sendReq]
          refine ⟨⟨h.2.keys.draw (k0 := .publish) (by simp) ?_ (fun k hk => by simp [setTbl_tbl_ne hk]),
              fun x hx => h.2.count x (by simpa using hx), ?_, ?_⟩, ?_, by simp⟩
          · simp only [setTbl_tbl_self, drawId_tbl]
            exact (akeys_adel_sublist _ _).trans (List.sublist_append_left _ _)
          · refine h.2.subs.of_le (by simp) (fun x => ?_)
            simp only [occ, setTbl_subs, drawId_subs, setTbl_tbl_ne (show Kind.subscribe ≠ Kind.publish by decide), drawId_tbl]
            exact Nat.le_refl _
          · refine h.2.futb.of (by simp) (fun k e he => Or.inl ?_)
            by_cases hk : k = .publish
            · subst hk; simp only [setTbl_tbl_self, drawId_tbl] at he; exact (mem_adel he).1
            · simpa [setTbl_tbl_ne hk] using he
          · intro x hx; simp at hx; rcases hx with hx | hx <;> subst hx <;> simp
  | subscribe hh t o r =>
    simp only [apiStep, apiSubscribe]
    split
    · exact raise_inv h (by simp) (by simp)
    · exact request_inv h _ _ _ (fun _ => rfl) (fun _ => ⟨rfl, rfl⟩) _ _
  | register hh t o r =>
    simp only [apiStep, apiRegister]
    split
    · exact raise_inv h (by simp) (by simp)
    · exact request_inv h _ _ _ (fun _ => rfl) (fun _ => ⟨rfl, rfl⟩) _ _
  | unsubscribe obj r =>
    simp only [apiStep, apiUnsubscribe]
    split
    · exact raise_inv h (by simp) (by simp)
    · next sid _ =>
      split
      · exact raise_inv h (by simp) (by simp)
      · have h1 : Inv { s with subs := aupd sid (removeObj obj ((alookup sid s.subs).getD [])) s.subs } := by
          refine ⟨h.1.congr rfl rfl rfl, h.2.shrink rfl (fun k => by cases k <;> exact List.Sublist.refl _) (fun x => ?_) (Nat.le_refl _)
            (fun x hx => Or.inl (Fut.oldIn_of_mem hx))⟩
          exact count_objsOf_aupd_le x s.subs sid (removeObj_sublist _ _)
        split
        · exact InvRel.congr_left rfl rfl (request_inv h1 _ _ _ (fun _ => rfl) (fun _ => ⟨rfl, rfl⟩) _ _)
        · exact InvRel.congr_left rfl rfl (futureSuccess_inv h1 _ _)
  | unregister obj r =>
    simp only [apiStep, apiUnregister]
    split
    · exact raise_inv h (by simp) (by simp)
    · split
      · exact raise_inv h (by simp) (by simp)
      · exact request_inv h _ _ _ (fun _ => rfl) (fun _ => ⟨rfl, rfl⟩) _ _
  | cancel f =>
    have hq := h.1.2
    refine ⟨apiStep_idrel (.cancel f) h.1, ?_⟩
    simp only [apiStep, apiCancel]
    split
    · exact ⟨h.2, Clean.of_all (by simp [cleanB]), Nat.le_refl _⟩
    · next x hx =>
      split
      · exact ⟨h.2, Clean.nil, Nat.le_refl _⟩
      · next hc =>
        split
        · exact ⟨h.2, Clean.of_all (by simp [cleanB]), Nat.le_refl _⟩
        · have hmem : x ∈ s.futs := List.mem_of_getElem? hx
          have hcnt : x.count = 0 := by
            have := h.2.count x hmem
            simpa [Fut.ok, hc] using this
          have key : Inv' { s with futs := s.futs.set f { x with cell := some .cancelled, count := x.count + 1 } } := by
            refine h.2.shrink rfl (fun k => by cases k <;> exact List.Sublist.refl _) (fun x => Nat.le_refl _) (by simp) ?_
            intro y hy
            rcases List.mem_or_eq_of_mem_set hy with hy | hy
            · exact Or.inl (Fut.oldIn_of_mem hy)
            · subst hy; exact Or.inr (by simp [Fut.ok, hcnt])
          have hmsgs : Clean (cancelMsgs s f x.kind) := by
            unfold cancelMsgs; split
            · split <;> exact Clean.of_all (by simp [cleanB])
            · exact Clean.nil
          unfold cancelDo
          split
          · exact ⟨key, hmsgs.append (Clean.of_all (by simp [cleanB])), by simp⟩
          · exact ⟨Inv'.congr key (fun k => by cases k <;> rfl) rfl rfl rfl, Clean.of_all (by simp [cleanB]), by simp⟩
  | join =>
    simp only [apiStep, apiJoin]
    split
    · exact raise_inv h (by simp) (by simp)
    · split
      · exact raise_inv h (by simp) (by simp)
      · exact ⟨IdRel.of_same h.1 rfl rfl h.1.2 rfl, h.2.congr (fun k => by cases k <;> rfl) rfl rfl rfl,
          Clean.single (by simp) (by simp) (by simp) (by simp), Nat.le_refl _⟩
  | leave =>
    simp only [apiStep, apiLeave]
    split
    · exact InvRel.refl h
    · split
      · exact InvRel.refl h
      · exact ⟨IdRel.of_same h.1 rfl rfl h.1.2 rfl, h.2.congr (fun k => by cases k <;> rfl) rfl rfl rfl,
          Clean.single (by simp) (by simp) (by simp) (by simp), Nat.le_refl _⟩

end Abverif.Session
