import Abverif.Proofs.Lemmas.SessInv
/-
The state invariant `Inv` is preserved by every step of the model, and no step outputs a double completion
(`AlreadyCalled`) or an impossible branch (`Internal`): `step_inv`, `run_inv`.
-/
namespace Abverif.Session
open Abverif.SessCodes

/-! ### frame lemmas -/

@[simp] theorem setTbl_tbl_self (s : Sess) (k : Kind) (t : Table) : (s.setTbl k t).tbl k = t := by cases k <;> rfl
theorem setTbl_tbl_ne {k k' : Kind} (h : k' ≠ k) (s : Sess) (t : Table) : (s.setTbl k t).tbl k' = s.tbl k' := by
  cases k <;> cases k' <;> first | rfl | exact absurd rfl h
theorem setTbl_tbl (s : Sess) (k k' : Kind) (t : Table) : (s.setTbl k t).tbl k' = if k' = k then t else s.tbl k' := by
  by_cases h : k' = k
  · subst h; simp
  · simp [h, setTbl_tbl_ne h]
@[simp] theorem setTbl_subs (s : Sess) (k : Kind) (t : Table) : (s.setTbl k t).subs = s.subs := by cases k <;> rfl
@[simp] theorem setTbl_futs (s : Sess) (k : Kind) (t : Table) : (s.setTbl k t).futs = s.futs := by cases k <;> rfl
@[simp] theorem setTbl_issued (s : Sess) (k : Kind) (t : Table) : (s.setTbl k t).issued = s.issued := by cases k <;> rfl
@[simp] theorem setTbl_nextId (s : Sess) (k : Kind) (t : Table) : (s.setTbl k t).nextId = s.nextId := by cases k <;> rfl
@[simp] theorem setTbl_cbq (s : Sess) (k : Kind) (t : Table) : (s.setTbl k t).cbq = s.cbq := by cases k <;> rfl
@[simp] theorem setTbl_transport (s : Sess) (k : Kind) (t : Table) : (s.setTbl k t).transport = s.transport := by cases k <;> rfl
@[simp] theorem setTbl_mode (s : Sess) (k : Kind) (t : Table) : (s.setTbl k t).mode = s.mode := by cases k <;> rfl
@[simp] theorem setTbl_regs (s : Sess) (k : Kind) (t : Table) : (s.setTbl k t).regs = s.regs := by cases k <;> rfl

theorem called_eq (s : Sess) (f : Nat) : s.called f = (match s.futs[f]? with | some x => x.cell.isSome | none => false) := rfl

theorem Inv'.congr {s s' : Sess} (h : Inv' s) (ht : ∀ k, s'.tbl k = s.tbl k) (hs : s'.subs = s.subs)
    (hf : s'.futs = s.futs) (hi : s'.issued = s.issued) (hq : CbqOk s') : Inv' s' := by
  refine ⟨h.keys.same hi (fun k => by rw [ht k]; exact List.Sublist.refl _), ?_, ?_, ?_, hq⟩
  · intro x hx; exact h.count x (hf ▸ hx)
  · refine h.subs.of_le (by rw [hf]; exact Nat.le_refl _) (fun x => ?_)
    simp [occ, hs, ht]
  · refine h.futb.of (by rw [hf]; exact Nat.le_refl _) (fun k e he => Or.inl (ht k ▸ he))

/-- tables may shrink, attached handlers may shrink, futures may be rewritten in place keeping `Fut.ok` -/
theorem Inv'.shrink {s s' : Sess} (h : Inv' s) (hi : s'.issued = s.issued)
    (ht : ∀ k, (s'.tbl k).Sublist (s.tbl k)) (ho : ∀ x : Nat, (objsOf s'.subs).count x ≤ (objsOf s.subs).count x)
    (hl : s.futs.length ≤ s'.futs.length) (hc : ∀ x ∈ s'.futs, x.oldIn s ∨ x.ok) (hq : CbqOk s') : Inv' s' := by
  refine ⟨h.keys.same hi (fun k => (ht k).map _), h.count.of_forall hc, ?_, ?_, hq⟩
  · refine h.subs.of_le (by omega) (fun x => ?_)
    have := ((ht .subscribe).map (·.2.fut)).count_le x
    have := ho x
    simp only [occ, futsOf]; omega
  · exact h.futb.of (by omega) (fun k e he => Or.inl ((ht k).subset he))

theorem Clean.single {o : SOut} (h1 : o ≠ .raise_ .alreadyCalled) (h2 : o ≠ .caught .alreadyCalled)
    (h3 : o ≠ .raise_ .internal) (h4 : o ≠ .caught .internal) : Clean [o] := by
  intro x hx; simp at hx; subst hx; exact ⟨h1, h2, h3, h4⟩

theorem emitCb_fields (s : Sess) (o : SOut) :
    (∀ k, (emitCb s o).1.tbl k = s.tbl k) ∧ (emitCb s o).1.subs = s.subs ∧ (emitCb s o).1.futs = s.futs ∧
    (emitCb s o).1.issued = s.issued ∧ ((emitCb s o).2 = [o] ∨ (emitCb s o).2 = []) ∧
    ((emitCb s o).1.cbq = s.cbq ∨ (emitCb s o).1.cbq = s.cbq ++ [o]) := by
  unfold emitCb; split
  · simp
  · refine ⟨fun k => by cases k <;> rfl, rfl, rfl, rfl, Or.inr rfl, Or.inr rfl⟩

theorem emitCb_cbq {s : Sess} (h : CbqOk s) {o : SOut} (hq : cleanB o = true ∧ isInvoke o = false) : CbqOk (emitCb s o).1 := by
  obtain ⟨_, _, _, _, _, f6⟩ := emitCb_fields s o
  rcases f6 with e | e <;> rw [CbqOk, e]
  · exact h
  · intro x hx
    rcases List.mem_append.mp hx with hx | hx
    · exact h x hx
    · simp at hx; subst hx; exact hq

theorem emitCb_inv {s : Sess} (h : Inv s) {o : SOut} (ho : reqIdOf o = none) (hq : cleanB o = true ∧ isInvoke o = false) :
    InvRel s (emitCb s o).2 (emitCb s o).1 := by
  have hc : Clean [o] := Clean.of_all (by simp [hq.1])
  obtain ⟨f1, f2, f3, f4, f5, _⟩ := emitCb_fields s o
  refine ⟨emitCb_idrel h.1 ho, h.2.congr f1 f2 f3 f4 (emitCb_cbq h.2.cbq hq), ?_, by rw [f3]; exact Nat.le_refl _⟩
  rcases f5 with e | e <;> rw [e]
  · exact hc
  · exact Clean.nil

/-- a state update that touches none of the fields the invariants read, followed by `t` -/
theorem InvRel.congr_left {s s1 s' : Sess} {o : List SOut} (hi : s.issued = s1.issued) (hl : s.futs.length = s1.futs.length)
    (r : InvRel s1 o s') : InvRel s o s' :=
  ⟨IdRel.congr_left hi r.1, r.2.1, r.2.2.1, hl ▸ r.2.2.2⟩

theorem out_inv {s : Sess} (h : Inv s) {os : List SOut} (ho : reqIds os = []) (hc : Clean os) : InvRel s os s :=
  ⟨out_idrel h.1 ho, h.2, hc, Nat.le_refl _⟩

def okInv (o : SOut) : Bool := (reqIdOf o).isNone && cleanB o && !isInvoke o

theorem Clean.of_ok {os : List SOut} (h : ∀ o ∈ os, okInv o = true) : Clean os :=
  Clean.of_all (List.all_eq_true.mpr (fun o ho => by have := h o ho; simp [okInv] at this; exact this.1.2))

theorem okInv_of_lcOut (o : SOut) (ho : lcOut o = true) : okInv o = true := by
  cases o <;> simp [okInv, reqIdOf, cleanB, isInvoke, lcOut] at ho ⊢
  · next m => cases hm : m.typ <;> simp [hm, lcMsg, isReqType] at ho ⊢
  · next e => cases e <;> simp [lcExc] at ho ⊢
  · next e => cases e <;> simp [lcExc] at ho ⊢

/-- an update of fields the invariants do not read, with outputs they tolerate -/
theorem lc_inv {s s' : Sess} {os : List SOut} (h : Inv s) (hc : s'.core = s.core) (ho : ∀ o ∈ os, okInv o = true) :
    InvRel s os s' := by
  obtain ⟨e1, e2, e3, e4, e5⟩ := core_fields hc
  refine ⟨IdRel.of_same h.1 e1 e2 (by rw [e5]; exact h.1.2) (reqIds_nil_of (fun o ho' => by
      have := ho o ho'; simp [okInv] at this; simpa using this.1.1)),
    h.2.congr (core_tbl hc) e3 e4 e2 (by rw [CbqOk, e5]; exact h.2.cbq), Clean.of_ok ho, by rw [e4]; exact Nat.le_refl _⟩

theorem settle_open {s : Sess} {f : Nat} {x : Fut} (hx : s.futs[f]? = some x) (hc : x.cell.isSome = false) (o : Outcome) :
    settle s f o =
      if x.watched then
        ((emitCb { s with futs := s.futs.set f { x with cell := some o, count := x.count + 1 } } (.callback f o)).1,
         .complete f o :: (emitCb { s with futs := s.futs.set f { x with cell := some o, count := x.count + 1 } } (.callback f o)).2)
      else ({ s with futs := s.futs.set f { x with cell := some o, count := x.count + 1 } }, [.complete f o]) := by
  simp [settle, hx, hc]

theorem settle_tbl (s : Sess) (f : Nat) (o : Outcome) (k : Kind) : (settle s f o).1.tbl k = s.tbl k := by
  unfold settle
  split
  · rfl
  · split
    · cases k <;> rfl
    · split
      · rw [(emitCb_fields _ _).1 k]; cases k <;> rfl
      · cases k <;> rfl


theorem tbl_subs_update (s1 : Sess) (x : List (SubId × List SubRec)) (k : Kind) : Sess.tbl { s1 with subs := x } k = s1.tbl k := by
  cases k <;> rfl
theorem tbl_regs_update (s1 : Sess) (x : List (RegId × RegRec)) (k : Kind) : Sess.tbl { s1 with regs := x } k = s1.tbl k := by
  cases k <;> rfl


theorem settle_inv {s : Sess} (h : Inv s) {f : Nat} (hf : f < s.futs.length) (hc : s.called f = false) (o : Outcome) :
    InvRel s (settle s f o).2 (settle s f o).1 := by
  refine ⟨settle_idrel h.1 f o, ?_⟩
  have hx : s.futs[f]? = some s.futs[f] := by simp [hf]
  rw [called_eq, hx] at hc
  simp only at hc
  have hok := h.2.count _ (List.getElem_mem hf)
  have hcnt : s.futs[f].count = 0 := by simpa [Fut.ok, hc] using hok
  rw [settle_open hx hc]
  have hnew : Fut.ok { s.futs[f] with cell := some o, count := s.futs[f].count + 1 } := by simp [Fut.ok, hcnt]
  have key : Inv' { s with futs := s.futs.set f { s.futs[f] with cell := some o, count := s.futs[f].count + 1 } } := by
    refine h.2.shrink rfl (fun k => by cases k <;> exact List.Sublist.refl _) (fun x => Nat.le_refl _) (by simp) ?_ h.2.cbq
    intro x hx'
    simp only at hx'
    rcases List.mem_or_eq_of_mem_set hx' with h1 | h1
    · exact Or.inl (Fut.oldIn_of_mem h1)
    · exact Or.inr (h1 ▸ hnew)
  have hcl : Clean [SOut.complete f o] := Clean.single (by simp) (by simp) (by simp) (by simp)
  split
  · have e := emitCb_fields { s with futs := s.futs.set f { s.futs[f] with cell := some o, count := s.futs[f].count + 1 } } (.callback f o)
    obtain ⟨f1, f2, f3, f4, f5, _⟩ := e
    refine ⟨Inv'.congr key f1 f2 f3 f4 (emitCb_cbq key.cbq (by simp [cleanB, isInvoke])), ?_, by rw [f3]; simp⟩
    rcases f5 with e | e <;> simp only [e]
    · exact hcl.append (Clean.single (by simp) (by simp) (by simp) (by simp))
    · exact hcl
  · exact ⟨key, hcl, by simp⟩


/-! ### the request APIs -/

theorem mem_aset {β : Type} {k : Nat} {v : β} {l : List (Nat × β)} {e : Nat × β} (h : e ∈ aset k v l) :
    e ∈ l ∨ e = (k, v) := by
  simp only [aset, List.mem_append, List.mem_singleton] at h
  rcases h with h | h
  · exact Or.inl (mem_adel h).1
  · exact Or.inr h

@[simp] theorem drawId_tbl (s : Sess) (k : Kind) : s.drawId.1.tbl k = s.tbl k := by cases k <;> rfl
@[simp] theorem drawId_subs (s : Sess) : s.drawId.1.subs = s.subs := rfl
@[simp] theorem drawId_futs (s : Sess) : s.drawId.1.futs = s.futs := rfl
@[simp] theorem drawId_issued (s : Sess) : s.drawId.1.issued = s.issued + 1 := rfl
@[simp] theorem drawId_cbq (s : Sess) : s.drawId.1.cbq = s.cbq := rfl
@[simp] theorem drawId_nextId (s : Sess) : s.drawId.1.nextId = s.drawId.2 := rfl
@[simp] theorem newFut_tbl (s : Sess) (k k' : Kind) : (s.newFut k).1.tbl k' = s.tbl k' := by cases k' <;> rfl
@[simp] theorem newFut_subs (s : Sess) (k : Kind) : (s.newFut k).1.subs = s.subs := rfl
@[simp] theorem newFut_futs (s : Sess) (k : Kind) : (s.newFut k).1.futs = s.futs ++ [{ kind := k }] := rfl
@[simp] theorem newFut_issued (s : Sess) (k : Kind) : (s.newFut k).1.issued = s.issued := rfl
@[simp] theorem newFut_cbq (s : Sess) (k : Kind) : (s.newFut k).1.cbq = s.cbq := rfl
@[simp] theorem newFut_nextId (s : Sess) (k : Kind) : (s.newFut k).1.nextId = s.nextId := rfl
@[simp] theorem newFut_snd (s : Sess) (k : Kind) : (s.newFut k).2 = s.futs.length := rfl
@[simp] theorem unwatch_tbl (s : Sess) (f : Nat) (k : Kind) : (s.unwatch f).tbl k = s.tbl k := by
  unfold Sess.unwatch; split <;> cases k <;> rfl
@[simp] theorem unwatch_subs (s : Sess) (f : Nat) : (s.unwatch f).subs = s.subs := by unfold Sess.unwatch; split <;> rfl
@[simp] theorem unwatch_issued (s : Sess) (f : Nat) : (s.unwatch f).issued = s.issued := by unfold Sess.unwatch; split <;> rfl
@[simp] theorem unwatch_cbq (s : Sess) (f : Nat) : (s.unwatch f).cbq = s.cbq := by unfold Sess.unwatch; split <;> rfl
@[simp] theorem unwatch_nextId (s : Sess) (f : Nat) : (s.unwatch f).nextId = s.nextId := by unfold Sess.unwatch; split <;> rfl
@[simp] theorem unwatch_futs_length (s : Sess) (f : Nat) : (s.unwatch f).futs.length = s.futs.length := by
  unfold Sess.unwatch; split <;> simp
theorem unwatch_futs_ok (s : Sess) (f : Nat) : ∀ x ∈ (s.unwatch f).futs, x ∈ s.futs ∨ ∃ y ∈ s.futs, x = { y with watched := false } := by
  unfold Sess.unwatch; split
  · next y hy =>
    intro x hx
    rcases List.mem_or_eq_of_mem_set hx with h | h
    · exact Or.inl h
    · exact Or.inr ⟨y, List.mem_of_getElem? hy, h⟩
  · intro x hx; exact Or.inl hx

theorem sendReq_ok (s : Sess) (k : Kind) (id : ReqId) (m : OutMsg) (f : Option FutId) (keep : Bool) :
    sendReq s k id m f keep .ok = (s, [.send m, match f with | some f => .ret f | none => .retNone]) := rfl
theorem sendReq_fail_keep (s : Sess) (k : Kind) (id : ReqId) (m : OutMsg) (f : FutId) :
    sendReq s k id m (some f) true .raises = (s.unwatch f, [.send m, .raise_ .sendFailed]) := rfl
theorem sendReq_fail_forget (s : Sess) (k : Kind) (id : ReqId) (m : OutMsg) (f : FutId) :
    sendReq s k id m (some f) false .raises =
      ((s.unwatch f).setTbl k (adel id ((s.unwatch f).tbl k)), [.send m, .raise_ .sendFailed]) := rfl

theorem request_idrel {s : Sess} (h : IdInv s) (k : Kind) (mkReq : FutId → Req) (mkMsg : ReqId → OutMsg)
    (hm : ∀ id, isReqType (mkMsg id).typ = true ∧ (mkMsg id).req = id) (keep : Bool) (snd : SendRes) :
    IdRel s (request s k mkReq mkMsg keep snd).2 (request s k mkReq mkMsg keep snd).1 := by
  have hq := h.2
  have := hm s.drawId.2
  cases snd <;> cases keep <;> refine IdRel.of_draw h ?_ ?_ ?_ ?_ <;>
    simp [request, sendReq_ok, sendReq_fail_keep, sendReq_fail_forget, reqIds, reqIdOf, this] <;> exact hq

/-- the fields of the state after a request API -/
theorem request_fields (s : Sess) (k : Kind) (mkReq : FutId → Req) (mkMsg : ReqId → OutMsg) (keep : Bool) (snd : SendRes) :
    (request s k mkReq mkMsg keep snd).1.issued = s.issued + 1 ∧ (request s k mkReq mkMsg keep snd).1.subs = s.subs ∧
      (request s k mkReq mkMsg keep snd).1.futs.length = s.futs.length + 1 ∧
      (∀ x ∈ (request s k mkReq mkMsg keep snd).1.futs, x.oldIn s ∨ x.ok) ∧
      ((request s k mkReq mkMsg keep snd).1.tbl k).Sublist (aset s.drawId.2 (mkReq s.futs.length) (s.tbl k)) ∧
      (∀ k', k' ≠ k → (request s k mkReq mkMsg keep snd).1.tbl k' = s.tbl k') ∧
      (request s k mkReq mkMsg keep snd).1.cbq = s.cbq := by
  have hnew : ∀ x ∈ s.futs ++ [({ kind := k } : Fut)], x.oldIn s ∨ x.ok := by
    intro x hx
    rcases List.mem_append.mp hx with h | h
    · exact Or.inl (Fut.oldIn_of_mem h)
    · simp at h; subst h; exact Or.inr (by simp [Fut.ok])
  have hnew' : ∀ (t : Table) (f : Nat), ∀ x ∈ (((s.drawId.1.newFut k).1.setTbl k t).unwatch f).futs, x.oldIn s ∨ x.ok := by
    intro t f x hx
    have e1 : ((s.drawId.1.newFut k).1.setTbl k t).futs = s.futs ++ [({ kind := k } : Fut)] := by simp
    rcases unwatch_futs_ok _ f x hx with h | ⟨y, hy, rfl⟩
    · exact hnew x (e1 ▸ h)
    · rcases hnew y (e1 ▸ hy) with ⟨z, hz, e2, e3⟩ | h
      · exact Or.inl ⟨z, hz, e2, e3⟩
      · exact Or.inr (by simpa [Fut.ok] using h)
  cases snd <;> cases keep <;>
    simp only [request, sendReq_ok, sendReq_fail_keep, sendReq_fail_forget]
  · refine ⟨by simp, by simp, by simp, fun x hx => hnew x (by simpa using hx), by simp, fun k' hk' => by simp [setTbl_tbl_ne hk'], by simp⟩
  · refine ⟨by simp, by simp, by simp, fun x hx => hnew x (by simpa using hx), by simp, fun k' hk' => by simp [setTbl_tbl_ne hk'], by simp⟩
  · refine ⟨by simp, by simp, by simp, fun x hx => hnew' _ _ x (by simpa using hx), ?_, fun k' hk' => by simp [setTbl_tbl_ne hk'], by simp⟩
    simp only [setTbl_tbl_self, unwatch_tbl, newFut_tbl, drawId_tbl, newFut_snd, drawId_futs]
    exact adel_sublist _ _
  · refine ⟨by simp, by simp, by simp, fun x hx => hnew' _ _ x hx, by simp, fun k' hk' => by simp [setTbl_tbl_ne hk'], by simp⟩

theorem request_inv {s : Sess} (h : Inv s) (k : Kind) (mkReq : FutId → Req) (mkMsg : ReqId → OutMsg)
    (hr : ∀ f, (mkReq f).fut = f) (hm : ∀ id, isReqType (mkMsg id).typ = true ∧ (mkMsg id).req = id)
    (keep : Bool) (snd : SendRes) :
    InvRel s (request s k mkReq mkMsg keep snd).2 (request s k mkReq mkMsg keep snd).1 := by
  refine ⟨request_idrel h.1 k mkReq mkMsg hm keep snd, ?_⟩
  have hid := drawId_id s h.1
  obtain ⟨hi, hs, hl, hc, ht0, ht, hcbq⟩ := request_fields s k mkReq mkMsg keep snd
  rw [hid] at ht0
  refine ⟨⟨?_, h.2.count.of_forall hc, ?_, ?_, by rw [CbqOk, hcbq]; exact h.2.cbq⟩, ?_, by omega⟩
  · refine h.2.keys.draw hi k ?_ (fun k' hk' => by rw [ht k' hk']; exact List.Sublist.refl _)
    exact List.Sublist.trans (ht0.map _ : (akeys _).Sublist (akeys _)) (akeys_aset_sublist _ _ _)
  · refine h.2.subs.of_new hl (fun x => ?_)
    simp only [occ, hs]
    by_cases hk : k = .subscribe
    · subst hk
      have h1 := ((ht0.map (·.2.fut)).count_le x)
      have h2 := count_futsOf_aset x (idOf s.issued) (mkReq s.futs.length) (s.tbl .subscribe)
      rw [hr] at h2
      simp only [futsOf] at h2 ⊢
      omega
    · rw [ht _ (Ne.symm hk)]; omega
  · intro k' e' he'
    by_cases hk : k' = k
    · subst hk
      rcases mem_aset (ht0.subset he') with h1 | h1
      · exact Nat.lt_of_lt_of_le (h.2.futb k' e' h1) (by omega)
      · subst h1; simp only [hr]; exact Nat.lt_of_lt_of_le (Nat.lt_succ_self _) (by omega)
    · rw [ht k' hk] at he'
      exact Nat.lt_of_lt_of_le (h.2.futb k' e' he') (by omega)
  · cases snd <;> cases keep <;> simp only [request, sendReq_ok, sendReq_fail_keep, sendReq_fail_forget] <;>
      intro x hx <;> simp at hx <;> rcases hx with hx | hx <;> subst hx <;> simp


theorem aupd_of_none {β : Type} {k : Nat} (v : β) {l : List (Nat × β)} (h : alookup k l = none) : aupd k v l = l := by
  induction l with
  | nil => rfl
  | cons e t ih =>
    obtain ⟨k', v'⟩ := e
    simp only [alookup_cons] at h
    split at h
    · simp at h
    · next hk => simp [aupd, hk, ih h]

theorem count_objsOf_aupd_le (x : Nat) (subs : List (SubId × List SubRec)) (sid : SubId) {l' : List SubRec}
    (hs : l'.Sublist ((alookup sid subs).getD [])) :
    (objsOf (aupd sid l' subs)).count x ≤ (objsOf subs).count x := by
  cases h : alookup sid subs with
  | none => rw [aupd_of_none _ h]; exact Nat.le_refl _
  | some l => rw [h] at hs; exact count_objsOf_aupd_sublist x subs sid h hs

theorem out1_clean_raise {e : Exc} (h1 : e ≠ .alreadyCalled) (h2 : e ≠ .internal) : Clean [SOut.raise_ e] :=
  Clean.single (by simpa using h1) (by simp) (by simpa using h2) (by simp)

theorem raise_inv {s : Sess} (h : Inv s) {e : Exc} (h1 : e ≠ .alreadyCalled) (h2 : e ≠ .internal) :
    InvRel s [.raise_ e] s := out_inv h rfl (out1_clean_raise h1 h2)

theorem futureSuccess_inv {s : Sess} (h : Inv s) (k : Kind) (o : Outcome) :
    InvRel s (futureSuccess s k o).2 (futureSuccess s k o).1 := by
  have hq := h.1.2
  unfold futureSuccess
  obtain ⟨f1, f2, f3, f4, f5, _⟩ := emitCb_fields { s with futs := s.futs ++ [{ kind := k, cell := some o, count := 1 }] }
    (.callback s.futs.length o)
  refine ⟨?_, ?_, ?_, ?_⟩
  · refine IdRel.of_same h.1 ?_ ?_ ?_ ?_ <;> id_frame
  · refine Inv'.congr (s := { s with futs := s.futs ++ [{ kind := k, cell := some o, count := 1 }] }) ?_ f1 f2 f3 f4
      (emitCb_cbq (s := { s with futs := s.futs ++ [{ kind := k, cell := some o, count := 1 }] }) h.2.cbq (by simp [cleanB, isInvoke]))
    refine h.2.shrink rfl (fun k => by cases k <;> exact List.Sublist.refl _) (fun x => Nat.le_refl _) (by simp) ?_ h.2.cbq
    intro x hx
    rcases List.mem_append.mp hx with hx | hx
    · exact Or.inl (Fut.oldIn_of_mem hx)
    · simp at hx; subst hx; exact Or.inr (by simp [Fut.ok])
  · simp only []
    rcases f5 with e | e <;> rw [e] <;> exact Clean.of_all (by simp [cleanB])
  · simp only []; rw [f3]; simp

theorem apiStep_inv {s : Sess} (a : Api) (h : Inv s) : InvRel s (apiStep s a).2 (apiStep s a).1 := by
  cases a with
  | call u a k o r =>
    simp only [apiStep, apiCall]
    split
    · exact raise_inv h (by simp) (by simp)
    · exact request_inv h _ _ _ (fun _ => rfl) (fun _ => ⟨rfl, rfl⟩) _ _
  | publish u a k o r =>
    simp only [apiStep, apiPublish]
    split
    · exact raise_inv h (by simp) (by simp)
    · split
      · exact request_inv h _ _ _ (fun _ => rfl) (fun _ => ⟨rfl, rfl⟩) _ _
      · refine ⟨apiStep_idrel_publish_noack h.1 u a k o r, ?_⟩
        have hid := drawId_id s h.1
        cases r
        · rw [sendReq_ok]
          refine ⟨⟨h.2.keys.draw (k0 := .publish) (by simp) (by simp)
              (fun k _ => by simp), fun x hx => h.2.count x hx, ?_, ?_, h.2.cbq⟩, ?_, Nat.le_refl _⟩
          · exact h.2.subs.of_le (Nat.le_refl _) (fun x => by simp [occ])
          · exact h.2.futb.of (Nat.le_refl _) (fun k e he => Or.inl (by simpa using he))
          · intro x hx; simp at hx; rcases hx with hx | hx <;> subst hx <;> simp
        · simp only [sendReq]
          refine ⟨⟨h.2.keys.draw (k0 := .publish) (by simp) ?_ (fun k hk => by simp [setTbl_tbl_ne hk]),
              fun x hx => h.2.count x (by simpa using hx), ?_, ?_, by simpa [CbqOk] using h.2.cbq⟩, ?_, by simp⟩
          · simp only [setTbl_tbl_self, drawId_tbl]
            exact (akeys_adel_sublist _ _).trans (List.sublist_append_left _ _)
          · refine h.2.subs.of_le (by simp) (fun x => ?_)
            simp only [occ, setTbl_subs, drawId_subs, setTbl_tbl_ne (show Kind.subscribe ≠ Kind.publish by decide), drawId_tbl]
            exact Nat.le_refl _
          · refine h.2.futb.of (by simp) (fun k e he => Or.inl ?_)
            by_cases hk : k = .publish
            · subst hk; simp only [setTbl_tbl_self, drawId_tbl] at he; exact (mem_adel he).1
            · simpa [setTbl_tbl_ne hk] using he
          · intro x hx; simp at hx; rcases hx with hx | hx <;> subst hx <;> simp
  | subscribe hh t o r =>
    simp only [apiStep, apiSubscribe]
    split
    · exact raise_inv h (by simp) (by simp)
    · exact request_inv h _ _ _ (fun _ => rfl) (fun _ => ⟨rfl, rfl⟩) _ _
  | register hh t o r =>
    simp only [apiStep, apiRegister]
    split
    · exact raise_inv h (by simp) (by simp)
    · exact request_inv h _ _ _ (fun _ => rfl) (fun _ => ⟨rfl, rfl⟩) _ _
  | unsubscribe obj r =>
    simp only [apiStep, apiUnsubscribe]
    split
    · exact raise_inv h (by simp) (by simp)
    · next sid _ =>
      split
      · exact raise_inv h (by simp) (by simp)
      · have h1 : Inv { s with subs := aupd sid (removeObj obj ((alookup sid s.subs).getD [])) s.subs } := by
          refine ⟨h.1.congr rfl rfl rfl, h.2.shrink rfl (fun k => by cases k <;> exact List.Sublist.refl _) (fun x => ?_) (Nat.le_refl _)
            (fun x hx => Or.inl (Fut.oldIn_of_mem hx)) h.2.cbq⟩
          exact count_objsOf_aupd_le x s.subs sid (removeObj_sublist _ _)
        split
        · exact InvRel.congr_left rfl rfl (request_inv h1 _ _ _ (fun _ => rfl) (fun _ => ⟨rfl, rfl⟩) _ _)
        · exact InvRel.congr_left rfl rfl (futureSuccess_inv h1 _ _)
  | unregister obj r =>
    simp only [apiStep, apiUnregister]
    split
    · exact raise_inv h (by simp) (by simp)
    · split
      · exact raise_inv h (by simp) (by simp)
      · exact request_inv h _ _ _ (fun _ => rfl) (fun _ => ⟨rfl, rfl⟩) _ _
  | cancel f =>
    have hq := h.1.2
    refine ⟨apiStep_idrel (.cancel f) h.1, ?_⟩
    simp only [apiStep, apiCancel]
    split
    · exact ⟨h.2, Clean.of_all (by simp [cleanB]), Nat.le_refl _⟩
    · next x hx =>
      split
      · exact ⟨h.2, Clean.nil, Nat.le_refl _⟩
      · next hc =>
        split
        · exact ⟨h.2, Clean.of_all (by simp [cleanB]), Nat.le_refl _⟩
        · have hmem : x ∈ s.futs := List.mem_of_getElem? hx
          have hcnt : x.count = 0 := by
            have := h.2.count x hmem
            simpa [Fut.ok, hc] using this
          have key : Inv' { s with futs := s.futs.set f { x with cell := some .cancelled, count := x.count + 1 } } := by
            refine h.2.shrink rfl (fun k => by cases k <;> exact List.Sublist.refl _) (fun x => Nat.le_refl _) (by simp) ?_ h.2.cbq
            intro y hy
            rcases List.mem_or_eq_of_mem_set hy with hy | hy
            · exact Or.inl (Fut.oldIn_of_mem hy)
            · subst hy; exact Or.inr (by simp [Fut.ok, hcnt])
          have hmsgs : Clean (cancelMsgs s f x.kind) := by
            unfold cancelMsgs; split
            · split <;> exact Clean.of_all (by simp [cleanB])
            · exact Clean.nil
          unfold cancelDo
          split
          · exact ⟨key, hmsgs.append (Clean.of_all (by simp [cleanB])), by simp⟩
          · refine ⟨Inv'.congr key (fun k => by cases k <;> rfl) rfl rfl rfl ?_, Clean.of_all (by simp [cleanB]), by simp⟩
            intro y hy
            simp only [List.mem_append, List.mem_singleton] at hy
            rcases hy with (hy | hy) | hy
            · exact h.2.cbq y hy
            · unfold cancelMsgs at hy; split at hy
              · split at hy <;> simp at hy; subst hy; simp [cleanB, isInvoke]
              · simp at hy
            · subst hy; simp [cleanB, isInvoke]
  | join =>
    simp only [apiStep, apiJoin]
    split
    · exact raise_inv h (by simp) (by simp)
    · split
      · exact raise_inv h (by simp) (by simp)
      · exact lc_inv h rfl (by intro o ho; simp at ho; subst ho; rfl)
  | leave =>
    simp only [apiStep, apiLeave]
    split
    · exact InvRel.refl h
    · split
      · exact InvRel.refl h
      · split
        · exact raise_inv h (by simp) (by simp)
        · exact lc_inv h rfl (by intro o ho; simp at ho; subst ho; rfl)
  | disconnect =>
    simp only [apiStep, apiDisconnect]
    split
    · exact lc_inv h rfl (by intro o ho; simp at ho; subst ho; rfl)
    · exact InvRel.refl h


/-! ### messages -/

theorem invLift : Lift InvRel Inv where
  refl := InvRel.refl
  trans := InvRel.trans
  post := fun _ r => r.post
  caught := fun r => ⟨idLift.caught r.1, r.2.1, r.2.2.1.map_toCaught, r.2.2.2⟩
  api := fun a h => apiStep_inv a h
  userError := fun h => emitCb_inv h rfl (by simp [cleanB, isInvoke])
  invoke := fun _ _ h _ => out_inv h rfl (Clean.of_all (by simp [cleanB]))

theorem rejectList_inv {s : Sess} (h : Inv s) (o : Outcome) (fs : List FutId) (hb : ∀ f ∈ fs, (f : Nat) < s.futs.length) :
    InvRel s (rejectList s o fs).2 (rejectList s o fs).1 := by
  induction fs generalizing s with
  | nil => exact InvRel.refl h
  | cons f fs ih =>
    rw [rejectList_cons]
    split
    · exact ih h (fun g hg => hb g (List.mem_cons_of_mem _ hg))
    · next hc =>
      have h1 := settle_inv h (hb f List.mem_cons_self) (by simpa using hc) o
      refine InvRel.trans h1 (ih h1.post (fun g hg => ?_))
      exact Nat.lt_of_lt_of_le (hb g (List.mem_cons_of_mem _ hg)) h1.2.2.2

theorem clearTables_inv {s : Sess} (h : Inv s) : Inv s.clearTables := by
  refine ⟨h.1.congr rfl rfl rfl, h.2.shrink rfl (fun k => by cases k <;> exact List.nil_sublist _) (fun x => Nat.le_refl _)
    (Nat.le_refl _) (fun x hx => Or.inl (Fut.oldIn_of_mem hx)) h.2.cbq⟩

theorem outstanding_bound {s : Sess} (h : Inv s) : ∀ f ∈ s.outstanding, (f : Nat) < s.futs.length := by
  intro f hf
  simp only [Sess.outstanding, List.mem_map, List.mem_flatMap] at hf
  obtain ⟨e, ⟨k, _, he⟩, rfl⟩ := hf
  exact h.2.futb k e he

theorem Clean.map_toLost {a : List SOut} (ha : Clean a) : Clean (a.map toLost) := by
  intro x hx
  obtain ⟨y, hy, rfl⟩ := List.mem_map.mp hx
  have := ha y hy
  cases y <;> simp_all [toLost]

theorem invLiftX : LiftX InvRel Inv okInv where
  toLift := invLift
  okOf := okInv_of_lcOut
  lc := fun h hc => lc_inv h hc (by simp)
  out := fun h ho => lc_inv h rfl ho
  emit := fun {s o} h ho => by
    simp [okInv] at ho
    exact emitCb_inv h (by simpa using ho.1.1) ⟨ho.1.2, ho.2⟩
  enq := fun k h => by
    refine ⟨IdRel.of_same h.1 rfl rfl ?_ rfl, h.2.congr (fun k => by cases k <;> rfl) rfl rfl rfl ?_, Clean.nil, Nat.le_refl _⟩
    · intro x hx
      rcases List.mem_append.mp hx with hx | hx
      · exact h.1.2 x hx
      · simp at hx; subst hx; rfl
    · intro x hx
      rcases List.mem_append.mp hx with hx | hx
      · exact h.2.cbq x hx
      · simp at hx; subst hx; exact ⟨rfl, rfl⟩
  lostMap := fun r => ⟨idLiftX.lostMap r.1, r.2.1, r.2.2.1.map_toLost, r.2.2.2⟩
  cbqOk := fun h o ho => by
    have h1 := h.1.2 o ho
    have h2 := h.2.cbq o ho
    simp [okInv, h1, h2.1, h2.2]
  clearQ := fun h =>
    ⟨IdRel.of_same h.1 rfl rfl (by simp) rfl, h.2.congr (fun k => by cases k <;> rfl) rfl rfl rfl (by simp [CbqOk]),
      Clean.nil, Nat.le_refl _⟩
  rejectAll := fun {s} o h =>
    InvRel.congr_left (s1 := s.clearTables) rfl rfl (rejectList_inv (clearTables_inv h) o s.outstanding (outstanding_bound h))

/-- what a reply branch knows about the popped record: its future exists, is still open, and — for a subscribe
request — no longer occurs anywhere, so it may be attached -/
structure Popped (s1 : Sess) (kind : Kind) (r : Req) : Prop where
  bound : (r.fut : Nat) < s1.futs.length
  open_ : s1.called r.fut = false
  free : kind = .subscribe → ∀ x : Nat, occ x s1 + (if x = r.fut then 1 else 0) ≤ 1

theorem pop_inv {s : Sess} (h : Inv s) {kind : Kind} {id : ReqId} {r : Req} (hr : alookup id (s.tbl kind) = some r) :
    Inv (s.setTbl kind (adel id (s.tbl kind))) ∧ (r.fut : Nat) < s.futs.length ∧
      (kind = .subscribe → ∀ x : Nat, occ x (s.setTbl kind (adel id (s.tbl kind))) + (if x = r.fut then 1 else 0) ≤ 1) := by
  refine ⟨⟨h.1.congr (by simp) (by simp) (by simp), ?_⟩, h.2.futb kind _ (alookup_some_mem hr), ?_⟩
  · refine h.2.shrink (by simp) (fun k => ?_) (fun x => by simp) (by simp) (fun x hx => Or.inl (Fut.oldIn_of_mem (by simpa using hx)))
      (by simpa [CbqOk] using h.2.cbq)
    rw [setTbl_tbl]; split
    · next e => subst e; exact adel_sublist _ _
    · exact List.Sublist.refl _
  · intro e x; subst e
    have := count_futsOf_pop x hr
    have := h.2.subs.1 x
    simp only [occ, setTbl_subs, setTbl_tbl_self] at this ⊢
    omega

theorem popReply_inv {s : Sess} (h : Inv s) (kind : Kind) (id : ReqId) (k : Sess → Req → Sess × List SOut)
    (hk : ∀ s1 r, Inv s1 → s1.issued = s.issued → s1.futs.length = s.futs.length → Popped s1 kind r →
      InvRel s1 (k s1 r).2 (k s1 r).1) :
    InvRel s (popReply s kind id k).2 (popReply s kind id k).1 := by
  unfold popReply
  split
  · exact raise_inv h (by simp) (by simp)
  · next r hr =>
    obtain ⟨h1, hb, hfree⟩ := pop_inv h hr
    simp only []
    split
    · exact InvRel.congr_left (by simp) (by simp) (InvRel.refl h1)
    · next hc =>
      exact InvRel.congr_left (by simp) (by simp)
        (hk _ r h1 (by simp) (by simp) ⟨by simpa using hb, by simpa using hc, hfree⟩)

/-- `settle` after an update of fields the primitives do not read (`subs`, `regs`) -/
theorem settle_inv' {s0 s : Sess} (h : Inv s) (e1 : s.nextId = s0.nextId) (e2 : s.issued = s0.issued) (e3 : s.cbq = s0.cbq)
    (e4 : s.futs.length = s0.futs.length) {f : Nat} (hf : f < s.futs.length) (hc : s.called f = false) (o : Outcome) :
    InvRel s0 (settle s f o).2 (settle s f o).1 :=
  InvRel.congr_left e2.symm e4.symm (settle_inv h hf hc o)


theorem errorKind_some {s : Sess} {t : Nat} {id : ReqId} {k : Kind} (h : errorKind s t id = some k) :
    k.code = t ∧ (alookup id (s.tbl k)).isSome = true := by
  have := List.find?_some h
  simpa using this

/-- attaching the popped `Subscription` under subscription id `sub` -/
theorem attach_inv {s1 : Sess} (h1 : Inv s1) {r : Req} (hp : Popped s1 .subscribe r) (sub : SubId) (rec_ : SubRec)
    (hrec : rec_.obj = r.fut) :
    Inv { s1 with subs := match alookup sub s1.subs with
                          | none => s1.subs ++ [(sub, [rec_])]
                          | some l => aupd sub (l ++ [rec_]) s1.subs } := by
  refine ⟨h1.1.congr rfl rfl rfl, ⟨h1.2.keys.same rfl (fun k => by cases k <;> exact List.Sublist.refl _),
    fun x hx => h1.2.count x hx, ?_, h1.2.futb.of (Nat.le_refl _) (fun k e he => Or.inl (by cases k <;> exact he)), h1.2.cbq⟩⟩
  have hocc : ∀ x : Nat, occ x { s1 with subs := match alookup sub s1.subs with
                          | none => s1.subs ++ [(sub, [rec_])]
                          | some l => aupd sub (l ++ [rec_]) s1.subs } = occ x s1 + (if x = r.fut then 1 else 0) := by
    intro x
    have e : ({ s1 with subs := match alookup sub s1.subs with
                          | none => s1.subs ++ [(sub, [rec_])]
                          | some l => aupd sub (l ++ [rec_]) s1.subs } : Sess).tbl .subscribe = s1.tbl .subscribe := rfl
    simp only [occ, e]
    cases hl : alookup sub s1.subs with
    | none => simp only []; rw [count_objsOf_append_new, hrec]; omega
    | some l => simp only []; rw [count_objsOf_aupd_append x rec_ hl, hrec]; omega
  constructor
  · intro x; rw [hocc]; exact hp.free rfl x
  · intro x hx
    rw [hocc] at hx
    by_cases e : x = r.fut
    · subst e; exact hp.bound
    · simp only [e, if_false, Nat.add_zero] at hx
      exact h1.2.subs.2 x hx

theorem onEstablished_inv {s : Sess} (h : Inv s) (beh : List HAct) (m : InMsg) :
    InvRel s (onEstablished s beh m).2 (onEstablished s beh m).1 := by
  cases m with
  | goodbye =>
    simp only [onEstablished]
    split
    · exact raise_inv h (by simp) (by simp)
    · exact invLiftX.goodbye h _
  | event sub pub p =>
    simp only [onEstablished]
    split
    · exact raise_inv h (by simp) (by simp)
    · exact invLift.dispatch h _ _ _ _ _
  | published id pub =>
    simp only [onEstablished]
    exact popReply_inv h _ _ _ (fun s1 r h1 _ _ hp => settle_inv h1 hp.bound hp.open_ _)
  | subscribed id sub =>
    simp only [onEstablished]
    refine popReply_inv h _ _ _ (fun s1 r h1 _ _ hp => ?_)
    have h2 := attach_inv h1 hp sub { obj := r.fut, h := r.handler, detailsArg := r.detailsArg, topic := r.uri } rfl
    exact settle_inv' h2 rfl rfl rfl rfl hp.bound hp.open_ _
  | unsubscribed id =>
    simp only [onEstablished]
    refine popReply_inv h _ _ _ (fun s1 r h1 _ _ hp => ?_)
    have h2 : Inv { s1 with subs := adel r.target s1.subs } :=
      ⟨h1.1.congr rfl rfl rfl, h1.2.shrink rfl (fun k => by cases k <;> exact List.Sublist.refl _)
        (fun x => count_objsOf_adel x _ _) (Nat.le_refl _) (fun x hx => Or.inl (Fut.oldIn_of_mem hx)) h1.2.cbq⟩
    exact settle_inv' h2 rfl rfl rfl rfl hp.bound hp.open_ _
  | result id p progress =>
    simp only [onEstablished]
    split
    · exact raise_inv h (by simp) (by simp)
    · next r hr =>
      split
      · split
        · exact InvRel.refl h
        · exact InvRel.trans (out_inv h (os := [_]) rfl (Clean.of_all (by simp [cleanB]))) (invLift.runAct h none _)
      · obtain ⟨h1, hb, _⟩ := pop_inv (kind := .call) h hr
        split
        · exact InvRel.congr_left rfl rfl (InvRel.refl h1)
        · next hc =>
          have hc' : (s.setTbl Kind.call (adel id (s.tbl Kind.call))).called r.fut = false := by
            simp only [Bool.not_eq_true] at hc; exact hc
          exact InvRel.congr_left rfl rfl (settle_inv h1 hb hc' _)
  | registered id reg =>
    simp only [onEstablished]
    refine popReply_inv h _ _ _ (fun s1 r h1 _ _ hp => ?_)
    split
    · have h2 : Inv { s1 with regs := s1.regs ++ [(reg, { obj := r.fut, proc := r.uri, endpoint := r.handler, detailsArg := r.detailsArg })] } :=
        ⟨h1.1.congr rfl rfl rfl, h1.2.congr (fun k => by cases k <;> rfl) rfl rfl rfl h1.2.cbq⟩
      exact settle_inv' h2 rfl rfl rfl rfl hp.bound hp.open_ _
    · exact raise_inv h1 (by simp) (by simp)
  | unregistered id reg =>
    simp only [onEstablished]
    split
    · split
      · exact raise_inv h (by simp) (by simp)
      · exact InvRel.refl h
    · refine popReply_inv h _ _ _ (fun s1 r h1 _ _ hp => ?_)
      have h2 : Inv { s1 with regs := adel r.target s1.regs } :=
        ⟨h1.1.congr rfl rfl rfl, h1.2.congr (fun k => by cases k <;> rfl) rfl rfl rfl h1.2.cbq⟩
      exact settle_inv' h2 rfl rfl rfl rfl hp.bound hp.open_ _
  | error reqType id uri p =>
    simp only [onEstablished]
    split
    · exact raise_inv h (by simp) (by simp)
    · next k hk =>
      have hsome := (errorKind_some hk).2
      split
      · next hn => rw [hn] at hsome; simp at hsome
      · next r hr =>
        obtain ⟨h1, hb, _⟩ := pop_inv h hr
        split
        · exact InvRel.congr_left (by simp) (by simp) (InvRel.refl h1)
        · next hc => exact InvRel.congr_left (by simp) (by simp) (settle_inv h1 (by simpa using hb) (by simpa using hc) _)
  | invocation id reg p rp => exact invLiftX.onInvocation h beh id reg p _
  | interrupt id => exact invLiftX.settleInv h id _
  | welcome sid => exact raise_inv h (by simp) (by simp)
  | abort => exact raise_inv h (by simp) (by simp)
  | challenge => exact raise_inv h (by simp) (by simp)
  | other => exact raise_inv h (by simp) (by simp)

theorem step_inv {s : Sess} (e : SEv) (h : Inv s) : InvRel s (step s e).2 (step s e).1 :=
  invLiftX.step (fun beh m h => onEstablished_inv h beh m) h e


theorem init_inv (mode : Sched) : Inv (init mode) := by
  refine ⟨init_idinv mode, ?_, ?_, ?_, ?_, ?_⟩
  · intro _
    have he : ∀ k, akeys ((init mode).tbl k) = [] := fun k => by cases k <;> rfl
    refine ⟨fun k id hid => ?_, fun k => ?_, fun k1 k2 id h1 => ?_⟩
    · rw [he] at hid; simp at hid
    · rw [he]; exact List.nodup_nil
    · rw [he] at h1; simp at h1
  · intro x hx; simp [init] at hx
  · constructor <;> intro x <;> simp [occ, init, objsOf, futsOf, Sess.tbl]
  · intro k e he; cases k <;> simp [init, Sess.tbl] at he
  · intro o ho; simp [init] at ho

/-- the invariant holds after every history, and no history outputs a double completion or an impossible branch -/
theorem run_inv {s : Sess} (h : Inv s) (hist : List SEv) : InvRel s (runOuts s hist) (runState s hist) :=
  run_lift (R := InvRel) (P := Inv) InvRel.refl InvRel.trans (fun _ r => r.post) (fun e h => step_inv e h) h hist

end Abverif.Session
