import Abverif.Proofs.Lemmas.SessReply
import Abverif.Proofs.Lemmas.SessLiftT
/-
The other half of the reply accounting (`SessReply.lean` proves "never more terminal replies than endpoint calls"):
while the transport is up and every refusal in the `send()` plan is followed by an acceptance (`planUnits`: what a real
transport produces — an unserializable / oversize reply is refused, the fallback ERROR goes out), an invocation record
leaves `_invocations` only together with a terminal reply:
    accepts req o + owing req s ≤ terminals req o + owing req s'.
-/
namespace Abverif.Session
open Abverif.SessCodes

/-- a `send()` plan in which every refusal (unserializable / oversize) is followed by an acceptance, and nothing else
is refused: closed under concatenation and under consumption from the front -/
def planUnits : List SendOut → Bool
  | [] => true
  | .ok :: r => planUnits r
  | .serialization :: .ok :: r => planUnits r
  | .payloadExceeded :: .ok :: r => planUnits r
  | _ => false

theorem planUnits_append (a b : List SendOut) (ha : planUnits a = true) (hb : planUnits b = true) : planUnits (a ++ b) = true := by
  induction a using planUnits.induct with
  | case1 => simpa using hb
  | case2 r ih => simp only [planUnits] at ha; simpa [planUnits] using ih ha
  | case3 r ih => simp only [planUnits] at ha; simpa [planUnits] using ih ha
  | case4 r ih => simp only [planUnits] at ha; simpa [planUnits] using ih ha
  | case5 l h1 h2 h3 h4 => exfalso; unfold planUnits at ha; split at ha <;> simp_all

/-- what is left after one `send()` took the head of the plan -/
theorem planUnits_tail (f : SendOut) (r : List SendOut) (h : planUnits (f :: r) = true) :
    planUnits r = true ∧ (f ≠ .ok → (f = .serialization ∨ f = .payloadExceeded) ∧ ∃ r', r = .ok :: r') := by
  cases f with
  | ok => exact ⟨by simpa [planUnits] using h, fun hne => absurd rfl hne⟩
  | serialization =>
    cases r with
    | nil => simp [planUnits] at h
    | cons x r' => cases x <;> simp [planUnits] at h; exact ⟨by simpa [planUnits] using h, fun _ => ⟨Or.inl rfl, r', rfl⟩⟩
  | payloadExceeded =>
    cases r with
    | nil => simp [planUnits] at h
    | cons x r' => cases x <;> simp [planUnits] at h; exact ⟨by simpa [planUnits] using h, fun _ => ⟨Or.inr rfl, r', rfl⟩⟩
  | transportLost => simp [planUnits] at h
  | other => simp [planUnits] at h

/-- the transport is up, the plan is made of covered units, nothing relevant waits in the queue -/
def Cov (req : ReqId) (s : Sess) : Prop := s.transport = true ∧ planUnits s.faults = true ∧ RepInv req s

def CovRel (req : ReqId) (s : Sess) (o : List SOut) (s' : Sess) : Prop :=
  Cov req s' ∧ accepts req o + owing req s ≤ terminals req o + owing req s'

theorem CovRel.refl {req : ReqId} {s : Sess} (h : Cov req s) : CovRel req s [] s := ⟨h, by simp [terminals, accepts]⟩

theorem CovRel.trans {req : ReqId} {s1 s2 s3 : Sess} {o1 o2 : List SOut} (h1 : CovRel req s1 o1 s2) (h2 : CovRel req s2 o2 s3) :
    CovRel req s1 (o1 ++ o2) s3 := by
  refine ⟨h2.1, ?_⟩
  rw [terminals_append, accepts_append]
  have := h1.2; have := h2.2
  omega

theorem CovRel.of_same {req : ReqId} {s s' : Sess} {os : List SOut} (hq : Cov req s') (hi : s'.invs = s.invs)
    (ho : ∀ o ∈ os, okRep req o = true) : CovRel req s os s' := by
  obtain ⟨h1, h2⟩ := counts_of_ok ho
  refine ⟨hq, ?_⟩
  simp [h1, h2, owing, hi]

theorem covLiftQ (req : ReqId) : LiftQ (CovRel req) (Cov req) where
  refl := CovRel.refl
  trans := CovRel.trans
  post := fun _ r => r.1
  caught := fun {s o s'} r => by
    refine ⟨r.1, ?_⟩
    have e1 : terminals req (o.map toCaught) = terminals req o := countP_map_eq (fun x => by cases x <;> rfl) o
    have e2 : accepts req (o.map toCaught) = accepts req o := countP_map_eq (fun x => by cases x <;> rfl) o
    rw [e1, e2]; exact r.2
  quiet := fun {s o s'} h q => by
    have hl := q.life
    simp only [Sess.life, Life.mk.injEq] at hl
    obtain ⟨_, l2, _, _, l5, l6, _, _⟩ := hl
    refine CovRel.of_same ⟨l2.trans h.1, by rw [l6]; exact h.2.1, ?_⟩ l5 (fun x hx => okRep_of_not_lifeOut (q.outs x hx))
    intro x hx
    rcases q.queue x hx with h1 | h1
    · exact h.2.2 x h1
    · exact okRep_of_not_lifeOut h1
  lifeApi := fun {s} a ha h => by
    cases a <;> simp [Api.isLife] at ha
    · simp only [apiStep, apiJoin]
      split
      · exact CovRel.of_same h rfl (by simp [okRep, terminalFor, acceptFor])
      · split
        · exact CovRel.of_same h rfl (by simp [okRep, terminalFor, acceptFor])
        · exact CovRel.of_same h rfl (by simp [okRep, terminalFor, acceptFor])
    · simp only [apiStep, apiLeave]
      split
      · exact CovRel.refl h
      · split
        · exact CovRel.refl h
        · split
          · exact CovRel.of_same h rfl (by simp [okRep, terminalFor, acceptFor])
          · exact CovRel.of_same h rfl (by simp [okRep, terminalFor, acceptFor])
    · simp only [apiStep, apiDisconnect]
      split
      · exact CovRel.of_same h rfl (by simp [okRep, terminalFor, acceptFor])
      · exact CovRel.refl h

theorem covLiftT (req : ReqId) : LiftT (CovRel req) (Cov req) (okRep req) where
  toLift := (covLiftQ req).toLift
  okOf := okRep_of_sessOut
  lc := fun {s s'} h hc hk ht => by
    have e5 := (core_fields hc).2.2.2.2
    simp only [Sess.callee, Callee.mk.injEq] at hk
    exact CovRel.of_same ⟨ht.trans h.1, by rw [hk.2.1]; exact h.2.1, by intro x hx; exact h.2.2 x (e5 ▸ hx)⟩ hk.1 (by simp)
  out := fun h ho => CovRel.of_same h rfl ho
  emit := fun {s o} h ho => by
    unfold emitCb
    split
    · exact CovRel.of_same h rfl (by simpa using ho)
    · refine CovRel.of_same ⟨h.1, h.2.1, ?_⟩ rfl (by simp)
      intro x hx
      rcases List.mem_append.mp hx with hx | hx
      · exact h.2.2 x hx
      · simp at hx; subst hx; exact ho
  enq := fun k h => CovRel.of_same ⟨h.1, h.2.1, by
    intro x hx
    rcases List.mem_append.mp hx with hx | hx
    · exact h.2.2 x hx
    · simp at hx; subst hx; rfl⟩ rfl (by simp)
  lostMap := fun {s o s'} r => by
    refine ⟨r.1, ?_⟩
    have e1 : terminals req (o.map toLost) = terminals req o := countP_map_eq (fun x => by cases x <;> rfl) o
    have e2 : accepts req (o.map toLost) = accepts req o := countP_map_eq (fun x => by cases x <;> rfl) o
    rw [e1, e2]; exact r.2
  cbqOk := fun h o ho => h.2.2 o ho
  clearQ := fun h => CovRel.of_same ⟨h.1, h.2.1, by intro x hx; simp at hx⟩ rfl (by simp)
  rejectAll := fun {s} o h =>
    (covLiftQ req).quiet h (Quiet.congr_left (rejectList_quiet s.clearTables o s.outstanding) rfl rfl)

/-! ### `_invocations` is written by the callee side only -/

def InvsSame (s : Sess) (_ : List SOut) (s' : Sess) : Prop := s'.invs = s.invs

theorem invsLiftQ : LiftQ InvsSame (fun _ => True) where
  refl := fun _ => rfl
  trans := fun h1 h2 => h2.trans h1
  post := fun _ _ => trivial
  caught := fun r => r
  quiet := fun _ q => by
    have := q.life
    simp only [Sess.life, Life.mk.injEq] at this
    exact this.2.2.2.2.1
  lifeApi := fun {s} a ha _ => by
    cases a <;> simp [Api.isLife] at ha
    · simp only [apiStep, apiJoin, InvsSame]; split <;> (try split) <;> rfl
    · simp only [apiStep, apiLeave, InvsSame]; split <;> (try split) <;> (try split) <;> rfl
    · simp only [apiStep, apiDisconnect, InvsSame]; split <;> rfl

/-! ### the callee side -/

/-- one `send()` under a covered plan: the plan stays covered; a refusal is a covered one and an acceptance follows -/
theorem replySend_cov {req : ReqId} {s : Sess} (h : Cov req s) (m : OutMsg) :
    Cov req (replySend s m).1 ∧ (replySend s m).1.invs = s.invs ∧ accepts req (replySend s m).2.1 = 0 ∧
    ((replySend s m).2.2 = .ok → terminalFor req (.send m) = true → 1 ≤ terminals req (replySend s m).2.1) ∧
    ((replySend s m).2.2 ≠ .ok → fallbackUri (replySend s m).2.2 ≠ none ∧ ∃ r', (replySend s m).1.faults = .ok :: r') := by
  obtain ⟨ht, hg, hq⟩ := h
  unfold replySend
  split
  · next hf =>
    refine ⟨⟨ht, hg, hq⟩, rfl, by simp [accepts, acceptFor], ?_, by simp⟩
    intro _ hm; simp [terminals, hm]
  · next r hf =>
    have hg' := (planUnits_tail .ok r (hf ▸ hg)).1
    refine ⟨⟨ht, hg', hq⟩, rfl, by simp [accepts, acceptFor], ?_, by simp⟩
    intro _ hm; simp [terminals, hm]
  · next f r hne hf =>
    obtain ⟨hg', hx⟩ := planUnits_tail f r (hf ▸ hg)
    have hfne : f ≠ .ok := by
      intro e; subst e
      first | exact hne rfl | exact hne r rfl | exact hne _ rfl
    obtain ⟨hk, r', hr'⟩ := hx hfne
    refine ⟨⟨ht, hg', hq⟩, rfl, by simp [accepts, acceptFor], fun e => absurd e hfne, fun _ => ⟨?_, r', hr'⟩⟩
    rcases hk with rfl | rfl <;> simp [fallbackUri]

theorem replySend_ok_head (s : Sess) (m : OutMsg) (r' : List SendOut) (h : s.faults = .ok :: r') :
    (replySend s m).2.2 = .ok := by
  unfold replySend; rw [h]

/-- `try: send(reply) except …: send(ERROR)` under a covered plan: a terminal reply goes out -/
theorem sendWithFallback_cov {req : ReqId} {s : Sess} (h : Cov req s) (r : ReqId) (m : OutMsg)
    (hm : terminalFor r (.send m) = true) :
    Cov req (sendWithFallback s r m).1 ∧ (sendWithFallback s r m).1.invs = s.invs ∧
    accepts req (sendWithFallback s r m).2 = 0 ∧ (r = req → 1 ≤ terminals req (sendWithFallback s r m).2) := by
  unfold sendWithFallback
  obtain ⟨a1, a2, a3, a4, a5⟩ := replySend_cov (req := req) h m
  simp only []
  split
  · next hok => exact ⟨a1, a2, a3, fun e => a4 hok (e ▸ hm)⟩
  · next hnok =>
    obtain ⟨hu, r', hr'⟩ := a5 hnok
    split
    · next hnone => exact absurd hnone hu
    · next u _ =>
      obtain ⟨b1, b2, b3, b4, _⟩ := replySend_cov (req := req) a1 { typ := .error, req := r, uri := u }
      have hok2 : (replySend (replySend s m).1 { typ := .error, req := r, uri := u }).2.2 = .ok :=
        replySend_ok_head _ _ r' hr'
      rw [if_pos hok2]
      refine ⟨b1, b2.trans a2, ?_, fun e => ?_⟩
      · simp [accepts_append, a3, b3]
      · have := b4 hok2 (by subst e; simp [terminalFor])
        simp only [terminals_append]
        omega

theorem invDone_cov {req : ReqId} {s : Sess} (h : Cov req s) (r : ReqId) (o : EOut) :
    CovRel req s (invDone s r o).2 (invDone s r o).1 := by
  unfold invDone
  split
  · exact CovRel.of_same h rfl (by simp [okRep, terminalFor, acceptFor])
  · next x hx =>
    have h0 : Cov req { s with invs := adel r s.invs } := h
    have hsome : (alookup r s.invs).isSome = true := by simp [hx]
    have hnt : (!s.transport) = false := by simp [h.1]
    have key : ∀ (s2 : Sess) (os : List SOut), Cov req s2 → s2.invs = adel r s.invs → accepts req os = 0 →
        (r = req → 1 ≤ terminals req os) → CovRel req s os s2 := by
      intro s2 os hq hi ha ht
      refine ⟨hq, ?_⟩
      by_cases e : r = req
      · subst e
        have : owing r s = 1 := by simp [owing, hsome]
        have := ht rfl
        omega
      · have e' : req ≠ r := fun e' => e e'.symm
        have : owing req s2 = owing req s := by simp [owing, hi, alookup_adel_ne e']
        omega
    simp only [hnt, Bool.false_eq_true, ↓reduceIte]
    split
    · obtain ⟨c1, c2, c3, c4⟩ := sendWithFallback_cov (req := req) h0 r { typ := .yield_, req := r, args := _, kwargs := _ }
        (by simp [terminalFor, isProg])
      exact key _ _ c1 c2 c3 c4
    · next e =>
      obtain ⟨c1, c2, c3, c4⟩ := sendWithFallback_cov (req := req) h0 r
        { typ := .error, req := r, uri := e.errorReply.1, args := e.errorReply.2.1, kwargs := e.errorReply.2.2 } (by simp [terminalFor])
      refine key _ _ c1 c2 ?_ (fun hr => ?_)
      · simpa [accepts, List.countP_cons, acceptFor] using c3
      · have := c4 hr
        simpa [terminals, List.countP_cons, terminalFor] using this

theorem settleInv_cov {req : ReqId} {s : Sess} (h : Cov req s) (r : ReqId) (o : EOut) :
    CovRel req s (settleInv s r o).2 (settleInv s r o).1 := by
  unfold settleInv
  split
  · exact CovRel.refl h
  · next x _ =>
    split
    · exact CovRel.refl h
    · have h1 : CovRel req s [] { s with invs := aupd r { x with st := .fired } s.invs } := by
        refine ⟨h, ?_⟩
        simp [terminals, accepts, owing, alookup_aupd_isSome]
      have h2 := (covLiftT req).defer (fun r o h => invDone_cov h r o) h1.1 (.invDone r o)
      exact CovRel.trans h1 h2

theorem progressLoop_cov {req : ReqId} {s : Sess} (h : Cov req s) (r : ReqId) (vs : List Val) :
    CovRel req s (progressLoop s r vs).2.1 (progressLoop s r vs).1 ∧ (progressLoop s r vs).1.invs = s.invs := by
  induction vs generalizing s with
  | nil => exact ⟨CovRel.refl h, rfl⟩
  | cons v vs ih =>
    unfold progressLoop
    split
    · exact ⟨CovRel.refl h, rfl⟩
    · obtain ⟨a1, a2, a3, _, _⟩ := replySend_cov (req := req) h { typ := .yield_, req := r, opts := [(.progress, .b true)], args := [v] }
      have h1 : CovRel req s (progressSend s r v).2.1 (progressSend s r v).1 := by
        refine ⟨a1, ?_⟩
        have : owing req (progressSend s r v).1 = owing req s := owing_of_invs a2
        have a3' : accepts req (progressSend s r v).2.1 = 0 := a3
        omega
      simp only []
      split
      · obtain ⟨i1, i2⟩ := ih (s := (progressSend s r v).1) a1
        exact ⟨CovRel.trans h1 i1, i2.trans a2⟩
      · exact ⟨h1, a2⟩

theorem lateProgress_cov {req : ReqId} {s : Sess} (h : Cov req s) (r : ReqId) (v : Val) :
    CovRel req s (lateProgress s r v).2 (lateProgress s r v).1 := by
  unfold lateProgress
  split
  · exact CovRel.of_same h rfl (by simp [okRep, terminalFor, acceptFor])
  · split
    · exact CovRel.of_same h rfl (by simp [okRep, terminalFor, acceptFor])
    · obtain ⟨a1, a2, a3, _, _⟩ := replySend_cov (req := req) h { typ := .yield_, req := r, opts := [(.progress, .b true)], args := [v] }
      refine ⟨a1, ?_⟩
      have e : owing req (progressSend s r v).1 = owing req s := owing_of_invs a2
      have a3' : accepts req (progressSend s r v).2.1 = 0 := a3
      simp only []
      rw [terminals_append, accepts_append, a3']
      have : accepts req (if (progressSend s r v).2.2 = SendOut.ok then [] else [SOut.caught (progressSend s r v).2.2.exc]) = 0 := by
        split <;> simp [accepts, acceptFor]
      omega

theorem onInvocation_cov {req : ReqId} {s : Sess} (h : Cov req s) (beh : List HAct) (r : ReqId) (reg : RegId)
    (p : Payload) (rp : Bool) : CovRel req s (onInvocation s beh r reg p rp).2 (onInvocation s beh r reg p rp).1 := by
  unfold onInvocation
  split
  · exact CovRel.of_same h rfl (by simp [okRep, terminalFor, acceptFor])
  · next hfree =>
    split
    · exact CovRel.of_same h rfl (by simp [okRep, terminalFor, acceptFor])
    · next g _ =>
      simp only []
      generalize hs0 : (if (g.detailsArg.isSome && rp) = true then { s with progs := r :: s.progs } else s) = s0
      have hq0 : Cov req s0 := by subst hs0; split <;> exact h
      have hi0 : s0.invs = s.invs := by subst hs0; split <;> rfl
      obtain ⟨h1, hi1⟩ := progressLoop_cov (req := req) hq0 r (if (g.detailsArg.isSome && rp) = true then (beh.headD {}).progress else [])
      generalize (progressLoop s0 r (if (g.detailsArg.isSome && rp) = true then (beh.headD {}).progress else [])) = r1 at h1 hi1 ⊢
      have h2 : CovRel req r1.1 (if r1.2.2 = true then (r1.1, []) else runCalls r1.1 none (beh.headD {}).calls).2
          (if r1.2.2 = true then (r1.1, []) else runCalls r1.1 none (beh.headD {}).calls).1 ∧
          (if r1.2.2 = true then (r1.1, []) else runCalls r1.1 none (beh.headD {}).calls).1.invs = r1.1.invs := by
        split
        · exact ⟨CovRel.refl h1.1, rfl⟩
        · exact ⟨(covLiftQ req).toLift.runCalls h1.1 none _, invsLiftQ.toLift.runCalls trivial none _⟩
      generalize (if r1.2.2 = true then (r1.1, []) else runCalls r1.1 none (beh.headD {}).calls) = r2 at h2 ⊢
      generalize (if r1.2.2 = true then some (EOut.raised .sendExc)
        else if (beh.headD {}).raises = true then some (EOut.raised (beh.headD {}).exc)
        else if (beh.headD {}).ret = Ret.pending then none else some (retOut (beh.headD {}).ret)) = outcome
      have h012 : CovRel req s (r1.2.1 ++ r2.2) r2.1 := by
        have h01 : CovRel req s r1.2.1 r1.1 := ⟨h1.1, by have := h1.2; rw [owing_of_invs hi0] at this; exact this⟩
        exact CovRel.trans h01 h2.1
      have hinvs : r2.1.invs = s.invs := h2.2.trans (hi1.trans hi0)
      have hfree' : (alookup r s.invs).isSome = false := by simpa using hfree
      -- writing the record raises the debt for `r` from 0 to 1 and leaves the others alone
      have hset : ∀ v : InvRec, owing req { r2.1 with invs := aset r v r2.1.invs } = owing req r2.1 + (if r = req then 1 else 0) := by
        intro v
        by_cases e : r = req
        · subst e; simp [owing, hinvs, hfree']
        · have : req ≠ r := fun e' => e e'.symm
          simp [owing, alookup_aset_ne this, e]
      have hcov : ∀ v : InvRec, Cov req { r2.1 with invs := aset r v r2.1.invs } := fun _ => h012.1
      refine ⟨?_, ?_⟩
      · cases outcome with
        | none => exact hcov _
        | some o => exact ((covLiftT req).defer (fun r o h => invDone_cov h r o) (hcov _) _).1
      · simp only [List.cons_append, terminals_endpoint, accepts_endpoint, terminals_append, accepts_append]
        have hb := h012.2
        simp only [terminals_append, accepts_append] at hb
        cases outcome with
        | none =>
          have hs := hset { reg := reg, st := IState.pending }
          simp only [Option.isSome_none, Bool.false_eq_true, ↓reduceIte, terminals, accepts, List.countP_nil] at hs ⊢
          simp only [terminals, accepts] at hb
          omega
        | some o =>
          have hd := ((covLiftT req).defer (fun r o h => invDone_cov h r o)
            (s := { r2.1 with invs := aset r { reg := reg, st := IState.fired } r2.1.invs }) (hcov _) (.invDone r o)).2
          have hs := hset { reg := reg, st := IState.fired }
          simp only [Option.isSome_some, ↓reduceIte] at hd hs ⊢
          omega

theorem onEstablished_cov {req : ReqId} {s : Sess} (h : Cov req s) (beh : List HAct) (m : InMsg) :
    CovRel req s (onEstablished s beh m).2 (onEstablished s beh m).1 := by
  by_cases hm : m.isReplySide = true
  · exact (covLiftQ req).established h beh m hm
  · cases m <;> simp [InMsg.isReplySide] at hm
    · simp only [onEstablished]
      split
      · exact CovRel.of_same h rfl (by simp [okRep, terminalFor, acceptFor])
      · exact (covLiftT req).goodbye h _
    · exact onInvocation_cov h beh _ _ _ _
    · exact settleInv_cov h _ _

/-- every event but `onClose` (the transport stays up), with a covered plan -/
theorem step_cov {req : ReqId} {s : Sess} (e : SEv) (h : Cov req s) (hc : ∀ a, e ≠ .closed a)
    (hf : ∀ l, e = .fault l → planUnits l = true) : CovRel req s (step s e).2 (step s e).1 := by
  have hInv : ∀ {s : Sess} (r : ReqId) (o : EOut), Cov req s → CovRel req s (invDone s r o).2 (invDone s r o).1 :=
    fun r o h => invDone_cov h r o
  cases e with
  | api a => exact (covLiftQ req).toLift.api a h
  | msg m beh =>
    simp only [step, onMessage]
    split
    · exact (covLiftT req).preSession hInv h beh m
    · exact onEstablished_cov h beh m
  | pump => exact (covLiftT req).drain hInv 8 h
  | tick => exact (covLiftT req).tick hInv h
  | open_ acts =>
    simp only [step, onOpen]
    have h0 : Cov req { s with transport := true, ended := false } := ⟨rfl, h.2.1, h.2.2⟩
    have h1 : CovRel req s [] { s with transport := true, ended := false } := CovRel.of_same h0 rfl (by simp)
    have h2 := (covLiftT req).defer hInv h0 (.connect (acts.headD {}))
    have := CovRel.trans h1 ((covLiftT req).cons (o := .fire .connect) h0 rfl h2)
    simpa using this
  | closed acts => exact absurd rfl (hc acts)
  | fault l =>
    refine CovRel.of_same ⟨h.1, ?_, h.2.2⟩ rfl (fun _ hx => by cases hx)
    exact planUnits_append _ _ h.2.1 (hf l rfl)
  | resolve r v => exact settleInv_cov h r _
  | fail r e => exact settleInv_cov h r _
  | lateProgress r v => exact lateProgress_cov h r v

/-- the events of a history in which the transport stays up and every plan is covered -/
def SEv.covered : SEv → Bool
  | .closed _ => false
  | .fault l => planUnits l
  | _ => true

theorem run_cov {req : ReqId} {s : Sess} (h : Cov req s) (hist : List SEv) (hh : hist.all SEv.covered = true) :
    CovRel req s (runOuts s hist) (runState s hist) := by
  induction hist generalizing s with
  | nil => exact CovRel.refl h
  | cons e es ih =>
    simp only [List.all_cons, Bool.and_eq_true] at hh
    rw [runOuts_cons, runState_cons]
    have h1 := step_cov (req := req) e h (by intro a he; subst he; simp [SEv.covered] at hh)
      (by intro l he; subst he; simpa [SEv.covered] using hh.1)
    exact CovRel.trans h1 (ih h1.1 hh.2)

end Abverif.Session
