import Abverif.Model.Auth
/-
C19 — helper lemmas: XOR on octet strings, hex / base64 round trips, output lengths of the
reference primitives.
-/
namespace Abverif.Crypto

/-! ### xorBytes -/

theorem xorBytes_nil_left (b : Bytes) : xorBytes [] b = [] := by simp [xorBytes]
theorem xorBytes_nil_right (a : Bytes) : xorBytes a [] = [] := by simp [xorBytes]

theorem xorBytes_cons (x y : UInt8) (a b : Bytes) :
    xorBytes (x :: a) (y :: b) = (x ^^^ y) :: xorBytes a b := by simp [xorBytes]

theorem xorBytes_length (a b : Bytes) : (xorBytes a b).length = min a.length b.length := by
  simp [xorBytes]

theorem xorBytes_length_eq {a b : Bytes} (h : a.length = b.length) : (xorBytes a b).length = a.length := by
  simp [xorBytes, h]

theorem xorBytes_comm (a b : Bytes) : xorBytes a b = xorBytes b a := by
  induction a generalizing b with
  | nil => simp [xorBytes]
  | cons x a ih =>
    cases b with
    | nil => simp [xorBytes]
    | cons y b => simp only [xorBytes_cons, ih b, UInt8.xor_comm]

theorem UInt8.xor_xor_cancel_right (x y : UInt8) : x ^^^ y ^^^ y = x := by
  rw [UInt8.xor_assoc, UInt8.xor_self, UInt8.xor_zero]

theorem UInt8.xor_xor_cancel_left (x y : UInt8) : x ^^^ (x ^^^ y) = y := by
  rw [← UInt8.xor_assoc, UInt8.xor_self, UInt8.zero_xor]

/-- XOR with the same string twice restores the input (on strings at most as long as the pad) -/
theorem xorBytes_cancel_right {a b : Bytes} (h : a.length ≤ b.length) : xorBytes (xorBytes a b) b = a := by
  induction a generalizing b with
  | nil => simp [xorBytes]
  | cons x a ih =>
    cases b with
    | nil => simp at h
    | cons y b =>
      simp only [xorBytes_cons, UInt8.xor_xor_cancel_right]
      rw [ih (by simpa using h)]

theorem xorBytes_cancel_left {a b : Bytes} (h : b.length ≤ a.length) : xorBytes a (xorBytes a b) = b := by
  rw [xorBytes_comm a b, xorBytes_comm a, xorBytes_cancel_right h]

/-- `xor_cancel`: XOR with a fixed pad is injective on strings no longer than the pad -/
theorem xorBytes_left_inj {a b c : Bytes} (ha : a.length ≤ c.length) (hb : b.length ≤ c.length)
    (h : xorBytes a c = xorBytes b c) : a = b := by
  rw [← xorBytes_cancel_right ha, h, xorBytes_cancel_right hb]

theorem xorBytes_right_inj {a b c : Bytes} (ha : a.length ≤ c.length) (hb : b.length ≤ c.length)
    (h : xorBytes c a = xorBytes c b) : a = b := by
  rw [xorBytes_comm c a, xorBytes_comm c b] at h
  exact xorBytes_left_inj ha hb h

theorem xorBytes_self (a : Bytes) : xorBytes a a = List.replicate a.length 0 := by
  induction a with
  | nil => rfl
  | cons x a ih => simp [xorBytes_cons, ih, List.replicate_succ]

/-! ### hex text -/
namespace HexText

theorem val_digit : ∀ n : Fin 16, val (digit n.val) = some n.val := by decide

theorem val_digit' {n : Nat} (h : n < 16) : val (digit n) = some n := val_digit ⟨n, h⟩

theorem encode_length (x : Bytes) : (encode x).length = 2 * x.length := by
  induction x with
  | nil => rfl
  | cons b bs ih => simp [encode, ih]; omega

theorem decode_encode (x : Bytes) : decode (encode x) = some x := by
  induction x with
  | nil => rfl
  | cons b bs ih =>
    have h1 : b.toNat / 16 < 16 := by have := b.toNat_lt; omega
    have h2 : b.toNat % 16 < 16 := by omega
    have h3 : UInt8.ofNat (b.toNat / 16 * 16 + b.toNat % 16) = b := by
      rw [Nat.div_add_mod']; exact UInt8.ofNat_toNat
    simp only [encode, decode, val_digit' h1, val_digit' h2, ih, h3]

theorem encode_append (x y : Bytes) : encode (x ++ y) = encode x ++ encode y := by
  induction x with
  | nil => rfl
  | cons b bs ih => simp [encode, ih]

theorem encode_injective {x y : Bytes} (h : encode x = encode y) : x = y := by
  have := congrArg decode h
  simpa [decode_encode] using this

/-- decoding halves the length -/
theorem decode_length : ∀ (t x : Bytes), decode t = some x → t.length = 2 * x.length
  | [], x, h => by simp [decode] at h; subst h; rfl
  | [_], x, h => by simp [decode] at h
  | a :: b :: rest, x, h => by
    simp only [decode] at h
    split at h
    · rename_i r _ _ hr
      simp only [Option.some.injEq] at h
      subst h
      have := decode_length rest _ hr
      simp [this]; omega
    · contradiction

end HexText

/-! ### base64 -/
namespace Base64

theorem val_encChar : ∀ n : Fin 64, val (encChar n.val) = some n.val := by decide
theorem encChar_ne_pad : ∀ n : Fin 64, encChar n.val ≠ pad := by decide

theorem val_encChar' {n : Nat} (h : n < 64) : val (encChar n) = some n := val_encChar ⟨n, h⟩
theorem encChar_ne_pad' {n : Nat} (h : n < 64) : encChar n ≠ pad := encChar_ne_pad ⟨n, h⟩

/-- one alphabet character read at `quad_pos = 0` -/
theorem dec_q0 {n : Nat} (h : n < 64) (l p : Nat) (cs : Bytes) :
    dec 0 l p (encChar n :: cs) = dec 1 n 0 cs := by
  rw [dec]; simp only [encChar_ne_pad' h, if_false, val_encChar' h]

theorem dec_q1 {n : Nat} (h : n < 64) (l p : Nat) (cs : Bytes) :
    dec 1 l p (encChar n :: cs) = (dec 2 (n % 16) 0 cs).map (UInt8.ofNat (l * 4 + n / 16) :: ·) := by
  rw [dec]; simp only [encChar_ne_pad' h, if_false, val_encChar' h]

theorem dec_q2 {n : Nat} (h : n < 64) (l p : Nat) (cs : Bytes) :
    dec 2 l p (encChar n :: cs) = (dec 3 (n % 4) 0 cs).map (UInt8.ofNat (l * 16 + n / 4) :: ·) := by
  rw [dec]; simp only [encChar_ne_pad' h, if_false, val_encChar' h]

theorem dec_q3 {n : Nat} (h : n < 64) (l p : Nat) (cs : Bytes) :
    dec 3 l p (encChar n :: cs) = (dec 0 0 0 cs).map (UInt8.ofNat (l * 64 + n) :: ·) := by
  rw [dec]; simp only [encChar_ne_pad' h, if_false, val_encChar' h]

theorem ofNat_of_eq {n : Nat} {a : UInt8} (h : n = a.toNat) : UInt8.ofNat n = a := by
  subst h; exact UInt8.ofNat_toNat

/-- the lenient CPython decoder inverts the encoder -/
theorem dec_encode : ∀ (x : Bytes) (l p : Nat), dec 0 l p (encode x) = some x
  | [], l, p => by simp [encode, dec]
  | [a], l, p => by
    have ha := a.toNat_lt
    rw [encode, dec_q0 (by omega), dec_q1 (by omega)]
    rw [dec]; simp only [if_true, show (2:Nat) ≥ 2 from Nat.le_refl 2]
    rw [if_neg (by omega)]
    rw [dec]; simp only [if_true, show (2:Nat) ≥ 2 from Nat.le_refl 2]
    rw [if_pos (by omega)]
    simp only [Option.map_some]
    rw [ofNat_of_eq (a := a) (by omega)]
  | [a, b], l, p => by
    have ha := a.toNat_lt
    have hb := b.toNat_lt
    rw [encode, dec_q0 (by omega), dec_q1 (by omega), dec_q2 (by omega)]
    rw [dec]; simp only [if_true, show (3:Nat) ≥ 2 by omega]
    rw [if_pos (by omega)]
    simp only [Option.map_some]
    rw [ofNat_of_eq (a := a) (by omega), ofNat_of_eq (a := b) (by omega)]
  | a :: b :: c :: rest, l, p => by
    have ha := a.toNat_lt
    have hb := b.toNat_lt
    have hc := c.toNat_lt
    rw [encode, dec_q0 (by omega), dec_q1 (by omega), dec_q2 (by omega), dec_q3 (by omega),
      dec_encode rest 0 0]
    simp only [Option.map_some]
    rw [ofNat_of_eq (a := a) (by omega), ofNat_of_eq (a := b) (by omega), ofNat_of_eq (a := c) (by omega)]

theorem pyDecode_encode (x : Bytes) : pyDecode (encode x) = some x := dec_encode x 0 0

theorem encode_injective {x y : Bytes} (h : encode x = encode y) : x = y := by
  have := congrArg pyDecode h
  simpa [pyDecode_encode] using this

theorem encChar_lt_128 : ∀ n : Fin 64, encChar n.val < 128 := by decide

/-- the encoder emits ASCII only -/
theorem encode_ascii : ∀ (x : Bytes), ∀ c ∈ encode x, c < 128
  | [], c, h => by simp [encode] at h
  | [a], c, h => by
    have ha := a.toNat_lt
    simp only [encode, List.mem_cons, List.not_mem_nil, or_false] at h
    rcases h with h | h | h | h <;> subst h
    · exact encChar_lt_128 ⟨_, by omega⟩
    · exact encChar_lt_128 ⟨_, by omega⟩
    · decide
    · decide
  | [a, b], c, h => by
    have ha := a.toNat_lt
    have hb := b.toNat_lt
    simp only [encode, List.mem_cons, List.not_mem_nil, or_false] at h
    rcases h with h | h | h | h <;> subst h
    · exact encChar_lt_128 ⟨_, by omega⟩
    · exact encChar_lt_128 ⟨_, by omega⟩
    · exact encChar_lt_128 ⟨_, by omega⟩
    · decide
  | a :: b :: c' :: rest, c, h => by
    have ha := a.toNat_lt
    have hb := b.toNat_lt
    have hc := c'.toNat_lt
    simp only [encode, List.mem_cons] at h
    rcases h with h | h | h | h | h
    · subst h; exact encChar_lt_128 ⟨_, by omega⟩
    · subst h; exact encChar_lt_128 ⟨_, by omega⟩
    · subst h; exact encChar_lt_128 ⟨_, by omega⟩
    · subst h; exact encChar_lt_128 ⟨_, by omega⟩
    · exact encode_ascii rest c h

/-- `base64.b64decode(base64.b64encode(x)) == x` for the `str` path too -/
theorem decodeStr_encode (x : Bytes) : decodeStr (encode x) = .ok x := by
  unfold decodeStr
  have : (encode x).any (· ≥ 128) = false := by
    rw [List.any_eq_false]
    intro c hc
    have := encode_ascii x c hc
    simp only [ge_iff_le, decide_eq_true_eq]
    exact Nat.not_le.mpr this
  simp [this, pyDecode_encode]

theorem encode_length : ∀ (x : Bytes), (encode x).length = 4 * ((x.length + 2) / 3)
  | [] => by simp [encode]
  | [_] => by simp [encode]
  | [_, _] => by simp [encode]
  | _ :: _ :: _ :: rest => by
    simp only [encode, List.length_cons, encode_length rest]; omega

end Base64
end Abverif.Crypto
