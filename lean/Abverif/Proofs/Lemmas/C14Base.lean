import Abverif.Model.Component
/-!
C14 — helper lemmas about the model (no monitors yet): list update, the `itertools.cycle` cursor loop `pick`,
rationals, `_Transport.next_delay`, and a case characterisation of `transport_check`.
-/
namespace Abverif.Comp

/-! ### updAt -/

theorem updAt_length (f : Tr → Tr) (l : List Tr) (i : Nat) : (updAt f l i).length = l.length := by
  induction l generalizing i with
  | nil => simp [updAt]
  | cons t ts ih => cases i <;> simp [updAt, ih]

theorem updAt_get (f : Tr → Tr) (l : List Tr) (i j : Nat) :
    (updAt f l i)[j]? = if j = i then (l[j]?).map f else l[j]? := by
  induction l generalizing i j with
  | nil => simp [updAt]
  | cons t ts ih =>
    cases i with
    | zero => cases j <;> simp [updAt]
    | succ i =>
      cases j with
      | zero => simp [updAt]
      | succ j => simp [updAt, ih]

theorem updAt_get_same (f : Tr → Tr) (l : List Tr) (i : Nat) (t : Tr) (h : l[i]? = some t) :
    (updAt f l i)[i]? = some (f t) := by simp [updAt_get, h]

theorem updAt_get_ne (f : Tr → Tr) (l : List Tr) (i j : Nat) (h : j ≠ i) :
    (updAt f l i)[j]? = l[j]? := by simp [updAt_get, h]

/-! ### rationals -/

theorem Q.le_refl (a : Q) : a.le a = true := by simp [Q.le]

theorem Q.le_of_not_lt (a b : Q) (h : a.lt b = false) : b.le a = true := by
  simp [Q.lt, Q.le] at *; omega

theorem Q.zero_le (a : Q) (h : 0 ≤ a.num) : Q.zero.le a = true := by
  simp [Q.le, Q.zero]; omega

theorem Q.zero_not_pos : Q.zero.pos = false := by simp [Q.pos, Q.zero]

theorem Q.zero_isZero : Q.zero.isZero = true := by simp [Q.isZero, Q.zero]

/-! ### `_Transport` -/

theorem Tr.nextDelay_some_of_can (t : Tr) (z : Q) (h : t.canReconnect = true) :
    ∃ r, t.nextDelay z = some r := by
  unfold Tr.canReconnect at h
  unfold Tr.nextDelay
  by_cases h0 : t.attempts = 0
  · simp [h0]
  · simp only [h0, if_false]
    split
    · rename_i hx
      split at h
      · simp at h
      · split at h
        · omega
        · simp at h; omega
    · exact ⟨_, rfl⟩

structure NextDelayFacts (t t' : Tr) (d : Q) : Prop where
  mr : t'.maxRetries = t.maxRetries
  maxD : t'.maxDelay = t.maxDelay
  att : t'.attempts = t.attempts
  pf : t'.permFail = t.permFail
  le : 0 ≤ t.maxDelay.num → d.le t.maxDelay = true
  pos : d.pos = true → t.attempts ≠ 0
  zero : t.attempts = 0 → d = Q.zero

theorem Tr.nextDelay_facts (t t' : Tr) (z d : Q) (h : t.nextDelay z = some (t', d)) :
    NextDelayFacts t t' d := by
  unfold Tr.nextDelay at h
  by_cases h0 : t.attempts = 0
  · simp [h0] at h
    obtain ⟨rfl, rfl⟩ := h
    exact ⟨rfl, rfl, rfl, rfl, fun hm => Q.zero_le _ hm, fun hp => by simp [Q.zero_not_pos] at hp, fun _ => rfl⟩
  · simp only [h0, if_false] at h
    split at h
    · simp at h
    · simp only [Option.some.injEq, Prod.mk.injEq] at h
      obtain ⟨rfl, rfl⟩ := h
      refine ⟨rfl, rfl, rfl, rfl, ?_, fun _ => h0, fun h => absurd h h0⟩
      intro _
      split
      · exact Q.le_refl _
      · rename_i hlt
        exact Q.le_of_not_lt _ _ (by simpa using hlt)

theorem Tr.canReconnect_congr (t t' : Tr) (h1 : t'.maxRetries = t.maxRetries) (h2 : t'.attempts = t.attempts)
    (h3 : t'.permFail = t.permFail) : t'.canReconnect = t.canReconnect := by
  simp [Tr.canReconnect, h1, h2, h3]

/-! ### the cursor loop -/

def canAt (trs : List Tr) (j : Nat) : Bool :=
  match trs[j]? with
  | some t => t.canReconnect
  | none => false

theorem pick_eq_find (trs : List Tr) (cur fuel : Nat) :
    pick trs cur fuel = ((List.range fuel).map (fun j => (cur + j) % trs.length)).find? (canAt trs) := by
  induction fuel generalizing cur with
  | zero => simp [pick]
  | succ f ih =>
    rw [List.range_succ_eq_map]
    simp only [List.map_cons, List.map_map, Nat.add_zero, List.find?_cons]
    unfold pick
    cases hg : trs[cur % trs.length]? with
    | none =>
      -- only possible for the empty list
      have hl : trs.length = 0 := by
        rcases Nat.eq_zero_or_pos trs.length with h | h
        · exact h
        · have := Nat.mod_lt cur h
          rw [List.getElem?_eq_none_iff] at hg
          omega
      have : trs = [] := List.eq_nil_of_length_eq_zero hl
      subst this
      have hf : ∀ j, canAt [] j = false := fun j => by simp [canAt]
      simp only [hf]
      symm
      rw [List.find?_eq_none]
      intro x _
      simp [hf]
    | some t =>
      simp only [canAt, hg]
      by_cases hc : t.canReconnect = true
      · simp [hc]
      · have hc' : t.canReconnect = false := by simpa using hc
        simp only [hc', Bool.false_eq_true, if_false]
        rw [ih]
        congr 1
        apply List.map_congr_left
        intro a _
        simp [Function.comp, Nat.add_assoc, Nat.add_comm 1 a]

theorem pick_lt (trs : List Tr) (cur fuel i : Nat) (h : pick trs cur fuel = some i) :
    ∃ t, trs[i]? = some t ∧ t.canReconnect = true := by
  rw [pick_eq_find] at h
  have := List.find?_some h
  unfold canAt at this
  split at this
  · exact ⟨_, by assumption, this⟩
  · simp at this

theorem exists_offset (n cur j : Nat) (hj : j < n) : ∃ k, k < n ∧ (cur + k) % n = j := by
  have hd := Nat.div_add_mod cur n
  have hr : cur % n < n := Nat.mod_lt _ (by omega)
  by_cases hle : cur % n ≤ j
  · refine ⟨j - cur % n, by omega, ?_⟩
    have : cur + (j - cur % n) = n * (cur / n) + j := by omega
    rw [this, Nat.mul_add_mod, Nat.mod_eq_of_lt hj]
  · refine ⟨n + j - cur % n, by omega, ?_⟩
    have : cur + (n + j - cur % n) = n * (cur / n + 1) + j := by
      rw [Nat.mul_succ]; omega
    rw [this, Nat.mul_add_mod, Nat.mod_eq_of_lt hj]

theorem pick_some_of_any (trs : List Tr) (cur : Nat) (h : trs.any Tr.canReconnect = true) :
    ∃ i, pick trs cur trs.length = some i := by
  rw [pick_eq_find]
  rw [List.any_eq_true] at h
  obtain ⟨t, hmem, hcan⟩ := h
  obtain ⟨j, hj, hget⟩ := List.getElem_of_mem hmem
  obtain ⟨k, hk, hkj⟩ := exists_offset trs.length cur j hj
  cases hf : ((List.range trs.length).map (fun j => (cur + j) % trs.length)).find? (canAt trs) with
  | some i => exact ⟨i, rfl⟩
  | none =>
    rw [List.find?_eq_none] at hf
    have := hf j (by
      rw [List.mem_map]
      exact ⟨k, List.mem_range.mpr hk, hkj⟩)
    simp [canAt, List.getElem?_eq_getElem hj, hget, hcan] at this

end Abverif.Comp
