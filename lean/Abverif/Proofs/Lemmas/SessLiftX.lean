import Abverif.Proofs.Lemmas.SessLift
/-
Generic lifting of a step relation through the lifecycle and callee parts of the session model (hooks, default
bodies, continuations, the loop, INVOCATION / INTERRUPT): a relation that only reads the request/reply fields
(`Sess.core`) and tolerates the lifecycle outputs needs the handful of facts of `LiftX`; everything else is proved here
once.
-/
namespace Abverif.Session
open Abverif.SessCodes

/-- the fields the request/reply invariants read; the lifecycle and callee branches write none of them except through
`settle`/`emitCb`/user API calls and the callback queue -/
structure Core where
  nextId : Nat
  issued : Nat
  tPublish : Table
  tSubscribe : Table
  tUnsubscribe : Table
  tCall : Table
  tRegister : Table
  tUnregister : Table
  subs : List (SubId × List SubRec)
  futs : List Fut
  cbq : List SOut

def Sess.core (s : Sess) : Core :=
  { nextId := s.nextId, issued := s.issued, tPublish := s.tPublish, tSubscribe := s.tSubscribe,
    tUnsubscribe := s.tUnsubscribe, tCall := s.tCall, tRegister := s.tRegister, tUnregister := s.tUnregister,
    subs := s.subs, futs := s.futs, cbq := s.cbq }

theorem core_tbl {s s' : Sess} (h : s'.core = s.core) (k : Kind) : s'.tbl k = s.tbl k := by
  simp only [Sess.core, Core.mk.injEq] at h
  cases k <;> simp [Sess.tbl, h]

theorem core_fields {s s' : Sess} (h : s'.core = s.core) :
    s'.nextId = s.nextId ∧ s'.issued = s.issued ∧ s'.subs = s.subs ∧ s'.futs = s.futs ∧ s'.cbq = s.cbq := by
  simp only [Sess.core, Core.mk.injEq] at h
  simp [h]

/-- the callee-side fields: running invocations, the send() plan, the progress callables handed out -/
structure Callee where
  invs : List (ReqId × InvRec)
  faults : List SendOut
  progs : List ReqId

def Sess.callee (s : Sess) : Callee := { invs := s.invs, faults := s.faults, progs := s.progs }

/-- message types the session originates outside the six request APIs -/
def lcMsg : MsgType → Bool
  | .hello | .goodbye | .abort | .authenticate | .yield_ | .error => true
  | _ => false

def lcExc : Exc → Bool
  | .alreadyCalled | .internal => false
  | _ => true

/-- outputs of the lifecycle / callee branches -/
def lcOut : SOut → Bool
  | .hook _ _ | .fire _ | .endpoint _ _ _ _ _ | .lost _ | .later _ | .userError | .transportClose | .unmodelled => true
  | .send m => lcMsg m.typ
  | .sendFail m _ => lcMsg m.typ
  | .raise_ e => lcExc e
  | .caught e => lcExc e
  | _ => false

/-- outputs of the session-lifecycle functions proper (no callee output: endpoint call, YIELD / ERROR) -/
def sessMsg : MsgType → Bool
  | .hello | .goodbye | .abort | .authenticate => true
  | _ => false

def sessOut : SOut → Bool
  | .hook _ _ | .fire _ | .lost _ | .later _ | .userError | .transportClose | .unmodelled => true
  | .send m => sessMsg m.typ
  | .raise_ e => lcExc e
  | .caught e => lcExc e
  | _ => false

/-- what a relation must know to be carried through the *session-lifecycle* functions (hooks, default bodies, the
pre-session branch, GOODBYE, onOpen / onClose, the loop): it tolerates the lifecycle outputs and the updates of
`transport` / `sessionId` / `goodbyeSent`; the callee-side functions are the relation's own business -/
structure LiftS (R : Sess → List SOut → Sess → Prop) (P : Sess → Prop) (ok : SOut → Bool) : Prop extends Lift R P where
  okOf : ∀ o, sessOut o = true → ok o = true
  lc : ∀ {s s' : Sess}, P s → s'.core = s.core → s'.callee = s.callee → R s [] s'
  out : ∀ {s : Sess} {os : List SOut}, P s → (∀ o ∈ os, ok o = true) → R s os s
  emit : ∀ {s : Sess} {o : SOut}, P s → ok o = true → R s (emitCb s o).2 (emitCb s o).1
  enq : ∀ {s : Sess} (k : Cont), P s → R s [] { s with cbq := s.cbq ++ [.later k] }
  lostMap : ∀ {s o s'}, R s o s' → R s (o.map toLost) s'
  cbqOk : ∀ {s : Sess}, P s → ∀ o ∈ s.cbq, ok o = true
  clearQ : ∀ {s : Sess}, P s → R s [] { s with cbq := [] }
  rejectAll : ∀ {s : Sess} (o : Outcome), P s →
    R s (rejectList s.clearTables o s.outstanding).2 (rejectList s.clearTables o s.outstanding).1

structure LiftX (R : Sess → List SOut → Sess → Prop) (P : Sess → Prop) (ok : SOut → Bool) : Prop extends Lift R P where
  okOf : ∀ o, lcOut o = true → ok o = true
  lc : ∀ {s s' : Sess}, P s → s'.core = s.core → R s [] s'
  out : ∀ {s : Sess} {os : List SOut}, P s → (∀ o ∈ os, ok o = true) → R s os s
  emit : ∀ {s : Sess} {o : SOut}, P s → ok o = true → R s (emitCb s o).2 (emitCb s o).1
  enq : ∀ {s : Sess} (k : Cont), P s → R s [] { s with cbq := s.cbq ++ [.later k] }
  lostMap : ∀ {s o s'}, R s o s' → R s (o.map toLost) s'
  cbqOk : ∀ {s : Sess}, P s → ∀ o ∈ s.cbq, ok o = true
  clearQ : ∀ {s : Sess}, P s → R s [] { s with cbq := [] }
  rejectAll : ∀ {s : Sess} (o : Outcome), P s →
    R s (rejectList s.clearTables o s.outstanding).2 (rejectList s.clearTables o s.outstanding).1

variable {R : Sess → List SOut → Sess → Prop} {P : Sess → Prop} {ok : SOut → Bool}

namespace LiftS

theorem outs (L : LiftS R P ok) {s : Sess} {os : List SOut} (hs : P s) (ho : ∀ o ∈ os, sessOut o = true) : R s os s :=
  L.out hs (fun o h => L.okOf o (ho o h))

theorem out1 (L : LiftS R P ok) {s : Sess} {o : SOut} (hs : P s) (ho : sessOut o = true) : R s [o] s :=
  L.outs hs (by intro x hx; simp at hx; subst hx; exact ho)

theorem cons (L : LiftS R P ok) {s s' : Sess} {o : SOut} {os : List SOut} (hs : P s) (ho : sessOut o = true)
    (h : R s os s') : R s (o :: os) s' :=
  L.trans (L.out1 hs ho) h

/-- a lifecycle-field update, then a step -/
theorem lcThen (L : LiftS R P ok) {s s' s'' : Sess} {o : List SOut} (hs : P s)
    (h : P s' → R s' o s'') (hc : s'.core = s.core) (hk : s'.callee = s.callee) : R s o s'' := by
  have h0 := L.lc hs hc hk
  exact L.trans h0 (h (L.post hs h0))

/-- a step, then a lifecycle-field update -/
theorem thenLc (L : LiftS R P ok) {s s' s'' : Sess} {o : List SOut} (hs : P s) (h : R s o s')
    (hc : s''.core = s'.core) (hk : s''.callee = s'.callee) : R s o s'' := by
  have := L.trans h (L.lc (L.post hs h) hc hk)
  rwa [List.append_nil] at this

theorem trans3 (L : LiftS R P ok) {s s1 s2 s3 : Sess} {a b c : List SOut} (h1 : R s a s1) (h2 : R s1 b s2) (h3 : R s2 c s3) :
    R s ((a ++ b) ++ c) s3 := by
  rw [List.append_assoc]; exact L.trans h1 (L.trans h2 h3)

theorem emitLc (L : LiftS R P ok) {s : Sess} {o : SOut} (hs : P s) (ho : sessOut o = true) :
    R s (emitCb s o).2 (emitCb s o).1 := L.emit hs (L.okOf o ho)

theorem runHook (L : LiftS R P ok) {s : Sess} (hs : P s) (h : Hook) (arg : Nat) (act : HAct)
    (body : Sess → Sess × List SOut) (hb : ∀ {s}, P s → R s (body s).2 (body s).1) :
    R s (Session.runHook s h arg act body).2 (Session.runHook s h arg act body).1 := by
  unfold Session.runHook
  have hb1 : R s (if act.dflt then body s else (s, [])).2 (if act.dflt then body s else (s, [])).1 := by
    split
    · exact hb hs
    · exact L.refl hs
  generalize (if act.dflt = true then body s else (s, [])) = r1 at hb1 ⊢
  simp only []
  split
  · exact L.cons hs rfl (L.lostMap hb1)
  · have h2 := L.toLift.runCalls (L.post hs hb1) none act.calls
    exact L.cons hs rfl (L.trans hb1 h2)

theorem runLeaf (L : LiftS R P ok) {s : Sess} (hs : P s) (k : Cont) :
    R s (Session.runLeaf s k).2 (Session.runLeaf s k).1 := by
  cases k with
  | closeIfTransport =>
    simp only [Session.runLeaf]
    split
    · exact L.out1 hs rfl
    · exact L.refl hs
  | welcome2 act =>
    simp only [Session.runLeaf]
    have h1 := L.runHook hs .onJoin 0 act (fun s => (s, [])) (fun h => L.refl h)
    have h2 : R (Session.runHook s .onJoin 0 act (fun s => (s, []))).1
        ((if act.raises = true then (match s.mode with | .sync => [SOut.userError] | .deferred => [SOut.lost .exception]) else []) ++ [SOut.fire .ready])
        (Session.runHook s .onJoin 0 act (fun s => (s, []))).1 := by
      refine L.outs (L.post hs h1) ?_
      intro o ho
      simp only [List.mem_append, List.mem_singleton] at ho
      rcases ho with ho | ho
      · split at ho
        · split at ho <;> simp at ho <;> subst ho <;> rfl
        · simp at ho
      · subst ho; rfl
    have := L.trans h1 h2
    rwa [← List.append_assoc] at this
  | connect _ => exact L.out1 hs rfl
  | welcome1 _ _ _ => exact L.out1 hs rfl
  | challenge1 _ _ => exact L.out1 hs rfl
  | invDone _ _ => exact L.out1 hs rfl

theorem deferLeaf (L : LiftS R P ok) {s : Sess} (hs : P s) (k : Cont) :
    R s (Session.deferLeaf s k).2 (Session.deferLeaf s k).1 := by
  unfold Session.deferLeaf
  split
  · exact L.runLeaf hs k
  · exact L.enq k hs

theorem onLeaveDefault (L : LiftS R P ok) {s : Sess} (hs : P s) (reason : Nat) :
    R s (Session.onLeaveDefault s reason).2 (Session.onLeaveDefault s reason).1 := by
  unfold Session.onLeaveDefault
  have h1 := L.rejectAll (.closed reason) hs
  exact L.trans h1 (L.deferLeaf (L.post hs h1) _)

theorem onDisconnectDefault (L : LiftS R P ok) {s : Sess} (hs : P s) :
    R s (Session.onDisconnectDefault s).2 (Session.onDisconnectDefault s).1 :=
  L.rejectAll (.closed 1) hs

theorem leaveHook (L : LiftS R P ok) {s : Sess} (hs : P s) (reason : Nat) (act : HAct) :
    R s (Session.leaveHook s reason act).2 (Session.leaveHook s reason act).1 := by
  unfold Session.leaveHook
  have h1 := L.runHook hs .onLeave reason act (fun s => Session.onLeaveDefault s reason) (fun h => L.onLeaveDefault h reason)
  refine L.trans h1 (L.emitLc (L.post hs h1) ?_)
  split <;> rfl

theorem disconnectHook (L : LiftS R P ok) {s : Sess} (hs : P s) (act : HAct) :
    R s (Session.disconnectHook s act).2 (Session.disconnectHook s act).1 := by
  unfold Session.disconnectHook
  have h1 := L.runHook hs .onDisconnect 0 act Session.onDisconnectDefault (fun h => L.onDisconnectDefault h)
  refine L.trans h1 (L.emitLc (L.post hs h1) ?_)
  split <;> rfl

theorem onClose (L : LiftS R P ok) {s : Sess} (hs : P s) (acts : List HAct) :
    R s (Session.onClose s acts).2 (Session.onClose s acts).1 := by
  unfold Session.onClose
  refine L.lcThen (s' := { s with transport := false }) hs (fun hs0 => ?_) rfl rfl
  simp only []
  split
  · have h1 := L.leaveHook hs0 1 (acts.headD {})
    refine L.trans h1 ?_
    exact L.lcThen (L.post hs0 h1) (fun h => L.disconnectHook h _) rfl rfl
  · exact L.disconnectHook hs0 _

theorem challengeFail (L : LiftS R P ok) {s : Sess} (hs : P s) (lact : HAct) :
    R s (Session.challengeFail s lact).2 (Session.challengeFail s lact).1 := by
  unfold Session.challengeFail
  split
  · exact L.outs hs (by intro x hx; simp at hx; rcases hx with hx | hx <;> subst hx <;> rfl)
  · exact L.cons hs rfl (L.cons hs rfl (L.lcThen hs (fun h => L.leaveHook h 3 lact) rfl rfl))

theorem runCont (L : LiftS R P ok)
    (hInv : ∀ {s : Sess} (req : ReqId) (o : EOut), P s → R s (Session.invDone s req o).2 (Session.invDone s req o).1) {s : Sess} (hs : P s) (k : Cont) :
    R s (Session.runCont s k).2 (Session.runCont s k).1 := by
  cases k with
  | closeIfTransport => exact L.runLeaf hs _
  | welcome2 act => exact L.runLeaf hs _
  | connect act =>
    simp only [Session.runCont]
    exact L.runHook hs .onConnect 0 act apiJoin (fun h => L.api .join h)
  | welcome1 sid res jact =>
    simp only [Session.runCont]
    cases res with
    | deny => simp only []; split; exact L.out1 hs rfl; exact L.out1 hs rfl
    | raised =>
      simp only []; split
      · exact L.outs hs (by intro x hx; simp at hx; rcases hx with hx | hx <;> subst hx <;> rfl)
      · exact L.out1 hs rfl
    | ok =>
      simp only []
      split
      · exact L.thenLc hs (L.out1 hs rfl) rfl rfl
      · refine L.lcThen (s' := { s with sessionId := some sid }) hs (fun hs1 => ?_) rfl rfl
        exact L.cons hs1 rfl (L.deferLeaf hs1 _)
  | challenge1 res lact =>
    simp only [Session.runCont]
    cases res with
    | sig =>
      simp only []
      split
      · exact L.out1 hs rfl
      · split
        · exact L.out1 hs rfl
        · exact L.challengeFail hs lact
    | none_ =>
      simp only []
      split
      · exact L.out1 hs rfl
      · exact L.challengeFail hs lact
    | raised => exact L.challengeFail hs lact
  | invDone req o => exact hInv req o hs

theorem defer (L : LiftS R P ok)
    (hInv : ∀ {s : Sess} (req : ReqId) (o : EOut), P s → R s (Session.invDone s req o).2 (Session.invDone s req o).1) {s : Sess} (hs : P s) (k : Cont) :
    R s (Session.defer s k).2 (Session.defer s k).1 := by
  unfold Session.defer
  split
  · exact L.runCont hInv hs k
  · exact L.enq k hs

theorem onOpen (L : LiftS R P ok)
    (hInv : ∀ {s : Sess} (req : ReqId) (o : EOut), P s → R s (Session.invDone s req o).2 (Session.invDone s req o).1) {s : Sess} (hs : P s) (acts : List HAct) :
    R s (Session.onOpen s acts).2 (Session.onOpen s acts).1 := by
  unfold Session.onOpen
  refine L.lcThen (s' := { s with transport := true, ended := false }) hs (fun hs0 => ?_) rfl rfl
  exact L.cons hs0 rfl (L.defer hInv hs0 _)

theorem preSession (L : LiftS R P ok)
    (hInv : ∀ {s : Sess} (req : ReqId) (o : EOut), P s → R s (Session.invDone s req o).2 (Session.invDone s req o).1) {s : Sess} (hs : P s) (beh : List HAct) (m : InMsg) :
    R s (Session.preSession s beh m).2 (Session.preSession s beh m).1 := by
  unfold Session.preSession
  split
  · exact L.out1 hs rfl
  cases m with
  | welcome sid =>
    simp only [Session.preSessionOpen]
    have h1 := L.runHook hs .onWelcome 0 (beh.headD {}) (fun s => (s, [])) (fun h => L.refl h)
    exact L.trans h1 (L.defer hInv (L.post hs h1) _)
  | abort => exact L.lcThen hs (fun h => L.leaveHook h 2 _) rfl rfl
  | challenge =>
    simp only [Session.preSessionOpen]
    have h1 := L.runHook hs .onChallenge 0 (beh.headD {}) (fun s => (s, [])) (fun h => L.refl h)
    exact L.trans h1 (L.defer hInv (L.post hs h1) _)
  | goodbye => exact L.out1 hs rfl
  | result _ _ _ => exact L.out1 hs rfl
  | error _ _ _ _ => exact L.out1 hs rfl
  | published _ _ => exact L.out1 hs rfl
  | subscribed _ _ => exact L.out1 hs rfl
  | unsubscribed _ => exact L.out1 hs rfl
  | registered _ _ => exact L.out1 hs rfl
  | unregistered _ _ => exact L.out1 hs rfl
  | event _ _ _ => exact L.out1 hs rfl
  | invocation _ _ _ _ => exact L.out1 hs rfl
  | interrupt _ => exact L.out1 hs rfl
  | other => exact L.out1 hs rfl

theorem tickList (L : LiftS R P ok)
    (hInv : ∀ {s : Sess} (req : ReqId) (o : EOut), P s → R s (Session.invDone s req o).2 (Session.invDone s req o).1) {s : Sess} (hs : P s) (items : List SOut) (hi : ∀ o ∈ items, ok o = true) :
    R s (Session.tickList s items).2 (Session.tickList s items).1 := by
  induction items generalizing s with
  | nil => exact L.refl hs
  | cons o rest ih =>
    have hrest : ∀ x ∈ rest, ok x = true := fun x hx => hi x (List.mem_cons_of_mem _ hx)
    cases o with
    | later k =>
      simp only [Session.tickList]
      have h1 := L.runCont hInv hs k
      exact L.trans h1 (ih (L.post hs h1) hrest)
    | _ =>
      simp only [Session.tickList]
      exact L.trans (L.out hs (os := [_]) (by intro x hx; simp at hx; subst hx; exact hi _ List.mem_cons_self)) (ih hs hrest)

theorem tick (L : LiftS R P ok)
    (hInv : ∀ {s : Sess} (req : ReqId) (o : EOut), P s → R s (Session.invDone s req o).2 (Session.invDone s req o).1) {s : Sess} (hs : P s) : R s (Session.tick s).2 (Session.tick s).1 := by
  unfold Session.tick
  have h0 := L.clearQ hs
  exact L.trans h0 (L.tickList hInv (L.post hs h0) s.cbq (L.cbqOk hs))

theorem drain (L : LiftS R P ok)
    (hInv : ∀ {s : Sess} (req : ReqId) (o : EOut), P s → R s (Session.invDone s req o).2 (Session.invDone s req o).1) (n : Nat) {s : Sess} (hs : P s) : R s (Session.drain n s).2 (Session.drain n s).1 := by
  induction n generalizing s with
  | zero => exact L.refl hs
  | succ n ih =>
    unfold Session.drain
    split
    · exact L.refl hs
    · have h1 := L.tick hInv hs
      exact L.trans h1 (ih (L.post hs h1))

/-- the whole step function, given the established-session branch -/
theorem goodbye (L : LiftS R P ok) {s : Sess} (hs : P s) (act : HAct) :
    R s ((if s.goodbyeSent then [] else [SOut.send { typ := .goodbye }]) ++ (Session.leaveHook { s with sessionId := none, ended := true } 0 act).2)
      (Session.leaveHook { s with sessionId := none, ended := true } 0 act).1 := by
  have h1 : R s (if s.goodbyeSent then [] else [SOut.send { typ := .goodbye }]) s := by
    split
    · exact L.refl hs
    · exact L.out1 hs rfl
  exact L.trans h1 (L.lcThen hs (fun h => L.leaveHook h 0 act) rfl rfl)


end LiftS

namespace LiftX

theorem outs (L : LiftX R P ok) {s : Sess} {os : List SOut} (hs : P s) (ho : ∀ o ∈ os, lcOut o = true) : R s os s :=
  L.out hs (fun o h => L.okOf o (ho o h))

theorem out1 (L : LiftX R P ok) {s : Sess} {o : SOut} (hs : P s) (ho : lcOut o = true) : R s [o] s :=
  L.outs hs (by intro x hx; simp at hx; subst hx; exact ho)

theorem cons (L : LiftX R P ok) {s s' : Sess} {o : SOut} {os : List SOut} (hs : P s) (ho : lcOut o = true)
    (h : R s os s') : R s (o :: os) s' :=
  L.trans (L.out1 hs ho) h

/-- a lifecycle-field update, then a step -/
theorem lcThen (L : LiftX R P ok) {s s' s'' : Sess} {o : List SOut} (hs : P s)
    (h : P s' → R s' o s'') (hc : s'.core = s.core) : R s o s'' := by
  have h0 := L.lc hs hc
  exact L.trans h0 (h (L.post hs h0))

/-- a step, then a lifecycle-field update -/
theorem thenLc (L : LiftX R P ok) {s s' s'' : Sess} {o : List SOut} (hs : P s) (h : R s o s')
    (hc : s''.core = s'.core) : R s o s'' := by
  have := L.trans h (L.lc (L.post hs h) hc)
  rwa [List.append_nil] at this

theorem trans3 (L : LiftX R P ok) {s s1 s2 s3 : Sess} {a b c : List SOut} (h1 : R s a s1) (h2 : R s1 b s2) (h3 : R s2 c s3) :
    R s ((a ++ b) ++ c) s3 := by
  rw [List.append_assoc]; exact L.trans h1 (L.trans h2 h3)

theorem emitLc (L : LiftX R P ok) {s : Sess} {o : SOut} (hs : P s) (ho : lcOut o = true) :
    R s (emitCb s o).2 (emitCb s o).1 := L.emit hs (L.okOf o ho)

theorem runHook (L : LiftX R P ok) {s : Sess} (hs : P s) (h : Hook) (arg : Nat) (act : HAct)
    (body : Sess → Sess × List SOut) (hb : ∀ {s}, P s → R s (body s).2 (body s).1) :
    R s (Session.runHook s h arg act body).2 (Session.runHook s h arg act body).1 := by
  unfold Session.runHook
  have hb1 : R s (if act.dflt then body s else (s, [])).2 (if act.dflt then body s else (s, [])).1 := by
    split
    · exact hb hs
    · exact L.refl hs
  generalize (if act.dflt = true then body s else (s, [])) = r1 at hb1 ⊢
  simp only []
  split
  · exact L.cons hs rfl (L.lostMap hb1)
  · have h2 := L.toLift.runCalls (L.post hs hb1) none act.calls
    exact L.cons hs rfl (L.trans hb1 h2)

theorem runLeaf (L : LiftX R P ok) {s : Sess} (hs : P s) (k : Cont) :
    R s (Session.runLeaf s k).2 (Session.runLeaf s k).1 := by
  cases k with
  | closeIfTransport =>
    simp only [Session.runLeaf]
    split
    · exact L.out1 hs rfl
    · exact L.refl hs
  | welcome2 act =>
    simp only [Session.runLeaf]
    have h1 := L.runHook hs .onJoin 0 act (fun s => (s, [])) (fun h => L.refl h)
    have h2 : R (Session.runHook s .onJoin 0 act (fun s => (s, []))).1
        ((if act.raises = true then (match s.mode with | .sync => [SOut.userError] | .deferred => [SOut.lost .exception]) else []) ++ [SOut.fire .ready])
        (Session.runHook s .onJoin 0 act (fun s => (s, []))).1 := by
      refine L.outs (L.post hs h1) ?_
      intro o ho
      simp only [List.mem_append, List.mem_singleton] at ho
      rcases ho with ho | ho
      · split at ho
        · split at ho <;> simp at ho <;> subst ho <;> rfl
        · simp at ho
      · subst ho; rfl
    have := L.trans h1 h2
    rwa [← List.append_assoc] at this
  | connect _ => exact L.out1 hs rfl
  | welcome1 _ _ _ => exact L.out1 hs rfl
  | challenge1 _ _ => exact L.out1 hs rfl
  | invDone _ _ => exact L.out1 hs rfl

theorem deferLeaf (L : LiftX R P ok) {s : Sess} (hs : P s) (k : Cont) :
    R s (Session.deferLeaf s k).2 (Session.deferLeaf s k).1 := by
  unfold Session.deferLeaf
  split
  · exact L.runLeaf hs k
  · exact L.enq k hs

theorem onLeaveDefault (L : LiftX R P ok) {s : Sess} (hs : P s) (reason : Nat) :
    R s (Session.onLeaveDefault s reason).2 (Session.onLeaveDefault s reason).1 := by
  unfold Session.onLeaveDefault
  have h1 := L.rejectAll (.closed reason) hs
  exact L.trans h1 (L.deferLeaf (L.post hs h1) _)

theorem onDisconnectDefault (L : LiftX R P ok) {s : Sess} (hs : P s) :
    R s (Session.onDisconnectDefault s).2 (Session.onDisconnectDefault s).1 :=
  L.rejectAll (.closed 1) hs

theorem leaveHook (L : LiftX R P ok) {s : Sess} (hs : P s) (reason : Nat) (act : HAct) :
    R s (Session.leaveHook s reason act).2 (Session.leaveHook s reason act).1 := by
  unfold Session.leaveHook
  have h1 := L.runHook hs .onLeave reason act (fun s => Session.onLeaveDefault s reason) (fun h => L.onLeaveDefault h reason)
  refine L.trans h1 (L.emitLc (L.post hs h1) ?_)
  split <;> rfl

theorem disconnectHook (L : LiftX R P ok) {s : Sess} (hs : P s) (act : HAct) :
    R s (Session.disconnectHook s act).2 (Session.disconnectHook s act).1 := by
  unfold Session.disconnectHook
  have h1 := L.runHook hs .onDisconnect 0 act Session.onDisconnectDefault (fun h => L.onDisconnectDefault h)
  refine L.trans h1 (L.emitLc (L.post hs h1) ?_)
  split <;> rfl

theorem onClose (L : LiftX R P ok) {s : Sess} (hs : P s) (acts : List HAct) :
    R s (Session.onClose s acts).2 (Session.onClose s acts).1 := by
  unfold Session.onClose
  refine L.lcThen (s' := { s with transport := false }) hs (fun hs0 => ?_) rfl
  simp only []
  split
  · have h1 := L.leaveHook hs0 1 (acts.headD {})
    refine L.trans h1 ?_
    exact L.lcThen (L.post hs0 h1) (fun h => L.disconnectHook h _) rfl
  · exact L.disconnectHook hs0 _

theorem replySend (L : LiftX R P ok) {s : Sess} (hs : P s) (m : OutMsg) (hm : lcMsg m.typ = true) :
    R s (Session.replySend s m).2.1 (Session.replySend s m).1 := by
  unfold Session.replySend
  split
  · exact L.out1 hs hm
  · exact L.thenLc hs (L.out1 hs hm) rfl
  · exact L.thenLc hs (L.out1 hs hm) rfl

theorem sendWithFallback (L : LiftX R P ok) {s : Sess} (hs : P s) (req : ReqId) (m : OutMsg) (hm : lcMsg m.typ = true) :
    R s (Session.sendWithFallback s req m).2 (Session.sendWithFallback s req m).1 := by
  unfold Session.sendWithFallback
  have h1 := L.replySend hs m hm
  simp only []
  split
  · exact h1
  · split
    · exact L.trans h1 (L.out1 (L.post hs h1) rfl)
    · next u _ =>
      have h2 := L.replySend (L.post hs h1) { typ := .error, req := req, uri := u } rfl
      have h3 : R (Session.replySend (Session.replySend s m).1 { typ := .error, req := req, uri := u }).1
          (if (Session.replySend (Session.replySend s m).1 { typ := .error, req := req, uri := u }).2.2 = SendOut.ok then []
            else [SOut.lost (Session.replySend (Session.replySend s m).1 { typ := .error, req := req, uri := u }).2.2.exc])
          (Session.replySend (Session.replySend s m).1 { typ := .error, req := req, uri := u }).1 := by
        split
        · exact L.refl (L.post (L.post hs h1) h2)
        · exact L.out1 (L.post (L.post hs h1) h2) rfl
      have := L.trans (L.trans h1 h2) h3
      exact this

theorem invDone (L : LiftX R P ok) {s : Sess} (hs : P s) (req : ReqId) (o : EOut) :
    R s (Session.invDone s req o).2 (Session.invDone s req o).1 := by
  unfold Session.invDone
  split
  · exact L.out1 hs rfl
  · refine L.lcThen (s' := { s with invs := adel req s.invs }) hs (fun hs0 => ?_) rfl
    simp only []
    split
    · split
      · exact L.refl hs0
      · exact L.sendWithFallback hs0 req _ rfl
    · split
      · exact L.outs hs0 (by intro x hx; simp at hx; rcases hx with hx | hx <;> subst hx <;> rfl)
      · exact L.cons hs0 rfl (L.sendWithFallback hs0 req _ rfl)

theorem challengeFail (L : LiftX R P ok) {s : Sess} (hs : P s) (lact : HAct) :
    R s (Session.challengeFail s lact).2 (Session.challengeFail s lact).1 := by
  unfold Session.challengeFail
  split
  · exact L.outs hs (by intro x hx; simp at hx; rcases hx with hx | hx <;> subst hx <;> rfl)
  · exact L.cons hs rfl (L.cons hs rfl (L.lcThen hs (fun h => L.leaveHook h 3 lact) rfl))

theorem runCont (L : LiftX R P ok) {s : Sess} (hs : P s) (k : Cont) :
    R s (Session.runCont s k).2 (Session.runCont s k).1 := by
  cases k with
  | closeIfTransport => exact L.runLeaf hs _
  | welcome2 act => exact L.runLeaf hs _
  | connect act =>
    simp only [Session.runCont]
    exact L.runHook hs .onConnect 0 act apiJoin (fun h => L.api .join h)
  | welcome1 sid res jact =>
    simp only [Session.runCont]
    cases res with
    | deny => simp only []; split; exact L.out1 hs rfl; exact L.out1 hs rfl
    | raised =>
      simp only []; split
      · exact L.outs hs (by intro x hx; simp at hx; rcases hx with hx | hx <;> subst hx <;> rfl)
      · exact L.out1 hs rfl
    | ok =>
      simp only []
      split
      · exact L.thenLc hs (L.out1 hs rfl) rfl
      · refine L.lcThen (s' := { s with sessionId := some sid }) hs (fun hs1 => ?_) rfl
        exact L.cons hs1 rfl (L.deferLeaf hs1 _)
  | challenge1 res lact =>
    simp only [Session.runCont]
    cases res with
    | sig =>
      simp only []
      split
      · exact L.out1 hs rfl
      · split
        · exact L.out1 hs rfl
        · exact L.challengeFail hs lact
    | none_ =>
      simp only []
      split
      · exact L.out1 hs rfl
      · exact L.challengeFail hs lact
    | raised => exact L.challengeFail hs lact
  | invDone req o => exact L.invDone hs req o

theorem defer (L : LiftX R P ok) {s : Sess} (hs : P s) (k : Cont) :
    R s (Session.defer s k).2 (Session.defer s k).1 := by
  unfold Session.defer
  split
  · exact L.runCont hs k
  · exact L.enq k hs

theorem settleInv (L : LiftX R P ok) {s : Sess} (hs : P s) (req : ReqId) (o : EOut) :
    R s (Session.settleInv s req o).2 (Session.settleInv s req o).1 := by
  unfold Session.settleInv
  split
  · exact L.refl hs
  · split
    · exact L.refl hs
    · exact L.lcThen hs (fun h => L.defer h _) rfl

theorem onOpen (L : LiftX R P ok) {s : Sess} (hs : P s) (acts : List HAct) :
    R s (Session.onOpen s acts).2 (Session.onOpen s acts).1 := by
  unfold Session.onOpen
  refine L.lcThen (s' := { s with transport := true, ended := false }) hs (fun hs0 => ?_) rfl
  exact L.cons hs0 rfl (L.defer hs0 _)

theorem preSession (L : LiftX R P ok) {s : Sess} (hs : P s) (beh : List HAct) (m : InMsg) :
    R s (Session.preSession s beh m).2 (Session.preSession s beh m).1 := by
  unfold Session.preSession
  split
  · exact L.out1 hs rfl
  cases m with
  | welcome sid =>
    simp only [Session.preSessionOpen]
    have h1 := L.runHook hs .onWelcome 0 (beh.headD {}) (fun s => (s, [])) (fun h => L.refl h)
    exact L.trans h1 (L.defer (L.post hs h1) _)
  | abort => exact L.lcThen hs (fun h => L.leaveHook h 2 _) rfl
  | challenge =>
    simp only [Session.preSessionOpen]
    have h1 := L.runHook hs .onChallenge 0 (beh.headD {}) (fun s => (s, [])) (fun h => L.refl h)
    exact L.trans h1 (L.defer (L.post hs h1) _)
  | goodbye => exact L.out1 hs rfl
  | result _ _ _ => exact L.out1 hs rfl
  | error _ _ _ _ => exact L.out1 hs rfl
  | published _ _ => exact L.out1 hs rfl
  | subscribed _ _ => exact L.out1 hs rfl
  | unsubscribed _ => exact L.out1 hs rfl
  | registered _ _ => exact L.out1 hs rfl
  | unregistered _ _ => exact L.out1 hs rfl
  | event _ _ _ => exact L.out1 hs rfl
  | invocation _ _ _ _ => exact L.out1 hs rfl
  | interrupt _ => exact L.out1 hs rfl
  | other => exact L.out1 hs rfl

theorem progressLoop (L : LiftX R P ok) {s : Sess} (hs : P s) (req : ReqId) (vs : List Val) :
    R s (Session.progressLoop s req vs).2.1 (Session.progressLoop s req vs).1 := by
  induction vs generalizing s with
  | nil => exact L.refl hs
  | cons v vs ih =>
    unfold Session.progressLoop
    split
    · exact L.refl hs
    · have h1 : R s (Session.progressSend s req v).2.1 (Session.progressSend s req v).1 := L.replySend hs _ rfl
      simp only []
      split
      · exact L.trans h1 (ih (L.post hs h1))
      · exact h1

theorem onInvocation (L : LiftX R P ok) {s : Sess} (hs : P s) (beh : List HAct) (req : ReqId) (reg : RegId)
    (p : Payload) (rp : Bool) :
    R s (Session.onInvocation s beh req reg p rp).2 (Session.onInvocation s beh req reg p rp).1 := by
  unfold Session.onInvocation
  split
  · exact L.out1 hs rfl
  · split
    · exact L.out1 hs rfl
    · next g _ =>
      simp only []
      generalize hs0 : (if (g.detailsArg.isSome && rp) = true then { s with progs := req :: s.progs } else s) = s0
      have hc0 : s0.core = s.core := by subst hs0; split <;> rfl
      have h0 := L.lc hs hc0
      have hp0 := L.post hs h0
      have h1 := L.progressLoop hp0 req (if (g.detailsArg.isSome && rp) = true then (beh.headD {}).progress else [])
      generalize (Session.progressLoop s0 req (if (g.detailsArg.isSome && rp) = true then (beh.headD {}).progress else [])) = r1 at h1 ⊢
      have hp1 := L.post hp0 h1
      have h2 : R r1.1 (if r1.2.2 = true then (r1.1, []) else runCalls r1.1 none (beh.headD {}).calls).2
          (if r1.2.2 = true then (r1.1, []) else runCalls r1.1 none (beh.headD {}).calls).1 := by
        split
        · exact L.refl hp1
        · exact L.toLift.runCalls hp1 none _
      generalize (if r1.2.2 = true then (r1.1, []) else runCalls r1.1 none (beh.headD {}).calls) = r2 at h2 ⊢
      have hp2 := L.post hp1 h2
      generalize (if r1.2.2 = true then some (EOut.raised .sendExc)
        else if (beh.headD {}).raises = true then some (EOut.raised (beh.headD {}).exc)
        else if (beh.headD {}).ret = Ret.pending then none else some (retOut (beh.headD {}).ret)) = outcome
      refine L.cons hs rfl ?_
      refine L.trans3 (L.trans h0 h1) h2 ?_
      cases outcome with
      | some o => exact L.lcThen hp2 (fun h => L.defer h _) rfl
      | none => exact L.lc hp2 rfl

theorem lateProgress (L : LiftX R P ok) {s : Sess} (hs : P s) (req : ReqId) (v : Val) :
    R s (Session.lateProgress s req v).2 (Session.lateProgress s req v).1 := by
  unfold Session.lateProgress
  split
  · exact L.out1 hs rfl
  · split
    · exact L.out1 hs rfl
    · have h1 : R s (Session.progressSend s req v).2.1 (Session.progressSend s req v).1 := L.replySend hs _ rfl
      simp only []
      refine L.trans h1 ?_
      split
      · exact L.refl (L.post hs h1)
      · refine L.out1 (L.post hs h1) ?_
        generalize (Session.progressSend s req v).2.2 = f
        cases f <;> rfl

theorem tickList (L : LiftX R P ok) {s : Sess} (hs : P s) (items : List SOut) (hi : ∀ o ∈ items, ok o = true) :
    R s (Session.tickList s items).2 (Session.tickList s items).1 := by
  induction items generalizing s with
  | nil => exact L.refl hs
  | cons o rest ih =>
    have hrest : ∀ x ∈ rest, ok x = true := fun x hx => hi x (List.mem_cons_of_mem _ hx)
    cases o with
    | later k =>
      simp only [Session.tickList]
      have h1 := L.runCont hs k
      exact L.trans h1 (ih (L.post hs h1) hrest)
    | _ =>
      simp only [Session.tickList]
      exact L.trans (L.out hs (os := [_]) (by intro x hx; simp at hx; subst hx; exact hi _ List.mem_cons_self)) (ih hs hrest)

theorem tick (L : LiftX R P ok) {s : Sess} (hs : P s) : R s (Session.tick s).2 (Session.tick s).1 := by
  unfold Session.tick
  have h0 := L.clearQ hs
  exact L.trans h0 (L.tickList (L.post hs h0) s.cbq (L.cbqOk hs))

theorem drain (L : LiftX R P ok) (n : Nat) {s : Sess} (hs : P s) : R s (Session.drain n s).2 (Session.drain n s).1 := by
  induction n generalizing s with
  | zero => exact L.refl hs
  | succ n ih =>
    unfold Session.drain
    split
    · exact L.refl hs
    · have h1 := L.tick hs
      exact L.trans h1 (ih (L.post hs h1))

/-- the whole step function, given the established-session branch -/
theorem step (L : LiftX R P ok)
    (hest : ∀ {s : Sess} (beh : List HAct) (m : InMsg), P s → R s (onEstablished s beh m).2 (onEstablished s beh m).1)
    {s : Sess} (hs : P s) (e : SEv) : R s (Session.step s e).2 (Session.step s e).1 := by
  cases e with
  | api a => exact L.api a hs
  | msg m beh =>
    simp only [Session.step, onMessage]
    split
    · exact L.preSession hs beh m
    · exact hest beh m hs
  | pump => exact L.drain 8 hs
  | tick => exact L.tick hs
  | open_ acts => exact L.onOpen hs acts
  | closed acts => exact L.onClose hs acts
  | fault l => exact L.lc hs rfl
  | resolve req r => exact L.settleInv hs req _
  | fail req e => exact L.settleInv hs req _
  | lateProgress req v => exact L.lateProgress hs req v

/-- the GOODBYE branch of an established session -/
theorem goodbye (L : LiftX R P ok) {s : Sess} (hs : P s) (act : HAct) :
    R s ((if s.goodbyeSent then [] else [SOut.send { typ := .goodbye }]) ++ (Session.leaveHook { s with sessionId := none, ended := true } 0 act).2)
      (Session.leaveHook { s with sessionId := none, ended := true } 0 act).1 := by
  have h1 : R s (if s.goodbyeSent then [] else [SOut.send { typ := .goodbye }]) s := by
    split
    · exact L.refl hs
    · exact L.out1 hs rfl
  exact L.trans h1 (L.lcThen hs (fun h => L.leaveHook h 0 act) rfl)

end LiftX

end Abverif.Session
