import Abverif.Model.Handshake
import Abverif.Proofs.Lemmas.C07Str
import Abverif.Proofs.Lemmas.C07Stage
/-!
C07 — the reconstructed origin `scheme://host:port` never contains a newline, so the `$`-before-trailing-newline
quirk of the regex that `wildcards2patterns` builds is unreachable and the model's `reMatch` is `Glob.fullMatch`.
-/
namespace Abverif.Handshake
open Abverif Abverif.Http Abverif.Url

/-- no LF -/
def NoNl (s : Bytes) : Prop := (10 : UInt8) ∉ s

theorem NoNl.sub {s t : Bytes} (h : NoNl s) (hs : ∀ c ∈ t, c ∈ s) : NoNl t := fun m => h (hs _ m)

theorem noNl_append {a b : Bytes} : NoNl (a ++ b) ↔ NoNl a ∧ NoNl b := by
  simp [NoNl, List.mem_append, not_or]

theorem lowerC_nl : ∀ c : UInt8, lowerC c = 10 → c = 10 := by decide +kernel

theorem noNl_lower {s : Bytes} (h : NoNl s) : NoNl (lower s) := by
  intro m
  simp [lower] at m
  obtain ⟨c, hc, e⟩ := m
  exact h (lowerC_nl c e ▸ hc)

theorem noNl_sanitize (u : Bytes) : NoNl (sanitize u) := by
  intro m
  simp [sanitize] at m

theorem noNl_take {s : Bytes} (h : NoNl s) (n : Nat) : NoNl (s.take n) := h.sub fun _ m => List.mem_of_mem_take m
theorem noNl_drop {s : Bytes} (h : NoNl s) (n : Nat) : NoNl (s.drop n) := h.sub fun _ m => List.mem_of_mem_drop m
theorem noNl_takeWhile {s : Bytes} (h : NoNl s) (p : UInt8 → Bool) : NoNl (s.takeWhile p) :=
  h.sub fun _ m => (List.takeWhile_sublist p).subset m
theorem noNl_dropWhile {s : Bytes} (h : NoNl s) (p : UInt8 → Bool) : NoNl (s.dropWhile p) :=
  h.sub fun _ m => (List.dropWhile_sublist p).subset m

theorem noNl_cut {c : UInt8} {s a b : Bytes} (h : NoNl s) (e : cut c s = some (a, b)) : NoNl a ∧ NoNl b := by
  have := (cut_some_iff c s a b).1 e
  rw [this.1] at h
  have := noNl_append.1 h
  exact ⟨this.1, fun m => this.2 (by simp [m])⟩

theorem noNl_rcut {c : UInt8} {s a b : Bytes} (h : NoNl s) (e : rcut c s = some (a, b)) : NoNl a ∧ NoNl b := by
  have := (rcut_some_iff c s a b).1 e
  rw [this.1] at h
  have := noNl_append.1 h
  exact ⟨this.1, fun m => this.2 (by simp [m])⟩

theorem noNl_splitScheme {u : Bytes} (h : NoNl u) : NoNl (splitScheme u).1 ∧ NoNl (splitScheme u).2 := by
  unfold splitScheme
  split
  · split
    · exact ⟨noNl_lower (noNl_take h _), noNl_drop h _⟩
    · exact ⟨by simp [NoNl], h⟩
  · exact ⟨by simp [NoNl], h⟩

theorem noNl_splitAuthority (brOk : Bytes → Bool) {u : Bytes} (h : NoNl u) : NoNl (splitAuthority brOk u).1 := by
  unfold splitAuthority
  split
  · next r =>
    have : NoNl r := h.sub (by intro c m; simp [m])
    simp only [splitNetloc]
    exact noNl_takeWhile this _
  · simp [NoNl]

theorem noNl_urlsplit {brOk : Bytes → Bool} {url : Bytes} {u : Split} (e : urlsplit brOk url = some u) :
    NoNl u.scheme ∧ NoNl u.netloc := by
  unfold urlsplit at e
  have hs := noNl_splitScheme (noNl_sanitize url)
  simp only at e
  split at e
  · simp at e
  · simp at e
    rw [← e]
    exact ⟨hs.1, noNl_splitAuthority brOk hs.2⟩

theorem noNl_splitAt1 {c : UInt8} {s : Bytes} (h : NoNl s) : NoNl (splitAt1 c s).1 ∧ NoNl (splitAt1 c s).2 := by
  unfold splitAt1
  split
  · next a b e => exact noNl_cut h e
  · exact ⟨h, by simp [NoNl]⟩

theorem noNl_hostinfo {n : Bytes} (h : NoNl n) : NoNl (hostinfo n).1 := by
  unfold hostinfo
  have hhi : NoNl (afterUserinfo n) := by
    unfold afterUserinfo
    split
    · next p e => exact (noNl_rcut (a := p.1) (b := p.2) h e).2
    · exact h
  simp only
  split
  · next p e =>
    have hbr := (noNl_cut (a := p.1) (b := p.2) hhi e).2
    exact (noNl_splitAt1 hbr).1
  · exact (noNl_splitAt1 hhi).1

theorem noNl_hostname {n h : Bytes} (hn : NoNl n) (e : hostname n = some h) : NoNl h := by
  unfold hostname at e
  have hi := noNl_hostinfo hn
  generalize (hostinfo n).1 = x at e hi
  simp only at e
  split at e
  · simp at e
  · split at e
    · next a z ec =>
      simp at e
      rw [← e]
      have := noNl_cut hi ec
      have h1 := noNl_lower this.1
      simp [NoNl, List.mem_append] at *
      exact ⟨h1, this.2⟩
    · simp at e
      rw [← e]
      exact noNl_lower hi

theorem digit_isDigit : ∀ d, d < 10 → isDigit (UInt8.ofNat (48 + d)) = true := by decide

theorem natDigitsGo_digits (fuel n : Nat) (acc : Bytes) (h : ∀ c ∈ acc, isDigit c = true) :
    ∀ c ∈ natDigitsGo fuel n acc, isDigit c = true := by
  induction fuel generalizing n acc with
  | zero => simpa [natDigitsGo] using h
  | succ f ih =>
    unfold natDigitsGo
    split
    · next hn =>
      intro c hc
      rw [List.mem_cons] at hc
      rcases hc with rfl | hc
      · exact digit_isDigit n hn
      · exact h c hc
    · apply ih
      intro c hc
      rw [List.mem_cons] at hc
      rcases hc with rfl | hc
      · exact digit_isDigit _ (Nat.mod_lt _ (by omega))
      · exact h c hc

theorem natDigits_digits (n : Nat) : ∀ c ∈ natDigits n, isDigit c = true :=
  natDigitsGo_digits _ _ _ (by simp)

theorem natDigits_noNl (n : Nat) : NoNl (natDigits n) := by
  intro m
  have := natDigits_digits n _ m
  simp [isDigit] at this

theorem originHeader_noNl {brOk : Bytes → Bool} {v s h : Bytes} {p : Option Nat}
    (e : urlToOrigin brOk v = some (.triple s h p)) : NoNl (originHeader s h p) := by
  unfold urlToOrigin at e
  split at e
  · simp at e
  · split at e
    · simp at e
    · next u hu =>
      have hu' := noNl_urlsplit hu
      split at e
      · simp at e
      · split at e
        · simp at e
        · next pp hp =>
          cases hh : hostname u.netloc with
          | none => simp [hh] at e
          | some hn =>
            simp [hh] at e
            obtain ⟨rfl, rfl, rfl⟩ := e
            have hh' := noNl_hostname hu'.2 hh
            unfold originHeader
            simp only [noNl_append]
            refine ⟨⟨⟨⟨hu'.1, by simp [NoNl]⟩, hh'⟩, by simp [NoNl]⟩, ?_⟩
            split
            · exact natDigits_noNl _
            · simp [NoNl]

/-- the model's regex reading of the allowed-origins policy is whole-string glob matching -/
theorem isSameOrigin_eq_fullMatch {brOk : Bytes → Bool} {v s h : Bytes} {p : Option Nat} (pats : List Bytes)
    (e : urlToOrigin brOk v = some (.triple s h p)) :
    isSameOrigin (.triple s h p) pats = pats.any (fun pat => Glob.fullMatch pat (originHeader s h p)) := by
  unfold isSameOrigin
  simp only
  congr 1
  funext pat
  exact Glob.reMatch_eq_fullMatch pat _ (originHeader_noNl e)

theorem stageOrigin_ok {cfg : SrvCfg} {env : SrvEnv} {hs : List Hdr} (wf : HdrsWf hs) (ver : Nat) :
    stageOrigin cfg env hs ver = .ok () ↔
      (count hs (originKey ver) = 0 ∨
       (count hs (originKey ver) = 1 ∧ originAllowed cfg env (value hs (originKey ver)) = true)) := by
  rw [count_eq_one wf]
  unfold stageOrigin value originAllowed count
  cases e : hget hs (originKey ver) with
  | none => simp
  | some h =>
    have hpos := wf h (hget_mem e)
    simp only [Option.some.injEq, exists_eq_left']
    by_cases hc : h.cnt > 1
    · simp [hc, bad]; omega
    · simp only [hc, if_false, not_false_eq_true, true_and]
      have h0 : h.cnt ≠ 0 := by omega
      simp only [h0, false_or]
      cases ho : urlToOrigin env.brOk (strip h.val) with
      | none => simp [bad]
      | some o =>
        cases o with
        | null =>
          simp [isSameOrigin]
          by_cases hn : cfg.allowNullOrigin = true
          · simp [hn]
          · simp [hn, bad]
        | triple s hh p =>
          simp only
          rw [isSameOrigin_eq_fullMatch _ ho]
          simp
          constructor
          · intro hx
            by_cases hex : ∃ x, x ∈ cfg.allowedOrigins ∧ Glob.fullMatch x (originHeader s hh p) = true
            · exact hex
            · have hall : ∀ x, x ∈ cfg.allowedOrigins → Glob.fullMatch x (originHeader s hh p) = false := by
                intro x hxm
                cases hf : Glob.fullMatch x (originHeader s hh p) with
                | false => rfl
                | true => exact absurd ⟨x, hxm, hf⟩ hex
              have := hx hall
              simp [bad] at this
          · rintro ⟨x, hx, hf⟩ hall
            simp [hall x hx] at hf

end Abverif.Handshake
