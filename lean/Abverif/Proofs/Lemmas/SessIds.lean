import Abverif.Proofs.Lemmas.SessLiftX
/-
Request ids: the k-th id drawn from a session object is ((k-1) mod idMax)+1 and every request message carries the id drawn for it.
-/
namespace Abverif.Session
open Abverif.SessCodes

def isReqType : MsgType → Bool
  | .call | .publish | .subscribe | .unsubscribe | .register | .unregister => true
  | _ => false

def reqIdOf : SOut → Option Nat
  | .send m => if isReqType m.typ then some m.req else none
  | _ => none

def reqIds (os : List SOut) : List Nat := os.filterMap reqIdOf

/-- the messages among some outputs -/
def sends (o : List SOut) : List OutMsg := o.filterMap (fun | .send m => some m | _ => none)

/-- the completions among some outputs -/
def completions (o : List SOut) : List (FutId × Outcome) :=
  o.filterMap (fun | .complete f v => some (f, v) | _ => none)

/-- id of the k-th (0-based) request drawn from a session object -/
def idOf (k : Nat) : Nat := k % idMax + 1
def idsFrom (a n : Nat) : List Nat := (List.range' a n).map idOf

def IdInv (s : Sess) : Prop :=
  s.nextId = (if s.issued = 0 then idInit else idOf (s.issued - 1)) ∧ ∀ o ∈ s.cbq, reqIdOf o = none

/-- `IdRel s o s'`: going from s to s' the outputs o carry exactly the ids of the requests drawn -/
def IdRel (s : Sess) (o : List SOut) (s' : Sess) : Prop :=
  IdInv s' ∧ s.issued ≤ s'.issued ∧ reqIds o = idsFrom s.issued (s'.issued - s.issued)

theorem idsFrom_zero (a : Nat) : idsFrom a 0 = [] := rfl

theorem idsFrom_add (a n m : Nat) : idsFrom a (n + m) = idsFrom a n ++ idsFrom (a + n) m := by
  simp only [idsFrom, ← List.map_append]
  congr 1
  exact (List.range'_append_1 ..).symm

theorem reqIds_append (a b : List SOut) : reqIds (a ++ b) = reqIds a ++ reqIds b := by
  simp [reqIds]

theorem IdRel.refl {s : Sess} (h : IdInv s) : IdRel s [] s := ⟨h, Nat.le_refl _, by simp [reqIds, idsFrom]⟩

theorem IdRel.trans {s1 s2 s3 : Sess} {o1 o2 : List SOut} (h1 : IdRel s1 o1 s2) (h2 : IdRel s2 o2 s3) :
    IdRel s1 (o1 ++ o2) s3 := by
  obtain ⟨_, l1, e1⟩ := h1
  obtain ⟨i3, l2, e2⟩ := h2
  refine ⟨i3, Nat.le_trans l1 l2, ?_⟩
  rw [reqIds_append, e1, e2, show s3.issued - s1.issued = (s2.issued - s1.issued) + (s3.issued - s2.issued) by omega,
    idsFrom_add]
  congr 2
  omega

theorem draw_arith0 : (if idInit + 1 > idMax then idReset else idInit + 1) = idOf 0 := by decide

theorem draw_arith (j : Nat) : (if idOf j + 1 > idMax then idReset else idOf j + 1) = idOf (j + 1) := by
  unfold idOf idMax idReset
  split <;> omega

theorem drawId_id (s : Sess) (h : IdInv s) : s.drawId.2 = idOf s.issued := by
  obtain ⟨h, _⟩ := h
  by_cases h0 : s.issued = 0
  · rw [if_pos h0] at h
    simp only [Sess.drawId, h, h0]
    exact draw_arith0
  · rw [if_neg h0] at h
    simp only [Sess.drawId, h]
    have : s.issued = (s.issued - 1) + 1 := by omega
    rw [this]
    exact draw_arith _


theorem IdRel.of_same {s s' : Sess} {o : List SOut} (h : IdInv s) (h1 : s'.nextId = s.nextId) (h2 : s'.issued = s.issued)
    (h3 : ∀ x ∈ s'.cbq, reqIdOf x = none) (h4 : reqIds o = []) : IdRel s o s' := by
  refine ⟨⟨?_, h3⟩, by omega, ?_⟩
  · rw [h1, h2]; exact h.1
  · rw [h4, h2]; simp [idsFrom]

theorem IdRel.of_draw {s s' : Sess} {o : List SOut} (h : IdInv s) (h1 : s'.nextId = s.drawId.2)
    (h2 : s'.issued = s.issued + 1) (h3 : ∀ x ∈ s'.cbq, reqIdOf x = none) (h4 : reqIds o = [s.drawId.2]) : IdRel s o s' := by
  refine ⟨⟨?_, h3⟩, by omega, ?_⟩
  · rw [h1, h2, drawId_id s h]; simp
  · rw [h4, h2, drawId_id s h]; simp [idsFrom]


theorem IdRel.congr_left {s s1 s' : Sess} {o : List SOut} (h : s.issued = s1.issued) (r : IdRel s1 o s') : IdRel s o s' := by
  obtain ⟨a, b, c⟩ := r
  exact ⟨a, h ▸ b, h ▸ c⟩

theorem IdInv.congr {s s1 : Sess} (h : IdInv s) (h1 : s1.nextId = s.nextId) (h2 : s1.issued = s.issued) (h3 : s1.cbq = s.cbq) :
    IdInv s1 := by
  unfold IdInv at *
  rw [h1, h2, h3]; exact h

syntax "id_frame" : tactic
macro_rules
  | `(tactic| id_frame) => `(tactic|
      (simp (config := { failIfUnchanged := false }) [request, futureSuccess, cancelDo, cancelMsgs, sendReq, Sess.setTbl, Sess.newFut, Sess.drawId, Sess.unwatch, emitCb, settle, reqIds, reqIdOf, isReqType,
          apiJoin, apiLeave, apiDisconnect, Sess.clearTables]
       <;> grind [reqIdOf, isReqType]))

theorem emitCb_idrel {s : Sess} (h : IdInv s) {o : SOut} (ho : reqIdOf o = none) : IdRel s (emitCb s o).2 (emitCb s o).1 := by
  have := h.2
  refine IdRel.of_same h ?_ ?_ ?_ ?_ <;> id_frame

theorem settle_idrel {s : Sess} (h : IdInv s) (f : FutId) (o : Outcome) : IdRel s (settle s f o).2 (settle s f o).1 := by
  have := h.2
  refine IdRel.of_same h ?_ ?_ ?_ ?_ <;> id_frame

theorem settle_idrel' {s s0 : Sess} (h : IdInv s0) (e1 : s.nextId = s0.nextId) (e2 : s.issued = s0.issued)
    (e3 : s.cbq = s0.cbq) (f : FutId) (o : Outcome) : IdRel s0 (settle s f o).2 (settle s f o).1 :=
  IdRel.congr_left e2.symm (settle_idrel (h.congr e1 e2 e3) f o)

theorem out_idrel {s : Sess} (h : IdInv s) {os : List SOut} (ho : reqIds os = []) : IdRel s os s :=
  IdRel.of_same h rfl rfl h.2 ho

theorem apiStep_idrel {s : Sess} (a : Api) (h : IdInv s) : IdRel s (apiStep s a).2 (apiStep s a).1 := by
  have hq := h.2
  cases a with
  | call u a k o r =>
    simp only [apiStep]; unfold apiCall
    split
    · exact out_idrel h rfl
    · cases r <;> refine IdRel.of_draw h ?_ ?_ ?_ ?_ <;> id_frame
  | publish u a k o r =>
    simp only [apiStep]; unfold apiPublish
    split
    · exact out_idrel h rfl
    · by_cases hack : (o.bind fun x => x.acknowledge).getD false = true <;>
        simp only [hack, if_true, if_false, Bool.false_eq_true] <;> cases r <;>
        refine IdRel.of_draw h ?_ ?_ ?_ ?_ <;> id_frame
  | subscribe hh t o r =>
    simp only [apiStep]; unfold apiSubscribe
    split
    · exact out_idrel h rfl
    · cases r <;> refine IdRel.of_draw h ?_ ?_ ?_ ?_ <;> id_frame
  | register hh t o r =>
    simp only [apiStep]; unfold apiRegister
    split
    · exact out_idrel h rfl
    · cases r <;> refine IdRel.of_draw h ?_ ?_ ?_ ?_ <;> id_frame
  | unsubscribe obj r =>
    simp only [apiStep, apiUnsubscribe]
    split
    · exact out_idrel h rfl
    · split
      · exact out_idrel h rfl
      · split
        · cases r <;> refine IdRel.of_draw h ?_ ?_ ?_ ?_ <;> id_frame
        · refine IdRel.of_same h ?_ ?_ ?_ ?_ <;> id_frame
  | unregister obj r =>
    simp only [apiStep]; unfold apiUnregister
    split
    · exact out_idrel h rfl
    · split
      · exact out_idrel h rfl
      · cases r <;> refine IdRel.of_draw h ?_ ?_ ?_ ?_ <;> id_frame
  | cancel f =>
    simp only [apiStep]; unfold apiCancel
    refine IdRel.of_same h ?_ ?_ ?_ ?_ <;> id_frame
  | join =>
    simp only [apiStep]
    refine IdRel.of_same h ?_ ?_ ?_ ?_ <;> id_frame
  | leave =>
    simp only [apiStep]
    refine IdRel.of_same h ?_ ?_ ?_ ?_ <;> id_frame
  | disconnect =>
    simp only [apiStep]
    refine IdRel.of_same h ?_ ?_ ?_ ?_ <;> id_frame


theorem apiStep_idrel_publish_noack {s : Sess} (h : IdInv s) (u : Uri) (a : Args) (k : Kwargs) (o : Option PubOpts) (r : SendRes) :
    IdRel s (sendReq s.drawId.1 .publish s.drawId.2
      { typ := .publish, req := s.drawId.2, opts := optAttrs PubOpts.attrs o, uri := u, args := a, kwargs := k } none false r).2
     (sendReq s.drawId.1 .publish s.drawId.2
      { typ := .publish, req := s.drawId.2, opts := optAttrs PubOpts.attrs o, uri := u, args := a, kwargs := k } none false r).1 := by
  have hq := h.2
  cases r <;> refine IdRel.of_draw h ?_ ?_ ?_ ?_ <;> id_frame

theorem reqIdOf_toCaught (o : SOut) : reqIdOf (toCaught o) = reqIdOf o := by
  cases o <;> rfl

theorem reqIds_map_toCaught (os : List SOut) : reqIds (os.map toCaught) = reqIds os := by
  simp [reqIds, List.filterMap_map, Function.comp_def, reqIdOf_toCaught]

theorem idLift : Lift IdRel IdInv where
  refl := IdRel.refl
  trans := IdRel.trans
  post := fun _ r => r.1
  caught := fun r => ⟨r.1, r.2.1, by rw [reqIds_map_toCaught]; exact r.2.2⟩
  api := fun a h => apiStep_idrel a h
  userError := fun h => emitCb_idrel h rfl
  invoke := fun _ _ h _ => out_idrel h rfl

theorem rejectList_idrel {s : Sess} (h : IdInv s) (o : Outcome) (fs : List FutId) :
    IdRel s (rejectList s o fs).2 (rejectList s o fs).1 :=
  rejectList_lift (R := IdRel) (P := IdInv) IdRel.refl IdRel.trans (fun _ r => r.1)
    (fun f o h _ => settle_idrel h f o) h o fs

theorem reqIds_nil_of {os : List SOut} (h : ∀ o ∈ os, (reqIdOf o).isNone = true) : reqIds os = [] := by
  simp only [reqIds, List.filterMap_eq_nil_iff]
  intro o ho
  simpa using h o ho

theorem reqIdOf_toLost (o : SOut) : reqIdOf (toLost o) = reqIdOf o := by
  cases o <;> rfl

theorem reqIds_map_toLost (os : List SOut) : reqIds (os.map toLost) = reqIds os := by
  simp [reqIds, List.filterMap_map, Function.comp_def, reqIdOf_toLost]

theorem idLiftX : LiftX IdRel IdInv (fun o => (reqIdOf o).isNone) where
  toLift := idLift
  okOf := by
    intro o ho
    cases o <;> simp [reqIdOf, lcOut] at ho ⊢
    next m => cases hm : m.typ <;> simp [hm, lcMsg, isReqType] at ho ⊢
  lc := fun h hc => by
    obtain ⟨e1, e2, _, _, e5⟩ := core_fields hc
    exact IdRel.of_same h e1 e2 (by rw [e5]; exact h.2) rfl
  out := fun h ho => out_idrel h (reqIds_nil_of ho)
  emit := fun h ho => emitCb_idrel h (by simpa using ho)
  enq := fun k h => IdRel.of_same h rfl rfl (by
    intro x hx
    rcases List.mem_append.mp hx with hx | hx
    · exact h.2 x hx
    · simp at hx; subst hx; rfl) rfl
  lostMap := fun r => ⟨r.1, r.2.1, by rw [reqIds_map_toLost]; exact r.2.2⟩
  cbqOk := fun h o ho => by simpa using h.2 o ho
  clearQ := fun h => IdRel.of_same h rfl rfl (by simp) rfl
  rejectAll := fun o h =>
    IdRel.congr_left (s1 := _) rfl (rejectList_idrel (s := Sess.clearTables _) (h.congr rfl rfl rfl) o _)

theorem popReply_idrel {s : Sess} (h : IdInv s) (kind : Kind) (id : ReqId) (k : Sess → Req → Sess × List SOut)
    (hk : ∀ s1 r, IdInv s1 → IdRel s1 (k s1 r).2 (k s1 r).1) :
    IdRel s (popReply s kind id k).2 (popReply s kind id k).1 := by
  unfold popReply
  split
  · exact out_idrel h rfl
  · next r _ =>
    have h1 : IdInv (s.setTbl kind (adel id (s.tbl kind))) := by
      refine h.congr ?_ ?_ ?_ <;> cases kind <;> rfl
    have e1 : s.issued = (s.setTbl kind (adel id (s.tbl kind))).issued := by cases kind <;> rfl
    simp only []
    split
    · exact IdRel.congr_left e1 (IdRel.refl h1)
    · exact IdRel.congr_left e1 (hk _ r h1)

theorem onEstablished_idrel {s : Sess} (h : IdInv s) (beh : List HAct) (m : InMsg) :
    IdRel s (onEstablished s beh m).2 (onEstablished s beh m).1 := by
  cases m with
  | goodbye =>
    simp only [onEstablished]
    split
    · exact out_idrel h rfl
    · exact idLiftX.goodbye h _
  | event sub pub p =>
    simp only [onEstablished]
    split
    · exact out_idrel h rfl
    · exact idLift.dispatch h _ _ _ _ _
  | published id pub =>
    simp only [onEstablished]
    exact popReply_idrel h _ _ _ (fun s1 r h1 => settle_idrel h1 _ _)
  | subscribed id sub =>
    simp only [onEstablished]
    refine popReply_idrel h _ _ _ (fun s1 r h1 => ?_)
    apply settle_idrel' h1 <;> rfl
  | unsubscribed id =>
    simp only [onEstablished]
    refine popReply_idrel h _ _ _ (fun s1 r h1 => ?_)
    apply settle_idrel' h1 <;> rfl
  | result id p progress =>
    simp only [onEstablished]
    split
    · exact out_idrel h rfl
    · split
      · split
        · exact out_idrel h rfl
        · exact IdRel.trans (out_idrel h (os := [_]) rfl) (idLift.runAct h none _)
      · have h1 : IdInv (s.setTbl .call (adel id s.tCall)) := h.congr rfl rfl rfl
        split
        · exact IdRel.congr_left rfl (IdRel.refl h1)
        · exact IdRel.congr_left rfl (settle_idrel h1 _ _)
  | registered id reg =>
    simp only [onEstablished]
    refine popReply_idrel h _ _ _ (fun s1 r h1 => ?_)
    split
    · apply settle_idrel' h1 <;> rfl
    · exact out_idrel h1 rfl
  | unregistered id reg =>
    simp only [onEstablished]
    split
    · split <;> exact out_idrel h rfl
    · refine popReply_idrel h _ _ _ (fun s1 r h1 => ?_)
      apply settle_idrel' h1 <;> rfl
  | error reqType id uri p =>
    simp only [onEstablished]
    split
    · exact out_idrel h rfl
    · next k _ =>
      split
      · exact out_idrel h rfl
      · have h1 : IdInv (s.setTbl k (adel id (s.tbl k))) := by
          refine h.congr ?_ ?_ ?_ <;> cases k <;> rfl
        have e1 : s.issued = (s.setTbl k (adel id (s.tbl k))).issued := by cases k <;> rfl
        split
        · exact IdRel.congr_left e1 (IdRel.refl h1)
        · exact IdRel.congr_left e1 (settle_idrel h1 _ _)
  | invocation id reg p rp => exact idLiftX.onInvocation h beh id reg p _
  | interrupt id => exact idLiftX.settleInv h id _
  | welcome sid => exact out_idrel h rfl
  | abort => exact out_idrel h rfl
  | challenge => exact out_idrel h rfl
  | other => exact out_idrel h rfl

theorem step_idrel {s : Sess} (e : SEv) (h : IdInv s) : IdRel s (step s e).2 (step s e).1 :=
  idLiftX.step (fun beh m h => onEstablished_idrel h beh m) h e

theorem init_idinv (mode : Sched) : IdInv (init mode) := ⟨rfl, by simp [init]⟩

/-- the ids of all request messages of a history, from any state satisfying the invariant -/
theorem run_idrel {s : Sess} (h : IdInv s) (hist : List SEv) : IdRel s (runOuts s hist) (runState s hist) :=
  run_lift (R := IdRel) (P := IdInv) IdRel.refl IdRel.trans (fun _ r => r.1) (fun e h => step_idrel e h) h hist

end Abverif.Session
