import Abverif.Proofs.Lemmas.WsFrame
import Abverif.Model.WsSpec
/-
`Ext a b`: what every operation of the engine except `connectionLost` guarantees —
the state only moves forward, `lost` and the configuration are untouched, and the log is extended by entries none
of which is an `onClose`.  Proved function by function, bottom-up.
-/
namespace Abverif.Ws

def Out.isOnClose : Out → Bool
  | .onClose .. => true
  | _ => false

/-- a close frame that may legally be sent: the status code is one RFC 6455 §7.4 allows on the wire and the reason
is at most 123 octets long -/
def LegalClose (x : Option Nat × Option Bytes) : Prop :=
  (∀ c, x.1 = some c → WsSpec.closeCodeOk c = true) ∧ (∀ r, x.2 = some r → r.length ≤ 123)

/-- how an operation may change the record of close frames sent: not at all, or by sending one legal close frame while
moving from (at most) OPEN to (at least) CLOSING -/
def CloseStep (a b : S) : Prop :=
  b.closeSent = a.closeSent ∨
  (a.st.rank ≤ 1 ∧ 2 ≤ b.st.rank ∧ ∃ x, b.closeSent = a.closeSent ++ [x] ∧ LegalClose x)

/-- while CLOSING a drop timer is armed (unless that timeout is configured off): the closing-handshake timer while we
wait for the peer's close frame, or — client only — the server-connection-drop timer while we wait for the TCP drop -/
def CBInv (s : S) : Prop :=
  s.st = .closing →
    (s.tCloseHs.isSome ∨ s.cfg.closeHsTimeout = 0) ∨
    (s.cfg.isServer = false ∧ (s.tServerDrop.isSome ∨ s.cfg.serverDropTimeout = 0))

/-- the part of `Ext` that every function satisfies, including those that leave the connection momentarily CLOSING
without a timer (the reply to a peer close, before `afterCloseHandshake` runs) -/
structure ExtW (a b : S) : Prop where
  rank : a.st.rank ≤ b.st.rank
  lost : b.lost = a.lost
  cfg : b.cfg = a.cfg
  log : ∃ d, b.log = a.log ++ d ∧ ∀ o ∈ d, o.isOnClose = false
  cs : CloseStep a b

structure Ext (a b : S) : Prop extends ExtW a b where
  cb : CBInv a → CBInv b

theorem ExtW.refl (a : S) : ExtW a a := ⟨Nat.le_refl _, rfl, rfl, ⟨[], by simp, by simp⟩, Or.inl rfl⟩

theorem ExtW.trans {a b c : S} (h1 : ExtW a b) (h2 : ExtW b c) : ExtW a c := by
  obtain ⟨d1, e1, n1⟩ := h1.log
  obtain ⟨d2, e2, n2⟩ := h2.log
  refine ⟨Nat.le_trans h1.rank h2.rank, by rw [h2.lost, h1.lost], by rw [h2.cfg, h1.cfg], ⟨d1 ++ d2, ?_, ?_⟩, ?_⟩
  · rw [e2, e1, List.append_assoc]
  · intro o ho
    rcases List.mem_append.mp ho with h | h
    · exact n1 o h
    · exact n2 o h
  · rcases h1.cs with c1 | ⟨ra, rb, x, ex, lx⟩
    · rcases h2.cs with c2 | ⟨rb, rc, x, ex, lx⟩
      · exact Or.inl (by rw [c2, c1])
      · exact Or.inr ⟨Nat.le_trans h1.rank rb, rc, x, by rw [ex, c1], lx⟩
    · rcases h2.cs with c2 | ⟨rb', rc, y, ey, ly⟩
      · exact Or.inr ⟨ra, Nat.le_trans rb h2.rank, x, by rw [c2, ex], lx⟩
      · omega

theorem Ext.refl (a : S) : Ext a a := ⟨ExtW.refl a, id⟩

theorem Ext.trans {a b c : S} (h1 : Ext a b) (h2 : Ext b c) : Ext a c :=
  ⟨h1.toExtW.trans h2.toExtW, fun h => h2.cb (h1.cb h)⟩

theorem CBInv.of_eq {a b : S} (h1 : b.st = a.st) (h3 : b.cfg = a.cfg) (h6 : b.tCloseHs = a.tCloseHs)
    (h7 : b.tServerDrop = a.tServerDrop) (h : CBInv a) : CBInv b := by
  unfold CBInv at *
  rw [h1, h3, h6, h7]; exact h

theorem Ext.of_eq {a b : S} (h1 : b.st = a.st) (h2 : b.lost = a.lost) (h3 : b.cfg = a.cfg) (h4 : b.log = a.log)
    (h5 : b.closeSent = a.closeSent) (h6 : b.tCloseHs = a.tCloseHs) (h7 : b.tServerDrop = a.tServerDrop) :
    Ext a b := ⟨⟨by rw [h1]; exact Nat.le_refl _, h2, h3, ⟨[], by simp [h4], by simp⟩, Or.inl h5⟩,
      CBInv.of_eq h1 h3 h6 h7⟩

theorem emit_Ext (s : S) (o : Out) (h : o.isOnClose = false) : Ext s (s.emit o) :=
  ⟨⟨Nat.le_refl _, rfl, rfl, ⟨[o], rfl, by simpa using h⟩, Or.inl rfl⟩, id⟩

/-- anything in the send family -/
theorem SendEq.toExt {a b : S} (h : SendEq a b) (hl : ∃ d, b.log = a.log ++ d ∧ ∀ o ∈ d, o.isOnClose = false) :
    Ext a b := ⟨⟨by rw [h.st]; exact Nat.le_refl _, h.lost, h.cfg, hl, Or.inl h.closeSent⟩,
      CBInv.of_eq h.st h.cfg h.tCloseHs h.tServerDrop⟩

theorem timer_Ext (s : S) (d : Nat) : Ext s (s.timer d).1 := Ext.of_eq rfl rfl rfl rfl rfl rfl rfl

theorem sendTick_Ext (s : S) : Ext s (sendTick s) := by
  unfold sendTick S.timer
  split
  · dsimp only
    split
    · exact Ext.trans (by exact Ext.of_eq rfl rfl rfl rfl rfl rfl rfl) (Ext.trans (emit_Ext _ _ rfl) (by exact Ext.of_eq rfl rfl rfl rfl rfl rfl rfl))
    · exact Ext.of_eq rfl rfl rfl rfl rfl rfl rfl
  · exact Ext.of_eq rfl rfl rfl rfl rfl rfl rfl

theorem trigger_Ext (s : S) : Ext s (trigger s) := by
  unfold trigger
  split
  · exact Ext.trans (by exact Ext.of_eq rfl rfl rfl rfl rfl rfl rfl) (sendTick_Ext _)
  · exact Ext.refl s

theorem sendData_Ext (s : S) (d : Bytes) (sync : Bool) (chop : Nat) : Ext s (sendData s d sync chop) := by
  unfold sendData
  split
  · exact Ext.trans (by exact Ext.of_eq rfl rfl rfl rfl rfl rfl rfl) (trigger_Ext _)
  · split
    · exact Ext.trans (by exact Ext.of_eq rfl rfl rfl rfl rfl rfl rfl) (trigger_Ext _)
    · split
      · exact emit_Ext _ _ rfl
      · exact emit_Ext _ _ rfl

theorem drawKey_Ext (s : S) : Ext s (drawKey s).1 := by
  unfold drawKey
  split
  · exact Ext.of_eq rfl rfl rfl rfl rfl rfl rfl
  · exact Ext.refl _

theorem recordOp_Ext (s : S) (op : Nat) : Ext s (recordOp s op) := Ext.of_eq rfl rfl rfl rfl rfl rfl rfl

theorem sendFrame_Ext (s : S) (opcode : Nat) (pl : Bytes) (fin : Bool) (rsv : Nat) (sync : Bool) (chop : Nat) :
    Ext s (sendFrame s opcode pl fin rsv sync chop) := by
  unfold sendFrame
  dsimp only
  split
  · exact (drawKey_Ext s).trans (emit_Ext _ _ rfl)
  · exact (drawKey_Ext s).trans ((recordOp_Ext _ _).trans (sendData_Ext _ _ _ _))

theorem sendPing_Ext (s : S) (pl : Bytes) : Ext s (sendPing s pl) := by
  unfold sendPing
  split
  · exact Ext.refl s
  · split
    · exact emit_Ext _ _ rfl
    · exact sendFrame_Ext _ _ _ _ _ _ _

theorem sendPong_Ext (s : S) (pl : Bytes) : Ext s (sendPong s pl) := by
  unfold sendPong
  split
  · exact Ext.refl s
  · split
    · exact emit_Ext _ _ rfl
    · exact sendFrame_Ext _ _ _ _ _ _ _

/-- raising the state is an extension -/
theorem Ext.of_st {a b : S} (hr : a.st.rank ≤ b.st.rank) (h2 : b.lost = a.lost) (h3 : b.cfg = a.cfg)
    (h4 : b.log = a.log) (h5 : b.closeSent = a.closeSent) (hnc : b.st ≠ .closing) : Ext a b :=
  ⟨⟨hr, h2, h3, ⟨[], by simp [h4], by simp⟩, Or.inl h5⟩, fun _ hc => absurd hc hnc⟩

theorem armCloseHs_Ext (s : S) : Ext s (armCloseHs s) :=
  ⟨⟨Nat.le_refl _, rfl, rfl, ⟨[], by simp [armCloseHs, S.timer], by simp⟩, Or.inl rfl⟩,
   fun _ _ => Or.inl (Or.inl (by simp [armCloseHs, S.timer]))⟩
theorem armServerDrop_Ext (s : S) : Ext s (armServerDrop s) :=
  ⟨⟨Nat.le_refl _, rfl, rfl, ⟨[], by simp [armServerDrop, S.timer], by simp⟩, Or.inl rfl⟩,
   fun h hc => by
     rcases h hc with h1 | ⟨h2, _⟩
     · exact Or.inl h1
     · exact Or.inr ⟨h2, Or.inl (by simp [armServerDrop, S.timer])⟩⟩
theorem armPingNext_Ext (s : S) : Ext s (armPingNext s) := Ext.of_eq rfl rfl rfl rfl rfl rfl rfl
theorem armPingTimeout_Ext (s : S) : Ext s (armPingTimeout s) := Ext.of_eq rfl rfl rfl rfl rfl rfl rfl

theorem sendCloseFrame_ExtW (s : S) (code : Option Nat) (reason : Option Bytes) (isReply : Bool)
    (hl : LegalClose (code, reason)) :
    ExtW s (sendCloseFrame s code reason isReply) := by
  unfold sendCloseFrame
  split
  · exact ExtW.refl s
  · exact ExtW.refl s
  · exact (emit_Ext _ _ rfl).toExtW
  · rename_i hst
    dsimp only
    have h1 := sendFrame_Ext s 8 (closePayload code reason) true 0 false 0
    have hq := sendFrame_SendEq s 8 (closePayload code reason) true 0 false 0
    have h2 : ExtW s { sendFrame s 8 (closePayload code reason) with
        st := .closing, closedByMe := !isReply, localCloseCode := code,
        closeSent := (sendFrame s 8 (closePayload code reason)).closeSent ++ [(code, reason)] } := by
      obtain ⟨d, e, n⟩ := h1.log
      refine ⟨by rw [hst]; simp [St.rank], h1.lost, h1.cfg, ⟨d, e, n⟩,
        Or.inr ⟨by rw [hst]; simp [St.rank], by simp [St.rank], (code, reason), ?_, hl⟩⟩
      show (sendFrame s 8 (closePayload code reason)).closeSent ++ [(code, reason)] = s.closeSent ++ [(code, reason)]
      rw [hq.closeSent]
    split
    · exact h2.trans (armCloseHs_Ext _).toExtW
    · exact h2

/-- when we initiate the closing handshake (`isReply = False`) the closing-handshake timer is armed -/
theorem sendCloseFrame_Ext (s : S) (code : Option Nat) (reason : Option Bytes)
    (hl : LegalClose (code, reason)) :
    Ext s (sendCloseFrame s code reason false) := by
  refine ⟨sendCloseFrame_ExtW s code reason false hl, ?_⟩
  intro hcb
  unfold sendCloseFrame
  split
  · exact hcb
  · exact hcb
  · exact hcb
  · dsimp only
    have hq := sendFrame_SendEq s 8 (closePayload code reason) true 0 false 0
    split
    · intro _; exact Or.inl (Or.inl (by simp [armCloseHs, S.timer]))
    · rename_i hne
      intro _
      left; right
      have : (sendFrame s 8 (closePayload code reason)).cfg.closeHsTimeout = 0 := by
        simpa using hne
      simpa using this

theorem dropIncompleteTail_length (bs : Bytes) (fuel : Nat) : (dropIncompleteTail bs fuel).length ≤ bs.length := by
  induction fuel generalizing bs with
  | zero => simp [dropIncompleteTail]
  | succ n ih =>
    unfold dropIncompleteTail
    split
    · exact Nat.le_refl _
    · exact Nat.le_trans (ih _) (by simp)

/-- `encode_truncate(text, limit)` never yields more than `limit` octets -/
theorem encodeTruncate_le (u : Bytes) (n : Nat) : (encodeTruncate u n).length ≤ n := by
  unfold encodeTruncate
  split
  · exact Nat.le_trans (dropIncompleteTail_length _ _) (by simp; omega)
  · omega

theorem sendClose_Ext (s : S) (code : Option Nat) (reason : Option Bytes) : Ext s (sendClose s code reason) := by
  unfold sendClose
  split
  · exact emit_Ext _ _ rfl
  · rename_i hbad
    split
    · exact emit_Ext _ _ rfl
    · refine sendCloseFrame_Ext _ _ _ ⟨?_, ?_⟩
      · intro c hc
        simp only at hc
        subst hc
        simp only [sendCloseCodeBad, Bool.not_eq_true] at hbad
        simp only [WsSpec.closeCodeOk]
        by_cases h1 : c = 1000
        · subst h1; decide
        · have : (3000 ≤ c ∧ c ≤ 4999) := by
            simp [h1] at hbad; exact hbad
          simp; omega
      · intro r hr
        simp only at hr
        cases reason with
        | none => simp at hr
        | some u => simp at hr; subst hr; exact encodeTruncate_le _ _

theorem rank_le_closed (st : St) : st.rank ≤ St.closed.rank := by cases st <;> decide

theorem flushQueue_Ext (s : S) : Ext s (flushQueue s) :=
  ⟨⟨Nat.le_refl _, rfl, rfl, ⟨s.sendQueue.map Out.write, rfl, by
      intro o ho; simp only [List.mem_map] at ho; obtain ⟨b, _, rfl⟩ := ho; rfl⟩, Or.inl rfl⟩,
    CBInv.of_eq rfl rfl rfl rfl⟩

theorem dropConnection_Ext (s : S) (a : Bool) : Ext s (dropConnection s a) := by
  unfold dropConnection
  split
  · have h0 : Ext s (if a then s else flushQueue s) := by split; exact Ext.refl s; exact flushQueue_Ext s
    generalize (if a then s else flushQueue s) = s1 at h0
    exact h0.trans (Ext.trans (by exact Ext.of_st (rank_le_closed _) rfl rfl rfl rfl (by simp))
      (Ext.trans (emit_Ext _ _ rfl) (emit_Ext _ _ rfl)))
  · exact Ext.refl s

theorem failConnection_Ext (s : S) (code : Nat) (hc : WsSpec.closeCodeOk code = true) : Ext s (failConnection s code) := by
  unfold failConnection
  split
  · dsimp only
    split
    · exact Ext.trans (by exact Ext.of_eq rfl rfl rfl rfl rfl rfl rfl) (dropConnection_Ext _ _)
    · split
      · refine Ext.trans (by exact Ext.of_eq rfl rfl rfl rfl rfl rfl rfl) (sendCloseFrame_Ext _ _ _ ⟨?_, ?_⟩)
        · intro c h; simp at h; subst h; exact hc
        · intro r h; simp at h
      · exact Ext.trans (by exact Ext.of_eq rfl rfl rfl rfl rfl rfl rfl) (dropConnection_Ext _ _)
  · exact Ext.refl s

theorem violation_Ext (s : S) (code : Nat) (hc : WsSpec.closeCodeOk code = true) : Ext s (violation s code).1 :=
  failConnection_Ext s code hc

end Abverif.Ws

namespace Abverif.Ws

/-! ### receive path -/

theorem closeCodeStep_Ext (s : S) (code : Option Nat) : Ext s (closeCodeStep s code).1 := by
  unfold closeCodeStep
  split
  · split
    · have hv := violation_Ext s 1002 (by decide)
      generalize violation s 1002 = r at hv
      obtain ⟨s', stop⟩ := r
      dsimp only
      split
      · exact hv
      · exact hv.trans (by exact Ext.of_eq rfl rfl rfl rfl rfl rfl rfl)
    · exact Ext.of_eq rfl rfl rfl rfl rfl rfl rfl
  · exact Ext.of_eq rfl rfl rfl rfl rfl rfl rfl

theorem closeReasonStep_Ext (s : S) (r : Option Bytes) : Ext s (closeReasonStep s r).1 := by
  unfold closeReasonStep
  split
  · split
    · exact violation_Ext _ _ (by decide)
    · exact Ext.of_eq rfl rfl rfl rfl rfl rfl rfl
  · exact Ext.refl s

theorem mem_allowed' (code : Nat) :
    closeCodesAllowed.contains code = true ↔ (1000 ≤ code ∧ code ≤ 1003) ∨ (1007 ≤ code ∧ code ≤ 1013) := by
  simp only [closeCodesAllowed, List.contains_iff_mem, List.mem_cons, List.not_mem_nil, or_false]
  omega

theorem close_code_rule' (code : Nat) : closeCodeInvalid code = false ↔ WsSpec.closeCodeOk code = true := by
  have hm := mem_allowed' code
  unfold closeCodeInvalid WsSpec.closeCodeOk
  generalize closeCodesAllowed.contains code = c at hm
  cases c <;> simp at hm ⊢ <;> omega

/-- what `onCloseFrame` has recorded about the peer's close frame is fit to be echoed -/
def RCLegal (s : S) : Prop :=
  ∀ c, s.remoteCloseCode = some c → WsSpec.closeCodeOk c = true

theorem replyClose_ExtW (s : S) (h : RCLegal s) : ExtW s (replyClose s) := by
  unfold replyClose
  split
  · refine sendCloseFrame_ExtW _ _ _ _ ⟨h, ?_⟩
    intro r hr
    simp only at hr
    cases hrr : s.remoteCloseReason with
    | none => simp [hrr] at hr
    | some u => simp [hrr] at hr; subst hr; exact encodeTruncate_le _ _
  · refine sendCloseFrame_ExtW _ _ _ _ ⟨?_, ?_⟩
    · intro c hc; simp at hc; subst hc; decide
    · intro r hr; simp at hr

/-- after `afterCloseHandshake` the connection is CLOSED (server) or a client with the server-drop timer armed
(or that timeout configured off): `CBInv` holds whatever came before -/
theorem afterCloseHandshake_cb (s : S) (a : Bool) : CBInv (afterCloseHandshake s a).1 := by
  unfold afterCloseHandshake CBInv
  split
  · intro hc; rw [dropConnection_st] at hc; cases hc
  · rename_i hsrv
    split
    · intro _; right
      exact ⟨by simpa [armServerDrop, S.timer] using hsrv, Or.inl (by simp [armServerDrop, S.timer])⟩
    · rename_i hz
      intro _; right
      exact ⟨by simpa using hsrv, Or.inr (by simpa using hz)⟩

theorem afterCloseHandshake_Ext (s : S) (a : Bool) : Ext s (afterCloseHandshake s a).1 := by
  unfold afterCloseHandshake
  split
  · exact dropConnection_Ext _ _
  · split
    · exact armServerDrop_Ext _
    · exact Ext.refl s

theorem closeStateStep_Ext (s : S) (h : RCLegal s) : Ext s (closeStateStep s).1 := by
  unfold closeStateStep
  split
  · have h0 : ExtW s { s with tCloseHs := none, wasClean := true } :=
      ⟨Nat.le_refl _, rfl, rfl, ⟨[], by simp, by simp⟩, Or.inl rfl⟩
    exact ⟨h0.trans (afterCloseHandshake_Ext _ _).toExtW, fun _ => afterCloseHandshake_cb _ _⟩
  · have h0 : ExtW s { s with wasClean := true } := (by exact Ext.of_eq rfl rfl rfl rfl rfl rfl rfl : Ext s _).toExtW
    exact ⟨(h0.trans (replyClose_ExtW { s with wasClean := true } h)).trans (afterCloseHandshake_Ext _ _).toExtW,
      fun _ => afterCloseHandshake_cb _ _⟩
  · exact Ext.of_eq rfl rfl rfl rfl rfl rfl rfl
  · exact emit_Ext _ _ rfl

theorem dropConnection_rcc (s : S) (a : Bool) : (dropConnection s a).remoteCloseCode = s.remoteCloseCode := by
  unfold dropConnection flushQueue; split
  · cases a <;> rfl
  · rfl

theorem sendCloseFrame_rcc (s : S) (c : Option Nat) (r : Option Bytes) (b : Bool) :
    (sendCloseFrame s c r b).remoteCloseCode = s.remoteCloseCode := by
  unfold sendCloseFrame
  split
  · rfl
  · rfl
  · rfl
  · dsimp only
    split
    · show (sendFrame s 8 (closePayload c r)).remoteCloseCode = s.remoteCloseCode
      exact (sendFrame_SendEq _ _ _ _ _ _ _).remoteCloseCode
    · exact (sendFrame_SendEq _ _ _ _ _ _ _).remoteCloseCode

theorem failConnection_rcc (s : S) (code : Nat) : (failConnection s code).remoteCloseCode = s.remoteCloseCode := by
  unfold failConnection
  split
  · dsimp only
    split
    · rw [dropConnection_rcc]
    · split
      · rw [sendCloseFrame_rcc]
      · rw [dropConnection_rcc]
  · rfl

/-- after the code check of `onCloseFrame` the recorded peer code (if any) is one that may appear on the wire -/
theorem closeCodeStep_legal (s : S) (code : Option Nat) (h0 : s.remoteCloseCode = none) :
    RCLegal (closeCodeStep s code).1 := by
  unfold closeCodeStep RCLegal
  split
  · rename_i c
    split
    · have hr := failConnection_rcc s 1002
      unfold violation
      dsimp only
      split
      · intro c' hc'; rw [hr, h0] at hc'; cases hc'
      · intro c' hc'; simp at hc'; subst hc'; decide
    · rename_i hv
      intro c' hc'
      simp at hc'; subst hc'
      exact (close_code_rule' c).mp (by simpa using hv)
  · intro c' hc'; simp at hc'

theorem closeReasonStep_rcc (s : S) (r : Option Bytes) : (closeReasonStep s r).1.remoteCloseCode = s.remoteCloseCode := by
  unfold closeReasonStep
  split
  · split
    · exact failConnection_rcc _ _
    · rfl
  · rfl

theorem onCloseFrame_Ext (s : S) (code : Option Nat) (reason : Option Bytes) : Ext s (onCloseFrame s code reason).1 := by
  unfold onCloseFrame
  dsimp only
  have h0 : Ext s { s with remoteCloseCode := none, remoteCloseReason := none } := Ext.of_eq rfl rfl rfl rfl rfl rfl rfl
  have h1 := closeCodeStep_Ext { s with remoteCloseCode := none, remoteCloseReason := none } code
  have hl := closeCodeStep_legal { s with remoteCloseCode := none, remoteCloseReason := none } code rfl
  split
  · exact h0.trans h1
  · have h2 := closeReasonStep_Ext (closeCodeStep { s with remoteCloseCode := none, remoteCloseReason := none } code).1 reason
    split
    · exact (h0.trans h1).trans h2
    · refine ((h0.trans h1).trans h2).trans (closeStateStep_Ext _ ?_)
      intro c hc
      rw [closeReasonStep_rcc] at hc
      exact hl c hc

theorem beginAutoPing_Ext (s : S) : Ext s (beginAutoPing s) := Ext.of_eq rfl rfl rfl rfl rfl rfl rfl

theorem sendAutoPing_Ext (s : S) : Ext s (sendAutoPing s) := by
  unfold sendAutoPing
  dsimp only
  have h := (beginAutoPing_Ext s).trans (sendPing_Ext (beginAutoPing s) ((beginAutoPing s).pingPending.getD []))
  split
  · exact h.trans (armPingTimeout_Ext _)
  · split
    · exact h.trans (armPingNext_Ext _)
    · exact h

theorem cancelAutoPingTimeout_Ext (s : S) : Ext s (cancelAutoPingTimeout s) := by
  unfold cancelAutoPingTimeout
  dsimp only
  split
  · exact Ext.trans (by exact Ext.of_eq rfl rfl rfl rfl rfl rfl rfl) (armPingNext_Ext _)
  · exact Ext.of_eq rfl rfl rfl rfl rfl rfl rfl

theorem onMessageFrameBegin_Ext (s : S) (n : Nat) : Ext s (onMessageFrameBegin s n) := by
  unfold onMessageFrameBegin
  dsimp only
  split
  · split
    · exact Ext.trans (by exact Ext.of_eq rfl rfl rfl rfl rfl rfl rfl) (failConnection_Ext _ _ (by decide))
    · split
      · exact Ext.trans (by exact Ext.of_eq rfl rfl rfl rfl rfl rfl rfl) (failConnection_Ext _ _ (by decide))
      · exact Ext.of_eq rfl rfl rfl rfl rfl rfl rfl
  · exact Ext.of_eq rfl rfl rfl rfl rfl rfl rfl

theorem onFrameBegin_Ext (s : S) (h : Hdr) : Ext s (onFrameBegin s h) := by
  unfold onFrameBegin
  split
  · exact Ext.of_eq rfl rfl rfl rfl rfl rfl rfl
  · dsimp only
    refine Ext.trans ?_ (onMessageFrameBegin_Ext _ _)
    split
    · split <;> exact Ext.of_eq rfl rfl rfl rfl rfl rfl rfl
    · exact Ext.refl s

theorem setUtf8_Ext (s : S) (p : Bytes) : Ext s (setUtf8 s p) := Ext.of_eq rfl rfl rfl rfl rfl rfl rfl

theorem utf8Step_Ext (s : S) (p : Bytes) : Ext s (utf8Step s p).1 := by
  unfold utf8Step
  split
  · split
    · exact (setUtf8_Ext s p).trans (violation_Ext _ _ (by decide))
    · exact setUtf8_Ext s p
  · exact Ext.refl s

theorem onMessageFrameData_Ext (s : S) (p : Bytes) : Ext s (onMessageFrameData s p) := by
  unfold onMessageFrameData
  split
  · exact Ext.of_eq rfl rfl rfl rfl rfl rfl rfl
  · exact Ext.refl s

theorem onFrameData_Ext (s : S) (h : Hdr) (p : Bytes) : Ext s (onFrameData s h p).1 := by
  unfold onFrameData
  split
  · exact Ext.of_eq rfl rfl rfl rfl rfl rfl rfl
  · dsimp only
    split
    · exact utf8Step_Ext _ _
    · exact (utf8Step_Ext _ _).trans (onMessageFrameData_Ext _ _)

theorem onPongFrame_Ext (s : S) (p : Bytes) : Ext s (onPongFrame s p) := by
  unfold onPongFrame
  split
  · split
    · dsimp only
      split
      · exact Ext.trans (by exact Ext.of_eq rfl rfl rfl rfl rfl rfl rfl) (armPingNext_Ext _)
      · exact Ext.of_eq rfl rfl rfl rfl rfl rfl rfl
    · exact Ext.refl s
  · exact Ext.refl s

theorem onPingFrame_Ext (s : S) (p : Bytes) : Ext s (onPingFrame s p) := by
  unfold onPingFrame
  dsimp only
  split
  · exact (emit_Ext _ _ rfl).trans (sendPong_Ext _ _)
  · exact emit_Ext _ _ rfl

theorem processControlFrame_Ext (s : S) (h : Hdr) : Ext s (processControlFrame s h) := by
  unfold processControlFrame
  dsimp only
  have h0 : Ext s { s with controlData := [] } := Ext.of_eq rfl rfl rfl rfl rfl rfl rfl
  split
  · exact h0.trans (onCloseFrame_Ext _ _ _)
  · split
    · exact h0.trans (onPingFrame_Ext _ _)
    · split
      · exact h0.trans ((onPongFrame_Ext _ _).trans (emit_Ext _ _ rfl))
      · exact h0

theorem endDataFrame_Ext (s : S) : Ext s (endDataFrame s) := by
  unfold endDataFrame
  dsimp only
  have h0 : Ext s (if (!s.failedByMe) = true then { s with messageData := s.messageData ++ s.frameData } else s) := by
    split
    · exact Ext.of_eq rfl rfl rfl rfl rfl rfl rfl
    · exact Ext.refl s
  generalize (if (!s.failedByMe) = true then { s with messageData := s.messageData ++ s.frameData } else s) = s1 at h0
  split
  · exact h0.trans (Ext.trans (by exact Ext.of_eq rfl rfl rfl rfl rfl rfl rfl) (cancelAutoPingTimeout_Ext _))
  · exact h0.trans (by exact Ext.of_eq rfl rfl rfl rfl rfl rfl rfl)

theorem deliverMessage_Ext (s : S) : Ext s (deliverMessage s) := by
  unfold deliverMessage
  split
  · exact emit_Ext _ _ rfl
  · exact Ext.refl s

theorem resetMessage_Ext (s : S) : Ext s (resetMessage s) := Ext.of_eq rfl rfl rfl rfl rfl rfl rfl

theorem endMessageStep_Ext (s : S) : Ext s (endMessageStep s).1 := by
  unfold endMessageStep
  dsimp only
  have h0 : Ext s (if (s.utf8On && !s.msgCompressed && !s.utf8Ends) = true then
      ((violation s 1007).1, !(violation s 1007).2) else (s, true)).1 := by
    split
    · exact violation_Ext _ _ (by decide)
    · exact Ext.refl s
  generalize (if (s.utf8On && !s.msgCompressed && !s.utf8Ends) = true then
      ((violation s 1007).1, !(violation s 1007).2) else (s, true)) = r at h0
  split
  · exact h0
  · exact h0.trans ((deliverMessage_Ext _).trans (resetMessage_Ext _))

theorem onFrameEnd_Ext (s : S) (h : Hdr) : Ext s (onFrameEnd s h).1 := by
  unfold onFrameEnd
  split
  · exact (processControlFrame_Ext _ _).trans (by exact Ext.of_eq rfl rfl rfl rfl rfl rfl rfl)
  · dsimp only
    split
    · exact (endDataFrame_Ext _).trans (endMessageStep_Ext _)
    · exact (endDataFrame_Ext _).trans (by exact Ext.of_eq rfl rfl rfl rfl rfl rfl rfl)

theorem applyViolations_Ext (s : S) (vs : List HV) : Ext s (applyViolations s vs).1 := by
  induction vs generalizing s with
  | nil => exact Ext.refl s
  | cons v vs ih =>
    unfold applyViolations
    have hv := violation_Ext s 1002 (by decide)
    generalize violation s 1002 = r at hv
    obtain ⟨s', stop⟩ := r
    dsimp only
    split
    · exact hv
    · exact hv.trans (ih _)

theorem extLenStep_Ext (s : S) (a b : Nat) : Ext s (extLenStep s a b).1 := by
  unfold extLenStep
  split
  · split
    · exact violation_Ext _ _ (by decide)
    · exact Ext.refl s
  · split
    · dsimp only
      have h0 : Ext s (if b > 0x7FFFFFFFFFFFFFFF then violation s 1002 else (s, false)).1 := by
        split
        · exact violation_Ext _ _ (by decide)
        · exact Ext.refl s
      generalize (if b > 0x7FFFFFFFFFFFFFFF then violation s 1002 else (s, false)) = r at h0
      split
      · exact h0
      · split
        · exact h0.trans (violation_Ext _ _ (by decide))
        · exact h0
    · exact Ext.refl s

theorem processHeader_Ext (s : S) (o0 o1 : UInt8) (buf : Bytes) : Ext s (processHeader s o0 o1 buf).1 := by
  unfold processHeader
  dsimp only
  have h0 := applyViolations_Ext s (headerViolations s.cfg s.insideMessage (o0.toNat / 128 = 1) (o0.toNat / 16 % 8)
    (o0.toNat % 16) (o1.toNat / 128 = 1) (o1.toNat % 128))
  generalize applyViolations s (headerViolations s.cfg s.insideMessage (o0.toNat / 128 = 1) (o0.toNat / 16 % 8)
    (o0.toNat % 16) (o1.toNat / 128 = 1) (o1.toNat % 128)) = r0 at h0
  split
  · exact h0
  · split
    · have h1 := extLenStep_Ext r0.1 (o1.toNat % 128)
        (if o1.toNat % 128 < 126 then o1.toNat % 128 else
          beNat ((buf.drop 2).take (if o1.toNat % 128 = 126 then 2 else if o1.toNat % 128 = 127 then 8 else 0)))
      generalize extLenStep r0.1 (o1.toNat % 128)
        (if o1.toNat % 128 < 126 then o1.toNat % 128 else
          beNat ((buf.drop 2).take (if o1.toNat % 128 = 126 then 2 else if o1.toNat % 128 = 127 then 8 else 0))) = r1 at h1
      split
      · exact h0.trans h1
      · exact (h0.trans h1).trans (Ext.trans (by exact Ext.of_eq rfl rfl rfl rfl rfl rfl rfl) (onFrameBegin_Ext _ _))
    · exact h0

theorem processPayload_Ext (s : S) (h : Hdr) (buf : Bytes) : Ext s (processPayload s h buf).1 := by
  unfold processPayload
  dsimp only
  have h0 : Ext s { s with ptr := s.ptr + (buf.take (h.length - s.ptr)).length } :=
    Ext.of_eq rfl rfl rfl rfl rfl rfl rfl
  have h1 := onFrameData_Ext { s with ptr := s.ptr + (buf.take (h.length - s.ptr)).length }
    h (unmaskChunk s h (buf.take (h.length - s.ptr)))
  generalize onFrameData { s with ptr := s.ptr + (buf.take (h.length - s.ptr)).length }
    h (unmaskChunk s h (buf.take (h.length - s.ptr))) = r at h1
  split
  · exact h0.trans h1
  · have h2 : Ext r.1 (if r.1.ptr = h.length then onFrameEnd r.1 h else (r.1, true)).1 := by
      split
      · exact onFrameEnd_Ext _ _
      · exact Ext.refl _
    generalize (if r.1.ptr = h.length then onFrameEnd r.1 h else (r.1, true)) = r2 at h2
    split
    · exact (h0.trans h1).trans h2
    · exact (h0.trans h1).trans h2

theorem processData_Ext (s : S) (buf : Bytes) : Ext s (processData s buf).1 := by
  unfold processData
  split
  · split
    · exact processHeader_Ext _ _ _ _
    · exact Ext.refl s
  · exact processPayload_Ext _ _ _

theorem drain_Ext (fuel : Nat) (s : S) (buf : Bytes) : Ext s (drain fuel s buf).1 := by
  induction fuel generalizing s buf with
  | zero => exact Ext.refl s
  | succ n ih =>
    unfold drain
    split
    · exact Ext.refl s
    · have h := processData_Ext s buf
      generalize processData s buf = r at h
      dsimp only
      split
      · exact h.trans (ih _ _)
      · exact h

theorem dataReceived_Ext (s : S) (d : Bytes) : Ext s (dataReceived s d) := by
  unfold dataReceived
  split
  · exact Ext.refl s
  · have hd := drain_Ext (drainFuel (s.data ++ d)) { s with data := [] } (s.data ++ d)
    have h0 : Ext s { s with data := [] } := Ext.of_eq rfl rfl rfl rfl rfl rfl rfl
    split
    · dsimp only
      exact (h0.trans hd).trans (by exact Ext.of_eq rfl rfl rfl rfl rfl rfl rfl)
    · dsimp only
      exact (h0.trans hd).trans (by exact Ext.of_eq rfl rfl rfl rfl rfl rfl rfl)
    · exact Ext.of_eq rfl rfl rfl rfl rfl rfl rfl

end Abverif.Ws

namespace Abverif.Ws

/-! ### send API, timers, steps -/

theorem sendFrags_Ext (opcode : Nat) (sync : Bool) (l : List (Bytes × Bool)) :
    ∀ (s : S) (first : Bool), Ext s (sendFrags s opcode sync l first) := by
  induction l with
  | nil => intro s first; exact Ext.refl s
  | cons x xs ih =>
    intro s first
    obtain ⟨p, fin⟩ := x
    unfold sendFrags
    exact (sendFrame_Ext _ _ _ _ _ _ _).trans (ih _ _)

theorem sendMessage_Ext (s : S) (pl : Bytes) (b : Bool) (f : Option Nat) (sy : Bool) :
    Ext s (sendMessage s pl b f sy) := by
  unfold sendMessage
  split
  · exact emit_Ext _ _ rfl
  · split
    · exact emit_Ext _ _ rfl
    · dsimp only
      split
      · exact sendFrame_Ext _ _ _ _ _ _ _
      · split
        · exact sendFrame_Ext _ _ _ _ _ _ _
        · split
          · exact emit_Ext _ _ rfl
          · exact sendFrags_Ext _ _ _ _ _

theorem prepareKey_Ext (s : S) : Ext s (prepareKey s).1 := by
  unfold prepareKey
  split
  · exact Ext.of_eq rfl rfl rfl rfl rfl rfl rfl
  · exact Ext.refl _

theorem sendPrepared_Ext (s : S) (pl : Bytes) (b : Bool) : Ext s (sendPrepared s pl b) := by
  unfold sendPrepared
  dsimp only
  split
  · exact (prepareKey_Ext s).trans (emit_Ext _ _ rfl)
  · split
    · exact (prepareKey_Ext s).trans (emit_Ext _ _ rfl)
    · exact (prepareKey_Ext s).trans ((recordOp_Ext _ _).trans (sendData_Ext _ _ _ _))

theorem beginMessage_Ext (s : S) (b : Bool) : Ext s (beginMessage s b) := by
  unfold beginMessage
  split
  · exact Ext.refl s
  · split
    · exact emit_Ext _ _ rfl
    · exact Ext.of_eq rfl rfl rfl rfl rfl rfl rfl

theorem setFrameState_Ext (s : S) (n : Nat) (k : Option Xor.Key) (op : Nat) : Ext s (setFrameState s n k op) :=
  Ext.of_eq rfl rfl rfl rfl rfl rfl rfl

theorem enterFrame_Ext (s : S) : Ext s (enterFrame s) := Ext.of_eq rfl rfl rfl rfl rfl rfl rfl

theorem beginMessageFrameCore_Ext (s : S) (n : Nat) (s' : S) (h : beginMessageFrameCore s n = some s') : Ext s s' := by
  unfold beginMessageFrameCore at h
  split at h
  · cases h
  · split at h
    · cases h
    · dsimp only at h
      split at h
      · cases h
      · cases h
        exact (drawKey_Ext s).trans ((setFrameState_Ext _ _ _ _).trans ((sendData_Ext _ _ _ _).trans (enterFrame_Ext _)))

theorem beginMessageFrame_Ext (s : S) (n : Nat) : Ext s (beginMessageFrame s n) := by
  unfold beginMessageFrame
  split
  · exact Ext.refl s
  · split
    · rename_i s' h; exact beginMessageFrameCore_Ext s n s' h
    · exact emit_Ext _ _ rfl

theorem advanceFramePtr_Ext (s : S) (n : Nat) : Ext s (advanceFramePtr s n) := Ext.of_eq rfl rfl rfl rfl rfl rfl rfl

theorem leaveFrameIfDone_Ext (s : S) : Ext s (leaveFrameIfDone s) := by
  unfold leaveFrameIfDone
  split
  · exact Ext.of_eq rfl rfl rfl rfl rfl rfl rfl
  · exact Ext.refl s

theorem sendMessageFrameData_Ext (s : S) (pl : Bytes) (sy : Bool) : Ext s (sendMessageFrameData s pl sy) := by
  unfold sendMessageFrameData
  split
  · exact Ext.refl s
  · split
    · exact emit_Ext _ _ rfl
    · split
      · exact emit_Ext _ _ rfl
      · exact (advanceFramePtr_Ext _ _).trans ((sendData_Ext _ _ _ _).trans (leaveFrameIfDone_Ext _))

theorem endMessage_Ext (s : S) : Ext s (endMessage s) := by
  unfold endMessage
  split
  · exact Ext.refl s
  · split
    · exact emit_Ext _ _ rfl
    · exact (sendFrame_Ext _ _ _ _ _ _ _).trans (by exact Ext.of_eq rfl rfl rfl rfl rfl rfl rfl)

theorem sendMessageFrame_Ext (s : S) (pl : Bytes) (sy : Bool) : Ext s (sendMessageFrame s pl sy) := by
  unfold sendMessageFrame
  split
  · exact Ext.refl s
  · split
    · exact emit_Ext _ _ rfl
    · split
      · rename_i s' h
        exact (beginMessageFrameCore_Ext s _ s' h).trans (sendMessageFrameData_Ext _ _ _)
      · exact emit_Ext _ _ rfl

theorem handshakeDone_Ext (s : S) : Ext s (handshakeDone s) := by
  unfold handshakeDone
  split
  · exact Ext.refl s
  · rename_i h
    have hc : s.st = .connecting := by simpa using h
    dsimp only
    have h0 : Ext s { s with st := .opened, tOpenHs := none } :=
      Ext.of_st (by rw [hc]; simp [St.rank]) rfl rfl rfl rfl (by simp)
    split
    · exact h0.trans (armPingNext_Ext _)
    · exact h0

/-- a timeout handler of the form "clear my handle; if not yet CLOSED: mark unclean and drop" -/
theorem fire_drop_Ext (s s1 s2 : S) (h1w : ExtW s s1) (hst1 : s1.st = s.st)
    (h2w : Ext s1 s2) (hst2 : s2.st = s1.st) :
    Ext s (if s1.st ≠ .closed then dropConnection s2 true else s1) := by
  split
  · exact ⟨h1w.trans (h2w.toExtW.trans (dropConnection_Ext _ _).toExtW),
      fun _ hc => by rw [dropConnection_st] at hc; cases hc⟩
  · rename_i hcl
    exact ⟨h1w, fun _ hc => by simp at hcl; rw [hcl] at hc; cases hc⟩

theorem fire_Ext (s : S) (k : TK) : Ext s (fire s k) := by
  cases k <;> simp only [fire]
  · split
    · exact Ext.trans (by exact Ext.of_eq rfl rfl rfl rfl rfl rfl rfl) (dropConnection_Ext _ _)
    · exact Ext.of_eq rfl rfl rfl rfl rfl rfl rfl
  · exact fire_drop_Ext s { s with tCloseHs := none } _
      ⟨Nat.le_refl _, rfl, rfl, ⟨[], by simp, by simp⟩, Or.inl rfl⟩ rfl
      (by exact Ext.of_eq rfl rfl rfl rfl rfl rfl rfl) rfl
  · exact fire_drop_Ext s { s with tServerDrop := none } _
      ⟨Nat.le_refl _, rfl, rfl, ⟨[], by simp, by simp⟩, Or.inl rfl⟩ rfl
      (by exact Ext.of_eq rfl rfl rfl rfl rfl rfl rfl) rfl
  · split
    · exact Ext.trans (by exact Ext.of_eq rfl rfl rfl rfl rfl rfl rfl) (dropConnection_Ext _ _)
    · exact Ext.of_eq rfl rfl rfl rfl rfl rfl rfl
  · exact sendAutoPing_Ext _
  · exact Ext.trans (by exact Ext.of_eq rfl rfl rfl rfl rfl rfl rfl) (sendTick_Ext _)

theorem advanceTo_Ext (target fuel : Nat) (s : S) : Ext s (advanceTo target fuel s) := by
  induction fuel generalizing s with
  | zero => exact Ext.refl s
  | succ n ih =>
    unfold advanceTo
    split
    · split
      · exact Ext.trans (Ext.trans (by exact Ext.of_eq rfl rfl rfl rfl rfl rfl rfl) (fire_Ext _ _)) (ih _)
      · exact Ext.of_eq rfl rfl rfl rfl rfl rfl rfl
    · exact Ext.of_eq rfl rfl rfl rfl rfl rfl rfl

theorem pump_Ext (s : S) : Ext s (pump s) := advanceTo_Ext _ _ _

theorem advance_Ext (s : S) (dt : Nat) : Ext s (advance s dt) := advanceTo_Ext _ _ _

/-- every scripted operation except the framework's connection-lost notification -/
theorem stepCore_Ext (s : S) (op : Op) (h : op ≠ .lost) : Ext s (stepCore s op) := by
  cases op <;> simp only [stepCore]
  · exact dataReceived_Ext _ _
  · exact absurd rfl h
  · exact advance_Ext _ _
  · exact sendMessage_Ext _ _ _ _ _
  · exact sendPrepared_Ext _ _ _
  · exact beginMessage_Ext _ _
  · exact beginMessageFrame_Ext _ _
  · exact sendMessageFrameData_Ext _ _ _
  · exact endMessage_Ext _
  · exact sendMessageFrame_Ext _ _ _
  · exact sendPing_Ext _ _
  · exact sendPong_Ext _ _
  · exact sendClose_Ext _ _ _
  · exact handshakeDone_Ext _
  · exact (handshakeDone_Ext _).trans (dataReceived_Ext _ _)

end Abverif.Ws
