import Abverif.Proofs.Lemmas.WsFrame
/-
`Ext a b`: what every operation of the engine except `connectionLost` guarantees —
the state only moves forward, `lost` and the configuration are untouched, and the log is extended by entries none
of which is an `onClose`.  Proved function by function, bottom-up.
-/
namespace Abverif.Ws

def Out.isOnClose : Out → Bool
  | .onClose .. => true
  | _ => false

structure Ext (a b : S) : Prop where
  rank : a.st.rank ≤ b.st.rank
  lost : b.lost = a.lost
  cfg : b.cfg = a.cfg
  log : ∃ d, b.log = a.log ++ d ∧ ∀ o ∈ d, o.isOnClose = false

theorem Ext.refl (a : S) : Ext a a := ⟨Nat.le_refl _, rfl, rfl, [], by simp, by simp⟩

theorem Ext.trans {a b c : S} (h1 : Ext a b) (h2 : Ext b c) : Ext a c := by
  obtain ⟨d1, e1, n1⟩ := h1.log
  obtain ⟨d2, e2, n2⟩ := h2.log
  refine ⟨Nat.le_trans h1.rank h2.rank, by rw [h2.lost, h1.lost], by rw [h2.cfg, h1.cfg], d1 ++ d2, ?_, ?_⟩
  · rw [e2, e1, List.append_assoc]
  · intro o ho
    rcases List.mem_append.mp ho with h | h
    · exact n1 o h
    · exact n2 o h

/-- a change that touches neither state, `lost`, configuration nor log -/
theorem Ext.of_eq {a b : S} (h1 : b.st = a.st) (h2 : b.lost = a.lost) (h3 : b.cfg = a.cfg) (h4 : b.log = a.log) :
    Ext a b := ⟨by rw [h1]; exact Nat.le_refl _, h2, h3, [], by simp [h4], by simp⟩

theorem emit_Ext (s : S) (o : Out) (h : o.isOnClose = false) : Ext s (s.emit o) :=
  ⟨Nat.le_refl _, rfl, rfl, [o], rfl, by simpa using h⟩

/-- anything in the send family -/
theorem SendEq.toExt {a b : S} (h : SendEq a b) (hl : ∃ d, b.log = a.log ++ d ∧ ∀ o ∈ d, o.isOnClose = false) :
    Ext a b := ⟨by rw [h.st]; exact Nat.le_refl _, h.lost, h.cfg, hl⟩

theorem timer_Ext (s : S) (d : Nat) : Ext s (s.timer d).1 := Ext.of_eq rfl rfl rfl rfl

theorem sendTick_Ext (s : S) : Ext s (sendTick s) := by
  unfold sendTick S.timer
  split
  · dsimp only
    split
    · exact Ext.trans (by exact Ext.of_eq rfl rfl rfl rfl) (Ext.trans (emit_Ext _ _ rfl) (by exact Ext.of_eq rfl rfl rfl rfl))
    · exact Ext.of_eq rfl rfl rfl rfl
  · exact Ext.of_eq rfl rfl rfl rfl

theorem trigger_Ext (s : S) : Ext s (trigger s) := by
  unfold trigger
  split
  · exact Ext.trans (by exact Ext.of_eq rfl rfl rfl rfl) (sendTick_Ext _)
  · exact Ext.refl s

theorem sendData_Ext (s : S) (d : Bytes) (sync : Bool) (chop : Nat) : Ext s (sendData s d sync chop) := by
  unfold sendData
  split
  · exact Ext.trans (by exact Ext.of_eq rfl rfl rfl rfl) (trigger_Ext _)
  · split
    · exact Ext.trans (by exact Ext.of_eq rfl rfl rfl rfl) (trigger_Ext _)
    · split
      · exact emit_Ext _ _ rfl
      · exact emit_Ext _ _ rfl

theorem sendFrame_Ext (s : S) (opcode : Nat) (pl : Bytes) (fin : Bool) (rsv : Nat) (sync : Bool) (chop : Nat) :
    Ext s (sendFrame s opcode pl fin rsv sync chop) := by
  unfold sendFrame
  split
  rename_i s' key heq
  have h0 : Ext s s' := by
    split at heq <;> cases heq
    · exact Ext.of_eq rfl rfl rfl rfl
    · exact Ext.refl _
  split
  · exact h0.trans (emit_Ext _ _ rfl)
  · exact h0.trans (Ext.trans (by exact Ext.of_eq rfl rfl rfl rfl) (sendData_Ext _ _ _ _))

theorem sendPing_Ext (s : S) (pl : Bytes) : Ext s (sendPing s pl) := by
  unfold sendPing
  split
  · exact Ext.refl s
  · split
    · exact emit_Ext _ _ rfl
    · exact sendFrame_Ext _ _ _ _ _ _ _

theorem sendPong_Ext (s : S) (pl : Bytes) : Ext s (sendPong s pl) := by
  unfold sendPong
  split
  · exact Ext.refl s
  · split
    · exact emit_Ext _ _ rfl
    · exact sendFrame_Ext _ _ _ _ _ _ _

/-- raising the state is an extension -/
theorem Ext.of_st {a b : S} (hr : a.st.rank ≤ b.st.rank) (h2 : b.lost = a.lost) (h3 : b.cfg = a.cfg)
    (h4 : b.log = a.log) : Ext a b := ⟨hr, h2, h3, [], by simp [h4], by simp⟩

theorem armCloseHs_Ext (s : S) : Ext s (armCloseHs s) := Ext.of_eq rfl rfl rfl rfl
theorem armServerDrop_Ext (s : S) : Ext s (armServerDrop s) := Ext.of_eq rfl rfl rfl rfl
theorem armPingNext_Ext (s : S) : Ext s (armPingNext s) := Ext.of_eq rfl rfl rfl rfl
theorem armPingTimeout_Ext (s : S) : Ext s (armPingTimeout s) := Ext.of_eq rfl rfl rfl rfl

theorem sendCloseFrame_Ext (s : S) (code : Option Nat) (reason : Option Bytes) (isReply : Bool) :
    Ext s (sendCloseFrame s code reason isReply) := by
  unfold sendCloseFrame
  split
  · exact Ext.refl s
  · exact Ext.refl s
  · exact emit_Ext _ _ rfl
  · rename_i hst
    dsimp only
    have h1 := sendFrame_Ext s 8 (closePayload code reason) true 0 false 0
    have hr : s.st.rank ≤ St.closing.rank := by rw [hst]; decide
    have h2 : Ext s { sendFrame s 8 (closePayload code reason) with
        st := .closing, closedByMe := !isReply, localCloseCode := code,
        closeSent := (sendFrame s 8 (closePayload code reason)).closeSent ++ [(code, reason)] } := by
      refine h1.trans (Ext.of_st ?_ rfl rfl rfl)
      rw [(sendFrame_SendEq _ _ _ _ _ _ _).st]; exact hr
    split
    · exact h2.trans (armCloseHs_Ext _)
    · exact h2

theorem sendClose_Ext (s : S) (code : Option Nat) (reason : Option Bytes) : Ext s (sendClose s code reason) := by
  unfold sendClose
  split
  · exact emit_Ext _ _ rfl
  · split
    · exact emit_Ext _ _ rfl
    · exact sendCloseFrame_Ext _ _ _ _

theorem rank_le_closed (st : St) : st.rank ≤ St.closed.rank := by cases st <;> decide

theorem dropConnection_Ext (s : S) (a : Bool) : Ext s (dropConnection s a) := by
  unfold dropConnection
  split
  · exact Ext.trans (by exact Ext.of_st (rank_le_closed _) rfl rfl rfl)
      (Ext.trans (emit_Ext _ _ rfl) (emit_Ext _ _ rfl))
  · exact Ext.refl s

theorem failConnection_Ext (s : S) (code : Nat) : Ext s (failConnection s code) := by
  unfold failConnection
  split
  · dsimp only
    split
    · exact Ext.trans (by exact Ext.of_eq rfl rfl rfl rfl) (dropConnection_Ext _ _)
    · split
      · exact Ext.trans (by exact Ext.of_eq rfl rfl rfl rfl) (sendCloseFrame_Ext _ _ _ _)
      · exact Ext.trans (by exact Ext.of_eq rfl rfl rfl rfl) (dropConnection_Ext _ _)
  · exact Ext.refl s

theorem violation_Ext (s : S) (code : Nat) : Ext s (violation s code).1 := failConnection_Ext s code

end Abverif.Ws
