import Abverif.Proofs.Lemmas.WsOps
import Abverif.Proofs.WsCloseReason
/-
The invariant behind "the reason of every close frame we send is valid UTF-8":
`V s`: every reason recorded in `closeSent` is valid UTF-8, and so is the peer's reason we hold (`remoteCloseReason`,
which an echoing endpoint sends back).  `VP a b := V a → V b` for every engine function, in the order of `WsOps.lean`.
-/
namespace Abverif.Ws

def V (s : S) : Prop :=
  (∀ c r, (c, some r) ∈ s.closeSent → utf8Valid r = true) ∧ (∀ r, s.remoteCloseReason = some r → utf8Valid r = true)

def VP (a b : S) : Prop := V a → V b

theorem VP.refl (a : S) : VP a a := id
theorem VP.trans {a b c : S} (h1 : VP a b) (h2 : VP b c) : VP a c := fun h => h2 (h1 h)

theorem VP.of_same {a b : S} (h1 : b.st = a.st) (h2 : b.closeSent = a.closeSent)
    (h3 : b.remoteCloseReason = a.remoteCloseReason) : VP a b := by
  intro v; unfold V at *; rw [h2, h3]; exact v

theorem VP.of_rank {a b : S} (h1 : a.st.rank ≤ b.st.rank) (h2 : b.closeSent = a.closeSent)
    (h3 : b.remoteCloseReason = a.remoteCloseReason) : VP a b := by
  intro v; unfold V at *; rw [h2, h3]; exact v

theorem VP.pre {a a' b : S} (h : VP a' b) (h1 : a'.st = a.st) (h2 : a'.closeSent = a.closeSent)
    (h3 : a'.remoteCloseReason = a.remoteCloseReason) : VP a b := (VP.of_same h1 h2 h3).trans h

theorem VP.post {a b b' : S} (h : VP a b) (h1 : b'.st = b.st) (h2 : b'.closeSent = b.closeSent)
    (h3 : b'.remoteCloseReason = b.remoteCloseReason) : VP a b' := h.trans (VP.of_same h1 h2 h3)

theorem VP.of_SendEq {a b : S} (h : SendEq a b) : VP a b := VP.of_same h.st h.closeSent h.remoteCloseReason

theorem emit_VP (s : S) (o : Out) : VP s (s.emit o) := VP.of_same rfl rfl rfl
theorem timer_VP (s : S) (d : Nat) : VP s (s.timer d).1 := VP.of_same rfl rfl rfl
theorem armCloseHs_VP (s : S) : VP s (armCloseHs s) := VP.of_same rfl rfl rfl
theorem armServerDrop_VP (s : S) : VP s (armServerDrop s) := VP.of_same rfl rfl rfl
theorem armPingNext_VP (s : S) : VP s (armPingNext s) := VP.of_same rfl rfl rfl
theorem armPingTimeout_VP (s : S) : VP s (armPingTimeout s) := VP.of_same rfl rfl rfl
theorem sendTick_VP (s : S) : VP s (sendTick s) := VP.of_SendEq (sendTick_SendEq s)
theorem sendFrame_VP (s : S) (op : Nat) (pl : Bytes) (fin : Bool) (rsv : Nat) (sync : Bool) (chop : Nat) :
    VP s (sendFrame s op pl fin rsv sync chop) := VP.of_SendEq (sendFrame_SendEq s op pl fin rsv sync chop)

theorem sendPing_VP (s : S) (pl : Bytes) : VP s (sendPing s pl) := by
  unfold sendPing
  split
  · exact VP.refl s
  · split
    · exact emit_VP _ _
    · exact sendFrame_VP _ _ _ _ _ _ _

theorem sendPong_VP (s : S) (pl : Bytes) : VP s (sendPong s pl) := by
  unfold sendPong
  split
  · exact VP.refl s
  · split
    · exact emit_VP _ _
    · exact sendFrame_VP _ _ _ _ _ _ _

/-- a close frame is recorded with the reason given: valid if that reason is -/
theorem sendCloseFrame_VP (s : S) (c : Option Nat) (r : Option Bytes) (i : Bool)
    (hr : ∀ x, r = some x → utf8Valid x = true) : VP s (sendCloseFrame s c r i) := by
  intro v
  unfold sendCloseFrame
  split
  · exact v
  · exact v
  · exact emit_VP _ _ v
  · dsimp only
    have e := sendFrame_SendEq s 8 (closePayload c r) true 0 false 0
    have key : ∀ t : S, t.closeSent = (sendFrame s 8 (closePayload c r)).closeSent ++ [(c, r)] →
        t.remoteCloseReason = (sendFrame s 8 (closePayload c r)).remoteCloseReason → V t := by
      intro t h1 h2
      refine ⟨?_, ?_⟩
      · intro c' r' hm
        rw [h1, e.closeSent] at hm
        rcases List.mem_append.mp hm with h | h
        · exact v.1 c' r' h
        · simp only [List.mem_singleton, Prod.mk.injEq] at h
          exact hr r' h.2.symm
      · intro r' hm
        rw [h2, e.remoteCloseReason] at hm
        exact v.2 r' hm
    split
    · exact key _ rfl rfl
    · exact key _ rfl rfl

theorem sendClose_VP (s : S) (c : Option Nat) (r : Option Bytes) (hr : ∀ x, r = some x → utf8Valid x = true) :
    VP s (sendClose s c r) := by
  unfold sendClose
  split
  · exact emit_VP _ _
  · split
    · exact emit_VP _ _
    · exact sendCloseFrame_VP _ _ _ _ (by
        intro x hx
        cases r with
        | none => simp at hx
        | some u => simp at hx; subst hx; exact encodeTruncate_valid u 123 (hr u rfl))

theorem dropConnection_VP (s : S) (a : Bool) : VP s (dropConnection s a) := by
  unfold dropConnection flushQueue
  split
  · refine VP.of_rank ?_ ?_ ?_
    · show s.st.rank ≤ St.closed.rank
      cases s.st <;> simp [St.rank]
    · cases a <;> rfl
    · cases a <;> rfl
  · exact VP.refl s

theorem failConnection_VP (s : S) (code : Nat) : VP s (failConnection s code) := by
  unfold failConnection
  split
  · dsimp only
    split
    · exact VP.pre (dropConnection_VP _ _) rfl rfl rfl
    · split
      · exact VP.pre (sendCloseFrame_VP _ _ _ _ (by intro x hx; cases hx)) rfl rfl rfl
      · exact VP.pre (dropConnection_VP _ _) rfl rfl rfl
  · exact VP.refl s

theorem violation_VP (s : S) (code : Nat) : VP s (violation s code).1 := failConnection_VP s code

theorem closeCodeStep_VP (s : S) (c : Option Nat) : VP s (closeCodeStep s c).1 := by
  unfold closeCodeStep
  split
  · split
    · have hv := violation_VP s 1002
      generalize violation s 1002 = r at hv
      obtain ⟨s', stop⟩ := r
      dsimp only
      split
      · exact hv
      · exact hv.post rfl rfl rfl
    · exact VP.of_same rfl rfl rfl
  · exact VP.of_same rfl rfl rfl

theorem closeReasonStep_VP (s : S) (r : Option Bytes) : VP s (closeReasonStep s r).1 := by
  unfold closeReasonStep
  split
  · rename_i x
    split
    · exact violation_VP _ _
    · rename_i hok
      intro v
      exact ⟨v.1, fun r' h => by
        simp only [Option.some.injEq] at h; subst h; simpa using hok⟩
  · exact VP.refl s

theorem replyClose_VP (s : S) : VP s (replyClose s) := by
  intro v
  unfold replyClose
  split
  · exact sendCloseFrame_VP _ _ _ _ (by
      intro x hx
      cases hr : s.remoteCloseReason with
      | none => rw [hr] at hx; simp at hx
      | some u => rw [hr] at hx; simp at hx; subst hx; exact encodeTruncate_valid u 123 (v.2 u hr)) v
  · exact sendCloseFrame_VP _ _ _ _ (by intro x hx; cases hx) v

theorem afterCloseHandshake_VP (s : S) (a : Bool) : VP s (afterCloseHandshake s a).1 := by
  unfold afterCloseHandshake
  split
  · exact dropConnection_VP _ _
  · split
    · exact armServerDrop_VP _
    · exact VP.refl s

theorem closeStateStep_VP (s : S) : VP s (closeStateStep s).1 := by
  unfold closeStateStep
  split
  · exact VP.pre (afterCloseHandshake_VP _ _) rfl rfl rfl
  · exact VP.pre ((replyClose_VP _).trans (afterCloseHandshake_VP _ _)) rfl rfl rfl
  · exact VP.of_same rfl rfl rfl
  · exact emit_VP _ _

theorem onCloseFrame_VP (s : S) (c : Option Nat) (r : Option Bytes) : VP s (onCloseFrame s c r).1 := by
  unfold onCloseFrame
  dsimp only
  have h0 : VP s { s with remoteCloseCode := none, remoteCloseReason := none } :=
    fun v => ⟨v.1, fun r' h => by cases h⟩
  have h1 := closeCodeStep_VP { s with remoteCloseCode := none, remoteCloseReason := none } c
  generalize closeCodeStep { s with remoteCloseCode := none, remoteCloseReason := none } c = r1 at h1
  split
  · exact h0.trans h1
  · have h2 := closeReasonStep_VP r1.1 r
    generalize closeReasonStep r1.1 r = r2 at h2
    split
    · exact (h0.trans h1).trans h2
    · exact ((h0.trans h1).trans h2).trans (closeStateStep_VP _)

theorem connectionLost_VP (s : S) : VP s (connectionLost s) := by
  unfold connectionLost
  split
  · exact VP.refl s
  · refine VP.of_rank ?_ ?_ ?_
    · unfold reportClose unsentUnclean markClosed cancelOnLost
      split <;> split <;> (try split) <;> (try split) <;> (simp [S.emit] <;> cases s.st <;> simp_all [St.rank])
    · unfold reportClose unsentUnclean markClosed cancelOnLost
      split <;> split <;> (try split) <;> (try split) <;> rfl
    · unfold reportClose unsentUnclean markClosed cancelOnLost
      split <;> split <;> (try split) <;> (try split) <;> rfl

theorem sendAutoPing_VP (s : S) : VP s (sendAutoPing s) := by
  unfold sendAutoPing
  dsimp only
  have h : VP s (sendPing (beginAutoPing s) ((beginAutoPing s).pingPending.getD [])) :=
    VP.pre (sendPing_VP _ _) rfl rfl rfl
  split
  · exact h.trans (armPingTimeout_VP _)
  · split
    · exact h.trans (armPingNext_VP _)
    · exact h

theorem cancelAutoPingTimeout_VP (s : S) : VP s (cancelAutoPingTimeout s) := by
  unfold cancelAutoPingTimeout
  dsimp only
  split
  · exact VP.pre (armPingNext_VP _) rfl rfl rfl
  · exact VP.of_same rfl rfl rfl

theorem onMessageFrameBegin_VP (s : S) (n : Nat) : VP s (onMessageFrameBegin s n) := by
  unfold onMessageFrameBegin
  dsimp only
  split
  · split
    · exact VP.pre (failConnection_VP _ _) rfl rfl rfl
    · split
      · exact VP.pre (failConnection_VP _ _) rfl rfl rfl
      · exact VP.of_same rfl rfl rfl
  · exact VP.of_same rfl rfl rfl

theorem onFrameBegin_VP (s : S) (h : Hdr) : VP s (onFrameBegin s h) := by
  unfold onFrameBegin
  split
  · exact VP.of_same rfl rfl rfl
  · dsimp only
    split
    · split
      · exact VP.pre (onMessageFrameBegin_VP _ _) rfl rfl rfl
      · exact VP.pre (onMessageFrameBegin_VP _ _) rfl rfl rfl
    · exact onMessageFrameBegin_VP _ _

theorem utf8Step_VP (s : S) (p : Bytes) : VP s (utf8Step s p).1 := by
  unfold utf8Step
  split
  · split
    · exact VP.pre (violation_VP _ _) rfl rfl rfl
    · exact VP.of_same rfl rfl rfl
  · exact VP.refl s

theorem onFrameData_VP (s : S) (h : Hdr) (p : Bytes) : VP s (onFrameData s h p).1 := by
  unfold onFrameData
  split
  · exact VP.of_same rfl rfl rfl
  · dsimp only
    have h0 := utf8Step_VP s p
    generalize utf8Step s p = r at h0
    split
    · exact h0
    · unfold onMessageFrameData
      split
      · exact h0.post rfl rfl rfl
      · exact h0

theorem onPongFrame_VP (s : S) (p : Bytes) : VP s (onPongFrame s p) := by
  unfold onPongFrame
  split
  · split
    · dsimp only
      split
      · exact VP.pre (armPingNext_VP _) rfl rfl rfl
      · exact VP.of_same rfl rfl rfl
    · exact VP.refl s
  · exact VP.refl s

theorem onPingFrame_VP (s : S) (p : Bytes) : VP s (onPingFrame s p) := by
  unfold onPingFrame
  dsimp only
  split
  · exact VP.pre (sendPong_VP _ _) rfl rfl rfl
  · exact emit_VP _ _

theorem processControlFrame_VP (s : S) (h : Hdr) : VP s (processControlFrame s h) := by
  unfold processControlFrame
  dsimp only
  split
  · exact VP.pre (onCloseFrame_VP _ _ _) rfl rfl rfl
  · split
    · exact VP.pre (onPingFrame_VP _ _) rfl rfl rfl
    · split
      · exact VP.pre ((onPongFrame_VP _ _).trans (emit_VP _ _)) rfl rfl rfl
      · exact VP.of_same rfl rfl rfl

theorem endDataFrame_VP (s : S) : VP s (endDataFrame s) := by
  unfold endDataFrame
  dsimp only
  split <;> split <;> first | exact VP.of_same rfl rfl rfl | exact VP.pre (cancelAutoPingTimeout_VP _) rfl rfl rfl

theorem endMessageStep_VP (s : S) : VP s (endMessageStep s).1 := by
  unfold endMessageStep
  dsimp only
  have h0 : VP s (if (s.utf8On && !s.msgCompressed && !s.utf8Ends) = true
      then ((violation s 1007).1, !(violation s 1007).2) else (s, true)).1 := by
    split
    · exact violation_VP _ _
    · exact VP.refl s
  generalize (if (s.utf8On && !s.msgCompressed && !s.utf8Ends) = true
      then ((violation s 1007).1, !(violation s 1007).2) else (s, true)) = r at h0
  split
  · exact h0
  · unfold resetMessage deliverMessage
    split
    · exact h0.post rfl rfl rfl
    · exact h0.post rfl rfl rfl

theorem onFrameEnd_VP (s : S) (h : Hdr) : VP s (onFrameEnd s h).1 := by
  unfold onFrameEnd
  split
  · exact (processControlFrame_VP s h).post rfl rfl rfl
  · dsimp only
    split
    · exact (endDataFrame_VP s).trans (endMessageStep_VP _)
    · exact (endDataFrame_VP s).post rfl rfl rfl

theorem applyViolations_VP (s : S) (vs : List HV) : VP s (applyViolations s vs).1 := by
  induction vs generalizing s with
  | nil => exact VP.refl s
  | cons v vs ih =>
    unfold applyViolations
    have hv := violation_VP s 1002
    generalize violation s 1002 = r at hv
    obtain ⟨s', stop⟩ := r
    dsimp only
    split
    · exact hv
    · exact hv.trans (ih _)

theorem extLenStep_VP (s : S) (a b : Nat) : VP s (extLenStep s a b).1 := by
  unfold extLenStep
  split
  · split
    · exact violation_VP _ _
    · exact VP.refl s
  · split
    · dsimp only
      have h0 : VP s (if b > 0x7FFFFFFFFFFFFFFF then violation s 1002 else (s, false)).1 := by
        split
        · exact violation_VP _ _
        · exact VP.refl s
      generalize (if b > 0x7FFFFFFFFFFFFFFF then violation s 1002 else (s, false)) = r at h0
      split
      · exact h0
      · split
        · exact h0.trans (violation_VP _ _)
        · exact h0
    · exact VP.refl s

theorem processHeader_VP (s : S) (o0 o1 : UInt8) (buf : Bytes) : VP s (processHeader s o0 o1 buf).1 := by
  unfold processHeader
  dsimp only
  have h0 := applyViolations_VP s (headerViolations s.cfg s.insideMessage (o0.toNat / 128 = 1) (o0.toNat / 16 % 8)
    (o0.toNat % 16) (o1.toNat / 128 = 1) (o1.toNat % 128))
  generalize applyViolations s (headerViolations s.cfg s.insideMessage (o0.toNat / 128 = 1) (o0.toNat / 16 % 8)
    (o0.toNat % 16) (o1.toNat / 128 = 1) (o1.toNat % 128)) = r0 at h0
  split
  · exact h0
  · split
    · have h1 := extLenStep_VP r0.1 (o1.toNat % 128)
        (if o1.toNat % 128 < 126 then o1.toNat % 128 else
          beNat ((buf.drop 2).take (if o1.toNat % 128 = 126 then 2 else if o1.toNat % 128 = 127 then 8 else 0)))
      generalize extLenStep r0.1 (o1.toNat % 128)
        (if o1.toNat % 128 < 126 then o1.toNat % 128 else
          beNat ((buf.drop 2).take (if o1.toNat % 128 = 126 then 2 else if o1.toNat % 128 = 127 then 8 else 0))) = r1 at h1
      split
      · exact h0.trans h1
      · exact (h0.trans h1).trans (VP.pre (onFrameBegin_VP _ _) rfl rfl rfl)
    · exact h0

theorem processPayload_VP (s : S) (h : Hdr) (buf : Bytes) : VP s (processPayload s h buf).1 := by
  unfold processPayload
  dsimp only
  have h1 : VP s (onFrameData { s with ptr := s.ptr + (buf.take (h.length - s.ptr)).length }
      h (unmaskChunk s h (buf.take (h.length - s.ptr)))).1 := VP.pre (onFrameData_VP _ _ _) rfl rfl rfl
  generalize onFrameData { s with ptr := s.ptr + (buf.take (h.length - s.ptr)).length }
    h (unmaskChunk s h (buf.take (h.length - s.ptr))) = r at h1
  split
  · exact h1
  · have h2 : VP r.1 (if r.1.ptr = h.length then onFrameEnd r.1 h else (r.1, true)).1 := by
      split
      · exact onFrameEnd_VP _ _
      · exact VP.refl _
    generalize (if r.1.ptr = h.length then onFrameEnd r.1 h else (r.1, true)) = r2 at h2
    split
    · exact h1.trans h2
    · exact h1.trans h2

theorem processData_VP (s : S) (buf : Bytes) : VP s (processData s buf).1 := by
  unfold processData
  split
  · split
    · exact processHeader_VP _ _ _ _
    · exact VP.refl s
  · exact processPayload_VP _ _ _

theorem drain_VP (fuel : Nat) (s : S) (buf : Bytes) : VP s (drain fuel s buf).1 := by
  induction fuel generalizing s buf with
  | zero => exact VP.refl s
  | succ n ih =>
    unfold drain
    split
    · exact VP.refl s
    · have h := processData_VP s buf
      generalize processData s buf = r at h
      dsimp only
      split
      · exact h.trans (ih _ _)
      · exact h

theorem dataReceived_VP (s : S) (d : Bytes) : VP s (dataReceived s d) := by
  unfold dataReceived
  split
  · exact VP.refl s
  · have hd := drain_VP (drainFuel (s.data ++ d)) { s with data := [] } (s.data ++ d)
    split
    · exact (VP.pre hd rfl rfl rfl).post rfl rfl rfl
    · exact (VP.pre hd rfl rfl rfl).post rfl rfl rfl
    · exact VP.of_same rfl rfl rfl

theorem handshakeDone_VP (s : S) : VP s (handshakeDone s) := by
  unfold handshakeDone
  split
  · exact VP.refl s
  · rename_i hc
    have hc' : s.st = .connecting := by simpa using hc
    dsimp only
    refine VP.of_rank ?_ ?_ ?_
    · split <;> simp [hc', St.rank, armPingNext, S.timer]
    · split <;> rfl
    · split <;> rfl

theorem fire_VP (s : S) (k : TK) : VP s (fire s k) := by
  cases k <;> simp only [fire]
  · split
    · exact VP.pre (dropConnection_VP _ _) rfl rfl rfl
    · exact VP.of_same rfl rfl rfl
  · split
    · exact VP.pre (dropConnection_VP _ _) rfl rfl rfl
    · exact VP.of_same rfl rfl rfl
  · split
    · exact VP.pre (dropConnection_VP _ _) rfl rfl rfl
    · exact VP.of_same rfl rfl rfl
  · split
    · exact VP.pre (dropConnection_VP _ _) rfl rfl rfl
    · exact VP.of_same rfl rfl rfl
  · exact sendAutoPing_VP s
  · exact VP.pre (sendTick_VP _) rfl rfl rfl

theorem advanceTo_VP (target : Nat) : ∀ (fuel : Nat) (s : S), VP s (advanceTo target fuel s) := by
  intro fuel
  induction fuel with
  | zero => intro s; exact VP.refl s
  | succ n ih =>
    intro s
    unfold advanceTo
    split
    · split
      · exact VP.pre ((fire_VP _ _).trans (ih _)) rfl rfl rfl
      · exact VP.of_same rfl rfl rfl
    · exact VP.of_same rfl rfl rfl

theorem pump_VP (s : S) : VP s (pump s) := advanceTo_VP _ _ _
theorem advance_VP (s : S) (dt : Nat) : VP s (advance s dt) := advanceTo_VP _ _ _

end Abverif.Ws
