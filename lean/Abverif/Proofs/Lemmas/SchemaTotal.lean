import Abverif.Proofs.Lemmas.SchemaRT1
/-
Totality (C08): which exception classes each part of the parse model can raise.
`ErrIn P r` = "if `r` is an error, its class satisfies `P`".
-/
namespace Abverif.Wamp
open Schema

def ErrIn (P : ErrClass → Prop) (r : Except Err α) : Prop := ∀ e, r = .error e → P e.cls

theorem ErrIn.ok {P : ErrClass → Prop} (a : α) : ErrIn P (.ok a : Except Err α) := by
  intro e h; cases h

theorem ErrIn.pure {P : ErrClass → Prop} (a : α) : ErrIn P (pure a : Except Err α) := ErrIn.ok a

theorem ErrIn.fail {P : ErrClass → Prop} {c : ErrClass} (site : Str) (h : P c) : ErrIn P (fail c site : Except Err α) := by
  intro e he
  have he' : (Except.error ⟨c, site⟩ : Except Err α) = .error e := he
  cases he'
  exact h

theorem ErrIn.mono {P Q : ErrClass → Prop} {r : Except Err α} (h : ErrIn P r) (hpq : ∀ c, P c → Q c) : ErrIn Q r :=
  fun e he => hpq _ (h e he)

theorem ErrIn.bind {P : ErrClass → Prop} {x : Except Err α} {f : α → Except Err β}
    (hx : ErrIn P x) (hf : ∀ a, x = .ok a → ErrIn P (f a)) : ErrIn P (x >>= f) := by
  intro e he
  cases hxx : x with
  | error e' =>
    rw [hxx] at he
    have he' : (Except.error e' : Except Err β) = .error e := he
    cases he'
    exact hx _ hxx
  | ok a =>
    rw [hxx] at he
    exact hf a hxx e he

theorem ErrIn.ite {P : ErrClass → Prop} {c : Prop} [Decidable c] {a b : Except Err α}
    (ha : ErrIn P a) (hb : ErrIn P b) : ErrIn P (if c then a else b) := by
  split <;> assumption

/-- the library's own errors -/
def Allowed (c : ErrClass) : Prop := c.allowed = true

theorem allowed_protocol : Allowed .protocol := rfl
theorem allowed_invalidUri : Allowed .invalidUri := rfl

theorem checkId_allowed (site : Str) (v : WVal) : ErrIn Allowed (checkId site v) := by
  unfold checkId
  split
  · exact ErrIn.ite (ErrIn.ok _) (ErrIn.fail _ allowed_protocol)
  · exact ErrIn.fail _ allowed_protocol

theorem checkUri_allowed (O : Oracles) (fl : UriFlags) (site : Str) (v : WVal) : ErrIn Allowed (checkUri O fl site v) := by
  unfold checkUri
  exact ErrIn.ite (ErrIn.ok _) (ErrIn.fail _ allowed_invalidUri)

theorem checkExtra_allowed (site : Str) (v : WVal) : ErrIn Allowed (checkExtra site v) := by
  unfold checkExtra
  split
  · exact ErrIn.ok _
  · exact ErrIn.fail _ allowed_protocol

theorem checkStr_allowed (site : Str) (v : WVal) : ErrIn Allowed (checkStr site v) := by
  unfold checkStr
  split
  · exact ErrIn.ok _
  · exact ErrIn.fail _ allowed_protocol

theorem OTy.check_allowed (O : Oracles) (site : Str) (ty : OTy) (v : WVal) (hr : ty.isRoles = false) :
    ErrIn Allowed (ty.check O site v) := by
  unfold OTy.check
  split
  all_goals first
    | exact ErrIn.ok _
    | exact ErrIn.fail _ allowed_protocol
    | exact ErrIn.ite (ErrIn.fail _ allowed_protocol) (ErrIn.ok _)
    | exact ErrIn.ite (ErrIn.ok _) (ErrIn.fail _ allowed_protocol)
    | exact checkUri_allowed O _ _ _
    | (simp [OTy.isRoles] at hr)

theorem OptStep.parse_allowed (O : Oracles) (d : Dict) (s : OptStep) (hr : s.ty.isRoles = false) :
    ErrIn Allowed (s.parse O d) := by
  unfold OptStep.parse
  split
  · split
    · exact ErrIn.fail _ allowed_protocol
    · split
      · exact ErrIn.ok _
      · exact ErrIn.ite (ErrIn.fail _ allowed_protocol) (ErrIn.ok _)
  · exact OTy.check_allowed O _ _ _ hr

theorem parseOpts_allowed (O : Oracles) (d : Dict) :
    ∀ ss : List OptStep, (∀ s ∈ ss, s.ty.isRoles = false) → ErrIn Allowed (parseOpts O d ss) := by
  intro ss
  induction ss with
  | nil => intro _; exact ErrIn.pure _
  | cons s t ih =>
    intro h
    unfold parseOpts
    apply ErrIn.bind (OptStep.parse_allowed O d s (h s List.mem_cons_self))
    intro v _
    apply ErrIn.bind (ih (fun x hx => h x (List.mem_cons_of_mem _ hx)))
    intro r _
    exact ErrIn.pure _

theorem PosStep.parse_allowed (O : Oracles) (w : List WVal) (v : WVal) (p : PosStep) :
    ErrIn Allowed (p.parse O w v) := by
  cases p with
  | id f =>
    exact ErrIn.bind (checkId_allowed f v) (fun _ _ => ErrIn.pure _)
  | uri f fl =>
    exact ErrIn.bind (checkUri_allowed O fl f v) (fun _ _ => ErrIn.pure _)
  | str f =>
    exact ErrIn.bind (checkStr_allowed f v) (fun _ _ => ErrIn.pure _)
  | extra f =>
    exact ErrIn.bind (checkExtra_allowed f v) (fun _ _ => ErrIn.pure _)
  | intEnum f allowed =>
    simp only [PosStep.parse]
    split
    · exact ErrIn.ite (ErrIn.pure _) (ErrIn.fail _ allowed_protocol)
    · exact ErrIn.fail _ allowed_protocol
  | opts =>
    exact ErrIn.bind (checkExtra_allowed _ v) (fun _ _ => ErrIn.pure _)
  | uriByMatch f optsPos key vals =>
    simp only [PosStep.parse]
    split
    · exact ErrIn.bind (checkUri_allowed O _ f v) (fun _ _ => ErrIn.pure _)
    · exact ErrIn.ite (ErrIn.bind (checkUri_allowed O _ f v) (fun _ _ => ErrIn.pure _)) (ErrIn.fail _ allowed_protocol)
    · exact ErrIn.fail _ allowed_protocol

theorem parsePos_allowed (O : Oracles) (w : List WVal) :
    ∀ (ps : List PosStep) (vs : List WVal), ErrIn Allowed (parsePos O w ps vs) := by
  intro ps
  induction ps with
  | nil => intro vs; exact ErrIn.pure _
  | cons p t ih =>
    intro vs
    cases vs with
    | nil => simp only [parsePos]; exact ih []
    | cons v vs =>
      simp only [parsePos]
      apply ErrIn.bind (PosStep.parse_allowed O w v p)
      intro r _
      apply ErrIn.bind (ih vs)
      intro r' _
      exact ErrIn.pure _

theorem encGet_allowed (d : Dict) (key : Str) (valid : WVal → Bool) : ErrIn Allowed (encGet d key valid) := by
  unfold encGet
  exact ErrIn.ite (ErrIn.fail _ allowed_protocol) (ErrIn.ok _)

theorem checkArgs_allowed (v : ArgsVariant) (x : WVal) : ErrIn Allowed (checkArgs v x) := by
  unfold checkArgs
  split
  all_goals first
    | exact ErrIn.ok _
    | exact ErrIn.fail _ allowed_protocol

theorem checkKwargs_allowed (v : ArgsVariant) (x : WVal) : ErrIn Allowed (checkKwargs v x) := by
  unfold checkKwargs
  split
  all_goals first
    | exact ErrIn.ok _
    | exact ErrIn.fail _ allowed_protocol

theorem argsPart_allowed (t : TailSpec) (k : Nat) (w : List WVal) : ErrIn Allowed (argsPart t k w) := by
  unfold argsPart; exact ErrIn.ite (checkArgs_allowed _ _) (ErrIn.ok _)

theorem kwargsPart_allowed (t : TailSpec) (k : Nat) (w : List WVal) : ErrIn Allowed (kwargsPart t k w) := by
  unfold kwargsPart; exact ErrIn.ite (checkKwargs_allowed _ _) (ErrIn.ok _)

theorem encTripleGate_allowed (a k s : WVal) : ErrIn Allowed (encTripleGate a k s) := by
  unfold encTripleGate
  exact ErrIn.ite (ErrIn.fail _ allowed_protocol) (ErrIn.pure _)

theorem parseTail_allowed (O : Oracles) (t : TailSpec) (k : Nat) (d : Dict) (w : List WVal) :
    ErrIn Allowed (parseTail O t k d w) := by
  unfold parseTail
  split
  · apply ErrIn.bind (encGet_allowed _ _ _); intro _ _
    apply ErrIn.bind (encGet_allowed _ _ _); intro _ _
    apply ErrIn.bind (encGet_allowed _ _ _); intro _ _
    apply ErrIn.bind (encTripleGate_allowed _ _ _); intro _ _
    exact ErrIn.pure _
  · apply ErrIn.bind (argsPart_allowed _ _ _); intro _ _
    apply ErrIn.bind (kwargsPart_allowed _ _ _); intro _ _
    exact ErrIn.pure _

theorem kwargsCheck_allowed (m : Msg) : ErrIn Allowed (kwargsCheck m) := by
  unfold kwargsCheck
  split
  · exact ErrIn.pure _
  · exact ErrIn.pure _
  · exact ErrIn.fail _ allowed_protocol

def AssertOrAllowed (c : ErrClass) : Prop := c.allowed = true ∨ c = .assertion

theorem ctorOpts_assert (cls : ErrClass) (m : Msg) : ∀ ss : List OptStep, ErrIn (· = cls) (ctorOpts cls m ss) := by
  intro ss
  induction ss with
  | nil => exact ErrIn.pure _
  | cons s t ih =>
    unfold ctorOpts
    exact ErrIn.ite ih (ErrIn.fail _ rfl)

theorem ctorCross_assert (cls : ErrClass) (O : Oracles) (m : Msg) : ∀ cs : List Cross, ErrIn (· = cls) (ctorCross cls O m cs) := by
  intro cs
  induction cs with
  | nil => exact ErrIn.pure _
  | cons c t ih =>
    unfold ctorCross
    exact ErrIn.ite ih (ErrIn.fail _ rfl)

theorem ctorStage_classes (σ : Schema) (O : Oracles) (m : Msg) : ErrIn AssertOrAllowed (σ.ctorStage O m) := by
  unfold Schema.ctorStage
  have hcls : ∀ c, c = σ.ctorErr → AssertOrAllowed c := by
    intro c hc; subst hc
    unfold Schema.ctorErr
    split
    · exact Or.inr rfl
    · exact Or.inl rfl
  apply ErrIn.bind ((ctorOpts_assert _ m _).mono hcls); intro _ _
  apply ErrIn.bind ((ctorCross_assert _ O m _).mono hcls); intro _ _
  exact ErrIn.ite ((kwargsCheck_allowed m).mono (fun _ h => Or.inl h)) (ErrIn.pure _)

/-- a schema none of whose constructor assertions can fire -/
def Schema.assertFree (σ : Schema) : Bool := σ.opts.all (fun s => s.cty == .none) && σ.cross.isEmpty

theorem ctorOpts_ok_of_assertFree (cls : ErrClass) (m : Msg) :
    ∀ ss : List OptStep, (∀ s ∈ ss, s.cty = .none) → ctorOpts cls m ss = .ok () := by
  intro ss
  induction ss with
  | nil => intro _; rfl
  | cons s t ih =>
    intro h
    unfold ctorOpts
    rw [h s List.mem_cons_self]
    simp only [CTy.ok, if_true]
    exact ih (fun x hx => h x (List.mem_cons_of_mem _ hx))

theorem ctorStage_allowed_of_assertFree (σ : Schema) (O : Oracles) (m : Msg) (h : σ.assertFree = true) :
    ErrIn Allowed (σ.ctorStage O m) := by
  simp only [Schema.assertFree, Bool.and_eq_true, List.all_eq_true, beq_iff_eq, List.isEmpty_iff] at h
  unfold Schema.ctorStage
  rw [ctorOpts_ok_of_assertFree σ.ctorErr m σ.opts h.1, h.2]
  simp only [ctorCross, bind, Except.bind, pure, Except.pure]
  exact ErrIn.ite (kwargsCheck_allowed m) (ErrIn.ok _)

end Abverif.Wamp

namespace Abverif.Wamp
open Schema

/-! ### HELLO / WELCOME: the role dictionaries raise only `ProtocolError` too (a feature named `self` is an unknown
feature like any other since `self` is positional-only in the `Role*Features` constructors) -/

theorem featuresCheck_allowed (site : Str) (known : List Str) (fd : Dict) :
    ErrIn Allowed (featuresCheck site known fd) := by
  unfold featuresCheck
  exact ErrIn.ite (ErrIn.fail _ allowed_protocol) (ErrIn.ok _)

theorem rolesLoop_allowed (site : Str) (allowed : List Str) (feats : List (Str × List Str)) :
    ∀ dr : Dict, ErrIn Allowed (rolesLoop site allowed feats dr) := by
  intro dr
  induction dr with
  | nil => exact ErrIn.ok _
  | cons kv t ih =>
    obtain ⟨role, rv⟩ := kv
    unfold rolesLoop
    refine ErrIn.ite (ErrIn.fail _ allowed_protocol) ?_
    split
    · split
      · exact ErrIn.bind ih (fun _ _ => ErrIn.pure _)
      · apply ErrIn.bind (featuresCheck_allowed _ _ _); intro _ _
        exact ErrIn.bind ih (fun _ _ => ErrIn.pure _)
      · exact ErrIn.fail _ allowed_protocol
    · exact ErrIn.fail _ allowed_protocol

theorem rolesCheck_allowed (site : Str) (allowed : List Str) (feats : List (Str × List Str)) (v : WVal) :
    ErrIn Allowed (rolesCheck site allowed feats v) := by
  unfold rolesCheck
  split
  · exact ErrIn.fail _ allowed_protocol
  · exact ErrIn.bind (rolesLoop_allowed _ _ _ _) (fun _ _ => ErrIn.pure _)
  · exact ErrIn.fail _ allowed_protocol

/-- every option type, `roles` included -/
theorem OTy.check_allowed' (O : Oracles) (site : Str) (ty : OTy) (v : WVal) :
    ErrIn Allowed (ty.check O site v) := by
  by_cases hr : ty.isRoles = false
  · exact OTy.check_allowed O site ty v hr
  · cases ty <;> simp [OTy.isRoles] at hr
    simp only [OTy.check]
    exact rolesCheck_allowed _ _ _ _

theorem OptStep.parse_allowed' (O : Oracles) (d : Dict) (s : OptStep) : ErrIn Allowed (s.parse O d) := by
  unfold OptStep.parse
  split
  · split
    · exact ErrIn.fail _ allowed_protocol
    · split
      · exact ErrIn.ok _
      · exact ErrIn.ite (ErrIn.fail _ allowed_protocol) (ErrIn.ok _)
  · exact OTy.check_allowed' O _ _ _

theorem parseOpts_allowed' (O : Oracles) (d : Dict) : ∀ ss : List OptStep, ErrIn Allowed (parseOpts O d ss) := by
  intro ss
  induction ss with
  | nil => exact ErrIn.pure _
  | cons s t ih =>
    unfold parseOpts
    apply ErrIn.bind (OptStep.parse_allowed' O d s); intro _ _
    exact ErrIn.bind ih (fun _ _ => ErrIn.pure _)

/-- the field-by-field part of `parse` raises only the library's own errors — all 25 classes -/
theorem parseFields_allowed (σ : Schema) (O : Oracles) (w : List WVal) : ErrIn Allowed (σ.parseFields O w) := by
  unfold Schema.parseFields
  refine ErrIn.ite (ErrIn.fail _ allowed_protocol) ?_
  apply ErrIn.bind (parsePos_allowed O w _ _); intro _ _
  apply ErrIn.bind
  · unfold Schema.tailPart
    split
    · exact parseTail_allowed O _ _ _ _
    · exact ErrIn.pure _
  intro _ _
  apply ErrIn.bind (parseOpts_allowed' O _ _); intro _ _
  exact ErrIn.pure _

/-- everything `parse` does before calling the constructor raises only the library's own errors -/
theorem parseStage_allowed (σ : Schema) (O : Oracles) (w : List WVal) : ErrIn Allowed (σ.parseStage O w) := by
  unfold Schema.parseStage
  apply ErrIn.bind (parseFields_allowed σ O w); intro m _
  have hc : ErrIn Allowed (ctorCross .protocol O m σ.pcross) :=
    (ctorCross_assert .protocol O m σ.pcross).mono (fun c hc => by subst hc; exact allowed_protocol)
  exact ErrIn.bind hc (fun _ _ => ErrIn.pure _)

end Abverif.Wamp
