import Abverif.Proofs.Lemmas.C14Step
/-!
C14 — completion polarity: success only after a normal leave / main returned / stop(), error only on exhaustion;
a normal end completes the future before anything else is attempted.  (Histories without a raising main; a raising
main is retried by the code, see Proofs/C14 `main_raises_not_error`.)
-/
namespace Abverif.Comp
open Spec

/-- between steps: no failed main is pending, and a pending clean end means the future is already complete -/
structure PolInv (done : Option Bool) (stopping : Bool) (k : Core) : Prop where
  raise : k.pendingRaise = false
  clean : k.pendingClean = true → done.isSome = true
  stop : stopping = true → k.stopped = true

structure PolOK (c : Conf) (k : Core) (r : State × List Obs) : Prop where
  chk : specAll chkPolarity finTrue c k false r.2 = true
  inv : PolInv r.1.done r.1.stopping (feedAll c k r.2)

theorem PolOK.wrap {c : Conf} {k k1 : Core} {r : State × List Obs} {out pre post : List Obs}
    (h : PolOK c k1 r) (hout : out = pre ++ r.2 ++ post) (hpre : pre.all Obs.quiet = true)
    (hk : feedAll c k pre = k1) (hpost : post.all Obs.neutral = true) : PolOK c k (r.1, out) := by
  subst hout
  have hpn := (all_neutral_iff _).mp hpost
  constructor
  · show specAll chkPolarity finTrue c k false (pre ++ r.2 ++ post) = true
    rw [specAll_append, specAll_append, hk, h.chk,
      specAll_quiet _ chkPolarity_ad c k pre ((all_quiet_iff _).mp hpre),
      specAll_quiet _ chkPolarity_ad c _ post (fun o ho => neutral_quiet o (hpn o ho))]
    rfl
  · show PolInv r.1.done r.1.stopping (feedAll c k (pre ++ r.2 ++ post))
    rw [feedAll_append, feedAll_append, hk, feedAll_neutral _ _ _ hpn]
    exact h.inv

theorem PolOK.stutter {c : Conf} {s : State} {k : Core} (h : PolInv s.done s.stopping k) : PolOK c k (s, []) :=
  ⟨rfl, h⟩

theorem att_pol {c : Conf} {done : Option Bool} {st : Bool} {k : Core} (hd : k.done = done) (hp : PolInv done st k)
    (i : Nat) (w t : Q) :
    specAll chkPolarity finTrue c k false [.att i w t] = true ∧ PolInv done st (k.feed c (.att i w t)) := by
  constructor
  · simp only [specAll, finTrue, Bool.and_true, chkPolarity, hp.raise, Bool.false_or]
    cases hc : k.pendingClean with
    | false => simp
    | true => have := hp.clean hc; rw [← hd] at this; simp [this]
  · exact ⟨rfl, fun h => by simp [Core.feed] at h, hp.stop⟩

theorem attempt_pol {c : Conf} {s : State} {k : Core} (hd : k.done = s.done) (hp : PolInv s.done s.stopping k)
    (i : Nat) (w : Q) : PolOK c k (attemptConnect i w s) := by
  have := att_pol (c := c) hd hp i w s.now
  exact ⟨this.1, by simpa [attemptConnect, feedAll] using this.2⟩

theorem tc_pol {c : Conf} {s : State} {k : Core} (h : RelM c s k)
    (hp : PolInv s.done s.stopping k) : PolOK c k (transportCheck s) := by
  have hT := h.t
  have hcs := tc_cases s
  generalize transportCheck s = r at hcs ⊢
  cases hcs with
  | stopped hs =>
    unfold stopCheck
    cases hd : s.done with
    | none =>
      constructor
      · simp [specAll, finTrue, chkPolarity, hp.stop hs]
      · exact ⟨rfl, fun h => by simp [feedAll, Core.feed] at h, fun _ => by simpa [feedAll, Core.feed] using hp.stop hs⟩
    | some b => exact ⟨rfl, by simpa [feedAll, hd] using hp⟩
  | giveUp hany =>
    unfold Comp.setDone
    cases hd : s.done with
    | none =>
      rw [hd] at hT
      constructor
      · simp [specAll, finTrue, chkPolarity, anyElig_eq hT, hany]
      · exact ⟨rfl, fun h => by simp [feedAll, Core.feed] at h, fun h => by simpa [feedAll, Core.feed] using hp.stop h⟩
    | some b =>
      constructor
      · simp [specAll, finTrue, chkPolarity]
      · simpa [feedAll, hd] using hp
  | wait i t t' d hpick hget hcan hnd hpos => exact ⟨rfl, by simpa [tcState, feedAll] using hp⟩
  | now i t t' d hpick hget hcan hnd hpos =>
    exact attempt_pol (s := tcState s i t t') (by simpa [tcState] using hT.done_eq) (by simpa [tcState] using hp) i _

theorem failRetry_pol {c : Conf} {s : State} {k : Core} (h : RelM c s k)
    (hp : PolInv s.done s.stopping k) (i : Nat) (f : Bool) : PolOK c k (failRetry i f s) := by
  unfold failRetry
  split
  · have h1 : RelM c { s with trs := updAt Tr.failed s.trs i } (k.feed c (.fatal i)) :=
      ⟨h.t.fatal i, by simpa [Core.feed] using h.cur⟩
    have hp1 : PolInv s.done s.stopping (k.feed c (.fatal i)) := ⟨hp.raise, hp.clean, hp.stop⟩
    exact (tc_pol h1 hp1).wrap (pre := [.fatal i]) (post := []) (k := k) (by simp) (by simp [Obs.quiet])
      (by simp [feedAll]) (by simp)
  · exact tc_pol h hp

/-- `session_done` right after a clean end was observed -/
theorem sessionDone_pol {c : Conf} {s : State} {k : Core} (h : RelM c s k)
    (hr : k.pendingRaise = false) (hc : k.pendingClean = true) (hst : s.stopping = true → k.stopped = true)
    (i : Nat) (f : Bool) :
    PolOK c k (sessionDone i f s) := by
  unfold sessionDone
  cases hd : s.done with
  | none =>
    constructor
    · simp [specAll, finTrue, chkPolarity, hc]
    · exact ⟨rfl, fun h => by simp [feedAll, Core.feed] at h, fun h => by simpa [feedAll, Core.feed] using hst h⟩
  | some b =>
    simp only []
    have hp : PolInv s.done s.stopping k := ⟨hr, fun _ => by simp [hd], hst⟩
    split
    · exact (failRetry_pol h hp i f).wrap (pre := [.lateDone true]) (post := []) (k := k) (by simp)
        (by simp [Obs.quiet]) (by simp [feedAll]) (by simp)
    · exact ⟨by simp [specAll, finTrue, chkPolarity], by simpa [feedAll, hd] using hp⟩

theorem joinOn_polinv {s : State} {k : Core} {c : Conf} (hp : PolInv s.done s.stopping k) (i n : Nat) :
    PolInv (joinOn i { s with nsess := n }).done (joinOn i { s with nsess := n }).stopping (k.feed c (.join i)) :=
  ⟨hp.raise, hp.clean, hp.stop⟩

theorem onOutcome_pol {c : Conf} {s : State} {k : Core} (h : Rel c s k)
    (hp : PolInv s.done s.stopping k) (i : Nat) (hph : s.phase = .connecting i) (o : Outcome) (f : Bool)
    (hno : o ≠ .mainRaises) : PolOK c k (onOutcome i o f s) := by
  obtain ⟨_, hcur⟩ := phase_conn h (Or.inl hph)
  have hM : RelM c s k := h.toM hcur
  have hMn : ∀ n, RelM c { s with nsess := n } k := fun n => ⟨hM.t, hM.cur⟩
  have hJ : ∀ n, RelM c (joinOn i { s with nsess := n }) (k.feed c (.join i)) := fun n => hM.join i n
  have hpJ : ∀ n, PolInv (joinOn i { s with nsess := n }).done (joinOn i { s with nsess := n }).stopping
      (k.feed c (.join i)) := fun n => joinOn_polinv hp i n
  have hrJ : (k.feed c (.join i)).pendingRaise = false := (hpJ 0).raise
  cases o with
  | refused =>
    have h1 : RelM c { s with trs := updAt (fun t => { t with failures := t.failures + (if s.cfg.aio then 2 else 1) }) s.trs i } k :=
      ⟨hM.t.updAt_congr i _ (fun _ => rfl) (fun _ => rfl) (fun _ => rfl) (fun _ => rfl), hM.cur⟩
    exact (failRetry_pol h1 hp i f).wrap (pre := [.fail i]) (post := []) (by simp [onOutcome])
      (by simp [Obs.quiet]) (by simp [feedAll]) (by simp)
  | hsFail =>
    exact (failRetry_pol hM hp i f).wrap (pre := [.fail i]) (post := []) (by simp [onOutcome])
      (by simp [Obs.quiet]) (by simp [feedAll]) (by simp)
  | abort =>
    exact (failRetry_pol (hMn (s.nsess + 1)) hp i f).wrap
      (pre := [.fail i, .sess s.nsess i] ++ sfire s.cfg .connect s.nsess ++ sfire s.cfg .leave s.nsess)
      (post := sfire s.cfg .disconnect s.nsess) (by simp [onOutcome])
      (by simp [List.all_append, Obs.quiet]) (by simp [feedAll_append, feedAll_cons, feedAll_nil]) (by simp)
  | joinedLost =>
    exact (failRetry_pol (hJ (s.nsess + 1)) (hpJ _) i f).wrap (k := k)
      (out := (onOutcome i .joinedLost f s).2)
      (pre := .fail i :: joinedPre s.cfg s.nsess i ++ sfire s.cfg .leave s.nsess)
      (post := sfire s.cfg .disconnect s.nsess) (by simp [onOutcome])
      (by simp [List.all_append, Obs.quiet]) (by simp [feedAll_append, feedAll_cons]) (by simp)
  | joinedLeave =>
    have hC : RelM c (joinOn i { s with nsess := s.nsess + 1 }) ((k.feed c (.join i)).feed c (.cleanEnd i)) :=
      (hJ _).core_congr rfl rfl rfl rfl rfl
    exact (sessionDone_pol hC hrJ rfl (hpJ _).stop i f).wrap (k := k)
      (out := (onOutcome i .joinedLeave f s).2)
      (pre := joinedPre s.cfg s.nsess i ++ [.cleanEnd i] ++ sfire s.cfg .leave s.nsess)
      (post := sfire s.cfg .disconnect s.nsess) (by simp [onOutcome])
      (by simp [List.all_append, Obs.quiet]) (by simp [feedAll_append, feedAll_cons, feedAll_nil]) (by simp)
  | mainReturns =>
    simp only [onOutcome]
    split
    · have hC : RelM c (joinOn i { s with nsess := s.nsess + 1 }) ((k.feed c (.join i)).feed c (.cleanEnd i)) :=
        (hJ _).core_congr rfl rfl rfl rfl rfl
      exact (sessionDone_pol hC hrJ rfl (hpJ _).stop i f).wrap (k := k)
        (out := joinedPre s.cfg s.nsess i ++ [.cleanEnd i] ++ sfire s.cfg .leave s.nsess
                ++ (sessionDone i f (joinOn i { s with nsess := s.nsess + 1 })).2 ++ sfire s.cfg .disconnect s.nsess)
        (pre := joinedPre s.cfg s.nsess i ++ [.cleanEnd i] ++ sfire s.cfg .leave s.nsess)
        (post := sfire s.cfg .disconnect s.nsess) (by simp)
        (by simp [List.all_append, Obs.quiet]) (by simp [feedAll_append, feedAll_cons, feedAll_nil]) (by simp)
    · exact PolOK.stutter hp
  | mainRaises => exact absurd rfl hno
  | joined =>
    simp only [onOutcome]
    refine ⟨specAll_quiet _ chkPolarity_ad _ _ _ ((all_quiet_iff _).mp (by simp)), ?_⟩
    simpa using hpJ (s.nsess + 1)

theorem onSess_pol {c : Conf} {s : State} {k : Core} (h : Rel c s k)
    (hp : PolInv s.done s.stopping k) (e : SessEv) (f : Bool) : PolOK c k (onSess e f s) := by
  unfold onSess
  split
  · next i hph =>
    obtain ⟨_, hcur⟩ := phase_conn h (Or.inr (Or.inl hph))
    exact (failRetry_pol (h.toM hcur) hp i f).wrap (pre := .fail i :: sfire s.cfg .leave (s.nsess - 1))
      (post := sfire s.cfg .disconnect (s.nsess - 1)) (by simp)
      (by simp [Obs.quiet]) (by simp [feedAll_cons]) (by simp)
  · next i hph =>
    obtain ⟨_, hcur⟩ := phase_conn h (Or.inr (Or.inr hph))
    exact (failRetry_pol (h.toM hcur) hp i f).wrap (pre := .fail i :: sfire s.cfg .leave (s.nsess - 1))
      (post := sfire s.cfg .disconnect (s.nsess - 1)) (by simp)
      (by simp [Obs.quiet]) (by simp [feedAll_cons]) (by simp)
  · next i hph =>
    obtain ⟨_, hcur⟩ := phase_conn h (Or.inr (Or.inl hph))
    have hC : RelM c s (k.feed c (.cleanEnd i)) := (h.toM hcur).core_congr rfl rfl rfl rfl rfl
    exact (sessionDone_pol hC hp.raise rfl hp.stop i f).wrap (pre := [.cleanEnd i] ++ sfire s.cfg .leave (s.nsess - 1))
      (post := sfire s.cfg .disconnect (s.nsess - 1)) (by simp)
      (by simp [Obs.quiet]) (by simp [feedAll_cons, feedAll_append, feedAll_nil]) (by simp)
  · next i hph =>
    obtain ⟨_, hcur⟩ := phase_conn h (Or.inr (Or.inr hph))
    have hC : RelM c s (k.feed c (.cleanEnd i)) := (h.toM hcur).core_congr rfl rfl rfl rfl rfl
    exact (sessionDone_pol hC hp.raise rfl hp.stop i f).wrap (pre := [.cleanEnd i] ++ sfire s.cfg .leave (s.nsess - 1))
      (post := sfire s.cfg .disconnect (s.nsess - 1)) (by simp)
      (by simp [Obs.quiet]) (by simp [feedAll_cons, feedAll_append, feedAll_nil]) (by simp)
  · exact PolOK.stutter hp

theorem onStop_pol {c : Conf} {s : State} {k : Core} (_hd : k.done = s.done) (hp : PolInv s.done s.stopping k) :
    PolOK c k (onStop s) := by
  have hps : PolInv s.done true (k.feed c .stop) := ⟨hp.raise, hp.clean, fun _ => rfl⟩
  unfold onStop
  split
  · exact PolOK.stutter hp
  · unfold Comp.setDone
    dsimp only
    cases hdn : s.done with
    | none =>
      exact ⟨by simp [specAll, finTrue, chkPolarity, Core.feed],
             ⟨rfl, fun h => by simp [feedAll, Core.feed] at h, fun _ => by simp [feedAll, Core.feed]⟩⟩
    | some b => exact ⟨by simp [specAll, finTrue, chkPolarity], by simpa [feedAll, hdn] using hps⟩
  · cases hdn : s.done with
    | none =>
      exact ⟨by simp [specAll, finTrue, chkPolarity, Core.feed],
             ⟨rfl, fun h => by simp [feedAll, Core.feed] at h, fun _ => by simp [feedAll, Core.feed]⟩⟩
    | some b => exact ⟨by simp [specAll, finTrue, chkPolarity], by simpa [feedAll, hdn] using hps⟩
  · exact ⟨by simp [specAll, finTrue, chkPolarity], by simpa [feedAll] using hps⟩
  · exact ⟨by simp [specAll, finTrue, chkPolarity], by simpa [feedAll] using hps⟩

/-- an event other than "main raises" -/
def Event.noRaise : Event → Bool
  | .outcome .mainRaises _ => false
  | _ => true

theorem step_pol {c : Conf} {s : State} {k : Core} (h : Rel c s k)
    (hp : PolInv s.done s.stopping k) (e : Event) (hno : e.noRaise = true) : PolOK c k (step s e) := by
  cases e with
  | start =>
    simp only [step]
    split
    · next hph =>
      have := h.ph; unfold PhaseOK at this; rw [hph] at this
      exact tc_pol (h.toM this) hp
    · exact PolOK.stutter hp
  | delayElapsed =>
    simp only [step]
    split
    · next i d hph => exact attempt_pol (s := { s with now := s.now.add d }) h.t.done_eq hp i d
    · exact PolOK.stutter hp
  | stop => exact onStop_pol h.t.done_eq hp
  | outcome o f =>
    simp only [step]
    split
    · next i hph =>
      refine onOutcome_pol h hp i hph o f ?_
      intro ho; subst ho; simp [Event.noRaise] at hno
    · exact PolOK.stutter hp
  | sess e f => exact onSess_pol h hp e f

theorem run_pol {c : Conf} {s : State} {k : Core} (h : Rel c s k)
    (hp : PolInv s.done s.stopping k) (es : List Event) (hno : ∀ e ∈ es, e.noRaise = true) :
    specAll chkPolarity finTrue c k false (run s es).2 = true
      ∧ PolInv (run s es).1.done (run s es).1.stopping (feedAll c k (run s es).2)
      ∧ (feedAll c k (run s es).2).done = (run s es).1.done := by
  induction es generalizing s k with
  | nil => exact ⟨rfl, hp, h.t.done_eq⟩
  | cons e es ih =>
    have h1 := step_ok h e
    have p1 := step_pol h hp e (hno e (by simp))
    have h2 := ih h1.rel p1.inv (fun e' he' => hno e' (by simp [he']))
    simp only [run]
    refine ⟨?_, ?_, ?_⟩
    · rw [specAll_append, p1.chk, h2.1]; rfl
    · rw [feedAll_append]; exact h2.2.1
    · rw [feedAll_append]; exact h2.2.2

end Abverif.Comp
