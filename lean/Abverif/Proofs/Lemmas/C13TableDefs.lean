import Abverif.Model.RawSocket
/-
C13: machinery for the complete 2^16 table of handshake octets 1–2 (kernel evaluation, no axioms
beyond the allowed ones). The four tables live in their own files so that they build in parallel.
-/
namespace Abverif.RawSocket.Table
open Abverif.RawSocket Abverif.Gen

/-- RAWSOCKET_SERIALIZER_IDs of every serializer class in wamp/serializer.py (regenerated from the source) -/
def genIds : List Nat := WampTransport.serializers.map (fun r => r.2.1)

def o1 (n : Nat) : UInt8 := UInt8.ofNat (n / 256)
def o2 (n : Nat) : UInt8 := UInt8.ofNat (n % 256)

/-- `p` holds on `lo, …, lo + 2^d - 1` (binary splitting keeps the recursion 16 deep) -/
def allRange (p : Nat → Bool) : Nat → Nat → Bool
  | lo, 0 => p lo
  | lo, d + 1 => allRange p lo d && allRange p (lo + 2 ^ d) d

theorem allRange_sound (p : Nat → Bool) : ∀ (d lo : Nat), allRange p lo d = true →
    ∀ n, lo ≤ n → n < lo + 2 ^ d → p n = true := by
  intro d
  induction d with
  | zero =>
    intro lo h n h1 h2
    have : n = lo := by simp at h2; omega
    subst this; exact h
  | succ d ih =>
    intro lo h n h1 h2
    simp only [allRange, Bool.and_eq_true] at h
    by_cases hn : n < lo + 2 ^ d
    · exact ih lo h.1 n h1 hn
    · exact ih (lo + 2 ^ d) h.2 n (by omega) (by rw [Nat.pow_succ] at h2; omega)

/-- the Spec on naturals, reserved octets zero: magic 0x7F and a supported serializer nibble -/
def specB (ids : List Nat) (n : Nat) : Bool := Nat.beq (n / 256) 127 && ids.contains (n % 16)

end Abverif.RawSocket.Table
