import Abverif.Model.Handshake
import Abverif.Proofs.Lemmas.C07Str
/-!
C07 — per-stage characterisations of the server / client validation chains (helper lemmas for Proofs/C07.lean).
Each `stage…_ok` says: the stage lets the request pass  ↔  the corresponding conjunct of the Spec holds.
-/
namespace Abverif.Handshake
open Abverif Abverif.Http Abverif.Url

/-- parsed header tables count every key at least once -/
def HdrsWf (hs : List Hdr) : Prop := ∀ h ∈ hs, 1 ≤ h.cnt

theorem bind_ok {ε α β : Type} (x : Except ε α) (f : α → Except ε β) (b : β) :
    (x >>= f) = .ok b ↔ ∃ a, x = .ok a ∧ f a = .ok b := by
  cases x <;> simp [bind, Except.bind]

theorem hget_mem {hs : List Hdr} {k : Bytes} {h : Hdr} (e : hget hs k = some h) : h ∈ hs := by
  induction hs with
  | nil => simp [hget] at e
  | cons x xs ih =>
    unfold hget at e
    split at e
    · simp at e; simp [e]
    · simp [ih e]

theorem hget_key {hs : List Hdr} {k : Bytes} {h : Hdr} (e : hget hs k = some h) : h.key = k := by
  induction hs with
  | nil => simp [hget] at e
  | cons x xs ih =>
    unfold hget at e
    split at e
    · next hk => simp at e; rw [← e]; exact hk
    · exact ih e

theorem hdrInsert_wf {hs : List Hdr} (wf : HdrsWf hs) (k v : Bytes) : HdrsWf (hdrInsert hs k v) := by
  induction hs with
  | nil => intro h hm; simp [hdrInsert] at hm; simp [hm]
  | cons x xs ih =>
    intro h hm
    unfold hdrInsert at hm
    split at hm
    · simp at hm
      rcases hm with rfl | hm
      · simp
      · exact wf h (by simp [hm])
    · simp at hm
      rcases hm with rfl | hm
      · exact wf _ (by simp)
      · exact ih (fun h hh => wf h (by simp [hh])) h hm

theorem addLines_wf {hs : List Hdr} (wf : HdrsWf hs) (ls : List Bytes) : HdrsWf (addLines hs ls) := by
  induction ls generalizing hs with
  | nil => simpa [addLines] using wf
  | cons l ls ih =>
    unfold addLines
    split
    · exact ih (hdrInsert_wf wf _ _)
    · exact ih wf

theorem parse_wf {data line : Bytes} {hs : List Hdr} (e : parseHttpHeader data = some (line, hs)) : HdrsWf hs := by
  unfold parseHttpHeader at e
  split at e
  · simp at e
  · simp at e
    rw [← e.2]
    exact addLines_wf (by intro h hm; simp at hm) _

/-! ### request line -/

theorem httpver_iff (ver : Bytes) : splitOn 47 ver = [b!"HTTP", b!"1.1"] ↔ ver = b!"HTTP/1.1" := by
  constructor
  · intro h
    have := splitOn_join 47 ver
    rw [h] at this
    simpa [join] using this.symm
  · intro h; subst h; decide

theorem stageLine_ok (line uri : Bytes) :
    stageLine line = .ok uri ↔ splitWs line = [b!"GET", uri, b!"HTTP/1.1"] := by
  unfold stageLine
  split
  · next m u ver hsp =>
    rw [hsp]
    simp only [ne_eq, httpver_iff]
    by_cases hm : m = b!"GET" <;> by_cases hv : ver = b!"HTTP/1.1" <;> simp [hm, hv]
  · next hne =>
    simp [bad]
    intro h
    exact hne _ _ _ h

theorem stageUri_ok (env : SrvEnv) (uri : Bytes) :
    stageUri env uri = .ok () ↔ ∃ u, urlsplit env.brOk uri = some u ∧ u.fragment = [] := by
  unfold stageUri
  split
  · simp [bad, *]
  · next u hu =>
    by_cases hf : u.fragment = []
    · simp [hf, hu]
    · simp [hf, hu, bad]

theorem requestLineOk_iff (env : SrvEnv) (line : Bytes) :
    requestLineOk env line = true ↔
      ∃ uri, splitWs line = [b!"GET", uri, b!"HTTP/1.1"] ∧ ∃ u, urlsplit env.brOk uri = some u ∧ u.fragment = [] := by
  unfold requestLineOk
  split
  · next m uri ver hsp =>
    rw [hsp]
    constructor
    · intro h
      simp at h
      obtain ⟨⟨rfl, rfl⟩, h3⟩ := h
      refine ⟨uri, rfl, ?_⟩
      cases hu : urlsplit env.brOk uri with
      | none => simp [hu] at h3
      | some u => simp [hu] at h3; exact ⟨u, rfl, h3⟩
    · rintro ⟨uri', heq, u, hu, hf⟩
      simp at heq
      obtain ⟨rfl, rfl, rfl⟩ := heq
      simp [hu, hf]
  · next hne =>
    simp
    intro uri h
    exact absurd h (hne _ _ _)

theorem stageLineUri_ok (env : SrvEnv) (line : Bytes) :
    (∃ uri, stageLine line = .ok uri ∧ stageUri env uri = .ok ()) ↔ requestLineOk env line = true := by
  rw [requestLineOk_iff]
  constructor
  · rintro ⟨uri, h1, h2⟩
    exact ⟨uri, (stageLine_ok line uri).1 h1, (stageUri_ok env uri).1 h2⟩
  · rintro ⟨uri, h1, h2⟩
    exact ⟨uri, (stageLine_ok line uri).2 h1, (stageUri_ok env uri).2 h2⟩

/-! ### header stages -/

theorem count_eq_one {hs : List Hdr} (wf : HdrsWf hs) (k : Bytes) :
    count hs k = 1 ↔ ∃ h, hget hs k = some h ∧ ¬ h.cnt > 1 := by
  unfold count
  cases e : hget hs k with
  | none => simp
  | some h =>
    have := wf h (hget_mem e)
    simp
    omega

theorem count_ge_one {hs : List Hdr} (wf : HdrsWf hs) (k : Bytes) :
    count hs k ≥ 1 ↔ ∃ h, hget hs k = some h := by
  unfold count
  cases e : hget hs k with
  | none => simp
  | some h =>
    have := wf h (hget_mem e)
    simp
    omega

theorem count_le_one {hs : List Hdr} (wf : HdrsWf hs) (k : Bytes) :
    count hs k ≤ 1 ↔ ∀ h, hget hs k = some h → ¬ h.cnt > 1 := by
  unfold count
  cases e : hget hs k with
  | none => simp
  | some h => simp

/-- the Spec's digit-by-digit port rule and the model of the code's pattern + `int()` read the same numerals -/
theorem rfcPort_eq (p : Bytes) (acc : Nat) :
    rfcPort p acc = if p.all isDigit then some (p.foldl (fun v c => v * 10 + digitVal c) acc) else none := by
  induction p generalizing acc with
  | nil => simp [rfcPort]
  | cons c r ih =>
    unfold rfcPort
    by_cases hc : (48 ≤ c && c ≤ 57) = true
    · have hd : isDigit c = true := hc
      rw [if_pos hc, ih]
      simp [hd, digitVal]
    · have hd : isDigit c = false := by simpa [isDigit] using hc
      rw [if_neg hc]
      simp [hd]

theorem stageHost_ok {cfg : SrvCfg} {hs : List Hdr} (wf : HdrsWf hs) :
    stageHost cfg hs = .ok () ↔ count hs b!"host" = 1 ∧ hostOk cfg (value hs b!"host") = true := by
  rw [count_eq_one wf]
  unfold stageHost value hostOk
  cases e : hget hs b!"host" with
  | none => simp [bad]
  | some h =>
    simp only [Option.some.injEq, exists_eq_left']
    by_cases hc : h.cnt > 1
    · simp [hc, bad]
    · simp only [hc, if_false, not_false_eq_true, true_and]
      by_cases hcol : (contains 58 (strip h.val) && decide ((strip h.val).getLast? ≠ some 93)) = true
      · simp only [hcol, if_true]
        cases hr : rcut 58 (strip h.val) with
        | none => simp [bad]
        | some hp =>
          obtain ⟨hh, p⟩ := hp
          simp only
          rw [rfcPort_eq]
          unfold portNumeral
          by_cases hd : p.all isDigit = true
          · simp only [hd, if_true]
            by_cases he : p = []
            · simp [he]
            · by_cases hl : p.length ≤ maxStrDigits
              · have hl' : p.length ≤ 4300 := hl
                by_cases h0 : cfg.externalPort = 0
                · simp [he, hl, hl', h0]
                · by_cases h1 : p.foldl (fun v c => v * 10 + digitVal c) 0 = cfg.externalPort
                  · simp [he, hl, hl', h0, h1]
                  · simp [he, hl, hl', h0, h1, bad]
              · have hl' : ¬ p.length ≤ 4300 := hl
                simp [he, hl, hl', bad]
          · simp [hd, bad]
      · rw [if_neg hcol, if_neg hcol]; simp

theorem stageUpgrade_ok {cfg : SrvCfg} {env : SrvEnv} {hs : List Hdr} (wf : HdrsWf hs) :
    stageUpgrade cfg env hs = .ok () ↔
      count hs b!"upgrade" ≥ 1 ∧ hasToken b!"websocket" (value hs b!"upgrade") = true := by
  rw [count_ge_one wf]
  unfold stageUpgrade value
  cases e : hget hs b!"upgrade" with
  | none =>
    simp
    split
    · split <;> simp [bad]
    · simp
  | some h =>
    by_cases ht : hasToken b!"websocket" h.val = true
    · simp [ht]
    · simp [ht, bad]

theorem stageConnection_ok {hs : List Hdr} (wf : HdrsWf hs) :
    stageConnection hs = .ok () ↔
      count hs b!"connection" ≥ 1 ∧ hasToken b!"upgrade" (value hs b!"connection") = true := by
  rw [count_ge_one wf]
  unfold stageConnection value
  cases e : hget hs b!"connection" with
  | none => simp [bad]
  | some h =>
    by_cases ht : hasToken b!"upgrade" h.val = true
    · simp [ht]
    · simp [ht, bad]

/-- the pattern the code matches the version header against denotes exactly the RFC 6455 `version` production (0–255) -/
theorem versionNumeral_eq_rfcVersion (s : Bytes) : versionNumeral s = rfcVersion s := by
  unfold versionNumeral rfcVersion
  split
  · rfl
  · rfl
  · next a b c =>
    simp only [digitVal, isDigit, Bool.and_eq_true, Bool.or_eq_true, decide_eq_true_eq, beq_iff_eq,
      UInt8.le_iff_toNat_le, ← UInt8.toNat_inj]
    simp only [UInt8.toNat_ofNat]
    split <;> split <;> (try split) <;> first | rfl | (exfalso; omega)
  · rfl

theorem stageVersion_ok {cfg : SrvCfg} {hs : List Hdr} (wf : HdrsWf hs) (ver : Nat) :
    stageVersion cfg hs = .ok ver ↔
      count hs b!"sec-websocket-version" = 1 ∧ rfcVersion (value hs b!"sec-websocket-version") = some ver ∧
      ver ∈ cfg.versions := by
  rw [count_eq_one wf]
  unfold stageVersion value
  cases e : hget hs b!"sec-websocket-version" with
  | none => simp [bad]
  | some h =>
    simp only [Option.some.injEq, exists_eq_left']
    by_cases hc : h.cnt > 1
    · simp [hc, bad]
    · simp only [hc, if_false, not_false_eq_true, true_and]
      rw [versionNumeral_eq_rfcVersion]
      cases hp : rfcVersion h.val with
      | none => simp [bad]
      | some v =>
        simp only
        by_cases hv : v ∈ cfg.versions
        · simp only [hv, if_true, Except.ok.injEq, Option.some.injEq]
          constructor
          · rintro rfl; exact ⟨rfl, hv⟩
          · rintro ⟨rfl, _⟩; rfl
        · simp only [hv, if_false, reduceCtorEq, Option.some.injEq, false_iff, not_and]
          rintro rfl; exact hv

theorem stageProtocols_ok (hs : List Hdr) (ps : List Bytes) :
    stageProtocols hs = .ok ps ↔
      ((splitOn 44 (value hs b!"sec-websocket-protocol")).map strip).Nodup ∧
      ps = (match hget hs b!"sec-websocket-protocol" with
            | none => []
            | some h => (splitOn 44 h.val).map strip) := by
  unfold stageProtocols value
  cases e : hget hs b!"sec-websocket-protocol" with
  | none =>
    simp
    intro _; decide
  | some h =>
    simp only
    by_cases hn : ((splitOn 44 h.val).map strip).Nodup
    · simp [hn]; constructor <;> intro x <;> exact x.symm
    · simp [hn, bad]

theorem stageKey_ok {hs : List Hdr} (wf : HdrsWf hs) (key : Bytes) :
    stageKey hs = .ok key ↔
      (count hs b!"sec-websocket-key" = 1 ∧ keyShapeOk (strip (value hs b!"sec-websocket-key")) = true) ∧
      key = strip (value hs b!"sec-websocket-key") := by
  rw [count_eq_one wf]
  unfold stageKey value keyShapeOk
  cases e : hget hs b!"sec-websocket-key" with
  | none => simp [bad]
  | some h =>
    simp only [Option.some.injEq, exists_eq_left']
    by_cases hc : h.cnt > 1
    · simp [hc, bad]
    · simp only [hc, if_false, not_false_eq_true, true_and]
      by_cases h1 : (strip h.val).length = 24
      · by_cases h2 : List.drop 22 (strip h.val) = b!"=="
        · by_cases h3 : ((strip h.val).take 22).all Crypto7.Base64.isAlphabet = true
          · simp [h1, h2, h3]; constructor <;> intro x <;> exact x.symm
          · simp [h1, h2, h3, bad]
        · simp [h1, h2, bad]
      · simp [h1, bad]

theorem stageExtensions_ok {hs : List Hdr} (exts : List Ext) :
    stageExtensions hs = .ok exts ↔
      count hs b!"sec-websocket-extensions" ≤ 1 ∧ exts = parseExtensions (value hs b!"sec-websocket-extensions") := by
  unfold stageExtensions value count
  cases e : hget hs b!"sec-websocket-extensions" with
  | none =>
    simp
    constructor
    · intro h; subst h; decide
    · intro h; rw [h]; decide
  | some h =>
    simp only
    by_cases hc : h.cnt > 1
    · simp [hc, bad]; omega
    · simp [hc]
      constructor
      · intro x; exact ⟨by omega, x.symm⟩
      · intro x; exact x.2.symm

theorem stageMax_ok (cfg : SrvCfg) (env : SrvEnv) :
    stageMax cfg env = .ok () ↔ (cfg.maxConnections = 0 ∨ env.connCount ≤ cfg.maxConnections) := by
  unfold stageMax
  by_cases h : cfg.maxConnections > 0 ∧ env.connCount > cfg.maxConnections
  · simp [h]; omega
  · simp [h]; omega

/-! ### the chain -/

theorem validate_ok (cfg : SrvCfg) (env : SrvEnv) (line : Bytes) (hs : List Hdr) (v : Validated) :
    validate cfg env line hs = .ok v ↔
      ∃ uri, stageLine line = .ok uri ∧ stageUri env uri = .ok () ∧ stageHost cfg hs = .ok () ∧
        stageUpgrade cfg env hs = .ok () ∧ stageConnection hs = .ok () ∧
        ∃ ver, stageVersion cfg hs = .ok ver ∧ ∃ ps, stageProtocols hs = .ok ps ∧
          stageOrigin cfg env hs ver = .ok () ∧ ∃ key, stageKey hs = .ok key ∧
            ∃ exts, stageExtensions hs = .ok exts ∧ stageMax cfg env = .ok () ∧ v = ⟨ver, ps, key, exts⟩ := by
  unfold validate
  simp only [bind_ok, pure, Except.pure, Except.ok.injEq]
  constructor
  · rintro ⟨uri, h1, ⟨⟩, h2, ⟨⟩, h3, ⟨⟩, h4, ⟨⟩, h5, ver, h6, ps, h7, ⟨⟩, h8, key, h9, exts, h10, ⟨⟩, h11, rfl⟩
    exact ⟨uri, h1, h2, h3, h4, h5, ver, h6, ps, h7, h8, key, h9, exts, h10, h11, rfl⟩
  · rintro ⟨uri, h1, h2, h3, h4, h5, ver, h6, ps, h7, h8, key, h9, exts, h10, h11, rfl⟩
    exact ⟨uri, h1, (), h2, (), h3, (), h4, (), h5, ver, h6, ps, h7, (), h8, key, h9, exts, h10, (), h11, rfl⟩

/-! ### client stages -/

/-- a three-digit status code that reads 101 is the literal `101` -/
theorem statusCode_101 (s : Bytes) : statusCode s = some 101 ↔ s = b!"101" := by
  constructor
  · intro h
    unfold statusCode at h
    split at h
    · next a b c =>
      simp only [digitVal, isDigit, Bool.and_eq_true, decide_eq_true_eq, UInt8.le_iff_toNat_le] at h
      simp only [UInt8.toNat_ofNat] at h
      split at h
      · simp only [Option.some.injEq] at h
        have ha : a = 49 := UInt8.toNat_inj.1 (by simp only [UInt8.toNat_ofNat]; omega)
        have hb : b = 48 := UInt8.toNat_inj.1 (by simp only [UInt8.toNat_ofNat]; omega)
        have hc : c = 49 := UInt8.toNat_inj.1 (by simp only [UInt8.toNat_ofNat]; omega)
        subst ha hb hc
        rfl
      · cases h
    · cases h
  · rintro rfl
    decide

theorem cstageStatus_ok {line : Bytes} :
    cstageStatus line = .ok () ↔ ∃ rest, splitWs line = b!"HTTP/1.1" :: b!"101" :: rest := by
  unfold cstageStatus
  split
  · next ver code rest hsp =>
    rw [hsp]
    by_cases hv : ver = b!"HTTP/1.1"
    · subst hv
      cases hp : statusCode code with
      | none =>
        simp [cbad]
        intro hc; rw [(statusCode_101 code).2 hc] at hp; cases hp
      | some n =>
        by_cases hn : n = 101
        · subst hn
          have := (statusCode_101 code).1 hp
          simp [this]
        · simp [hn, cbad]
          intro hc; rw [(statusCode_101 code).2 hc] at hp; simp at hp; exact hn hp.symm
    · simp [hv, cbad]
  · next hne =>
    simp [cbad]
    intro rest h
    exact hne _ _ _ h

theorem cstageUpgrade_ok {hs : List Hdr} (wf : HdrsWf hs) :
    cstageUpgrade hs = .ok () ↔
      count hs b!"upgrade" ≥ 1 ∧ lower (strip (value hs b!"upgrade")) = b!"websocket" := by
  rw [count_ge_one wf]
  unfold cstageUpgrade value
  cases e : hget hs b!"upgrade" with
  | none => simp [cbad]
  | some h =>
    by_cases ht : lower (strip h.val) = b!"websocket"
    · simp [ht]
    · simp [ht, cbad]

theorem cstageConnection_ok {hs : List Hdr} (wf : HdrsWf hs) :
    cstageConnection hs = .ok () ↔
      count hs b!"connection" ≥ 1 ∧ hasToken b!"upgrade" (value hs b!"connection") = true := by
  rw [count_ge_one wf]
  unfold cstageConnection value
  cases e : hget hs b!"connection" with
  | none => simp [cbad]
  | some h =>
    by_cases ht : hasToken b!"upgrade" h.val = true
    · simp [ht]
    · simp [ht, cbad]

theorem cstageAccept_ok {hs : List Hdr} (wf : HdrsWf hs) (key : Bytes) :
    cstageAccept key hs = .ok () ↔
      count hs b!"sec-websocket-accept" = 1 ∧ strip (value hs b!"sec-websocket-accept") = acceptDigest key := by
  rw [count_eq_one wf]
  unfold cstageAccept value
  cases e : hget hs b!"sec-websocket-accept" with
  | none => simp [cbad]
  | some h =>
    simp only [Option.some.injEq, exists_eq_left']
    by_cases hc : h.cnt > 1
    · simp [hc, cbad]
    · by_cases hd : strip h.val = acceptDigest key
      · simp [hc, hd]
      · simp [hc, hd, cbad]

/-- the extension loop accepts exactly: nothing, or one approved, well-formed permessage-compress extension -/
theorem cextLoop_isSome (cfg : CliCfg) (es : List Ext) :
    (cextLoop cfg es false).isSome =
      (match es with
       | [] => true
       | [e] => isPmce e.name && pmceParamsOk false e && (cfg.accept != .denyAll)
       | _ => false) := by
  have htrue : ∀ es : List Ext, es ≠ [] → cextLoop cfg es true = none := by
    intro es hne
    cases es with
    | nil => exact absurd rfl hne
    | cons e es => unfold cextLoop; split <;> simp
  cases es with
  | nil => simp [cextLoop]
  | cons e es =>
    cases es with
    | nil =>
      unfold cextLoop
      by_cases h1 : isPmce e.name = true
      · by_cases h2 : pmceParamsOk false e = true
        · by_cases h3 : cfg.accept = .denyAll
          · simp [h1, h2, h3]
          · simp [h1, h2, h3, cextLoop]
        · simp [h1, h2]
      · simp [h1]
    | cons e2 es =>
      unfold cextLoop
      by_cases h1 : isPmce e.name = true
      · by_cases h2 : pmceParamsOk false e = true
        · by_cases h3 : cfg.accept = .denyAll
          · simp [h1, h2, h3]
          · simp [h1, h2, h3, htrue (e2 :: es) (by simp)]
        · simp [h1, h2]
      · simp [h1]

theorem responseExtensionsOk_eq (cfg : CliCfg) (v : Bytes) :
    responseExtensionsOk cfg v = (cextLoop cfg (parseExtensions v) false).isSome := by
  rw [cextLoop_isSome]; rfl

theorem cstageExtensions_ok (cfg : CliCfg) (hs : List Hdr) (l : List Bytes) :
    cstageExtensions cfg hs = .ok l ↔
      count hs b!"sec-websocket-extensions" ≤ 1 ∧
      cextLoop cfg (parseExtensions (value hs b!"sec-websocket-extensions")) false = some l := by
  unfold cstageExtensions value count
  cases e : hget hs b!"sec-websocket-extensions" with
  | none =>
    simp
    have : parseExtensions [] = [] := by decide
    rw [this]
    simp [cextLoop]
  | some h =>
    simp only
    by_cases hc : h.cnt > 1
    · simp [hc, cbad]; omega
    · simp only [hc, if_false]
      cases hx : cextLoop cfg (parseExtensions h.val) false with
      | none => simp [cbad]
      | some l' => simp; omega

theorem cstageProtocol_ok (cfg : CliCfg) (hs : List Hdr) (p : Option Bytes) :
    cstageProtocol cfg hs = .ok p ↔
      count hs b!"sec-websocket-protocol" ≤ 1 ∧
      ((strip (value hs b!"sec-websocket-protocol") = [] ∧ p = none) ∨
       (strip (value hs b!"sec-websocket-protocol") ≠ [] ∧
        strip (value hs b!"sec-websocket-protocol") ∈ cfg.protocols ∧
        p = some (strip (value hs b!"sec-websocket-protocol")))) := by
  unfold cstageProtocol value count
  cases e : hget hs b!"sec-websocket-protocol" with
  | none =>
    have : strip [] = [] := by decide
    simp [this]
    constructor <;> intro x <;> exact x.symm
  | some h =>
    simp only
    by_cases hc : h.cnt > 1
    · simp [hc, cbad]; omega
    · simp only [hc, if_false]
      by_cases h0 : strip h.val = []
      · simp [h0]
        constructor
        · intro x; exact ⟨by omega, x.symm⟩
        · intro x; exact x.2.symm
      · by_cases hm : strip h.val ∈ cfg.protocols
        · simp [h0, hm]
          constructor
          · intro x; exact ⟨by omega, x.symm⟩
          · intro x; exact x.2.symm
        · simp [h0, hm, cbad]

theorem cvalidate_ok (cfg : CliCfg) (key line : Bytes) (hs : List Hdr) (r : Option Bytes × List Bytes) :
    cvalidate cfg key line hs = .ok r ↔
      cstageStatus line = .ok () ∧ cstageUpgrade hs = .ok () ∧ cstageConnection hs = .ok () ∧
      cstageAccept key hs = .ok () ∧ cstageExtensions cfg hs = .ok r.2 ∧ cstageProtocol cfg hs = .ok r.1 := by
  unfold cvalidate
  simp only [bind_ok, pure, Except.pure, Except.ok.injEq]
  constructor
  · rintro ⟨⟨⟩, h1, ⟨⟩, h2, ⟨⟩, h3, ⟨⟩, h4, exts, h5, proto, h6, rfl⟩
    exact ⟨h1, h2, h3, h4, h5, h6⟩
  · rintro ⟨h1, h2, h3, h4, h5, h6⟩
    exact ⟨(), h1, (), h2, (), h3, (), h4, r.2, h5, r.1, h6, rfl⟩

end Abverif.Handshake
