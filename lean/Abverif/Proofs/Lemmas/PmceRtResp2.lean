import Abverif.Model.Pmce
/- C12 round trip, responses, slice server_no_context_takeover=true, client_no_context_takeover=false (kernel-checked) -/
namespace Abverif.Pmce
theorem parse_render_response_slice2 :
    ∀ sw ∈ winVals, ∀ cw ∈ winVals,
      (OfferAccept.reparse ⟨⟨true, true, true, sw⟩, false, cw, none, none, none⟩) = some ⟨cw, false, sw, true⟩ := by
  decide +kernel
end Abverif.Pmce
