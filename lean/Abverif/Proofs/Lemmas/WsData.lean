import Abverif.Proofs.Lemmas.WsSeg2
/-
The receive path never touches the receive buffer field `S.data` (the buffer is threaded explicitly through
`processData`); needed to lift the loop lemma to `dataReceived`.
-/
namespace Abverif.Ws

theorem timer_data (s : S) (d : Nat) : (s.timer d).1.data = s.data := rfl
theorem armCloseHs_data (s : S) : (armCloseHs s).data = s.data := rfl
theorem armServerDrop_data (s : S) : (armServerDrop s).data = s.data := rfl
theorem armPingNext_data (s : S) : (armPingNext s).data = s.data := rfl
theorem emit_data (s : S) (o : Out) : (s.emit o).data = s.data := rfl

theorem dropConnection_data (s : S) (a : Bool) : (dropConnection s a).data = s.data := by
  unfold dropConnection flushQueue; split
  · cases a <;> rfl
  · rfl

theorem sendCloseFrame_data (s : S) (c : Option Nat) (r : Option Bytes) (i : Bool) :
    (sendCloseFrame s c r i).data = s.data := by
  unfold sendCloseFrame
  split
  · rfl
  · rfl
  · rfl
  · dsimp only
    split
    · rw [armCloseHs_data]; exact (sendFrame_SendEq s 8 _ true 0 false 0).data
    · exact (sendFrame_SendEq s 8 _ true 0 false 0).data

theorem failConnection_data (s : S) (code : Nat) : (failConnection s code).data = s.data := by
  unfold failConnection
  split
  · dsimp only
    split
    · rw [dropConnection_data]
    · split
      · rw [sendCloseFrame_data]
      · rw [dropConnection_data]
  · rfl

theorem violation_data (s : S) (code : Nat) : (violation s code).1.data = s.data := failConnection_data s code

theorem applyViolations_data (s : S) (vs : List HV) : (applyViolations s vs).1.data = s.data := by
  induction vs generalizing s with
  | nil => rfl
  | cons v vs ih =>
    unfold applyViolations
    have hv := violation_data s 1002
    generalize violation s 1002 = r at hv
    obtain ⟨s', stop⟩ := r
    dsimp only
    split
    · exact hv
    · rw [ih]; exact hv

theorem extLenStep_data (s : S) (a b : Nat) : (extLenStep s a b).1.data = s.data := by
  unfold extLenStep
  split
  · split
    · exact violation_data _ _
    · rfl
  · split
    · dsimp only
      have h0 : (if b > 0x7FFFFFFFFFFFFFFF then violation s 1002 else (s, false)).1.data = s.data := by
        split
        · exact violation_data _ _
        · rfl
      generalize (if b > 0x7FFFFFFFFFFFFFFF then violation s 1002 else (s, false)) = r at h0
      split
      · exact h0
      · split
        · rw [violation_data]; exact h0
        · exact h0
    · rfl

theorem onMessageFrameBegin_data (s : S) (n : Nat) : (onMessageFrameBegin s n).data = s.data := by
  unfold onMessageFrameBegin
  dsimp only
  split
  · split
    · rw [failConnection_data]
    · split
      · rw [failConnection_data]
      · rfl
  · rfl

theorem onFrameBegin_data (s : S) (h : Hdr) : (onFrameBegin s h).data = s.data := by
  unfold onFrameBegin
  split
  · rfl
  · dsimp only
    split
    · split <;> rw [onMessageFrameBegin_data]
    · rw [onMessageFrameBegin_data]

theorem processHeader_data (s : S) (o0 o1 : UInt8) (buf : Bytes) : (processHeader s o0 o1 buf).1.data = s.data := by
  unfold processHeader
  dsimp only
  have h0 := applyViolations_data s (headerViolations s.cfg s.insideMessage (o0.toNat / 128 = 1) (o0.toNat / 16 % 8)
    (o0.toNat % 16) (o1.toNat / 128 = 1) (o1.toNat % 128))
  generalize applyViolations s (headerViolations s.cfg s.insideMessage (o0.toNat / 128 = 1) (o0.toNat / 16 % 8)
    (o0.toNat % 16) (o1.toNat / 128 = 1) (o1.toNat % 128)) = r0 at h0
  split
  · exact h0
  · split
    · have h1 := extLenStep_data r0.1 (o1.toNat % 128)
        (if o1.toNat % 128 < 126 then o1.toNat % 128 else
          beNat ((buf.drop 2).take (if o1.toNat % 128 = 126 then 2 else if o1.toNat % 128 = 127 then 8 else 0)))
      generalize extLenStep r0.1 (o1.toNat % 128)
        (if o1.toNat % 128 < 126 then o1.toNat % 128 else
          beNat ((buf.drop 2).take (if o1.toNat % 128 = 126 then 2 else if o1.toNat % 128 = 127 then 8 else 0))) = r1 at h1
      split
      · rw [h1]; exact h0
      · rw [onFrameBegin_data]; simp only; rw [h1]; exact h0
    · exact h0

theorem utf8Step_data (s : S) (p : Bytes) : (utf8Step s p).1.data = s.data := by
  unfold utf8Step
  split
  · split
    · exact violation_data _ _
    · rfl
  · rfl

theorem onFrameData_data (s : S) (h : Hdr) (p : Bytes) : (onFrameData s h p).1.data = s.data := by
  unfold onFrameData
  split
  · rfl
  · dsimp only
    have h0 := utf8Step_data s p
    generalize utf8Step s p = r at h0
    split
    · exact h0
    · unfold onMessageFrameData; split <;> exact h0

theorem closeCodeStep_data (s : S) (c : Option Nat) : (closeCodeStep s c).1.data = s.data := by
  unfold closeCodeStep
  split
  · split
    · have hv := violation_data s 1002
      generalize violation s 1002 = r at hv
      obtain ⟨s', stop⟩ := r
      dsimp only
      split
      · exact hv
      · exact hv
    · rfl
  · rfl

theorem closeReasonStep_data (s : S) (r : Option Bytes) : (closeReasonStep s r).1.data = s.data := by
  unfold closeReasonStep
  split
  · split
    · exact violation_data _ _
    · rfl
  · rfl

theorem replyClose_data (s : S) : (replyClose s).data = s.data := by
  unfold replyClose; split <;> rw [sendCloseFrame_data]

theorem afterCloseHandshake_data (s : S) (a : Bool) : (afterCloseHandshake s a).1.data = s.data := by
  unfold afterCloseHandshake
  split
  · exact dropConnection_data _ _
  · split
    · rfl
    · rfl

theorem closeStateStep_data (s : S) : (closeStateStep s).1.data = s.data := by
  unfold closeStateStep
  split
  · rw [afterCloseHandshake_data]
  · rw [afterCloseHandshake_data, replyClose_data]
  · rfl
  · rfl

theorem onCloseFrame_data (s : S) (c : Option Nat) (r : Option Bytes) : (onCloseFrame s c r).1.data = s.data := by
  unfold onCloseFrame
  dsimp only
  have h1 := closeCodeStep_data { s with remoteCloseCode := none, remoteCloseReason := none } c
  generalize closeCodeStep { s with remoteCloseCode := none, remoteCloseReason := none } c = r1 at h1
  split
  · exact h1
  · have h2 := closeReasonStep_data r1.1 r
    generalize closeReasonStep r1.1 r = r2 at h2
    split
    · rw [h2]; exact h1
    · rw [closeStateStep_data, h2]; exact h1

theorem onPingFrame_data (s : S) (p : Bytes) : (onPingFrame s p).data = s.data := by
  unfold onPingFrame
  dsimp only
  split
  · exact (sendPong_SendEq _ _).data
  · rfl

theorem onPongFrame_data (s : S) (p : Bytes) : (onPongFrame s p).data = s.data := by
  unfold onPongFrame
  split
  · split
    · dsimp only; split <;> rfl
    · rfl
  · rfl

theorem processControlFrame_data (s : S) (h : Hdr) : (processControlFrame s h).data = s.data := by
  unfold processControlFrame
  dsimp only
  split
  · rw [onCloseFrame_data]
  · split
    · rw [onPingFrame_data]
    · split
      · rw [emit_data, onPongFrame_data]
      · rfl

theorem cancelAutoPingTimeout_data (s : S) : (cancelAutoPingTimeout s).data = s.data := by
  unfold cancelAutoPingTimeout; dsimp only; split <;> rfl

theorem endDataFrame_data (s : S) : (endDataFrame s).data = s.data := by
  unfold endDataFrame
  dsimp only
  split <;> split <;> first | rfl | (rw [cancelAutoPingTimeout_data])

theorem endMessageStep_data (s : S) : (endMessageStep s).1.data = s.data := by
  unfold endMessageStep
  dsimp only
  have h0 : (if (s.utf8On && !s.msgCompressed && !s.utf8Ends) = true then ((violation s 1007).1, !(violation s 1007).2)
      else (s, true)).1.data = s.data := by
    split
    · exact violation_data _ _
    · rfl
  generalize (if (s.utf8On && !s.msgCompressed && !s.utf8Ends) = true then ((violation s 1007).1, !(violation s 1007).2)
      else (s, true)) = r at h0
  split
  · exact h0
  · unfold resetMessage deliverMessage
    split <;> exact h0

theorem onFrameEnd_data (s : S) (h : Hdr) : (onFrameEnd s h).1.data = s.data := by
  unfold onFrameEnd
  split
  · exact processControlFrame_data s h
  · dsimp only
    split
    · rw [endMessageStep_data, endDataFrame_data]
    · exact endDataFrame_data s

theorem processPayload_data (s : S) (h : Hdr) (buf : Bytes) : (processPayload s h buf).1.data = s.data := by
  rw [processPayload_finish]
  have h1 : (consume s h (buf.take (h.length - s.ptr))).1.data = s.data := by
    unfold consume; rw [onFrameData_data]
  generalize consume s h (buf.take (h.length - s.ptr)) = C at h1
  unfold finishPayload
  split
  · exact h1
  · dsimp only
    have h2 : (if C.1.ptr = h.length then onFrameEnd C.1 h else (C.1, true)).1.data = s.data := by
      split
      · rw [onFrameEnd_data]; exact h1
      · exact h1
    generalize (if C.1.ptr = h.length then onFrameEnd C.1 h else (C.1, true)) = r2 at h2
    split <;> exact h2

theorem processData_data (s : S) (buf : Bytes) : (processData s buf).1.data = s.data := by
  unfold processData
  split
  · split
    · exact processHeader_data _ _ _ _
    · rfl
  · exact processPayload_data _ _ _

theorem drain_data (F : Nat) (s : S) (buf : Bytes) : (drain F s buf).1.data = s.data := by
  induction F generalizing s buf with
  | zero => rfl
  | succ n ih =>
    unfold drain
    split
    · rfl
    · dsimp only
      split
      · rw [ih]; exact processData_data s buf
      · exact processData_data s buf

end Abverif.Ws
