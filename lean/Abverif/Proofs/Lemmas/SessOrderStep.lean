import Abverif.Proofs.Lemmas.SessOrder
/-
`callbacks_ordered_once` on Twisted: the invariant that ties the session model to the ordering part of the trace Spec
(`oStep`), and its preservation by every event of a history in which the transport is used as the transports use it
(`onOpen` / `onClose` alternate, messages only in between) and user code does not call `join()` itself.
-/
namespace Abverif.Session
open Abverif.SessCodes Abverif.SessTrace

/-! ### the ordering scan over calm outputs -/

theorem oScan_calm (o : OS) (x : SOut) (hr : ranked x = false) (hh : isHello x = false ∨ o.ended = false) :
    oScan o x = (o, []) := by
  cases x with
  | hook h a =>
    have : hookRank h = 0 := by simpa [ranked] using hr
    simp [oScan, this]
  | fire e => simp [ranked] at hr
  | send m =>
    simp only [oScan]
    split
    · next hm =>
      have he : o.ended = false := by
        rcases hh with hh | hh
        · simp [isHello, hm] at hh
        · exact hh
      cases o; simp_all
    · rfl
  | _ => rfl

theorem oScans_calm (o : OS) (xs : List SOut) (h : ∀ x ∈ xs, ranked x = false ∧ (isHello x = false ∨ o.ended = false)) :
    oScans o xs = (o, []) := by
  induction xs with
  | nil => rfl
  | cons x xs ih =>
    have hx := h x List.mem_cons_self
    simp only [oScans, oScan_calm o x hx.1 hx.2]
    rw [ih (fun y hy => h y (List.mem_cons_of_mem _ hy))]
    rfl

theorem Calm.oScans {b : Bool} {s s' : Sess} {outs : List SOut} (c : Calm b s outs s') (o : OS)
    (h : b = true ∨ o.ended = false) : oScans o outs = (o, []) := by
  refine oScans_calm o outs (fun x hx => ⟨(c.outs x hx).1, ?_⟩)
  rcases h with h | h
  · exact Or.inl ((c.outs x hx).2 h)
  · exact Or.inr h

theorem oScans_append (o : OS) (xs ys : List SOut) :
    oScans o (xs ++ ys) = ((oScans (oScans o xs).1 ys).1, (oScans o xs).2 ++ (oScans (oScans o xs).1 ys).2) := by
  induction xs generalizing o with
  | nil => simp [oScans]
  | cons x xs ih => simp [oScans, ih, List.append_assoc]

theorem oScans_filter_visible (o : OS) (xs : List SOut) : oScans o (xs.filter visible) = oScans o xs := by
  induction xs generalizing o with
  | nil => rfl
  | cons x xs ih =>
    by_cases hv : visible x = true
    · simp [List.filter_cons, hv, oScans, ih]
    · have hx : oScan o x = (o, []) := by
        cases x <;> simp [visible] at hv <;> rfl
      simp [List.filter_cons, hv, oScans, ih, hx]

theorem oScan_hook (o : OS) (h : Hook) (a : Nat) (hlt : o.rank < hookRank h) (hne : h ≠ .onLeave) :
    oScan o (.hook h a) = ({ o with rank := hookRank h }, []) := by
  have h0 : hookRank h ≠ 0 := by omega
  have h1 : ¬ hookRank h ≤ o.rank := by omega
  have h2 : max (hookRank h) o.rank = hookRank h := by omega
  simp [oScan, h0, h1, h2, hne]

theorem oScan_onLeave (o : OS) (a n : Nat) (hlt : o.rank < 3) (ho : o.owedLeave = n + 1) :
    oScan o (.hook .onLeave a) = ({ o with rank := 3, ended := true, owedLeave := n }, []) := by
  have h1 : ¬ 3 ≤ o.rank := by omega
  have h2 : max 3 o.rank = 3 := by omega
  simp [oScan, hookRank, h1, h2, ho]

theorem oScan_fire (o : OS) (e : ObsEv) (hlt : o.orank < obsRank e) :
    oScan o (.fire e) = ({ o with orank := obsRank e }, []) := by
  have h1 : ¬ obsRank e ≤ o.orank := by omega
  have h2 : max (obsRank e) o.orank = obsRank e := by omega
  simp [oScan, h1, h2]

/-! ### the invariant -/

inductive Ph | down | pre | joined | over
deriving DecidableEq

def phOk (p : Ph) (s : Sess) (o : OS) : Prop :=
  match p with
  | .down => s.transport = false ∧ s.sessionId = none
  | .pre => s.transport = true ∧ o.up = true ∧ s.sessionId = none ∧ s.ended = false ∧ o.welcomed = false ∧
      o.ended = false ∧ o.rank = 1 ∧ o.orank = 1
  | .joined => s.transport = true ∧ o.up = true ∧ s.sessionId.isSome = true ∧ s.ended = false ∧ o.welcomed = true ∧
      o.ended = false ∧ o.rank = 2 ∧ o.orank = 3
  | .over => s.transport = true ∧ o.up = true ∧ s.sessionId = none ∧ s.ended = true ∧ o.welcomed = false ∧
      o.ended = true ∧ o.rank = 3 ∧ o.orank ≤ 4

/-- Twisted scheduling, nothing but plain callbacks queued (nothing at all, in fact), no `onLeave` owed between events,
and one of four phases: no transport; connected, not joined, join attempt not over; joined; session / join attempt over -/
structure OInv (s : Sess) (o : OS) : Prop where
  mode : s.mode = .sync
  q : ∀ x ∈ s.cbq, lifeOut x = false
  owed : o.owedLeave = 0
  ph : ∃ p, phOk p s o

theorem OS.owed_eta (o : OS) (h : o.owedLeave = 0) : ({ o with owedLeave := 0 } : OS) = o := by
  cases o; simp_all

/-- a calm step keeps the invariant -/
theorem OInv.calm {b : Bool} {s s' : Sess} {o : OS} {outs : List SOut} (hi : OInv s o) (c : Calm b s outs s')
    (hb : b = true ∨ s.ended = false ∨ s.transport = false) : OInv s' o := by
  refine ⟨c.mode.trans hi.mode, fun x hx => ?_, hi.owed, ?_⟩
  · rcases c.queue x hx with h | h
    · exact hi.q x h
    · exact h
  · obtain ⟨p, hp⟩ := hi.ph
    have he : s.transport = true → s'.ended = s.ended := by
      intro ht
      refine c.ended ?_
      rcases hb with hb | hb | hb
      · exact Or.inl hb
      · exact Or.inr hb
      · rw [ht] at hb; cases hb
    refine ⟨p, ?_⟩
    cases p with
    | down => exact ⟨c.transport.trans hp.1, c.sid.trans hp.2⟩
    | pre =>
      obtain ⟨h1, h2, h3, h4, h5⟩ := hp
      exact ⟨c.transport.trans h1, h2, c.sid.trans h3, (he h1).trans h4, h5⟩
    | joined =>
      obtain ⟨h1, h2, h3, h4, h5⟩ := hp
      exact ⟨c.transport.trans h1, h2, by rw [c.sid]; exact h3, (he h1).trans h4, h5⟩
    | over =>
      obtain ⟨h1, h2, h3, h4, h5⟩ := hp
      exact ⟨c.transport.trans h1, h2, c.sid.trans h3, (he h1).trans h4, h5⟩

/-- `b = true`, or the record is clear on both sides, or there is no transport (then `ended` is not read) -/
theorem OInv.scanOk {s : Sess} {o : OS} (hi : OInv s o) (h : s.ended = false) (ht : s.transport = true) : o.ended = false := by
  obtain ⟨p, hp⟩ := hi.ph
  cases p with
  | down => rw [hp.1] at ht; cases ht
  | pre => exact hp.2.2.2.2.2.1
  | joined => exact hp.2.2.2.2.2.1
  | over => rw [hp.2.2.2.1] at h; cases h

/-! ### events that touch neither hooks nor observers -/

def SEv.plain : SEv → Bool
  | .open_ _ | .closed _ | .msg _ _ => false
  | _ => true

theorem oPre_plain (o : OS) (e : SEv) (vis : List SOut) (he : e.plain = true) : oPre o e vis = (o, []) := by
  cases e <;> simp [SEv.plain] at he <;> rfl

theorem oStep_quiet (o : OS) (e : SEv) (outs : List SOut) (hpre : oPre o e (outs.filter visible) = (o, []))
    (hnc : ∀ a, e ≠ .closed a) (hs : oScans o outs = (o, [])) (ho : o.owedLeave = 0) : oStep o e outs = (o, []) := by
  simp only [oStep, hpre, oScans_filter_visible, hs, ho]
  cases e with
  | closed a => exact absurd rfl (hnc a)
  | _ => simp [OS.owed_eta o ho]

/-- a (strictly) calm step of a plain event: the invariant stays, no violation -/
theorem plain_step {s s' : Sess} {o : OS} {outs : List SOut} (hi : OInv s o) (e : SEv) (he : e.plain = true)
    (c : Calm true s outs s') : OInv s' (oStep o e outs).1 ∧ (oStep o e outs).2 = [] := by
  have hs : oScans o outs = (o, []) := c.oScans o (Or.inl rfl)
  have hnc : ∀ a, e ≠ .closed a := by intro a h; subst h; simp [SEv.plain] at he
  rw [oStep_quiet o e outs (oPre_plain o e _ he) hnc hs hi.owed]
  exact ⟨hi.calm c (Or.inl rfl), rfl⟩

/-! ### the plain events -/

theorem tickList_plain (s : Sess) (items : List SOut) (h : ∀ x ∈ items, lifeOut x = false) : tickList s items = (s, items) := by
  induction items with
  | nil => rfl
  | cons x rest ih =>
    have hx := h x List.mem_cons_self
    have ih' := ih (fun y hy => h y (List.mem_cons_of_mem _ hy))
    cases x <;> simp [lifeOut] at hx <;> simp [tickList, ih']

theorem tick_calm {s : Sess} {o : OS} (hi : OInv s o) : Calm true s (tick s).2 (tick s).1 ∧ (tick s).1.cbq = [] := by
  unfold tick
  rw [tickList_plain _ _ hi.q]
  exact ⟨⟨rfl, rfl, rfl, fun _ => rfl, fun x hx => ⟨(Calm.lifeOut_false (hi.q x hx)).1, fun _ => (Calm.lifeOut_false (hi.q x hx)).2⟩,
    by simp⟩, rfl⟩

theorem drain_nil (n : Nat) (s : Sess) (h : s.cbq = []) : drain n s = (s, []) := by
  cases n with
  | zero => rfl
  | succ n => simp [drain, h]

theorem pump_calm {s : Sess} {o : OS} (hi : OInv s o) (n : Nat) : Calm true s (drain (n + 1) s).2 (drain (n + 1) s).1 := by
  unfold drain
  split
  · exact Calm.refl true s
  · obtain ⟨c, hq⟩ := tick_calm hi
    simp only [drain_nil n _ hq, List.append_nil]
    exact c

def SEv.noJoin : SEv → Bool
  | .api a => a != .join
  | .msg _ beh => beh.all HAct.noJoin
  | .open_ acts => acts.all HAct.noJoin
  | .closed acts => acts.all HAct.noJoin
  | _ => true

theorem plain_calm {s : Sess} {o : OS} (hi : OInv s o) (e : SEv) (he : e.plain = true) (hj : e.noJoin = true) :
    Calm true s (step s e).2 (step s e).1 := by
  cases e with
  | api a =>
    refine apiStep_strict s a ?_
    rintro rfl
    simp [SEv.noJoin] at hj
  | pump => exact pump_calm hi 7
  | tick => exact (tick_calm hi).1
  | fault l => exact Calm.same rfl rfl rfl rfl rfl (fun x hx => by simp [step] at hx)
  | resolve r v => exact settleInv_calm true hi.mode r _
  | fail r x => exact settleInv_calm true hi.mode r _
  | lateProgress r v => exact lateProgress_calm true s r v
  | open_ a => simp [SEv.plain] at he
  | closed a => simp [SEv.plain] at he
  | msg m b => simp [SEv.plain] at he

theorem headD_noJoin (l : List HAct) (h : l.all HAct.noJoin = true) :
    (l.headD {}).noJoin = true ∧ l.tail.all HAct.noJoin = true := by
  cases l with
  | nil => exact ⟨rfl, rfl⟩
  | cons a r => simpa using h

/-! ### messages the current phase does not allow -/

theorem oStep_rejected (o : OS) (m : InMsg) (beh : List HAct) (hill : isIllegal o.welcomed o.ended m = true)
    (ho : o.owedLeave = 0) : oStep o (.msg m beh) [.raise_ .protocolError] = (o, []) := by
  have hv : [SOut.raise_ Exc.protocolError].filter visible = [SOut.raise_ Exc.protocolError] := rfl
  simp [oStep, oPre, hill, hv, oScans, oScan, ho, OS.owed_eta o ho]

/-- the messages that oblige something by themselves -/
def InMsg.obliges : InMsg → Bool
  | .welcome _ | .abort | .challenge | .goodbye => true
  | _ => false

/-- a calm step of a message that obliges nothing (anything legal but WELCOME / ABORT / CHALLENGE / GOODBYE) -/
theorem calm_msg_step {b : Bool} {s s' : Sess} {o : OS} {outs : List SOut} (hi : OInv s o) (m : InMsg) (beh : List HAct)
    (hleg : isIllegal o.welcomed o.ended m = false)
    (hm : m.obliges = false)
    (c : Calm b s outs s') (hb : b = true ∨ (s.ended = false ∧ s.transport = true)) :
    OInv s' (oStep o (.msg m beh) outs).1 ∧ (oStep o (.msg m beh) outs).2 = [] := by
  have hs : oScans o outs = (o, []) := by
    refine c.oScans o ?_
    rcases hb with hb | hb
    · exact Or.inl hb
    · exact Or.inr (hi.scanOk hb.1 hb.2)
  have hpre : oPre o (.msg m beh) (outs.filter visible) = (o, []) := by
    cases m <;> simp [InMsg.obliges] at hm <;> simp [oPre, hleg]
  rw [oStep_quiet o _ outs hpre (by intro a h; cases h) hs hi.owed]
  refine ⟨hi.calm c ?_, rfl⟩
  rcases hb with hb | hb
  · exact Or.inl hb
  · exact Or.inr (Or.inl hb.1)

/-! ### `onOpen` -/

theorem oStep_owed (o : OS) (e : SEv) (outs : List SOut) : (oStep o e outs).1.owedLeave = 0 := by
  cases e <;> rfl

theorem down_of_transport {s : Sess} {o : OS} (hi : OInv s o) (ht : s.transport = false) : s.sessionId = none := by
  obtain ⟨p, hp⟩ := hi.ph
  cases p with
  | down => exact hp.2
  | pre => rw [hp.1] at ht; cases ht
  | joined => rw [hp.1] at ht; cases ht
  | over => rw [hp.1] at ht; cases ht

theorem q_of_calm {b : Bool} {s s' : Sess} {outs : List SOut} (c : Calm b s outs s') (hq : ∀ x ∈ s.cbq, lifeOut x = false) :
    ∀ x ∈ s'.cbq, lifeOut x = false := by
  intro x hx
  rcases c.queue x hx with h | h
  · exact hq x h
  · exact h

theorem open_step {s : Sess} {o : OS} (hi : OInv s o) (ht : s.transport = false) (acts : List HAct)
    (hj : acts.all HAct.noJoin = true) :
    OInv (step s (.open_ acts)).1 (oStep o (.open_ acts) (step s (.open_ acts)).2).1 ∧
      (oStep o (.open_ acts) (step s (.open_ acts)).2).2 = [] := by
  have hsid := down_of_transport hi ht
  have hm0 : ({ s with transport := true, ended := false } : Sess).mode = .sync := hi.mode
  obtain ⟨mid, h1, h2⟩ := runHook_shape false { s with transport := true, ended := false } .onConnect 0 (acts.headD {}) apiJoin
    (apiJoin_calm _) (headD_noJoin acts hj).1
  have hstep : step s (.open_ acts) =
      ((runHook { s with transport := true, ended := false } .onConnect 0 (acts.headD {}) apiJoin).1,
       .fire .connect :: .hook .onConnect 0 :: mid) := by
    simp only [step, onOpen]
    rw [defer_sync hm0]
    simp only [runCont, h1]
  rw [hstep]
  have hmid : ∀ o : OS, o.ended = false → oScans o mid = (o, []) := fun o h => h2.oScans o (Or.inr h)
  have ho : oStep o (.open_ acts) (.fire .connect :: .hook .onConnect 0 :: mid) =
      ({ up := true, welcomed := false, ended := false, rank := 1, orank := 1, owedLeave := 0 }, []) := by
    simp [oStep, oPre, oScans_filter_visible, oScans, oScan, hookRank, obsRank, hmid]
  rw [ho]
  refine ⟨⟨h2.mode.trans hm0, q_of_calm h2 hi.q, rfl, .pre, ?_⟩, rfl⟩
  exact ⟨h2.transport, rfl, h2.sid.trans hsid, h2.ended (Or.inr rfl), rfl, rfl, rfl, rfl⟩

/-! ### `onClose` -/

theorem closed_step {s : Sess} {o : OS} (hi : OInv s o) (ht : s.transport = true) (acts : List HAct)
    (hj : acts.all HAct.noJoin = true) :
    OInv (step s (.closed acts)).1 (oStep o (.closed acts) (step s (.closed acts)).2).1 ∧
      (oStep o (.closed acts) (step s (.closed acts)).2).2 = [] := by
  have hja := (headD_noJoin acts hj).1
  have hjb := (headD_noJoin acts.tail (headD_noJoin acts hj).2).1
  have hm0 : ({ s with transport := false } : Sess).mode = .sync := hi.mode
  have howed := hi.owed
  obtain ⟨p, hp⟩ := hi.ph
  -- the state afterwards: no transport, no session
  have fin : ∀ (s' : Sess) (o' : OS), s'.mode = .sync → (∀ x ∈ s'.cbq, lifeOut x = false) → o'.owedLeave = 0 →
      s'.transport = false → s'.sessionId = none → OInv s' o' :=
    fun s' o' a b c d e => ⟨a, b, c, .down, d, e⟩
  cases p with
  | down => rw [hp.1] at ht; cases ht
  | joined =>
    obtain ⟨_, hup, hsome, _, hwel, hen, hrank, horank⟩ := hp
    obtain ⟨sid, hsid⟩ := Option.isSome_iff_exists.mp hsome
    obtain ⟨mid1, last1, e1, hl1, c1⟩ := leaveHook_shape true (s := { s with transport := false }) hm0 1 (acts.headD {}) hja
    have hm1 : ({ (leaveHook { s with transport := false } 1 (acts.headD {})).1 with sessionId := none } : Sess).mode = .sync :=
      c1.mode.trans hm0
    obtain ⟨mid2, last2, e2, hl2, c2⟩ := disconnectHook_shape true hm1 (acts.tail.headD {}) hjb
    have hstep : step s (.closed acts) =
        ((disconnectHook { (leaveHook { s with transport := false } 1 (acts.headD {})).1 with sessionId := none } (acts.tail.headD {})).1,
         (.hook .onLeave 1 :: (mid1 ++ [last1])) ++ (.hook .onDisconnect 0 :: (mid2 ++ [last2]))) := by
      simp only [step, onClose]
      split
      · rw [e1, e2]
      · next hx => simp [hsid] at hx
    rw [hstep]
    have hmid1 : ∀ o : OS, oScans o mid1 = (o, []) := fun o => c1.oScans o (Or.inl rfl)
    have hmid2 : ∀ o : OS, oScans o mid2 = (o, []) := fun o => c2.oScans o (Or.inl rfl)
    refine ⟨fin _ _ (c2.mode.trans hm1) (q_of_calm c2 (fun x hx => q_of_calm c1 hi.q x hx)) (oStep_owed _ _ _)
      (c2.transport.trans c1.transport) c2.sid, ?_⟩
    obtain ⟨up, wel, en, rank, orank, owed⟩ := o
    simp only at hup hwel hen hrank horank howed
    subst hup hwel hen hrank horank howed
    rcases hl1 with rfl | rfl <;> rcases hl2 with rfl | rfl <;>
      simp [oStep, oPre, oScans_filter_visible, oScans, oScans_append, oScan, hookRank, obsRank, hmid1, hmid2]
  | pre =>
    obtain ⟨_, hup, hsid, _, hwel, hen, hrank, horank⟩ := hp
    obtain ⟨mid2, last2, e2, hl2, c2⟩ := disconnectHook_shape true hm0 (acts.tail.headD {}) hjb
    have hstep : step s (.closed acts) =
        ((disconnectHook { s with transport := false } (acts.tail.headD {})).1, .hook .onDisconnect 0 :: (mid2 ++ [last2])) := by
      simp only [step, onClose]
      split
      · next x hx => simp [hsid] at hx
      · exact Prod.ext rfl e2
    rw [hstep]
    have hmid2 : ∀ o : OS, oScans o mid2 = (o, []) := fun o => c2.oScans o (Or.inl rfl)
    refine ⟨fin _ _ (c2.mode.trans hm0) (q_of_calm c2 hi.q) (oStep_owed _ _ _) c2.transport (c2.sid.trans hsid), ?_⟩
    obtain ⟨up, wel, en, rank, orank, owed⟩ := o
    simp only at hup hwel hen hrank horank howed
    subst hup hwel hen hrank horank howed
    rcases hl2 with rfl | rfl <;>
      simp [oStep, oPre, oScans_filter_visible, oScans, oScans_append, oScan, hookRank, obsRank, hmid2]
  | over =>
    obtain ⟨_, hup, hsid, _, hwel, hen, hrank, horank⟩ := hp
    obtain ⟨mid2, last2, e2, hl2, c2⟩ := disconnectHook_shape true hm0 (acts.tail.headD {}) hjb
    have hstep : step s (.closed acts) =
        ((disconnectHook { s with transport := false } (acts.tail.headD {})).1, .hook .onDisconnect 0 :: (mid2 ++ [last2])) := by
      simp only [step, onClose]
      split
      · next x hx => simp [hsid] at hx
      · exact Prod.ext rfl e2
    rw [hstep]
    have hmid2 : ∀ o : OS, oScans o mid2 = (o, []) := fun o => c2.oScans o (Or.inl rfl)
    refine ⟨fin _ _ (c2.mode.trans hm0) (q_of_calm c2 hi.q) (oStep_owed _ _ _) c2.transport (c2.sid.trans hsid), ?_⟩
    obtain ⟨up, wel, en, rank, orank, owed⟩ := o
    simp only at hup hwel hen hrank horank howed
    subst hup hwel hen hrank howed
    have h5 : ¬ 5 ≤ orank := by omega
    rcases hl2 with rfl | rfl <;>
      simp [oStep, oPre, oScans_filter_visible, oScans, oScans_append, oScan, hookRank, obsRank, hmid2, h5]

/-! ### messages -/

theorem rejected_step {s : Sess} {o : OS} (hi : OInv s o) (m : InMsg) (beh : List HAct)
    (hstep : step s (.msg m beh) = (s, [.raise_ .protocolError])) (hill : isIllegal o.welcomed o.ended m = true) :
    OInv (step s (.msg m beh)).1 (oStep o (.msg m beh) (step s (.msg m beh)).2).1 ∧
      (oStep o (.msg m beh) (step s (.msg m beh)).2).2 = [] := by
  rw [hstep, oStep_rejected o m beh hill hi.owed]
  exact ⟨hi, rfl⟩

/-- ABORT while the join attempt is open -/
theorem pre_abort_step {s : Sess} {o : OS} (hi : OInv s o) (hp : phOk .pre s o) (beh : List HAct)
    (hj : beh.all HAct.noJoin = true) :
    OInv (step s (.msg .abort beh)).1 (oStep o (.msg .abort beh) (step s (.msg .abort beh)).2).1 ∧
      (oStep o (.msg .abort beh) (step s (.msg .abort beh)).2).2 = [] := by
  obtain ⟨htr, hup, hsid, hended, hwel, hen, hrank, horank⟩ := hp
  have howed := hi.owed
  have hm0 : ({ s with ended := true } : Sess).mode = .sync := hi.mode
  obtain ⟨mid, last, e1, hl, c1⟩ := leaveHook_shape true hm0 2 (beh.headD {}) (headD_noJoin beh hj).1
  have hstep : step s (.msg .abort beh) =
      ((leaveHook { s with ended := true } 2 (beh.headD {})).1, .hook .onLeave 2 :: (mid ++ [last])) := by
    simp only [step, onMessage]
    split
    · simp only [preSession]
      split
      · next h => rw [hended] at h; cases h
      · simp only [preSessionOpen]
        exact Prod.ext rfl e1
    · next x hx => rw [hsid] at hx; cases hx
  rw [hstep]
  have hmid : ∀ o : OS, oScans o mid = (o, []) := fun o => c1.oScans o (Or.inl rfl)
  obtain ⟨up, wel, en, rank, orank, owed⟩ := o
  simp only at hup hwel hen hrank horank howed
  subst hup hwel hen hrank horank howed
  have hinv : ∀ o' : OS, o'.owedLeave = 0 → o'.up = true → o'.welcomed = false → o'.ended = true → o'.rank = 3 → o'.orank ≤ 4 →
      OInv (leaveHook { s with ended := true } 2 (beh.headD {})).1 o' := fun o' a b c d e f =>
    ⟨c1.mode.trans hm0, q_of_calm c1 hi.q, a, .over, c1.transport.trans htr, b, c1.sid.trans hsid, c1.ended (Or.inl rfl), c, d, e, f⟩
  rcases hl with rfl | rfl
  · have ho : oStep ⟨true, false, false, 1, 1, 0⟩ (.msg .abort beh) (.hook .onLeave 2 :: (mid ++ [.userError])) =
        (⟨true, false, true, 3, 1, 0⟩, []) := by
      simp [oStep, oPre, isIllegal, oScans_filter_visible, oScans, oScans_append, oScan, hookRank, obsRank, hmid]
    rw [ho]
    exact ⟨hinv _ rfl rfl rfl rfl rfl (by decide), rfl⟩
  · have ho : oStep ⟨true, false, false, 1, 1, 0⟩ (.msg .abort beh) (.hook .onLeave 2 :: (mid ++ [.fire .leave])) =
        (⟨true, false, true, 3, 4, 0⟩, []) := by
      simp [oStep, oPre, isIllegal, oScans_filter_visible, oScans, oScans_append, oScan, hookRank, obsRank, hmid]
    rw [ho]
    exact ⟨hinv _ rfl rfl rfl rfl rfl (by decide), rfl⟩

/-- the GOODBYE that ends a joined session -/
theorem joined_goodbye_step {s : Sess} {o : OS} (hi : OInv s o) (hp : phOk .joined s o) (beh : List HAct)
    (hj : beh.all HAct.noJoin = true) :
    OInv (step s (.msg .goodbye beh)).1 (oStep o (.msg .goodbye beh) (step s (.msg .goodbye beh)).2).1 ∧
      (oStep o (.msg .goodbye beh) (step s (.msg .goodbye beh)).2).2 = [] := by
  obtain ⟨htr, hup, hsome, hended, hwel, hen, hrank, horank⟩ := hp
  obtain ⟨sid, hsid⟩ := Option.isSome_iff_exists.mp hsome
  have howed := hi.owed
  have hm0 : ({ s with sessionId := none, ended := true } : Sess).mode = .sync := hi.mode
  obtain ⟨mid, last, e1, hl, c1⟩ := leaveHook_shape true hm0 0 (beh.headD {}) (headD_noJoin beh hj).1
  have hstep : ∃ pre, (pre = [] ∨ pre = [SOut.send { typ := .goodbye }]) ∧ step s (.msg .goodbye beh) =
      ((leaveHook { s with sessionId := none, ended := true } 0 (beh.headD {})).1, pre ++ .hook .onLeave 0 :: (mid ++ [last])) := by
    refine ⟨if s.goodbyeSent then [] else [SOut.send { typ := .goodbye }], by split <;> simp, ?_⟩
    simp only [step, onMessage]
    split
    · next hx => rw [hsid] at hx; cases hx
    · simp only [onEstablished]
      split
      · next h => simp [htr] at h
      · rw [e1]
  obtain ⟨pre, hpre, hstep⟩ := hstep
  rw [hstep]
  have hmid : ∀ o : OS, oScans o mid = (o, []) := fun o => c1.oScans o (Or.inl rfl)
  obtain ⟨up, wel, en, rank, orank, owed⟩ := o
  simp only at hup hwel hen hrank horank howed
  subst hup hwel hen hrank horank howed
  have hinv : ∀ o' : OS, o'.owedLeave = 0 → o'.up = true → o'.welcomed = false → o'.ended = true → o'.rank = 3 → o'.orank ≤ 4 →
      OInv (leaveHook { s with sessionId := none, ended := true } 0 (beh.headD {})).1 o' := fun o' a b c d e f =>
    ⟨c1.mode.trans hm0, q_of_calm c1 hi.q, a, .over, c1.transport.trans htr, b, c1.sid, c1.ended (Or.inl rfl), c, d, e, f⟩
  rcases hl with rfl | rfl <;> rcases hpre with rfl | rfl
  all_goals
    first
    | (have ho : ∀ pre' : List SOut, (pre' = [] ∨ pre' = [SOut.send { typ := .goodbye }]) →
          oStep ⟨true, true, false, 2, 3, 0⟩ (.msg .goodbye beh) (pre' ++ .hook .onLeave 0 :: (mid ++ [.userError])) =
            (⟨true, false, true, 3, 3, 0⟩, []) := by
        intro pre' h
        rcases h with rfl | rfl <;>
          simp [oStep, oPre, isIllegal, oScans_filter_visible, oScans, oScans_append, oScan, hookRank, obsRank, hmid]
       first
       | (rw [ho _ (Or.inl rfl)]; exact ⟨hinv _ rfl rfl rfl rfl rfl (by decide), rfl⟩)
       | (rw [ho _ (Or.inr rfl)]; exact ⟨hinv _ rfl rfl rfl rfl rfl (by decide), rfl⟩))
    | (have ho : ∀ pre' : List SOut, (pre' = [] ∨ pre' = [SOut.send { typ := .goodbye }]) →
          oStep ⟨true, true, false, 2, 3, 0⟩ (.msg .goodbye beh) (pre' ++ .hook .onLeave 0 :: (mid ++ [.fire .leave])) =
            (⟨true, false, true, 3, 4, 0⟩, []) := by
        intro pre' h
        rcases h with rfl | rfl <;>
          simp [oStep, oPre, isIllegal, oScans_filter_visible, oScans, oScans_append, oScan, hookRank, obsRank, hmid]
       first
       | (rw [ho _ (Or.inl rfl)]; exact ⟨hinv _ rfl rfl rfl rfl rfl (by decide), rfl⟩)
       | (rw [ho _ (Or.inr rfl)]; exact ⟨hinv _ rfl rfl rfl rfl rfl (by decide), rfl⟩))

theorem calm_msg_step' {s s' : Sess} {o : OS} {outs : List SOut} (hi : OInv s o) (m : InMsg) (beh : List HAct)
    (hpre : oPre o (.msg m beh) (outs.filter visible) = (o, [])) (c : Calm true s outs s') :
    OInv s' (oStep o (.msg m beh) outs).1 ∧ (oStep o (.msg m beh) outs).2 = [] := by
  rw [oStep_quiet o _ outs hpre (by intro a h; cases h) (c.oScans o (Or.inl rfl)) hi.owed]
  exact ⟨hi.calm c (Or.inl rfl), rfl⟩

theorem step_pre {s : Sess} (hsid : s.sessionId = none) (hended : s.ended = false) (m : InMsg) (beh : List HAct) :
    step s (.msg m beh) = preSessionOpen s beh m := by
  simp only [step, onMessage]
  split
  · simp only [preSession]
    split
    · next h => rw [hended] at h; cases h
    · rfl
  · next x hx => rw [hsid] at hx; cases hx

/-- CHALLENGE while the join attempt is open -/
theorem pre_challenge_step {s : Sess} {o : OS} (hi : OInv s o) (hp : phOk .pre s o) (beh : List HAct)
    (hj : beh.all HAct.noJoin = true) :
    OInv (step s (.msg .challenge beh)).1 (oStep o (.msg .challenge beh) (step s (.msg .challenge beh)).2).1 ∧
      (oStep o (.msg .challenge beh) (step s (.msg .challenge beh)).2).2 = [] := by
  obtain ⟨htr, hup, hsid, hended, hwel, hen, hrank, horank⟩ := hp
  have howed := hi.owed
  have hja := (headD_noJoin beh hj).1
  have hjb := (headD_noJoin beh.tail (headD_noJoin beh hj).2).1
  obtain ⟨mid1, e1, c1⟩ := runHook_shape true s .onChallenge 0 (beh.headD {}) (fun s => (s, [])) (Calm.refl true s) hja
  have hm1 : (runHook s .onChallenge 0 (beh.headD {}) (fun s => (s, []))).1.mode = .sync := c1.mode.trans hi.mode
  have ht1 : (runHook s .onChallenge 0 (beh.headD {}) (fun s => (s, []))).1.transport = true := c1.transport.trans htr
  rw [step_pre hsid hended]
  simp only [preSessionOpen]
  rw [defer_sync hm1, e1]
  by_cases hr : (beh.headD {}).raises = true
  · -- `onChallenge` raised: ABORT, the join attempt is over, `onLeave`
    have hm2 : ({ (runHook s .onChallenge 0 (beh.headD {}) (fun s => (s, []))).1 with ended := true } : Sess).mode = .sync := hm1
    obtain ⟨mid2, last, e2, hl, c2⟩ := leaveHook_shape true hm2 3 (beh.tail.headD {}) hjb
    rw [if_pos hr]
    simp only [runCont]
    unfold challengeFail
    rw [if_neg (by rw [ht1]; decide)]
    simp only []
    rw [e2]
    have hmid1 : ∀ o : OS, oScans o mid1 = (o, []) := fun o => c1.oScans o (Or.inl rfl)
    have hmid2 : ∀ o : OS, oScans o mid2 = (o, []) := fun o => c2.oScans o (Or.inl rfl)
    obtain ⟨up, wel, en, rank, orank, owed⟩ := o
    simp only at hup hwel hen hrank horank howed
    subst hup hwel hen hrank horank howed
    have hinv : ∀ o' : OS, o'.owedLeave = 0 → o'.up = true → o'.welcomed = false → o'.ended = true → o'.rank = 3 → o'.orank ≤ 4 →
        OInv (leaveHook { (runHook s .onChallenge 0 (beh.headD {}) (fun s => (s, []))).1 with ended := true } 3 (beh.tail.headD {})).1 o' :=
      fun o' a b c d e f =>
      ⟨c2.mode.trans hm2, q_of_calm c2 (fun x hx => q_of_calm c1 hi.q x hx), a, .over, c2.transport.trans ht1, b,
       c2.sid.trans (c1.sid.trans hsid), c2.ended (Or.inl rfl), c, d, e, f⟩
    rcases hl with rfl | rfl
    · have ho : oStep ⟨true, false, false, 1, 1, 0⟩ (.msg .challenge beh)
          ((.hook .onChallenge 0 :: mid1) ++ ([.userError, .send { typ := .abort }] ++ .hook .onLeave 3 :: (mid2 ++ [.userError]))) =
          (⟨true, false, true, 3, 1, 0⟩, []) := by
        simp [-List.headD_eq_head?_getD, oStep, oPre, isIllegal, hr, oScans_filter_visible, oScans, oScans_append, oScan, hookRank, hmid1, hmid2]
      rw [ho]
      exact ⟨hinv _ rfl rfl rfl rfl rfl (by decide), rfl⟩
    · have ho : oStep ⟨true, false, false, 1, 1, 0⟩ (.msg .challenge beh)
          ((.hook .onChallenge 0 :: mid1) ++ ([.userError, .send { typ := .abort }] ++ .hook .onLeave 3 :: (mid2 ++ [.fire .leave]))) =
          (⟨true, false, true, 3, 4, 0⟩, []) := by
        simp [-List.headD_eq_head?_getD, oStep, oPre, isIllegal, hr, oScans_filter_visible, oScans, oScans_append, oScan, hookRank, obsRank, hmid1, hmid2]
      rw [ho]
      exact ⟨hinv _ rfl rfl rfl rfl rfl (by decide), rfl⟩
  · -- a signature (AUTHENTICATE) or `None` (an exception nobody sees): nothing ranked
    have hr' : (beh.headD {}).raises = false := by simpa using hr
    have hpre : ∀ vis, oPre o (.msg .challenge beh) vis = (o, []) := by
      intro vis
      obtain ⟨up, wel, en, rank, orank, owed⟩ := o
      simp only at hwel hen
      subst hwel hen
      simp [-List.headD_eq_head?_getD, oPre, isIllegal, hr']
    have hc : ∃ x, (ranked x = false ∧ isHello x = false) ∧
        runCont (runHook s .onChallenge 0 (beh.headD {}) (fun s => (s, []))).1
          (.challenge1 (if (beh.headD {}).raises = true then CRes.raised else if (beh.headD {}).ret = Ret.unit then CRes.none_ else CRes.sig)
            (beh.tail.headD {})) = ((runHook s .onChallenge 0 (beh.headD {}) (fun s => (s, []))).1, [x]) := by
      rw [if_neg hr]
      by_cases hu : (beh.headD {}).ret = Ret.unit
      · rw [if_pos hu]
        refine ⟨.lost .exception, ⟨rfl, rfl⟩, ?_⟩
        simp only [runCont]
        rw [hm1]
      · rw [if_neg hu]
        refine ⟨.send { typ := .authenticate }, ⟨rfl, rfl⟩, ?_⟩
        simp only [runCont]
        rw [if_pos ht1]
    obtain ⟨x, hx, hrun⟩ := hc
    rw [hrun]
    refine calm_msg_step' hi .challenge beh (hpre _) ?_
    have : Calm true s ((.hook .onChallenge 0 :: mid1) ++ [x]) (runHook s .onChallenge 0 (beh.headD {}) (fun s => (s, []))).1 :=
      (Calm.cons ⟨rfl, rfl⟩ c1).trans (Calm.same rfl rfl rfl rfl rfl (by intro y hy; simp at hy; subst hy; exact hx))
    exact this

/-- WELCOME while the join attempt is open -/
theorem pre_welcome_step {s : Sess} {o : OS} (hi : OInv s o) (hp : phOk .pre s o) (sid : Nat) (beh : List HAct)
    (hj : beh.all HAct.noJoin = true) :
    OInv (step s (.msg (.welcome sid) beh)).1 (oStep o (.msg (.welcome sid) beh) (step s (.msg (.welcome sid) beh)).2).1 ∧
      (oStep o (.msg (.welcome sid) beh) (step s (.msg (.welcome sid) beh)).2).2 = [] := by
  obtain ⟨htr, hup, hsid, hended, hwel, hen, hrank, horank⟩ := hp
  have howed := hi.owed
  have hja := (headD_noJoin beh hj).1
  have hjb := (headD_noJoin beh.tail (headD_noJoin beh hj).2).1
  obtain ⟨mid1, e1, c1⟩ := runHook_shape true s .onWelcome 0 (beh.headD {}) (fun s => (s, [])) (Calm.refl true s) hja
  have hm1 : (runHook s .onWelcome 0 (beh.headD {}) (fun s => (s, []))).1.mode = .sync := c1.mode.trans hi.mode
  have ht1 : (runHook s .onWelcome 0 (beh.headD {}) (fun s => (s, []))).1.transport = true := c1.transport.trans htr
  rw [step_pre hsid hended]
  simp only [preSessionOpen]
  rw [defer_sync hm1, e1]
  -- `onWelcome` does not accept: ABORT, nothing ranked, still waiting
  have notOk : ∀ (x : List SOut), (∀ y ∈ x, ranked y = false ∧ isHello y = false) →
      ((beh.headD {}).raises = true ∨ (beh.headD {}).ret ≠ Ret.unit) →
      OInv (runHook s .onWelcome 0 (beh.headD {}) (fun s => (s, []))).1
        (oStep o (.msg (.welcome sid) beh) ((.hook .onWelcome 0 :: mid1) ++ x)).1 ∧
      (oStep o (.msg (.welcome sid) beh) ((.hook .onWelcome 0 :: mid1) ++ x)).2 = [] := by
    intro x hx hno
    have hpre : ∀ vis, oPre o (.msg (.welcome sid) beh) vis = (o, []) := by
      intro vis
      obtain ⟨up, wel, en, rank, orank, owed⟩ := o
      simp only at hwel hen
      subst hwel hen
      rcases hno with h | h
      · simp [-List.headD_eq_head?_getD, oPre, isIllegal, h]
      · simp [-List.headD_eq_head?_getD, oPre, isIllegal, h]
    refine calm_msg_step' hi _ beh (hpre _) ?_
    exact (Calm.cons ⟨rfl, rfl⟩ c1).trans (Calm.same rfl rfl rfl rfl rfl hx)
  by_cases hr : (beh.headD {}).raises = true
  · rw [if_pos hr]
    simp only [runCont]
    rw [if_pos ht1]
    exact notOk _ (by intro y hy; simp at hy; rcases hy with rfl | rfl <;> exact ⟨rfl, rfl⟩) (Or.inl hr)
  · rw [if_neg hr]
    by_cases hu : (beh.headD {}).ret = Ret.unit
    · -- accepted: the session id, 'join', `onJoin`, 'ready'
      rw [if_pos hu]
      simp only [runCont]
      rw [if_neg (by rw [ht1]; decide)]
      simp only []
      have hms1 : ({ (runHook s .onWelcome 0 (beh.headD {}) (fun s => (s, []))).1 with sessionId := some sid } : Sess).mode = .sync := hm1
      rw [deferLeaf_sync hms1]
      simp only [runLeaf]
      obtain ⟨mid2, e2, c2⟩ := runHook_shape true { (runHook s .onWelcome 0 (beh.headD {}) (fun s => (s, []))).1 with sessionId := some sid }
        .onJoin 0 (beh.tail.headD {}) (fun s => (s, [])) (Calm.refl true _) hjb
      rw [e2]
      have hmid1 : ∀ o : OS, oScans o mid1 = (o, []) := fun o => c1.oScans o (Or.inl rfl)
      have hmid2 : ∀ o : OS, oScans o mid2 = (o, []) := fun o => c2.oScans o (Or.inl rfl)
      have hr' : (beh.headD {}).raises = false := by simpa using hr
      have fin : ∀ tl : List SOut, (tl = [] ∨ tl = [SOut.userError]) →
          OInv (runHook { (runHook s .onWelcome 0 (beh.headD {}) (fun s => (s, []))).1 with sessionId := some sid }
              .onJoin 0 (beh.tail.headD {}) (fun s => (s, []))).1
            (oStep o (.msg (.welcome sid) beh)
              ((.hook .onWelcome 0 :: mid1) ++ (.fire .join :: ((.hook .onJoin 0 :: mid2) ++ tl ++ [.fire .ready])))).1 ∧
          (oStep o (.msg (.welcome sid) beh)
              ((.hook .onWelcome 0 :: mid1) ++ (.fire .join :: ((.hook .onJoin 0 :: mid2) ++ tl ++ [.fire .ready])))).2 = [] := by
        intro tl htl
        obtain ⟨up, wel, en, rank, orank, owed⟩ := o
        simp only at hup hwel hen hrank horank howed
        subst hup hwel hen hrank horank howed
        have ho : oStep ⟨true, false, false, 1, 1, 0⟩ (.msg (.welcome sid) beh)
            ((.hook .onWelcome 0 :: mid1) ++ (.fire .join :: ((.hook .onJoin 0 :: mid2) ++ tl ++ [.fire .ready]))) =
            (⟨true, true, false, 2, 3, 0⟩, []) := by
          rcases htl with rfl | rfl <;>
            simp [-List.headD_eq_head?_getD, oStep, oPre, isIllegal, hr', hu, oScans_filter_visible, oScans, oScans_append, oScan,
              hookRank, obsRank, hmid1, hmid2]
        rw [ho]
        refine ⟨⟨c2.mode.trans hms1, q_of_calm c2 (fun x hx => q_of_calm c1 hi.q x hx), rfl, .joined, ?_⟩, rfl⟩
        refine ⟨c2.transport.trans ht1, rfl, ?_, (c2.ended (Or.inl rfl)).trans ((c1.ended (Or.inl rfl)).trans hended), rfl, rfl, rfl, rfl⟩
        rw [c2.sid]; rfl
      split
      · split
        · exact fin _ (Or.inr rfl)
        · next hmode => rw [hm1] at hmode; cases hmode
      · exact fin _ (Or.inl rfl)
    · rw [if_neg hu]
      simp only [runCont]
      rw [if_pos ht1]
      exact notOk _ (by intro y hy; simp at hy; subst hy; exact ⟨rfl, rfl⟩) (Or.inr hu)

theorem step_est {s : Sess} {sid : Nat} (hsid : s.sessionId = some sid) (m : InMsg) (beh : List HAct) :
    step s (.msg m beh) = onEstablished s beh m := by
  simp only [step, onMessage]
  split
  · next hx => rw [hsid] at hx; cases hx
  · rfl

theorem step_over {s : Sess} (hsid : s.sessionId = none) (hended : s.ended = true) (m : InMsg) (beh : List HAct) :
    step s (.msg m beh) = (s, [.raise_ .protocolError]) := by
  simp only [step, onMessage]
  split
  · simp only [preSession]
    split
    · rfl
    · next h => rw [hended] at h
  · next x hx => rw [hsid] at hx; cases hx

/-- every message, in every phase with a transport -/
theorem msg_step {s : Sess} {o : OS} (hi : OInv s o) (ht : s.transport = true) (m : InMsg) (beh : List HAct)
    (hj : beh.all HAct.noJoin = true) :
    OInv (step s (.msg m beh)).1 (oStep o (.msg m beh) (step s (.msg m beh)).2).1 ∧
      (oStep o (.msg m beh) (step s (.msg m beh)).2).2 = [] := by
  obtain ⟨p, hp⟩ := hi.ph
  cases p with
  | down => rw [hp.1] at ht; cases ht
  | over =>
    obtain ⟨_, _, hsid, hended, hwel, hen, _, _⟩ := hp
    refine rejected_step hi m beh (step_over hsid hended m beh) ?_
    rw [hwel, hen]
    first | rfl | (cases m <;> rfl)
  | pre =>
    have hp' := hp
    obtain ⟨_, _, hsid, hended, hwel, hen, _, _⟩ := hp
    have rej : ∀ m' : InMsg, preSessionOpen s beh m' = (s, [.raise_ .protocolError]) → isIllegal false false m' = true →
        OInv (step s (.msg m' beh)).1 (oStep o (.msg m' beh) (step s (.msg m' beh)).2).1 ∧
          (oStep o (.msg m' beh) (step s (.msg m' beh)).2).2 = [] := fun m' h1 h2 =>
      rejected_step hi m' beh (by rw [step_pre hsid hended]; exact h1) (by rw [hwel, hen]; exact h2)
    cases m with
    | welcome sid => exact pre_welcome_step hi hp' sid beh hj
    | abort => exact pre_abort_step hi hp' beh hj
    | challenge => exact pre_challenge_step hi hp' beh hj
    | goodbye => exact rej _ rfl rfl
    | result _ _ _ => exact rej _ rfl rfl
    | error _ _ _ _ => exact rej _ rfl rfl
    | published _ _ => exact rej _ rfl rfl
    | subscribed _ _ => exact rej _ rfl rfl
    | unsubscribed _ => exact rej _ rfl rfl
    | registered _ _ => exact rej _ rfl rfl
    | unregistered _ _ => exact rej _ rfl rfl
    | event _ _ _ => exact rej _ rfl rfl
    | invocation _ _ _ _ => exact rej _ rfl rfl
    | interrupt _ => exact rej _ rfl rfl
    | other => exact rej _ rfl rfl
  | joined =>
    have hp' := hp
    obtain ⟨_, _, hsome, hended, hwel, hen, _, _⟩ := hp
    obtain ⟨sid, hsid⟩ := Option.isSome_iff_exists.mp hsome
    have rej : ∀ m' : InMsg, onEstablished s beh m' = (s, [.raise_ .protocolError]) → isIllegal true false m' = true →
        OInv (step s (.msg m' beh)).1 (oStep o (.msg m' beh) (step s (.msg m' beh)).2).1 ∧
          (oStep o (.msg m' beh) (step s (.msg m' beh)).2).2 = [] := fun m' h1 h2 =>
      rejected_step hi m' beh (by rw [step_est hsid]; exact h1) (by rw [hwel, hen]; exact h2)
    have calm : ∀ (b : Bool) (m' : InMsg), isIllegal true false m' = false →
        m'.obliges = false →
        Calm b s (onEstablished s beh m').2 (onEstablished s beh m').1 →
        OInv (step s (.msg m' beh)).1 (oStep o (.msg m' beh) (step s (.msg m' beh)).2).1 ∧
          (oStep o (.msg m' beh) (step s (.msg m' beh)).2).2 = [] := by
      intro b m' h1 h2 c
      rw [step_est hsid]
      exact calm_msg_step hi m' beh (by rw [hwel, hen]; exact h1) h2 c (Or.inr ⟨hended, ht⟩)
    have reply : ∀ m' : InMsg, m'.isReplySide = true → Calm false s (onEstablished s beh m').2 (onEstablished s beh m').1 :=
      fun m' h => calmLiftQ.established trivial beh m' h
    cases m with
    | goodbye => exact joined_goodbye_step hi hp' beh hj
    | welcome _ => exact rej _ rfl rfl
    | abort => exact rej _ rfl rfl
    | challenge => exact rej _ rfl rfl
    | other => exact rej _ rfl rfl
    | invocation req reg p rp => exact calm false _ rfl rfl (onInvocation_calm hi.mode beh req reg p _)
    | interrupt req => exact calm true _ rfl rfl (settleInv_calm true hi.mode req _)
    | result a b c => exact calm false _ rfl rfl (reply _ rfl)
    | error a b c d => exact calm false _ rfl rfl (reply _ rfl)
    | published a b => exact calm false _ rfl rfl (reply _ rfl)
    | subscribed a b => exact calm false _ rfl rfl (reply _ rfl)
    | unsubscribed a => exact calm false _ rfl rfl (reply _ rfl)
    | registered a b => exact calm false _ rfl rfl (reply _ rfl)
    | unregistered a b => exact calm false _ rfl rfl (reply _ rfl)
    | event a b c => exact calm false _ rfl rfl (reply _ rfl)

/-! ### histories -/

/-- the transport's side of the contract: `onOpen` only without a transport, `onClose` and messages only with one -/
def SEv.fits (up : Bool) : SEv → Bool
  | .open_ _ => !up
  | .closed _ => up
  | .msg _ _ => up
  | _ => true

def SEv.upAfter (up : Bool) : SEv → Bool
  | .open_ _ => true
  | .closed _ => false
  | _ => up

theorem step_transport (s : Sess) (e : SEv) : (step s e).1.transport = e.upAfter s.transport := by
  cases e with
  | api a => exact (stableLiftQ.toLift.api a trivial).1
  | msg m beh =>
    simp only [step, onMessage, SEv.upAfter]
    split
    · exact (preSession_stable s beh m).1
    · exact (onEstablished_stable s beh m).1
  | pump => exact (drain_stable 8 s).1
  | tick => exact (stable_trans (s2 := { s with cbq := [] }) (o1 := []) (o3 := []) ⟨rfl, rfl⟩ (tickList_stable _ _)).1
  | open_ acts =>
    simp only [step, onOpen, SEv.upAfter]
    exact (defer_stable { s with transport := true, ended := false } _).1
  | closed acts =>
    simp only [step, onClose, SEv.upAfter]
    split
    · have h1 := leaveHook_stable { s with transport := false } 1 (acts.headD {})
      have h2 := disconnectHook_stable { (leaveHook { s with transport := false } 1 (acts.headD {})).1 with sessionId := none } (acts.tail.headD {})
      rw [h2.1]; exact h1.1
    · exact (disconnectHook_stable { s with transport := false } (acts.tail.headD {})).1
  | fault l => rfl
  | resolve r v => exact (settleInv_stable s r _).1
  | fail r x => exact (settleInv_stable s r _).1
  | lateProgress r v => exact (lateProgress_stable s r v).1

/-- one event of a well-formed history: the invariant is kept and the ordering part of the Spec reports nothing -/
theorem order_step {s : Sess} {o : OS} (hi : OInv s o) (e : SEv) (hf : e.fits s.transport = true) (hj : e.noJoin = true) :
    OInv (step s e).1 (oStep o e (step s e).2).1 ∧ (oStep o e (step s e).2).2 = [] := by
  by_cases hp : e.plain = true
  · exact plain_step hi e hp (plain_calm hi e hp hj)
  · cases e with
    | open_ acts => exact open_step hi (by simpa [SEv.fits] using hf) acts hj
    | closed acts => exact closed_step hi hf acts hj
    | msg m beh => exact msg_step hi hf m beh hj
    | _ => simp [SEv.plain] at hp

def wfHist : Bool → List SEv → Bool
  | _, [] => true
  | up, e :: es => e.fits up && e.noJoin && wfHist (e.upAfter up) es

theorem order_hist {s : Sess} {o : OS} (hi : OInv s o) (h : List SEv) (hw : wfHist s.transport h = true) :
    oCheckFrom o (traceOf s h) = [] := by
  induction h generalizing s o with
  | nil => rfl
  | cons e es ih =>
    simp only [wfHist, Bool.and_eq_true] at hw
    obtain ⟨⟨hf, hj⟩, hrest⟩ := hw
    obtain ⟨h1, h2⟩ := order_step hi e hf hj
    simp only [traceOf, oCheckFrom, h2, List.nil_append]
    exact ih h1 (by rw [step_transport]; exact hrest)

theorem init_OInv : OInv (init .sync) ({} : Scan).os :=
  ⟨rfl, by simp [init], rfl, .down, rfl, rfl⟩

end Abverif.Session
