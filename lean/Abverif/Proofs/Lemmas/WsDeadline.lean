import Abverif.Proofs.Lemmas.WsOps
/-
The invariant behind "closing is bounded": an armed closing-handshake / server-connection-drop timer has its deadline
no later than now + the configured timeout (`DB`).  `DP a b := DB a → DB b` for every engine function, bottom-up, in
the same order as `WsOps.lean`: the clock only moves forward, the configuration never changes, and the two timers are
only armed by `armCloseHs` (`batched now T ≤ now + T`) and `armServerDrop` (`now + T`), or cleared.
-/
namespace Abverif.Ws

def DB (s : S) : Prop :=
  (∀ D q, s.tCloseHs = some (D, q) → D ≤ s.now + s.cfg.closeHsTimeout) ∧
  (∀ D q, s.tServerDrop = some (D, q) → D ≤ s.now + s.cfg.serverDropTimeout)

def DP (a b : S) : Prop := DB a → DB b

theorem DP.refl (a : S) : DP a a := id
theorem DP.trans {a b c : S} (h1 : DP a b) (h2 : DP b c) : DP a c := fun h => h2 (h1 h)

/-- the clock moved forward, the timers were kept or cleared -/
theorem DP.of_le {a b : S} (h1 : a.now ≤ b.now) (h2 : b.cfg = a.cfg) (h3 : b.tCloseHs = a.tCloseHs ∨ b.tCloseHs = none)
    (h4 : b.tServerDrop = a.tServerDrop ∨ b.tServerDrop = none) : DP a b := by
  intro d
  refine ⟨fun D q h => ?_, fun D q h => ?_⟩
  · rcases h3 with e | e
    · rw [e] at h; have := d.1 D q h; rw [h2]; omega
    · rw [e] at h; cases h
  · rcases h4 with e | e
    · rw [e] at h; have := d.2 D q h; rw [h2]; omega
    · rw [e] at h; cases h

theorem DP.of_same {a b : S} (h1 : b.now = a.now) (h2 : b.cfg = a.cfg) (h3 : b.tCloseHs = a.tCloseHs)
    (h4 : b.tServerDrop = a.tServerDrop) : DP a b :=
  DP.of_le (by rw [h1]; exact Nat.le_refl _) h2 (Or.inl h3) (Or.inl h4)

theorem DP.pre {a a' b : S} (h : DP a' b) (h1 : a'.now = a.now) (h2 : a'.cfg = a.cfg) (h3 : a'.tCloseHs = a.tCloseHs)
    (h4 : a'.tServerDrop = a.tServerDrop) : DP a b := (DP.of_same h1 h2 h3 h4).trans h

/-- the start state is `a` with the clock moved forward and/or timers cleared -/
theorem DP.preLe {a a' b : S} (h : DP a' b) (h1 : a.now ≤ a'.now) (h2 : a'.cfg = a.cfg)
    (h3 : a'.tCloseHs = a.tCloseHs ∨ a'.tCloseHs = none) (h4 : a'.tServerDrop = a.tServerDrop ∨ a'.tServerDrop = none) :
    DP a b := (DP.of_le h1 h2 h3 h4).trans h

theorem DP.post {a b b' : S} (h : DP a b) (h1 : b'.now = b.now) (h2 : b'.cfg = b.cfg) (h3 : b'.tCloseHs = b.tCloseHs)
    (h4 : b'.tServerDrop = b.tServerDrop) : DP a b' := h.trans (DP.of_same h1 h2 h3 h4)


theorem DP.of_SendEq {a b : S} (h : SendEq a b) : DP a b := DP.of_same h.now h.cfg h.tCloseHs h.tServerDrop

theorem emit_DP (s : S) (o : Out) : DP s (s.emit o) := DP.of_same rfl rfl rfl rfl
theorem timer_DP (s : S) (d : Nat) : DP s (s.timer d).1 := DP.of_same rfl rfl rfl rfl
theorem armPingNext_DP (s : S) : DP s (armPingNext s) := DP.of_same rfl rfl rfl rfl
theorem armPingTimeout_DP (s : S) : DP s (armPingTimeout s) := DP.of_same rfl rfl rfl rfl
theorem sendTick_DP (s : S) : DP s (sendTick s) := DP.of_SendEq (sendTick_SendEq s)
theorem sendFrame_DP (s : S) (op : Nat) (pl : Bytes) (fin : Bool) (rsv : Nat) (sync : Bool) (chop : Nat) :
    DP s (sendFrame s op pl fin rsv sync chop) := DP.of_SendEq (sendFrame_SendEq s op pl fin rsv sync chop)

theorem armCloseHs_DP (s : S) : DP s (armCloseHs s) := by
  intro d
  refine ⟨fun D q h => ?_, fun D q h => d.2 D q h⟩
  simp only [armCloseHs, S.timer, Option.some.injEq, Prod.mk.injEq] at h
  show D ≤ s.now + s.cfg.closeHsTimeout
  rw [← h.1]
  unfold batched
  exact Nat.div_mul_le_self _ _

theorem armServerDrop_DP (s : S) : DP s (armServerDrop s) := by
  intro d
  refine ⟨fun D q h => d.1 D q h, fun D q h => ?_⟩
  simp only [armServerDrop, S.timer, Option.some.injEq, Prod.mk.injEq] at h
  show D ≤ s.now + s.cfg.serverDropTimeout
  omega

theorem sendPing_DP (s : S) (pl : Bytes) : DP s (sendPing s pl) := by
  unfold sendPing
  split
  · exact DP.refl s
  · split
    · exact emit_DP _ _
    · exact sendFrame_DP _ _ _ _ _ _ _

theorem sendPong_DP (s : S) (pl : Bytes) : DP s (sendPong s pl) := by
  unfold sendPong
  split
  · exact DP.refl s
  · split
    · exact emit_DP _ _
    · exact sendFrame_DP _ _ _ _ _ _ _

theorem sendCloseFrame_DP (s : S) (c : Option Nat) (r : Option Bytes) (i : Bool) : DP s (sendCloseFrame s c r i) := by
  unfold sendCloseFrame
  split
  · exact DP.refl s
  · exact DP.refl s
  · exact emit_DP _ _
  · dsimp only
    have key : ∀ t : S, t.now = (sendFrame s 8 (closePayload c r)).now → t.cfg = (sendFrame s 8 (closePayload c r)).cfg →
        t.tCloseHs = (sendFrame s 8 (closePayload c r)).tCloseHs →
        t.tServerDrop = (sendFrame s 8 (closePayload c r)).tServerDrop → DP s t :=
      fun t h1 h2 h3 h4 => (sendFrame_DP s 8 (closePayload c r) true 0 false 0).post h1 h2 h3 h4
    split
    · exact (key _ rfl rfl rfl rfl).trans (armCloseHs_DP _)
    · exact key _ rfl rfl rfl rfl

theorem sendClose_DP (s : S) (c : Option Nat) (r : Option Bytes) : DP s (sendClose s c r) := by
  unfold sendClose
  split
  · exact emit_DP _ _
  · split
    · exact emit_DP _ _
    · exact sendCloseFrame_DP _ _ _ _

theorem dropConnection_DP (s : S) (a : Bool) : DP s (dropConnection s a) := by
  unfold dropConnection
  split
  · exact DP.of_same rfl rfl rfl rfl
  · exact DP.refl s

theorem failConnection_DP (s : S) (code : Nat) : DP s (failConnection s code) := by
  unfold failConnection
  split
  · dsimp only
    split
    · exact DP.pre (dropConnection_DP _ _) rfl rfl rfl rfl
    · split
      · exact DP.pre (sendCloseFrame_DP _ _ _ _) rfl rfl rfl rfl
      · exact DP.pre (dropConnection_DP _ _) rfl rfl rfl rfl
  · exact DP.refl s

theorem violation_DP (s : S) (code : Nat) : DP s (violation s code).1 := failConnection_DP s code

theorem closeCodeStep_DP (s : S) (c : Option Nat) : DP s (closeCodeStep s c).1 := by
  unfold closeCodeStep
  split
  · split
    · have hv := violation_DP s 1002
      generalize violation s 1002 = r at hv
      obtain ⟨s', stop⟩ := r
      dsimp only
      split
      · exact hv
      · exact hv.post rfl rfl rfl rfl
    · exact DP.of_same rfl rfl rfl rfl
  · exact DP.of_same rfl rfl rfl rfl

theorem closeReasonStep_DP (s : S) (r : Option Bytes) : DP s (closeReasonStep s r).1 := by
  unfold closeReasonStep
  split
  · split
    · exact violation_DP _ _
    · exact DP.of_same rfl rfl rfl rfl
  · exact DP.refl s

theorem replyClose_DP (s : S) : DP s (replyClose s) := by
  unfold replyClose; split <;> exact sendCloseFrame_DP _ _ _ _

theorem afterCloseHandshake_DP (s : S) (a : Bool) : DP s (afterCloseHandshake s a).1 := by
  unfold afterCloseHandshake
  split
  · exact dropConnection_DP _ _
  · split
    · exact armServerDrop_DP _
    · exact DP.refl s

theorem closeStateStep_DP (s : S) : DP s (closeStateStep s).1 := by
  unfold closeStateStep
  split
  · exact DP.preLe (afterCloseHandshake_DP _ _) (Nat.le_refl _) rfl (Or.inr rfl) (Or.inl rfl)
  · exact DP.pre ((replyClose_DP _).trans (afterCloseHandshake_DP _ _)) rfl rfl rfl rfl
  · exact DP.of_same rfl rfl rfl rfl
  · exact emit_DP _ _

theorem onCloseFrame_DP (s : S) (c : Option Nat) (r : Option Bytes) : DP s (onCloseFrame s c r).1 := by
  unfold onCloseFrame
  dsimp only
  have h0 : DP s { s with remoteCloseCode := none, remoteCloseReason := none } := DP.of_same rfl rfl rfl rfl
  have h1 := closeCodeStep_DP { s with remoteCloseCode := none, remoteCloseReason := none } c
  generalize closeCodeStep { s with remoteCloseCode := none, remoteCloseReason := none } c = r1 at h1
  split
  · exact h0.trans h1
  · have h2 := closeReasonStep_DP r1.1 r
    generalize closeReasonStep r1.1 r = r2 at h2
    split
    · exact (h0.trans h1).trans h2
    · exact ((h0.trans h1).trans h2).trans (closeStateStep_DP _)

theorem connectionLost_DP (s : S) : DP s (connectionLost s) := by
  unfold connectionLost
  split
  · exact DP.refl s
  · refine DP.of_le ?_ ?_ ?_ ?_
    · unfold reportClose markClosed cancelOnLost
      split <;> split <;> (try split) <;> exact Nat.le_refl _
    · unfold reportClose markClosed cancelOnLost
      split <;> split <;> (try split) <;> rfl
    · left
      unfold reportClose markClosed cancelOnLost
      split <;> split <;> (try split) <;> rfl
    · right
      unfold reportClose markClosed cancelOnLost
      split <;> split <;> (try split) <;> rfl

theorem sendAutoPing_DP (s : S) : DP s (sendAutoPing s) := by
  unfold sendAutoPing
  dsimp only
  have h : DP s (sendPing (beginAutoPing s) ((beginAutoPing s).pingPending.getD [])) :=
    DP.pre (sendPing_DP _ _) rfl rfl rfl rfl
  split
  · exact h.trans (armPingTimeout_DP _)
  · split
    · exact h.trans (armPingNext_DP _)
    · exact h

theorem cancelAutoPingTimeout_DP (s : S) : DP s (cancelAutoPingTimeout s) := by
  unfold cancelAutoPingTimeout
  dsimp only
  split
  · exact DP.pre (armPingNext_DP _) rfl rfl rfl rfl
  · exact DP.of_same rfl rfl rfl rfl

theorem onMessageFrameBegin_DP (s : S) (n : Nat) : DP s (onMessageFrameBegin s n) := by
  unfold onMessageFrameBegin
  dsimp only
  split
  · split
    · exact DP.pre (failConnection_DP _ _) rfl rfl rfl rfl
    · split
      · exact DP.pre (failConnection_DP _ _) rfl rfl rfl rfl
      · exact DP.of_same rfl rfl rfl rfl
  · exact DP.of_same rfl rfl rfl rfl

theorem onFrameBegin_DP (s : S) (h : Hdr) : DP s (onFrameBegin s h) := by
  unfold onFrameBegin
  split
  · exact DP.of_same rfl rfl rfl rfl
  · dsimp only
    split
    · split
      · exact DP.pre (onMessageFrameBegin_DP _ _) rfl rfl rfl rfl
      · exact DP.pre (onMessageFrameBegin_DP _ _) rfl rfl rfl rfl
    · exact onMessageFrameBegin_DP _ _

theorem utf8Step_DP (s : S) (p : Bytes) : DP s (utf8Step s p).1 := by
  unfold utf8Step
  split
  · split
    · exact DP.pre (violation_DP _ _) rfl rfl rfl rfl
    · exact DP.of_same rfl rfl rfl rfl
  · exact DP.refl s

theorem onFrameData_DP (s : S) (h : Hdr) (p : Bytes) : DP s (onFrameData s h p).1 := by
  unfold onFrameData
  split
  · exact DP.of_same rfl rfl rfl rfl
  · dsimp only
    have h0 := utf8Step_DP s p
    generalize utf8Step s p = r at h0
    split
    · exact h0
    · unfold onMessageFrameData
      split
      · exact h0.post rfl rfl rfl rfl
      · exact h0

theorem onPongFrame_DP (s : S) (p : Bytes) : DP s (onPongFrame s p) := by
  unfold onPongFrame
  split
  · split
    · dsimp only
      split
      · exact DP.pre (armPingNext_DP _) rfl rfl rfl rfl
      · exact DP.of_same rfl rfl rfl rfl
    · exact DP.refl s
  · exact DP.refl s

theorem onPingFrame_DP (s : S) (p : Bytes) : DP s (onPingFrame s p) := by
  unfold onPingFrame
  dsimp only
  split
  · exact DP.pre (sendPong_DP _ _) rfl rfl rfl rfl
  · exact emit_DP _ _

theorem processControlFrame_DP (s : S) (h : Hdr) : DP s (processControlFrame s h) := by
  unfold processControlFrame
  dsimp only
  split
  · exact DP.pre (onCloseFrame_DP _ _ _) rfl rfl rfl rfl
  · split
    · exact DP.pre (onPingFrame_DP _ _) rfl rfl rfl rfl
    · split
      · exact DP.pre ((onPongFrame_DP _ _).trans (emit_DP _ _)) rfl rfl rfl rfl
      · exact DP.of_same rfl rfl rfl rfl

theorem endDataFrame_DP (s : S) : DP s (endDataFrame s) := by
  unfold endDataFrame
  dsimp only
  split <;> split <;> first | exact DP.of_same rfl rfl rfl rfl | exact DP.pre (cancelAutoPingTimeout_DP _) rfl rfl rfl rfl

theorem endMessageStep_DP (s : S) : DP s (endMessageStep s).1 := by
  unfold endMessageStep
  dsimp only
  have h0 : DP s (if (s.utf8On && !s.msgCompressed && !s.utf8Ends) = true
      then ((violation s 1007).1, !(violation s 1007).2) else (s, true)).1 := by
    split
    · exact violation_DP _ _
    · exact DP.refl s
  generalize (if (s.utf8On && !s.msgCompressed && !s.utf8Ends) = true
      then ((violation s 1007).1, !(violation s 1007).2) else (s, true)) = r at h0
  split
  · exact h0
  · unfold resetMessage deliverMessage
    split
    · exact h0.post rfl rfl rfl rfl
    · exact h0.post rfl rfl rfl rfl

theorem onFrameEnd_DP (s : S) (h : Hdr) : DP s (onFrameEnd s h).1 := by
  unfold onFrameEnd
  split
  · exact (processControlFrame_DP s h).post rfl rfl rfl rfl
  · dsimp only
    split
    · exact (endDataFrame_DP s).trans (endMessageStep_DP _)
    · exact (endDataFrame_DP s).post rfl rfl rfl rfl

theorem applyViolations_DP (s : S) (vs : List HV) : DP s (applyViolations s vs).1 := by
  induction vs generalizing s with
  | nil => exact DP.refl s
  | cons v vs ih =>
    unfold applyViolations
    have hv := violation_DP s 1002
    generalize violation s 1002 = r at hv
    obtain ⟨s', stop⟩ := r
    dsimp only
    split
    · exact hv
    · exact hv.trans (ih _)

theorem extLenStep_DP (s : S) (a b : Nat) : DP s (extLenStep s a b).1 := by
  unfold extLenStep
  split
  · split
    · exact violation_DP _ _
    · exact DP.refl s
  · split
    · dsimp only
      have h0 : DP s (if b > 0x7FFFFFFFFFFFFFFF then violation s 1002 else (s, false)).1 := by
        split
        · exact violation_DP _ _
        · exact DP.refl s
      generalize (if b > 0x7FFFFFFFFFFFFFFF then violation s 1002 else (s, false)) = r at h0
      split
      · exact h0
      · split
        · exact h0.trans (violation_DP _ _)
        · exact h0
    · exact DP.refl s

theorem processHeader_DP (s : S) (o0 o1 : UInt8) (buf : Bytes) : DP s (processHeader s o0 o1 buf).1 := by
  unfold processHeader
  dsimp only
  have h0 := applyViolations_DP s (headerViolations s.cfg s.insideMessage (o0.toNat / 128 = 1) (o0.toNat / 16 % 8)
    (o0.toNat % 16) (o1.toNat / 128 = 1) (o1.toNat % 128))
  generalize applyViolations s (headerViolations s.cfg s.insideMessage (o0.toNat / 128 = 1) (o0.toNat / 16 % 8)
    (o0.toNat % 16) (o1.toNat / 128 = 1) (o1.toNat % 128)) = r0 at h0
  split
  · exact h0
  · split
    · have h1 := extLenStep_DP r0.1 (o1.toNat % 128)
        (if o1.toNat % 128 < 126 then o1.toNat % 128 else
          beNat ((buf.drop 2).take (if o1.toNat % 128 = 126 then 2 else if o1.toNat % 128 = 127 then 8 else 0)))
      generalize extLenStep r0.1 (o1.toNat % 128)
        (if o1.toNat % 128 < 126 then o1.toNat % 128 else
          beNat ((buf.drop 2).take (if o1.toNat % 128 = 126 then 2 else if o1.toNat % 128 = 127 then 8 else 0))) = r1 at h1
      split
      · exact h0.trans h1
      · exact (h0.trans h1).trans (DP.pre (onFrameBegin_DP _ _) rfl rfl rfl rfl)
    · exact h0

theorem processPayload_DP (s : S) (h : Hdr) (buf : Bytes) : DP s (processPayload s h buf).1 := by
  unfold processPayload
  dsimp only
  have h1 : DP s (onFrameData { s with ptr := s.ptr + (buf.take (h.length - s.ptr)).length }
      h (unmaskChunk s h (buf.take (h.length - s.ptr)))).1 := DP.pre (onFrameData_DP _ _ _) rfl rfl rfl rfl
  generalize onFrameData { s with ptr := s.ptr + (buf.take (h.length - s.ptr)).length }
    h (unmaskChunk s h (buf.take (h.length - s.ptr))) = r at h1
  split
  · exact h1
  · have h2 : DP r.1 (if r.1.ptr = h.length then onFrameEnd r.1 h else (r.1, true)).1 := by
      split
      · exact onFrameEnd_DP _ _
      · exact DP.refl _
    generalize (if r.1.ptr = h.length then onFrameEnd r.1 h else (r.1, true)) = r2 at h2
    split
    · exact h1.trans h2
    · exact h1.trans h2

theorem processData_DP (s : S) (buf : Bytes) : DP s (processData s buf).1 := by
  unfold processData
  split
  · split
    · exact processHeader_DP _ _ _ _
    · exact DP.refl s
  · exact processPayload_DP _ _ _

theorem drain_DP (fuel : Nat) (s : S) (buf : Bytes) : DP s (drain fuel s buf).1 := by
  induction fuel generalizing s buf with
  | zero => exact DP.refl s
  | succ n ih =>
    unfold drain
    split
    · exact DP.refl s
    · have h := processData_DP s buf
      generalize processData s buf = r at h
      dsimp only
      split
      · exact h.trans (ih _ _)
      · exact h

theorem dataReceived_DP (s : S) (d : Bytes) : DP s (dataReceived s d) := by
  unfold dataReceived
  split
  · exact DP.refl s
  · have hd := drain_DP (drainFuel (s.data ++ d)) { s with data := [] } (s.data ++ d)
    split
    · exact (DP.pre hd rfl rfl rfl rfl).post rfl rfl rfl rfl
    · exact (DP.pre hd rfl rfl rfl rfl).post rfl rfl rfl rfl
    · exact DP.of_same rfl rfl rfl rfl

theorem handshakeDone_DP (s : S) : DP s (handshakeDone s) := by
  unfold handshakeDone
  split
  · exact DP.refl s
  · dsimp only
    split
    · exact DP.pre (armPingNext_DP _) rfl rfl rfl rfl
    · exact DP.of_same rfl rfl rfl rfl

theorem fire_DP (s : S) (k : TK) : DP s (fire s k) := by
  cases k <;> simp only [fire]
  · split
    · exact DP.pre (dropConnection_DP _ _) rfl rfl rfl rfl
    · exact DP.of_same rfl rfl rfl rfl
  · split
    · exact DP.preLe (dropConnection_DP _ _) (Nat.le_refl _) rfl (Or.inr rfl) (Or.inl rfl)
    · exact DP.of_le (Nat.le_refl _) rfl (Or.inr rfl) (Or.inl rfl)
  · split
    · exact DP.preLe (dropConnection_DP _ _) (Nat.le_refl _) rfl (Or.inl rfl) (Or.inr rfl)
    · exact DP.of_le (Nat.le_refl _) rfl (Or.inl rfl) (Or.inr rfl)
  · split
    · exact DP.pre (dropConnection_DP _ _) rfl rfl rfl rfl
    · exact DP.of_same rfl rfl rfl rfl
  · exact sendAutoPing_DP s
  · exact DP.pre (sendTick_DP _) rfl rfl rfl rfl

theorem advanceTo_DP (target : Nat) : ∀ (fuel : Nat) (s : S), DP s (advanceTo target fuel s) := by
  intro fuel
  induction fuel with
  | zero => intro s; exact DP.refl s
  | succ n ih =>
    intro s
    unfold advanceTo
    split
    · split
      · exact DP.preLe ((fire_DP _ _).trans (ih _)) (Nat.le_max_left _ _) rfl (Or.inl rfl) (Or.inl rfl)
      · exact DP.of_le (Nat.le_max_left _ _) rfl (Or.inl rfl) (Or.inl rfl)
    · exact DP.of_le (Nat.le_max_left _ _) rfl (Or.inl rfl) (Or.inl rfl)

theorem pump_DP (s : S) : DP s (pump s) := advanceTo_DP _ _ _
theorem advance_DP (s : S) (dt : Nat) : DP s (advance s dt) := advanceTo_DP _ _ _

end Abverif.Ws
