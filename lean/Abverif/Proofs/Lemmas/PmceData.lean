import Abverif.Model.Pmce
/-
C12 — data path lemmas: the codec contract (H1/H2 as a structure of hypotheses), the shape of the frame
trains the senders emit, what the receiver does with a train, one message end to end.
-/
namespace Abverif.Pmce
open Abverif.DeflateConsts

/-- **The codec contract** (hypotheses of the losslessness theorems, never axioms; `toyLawful` below is a
concrete instance). `Sync we wd c d`: deflater `c` (window 2^we) and inflater `d` (window 2^wd) stand at a message
boundary and `d` has consumed exactly what `c` has emitted since their contexts were last aligned.

* H2 `fresh`: new objects are in sync when the inflater's window is at least the deflater's;
  `enc_reset`: a deflater may always drop its context (its output then references nothing the inflater lacks).
* H1 `message`: from a synced pair, compress a message handed over in any pieces and sync-flush. The flush
  output ends with the empty stored block `00 00 ff ff`; an inflater fed everything before that tail, cut into
  ANY chunks, returns the message; fed the tail it returns to a synced state. -/
structure Codec.Lawful (K : Codec) where
  Sync : Nat → Nat → K.CSt → K.DSt → Prop
  fresh : ∀ we wd m, we ≤ wd → Sync we wd (K.freshC we m) (K.freshD wd)
  enc_reset : ∀ we wd m c d, Sync we wd c d → Sync we wd (K.freshC we m) d
  message : ∀ we wd c d (pieces : List Bytes), Sync we wd c d →
    ∃ body, (K.flush (K.compressAll c pieces).1).2 = body ++ rfcTail ∧
      ∀ chunks : List Bytes, chunks.flatten = (K.compressAll c pieces).2.flatten ++ body →
        ∃ d1, K.feed d chunks = some (d1, pieces.flatten) ∧
          ∃ d2 o, K.decompress d1 rfcTail = some (d2, o) ∧
            Sync we wd (K.flush (K.compressAll c pieces).1).1 d2

variable {K : Codec}

/-! ### frame trains -/

/-- frames after the first one of a fragmented message: continuation frames, RSV clear, FIN on the last only -/
inductive ContTail : List Frame → Prop
  | last (p : Bytes) : ContTail [⟨true, 0, 0, p⟩]
  | cons (p : Bytes) (rest : List Frame) : ContTail rest → ContTail (⟨false, 0, 0, p⟩ :: rest)

/-- one message on the wire: the first frame carries the opcode and the RSV bits, the rest is a `ContTail` -/
def Train (opcode rsv : Nat) (fs : List Frame) : Prop :=
  (∃ p, fs = [⟨true, rsv, opcode, p⟩]) ∨ (∃ p rest, fs = ⟨false, rsv, opcode, p⟩ :: rest ∧ ContTail rest)

def payloads (fs : List Frame) : Bytes := (fs.map (·.payload)).flatten

theorem fragLoop_tail_aux (n op rsv : Nat) : ∀ (k : Nat) (rest : Bytes), rest.length ≤ k →
    ContTail (fragLoop n op rsv false rest) ∧ payloads (fragLoop n op rsv false rest) = rest := by
  intro k
  induction k with
  | zero =>
    intro rest h
    rw [fragLoop]
    have : rest.length < n + 1 := by omega
    simp only [this, if_true]
    exact ⟨ContTail.last rest, by simp [payloads]⟩
  | succ k ih =>
    intro rest h
    rw [fragLoop]
    split
    · exact ⟨ContTail.last rest, by simp [payloads]⟩
    · have hl : (rest.drop (n + 1)).length ≤ k := by simp; omega
      have := ih _ hl
      refine ⟨ContTail.cons _ _ this.1, ?_⟩
      have h2 := this.2
      simp only [payloads, List.map_cons, List.flatten_cons] at h2 ⊢
      rw [h2]; simp [List.take_append_drop]

theorem fragLoop_tail (n op rsv : Nat) (rest : Bytes) :
    ContTail (fragLoop n op rsv false rest) ∧ payloads (fragLoop n op rsv false rest) = rest :=
  fragLoop_tail_aux n op rsv rest.length rest (Nat.le_refl _)

theorem fragLoop_train (n op rsv : Nat) (rest : Bytes) :
    Train op rsv (fragLoop n op rsv true rest) ∧ payloads (fragLoop n op rsv true rest) = rest := by
  rw [fragLoop]
  split
  · exact ⟨Or.inl ⟨rest, rfl⟩, by simp [payloads]⟩
  · have := fragLoop_tail n op rsv (rest.drop (n + 1))
    refine ⟨Or.inr ⟨_, _, rfl, this.1⟩, ?_⟩
    have h2 := this.2
    simp only [payloads, List.map_cons, List.flatten_cons, if_true] at h2 ⊢
    rw [h2, List.take_append_drop]

/-- **RSV1 on the first frame only** (and the opcode; continuation frames carry neither), whatever the
fragment size; the fragments concatenate to the payload. -/
theorem fragment_train (frag : Option Nat) (op rsv : Nat) (payload : Bytes) (fs : List Frame)
    (h : fragment frag op rsv payload = some fs) : Train op rsv fs ∧ payloads fs = payload := by
  unfold fragment at h
  split at h
  · cases h; exact ⟨Or.inl ⟨payload, rfl⟩, by simp [payloads, single]⟩
  · split at h
    · cases h; exact ⟨Or.inl ⟨payload, rfl⟩, by simp [payloads, single]⟩
    · split at h
      · cases h
      · cases h; exact fragLoop_train _ _ _ _

theorem contFrames_tail (ps : List Bytes) (last : Bytes) :
    ContTail (contFrames ps ++ [⟨true, 0, 0, last⟩])
    ∧ payloads (contFrames ps ++ [⟨true, 0, 0, last⟩]) = ps.flatten ++ last := by
  induction ps with
  | nil => exact ⟨ContTail.last last, by simp [payloads, contFrames]⟩
  | cons p ps ih =>
    refine ⟨by simpa [contFrames] using ContTail.cons p _ (by simpa [contFrames] using ih.1), ?_⟩
    have := ih.2
    simp only [payloads, contFrames, List.map_cons, List.map_append, List.flatten_cons, List.cons_append,
      List.flatten_append, List.map_map] at this ⊢
    rw [this]; simp

/-- a streamed message (`beginMessage`, frames, `endMessage`) with at least one frame is a train too -/
theorem stream_train (op rsv : Nat) (o : Bytes) (os : List Bytes) (last : Bytes) :
    Train op rsv ((⟨false, rsv, op, o⟩ :: contFrames os) ++ [⟨true, 0, 0, last⟩])
    ∧ payloads ((⟨false, rsv, op, o⟩ :: contFrames os) ++ [⟨true, 0, 0, last⟩]) = o ++ os.flatten ++ last := by
  have := contFrames_tail os last
  refine ⟨Or.inr ⟨o, _, rfl, this.1⟩, ?_⟩
  have h2 := this.2
  simp only [payloads, List.cons_append, List.map_cons, List.flatten_cons] at h2 ⊢
  rw [h2, List.append_assoc]

/-! ### the receiver on a train -/

def WireFrame.toFrame (wf : WireFrame) : Frame := ⟨wf.fin, wf.rsv, wf.opcode, wf.chunks.flatten⟩

/-- every chunk of every frame, in order: what `onFrameData` sees -/
def allChunks (ws : List WireFrame) : List Bytes := ws.flatMap (·.chunks)

theorem allChunks_flatten (ws : List WireFrame) : (allChunks ws).flatten = payloads (ws.map WireFrame.toFrame) := by
  induction ws with
  | nil => rfl
  | cons w ws ih =>
    simp only [allChunks, List.flatMap_cons, List.flatten_append, payloads, List.map_cons, List.flatten_cons,
      WireFrame.toFrame] at ih ⊢
    rw [ih]

theorem rxData_append (cflag : Bool) (dec : Option K.DSt) (acc : Bytes) (cs1 cs2 : List Bytes) :
    rxData cflag dec acc (cs1 ++ cs2) =
      match rxData cflag dec acc cs1 with
      | none => none
      | some (dec', acc') => rxData cflag dec' acc' cs2 := by
  induction cs1 generalizing dec acc with
  | nil => simp [rxData]
  | cons c cs ih =>
    simp only [List.cons_append, rxData]
    cases cflag with
    | false => simp [ih]
    | true =>
      simp only [if_true]
      cases dec with
      | none => rfl
      | some d =>
        simp only
        cases K.decompress d c with
        | none => rfl
        | some r => obtain ⟨d1, o⟩ := r; simp [ih]

theorem rxData_plain (dec : Option K.DSt) (acc : Bytes) (cs : List Bytes) :
    rxData false dec acc cs = some (dec, acc ++ cs.flatten) := by
  induction cs generalizing acc with
  | nil => simp [rxData]
  | cons c cs ih => simp [rxData, ih]

theorem rxData_compressed (d : K.DSt) (acc : Bytes) (cs : List Bytes) :
    rxData true (some d) acc cs =
      match K.feed d cs with
      | none => none
      | some (d', o) => some (some d', acc ++ o) := by
  induction cs generalizing d acc with
  | nil => simp [rxData, Codec.feed]
  | cons c cs ih =>
    simp only [rxData, if_true, Codec.feed]
    cases K.decompress d c with
    | none => rfl
    | some r =>
      obtain ⟨d1, o⟩ := r
      simp only [ih]
      cases K.feed d1 cs with
      | none => rfl
      | some r2 => obtain ⟨d2, o2⟩ := r2; simp

/-- `onFrameEnd` with FIN: finish the message -/
def finishMsg (r : Rx K) (dec2 : Option K.DSt) (acc2 : Bytes) : Option (Rx K × List (Bool × Bytes)) :=
  if r.compressed then
    match dec2 with
    | none => none
    | some d =>
      match K.decompress d tailBytes with
      | none => none
      | some (d3, _) => some ({ r with dec := some d3, inside := false, acc := [] }, [(r.bin, acc2)])
  else some ({ r with dec := dec2, inside := false, acc := [] }, [(r.bin, acc2)])

theorem headerOk_cont (fin : Bool) : headerOk true true fin 0 0 = true := by cases fin <;> rfl

/-- the receiver inside a message, given the rest of the train: all chunks go through `onFrameData` in order,
then the message is finished -/
theorem rx_conttail (r : Rx K) (ws : List WireFrame) (hp : r.pmce.isSome = true) (hi : r.inside = true)
    (h : ContTail (ws.map WireFrame.toFrame)) :
    rxAll r ws =
      match rxData r.compressed r.dec r.acc (allChunks ws) with
      | none => none
      | some (dec2, acc2) => finishMsg r dec2 acc2 := by
  generalize hfs : ws.map WireFrame.toFrame = fs at h
  induction h generalizing ws r with
  | last p =>
    obtain ⟨pm, dec, ins, cmp, bn, ac⟩ := r
    simp only at hi hp
    subst hi
    match ws, hfs with
    | [], hfs => simp at hfs
    | _ :: _ :: _, hfs => simp at hfs
    | [w], hfs =>
      simp only [List.map_cons, List.map_nil, List.cons.injEq, and_true] at hfs
      obtain ⟨wfin, wrsv, wop, wch⟩ := w
      simp only [WireFrame.toFrame, Frame.mk.injEq] at hfs
      obtain ⟨rfl, rfl, rfl, _⟩ := hfs
      have h7 : ¬ (0 > 7) := by omega
      simp only [rxAll, rxFrame, hp, headerOk_cont, allChunks, List.flatMap_cons, List.flatMap_nil,
        List.append_nil, Bool.not_true, Bool.false_eq_true, if_false, h7, if_true]
      cases hd : rxData cmp dec ac wch with
      | none => rfl
      | some res =>
        obtain ⟨dec2, acc2⟩ := res
        simp only [finishMsg]
        cases cmp with
        | false => simp [rxAll]
        | true =>
          simp only [if_true]
          cases dec2 with
          | none => rfl
          | some d =>
            simp only
            cases K.decompress d tailBytes with
            | none => rfl
            | some r3 => obtain ⟨d3, o3⟩ := r3; simp [rxAll]
  | cons p rest hrest ih =>
    obtain ⟨pm, dec, ins, cmp, bn, ac⟩ := r
    simp only at hi hp
    subst hi
    match ws, hfs with
    | [], hfs => simp at hfs
    | w :: ws', hfs =>
      simp only [List.map_cons, List.cons.injEq] at hfs
      obtain ⟨hw, hws⟩ := hfs
      obtain ⟨wfin, wrsv, wop, wch⟩ := w
      simp only [WireFrame.toFrame, Frame.mk.injEq] at hw
      obtain ⟨rfl, rfl, rfl, _⟩ := hw
      have h7 : ¬ (0 > 7) := by omega
      simp only [rxAll, rxFrame, hp, headerOk_cont, allChunks, List.flatMap_cons, Bool.not_true,
        Bool.false_eq_true, if_false, h7]
      rw [rxData_append]
      cases hd : rxData cmp dec ac wch with
      | none => rfl
      | some res =>
        obtain ⟨dec2, acc2⟩ := res
        simp only
        have := ih ⟨pm, dec2, true, cmp, bn, acc2⟩ ws' hp rfl hws
        simp only [allChunks] at this
        rw [this]
        cases rxData cmp dec2 acc2 (List.flatMap (fun x => x.chunks) ws') with
        | none => rfl
        | some res2 =>
          obtain ⟨d4, a4⟩ := res2
          simp only [finishMsg]
          cases cmp with
          | false => simp
          | true =>
            simp only [if_true]
            cases d4 with
            | none => rfl
            | some d =>
              simp only
              cases K.decompress d tailBytes with
              | none => rfl
              | some r3 => obtain ⟨d3, o3⟩ := r3; simp

/-- `onFrameBegin` of the first frame of a message -/
def beginMsg (b : Pmce) (r : Rx K) (rsv op : Nat) : Rx K :=
  if rsv == 4 then
    { r with inside := true, compressed := true, dec := some (startDecompress b r.dec), bin := op == 2, acc := [] }
  else { r with inside := true, compressed := false, bin := op == 2, acc := [] }

theorem headerOk_first (fin : Bool) (rsv op : Nat) (ho : op = 1 ∨ op = 2) (hr : rsv = 0 ∨ rsv = 4) :
    headerOk true false fin rsv op = true := by
  rcases ho with rfl | rfl <;> rcases hr with rfl | rfl <;> cases fin <;> rfl

/-- the receiver on a whole train -/
theorem rx_train (b : Pmce) (r : Rx K) (ws : List WireFrame) (op rsv : Nat)
    (hp : r.pmce = some b) (hi : r.inside = false) (ho : op = 1 ∨ op = 2) (hr : rsv = 0 ∨ rsv = 4)
    (h : Train op rsv (ws.map WireFrame.toFrame)) :
    rxAll r ws =
      match rxData (beginMsg b r rsv op).compressed (beginMsg b r rsv op).dec [] (allChunks ws) with
      | none => none
      | some (dec2, acc2) => finishMsg (beginMsg b r rsv op) dec2 acc2 := by
  obtain ⟨pm, dec, ins, cmp, bn, ac⟩ := r
  simp only at hi hp
  subst hi hp
  have h7 : ¬ (op > 7) := by omega
  rcases h with ⟨p, hfs⟩ | ⟨p, rest, hfs, hct⟩
  · match ws, hfs with
    | [], hfs => simp at hfs
    | _ :: _ :: _, hfs => simp at hfs
    | [w], hfs =>
      simp only [List.map_cons, List.map_nil, List.cons.injEq, and_true] at hfs
      obtain ⟨wfin, wrsv, wop, wch⟩ := w
      simp only [WireFrame.toFrame, Frame.mk.injEq] at hfs
      obtain ⟨rfl, rfl, rfl, _⟩ := hfs
      simp only [rxAll, rxFrame, Option.isSome_some, headerOk_first true wrsv wop ho hr, Bool.not_true,
        Bool.false_eq_true, if_false, h7, Bool.not_false, if_true, allChunks, List.flatMap_cons,
        List.flatMap_nil, List.append_nil, beginMsg]
      rcases hr with rfl | rfl
      · simp only [Nat.reduceBEq, Bool.false_eq_true, if_false]
        rw [rxData_plain]
        simp [finishMsg, rxAll]
      · simp only [BEq.rfl, if_true]
        cases rxData true (some (startDecompress b dec)) [] wch with
        | none => rfl
        | some res =>
          obtain ⟨dec2, acc2⟩ := res
          simp only [finishMsg, if_true]
          cases dec2 with
          | none => rfl
          | some d =>
            simp only
            cases K.decompress d tailBytes with
            | none => rfl
            | some r3 => obtain ⟨d3, o3⟩ := r3; simp [rxAll]
  · match ws, hfs with
    | [], hfs => simp at hfs
    | w :: ws', hfs =>
      simp only [List.map_cons, List.cons.injEq] at hfs
      obtain ⟨hw, hws⟩ := hfs
      obtain ⟨wfin, wrsv, wop, wch⟩ := w
      simp only [WireFrame.toFrame, Frame.mk.injEq] at hw
      obtain ⟨rfl, rfl, rfl, _⟩ := hw
      rw [← hws] at hct
      simp only [rxAll, rxFrame, Option.isSome_some, headerOk_first false wrsv wop ho hr, Bool.not_true,
        Bool.false_eq_true, if_false, h7, Bool.not_false, if_true, allChunks, List.flatMap_cons, beginMsg]
      rw [rxData_append]
      rcases hr with rfl | rfl
      · simp only [Nat.reduceBEq, Bool.false_eq_true, if_false]
        rw [rxData_plain]
        simp only [List.nil_append]
        rw [rx_conttail _ ws' rfl rfl hct]
        simp only [allChunks]
        cases rxData false dec wch.flatten (List.flatMap (fun x => x.chunks) ws') with
        | none => rfl
        | some res => obtain ⟨d4, a4⟩ := res; simp [finishMsg]
      · simp only [BEq.rfl, if_true]
        cases rxData true (some (startDecompress b dec)) [] wch with
        | none => rfl
        | some res =>
          obtain ⟨dec2, acc2⟩ := res
          simp only
          rw [rx_conttail _ ws' rfl rfl hct]
          simp only [allChunks]
          cases rxData true dec2 acc2 (List.flatMap (fun x => x.chunks) ws') with
          | none => rfl
          | some res =>
            obtain ⟨d4, a4⟩ := res
            simp only [finishMsg, if_true, Option.toList, List.nil_append]
            cases d4 with
            | none => rfl
            | some d =>
              simp only
              cases K.decompress d tailBytes with
              | none => rfl
              | some r3 => obtain ⟨d3, o3⟩ := r3; rfl

/-! ### one message end to end -/

/-- the octets re-appended by `end_decompress_message` are the RFC 7692 tail, and exactly as many octets are
stripped by `end_compress_message` (both read from the source by the translator) -/
theorem tail_strip_consistent : tailBytes = rfcTail ∧ stripLen = rfcTail.length := by decide

theorem strip_tail (body : Bytes) :
    (body ++ rfcTail).take ((body ++ rfcTail).length - stripLen) = body := by
  rw [tail_strip_consistent.2]
  simp

theorem rxAll_append (r : Rx K) (w1 w2 : List WireFrame) :
    rxAll r (w1 ++ w2) =
      match rxAll r w1 with
      | none => none
      | some (r1, ms1) =>
        match rxAll r1 w2 with
        | none => none
        | some (r2, ms2) => some (r2, ms1 ++ ms2) := by
  induction w1 generalizing r with
  | nil =>
    simp only [List.nil_append, rxAll]
    cases rxAll r w2 with
    | none => rfl
    | some x => obtain ⟨a, b⟩ := x; simp
  | cons w ws ih =>
    simp only [List.cons_append, rxAll]
    cases rxFrame r w with
    | none => rfl
    | some x =>
      obtain ⟨r1, m⟩ := x
      simp only [ih]
      cases rxAll r1 ws with
      | none => rfl
      | some y =>
        obtain ⟨r2, ms⟩ := y
        simp only
        cases rxAll r2 w2 with
        | none => rfl
        | some z => obtain ⟨r3, ms3⟩ := z; simp

/-- an uncompressed train is delivered verbatim and leaves the inflater alone -/
theorem rx_plain_train (b : Pmce) (r : Rx K) (ws : List WireFrame) (op : Nat)
    (hp : r.pmce = some b) (hi : r.inside = false) (ho : op = 1 ∨ op = 2)
    (h : Train op 0 (ws.map WireFrame.toFrame)) :
    ∃ r', rxAll r ws = some (r', [(op == 2, payloads (ws.map WireFrame.toFrame))])
      ∧ r'.pmce = some b ∧ r'.inside = false ∧ r'.dec = r.dec := by
  rw [rx_train b r ws op 0 hp hi ho (Or.inl rfl) h]
  simp only [beginMsg, Nat.reduceBEq, Bool.false_eq_true, if_false, rxData_plain, List.nil_append, finishMsg]
  refine ⟨{ r with inside := false, compressed := false, bin := op == 2, acc := [] }, ?_, hp, rfl, rfl⟩
  rw [allChunks_flatten]

/-- a compressed train whose chunks the inflater turns into `data`, followed by the tail -/
theorem rx_compressed_train (b : Pmce) (r : Rx K) (ws : List WireFrame) (op : Nat) (data : Bytes)
    (d1 d2 : K.DSt) (o : Bytes)
    (hp : r.pmce = some b) (hi : r.inside = false) (ho : op = 1 ∨ op = 2)
    (h : Train op 4 (ws.map WireFrame.toFrame))
    (hf : K.feed (startDecompress b r.dec) (allChunks ws) = some (d1, data))
    (ht : K.decompress d1 rfcTail = some (d2, o)) :
    ∃ r', rxAll r ws = some (r', [(op == 2, data)])
      ∧ r'.pmce = some b ∧ r'.inside = false ∧ r'.dec = some d2 := by
  rw [rx_train b r ws op 4 hp hi ho (Or.inr rfl) h]
  simp only [beginMsg, BEq.rfl, if_true, rxData_compressed, hf, List.nil_append, finishMsg,
    tail_strip_consistent.1, ht]
  exact ⟨_, rfl, hp, rfl, rfl⟩

/-- the two halves of one direction are in step: extension objects present, receiver between messages, and the
deflater/inflater either both not yet created or in sync -/
def InStep (L : K.Lawful) (a b : Pmce) (t : Tx K) (r : Rx K) : Prop :=
  t.pmce = some a ∧ r.pmce = some b ∧ r.inside = false ∧
  ((t.comp = none ∧ r.dec = none) ∨
    ∃ c d, t.comp = some c ∧ r.dec = some d ∧ L.Sync a.encWbits b.decWbits c d)

/-- the reset-or-keep decisions of the two ends produce a synced pair whenever the direction is compatible -/
theorem start_sync (L : K.Lawful) (a b : Pmce) (hc : dirCompatible a b) (comp : Option K.CSt) (dec : Option K.DSt)
    (h : (comp = none ∧ dec = none) ∨ ∃ c d, comp = some c ∧ dec = some d ∧ L.Sync a.encWbits b.decWbits c d) :
    L.Sync a.encWbits b.decWbits (startCompress a comp) (startDecompress b dec) := by
  rcases h with ⟨rfl, rfl⟩ | ⟨c, d, rfl, rfl, hs⟩
  · exact L.fresh _ _ _ hc.1
  · simp only [startCompress, startDecompress]
    cases hd : b.decNct with
    | true =>
      have := hc.2 hd
      simp only [this, if_true]
      exact L.fresh _ _ _ hc.1
    | false =>
      cases he : a.encNct with
      | true => simpa using L.enc_reset _ _ _ _ _ hs
      | false => simpa using hs

theorem compressAll_length (c : K.CSt) (ps : List Bytes) : (K.compressAll c ps).2.length = ps.length := by
  induction ps generalizing c with
  | nil => rfl
  | cons p ps ih => simp [Codec.compressAll, ih]

theorem fragment_isSome (frag : Option Nat) (op rsv : Nat) (p : Bytes) (h : frag ≠ some 0) :
    ∃ fs, fragment frag op rsv p = some fs := by
  unfold fragment
  split
  · exact ⟨_, rfl⟩
  · split
    · exact ⟨_, rfl⟩
    · split
      · exact absurd rfl h
      · exact ⟨_, rfl⟩

/-- receiving what a compressing sender emitted for one message (any API, any fragmentation, any segmentation) -/
theorem rx_of_compressed (L : K.Lawful) (a b : Pmce) (hc : dirCompatible a b) (t : Tx K) (r : Rx K)
    (hin : InStep L a b t r) (pieces : List Bytes) (op : Nat) (ho : op = 1 ∨ op = 2) (ws : List WireFrame)
    (htr : Train op 4 (ws.map WireFrame.toFrame))
    (hpl : payloads (ws.map WireFrame.toFrame) =
      (K.compressAll (startCompress a t.comp) pieces).2.flatten
        ++ (endCompress (K.compressAll (startCompress a t.comp) pieces).1).2) :
    ∃ r', rxAll r ws = some (r', [(op == 2, pieces.flatten)])
      ∧ InStep L a b { t with comp := some (endCompress (K.compressAll (startCompress a t.comp) pieces).1).1 } r' := by
  obtain ⟨hta, hrb, hri, hs⟩ := hin
  have hsync := start_sync L a b hc t.comp r.dec hs
  obtain ⟨body, hfl, hall⟩ := L.message _ _ _ _ pieces hsync
  have hbody : (endCompress (K.compressAll (startCompress a t.comp) pieces).1).2 = body := by
    simp only [endCompress, hfl, strip_tail]
  rw [hbody] at hpl
  obtain ⟨d1, hfeed, d2, o, htail, hs2⟩ := hall (allChunks ws) (by rw [allChunks_flatten, hpl])
  obtain ⟨r', hrx, hp', hi', hd'⟩ := rx_compressed_train b r ws op pieces.flatten d1 d2 o hrb hri ho htr hfeed htail
  exact ⟨r', hrx, hta, hp', hi', Or.inr ⟨_, d2, rfl, hd', by simpa [endCompress] using hs2⟩⟩

theorem opcodeOf_ok (bin : Bool) : opcodeOf bin = 1 ∨ opcodeOf bin = 2 := by cases bin <;> simp [opcodeOf]
theorem opcodeOf_bin (bin : Bool) : (opcodeOf bin == 2) = bin := by cases bin <;> rfl

/-- one message, sent through either API with no send limit, is delivered as sent and leaves the two halves
in step -/
theorem send_recv_one (L : K.Lawful) (a b : Pmce) (hc : dirCompatible a b) (t : Tx K) (r : Rx K)
    (hin : InStep L a b t r) (m : Msg) (hwf : m.wf) (ws : List WireFrame)
    (hw : ws.map WireFrame.toFrame = (sendOne t 0 m).2.1) :
    (sendOne t 0 m).2.2 = true ∧
    ∃ r', rxAll r ws = some (r', [(m.bin, m.data)]) ∧ InStep L a b (sendOne t 0 m).1 r' := by
  have hta := hin.1
  cases m with
  | whole bin dnc frag payload =>
    simp only [Msg.wf] at hwf
    cases dnc with
    | false =>
      obtain ⟨fs, hfs⟩ := fragment_isSome frag (opcodeOf bin) 4
        ((K.compress (startCompress a t.comp) payload).2
          ++ (endCompress (K.compress (startCompress a t.comp) payload).1).2) hwf
      have hso : sendOne t 0 (.whole bin false frag payload) =
          ({ t with comp := some (endCompress (K.compress (startCompress a t.comp) payload).1).1 }, fs, true) := by
        simp only [sendOne, sendMessage, hta, Nat.lt_irrefl, false_and, if_false, hfs]
      rw [hso] at hw ⊢
      obtain ⟨htr, hpl⟩ := fragment_train _ _ _ _ _ hfs
      simp only at hw
      rw [← hw] at htr hpl
      have := rx_of_compressed L a b hc t r hin [payload] (opcodeOf bin) (opcodeOf_ok bin) ws htr
        (by simpa [Codec.compressAll] using hpl)
      obtain ⟨r', h1, h2⟩ := this
      refine ⟨rfl, r', ?_, ?_⟩
      · simpa [opcodeOf_bin, Msg.bin, Msg.data] using h1
      · simpa [Codec.compressAll] using h2
    | true =>
      obtain ⟨fs, hfs⟩ := fragment_isSome frag (opcodeOf bin) 0 payload hwf
      have hso : sendOne t 0 (.whole bin true frag payload) = (t, fs, true) := by
        simp only [sendOne, sendMessage, hta, Nat.lt_irrefl, false_and, if_false, hfs]
      rw [hso] at hw ⊢
      obtain ⟨htr, hpl⟩ := fragment_train _ _ _ _ _ hfs
      simp only at hw
      rw [← hw] at htr hpl
      obtain ⟨hta', hrb, hri, hs⟩ := hin
      obtain ⟨r', h1, hp', hi', hd'⟩ := rx_plain_train b r ws (opcodeOf bin) hrb hri (opcodeOf_ok bin) htr
      refine ⟨rfl, r', ?_, hta', hp', hi', ?_⟩
      · simpa [opcodeOf_bin, Msg.bin, Msg.data, hpl] using h1
      · rw [hd']; exact hs
  | stream bin dnc pieces =>
    simp only [Msg.wf] at hwf
    cases dnc with
    | false =>
      have hlen := compressAll_length (startCompress a t.comp) pieces
      cases hout : (K.compressAll (startCompress a t.comp) pieces).2 with
      | nil =>
        rw [hout] at hlen
        cases pieces with
        | nil => exact absurd rfl hwf
        | cons _ _ => simp at hlen
      | cons o os =>
        have hso : sendOne t 0 (.stream bin false pieces) =
            ({ t with comp := some (endCompress (K.compressAll (startCompress a t.comp) pieces).1).1 },
             (⟨false, 4, opcodeOf bin, o⟩ :: contFrames os)
               ++ [⟨true, 0, 0, (endCompress (K.compressAll (startCompress a t.comp) pieces).1).2⟩], true) := by
          simp only [sendOne, sendStream, hta, hout]
        rw [hso] at hw ⊢
        obtain ⟨htr, hpl⟩ := stream_train (opcodeOf bin) 4 o os
          (endCompress (K.compressAll (startCompress a t.comp) pieces).1).2
        simp only at hw
        rw [← hw] at htr hpl
        have := rx_of_compressed L a b hc t r hin pieces (opcodeOf bin) (opcodeOf_ok bin) ws htr
          (by rw [hpl, hout]; simp)
        obtain ⟨r', h1, h2⟩ := this
        exact ⟨rfl, r', by simpa [opcodeOf_bin, Msg.bin, Msg.data] using h1, h2⟩
    | true =>
      cases pieces with
      | nil => exact absurd rfl hwf
      | cons o os =>
        have hso : sendOne t 0 (.stream bin true (o :: os)) =
            (t, (⟨false, 0, opcodeOf bin, o⟩ :: contFrames os) ++ [⟨true, 0, 0, []⟩], true) := by
          simp only [sendOne, sendStream, hta]
        rw [hso] at hw ⊢
        obtain ⟨htr, hpl⟩ := stream_train (opcodeOf bin) 0 o os []
        simp only at hw
        rw [← hw] at htr hpl
        obtain ⟨hta', hrb, hri, hs⟩ := hin
        obtain ⟨r', h1, hp', hi', hd'⟩ := rx_plain_train b r ws (opcodeOf bin) hrb hri (opcodeOf_ok bin) htr
        refine ⟨rfl, r', ?_, hta', hp', hi', ?_⟩
        · simpa [opcodeOf_bin, Msg.bin, Msg.data, hpl] using h1
        · rw [hd']; exact hs

/-- a whole sequence -/
theorem send_recv_all (L : K.Lawful) (a b : Pmce) (hc : dirCompatible a b) :
    ∀ (msgs : List Msg) (t : Tx K) (r : Rx K), InStep L a b t r → (∀ m ∈ msgs, m.wf) →
      ∀ ws : List WireFrame, ws.map WireFrame.toFrame = (sendAll t 0 msgs).2.1 →
        (sendAll t 0 msgs).2.2 = msgs.map (fun m => (m.bin, m.data)) ∧
        ∃ r', rxAll r ws = some (r', msgs.map (fun m => (m.bin, m.data)))
          ∧ InStep L a b (sendAll t 0 msgs).1 r' := by
  intro msgs
  induction msgs with
  | nil =>
    intro t r hin _ ws hw
    simp only [sendAll, List.map_eq_nil_iff] at hw
    subst hw
    exact ⟨rfl, r, rfl, hin⟩
  | cons m ms ih =>
    intro t r hin hwf ws hw
    simp only [sendAll] at hw ⊢
    obtain ⟨w1, w2, rfl, h1, h2⟩ := List.map_eq_append_iff.1 hw
    obtain ⟨hsent, r1, hrx1, hin1⟩ := send_recv_one L a b hc t r hin m (hwf m (List.mem_cons_self ..)) w1 h1
    obtain ⟨hs2, r2, hrx2, hin2⟩ := ih (sendOne t 0 m).1 r1 hin1 (fun x hx => hwf x (List.mem_cons_of_mem _ hx)) w2 h2
    refine ⟨by simp [hsent, hs2], r2, ?_, hin2⟩
    rw [rxAll_append, hrx1]
    simp only [hrx2, List.map_cons, List.singleton_append]

/-! ### shape of a train: RSV bits and opcodes -/

theorem ContTail.shape {fs : List Frame} (h : ContTail fs) : ∀ g ∈ fs, g.rsv = 0 ∧ g.opcode = 0 := by
  induction h with
  | last p => intro g hg; simp only [List.mem_singleton] at hg; subst hg; exact ⟨rfl, rfl⟩
  | cons p rest _ ih =>
    intro g hg
    rcases List.mem_cons.1 hg with rfl | hg
    · exact ⟨rfl, rfl⟩
    · exact ih g hg

theorem Train.shape {op rsv : Nat} {fs : List Frame} (h : Train op rsv fs) :
    ∃ f rest, fs = f :: rest ∧ f.rsv = rsv ∧ f.opcode = op ∧ ∀ g ∈ rest, g.rsv = 0 ∧ g.opcode = 0 := by
  rcases h with ⟨p, rfl⟩ | ⟨p, rest, rfl, hct⟩
  · exact ⟨_, [], rfl, rfl, rfl, by simp⟩
  · exact ⟨_, rest, rfl, rfl, rfl, hct.shape⟩

/-! ### a concrete lawful codec (non-vacuity of the contract, negation witnesses)

Context = a counter. A fresh deflater (counter 0) emits every octet `b` as `01 b`; a deflater with context `c ≠ 0`
emits `03 (b xor c)` — decodable only by an inflater holding the same counter. A sync flush emits `00 (c+1)`
followed by the RFC tail and moves the counter on; the inflater adopts the announced counter. -/

structure ToyD where
  cnt : UInt8
  phase : Nat
deriving DecidableEq, Repr

def toyEnc1 (c : UInt8) (b : UInt8) : Bytes := if c = 0 then [1, b] else [3, b ^^^ c]

def toyStep (d : ToyD) (x : UInt8) : Option (ToyD × Bytes) :=
  match d.phase with
  | 0 => if x = 1 then some ({ d with phase := 1 }, [])
         else if x = 3 then some ({ d with phase := 3 }, [])
         else if x = 0 then some ({ d with phase := 4 }, [])
         else none
  | 1 => some ({ d with phase := 0 }, [x])
  | 3 => some ({ d with phase := 0 }, [x ^^^ d.cnt])
  | 4 => some (⟨x, 5⟩, [])
  | 5 => if x = 0 then some ({ d with phase := 6 }, []) else none
  | 6 => if x = 0 then some ({ d with phase := 7 }, []) else none
  | 7 => if x = 0xff then some ({ d with phase := 8 }, []) else none
  | 8 => if x = 0xff then some ({ d with phase := 0 }, []) else none
  | _ => none

def toyRun : ToyD → Bytes → Option (ToyD × Bytes)
  | d, [] => some (d, [])
  | d, x :: xs =>
    match toyStep d x with
    | none => none
    | some (d1, o1) =>
      match toyRun d1 xs with
      | none => none
      | some (d2, o2) => some (d2, o1 ++ o2)

def toy : Codec where
  CSt := UInt8
  DSt := ToyD
  freshC := fun _ _ => 0
  freshD := fun _ => ⟨0, 0⟩
  compress := fun c bs => (c, bs.flatMap (toyEnc1 c))
  flush := fun c => (c + 1, [0, c + 1] ++ rfcTail)
  decompress := toyRun

theorem toyRun_append (d : ToyD) (x y : Bytes) :
    toyRun d (x ++ y) =
      match toyRun d x with
      | none => none
      | some (d1, o1) =>
        match toyRun d1 y with
        | none => none
        | some (d2, o2) => some (d2, o1 ++ o2) := by
  induction x generalizing d with
  | nil =>
    simp only [List.nil_append, toyRun]
    cases toyRun d y with
    | none => rfl
    | some r => obtain ⟨a, b⟩ := r; simp
  | cons a x ih =>
    simp only [List.cons_append, toyRun]
    cases toyStep d a with
    | none => rfl
    | some r =>
      obtain ⟨d1, o1⟩ := r
      simp only [ih]
      cases toyRun d1 x with
      | none => rfl
      | some r2 =>
        obtain ⟨d2, o2⟩ := r2
        simp only
        cases toyRun d2 y with
        | none => rfl
        | some r3 => obtain ⟨d3, o3⟩ := r3; simp

theorem toy_feed (d : ToyD) (cs : List Bytes) : toy.feed d cs = toyRun d cs.flatten := by
  induction cs generalizing d with
  | nil => rfl
  | cons c cs ih =>
    simp only [Codec.feed, List.flatten_cons, toyRun_append]
    have hdc : toy.decompress d c = toyRun d c := rfl
    rw [hdc]
    cases toyRun d c with
    | none => rfl
    | some r =>
      obtain ⟨d1, o1⟩ := r
      simp only [ih]
      cases toyRun d1 cs.flatten with
      | none => rfl
      | some r2 => obtain ⟨d2, o2⟩ := r2; rfl

theorem toy_decode (c : UInt8) (d : ToyD) (hp : d.phase = 0) (hc : c = 0 ∨ c = d.cnt) (bs : Bytes) :
    toyRun d (bs.flatMap (toyEnc1 c)) = some (d, bs) := by
  induction bs with
  | nil => rfl
  | cons b bs ih =>
    obtain ⟨cnt, ph⟩ := d
    simp only at hp hc
    subst hp
    simp only [List.flatMap_cons, toyRun_append, ih]
    by_cases h0 : c = 0
    · subst h0
      simp [toyEnc1, toyRun, toyStep, ih]
    · have : c = cnt := by rcases hc with h | h; exact absurd h h0; exact h
      subst this
      simp only [toyEnc1, h0, if_false, toyRun, toyStep]
      have h31 : ¬ ((3 : UInt8) = 1) := by decide
      have hx : b ^^^ c ^^^ c = b := by rw [UInt8.xor_assoc, UInt8.xor_self, UInt8.xor_zero]
      simp [h31, ih, hx]

theorem toy_compressAll (c : UInt8) (ps : List Bytes) :
    toy.compressAll c ps = (c, ps.map (fun p => p.flatMap (toyEnc1 c))) := by
  induction ps with
  | nil => rfl
  | cons p ps ih =>
    simp only [Codec.compressAll, List.map_cons]
    show (_, _) = _
    rw [show (toy.compress c p) = (c, p.flatMap (toyEnc1 c)) from rfl]
    simp only [ih]
    rfl

theorem flatten_map_flatMap (f : UInt8 → Bytes) (ps : List Bytes) :
    (ps.map (fun p => p.flatMap f)).flatten = ps.flatten.flatMap f := by
  induction ps with
  | nil => rfl
  | cons p ps ih => simp [ih]

/-- the toy codec satisfies the contract (window sizes play no role in it) -/
def toyLawful : toy.Lawful where
  Sync := fun _ _ (c : UInt8) (d : ToyD) => d.phase = 0 ∧ (c = 0 ∨ c = d.cnt)
  fresh := fun _ _ _ _ => ⟨rfl, Or.inl rfl⟩
  enc_reset := fun _ _ _ _ _ h => ⟨h.1, Or.inl rfl⟩
  message := by
    intro we wd (c : UInt8) (d : ToyD) pieces hs
    refine ⟨[0, c + 1], ?_, ?_⟩
    · rw [toy_compressAll]; rfl
    · intro chunks hch
      rw [toy_compressAll] at hch ⊢
      simp only at hch ⊢
      rw [flatten_map_flatMap] at hch
      obtain ⟨cnt, ph⟩ := d
      obtain ⟨hp, hc⟩ := hs
      simp only at hp hc
      subst hp
      refine ⟨⟨c + 1, 5⟩, ?_, ⟨c + 1, 0⟩, [], ?_, rfl, Or.inr rfl⟩
      · rw [toy_feed, hch, toyRun_append, toy_decode c ⟨cnt, 0⟩ rfl hc]
        simp [toyRun, toyStep]
        rfl
      · show toyRun _ _ = _
        simp [rfcTail, toyRun, toyStep]
        rfl

/-! ### with a send limit (`maxMessagePayloadSize > 0`): sends may be refused after compression -/

/-- in step up to a refused send: the deflater may have been dropped (after a refusal) while the inflater still holds
a context that was in sync with SOME deflater state — a fresh deflater is in sync with it again (`enc_reset`) -/
def InStepW (L : K.Lawful) (a b : Pmce) (t : Tx K) (r : Rx K) : Prop :=
  t.pmce = some a ∧ r.pmce = some b ∧ r.inside = false ∧
  ((t.comp = none ∧ (r.dec = none ∨ ∃ c d, r.dec = some d ∧ L.Sync a.encWbits b.decWbits c d)) ∨
    ∃ c d, t.comp = some c ∧ r.dec = some d ∧ L.Sync a.encWbits b.decWbits c d)

theorem InStep.toW {L : K.Lawful} {a b : Pmce} {t : Tx K} {r : Rx K} (h : InStep L a b t r) : InStepW L a b t r := by
  obtain ⟨h1, h2, h3, h4⟩ := h
  refine ⟨h1, h2, h3, ?_⟩
  rcases h4 with ⟨hc, hd⟩ | h
  · exact Or.inl ⟨hc, Or.inl hd⟩
  · exact Or.inr h

theorem start_syncW (L : K.Lawful) (a b : Pmce) (hc : dirCompatible a b) (comp : Option K.CSt) (dec : Option K.DSt)
    (h : (comp = none ∧ (dec = none ∨ ∃ c d, dec = some d ∧ L.Sync a.encWbits b.decWbits c d)) ∨
      ∃ c d, comp = some c ∧ dec = some d ∧ L.Sync a.encWbits b.decWbits c d) :
    L.Sync a.encWbits b.decWbits (startCompress a comp) (startDecompress b dec) := by
  rcases h with ⟨rfl, hd⟩ | h
  · rcases hd with rfl | ⟨c, d, rfl, hsy⟩
    · exact L.fresh _ _ _ hc.1
    · simp only [startCompress, startDecompress]
      cases hd : b.decNct with
      | true => simpa using L.fresh _ _ _ hc.1
      | false => simpa using L.enc_reset _ _ _ _ _ hsy
  · exact start_sync L a b hc comp dec (Or.inr h)

/-- `rx_of_compressed` from the weaker invariant; afterwards the halves are fully in step again -/
theorem rx_of_compressedW (L : K.Lawful) (a b : Pmce) (hc : dirCompatible a b) (t : Tx K) (r : Rx K)
    (hin : InStepW L a b t r) (pieces : List Bytes) (op : Nat) (ho : op = 1 ∨ op = 2) (ws : List WireFrame)
    (htr : Train op 4 (ws.map WireFrame.toFrame))
    (hpl : payloads (ws.map WireFrame.toFrame) =
      (K.compressAll (startCompress a t.comp) pieces).2.flatten
        ++ (endCompress (K.compressAll (startCompress a t.comp) pieces).1).2) :
    ∃ r', rxAll r ws = some (r', [(op == 2, pieces.flatten)])
      ∧ InStep L a b { t with comp := some (endCompress (K.compressAll (startCompress a t.comp) pieces).1).1 } r' := by
  obtain ⟨hta, hrb, hri, hs⟩ := hin
  have hsync := start_syncW L a b hc t.comp r.dec hs
  obtain ⟨body, hfl, hall⟩ := L.message _ _ _ _ pieces hsync
  have hbody : (endCompress (K.compressAll (startCompress a t.comp) pieces).1).2 = body := by
    simp only [endCompress, hfl, strip_tail]
  rw [hbody] at hpl
  obtain ⟨d1, hfeed, d2, o, htail, hs2⟩ := hall (allChunks ws) (by rw [allChunks_flatten, hpl])
  obtain ⟨r', hrx, hp', hi', hd'⟩ := rx_compressed_train b r ws op pieces.flatten d1 d2 o hrb hri ho htr hfeed htail
  exact ⟨r', hrx, hta, hp', hi', Or.inr ⟨_, d2, rfl, hd', by simpa [endCompress] using hs2⟩⟩

/-- what is left of `InStepW` when the sender drops its deflater and the receiver is untouched -/
theorem InStepW.drop {L : K.Lawful} {a b : Pmce} {t : Tx K} {r : Rx K} (h : InStepW L a b t r) :
    InStepW L a b { t with comp := none } r := by
  obtain ⟨h1, h2, h3, h4⟩ := h
  refine ⟨h1, h2, h3, Or.inl ⟨rfl, ?_⟩⟩
  rcases h4 with ⟨_, hd⟩ | ⟨c, d, _, hd, hs⟩
  · exact hd
  · exact Or.inr ⟨c, d, hd, hs⟩

/-- the receiver's inflater untouched: the invariant carries over -/
theorem InStepW.same_dec {L : K.Lawful} {a b : Pmce} {t : Tx K} {r r' : Rx K} (h : InStepW L a b t r)
    (hp : r'.pmce = some b) (hi : r'.inside = false) (hd : r'.dec = r.dec) : InStepW L a b t r' := by
  obtain ⟨h1, _, _, h4⟩ := h
  exact ⟨h1, hp, hi, by rw [hd]; exact h4⟩

theorem send_recv_one_limit (L : K.Lawful) (a b : Pmce) (hc : dirCompatible a b)
    (maxPayload : Nat) (t : Tx K) (r : Rx K) (hin : InStepW L a b t r)
    (m : Msg) (hwf : m.wf) (ws : List WireFrame)
    (hw : ws.map WireFrame.toFrame = (sendOne t maxPayload m).2.1) :
    ∃ r', rxAll r ws = some (r', if (sendOne t maxPayload m).2.2 then [(m.bin, m.data)] else [])
      ∧ InStepW L a b (sendOne t maxPayload m).1 r' := by
  have hta := hin.1
  have hrb := hin.2.1
  have hri := hin.2.2.1
  cases m with
  | whole bin dnc frag payload =>
    simp only [Msg.wf] at hwf
    cases dnc with
    | false =>
      obtain ⟨fs, hfs⟩ := fragment_isSome frag (opcodeOf bin) 4
        ((K.compress (startCompress a t.comp) payload).2
          ++ (endCompress (K.compress (startCompress a t.comp) payload).1).2) hwf
      by_cases hlim : 0 < maxPayload ∧ maxPayload <
          ((K.compress (startCompress a t.comp) payload).2
            ++ (endCompress (K.compress (startCompress a t.comp) payload).1).2).length
      · have hso : sendOne t maxPayload (.whole bin false frag payload) = ({ t with comp := none }, [], false) := by
          simp only [sendOne, sendMessage, hta, hlim, and_self, if_true]
        rw [hso] at hw ⊢
        simp only [List.map_eq_nil_iff] at hw
        subst hw
        exact ⟨r, by simp [rxAll], hin.drop⟩
      · have hso : sendOne t maxPayload (.whole bin false frag payload) =
            ({ t with comp := some (endCompress (K.compress (startCompress a t.comp) payload).1).1 }, fs, true) := by
          simp only [sendOne, sendMessage, hta, hlim, if_false, hfs]
        rw [hso] at hw ⊢
        obtain ⟨htr, hpl⟩ := fragment_train _ _ _ _ _ hfs
        simp only at hw
        rw [← hw] at htr hpl
        obtain ⟨r', h1, h2⟩ := rx_of_compressedW L a b hc t r hin [payload] (opcodeOf bin) (opcodeOf_ok bin)
          ws htr (by simpa [Codec.compressAll] using hpl)
        refine ⟨r', by simpa [opcodeOf_bin, Msg.bin, Msg.data] using h1, ?_⟩
        simpa [Codec.compressAll] using h2.toW
    | true =>
      obtain ⟨fs, hfs⟩ := fragment_isSome frag (opcodeOf bin) 0 payload hwf
      by_cases hlim : 0 < maxPayload ∧ maxPayload < payload.length
      · have hso : sendOne t maxPayload (.whole bin true frag payload) = (t, [], false) := by
          simp only [sendOne, sendMessage, hta, hlim, and_self, if_true]
        rw [hso] at hw ⊢
        simp only [List.map_eq_nil_iff] at hw
        subst hw
        exact ⟨r, by simp [rxAll], hin⟩
      · have hso : sendOne t maxPayload (.whole bin true frag payload) = (t, fs, true) := by
          simp only [sendOne, sendMessage, hta, hlim, if_false, hfs]
        rw [hso] at hw ⊢
        obtain ⟨htr, hpl⟩ := fragment_train _ _ _ _ _ hfs
        simp only at hw
        rw [← hw] at htr hpl
        obtain ⟨r', h1, hp', hi', hd'⟩ := rx_plain_train b r ws (opcodeOf bin) hrb hri (opcodeOf_ok bin) htr
        refine ⟨r', ?_, hin.same_dec hp' hi' hd'⟩
        simpa [opcodeOf_bin, Msg.bin, Msg.data, hpl] using h1
  | stream bin dnc pieces =>
    simp only [Msg.wf] at hwf
    cases dnc with
    | false =>
      have hlen := compressAll_length (startCompress a t.comp) pieces
      cases hout : (K.compressAll (startCompress a t.comp) pieces).2 with
      | nil =>
        rw [hout] at hlen
        cases pieces with
        | nil => exact absurd rfl hwf
        | cons _ _ => simp at hlen
      | cons o os =>
        have hso : sendOne t maxPayload (.stream bin false pieces) =
            ({ t with comp := some (endCompress (K.compressAll (startCompress a t.comp) pieces).1).1 },
             (⟨false, 4, opcodeOf bin, o⟩ :: contFrames os)
               ++ [⟨true, 0, 0, (endCompress (K.compressAll (startCompress a t.comp) pieces).1).2⟩], true) := by
          simp only [sendOne, sendStream, hta, hout]
        rw [hso] at hw ⊢
        obtain ⟨htr, hpl⟩ := stream_train (opcodeOf bin) 4 o os
          (endCompress (K.compressAll (startCompress a t.comp) pieces).1).2
        simp only at hw
        rw [← hw] at htr hpl
        obtain ⟨r', h1, h2⟩ := rx_of_compressedW L a b hc t r hin pieces (opcodeOf bin) (opcodeOf_ok bin)
          ws htr (by rw [hpl, hout]; simp)
        exact ⟨r', by simpa [opcodeOf_bin, Msg.bin, Msg.data] using h1, h2.toW⟩
    | true =>
      cases pieces with
      | nil => exact absurd rfl hwf
      | cons o os =>
        have hso : sendOne t maxPayload (.stream bin true (o :: os)) =
            (t, (⟨false, 0, opcodeOf bin, o⟩ :: contFrames os) ++ [⟨true, 0, 0, []⟩], true) := by
          simp only [sendOne, sendStream, hta]
        rw [hso] at hw ⊢
        obtain ⟨htr, hpl⟩ := stream_train (opcodeOf bin) 0 o os []
        simp only at hw
        rw [← hw] at htr hpl
        obtain ⟨r', h1, hp', hi', hd'⟩ := rx_plain_train b r ws (opcodeOf bin) hrb hri (opcodeOf_ok bin) htr
        refine ⟨r', ?_, hin.same_dec hp' hi' hd'⟩
        simpa [opcodeOf_bin, Msg.bin, Msg.data, hpl] using h1

theorem send_recv_all_limit (L : K.Lawful) (a b : Pmce) (hc : dirCompatible a b) (maxPayload : Nat) :
    ∀ (msgs : List Msg) (t : Tx K) (r : Rx K), InStepW L a b t r → (∀ m ∈ msgs, m.wf) →
      ∀ ws : List WireFrame, ws.map WireFrame.toFrame = (sendAll t maxPayload msgs).2.1 →
        ∃ r', rxAll r ws = some (r', (sendAll t maxPayload msgs).2.2) := by
  intro msgs
  induction msgs with
  | nil =>
    intro t r _ _ ws hw
    simp only [sendAll, List.map_eq_nil_iff] at hw
    subst hw
    exact ⟨r, rfl⟩
  | cons m ms ih =>
    intro t r hin hwf ws hw
    simp only [sendAll] at hw ⊢
    obtain ⟨w1, w2, rfl, h1, h2⟩ := List.map_eq_append_iff.1 hw
    obtain ⟨r1, hrx1, hin1⟩ := send_recv_one_limit L a b hc maxPayload t r hin m
      (hwf m (List.mem_cons_self ..)) w1 h1
    obtain ⟨r2, hrx2⟩ := ih (sendOne t maxPayload m).1 r1 hin1 (fun x hx => hwf x (List.mem_cons_of_mem _ hx)) w2 h2
    refine ⟨r2, ?_⟩
    rw [rxAll_append, hrx1]
    simp only [hrx2]

end Abverif.Pmce
