import Abverif.Model.Pmce
namespace Abverif.Pmce
end Abverif.Pmce
