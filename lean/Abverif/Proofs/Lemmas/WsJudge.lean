import Abverif.Proofs.Lemmas.WsData
import Abverif.Proofs.C02
/-
Refinement of the receive model to the whole-stream RFC 6455 judge (`WsSpec.judge`), part 1: one frame.
-/
namespace Abverif.Ws
open Abverif.WsSpec

/-- the model's header record for the parsed fixed part `h` and the octets behind the first two -/
def hdrRec (h : Hd) (rest2 : Bytes) : Hdr :=
  { opcode := h.opcode, fin := h.fin, rsv := h.rsv, length := h.plen rest2, mask := h.key rest2 }

theorem headerLen_hd (h : Hd) : headerLen h.masked h.len7 = 2 + h.extN + h.keyN := by
  unfold headerLen Hd.extN Hd.keyN; rfl

theorem extLenStep_ok (s : S) (l p : Nat) (h : extLenOk l p = true) : extLenStep s l p = (s, false) := by
  unfold extLenOk at h
  unfold extLenStep
  by_cases h1 : l = 126
  · subst h1
    simp only [if_true, decide_eq_true_eq] at h
    have : ¬ p < 126 := by omega
    simp [this]
  · by_cases h2 : l = 127
    · subst h2
      simp only [h1, if_true, if_false, Bool.and_eq_true, decide_eq_true_eq] at h
      have a : ¬ p > 0x7FFFFFFFFFFFFFFF := by omega
      have b : ¬ p < 65536 := by omega
      simp [a, b]
    · simp [h1, h2]

theorem maskOf_key (h : Hd) (rest2 : Bytes) (o0 o1 : UInt8) :
    maskOf h.masked (((o0 :: o1 :: rest2).drop (headerLen h.masked h.len7 - 4)).take 4) = h.key rest2 := by
  unfold maskOf Hd.key
  cases hm : h.masked with
  | false => simp
  | true =>
    have : headerLen true h.len7 - 4 = 2 + h.extN := by
      unfold headerLen Hd.extN; simp
    simp only [if_true, this]
    have e : (o0 :: o1 :: rest2).drop (2 + h.extN) = rest2.drop h.extN := by
      rw [Nat.add_comm]; rfl
    rw [e]
    generalize List.take 4 (List.drop h.extN rest2) = l
    rcases l with _ | ⟨a, _ | ⟨b, _ | ⟨c, _ | ⟨d, _ | ⟨e, t⟩⟩⟩⟩⟩ <;> rfl

/-- **header step, explicit**: a complete, legal header starts the frame -/
theorem processHeader_run (s : S) (o0 o1 : UInt8) (rest2 : Bytes)
    (hv : headerViolations s.cfg s.insideMessage (Hd.ofOctets o0 o1).fin (Hd.ofOctets o0 o1).rsv
      (Hd.ofOctets o0 o1).opcode (Hd.ofOctets o0 o1).masked (Hd.ofOctets o0 o1).len7 = [])
    (hlen : (Hd.ofOctets o0 o1).extN + (Hd.ofOctets o0 o1).keyN ≤ rest2.length)
    (hext : extLenOk (Hd.ofOctets o0 o1).len7 ((Hd.ofOctets o0 o1).plen rest2) = true) :
    processHeader s o0 o1 (o0 :: o1 :: rest2) =
      (onFrameBegin { s with cur := some (hdrRec (Hd.ofOctets o0 o1) rest2), ptr := 0,
                             unmask := (Hd.ofOctets o0 o1).masked && decide ((Hd.ofOctets o0 o1).plen rest2 > 0)
                                        && s.cfg.applyMask }
          (hdrRec (Hd.ofOctets o0 o1) rest2),
        rest2.drop ((Hd.ofOctets o0 o1).extN + (Hd.ofOctets o0 o1).keyN),
        decide ((Hd.ofOctets o0 o1).plen rest2 = 0)
          || decide ((rest2.drop ((Hd.ofOctets o0 o1).extN + (Hd.ofOctets o0 o1).keyN)).length > 0)) := by
  have hk := maskOf_key (Hd.ofOctets o0 o1) rest2 o0 o1
  have hh := headerLen_hd (Hd.ofOctets o0 o1)
  unfold processHeader
  unfold Hd.ofOctets at *
  simp only at *
  have hav : applyViolations s [] = (s, false) := rfl
  simp only [hv, hav, Bool.false_eq_true, if_false]
  have hl : (o0 :: o1 :: rest2).length ≥ headerLen (decide (o1.toNat / 128 = 1)) (o1.toNat % 128) := by
    rw [hh]; simp only [List.length_cons]; omega
  simp only [hl, if_true]
  have hext' : extLenStep s (o1.toNat % 128)
      (if o1.toNat % 128 < 126 then o1.toNat % 128
        else beNat (List.take (if o1.toNat % 128 = 126 then 2 else if o1.toNat % 128 = 127 then 8 else 0)
          (List.drop 2 (o0 :: o1 :: rest2)))) = (s, false) := by
    apply extLenStep_ok
    exact hext
  simp only [hext', Bool.false_eq_true, if_false]
  rw [hk, hh]
  have hd : (o0 :: o1 :: rest2).drop (2 + (Hd.extN ⟨decide (o0.toNat / 128 = 1), o0.toNat / 16 % 8, o0.toNat % 16,
      decide (o1.toNat / 128 = 1), o1.toNat % 128⟩) + (Hd.keyN ⟨decide (o0.toNat / 128 = 1), o0.toNat / 16 % 8,
      o0.toNat % 16, decide (o1.toNat / 128 = 1), o1.toNat % 128⟩))
      = rest2.drop ((Hd.extN ⟨decide (o0.toNat / 128 = 1), o0.toNat / 16 % 8, o0.toNat % 16,
      decide (o1.toNat / 128 = 1), o1.toNat % 128⟩) + (Hd.keyN ⟨decide (o0.toNat / 128 = 1), o0.toNat / 16 % 8,
      o0.toNat % 16, decide (o1.toNat / 128 = 1), o1.toNat % 128⟩)) := by
    rw [Nat.add_assoc, Nat.add_comm 2]; rfl
  rw [hd]
  rfl

/-! ### explicit forms of the data-frame steps on a connection that has not failed -/

/-- events of a log in the judge's vocabulary -/
def evsOf (log : List Out) : List Ev := log.filterMap evOfOut

/-- `onFrameBegin` for the first frame of a message: the message bookkeeping is reset -/
def openMsg (s : S) (h : Hdr) : S :=
  if !s.insideMessage then
    let s := { s with insideMessage := true, msgCompressed := s.cfg.pmce && h.rsv = 4 }
    let s :=
      if h.opcode = 1 && s.cfg.utf8validate then
        { s with utf8On := true, utf8 := .s0, utf8Ok := true, utf8Ends := true }
      else { s with utf8On := false }
    { s with msgBinary := h.opcode = 2, messageData := [], totalLen := 0 }
  else s

/-- the state after a data frame header that respects the limits -/
def dataBegin (s : S) (h : Hdr) : S :=
  { openMsg s h with frameData := [], totalLen := (openMsg s h).totalLen + h.length }

def overLimit (s : S) (h : Hdr) : Bool :=
  (0 < s.cfg.maxMsg && s.cfg.maxMsg < (dataBegin s h).totalLen) || (0 < s.cfg.maxFrame && s.cfg.maxFrame < h.length)

theorem openMsg_cfg (s : S) (h : Hdr) : (openMsg s h).cfg = s.cfg := by
  unfold openMsg; split
  · dsimp only; split <;> rfl
  · rfl

theorem openMsg_failed (s : S) (h : Hdr) : (openMsg s h).failedByMe = s.failedByMe := by
  unfold openMsg; split
  · dsimp only; split <;> rfl
  · rfl

theorem onFrameBegin_data_eq (s : S) (h : Hdr) (hop : ¬ h.opcode > 7) (hnf : s.failedByMe = false) :
    onFrameBegin s h = if overLimit s h then failConnection (dataBegin s h) 1009 else dataBegin s h := by
  unfold onFrameBegin
  simp only [hop, if_false]
  unfold onMessageFrameBegin
  have e : (if (!s.insideMessage) = true then
        (let s := { s with insideMessage := true, msgCompressed := s.cfg.pmce && h.rsv = 4 }
         let s :=
           if (h.opcode = 1 && s.cfg.utf8validate) = true then
             { s with utf8On := true, utf8 := .s0, utf8Ok := true, utf8Ends := true }
           else { s with utf8On := false }
         { s with msgBinary := h.opcode = 2, messageData := [], totalLen := 0 })
      else s) = openMsg s h := rfl
  simp only [e]
  have hf : (openMsg s h).failedByMe = false := by rw [openMsg_failed]; exact hnf
  have hc := openMsg_cfg s h
  unfold overLimit dataBegin
  simp only [hf, hc, Bool.not_false, if_true]
  by_cases h1 : (0 < s.cfg.maxMsg && s.cfg.maxMsg < (openMsg s h).totalLen + h.length) = true
  · simp [h1]
  · by_cases h2 : (0 < s.cfg.maxFrame && s.cfg.maxFrame < h.length) = true
    · simp [h1, h2]
    · simp [h1, h2]

/-- a connection that was failed: closed, marked, and nothing more delivered -/
def Failed (s s' : S) : Prop := s'.st = .closed ∧ s'.failedByMe = true ∧ evsOf s'.log = evsOf s.log

theorem evsOf_append (a b : List Out) : evsOf (a ++ b) = evsOf a ++ evsOf b := by
  simp [evsOf, List.filterMap_append]

theorem failConnection_Failed (s : S) (code : Nat) (hf : s.cfg.failByDrop = true) (hst : s.st ≠ .closed) :
    Failed s (failConnection s code) := by
  unfold failConnection
  simp only [hst, ne_eq, not_false_eq_true, if_true, hf]
  unfold dropConnection
  simp only [hst, ne_eq, not_false_eq_true, if_true]
  refine ⟨rfl, rfl, ?_⟩
  simp [S.emit, evsOf, List.filterMap_append, evOfOut]

theorem violation_Failed (s : S) (code : Nat) (hf : s.cfg.failByDrop = true) (hst : s.st ≠ .closed) :
    Failed s (violation s code).1 ∧ (violation s code).2 = true :=
  ⟨failConnection_Failed s code hf hst, hf⟩

theorem endDataFrame_eq (s : S) (hnf : s.failedByMe = false) (hp : s.tPingTimeout = none) :
    endDataFrame s = { s with messageData := s.messageData ++ s.frameData, frameData := [] } := by
  unfold endDataFrame
  simp [hnf, hp]

theorem endMessageStep_ok (s : S) (hnf : s.failedByMe = false)
    (hu : (s.utf8On && !s.msgCompressed && !s.utf8Ends) = false) :
    endMessageStep s =
      ({ s.emit (.onMessage s.messageData s.msgBinary s.msgCompressed) with
          messageData := [], insideMessage := false, cur := none }, true) := by
  unfold endMessageStep
  simp only [hu, Bool.false_eq_true, if_false, Bool.not_true]
  unfold resetMessage deliverMessage
  simp [hnf]

theorem endMessageStep_bad (s : S) (hf : s.cfg.failByDrop = true) (hst : s.st ≠ .closed)
    (hu : (s.utf8On && !s.msgCompressed && !s.utf8Ends) = true) :
    (endMessageStep s).2 = false ∧ Failed s (endMessageStep s).1 := by
  unfold endMessageStep
  have hv := violation_Failed s 1007 hf hst
  simp only [hu, if_true, hv.2, Bool.not_true, Bool.not_false]
  exact ⟨trivial, hv.1⟩

/-! ### the abstraction relation between the engine state and the judge's state -/

/-- the parts of the relation that do not change while frames are processed without failure -/
structure Quiet (c : Ctx) (s : S) : Prop where
  st : s.st = .opened
  nf : s.failedByMe = false
  lost : s.lost = false
  pp : s.pingPending = none
  pt : s.tPingTimeout = none
  fbd : s.cfg.failByDrop = true
  ctx : Ctx.ofCfg s.cfg = c

/-- the message bookkeeping of an open message agrees -/
structure MsgRel (s : S) (j : J) : Prop where
  binary : s.msgBinary = j.binary
  compressed : s.msgCompressed = j.compressed
  validate : s.utf8On = j.validate
  acc : s.messageData = j.acc
  total : s.totalLen = j.total
  notRej : j.utf8 ≠ .rej
  utf8 : (j.validate && !j.compressed) = true → s.utf8 = j.utf8 ∧ s.utf8Ends = decide (j.utf8 = .s0)

/-- between frames -/
structure Rel (c : Ctx) (s : S) (j : J) : Prop where
  q : Quiet c s
  cur : s.cur = none
  inside : s.insideMessage = j.inside
  evs : evsOf s.log = j.evs
  msg : j.inside = true → MsgRel s j

/-- inside a data frame whose header has been processed, before any payload octet -/
structure Mid (c : Ctx) (s : S) (j : J) (hdr : Hdr) (um : Bool) : Prop where
  q : Quiet c s
  cur : s.cur = some hdr
  ptr : s.ptr = 0
  unmask : s.unmask = um
  insideS : s.insideMessage = true
  insideJ : j.inside = true
  evs : evsOf s.log = j.evs
  msg : MsgRel s j
  fd : s.frameData = []

theorem ofCfg_fields (cfg : Cfg) (c : Ctx) (h : Ctx.ofCfg cfg = c) :
    c.pmce = cfg.pmce ∧ c.utf8validate = cfg.utf8validate ∧ c.maxMsg = cfg.maxMsg ∧ c.maxFrame = cfg.maxFrame ∧
    c.applyMask = cfg.applyMask := by
  subst h; simp [Ctx.ofCfg]

/-- D1: the state after a data-frame header (limits respected) against the judge's `enter` -/
theorem dataBegin_Mid (c : Ctx) (s : S) (j : J) (h : Hd) (rest2 : Bytes) (um : Bool) (hr : Rel c s j) :
    Mid c (dataBegin { s with cur := some (hdrRec h rest2), ptr := 0, unmask := um } (hdrRec h rest2))
      (j.enter c h (h.plen rest2)) (hdrRec h rest2) um := by
  have hc := ofCfg_fields s.cfg c hr.q.ctx
  cases hin : j.inside with
  | false =>
    have hins : s.insideMessage = false := by rw [hr.inside, hin]
    by_cases h1 : h.opcode = 1 <;> cases h2 : s.cfg.utf8validate <;>
      (refine ⟨⟨?_, ?_, ?_, ?_, ?_, ?_, ?_⟩, ?_, ?_, ?_, ?_, ?_, ?_, ⟨?_, ?_, ?_, ?_, ?_, ?_, ?_⟩, ?_⟩ <;>
        simp [dataBegin, openMsg, hdrRec, J.enter, hin, hins, h1, h2, hr.q.st, hr.q.nf, hr.q.lost, hr.q.pp, hr.q.pt,
          hr.q.fbd, hr.q.ctx, hr.evs, hc.1, hc.2.1] <;> rfl)
  | true =>
    have hins : s.insideMessage = true := by rw [hr.inside, hin]
    have hm := hr.msg hin
    refine ⟨⟨?_, ?_, ?_, ?_, ?_, ?_, ?_⟩, ?_, ?_, ?_, ?_, ?_, ?_, ⟨?_, ?_, ?_, ?_, ?_, ?_, ?_⟩, ?_⟩ <;>
      simp [dataBegin, openMsg, hdrRec, J.enter, hin, hins, hr.q.st, hr.q.nf, hr.q.lost, hr.q.pp, hr.q.pt,
        hr.q.fbd, hr.q.ctx, hr.evs, hm.binary, hm.compressed, hm.validate, hm.acc, hm.total, hm.notRej]
    intro a b; exact hm.utf8 (by simp [a, b])

/-- D2: the model's limit test is the judge's -/
theorem overLimit_eq (c : Ctx) (s : S) (j : J) (h : Hd) (rest2 : Bytes) (um : Bool) (hr : Rel c s j) :
    overLimit { s with cur := some (hdrRec h rest2), ptr := 0, unmask := um } (hdrRec h rest2)
      = ((0 < c.maxMsg && c.maxMsg < (j.enter c h (h.plen rest2)).total)
          || (0 < c.maxFrame && c.maxFrame < h.plen rest2)) := by
  have hm := dataBegin_Mid c s j h rest2 um hr
  have hc := ofCfg_fields s.cfg c hr.q.ctx
  unfold overLimit
  rw [hm.msg.total, hc.2.2.1, hc.2.2.2.1]
  rfl

/-- the unmasked payload octets as the judge computes them -/
theorem unmaskChunk_eq (c : Ctx) (s : S) (h : Hd) (rest2 chunk : Bytes) (hctx : Ctx.ofCfg s.cfg = c)
    (hp : s.ptr = 0)
    (hu : s.unmask = (h.masked && decide (h.plen rest2 > 0) && s.cfg.applyMask))
    (hlen : h.plen rest2 = 0 → chunk = []) :
    unmaskChunk s (hdrRec h rest2) chunk = unmaskAvail c (h.key rest2) chunk := by
  have hc := ofCfg_fields s.cfg c hctx
  unfold unmaskChunk unmaskAvail
  simp only [hdrRec, hu, hp, hc.2.2.2.2]
  cases hk : h.key rest2 with
  | none => simp
  | some k =>
    have hm : h.masked = true := by
      unfold Hd.key at hk
      cases hmm : h.masked with
      | true => rfl
      | false => simp [hmm] at hk
    by_cases hz : h.plen rest2 = 0
    · have := hlen hz
      subst this
      simp [hz, Abverif.Xor.spec, Abverif.Xor.specBytes]
    · have hpos : h.plen rest2 > 0 := Nat.pos_of_ne_zero hz
      cases ham : s.cfg.applyMask <;> simp [hm, hpos, ham]

/-! ### D3: the payload of a data frame -/

theorem Mid.validating {c : Ctx} {s : S} {j : J} {hdr : Hdr} {um : Bool} (hm : Mid c s j hdr um) :
    (s.utf8On && !s.msgCompressed) = (j.validate && !j.compressed) := by
  rw [hm.msg.validate, hm.msg.compressed]

/-- the judge's validator state after the payload octets `un` -/
def uAfter (j : J) (un : Bytes) : U8 := if j.validate && !j.compressed then u8run j.utf8 un else j.utf8

theorem consume_Mid_good (c : Ctx) (s : S) (j : J) (hdr : Hdr) (um : Bool) (chunk : Bytes) (hm : Mid c s j hdr um)
    (hd : ¬ hdr.opcode > 7) (hu : uAfter j (unmaskChunk s hdr chunk) ≠ .rej) :
    consume s hdr chunk = (afterChunk s chunk.length (unmaskChunk s hdr chunk), true) := by
  apply consume_data_good s hdr chunk hd
  intro hon
  rw [hm.validating] at hon
  unfold uAfter at hu
  simp only [hon, if_true] at hu
  unfold utf8Bad
  rw [(hm.msg.utf8 hon).1]
  simp [hu]

theorem consume_Mid_bad (c : Ctx) (s : S) (j : J) (hdr : Hdr) (um : Bool) (chunk : Bytes) (hm : Mid c s j hdr um)
    (hd : ¬ hdr.opcode > 7) (hu : uAfter j (unmaskChunk s hdr chunk) = .rej) :
    (consume s hdr chunk).2 = false ∧ Failed s (consume s hdr chunk).1 := by
  unfold uAfter at hu
  by_cases hon : (j.validate && !j.compressed) = true
  · simp only [hon, if_true] at hu
    have hne : unmaskChunk s hdr chunk ≠ [] := by
      intro he
      rw [he] at hu
      exact hm.msg.notRej hu
    have hbad : utf8Bad s (unmaskChunk s hdr chunk) = true := by
      unfold utf8Bad
      rw [(hm.msg.utf8 hon).1, hu]
      cases hx : unmaskChunk s hdr chunk with
      | nil => exact absurd hx hne
      | cons _ _ => rfl
    have hon' : (s.utf8On && !s.msgCompressed) = true := by rw [hm.validating]; exact hon
    unfold consume onFrameData
    simp only [hd, if_false]
    unfold utf8Step
    simp only [hon', if_true]
    have hbad' : utf8Bad { s with ptr := s.ptr + chunk.length } (unmaskChunk s hdr chunk) = true := hbad
    simp only [hbad', if_true]
    have hv := violation_Failed (setUtf8 { s with ptr := s.ptr + chunk.length } (unmaskChunk s hdr chunk)) 1007
      hm.q.fbd (by show s.st ≠ .closed; rw [hm.q.st]; decide)
    simp only [hv.2, Bool.not_true, Bool.false_eq_true, if_true, Bool.not_false]
    exact ⟨trivial, hv.1⟩
  · have hoff : (j.validate && !j.compressed) = false := by simpa using hon
    simp only [hoff, Bool.false_eq_true, if_false] at hu
    exact absurd hu hm.msg.notRej

/-! ### D4: the end of a data frame -/

/-- the judge's state after a complete data frame's payload -/
def _root_.Abverif.WsSpec.J.after (j : J) (un : Bytes) : J := { j with utf8 := uAfter j un, acc := j.acc ++ un }

theorem afterChunk_quiet (c : Ctx) (s : S) (n : Nat) (u : Bytes) (q : Quiet c s) : Quiet c (afterChunk s n u) := by
  refine ⟨?_, ?_, ?_, ?_, ?_, ?_, ?_⟩ <;> simp [afterChunk, q.st, q.nf, q.lost, q.pp, q.pt, q.fbd, q.ctx]

/-- the engine state after the whole payload of a data frame and `onMessageFrameEnd` -/
def frameDone (s : S) (n : Nat) (un : Bytes) : S := endDataFrame (afterChunk s n un)

theorem frameDone_eq (c : Ctx) (s : S) (j : J) (hdr : Hdr) (um : Bool) (n : Nat) (un : Bytes) (hm : Mid c s j hdr um) :
    frameDone s n un =
      { afterChunk s n un with messageData := s.messageData ++ un, frameData := [] } := by
  unfold frameDone
  have q := afterChunk_quiet c s n un hm.q
  rw [endDataFrame_eq _ q.nf q.pt]
  simp [afterChunk, hm.q.nf, hm.fd]

theorem frameDone_props (c : Ctx) (s : S) (j : J) (hdr : Hdr) (um : Bool) (n : Nat) (un : Bytes)
    (hm : Mid c s j hdr um) (hu : uAfter j un ≠ .rej) :
    Quiet c (frameDone s n un) ∧ (frameDone s n un).insideMessage = true ∧
    evsOf (frameDone s n un).log = j.evs ∧ MsgRel (frameDone s n un) (j.after un) ∧
    (frameDone s n un).log = s.log := by
  rw [frameDone_eq c s j hdr um n un hm]
  have hval := hm.validating
  refine ⟨⟨?_, ?_, ?_, ?_, ?_, ?_, ?_⟩, ?_, ?_, ⟨?_, ?_, ?_, ?_, ?_, ?_, ?_⟩, ?_⟩ <;>
    simp [afterChunk, J.after, hm.q.st, hm.q.nf, hm.q.lost, hm.q.pp, hm.q.pt, hm.q.fbd, hm.q.ctx, hm.insideS, hm.evs,
      hm.msg.binary, hm.msg.compressed, hm.msg.validate, hm.msg.acc, hm.msg.total]
  · exact hu
  · intro a b
    have hon : (j.validate && !j.compressed) = true := by simp [a, b]
    have hu8 := (hm.msg.utf8 hon).1
    simp [uAfter, a, b, hu8]

/-- the judge's state after the final frame of a message -/
def _root_.Abverif.WsSpec.J.deliver (j : J) : J :=
  { j with inside := false, acc := [], evs := j.evs ++ [.message j.acc j.binary j.compressed] }

theorem frameEnd_nofin (c : Ctx) (s : S) (j : J) (hdr : Hdr) (um : Bool) (n : Nat) (un : Bytes)
    (hm : Mid c s j hdr um) (hd : ¬ hdr.opcode > 7) (hu : uAfter j un ≠ .rej) (hfin : hdr.fin = false) :
    onFrameEnd (afterChunk s n un) hdr = ({ frameDone s n un with cur := none }, true) ∧
    Rel c { frameDone s n un with cur := none } (j.after un) := by
  have hp := frameDone_props c s j hdr um n un hm hu
  refine ⟨?_, ⟨?_, rfl, ?_, ?_, fun _ => ?_⟩⟩
  · unfold onFrameEnd
    simp only [hd, if_false, hfin, Bool.false_eq_true]
    rfl
  · exact ⟨hp.1.st, hp.1.nf, hp.1.lost, hp.1.pp, hp.1.pt, hp.1.fbd, hp.1.ctx⟩
  · show (frameDone s n un).insideMessage = (j.after un).inside
    rw [hp.2.1]; exact hm.insideJ.symm
  · exact hp.2.2.1
  · exact ⟨hp.2.2.2.1.binary, hp.2.2.2.1.compressed, hp.2.2.2.1.validate, hp.2.2.2.1.acc, hp.2.2.2.1.total,
      hp.2.2.2.1.notRej, hp.2.2.2.1.utf8⟩

/-- the end-of-message UTF-8 test of the engine is the judge's -/
theorem endsBad_eq (c : Ctx) (s : S) (j : J) (hdr : Hdr) (um : Bool) (n : Nat) (un : Bytes)
    (hm : Mid c s j hdr um) (hu : uAfter j un ≠ .rej) :
    ((frameDone s n un).utf8On && !(frameDone s n un).msgCompressed && !(frameDone s n un).utf8Ends)
      = ((j.after un).validate && !(j.after un).compressed && decide (uAfter j un ≠ .s0)) := by
  have hp := frameDone_props c s j hdr um n un hm hu
  have hmr := hp.2.2.2.1
  rw [hmr.validate, hmr.compressed]
  by_cases hon : ((j.after un).validate && !(j.after un).compressed) = true
  · have := (hmr.utf8 hon).2
    rw [this]
    simp [J.after]
    rfl
  · have hoff : ((j.after un).validate && !(j.after un).compressed) = false := by simpa using hon
    simp [hoff]

theorem frameEnd_fin_bad (c : Ctx) (s : S) (j : J) (hdr : Hdr) (um : Bool) (n : Nat) (un : Bytes)
    (hm : Mid c s j hdr um) (hd : ¬ hdr.opcode > 7) (hu : uAfter j un ≠ .rej) (hfin : hdr.fin = true)
    (hb : ((j.after un).validate && !(j.after un).compressed && decide (uAfter j un ≠ .s0)) = true) :
    (onFrameEnd (afterChunk s n un) hdr).2 = false ∧ Failed s (onFrameEnd (afterChunk s n un) hdr).1 := by
  have hp := frameDone_props c s j hdr um n un hm hu
  have he := endsBad_eq c s j hdr um n un hm hu
  have h1 : onFrameEnd (afterChunk s n un) hdr = endMessageStep (frameDone s n un) := by
    unfold onFrameEnd
    simp only [hd, if_false, hfin, if_true]
    rfl
  rw [h1]
  have hb2 := endMessageStep_bad (frameDone s n un) hp.1.fbd (by rw [hp.1.st]; decide) (by rw [he]; exact hb)
  refine ⟨hb2.1, hb2.2.1, hb2.2.2.1, ?_⟩
  rw [hb2.2.2.2, hp.2.2.2.2]

theorem frameEnd_fin_ok (c : Ctx) (s : S) (j : J) (hdr : Hdr) (um : Bool) (n : Nat) (un : Bytes)
    (hm : Mid c s j hdr um) (hd : ¬ hdr.opcode > 7) (hu : uAfter j un ≠ .rej) (hfin : hdr.fin = true)
    (hb : ((j.after un).validate && !(j.after un).compressed && decide (uAfter j un ≠ .s0)) = false) :
    ∃ s', onFrameEnd (afterChunk s n un) hdr = (s', true) ∧ Rel c s' (j.after un).deliver := by
  have hp := frameDone_props c s j hdr um n un hm hu
  have he := endsBad_eq c s j hdr um n un hm hu
  have h1 : onFrameEnd (afterChunk s n un) hdr = endMessageStep (frameDone s n un) := by
    unfold onFrameEnd
    simp only [hd, if_false, hfin, if_true]
    rfl
  rw [h1, endMessageStep_ok (frameDone s n un) hp.1.nf (by rw [he]; exact hb)]
  refine ⟨_, rfl, ⟨?_, rfl, rfl, ?_, fun hx => ?_⟩⟩
  · exact ⟨hp.1.st, hp.1.nf, hp.1.lost, hp.1.pp, hp.1.pt, hp.1.fbd, hp.1.ctx⟩
  · show evsOf ((frameDone s n un).log ++ [_]) = _
    rw [evsOf_append, hp.2.2.1, hp.2.2.2.1.acc, hp.2.2.2.1.binary, hp.2.2.2.1.compressed]
    rfl
  · simp [J.deliver] at hx

/-- **the payload step of a data frame** against the judge's cases -/
theorem payload_refines (c : Ctx) (s : S) (j : J) (hdr : Hdr) (um : Bool) (body : Bytes) (hm : Mid c s j hdr um)
    (hd : ¬ hdr.opcode > 7) :
    (uAfter j (unmaskChunk s hdr (body.take hdr.length)) = .rej →
      (processPayload s hdr body).2.2 = false ∧ Failed s (processPayload s hdr body).1) ∧
    (uAfter j (unmaskChunk s hdr (body.take hdr.length)) ≠ .rej → body.length < hdr.length →
      processPayload s hdr body
        = (afterChunk s body.length (unmaskChunk s hdr (body.take hdr.length)), [], false)) ∧
    (uAfter j (unmaskChunk s hdr (body.take hdr.length)) ≠ .rej → hdr.length ≤ body.length → hdr.fin = false →
      processPayload s hdr body
        = ({ frameDone s hdr.length (unmaskChunk s hdr (body.take hdr.length)) with cur := none },
            body.drop hdr.length, decide ((body.drop hdr.length).length > 0)) ∧
      Rel c { frameDone s hdr.length (unmaskChunk s hdr (body.take hdr.length)) with cur := none }
        (j.after (unmaskChunk s hdr (body.take hdr.length)))) ∧
    (uAfter j (unmaskChunk s hdr (body.take hdr.length)) ≠ .rej → hdr.length ≤ body.length → hdr.fin = true →
      ((j.after (unmaskChunk s hdr (body.take hdr.length))).validate
        && !(j.after (unmaskChunk s hdr (body.take hdr.length))).compressed
        && decide (uAfter j (unmaskChunk s hdr (body.take hdr.length)) ≠ .s0)) = true →
      (processPayload s hdr body).2.2 = false ∧ Failed s (processPayload s hdr body).1) ∧
    (uAfter j (unmaskChunk s hdr (body.take hdr.length)) ≠ .rej → hdr.length ≤ body.length → hdr.fin = true →
      ((j.after (unmaskChunk s hdr (body.take hdr.length))).validate
        && !(j.after (unmaskChunk s hdr (body.take hdr.length))).compressed
        && decide (uAfter j (unmaskChunk s hdr (body.take hdr.length)) ≠ .s0)) = false →
      ∃ s', processPayload s hdr body = (s', body.drop hdr.length, decide ((body.drop hdr.length).length > 0)) ∧
        Rel c s' (j.after (unmaskChunk s hdr (body.take hdr.length))).deliver) := by
  rw [processPayload_finish, hm.ptr, Nat.sub_zero]
  generalize hun : unmaskChunk s hdr (body.take hdr.length) = un
  refine ⟨?_, ?_, ?_, ?_, ?_⟩
  · intro hu
    have hb := consume_Mid_bad c s j hdr um (body.take hdr.length) hm hd (by rw [hun]; exact hu)
    rw [finishPayload_false _ _ _ hb.1]
    exact ⟨rfl, hb.2⟩
  · intro hu hlt
    have hg := consume_Mid_good c s j hdr um (body.take hdr.length) hm hd (by rw [hun]; exact hu)
    rw [hg, hun]
    have hl : (body.take hdr.length).length = body.length := by
      rw [List.length_take]; omega
    have hne : (afterChunk s (body.take hdr.length).length un).ptr ≠ hdr.length := by
      simp [afterChunk, hm.ptr, hl]; omega
    unfold finishPayload
    simp only [Bool.not_true, Bool.false_eq_true, if_false, hne]
    rw [hl, List.drop_of_length_le (Nat.le_of_lt hlt)]
    simp
  · intro hu hle hfin
    have hg := consume_Mid_good c s j hdr um (body.take hdr.length) hm hd (by rw [hun]; exact hu)
    have hl : (body.take hdr.length).length = hdr.length := by
      rw [List.length_take]; omega
    have hpe : (afterChunk s hdr.length un).ptr = hdr.length := by simp [afterChunk, hm.ptr]
    have fe := frameEnd_nofin c s j hdr um hdr.length un hm hd hu hfin
    rw [hg, hun, hl]
    unfold finishPayload
    simp only [Bool.not_true, Bool.false_eq_true, if_false, hpe, if_true, fe.1]
    exact ⟨trivial, fe.2⟩
  · intro hu hle hfin hb
    have hg := consume_Mid_good c s j hdr um (body.take hdr.length) hm hd (by rw [hun]; exact hu)
    have hl : (body.take hdr.length).length = hdr.length := by
      rw [List.length_take]; omega
    have hpe : (afterChunk s hdr.length un).ptr = hdr.length := by simp [afterChunk, hm.ptr]
    have fe := frameEnd_fin_bad c s j hdr um hdr.length un hm hd hu hfin hb
    rw [hg, hun, hl]
    unfold finishPayload
    simp only [Bool.not_true, Bool.false_eq_true, if_false, hpe, if_true, fe.1, Bool.not_false]
    exact ⟨trivial, fe.2⟩
  · intro hu hle hfin hb
    have hg := consume_Mid_good c s j hdr um (body.take hdr.length) hm hd (by rw [hun]; exact hu)
    have hl : (body.take hdr.length).length = hdr.length := by
      rw [List.length_take]; omega
    have hpe : (afterChunk s hdr.length un).ptr = hdr.length := by simp [afterChunk, hm.ptr]
    obtain ⟨s', e1, hr⟩ := frameEnd_fin_ok c s j hdr um hdr.length un hm hd hu hfin hb
    rw [hg, hun, hl]
    unfold finishPayload
    simp only [Bool.not_true, Bool.false_eq_true, if_false, hpe, if_true, e1]
    exact ⟨s', rfl, hr⟩

/-! ### agreement of a final engine state with a verdict of the judge -/

/-- what the verdict says about the engine: `ok` — still OPEN, nothing failed; `fail` — the connection was failed
and dropped (the status code is not observable when failing by drop); `closedByPeer` — the peer's close frame was
taken in: code and reason recorded, the close is clean, the server has dropped / the client waits for the drop.
For a client the claim is made only when nothing follows the close frame (known finding
`client-processes-data-after-peer-close`: the code keeps reading). -/
def Agree (c : Ctx) (s' : S) (evs : List Ev) (v : Verdict) (restlen : Nat) : Prop :=
  match v with
  | .ok => evsOf s'.log = evs ∧ s'.st = .opened ∧ s'.failedByMe = false
  | .fail _ => evsOf s'.log = evs ∧ s'.st = .closed ∧ s'.failedByMe = true
  | .closedByPeer =>
    (c.isServer = true ∨ restlen = 0) →
      evsOf s'.log ++ [.close s'.remoteCloseCode s'.remoteCloseReason] = evs ∧ s'.wasClean = true ∧
      s'.failedByMe = false ∧ s'.st = (if c.isServer then .closed else .closing)

theorem Agree.of_Failed (c : Ctx) (s s' : S) (evs : List Ev) (code r : Nat) (h : Failed s s') (he : evsOf s.log = evs) :
    Agree c s' evs (.fail code) r := ⟨by rw [h.2.2, he], h.1, h.2.1⟩

theorem drain_one (F : Nat) (s : S) (buf : Bytes) :
    drain (F + 1) s buf =
      if (processData s buf).2.2 && decide ((processData s buf).1.st ≠ .closed)
      then drain F (processData s buf).1 (processData s buf).2.1
      else ((processData s buf).1, (processData s buf).2.1) := by
  rw [drain]

theorem processData_none (s : S) (o0 o1 : UInt8) (rest2 : Bytes) (hc : s.cur = none) :
    processData s (o0 :: o1 :: rest2) = processHeader s o0 o1 (o0 :: o1 :: rest2) := by
  unfold processData; simp [hc]

theorem processData_some (s : S) (h : Hdr) (buf : Bytes) (hc : s.cur = some h) :
    processData s buf = processPayload s h buf := by
  unfold processData; simp [hc]

theorem processData_short (s : S) (buf : Bytes) (hc : s.cur = none) (hl : buf.length < 2) :
    processData s buf = (s, buf, false) := by
  unfold processData
  match buf, hl with
  | [], _ => simp [hc]
  | [_], _ => simp [hc]

end Abverif.Ws
