import Abverif.Model.Pmce
/- C12 round trip, offers, slice accept_no_context_takeover=true, accept_max_window_bits=false (kernel-checked) -/
namespace Abverif.Pmce
theorem parse_render_offer_slice2 : ∀ o ∈ Offer.slice true false, o.reparse = some o.normalize := by
  decide +kernel
end Abverif.Pmce
