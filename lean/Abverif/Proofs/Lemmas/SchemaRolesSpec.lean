import Abverif.Proofs.Lemmas.SchemaStrict
/-
HELLO / WELCOME `roles`: the parse model accepts a roles value iff the Spec `rolesAccept` does (C08).
-/
namespace Abverif.Wamp
open Schema

def isOkB (r : Except Err α) : Bool :=
  match r with
  | .ok _ => true
  | .error _ => false

theorem isOkB_bind_pure {x : Except Err α} (f : α → β) : isOkB (x >>= fun a => pure (f a)) = isOkB x := by
  cases x <;> rfl

theorem featBad_eq (fd : Dict) (f : Str) : featBad fd f = !featureValueOk (Dict.get? fd f) := by
  unfold featBad featureValueOk
  cases h : Dict.get? fd f with
  | none => rfl
  | some v => cases v <;> rfl

theorem featuresCheck_isOk (site : Str) (known : List Str) (fd : Dict) :
    isOkB (featuresCheck site known fd) = featuresAccept known fd := by
  unfold featuresCheck featuresAccept
  by_cases hb : known.any (featBad fd) = true
  · simp only [hb, if_true, fail, isOkB]
    symm
    rw [Bool.eq_false_iff]
    intro hall
    rw [List.any_eq_true] at hb
    obtain ⟨f, hf, hbad⟩ := hb
    have := List.all_eq_true.mp hall f hf
    rw [featBad_eq, this] at hbad
    simp at hbad
  · have hb' : known.any (featBad fd) = false := by
      cases hc : known.any (featBad fd) with
      | true => exact absurd hc hb
      | false => rfl
    simp only [hb', Bool.false_eq_true, if_false, isOkB]
    symm
    rw [List.all_eq_true]
    intro f hf
    have := (List.any_eq_false.mp hb') f hf
    rw [featBad_eq] at this
    simpa using this

theorem rolesLoop_isOk (site : Str) (allowed : List Str) (feats : List (Str × List Str)) :
    ∀ dr : Dict, isOkB (rolesLoop site allowed feats dr) = dr.all (roleEntryAccept allowed feats) := by
  intro dr
  induction dr with
  | nil => rfl
  | cons rv t ih =>
    obtain ⟨role, v⟩ := rv
    simp only [List.all_cons]
    unfold rolesLoop
    by_cases hr : strMem role allowed = true
    · simp only [hr, Bool.not_true, Bool.false_eq_true, if_false, roleEntryAccept, Bool.true_and]
      cases v with
      | dict drole =>
        simp only
        cases hg : Dict.get? drole cs!"features" with
        | none =>
          simp only [Bool.true_and]
          rw [← ih]
          cases rolesLoop site allowed feats t <;> rfl
        | some fv =>
          cases fv with
          | dict fd =>
            simp only
            rw [← featuresCheck_isOk site, ← ih]
            cases featuresCheck site (roleKnown feats role) fd <;>
              cases rolesLoop site allowed feats t <;> rfl
          | _ => simp [fail, isOkB]
      | _ => simp [fail, isOkB]
    · have hr' : strMem role allowed = false := by
        cases hc : strMem role allowed with
        | true => exact absurd hc hr
        | false => rfl
      simp [hr', fail, isOkB, roleEntryAccept]

/-- **the parse model accepts a `roles` value iff the Spec does** — for HELLO (client roles) and WELCOME (router
roles) alike, with the role and feature names regenerated from message.py / role.py -/
theorem rolesCheck_isOk_iff (site : Str) (allowed : List Str) (feats : List (Str × List Str)) (v : WVal) :
    isOkB (rolesCheck site allowed feats v) = rolesAccept allowed feats v := by
  unfold rolesCheck rolesAccept
  cases v with
  | dict dr =>
    cases dr with
    | nil => rfl
    | cons rv t =>
      simp only
      rw [← rolesLoop_isOk site]
      cases rolesLoop site allowed feats (rv :: t) <;> rfl
  | _ => rfl

/-- every step of a successful `parseOpts` succeeded on its own -/
theorem parseOpts_steps_ok {O : Oracles} {d : Dict} :
    ∀ (ss : List OptStep) (om : Msg), parseOpts O d ss = .ok om → ∀ s ∈ ss, ∃ v, s.parse O d = .ok v := by
  intro ss
  induction ss with
  | nil => intro om _ s hs; cases hs
  | cons s t ih =>
    intro om h q hq
    simp only [parseOpts] at h
    obtain ⟨v, hv, h⟩ := bind_eq_ok h
    obtain ⟨rest, hrest, _⟩ := bind_eq_ok h
    rcases List.mem_cons.mp hq with rfl | hq
    · exact ⟨v, hv⟩
    · exact ih rest hrest q hq

/-- a message class with a mandatory `roles` entry accepts only inputs whose details carry a `roles` value that the
Spec accepts -/
theorem parse_roles_spec (σ : Schema) (O : Oracles) (w : List WVal) (m : Msg) (h : σ.parse O w = .ok m)
    (s : OptStep) (hs : s ∈ σ.opts) (allowed : List Str) (feats : List (Str × List Str))
    (hty : s.ty = .roles allowed feats) (hreq : s.required = true) :
    ∃ rv, Dict.get? (σ.optsOf w) s.key = some rv ∧ rolesAccept allowed feats rv = true := by
  unfold Schema.parse at h
  obtain ⟨m', hps, _⟩ := bind_eq_ok h
  replace hps := (parseStage_fields hps).1
  unfold Schema.parseFields at hps
  split at hps
  · simp [fail] at hps
  obtain ⟨pm, _, hps⟩ := bind_eq_ok hps
  obtain ⟨tm, _, hps⟩ := bind_eq_ok hps
  obtain ⟨om, hom, _⟩ := bind_eq_ok hps
  obtain ⟨v, hv⟩ := parseOpts_steps_ok σ.opts om hom s hs
  unfold OptStep.parse at hv
  cases hg : Dict.get? (σ.optsOf w) s.key with
  | none => rw [hg] at hv; simp [hreq, fail] at hv
  | some rv =>
    rw [hg] at hv
    simp only [hty, OTy.check] at hv
    refine ⟨rv, rfl, ?_⟩
    rw [← rolesCheck_isOk_iff s.field, hv]
    rfl

end Abverif.Wamp
