import Abverif.Proofs.Lemmas.SessBasic
/-
Generic lifting of a step relation through the nested / recursive parts of the session model.
-/
namespace Abverif.Session
open Abverif.SessCodes

/-- A step relation `R s o s'` (state `s` goes to `s'` emitting `o`) with the closure properties that let it be
lifted through the nested/recursive parts of the model (`runCalls`, `runAct`, `dispatch`, `rejectList`, `run`). -/
structure Lift (R : Sess → List SOut → Sess → Prop) (P : Sess → Prop) : Prop where
  refl : ∀ {s}, P s → R s [] s
  trans : ∀ {s1 o1 s2 o2 s3}, R s1 o1 s2 → R s2 o2 s3 → R s1 (o1 ++ o2) s3
  post : ∀ {s o s'}, P s → R s o s' → P s'
  caught : ∀ {s o s'}, R s o s' → R s (o.map toCaught) s'
  api : ∀ {s} a, P s → R s (apiStep s a).2 (apiStep s a).1
  userError : ∀ {s}, P s → R s (emitCb s .userError).2 (emitCb s .userError).1
  invoke : ∀ {s : Sess} {sub : Nat} {r : SubRec} (args : Args) (kw : List (Key × KwVal)), P s →
    ((alookup sub s.subs).getD []).any (·.obj == r.obj) = true → R s [.invoke r.obj r.h args kw] s

variable {R : Sess → List SOut → Sess → Prop} {P : Sess → Prop}

theorem runCalls_nil (s : Sess) (self : Option FutId) : runCalls s self [] = (s, []) := rfl

theorem runCalls_api (s : Sess) (self : Option FutId) (a : Api) (cs : List HCall) :
    runCalls s self (.api a :: cs) =
      ((runCalls (apiStep s a).1 self cs).1, (apiStep s a).2.map toCaught ++ (runCalls (apiStep s a).1 self cs).2) := rfl

theorem runCalls_self_some (s : Sess) (o : FutId) (cs : List HCall) :
    runCalls s (some o) (.unsubSelf :: cs) =
      ((runCalls (apiStep s (.unsubscribe o .ok)).1 (some o) cs).1,
       (apiStep s (.unsubscribe o .ok)).2.map toCaught ++ (runCalls (apiStep s (.unsubscribe o .ok)).1 (some o) cs).2) := rfl

theorem runCalls_self_none (s : Sess) (cs : List HCall) :
    runCalls s none (.unsubSelf :: cs) = runCalls s none cs := rfl

theorem Lift.runCalls (L : Lift R P) {s : Sess} (hs : P s) (self : Option FutId) (cs : List HCall) :
    R s (runCalls s self cs).2 (runCalls s self cs).1 := by
  induction cs generalizing s with
  | nil => exact L.refl hs
  | cons c cs ih =>
    cases c with
    | api a =>
      rw [runCalls_api]
      have h1 := L.api a hs
      exact L.trans (L.caught h1) (ih (L.post hs h1))
    | unsubSelf =>
      cases self with
      | none => rw [runCalls_self_none]; exact ih hs
      | some o =>
        rw [runCalls_self_some]
        have h1 := L.api (.unsubscribe o .ok) hs
        exact L.trans (L.caught h1) (ih (L.post hs h1))

theorem Lift.runAct (L : Lift R P) {s : Sess} (hs : P s) (self : Option FutId) (act : HAct) :
    R s (runAct s self act).2 (runAct s self act).1 := by
  unfold Session.runAct
  have h1 := L.runCalls hs self act.calls
  split
  · exact L.trans h1 (L.userError (L.post hs h1))
  · exact h1

theorem Lift.dispatch (L : Lift R P) {s : Sess} (hs : P s) (sub : SubId) (args : Args)
    (kw : List (Key × KwVal)) (l : List SubRec) (beh : List HAct) :
    R s (dispatch s sub args kw l beh).2 (dispatch s sub args kw l beh).1 := by
  induction l generalizing s beh with
  | nil => exact L.refl hs
  | cons r rest ih =>
    unfold Session.dispatch
    split
    · next hr =>
      have h0 := L.invoke args (handlerKw r kw) hs hr
      have h1 := L.runAct hs (some r.obj) (beh.headD {})
      have h2 := ih (L.post hs h1) beh.tail
      have := L.trans h0 (L.trans h1 h2)
      simpa using this
    · exact ih hs beh


theorem rejectList_nil (s : Sess) (o : Outcome) : rejectList s o [] = (s, []) := rfl

theorem rejectList_cons (s : Sess) (o : Outcome) (f : FutId) (fs : List FutId) :
    rejectList s o (f :: fs) =
      if s.called f then rejectList s o fs
      else ((rejectList (settle s f o).1 o fs).1, (settle s f o).2 ++ (rejectList (settle s f o).1 o fs).2) := rfl

/-- lifting through `rejectList`: every `settle` in it is guarded by `called f = false` -/
theorem rejectList_lift (refl : ∀ {s}, P s → R s [] s)
    (trans : ∀ {s1 o1 s2 o2 s3}, R s1 o1 s2 → R s2 o2 s3 → R s1 (o1 ++ o2) s3)
    (post : ∀ {s o s'}, P s → R s o s' → P s')
    (settle_ : ∀ {s} f o, P s → s.called f = false → R s (settle s f o).2 (settle s f o).1)
    {s : Sess} (hs : P s) (o : Outcome) (fs : List FutId) :
    R s (rejectList s o fs).2 (rejectList s o fs).1 := by
  induction fs generalizing s with
  | nil => exact refl hs
  | cons f fs ih =>
    rw [rejectList_cons]
    split
    · exact ih hs
    · next hc =>
      have h1 := settle_ f o hs (by simpa using hc)
      exact trans h1 (ih (post hs h1))

theorem run_nil (s : Sess) : run s [] = (s, []) := rfl
theorem run_cons (s : Sess) (e : SEv) (es : List SEv) :
    run s (e :: es) = ((run (step s e).1 es).1, (step s e).2 :: (run (step s e).1 es).2) := rfl

theorem runOuts_nil (s : Sess) : runOuts s [] = [] := rfl
theorem runOuts_cons (s : Sess) (e : SEv) (es : List SEv) :
    runOuts s (e :: es) = (step s e).2 ++ runOuts (step s e).1 es := by
  simp [runOuts, run_cons]
theorem runState_nil (s : Sess) : runState s [] = s := rfl
theorem runState_cons (s : Sess) (e : SEv) (es : List SEv) : runState s (e :: es) = runState (step s e).1 es := rfl

theorem runState_append (s : Sess) (h1 h2 : List SEv) : runState s (h1 ++ h2) = runState (runState s h1) h2 := by
  induction h1 generalizing s with
  | nil => rfl
  | cons e es ih => simp [runState_cons, ih]

theorem runOuts_append (s : Sess) (h1 h2 : List SEv) :
    runOuts s (h1 ++ h2) = runOuts s h1 ++ runOuts (runState s h1) h2 := by
  induction h1 generalizing s with
  | nil => rfl
  | cons e es ih => simp [runOuts_cons, runState_cons, ih]

/-- lifting through a whole history -/
theorem run_lift (refl : ∀ {s}, P s → R s [] s)
    (trans : ∀ {s1 o1 s2 o2 s3}, R s1 o1 s2 → R s2 o2 s3 → R s1 (o1 ++ o2) s3)
    (post : ∀ {s o s'}, P s → R s o s' → P s')
    (step_ : ∀ {s} e, P s → R s (step s e).2 (step s e).1)
    {s : Sess} (hs : P s) (h : List SEv) : R s (runOuts s h) (runState s h) := by
  induction h generalizing s with
  | nil => exact refl hs
  | cons e es ih =>
    rw [runOuts_cons, runState_cons]
    have h1 := step_ e hs
    exact trans h1 (ih (post hs h1))

end Abverif.Session
