import Abverif.Proofs.Lemmas.C14Step
/-!
C14 — stop(): what can be shown (stop during a retry delay, on a dead loop, or before start really stops the
component) — the other positions are refuted in Proofs/C14.
-/
namespace Abverif.Comp
open Spec

def Obs.isAtt : Obs → Bool
  | .att _ _ _ => true
  | _ => false

def Obs.isStop : Obs → Bool
  | .stop => true
  | _ => false

/-- once the loop has ended nothing changes any more and nothing is attempted -/
theorem dead_fixed (s : State) (hp : s.phase = .dead) (e : Event) :
    (step s e).1 = s ∧ ∀ o ∈ (step s e).2, o.isAtt = false := by
  cases e with
  | start => simp [step, hp]
  | delayElapsed => simp [step, hp]
  | stop => simp [step, onStop, hp, Obs.isAtt]
  | outcome o f => simp [step, hp]
  | sess e f => cases e <;> simp [step, onSess, hp]

theorem dead_run (s : State) (hp : s.phase = .dead) (es : List Event) :
    (run s es).1 = s ∧ ∀ o ∈ (run s es).2, o.isAtt = false := by
  induction es with
  | nil => simp [run]
  | cons e es ih =>
    have h1 := dead_fixed s hp e
    simp only [run, h1.1, ih.1, true_and]
    intro o ho
    rw [List.mem_append] at ho
    rcases ho with ho | ho
    · exact h1.2 o ho
    · exact ih.2 o ho

/-! ### no step other than stop() logs a stop -/

def NoStop (l : List Obs) : Prop := ∀ o ∈ l, o.isStop = false

theorem NoStop.nil : NoStop [] := by intro o ho; cases ho

theorem NoStop.append {a b : List Obs} (ha : NoStop a) (hb : NoStop b) : NoStop (a ++ b) := by
  intro o ho
  rw [List.mem_append] at ho
  rcases ho with ho | ho
  · exact ha o ho
  · exact hb o ho

theorem NoStop.cons {o : Obs} {r : List Obs} (h : o.isStop = false) (hr : NoStop r) : NoStop (o :: r) := by
  intro x hx
  rw [List.mem_cons] at hx
  rcases hx with rfl | hx
  · exact h
  · exact hr x hx

theorem NoStop.single (o : Obs) (h : o.isStop = false) : NoStop [o] := NoStop.cons h NoStop.nil

theorem nostop_setDone (ok : Bool) (s : State) : NoStop (Comp.setDone ok s).2 := by
  unfold Comp.setDone; split <;> exact NoStop.single _ rfl

theorem nostop_tc (s : State) : NoStop (transportCheck s).2 := by
  have hcs := tc_cases s
  generalize transportCheck s = r at hcs ⊢
  cases hcs with
  | giveUp _ => exact nostop_setDone _ _
  | wait => exact NoStop.nil
  | now => exact NoStop.single _ rfl

theorem nostop_failRetry (i : Nat) (f : Bool) (s : State) : NoStop (failRetry i f s).2 := by
  unfold failRetry; split
  · exact NoStop.cons rfl (nostop_tc _)
  · exact nostop_tc _

theorem nostop_sessionDone (i : Nat) (f : Bool) (s : State) : NoStop (sessionDone i f s).2 := by
  unfold sessionDone; split
  · exact NoStop.single _ rfl
  · split
    · exact NoStop.cons rfl (nostop_failRetry _ _ _)
    · exact NoStop.single _ rfl

theorem nostop_sfire (cfg : Cfg) (ev : Ev) (n : Nat) : NoStop (sfire cfg ev n) := by
  intro o ho
  have := sfire_neutral cfg ev n o ho
  cases o <;> simp [Obs.neutral] at this <;> rfl

theorem nostop_joinedPre (cfg : Cfg) (n i : Nat) : NoStop (joinedPre cfg n i) := by
  unfold joinedPre
  exact ((((NoStop.single _ rfl).append (nostop_sfire _ _ _)).append (NoStop.single _ rfl)).append
    (nostop_sfire _ _ _)).append (nostop_sfire _ _ _)

theorem nostop_step (s : State) (e : Event) (he : e ≠ .stop) : NoStop (step s e).2 := by
  have S := fun ev n => nostop_sfire s.cfg ev n
  have O := fun (o : Obs) (h : o.isStop = false) => NoStop.single o h
  cases e with
  | start => simp only [step]; split <;> first | exact nostop_tc _ | exact NoStop.nil
  | delayElapsed => simp only [step]; split <;> first | exact NoStop.single _ rfl | exact NoStop.nil
  | stop => exact absurd rfl he
  | outcome o f =>
    simp only [step]
    split
    · next i _ =>
      cases o with
      | refused => exact NoStop.cons rfl (nostop_failRetry _ _ _)
      | hsFail => exact NoStop.cons rfl (nostop_failRetry _ _ _)
      | abort =>
        exact (((((O (.fail i) rfl).append (O (.sess s.nsess i) rfl)).append (S _ _)).append (S _ _)).append
          (nostop_failRetry _ _ _)).append (S _ _)
      | joinedLost =>
        exact NoStop.cons rfl ((((nostop_joinedPre _ _ _).append (S _ _)).append
          (nostop_failRetry _ _ _)).append (S _ _))
      | joinedLeave =>
        exact ((((nostop_joinedPre _ _ _).append (O _ rfl)).append (S _ _)).append
          (nostop_sessionDone _ _ _)).append (S _ _)
      | mainReturns =>
        simp only [onOutcome]; split
        · exact ((((nostop_joinedPre _ _ _).append (O (.cleanEnd i) rfl)).append (S _ _)).append
            (nostop_sessionDone _ _ _)).append (S _ _)
        · exact NoStop.nil
      | mainRaises =>
        simp only [onOutcome]; split
        · exact ((((nostop_joinedPre _ _ _).append (O (.mainRaised i) rfl)).append
            (nostop_failRetry _ _ _)).append (S _ _)).append (S _ _)
        · exact NoStop.nil
      | joined => exact nostop_joinedPre _ _ _
    · exact NoStop.nil
  | sess e f =>
    simp only [step, onSess]
    split
    · exact NoStop.cons rfl (((S _ _).append (nostop_failRetry _ _ _)).append (S _ _))
    · exact NoStop.cons rfl (((S _ _).append (nostop_failRetry _ _ _)).append (S _ _))
    · next i _ => exact (((O (.cleanEnd i) rfl).append (S _ _)).append (nostop_sessionDone _ _ _)).append (S _ _)
    · next i _ => exact (((O (.cleanEnd i) rfl).append (S _ _)).append (nostop_sessionDone _ _ _)).append (S _ _)
    · exact NoStop.nil

/-! ### the stop monitor -/

theorem chkStop_nostop (c : Conf) (k : Core) (l : List Obs) (hk : k.stopped = false)
    (hl : ∀ o ∈ l, o.isStop = false) :
    specAll chkStop finTrue c k false l = true ∧ (feedAll c k l).stopped = false := by
  induction l generalizing k with
  | nil => exact ⟨rfl, hk⟩
  | cons o r ih =>
    have ho := hl o (by simp)
    have hk' : (k.feed c o).stopped = false := by
      cases o <;> simp [Obs.isStop] at ho <;> simp only [Core.feed] <;> first | exact hk | (split <;> exact hk)
    have hc : chkStop c k o = true := by cases o <;> simp [chkStop, hk]
    simp only [specAll, hc, Bool.true_and, feedAll_cons]
    exact ih _ hk' (fun o' ho' => hl o' (by simp [ho']))

theorem chkStop_noatt (c : Conf) (k : Core) (l : List Obs) (hl : ∀ o ∈ l, o.isAtt = false) :
    specAll chkStop finTrue c k false l = true := by
  induction l generalizing k with
  | nil => rfl
  | cons o r ih =>
    have ho := hl o (by simp)
    have hc : chkStop c k o = true := by cases o <;> simp [Obs.isAtt] at ho <;> rfl
    simp only [specAll, hc, Bool.true_and]
    exact ih _ (fun o' ho' => hl o' (by simp [ho']))

/-- every stop() in the history is called before start, during a retry delay, or when the loop has ended -/
def StopsBenign (s : State) : List Event → Prop
  | [] => True
  | e :: es =>
    (e = .stop → (s.phase = .idle ∨ (∃ i d, s.phase = .waiting i d) ∨ s.phase = .dead))
      ∧ StopsBenign (step s e).1 es

theorem stop_run (c : Conf) (s : State) (k : Core) (hinv : k.stopped = true → s.phase = .dead)
    (es : List Event) (hb : StopsBenign s es) : specAll chkStop finTrue c k false (run s es).2 = true := by
  induction es generalizing s k with
  | nil => rfl
  | cons e es ih =>
    simp only [run]
    rw [specAll_append]
    obtain ⟨hb1, hb2⟩ := hb
    by_cases hdead : s.phase = .dead
    · -- nothing is ever attempted again
      have h1 := dead_fixed s hdead e
      have h2 := dead_run s hdead es
      rw [h1.1]
      rw [chkStop_noatt c k _ h1.2, chkStop_noatt c _ _ h2.2]; rfl
    · have hk : k.stopped = false := by
        cases hs : k.stopped with
        | false => rfl
        | true => exact absurd (hinv hs) hdead
      by_cases he : e = .stop
      · subst he
        rcases hb1 rfl with hp | ⟨i, d, hp⟩ | hp
        · -- before start: stop() is not even logged
          have e1 : step s .stop = (s, []) := by simp [step, onStop, hp]
          rw [e1] at hb2 ⊢
          simp only [specAll, finTrue, Bool.true_and, feedAll_nil]
          exact ih s k hinv hb2
        · -- during a delay: the loop ends here
          have hd : (step s .stop).1.phase = .dead := by simp [step, onStop, hp]
          have hn : ∀ o ∈ (step s .stop).2, o.isAtt = false := by
            simp only [step, onStop, hp]
            intro o ho
            simp only [List.mem_cons] at ho
            rcases ho with rfl | ho
            · rfl
            · unfold Comp.setDone at ho
              split at ho <;> simp at ho <;> subst ho <;> rfl
          have h2 := dead_run _ hd es
          rw [chkStop_noatt c k _ hn, chkStop_noatt c _ _ h2.2]; rfl
        · exact absurd hp hdead
      · have hn := nostop_step s e he
        have h1 := chkStop_nostop c k _ hk hn
        rw [h1.1, Bool.true_and]
        exact ih _ _ (fun hs => by rw [h1.2] at hs; cases hs) hb2

end Abverif.Comp
