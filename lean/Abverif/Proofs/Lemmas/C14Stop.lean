import Abverif.Proofs.Lemmas.C14Step
/-!
C14 — stop(): once stop() has been called (from any position after start) no connection is attempted any more.
`transport_check` consults `_stopping`, so whatever becomes of a connect in flight or of a joined session, the
loop ends at the next check.
-/
namespace Abverif.Comp
open Spec

def Obs.isAtt : Obs → Bool
  | .att _ _ _ => true
  | _ => false

def Obs.isStop : Obs → Bool
  | .stop => true
  | _ => false

/-! ### logs free of a kind of observation -/

def Free (p : Obs → Bool) (l : List Obs) : Prop := ∀ o ∈ l, p o = false

theorem Free.nil {p : Obs → Bool} : Free p [] := by intro o ho; cases ho

theorem Free.append {p : Obs → Bool} {a b : List Obs} (ha : Free p a) (hb : Free p b) : Free p (a ++ b) := by
  intro o ho
  rw [List.mem_append] at ho
  rcases ho with ho | ho
  · exact ha o ho
  · exact hb o ho

theorem Free.cons {p : Obs → Bool} {o : Obs} {r : List Obs} (h : p o = false) (hr : Free p r) :
    Free p (o :: r) := by
  intro x hx
  rw [List.mem_cons] at hx
  rcases hx with rfl | hx
  · exact h
  · exact hr x hx

theorem Free.single {p : Obs → Bool} (o : Obs) (h : p o = false) : Free p [o] := Free.cons h Free.nil

abbrev NoStop (l : List Obs) : Prop := Free Obs.isStop l
abbrev NoAtt (l : List Obs) : Prop := Free Obs.isAtt l

theorem neutral_not_att (o : Obs) (h : o.neutral = true) : o.isAtt = false := by
  cases o <;> simp [Obs.neutral] at h <;> rfl

theorem neutral_not_stop (o : Obs) (h : o.neutral = true) : o.isStop = false := by
  cases o <;> simp [Obs.neutral] at h <;> rfl

theorem free_sfire (p : Obs → Bool) (hp : ∀ o, o.neutral = true → p o = false) (cfg : Cfg) (ev : Ev) (n : Nat) :
    Free p (sfire cfg ev n) := fun o ho => hp o (sfire_neutral cfg ev n o ho)

theorem free_joinedPre (p : Obs → Bool) (hp : ∀ o, o.neutral = true → p o = false) (hj : ∀ i, p (.join i) = false)
    (cfg : Cfg) (n i : Nat) : Free p (joinedPre cfg n i) := by
  unfold joinedPre
  exact ((((Free.single _ (hp _ rfl)).append (free_sfire p hp _ _ _)).append (Free.single _ (hj i))).append
    (free_sfire p hp _ _ _)).append (free_sfire p hp _ _ _)

/-! ### once the loop has ended nothing is attempted and start()'s future is not touched -/

theorem dead_fixed (s : State) (hp : s.phase = .dead) (e : Event) :
    (step s e).1.phase = .dead ∧ (step s e).1.done = s.done ∧ ∀ o ∈ (step s e).2, o.isAtt = false := by
  cases e with
  | start => simp [step, hp]
  | delayElapsed => simp [step, hp]
  | stop => simp [step, onStop, hp, Obs.isAtt]
  | outcome o f => simp [step, hp]
  | sess e f => cases e <;> simp [step, onSess, hp]

theorem dead_run (s : State) (hp : s.phase = .dead) (es : List Event) :
    (run s es).1.phase = .dead ∧ (run s es).1.done = s.done ∧ ∀ o ∈ (run s es).2, o.isAtt = false := by
  induction es generalizing s with
  | nil => simp [run, hp]
  | cons e es ih =>
    have h1 := dead_fixed s hp e
    have h2 := ih _ h1.1
    simp only [run]
    refine ⟨h2.1, by rw [h2.2.1, h1.2.1], ?_⟩
    intro o ho
    rw [List.mem_append] at ho
    rcases ho with ho | ho
    · exact h1.2.2 o ho
    · exact h2.2.2 o ho

/-! ### no step other than stop() logs a stop -/

theorem nostop_setDone (ok : Bool) (s : State) : NoStop (Comp.setDone ok s).2 := by
  unfold Comp.setDone; split <;> exact Free.single _ rfl

theorem nostop_tc (s : State) : NoStop (transportCheck s).2 := by
  have hcs := tc_cases s
  generalize transportCheck s = r at hcs ⊢
  cases hcs with
  | stopped _ => unfold stopCheck; split <;> first | exact Free.single _ rfl | exact Free.nil
  | giveUp _ => exact nostop_setDone _ _
  | wait => exact Free.nil
  | now => exact Free.single _ rfl

theorem nostop_failRetry (i : Nat) (f : Bool) (s : State) : NoStop (failRetry i f s).2 := by
  unfold failRetry; split
  · exact Free.cons rfl (nostop_tc _)
  · exact nostop_tc _

theorem nostop_sessionDone (i : Nat) (f : Bool) (s : State) : NoStop (sessionDone i f s).2 := by
  unfold sessionDone; split
  · exact Free.single _ rfl
  · split
    · exact Free.cons rfl (nostop_failRetry _ _ _)
    · exact Free.single _ rfl

theorem nostop_sfire (cfg : Cfg) (ev : Ev) (n : Nat) : NoStop (sfire cfg ev n) :=
  free_sfire _ neutral_not_stop cfg ev n

theorem nostop_joinedPre (cfg : Cfg) (n i : Nat) : NoStop (joinedPre cfg n i) :=
  free_joinedPre _ neutral_not_stop (fun _ => rfl) cfg n i

theorem nostop_step (s : State) (e : Event) (he : e ≠ .stop) : NoStop (step s e).2 := by
  have S := fun ev n => nostop_sfire s.cfg ev n
  have O := fun (o : Obs) (h : o.isStop = false) => Free.single (p := Obs.isStop) o h
  cases e with
  | start => simp only [step]; split <;> first | exact nostop_tc _ | exact Free.nil
  | delayElapsed => simp only [step]; split <;> first | exact Free.single _ rfl | exact Free.nil
  | stop => exact absurd rfl he
  | outcome o f =>
    simp only [step]
    split
    · next i _ =>
      cases o with
      | refused => exact Free.cons rfl (nostop_failRetry _ _ _)
      | hsFail => exact Free.cons rfl (nostop_failRetry _ _ _)
      | abort =>
        exact (((((O (.fail i) rfl).append (O (.sess s.nsess i) rfl)).append (S _ _)).append (S _ _)).append
          (nostop_failRetry _ _ _)).append (S _ _)
      | joinedLost =>
        exact Free.cons rfl ((((nostop_joinedPre _ _ _).append (S _ _)).append
          (nostop_failRetry _ _ _)).append (S _ _))
      | joinedLeave =>
        exact ((((nostop_joinedPre _ _ _).append (O _ rfl)).append (S _ _)).append
          (nostop_sessionDone _ _ _)).append (S _ _)
      | mainReturns =>
        simp only [onOutcome]; split
        · exact ((((nostop_joinedPre _ _ _).append (O (.cleanEnd i) rfl)).append (S _ _)).append
            (nostop_sessionDone _ _ _)).append (S _ _)
        · exact Free.nil
      | mainRaises =>
        simp only [onOutcome]; split
        · exact ((((nostop_joinedPre _ _ _).append (O (.mainRaised i) rfl)).append
            (nostop_failRetry _ _ _)).append (S _ _)).append (S _ _)
        · exact Free.nil
      | joined => exact nostop_joinedPre _ _ _
    · exact Free.nil
  | sess e f =>
    simp only [step, onSess]
    split
    · exact Free.cons rfl (((S _ _).append (nostop_failRetry _ _ _)).append (S _ _))
    · exact Free.cons rfl (((S _ _).append (nostop_failRetry _ _ _)).append (S _ _))
    · next i _ => exact (((O (.cleanEnd i) rfl).append (S _ _)).append (nostop_sessionDone _ _ _)).append (S _ _)
    · next i _ => exact (((O (.cleanEnd i) rfl).append (S _ _)).append (nostop_sessionDone _ _ _)).append (S _ _)
    · exact Free.nil

/-! ### after stop(): `_stopping` is set and no retry delay is pending — from then on nothing is attempted -/

/-- stop() has been called and no retry delay is pending -/
def Halted (s : State) : Prop := s.stopping = true ∧ ∀ i d, s.phase ≠ .waiting i d

/-- an emitter that ends the loop -/
structure HaltR (r : State × List Obs) : Prop where
  dead : r.1.phase = .dead
  stopping : r.1.stopping = true
  noatt : NoAtt r.2

theorem HaltR.halted {r : State × List Obs} (h : HaltR r) : Halted r.1 :=
  ⟨h.stopping, fun i d hp => by rw [h.dead] at hp; cases hp⟩

theorem stopCheck_halt (s : State) (h : s.stopping = true) : HaltR (stopCheck s) := by
  unfold stopCheck
  split
  · exact ⟨rfl, h, Free.single _ rfl⟩
  · exact ⟨rfl, h, Free.nil⟩

/-- `transport_check` with `_stopping` set ends the loop -/
theorem tc_halt (s : State) (h : s.stopping = true) : HaltR (transportCheck s) := by
  have : transportCheck s = stopCheck s := by unfold transportCheck; simp [h]
  rw [this]; exact stopCheck_halt s h

theorem failRetry_halt (i : Nat) (f : Bool) (s : State) (h : s.stopping = true) : HaltR (failRetry i f s) := by
  unfold failRetry
  split
  · have := tc_halt { s with trs := updAt Tr.failed s.trs i } h
    exact ⟨this.dead, this.stopping, Free.cons rfl this.noatt⟩
  · exact tc_halt s h

theorem sessionDone_halt (i : Nat) (f : Bool) (s : State) (h : s.stopping = true) :
    HaltR (sessionDone i f s) := by
  unfold sessionDone
  split
  · exact ⟨rfl, h, Free.single _ rfl⟩
  · split
    · have := failRetry_halt i f s h
      exact ⟨this.dead, this.stopping, Free.cons rfl this.noatt⟩
    · exact ⟨rfl, h, Free.single _ rfl⟩

theorem HaltR.wrap {r : State × List Obs} (h : HaltR r) {pre post : List Obs} (hpre : NoAtt pre)
    (hpost : NoAtt post) : Halted r.1 ∧ NoAtt (pre ++ r.2 ++ post) :=
  ⟨h.halted, (hpre.append h.noatt).append hpost⟩

theorem setDone_stopping (ok : Bool) (s : State) : (Comp.setDone ok s).1.stopping = s.stopping := by
  unfold Comp.setDone; split <;> rfl

theorem noatt_setDone (ok : Bool) (s : State) : NoAtt (Comp.setDone ok s).2 := by
  unfold Comp.setDone; split <;> exact Free.single _ rfl

/-- stop() called anywhere after start leaves the component halted, and itself attempts nothing -/
theorem stop_halts (s : State) (hp : s.phase ≠ .idle) :
    Halted (step s .stop).1 ∧ NoAtt (step s .stop).2 := by
  simp only [step, onStop]
  split
  · next h => exact absurd h hp
  · refine ⟨⟨?_, fun i d h => by simp at h⟩, Free.cons rfl (noatt_setDone _ _)⟩
    show (Comp.setDone true { s with stopping := true }).1.stopping = true
    rw [setDone_stopping]
  · next i h =>
    split
    · exact ⟨⟨rfl, fun j d hj => by simp [h] at hj⟩, Free.cons rfl (Free.single _ rfl)⟩
    · exact ⟨⟨rfl, fun j d hj => by simp [h] at hj⟩, Free.single _ rfl⟩
  · exact ⟨⟨rfl, fun j d hj => by simp at hj⟩, Free.single _ rfl⟩
  · next h1 h2 h3 h4 =>
    exact ⟨⟨rfl, fun j d hj => h2 j d hj⟩, Free.single _ rfl⟩

theorem halted_step (s : State) (h : Halted s) (e : Event) :
    Halted (step s e).1 ∧ NoAtt (step s e).2 := by
  obtain ⟨hs, hw⟩ := h
  have A : ∀ o : Obs, o.neutral = true → o.isAtt = false := neutral_not_att
  have S := fun ev n => free_sfire Obs.isAtt A s.cfg ev n
  have J := fun n i => free_joinedPre Obs.isAtt A (fun _ => rfl) s.cfg n i
  have O := fun (o : Obs) (h : o.isAtt = false) => Free.single (p := Obs.isAtt) o h
  cases e with
  | start =>
    simp only [step]
    split
    · have := tc_halt s hs; exact ⟨this.halted, this.noatt⟩
    · exact ⟨⟨hs, hw⟩, Free.nil⟩
  | delayElapsed =>
    -- no delay is pending (`hw`): the match falls through
    simp only [step]
    exact ⟨⟨hs, hw⟩, Free.nil⟩
  | stop =>
    by_cases hp : s.phase = .idle
    · have e1 : step s .stop = (s, []) := by simp [step, onStop, hp]
      rw [e1]; exact ⟨⟨hs, hw⟩, Free.nil⟩
    · exact stop_halts s hp
  | outcome o f =>
    simp only [step]
    split
    · next i hp =>
      cases o with
      | refused =>
        have := (failRetry_halt i f
          { s with trs := updAt (fun t => { t with failures := t.failures + (if s.cfg.aio then 2 else 1) }) s.trs i }
          hs).wrap (pre := [.fail i]) (post := []) (O _ rfl) Free.nil
        simpa [onOutcome] using this
      | hsFail =>
        have := (failRetry_halt i f s hs).wrap (pre := [.fail i]) (post := []) (O _ rfl) Free.nil
        simpa [onOutcome] using this
      | abort =>
        have := (failRetry_halt i f { s with nsess := s.nsess + 1 } hs).wrap
          (pre := [.fail i, .sess s.nsess i] ++ sfire s.cfg .connect s.nsess ++ sfire s.cfg .leave s.nsess)
          (post := sfire s.cfg .disconnect s.nsess)
          (((Free.cons rfl (O _ rfl)).append (S _ _)).append (S _ _)) (S _ _)
        simpa [onOutcome] using this
      | joinedLost =>
        have := (failRetry_halt i f (joinOn i { s with nsess := s.nsess + 1 }) hs).wrap
          (pre := .fail i :: joinedPre s.cfg s.nsess i ++ sfire s.cfg .leave s.nsess)
          (post := sfire s.cfg .disconnect s.nsess)
          (Free.cons rfl ((J _ _).append (S _ _))) (S _ _)
        simpa [onOutcome] using this
      | joinedLeave =>
        have := (sessionDone_halt i f (joinOn i { s with nsess := s.nsess + 1 }) hs).wrap
          (pre := joinedPre s.cfg s.nsess i ++ [.cleanEnd i] ++ sfire s.cfg .leave s.nsess)
          (post := sfire s.cfg .disconnect s.nsess)
          (((J _ _).append (O _ rfl)).append (S _ _)) (S _ _)
        simpa [onOutcome] using this
      | mainReturns =>
        simp only [onOutcome]
        split
        · have := (sessionDone_halt i f (joinOn i { s with nsess := s.nsess + 1 }) hs).wrap
            (pre := joinedPre s.cfg s.nsess i ++ [.cleanEnd i] ++ sfire s.cfg .leave s.nsess)
            (post := sfire s.cfg .disconnect s.nsess)
            (((J _ _).append (O _ rfl)).append (S _ _)) (S _ _)
          simpa using this
        · exact ⟨⟨hs, hw⟩, Free.nil⟩
      | mainRaises =>
        simp only [onOutcome]
        split
        · have := (failRetry_halt i f (joinOn i { s with nsess := s.nsess + 1 }) hs).wrap
            (pre := joinedPre s.cfg s.nsess i ++ [.mainRaised i])
            (post := sfire s.cfg .leave s.nsess ++ sfire s.cfg .disconnect s.nsess)
            ((J _ _).append (O _ rfl)) ((S _ _).append (S _ _))
          simpa using this
        · exact ⟨⟨hs, hw⟩, Free.nil⟩
      | joined =>
        simp only [onOutcome]
        exact ⟨⟨hs, fun j d hj => by simp at hj⟩, J _ _⟩
    · exact ⟨⟨hs, hw⟩, Free.nil⟩
  | sess e f =>
    simp only [step, onSess]
    split
    · next i _ =>
      have := (failRetry_halt i f s hs).wrap (pre := .fail i :: sfire s.cfg .leave (s.nsess - 1))
        (post := sfire s.cfg .disconnect (s.nsess - 1)) (Free.cons rfl (S _ _)) (S _ _)
      simpa using this
    · next i _ =>
      have := (failRetry_halt i f s hs).wrap (pre := .fail i :: sfire s.cfg .leave (s.nsess - 1))
        (post := sfire s.cfg .disconnect (s.nsess - 1)) (Free.cons rfl (S _ _)) (S _ _)
      simpa using this
    · next i _ =>
      have := (sessionDone_halt i f s hs).wrap (pre := [.cleanEnd i] ++ sfire s.cfg .leave (s.nsess - 1))
        (post := sfire s.cfg .disconnect (s.nsess - 1)) ((O _ rfl).append (S _ _)) (S _ _)
      simpa using this
    · next i _ =>
      have := (sessionDone_halt i f s hs).wrap (pre := [.cleanEnd i] ++ sfire s.cfg .leave (s.nsess - 1))
        (post := sfire s.cfg .disconnect (s.nsess - 1)) ((O _ rfl).append (S _ _)) (S _ _)
      simpa using this
    · exact ⟨⟨hs, hw⟩, Free.nil⟩

theorem halted_run (s : State) (h : Halted s) (es : List Event) :
    Halted (run s es).1 ∧ NoAtt (run s es).2 := by
  induction es generalizing s with
  | nil => exact ⟨h, Free.nil⟩
  | cons e es ih =>
    have h1 := halted_step s h e
    have h2 := ih _ h1.1
    simp only [run]
    exact ⟨h2.1, h1.2.append h2.2⟩

/-! ### the stop monitor -/

theorem chkStop_nostop (c : Conf) (k : Core) (l : List Obs) (hk : k.stopped = false)
    (hl : ∀ o ∈ l, o.isStop = false) :
    specAll chkStop finTrue c k false l = true ∧ (feedAll c k l).stopped = false := by
  induction l generalizing k with
  | nil => exact ⟨rfl, hk⟩
  | cons o r ih =>
    have ho := hl o (by simp)
    have hk' : (k.feed c o).stopped = false := by
      cases o <;> simp [Obs.isStop] at ho <;> simp only [Core.feed] <;> exact hk
    have hc : chkStop c k o = true := by cases o <;> simp [chkStop, hk]
    simp only [specAll, hc, Bool.true_and, feedAll_cons]
    exact ih _ hk' (fun o' ho' => hl o' (by simp [ho']))

theorem chkStop_noatt (c : Conf) (k : Core) (l : List Obs) (hl : ∀ o ∈ l, o.isAtt = false) :
    specAll chkStop finTrue c k false l = true := by
  induction l generalizing k with
  | nil => rfl
  | cons o r ih =>
    have ho := hl o (by simp)
    have hc : chkStop c k o = true := by cases o <;> simp [Obs.isAtt] at ho <;> rfl
    simp only [specAll, hc, Bool.true_and]
    exact ih _ (fun o' ho' => hl o' (by simp [ho']))

/-- the monitor "no connection attempt after stop()" accepts every run: as long as the log carries no stop the
monitor has nothing to reject; a stop() before start is not logged; any other stop() halts the component -/
theorem stop_run (c : Conf) (s : State) (k : Core) (hinv : k.stopped = true → Halted s)
    (es : List Event) : specAll chkStop finTrue c k false (run s es).2 = true := by
  induction es generalizing s k with
  | nil => rfl
  | cons e es ih =>
    simp only [run]
    rw [specAll_append]
    cases hk : k.stopped with
    | true =>
      have h1 := halted_step s (hinv hk) e
      have h2 := halted_run _ h1.1 es
      rw [chkStop_noatt c k _ h1.2, chkStop_noatt c _ _ h2.2]; rfl
    | false =>
      by_cases he : e = .stop
      · subst he
        by_cases hp : s.phase = .idle
        · -- before start: stop() is not even logged
          have e1 : step s .stop = (s, []) := by simp [step, onStop, hp]
          rw [e1]
          simp only [specAll, finTrue, Bool.true_and, feedAll_nil]
          exact ih s k hinv
        · have h1 := stop_halts s hp
          have h2 := halted_run _ h1.1 es
          rw [chkStop_noatt c k _ h1.2, chkStop_noatt c _ _ h2.2]; rfl
      · have hn := nostop_step s e he
        have h1 := chkStop_nostop c k _ hk hn
        rw [h1.1, Bool.true_and]
        exact ih _ _ (fun hs => by rw [h1.2] at hs; cases hs)

end Abverif.Comp
