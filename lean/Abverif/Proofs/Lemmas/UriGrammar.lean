import Abverif.Model.Uri
import Abverif.Proofs.Lemmas.RxTheory
/-
The regexes of `wamp/message.py` (as generated into `Generated/UriPatterns.lean`) against the intended grammars
of `Model/UriSpec.lean`.

Layering (so that a later source fix `$ → \Z`, `\d → 0-9` needs no proof edit):
  1. generic theorems over the *shape* of a pattern, for an arbitrary character class `C`
     (`lang_uriShape`, `lang_caShape`, `lang_nameShape`, …): language of the shape = generic Spec over `C.contains`;
  2. generic class lemmas: a class given by ASCII items (+ possibly `\d`) agrees with an ASCII predicate on every
     character that is not a non-ASCII decimal digit (`contains_eq_of_classOk`);
  3. facts about the generated patterns, all by `decide` and all phrased so that they evaluate to true for
     today's patterns *and* for the fixed ones: the body has the expected shape around whatever classes it
     contains, those classes pass `classOk`, and F2 witnesses guarded by `anchor = .dollar` / `usesDigit`.

F2 (known defect, exhibited below): `$` also matches before a trailing "\n"; `\d` matches every Unicode Nd.

Inventory (six URI patterns; the same scheme for `_CUSTOM_ATTRIBUTE` and the four realm patterns):
  UriEquiv strict ae ale           full statement `∀ s, check … s = Spec.ok … s` (a `def`; false today)
  uri_equiv_guarded                PARTIAL: equality for texts with no trailing "\n" (only while `$`) and no non-ASCII
                                   `\d` digit (only while the class mentions `\d`)
  uri_check_exact                  exact characterisation incl. the `$` quirk (digit hypothesis only)
  uri_complete                     FULL, no hypotheses: Spec.ok → check (valid URIs are never rejected)
  uri_sound_up_to_f2               FULL, no hypotheses: check → Spec.ok ∨ (F2 newline case) ∨ (F2 digit case)
  uriEquiv_of_fixed / uriEquiv_loose_of_absEnd   UriEquiv once the source uses `\Z` (and no `\d`)
  fixed_strict_pattern_correct / fixed_loose_pattern_correct   FULL: the fixed regexes are the grammar
  f2_trailing_newline_witness, f2_unicode_digit_witness, not_uriEquiv_of_dollar, not_uriEquiv_of_digit
                                   guarded witnesses / refutations of UriEquiv for today's source
The `…_of_fixed` theorems and the guarded witnesses have hypotheses about the *generated* pattern that are
decided by the source (exactly one of the two families is applicable at any time), so they carry no `example`.
-/
namespace Abverif.Uri
open Abverif.Rx

/-- `chs! "a.b"` is the explicit character list `['a', '.', 'b']` -/
macro:max "chs!" s:str : term => do
  let cs := s.getString.toList
  let elems := cs.toArray.map fun c => Lean.Syntax.mkCharLit c
  `([$elems,*])

/-! ## 1a. languages of class-only regexes -/

theorem char_le_iff (a b : Char) : a ≤ b ↔ a.toNat ≤ b.toNat := by
  rw [Char.le_def]; exact UInt32.le_iff_toNat_le

theorem pow_cls (C : CClass) : ∀ (k : Nat) (w : List Char),
    Pow (Rx.Lang (.cls C)) k w ↔ (w.length = k ∧ w.all C.contains = true)
  | 0, w => by
    rw [pow_zero]
    constructor
    · rintro rfl; exact ⟨rfl, rfl⟩
    · rintro ⟨h, _⟩; exact List.eq_nil_of_length_eq_zero h
  | k + 1, w => by
    rw [pow_succ]
    constructor
    · rintro ⟨u, v, rfl, hu, hv⟩
      obtain ⟨c, rfl, hc⟩ := lang_cls.1 hu
      obtain ⟨h1, h2⟩ := (pow_cls C k v).1 hv
      refine ⟨by simp only [List.singleton_append, List.length_cons, h1], ?_⟩
      simp only [List.singleton_append, List.all_cons, hc, h2, Bool.and_self]
    · rintro ⟨h1, h2⟩
      cases w with
      | nil => simp at h1
      | cons c cs =>
        simp only [List.all_cons, Bool.and_eq_true] at h2
        simp only [List.length_cons, Nat.add_right_cancel_iff] at h1
        exact ⟨[c], cs, rfl, lang_cls.2 ⟨c, rfl, h2.1⟩, (pow_cls C k cs).2 ⟨h1, h2.2⟩⟩

theorem lang_star_cls {C : CClass} {w : List Char} :
    Rx.Lang (.star (.cls C)) w ↔ w.all C.contains = true := by
  rw [lang_star]
  constructor
  · rintro ⟨k, hk⟩; exact ((pow_cls C k w).1 hk).2
  · intro h; exact ⟨w.length, (pow_cls C _ w).2 ⟨rfl, h⟩⟩

theorem lang_plus_cls {C : CClass} {w : List Char} :
    Rx.Lang (.plus (.cls C)) w ↔ (w ≠ [] ∧ w.all C.contains = true) := by
  rw [lang_plus]
  constructor
  · rintro ⟨k, hk⟩
    obtain ⟨h1, h2⟩ := (pow_cls C _ w).1 hk
    refine ⟨?_, h2⟩
    rintro rfl
    simp at h1
  · rintro ⟨h1, h2⟩
    cases w with
    | nil => exact (h1 rfl).elim
    | cons c cs => exact ⟨cs.length, (pow_cls C _ _).2 ⟨rfl, h2⟩⟩

theorem lang_rep_cls {C : CClass} {m n : Nat} {w : List Char} :
    Rx.Lang (.rep (.cls C) m n) w ↔ (m ≤ w.length ∧ w.length ≤ n ∧ w.all C.contains = true) := by
  rw [lang_rep]
  constructor
  · rintro ⟨k, h1, h2, hk⟩
    obtain ⟨h3, h4⟩ := (pow_cls C k w).1 hk
    exact ⟨by omega, by omega, h4⟩
  · rintro ⟨h1, h2, h3⟩
    exact ⟨w.length, h1, h2, (pow_cls C _ w).2 ⟨rfl, h3⟩⟩

/-- a literal character, as the translator emits it -/
def lit (c : Char) : Rx := .cls ⟨false, [.ch c]⟩

theorem lit_contains (a c : Char) : (⟨false, [.ch a]⟩ : CClass).contains c = decide (c = a) := by
  simp [CClass.contains, CItem.contains]

theorem lang_lit {a : Char} {w : List Char} : Rx.Lang (lit a) w ↔ w = [a] := by
  unfold lit
  rw [lang_cls]
  constructor
  · rintro ⟨c, rfl, hc⟩
    rw [lit_contains] at hc
    rw [of_decide_eq_true hc]
  · rintro rfl
    exact ⟨a, rfl, by rw [lit_contains]; exact decide_eq_true rfl⟩

/-- a literal prefix followed by `r` (right-nested, as the translator emits concatenations) -/
def litThen : List Char → Rx → Rx
  | [], r => r
  | c :: cs, r => .seq (lit c) (litThen cs r)

theorem lang_litThen : ∀ (p : List Char) (r : Rx) (w : List Char),
    Rx.Lang (litThen p r) w ↔ ∃ t, w = p ++ t ∧ Rx.Lang r t
  | [], r, w => by
    constructor
    · intro h; exact ⟨w, rfl, h⟩
    · rintro ⟨t, rfl, h⟩; exact h
  | c :: cs, r, w => by
    rw [show litThen (c :: cs) r = .seq (lit c) (litThen cs r) by rfl, lang_seq]
    constructor
    · rintro ⟨u, v, rfl, hu, hv⟩
      rw [lang_lit] at hu
      subst hu
      obtain ⟨t, rfl, ht⟩ := (lang_litThen cs r v).1 hv
      exact ⟨t, rfl, ht⟩
    · rintro ⟨t, rfl, ht⟩
      exact ⟨[c], cs ++ t, rfl, lang_lit.2 rfl, (lang_litThen cs r _).2 ⟨t, rfl, ht⟩⟩

/-- a non-empty literal word (right-nested) -/
def litStr : List Char → Rx
  | [] => .eps
  | [c] => lit c
  | c :: d :: cs => .seq (lit c) (litStr (d :: cs))

theorem lang_litStr : ∀ (p : List Char) (w : List Char), Rx.Lang (litStr p) w ↔ w = p
  | [], w => lang_eps
  | [c], w => lang_lit
  | c :: d :: cs, w => by
    rw [show litStr (c :: d :: cs) = .seq (lit c) (litStr (d :: cs)) by rfl, lang_seq]
    constructor
    · rintro ⟨u, v, rfl, hu, hv⟩
      rw [lang_lit] at hu
      rw [lang_litStr (d :: cs) v] at hv
      subst hu hv
      rfl
    · rintro rfl
      exact ⟨[c], d :: cs, rfl, lang_lit.2 rfl, (lang_litStr (d :: cs) _).2 rfl⟩

/-! ## 1b. dotted words -/

/-- `c₁ . c₂ . … cₙ . last` -/
def joinDot : List (List Char) → List Char → List Char
  | [], last => last
  | c :: cs, last => c ++ '.' :: joinDot cs last

def NoDot (w : List Char) : Prop := ∀ c ∈ w, c ≠ '.'

theorem noDot_of_all {P : Char → Bool} (hdot : P '.' = false) {w : List Char} (h : w.all P = true) : NoDot w := by
  intro c hc he
  subst he
  rw [List.all_eq_true] at h
  rw [h _ hc] at hdot
  cases hdot

theorem joinDot_append (cs : List (List Char)) (last : List Char) :
    joinDot cs [] ++ last = joinDot cs last := by
  induction cs with
  | nil => rfl
  | cons c cs ih => simp only [joinDot, List.append_assoc, List.cons_append, ih]

theorem splitDot_noDot : ∀ (w : List Char), NoDot w → splitDot w = [w]
  | [], _ => rfl
  | c :: cs, h => by
    have hc : c ≠ '.' := h c (List.mem_cons_self ..)
    have := splitDot_noDot cs (fun x hx => h x (List.mem_cons_of_mem _ hx))
    simp only [splitDot, hc, if_false, this, consHead]

theorem splitDot_comp : ∀ (comp rest : List Char), NoDot comp →
    splitDot (comp ++ '.' :: rest) = comp :: splitDot rest
  | [], rest, _ => by simp only [List.nil_append, splitDot, if_true]
  | c :: cs, rest, h => by
    have hc : c ≠ '.' := h c (List.mem_cons_self ..)
    have := splitDot_comp cs rest (fun x hx => h x (List.mem_cons_of_mem _ hx))
    simp only [List.cons_append, splitDot, hc, if_false, this, consHead]

theorem splitDot_joinDot : ∀ (cs : List (List Char)) (last : List Char),
    (∀ comp ∈ cs, NoDot comp) → NoDot last → splitDot (joinDot cs last) = cs ++ [last]
  | [], last, _, hl => by simp only [joinDot, splitDot_noDot last hl, List.nil_append]
  | c :: cs, last, h, hl => by
    rw [show joinDot (c :: cs) last = c ++ '.' :: joinDot cs last by rfl,
      splitDot_comp c _ (h c (List.mem_cons_self ..)),
      splitDot_joinDot cs last (fun x hx => h x (List.mem_cons_of_mem _ hx)) hl]
    rfl

theorem exists_joinDot : ∀ (s : List Char),
    ∃ cs last, s = joinDot cs last ∧ (∀ comp ∈ cs, NoDot comp) ∧ NoDot last
  | [] => ⟨[], [], rfl, (fun _ h => by cases h), (fun _ h => by cases h)⟩
  | c :: s => by
    obtain ⟨cs, last, rfl, h1, h2⟩ := exists_joinDot s
    by_cases hc : c = '.'
    · subst hc
      refine ⟨[] :: cs, last, rfl, ?_, h2⟩
      intro comp hcomp
      rcases List.mem_cons.1 hcomp with rfl | h
      · intro x hx; cases hx
      · exact h1 comp h
    · cases cs with
      | nil =>
        refine ⟨[], c :: last, rfl, (fun _ h => by cases h), ?_⟩
        intro x hx
        rcases List.mem_cons.1 hx with rfl | h
        · exact hc
        · exact h2 x h
      | cons d ds =>
        refine ⟨(c :: d) :: ds, last, rfl, ?_, h2⟩
        intro comp hcomp
        rcases List.mem_cons.1 hcomp with rfl | h
        · intro x hx
          rcases List.mem_cons.1 hx with rfl | h'
          · exact hc
          · exact h1 d (List.mem_cons_self ..) x h'
        · exact h1 comp (List.mem_cons_of_mem _ h)

theorem mem_joinDot_of_mem_comp : ∀ (cs : List (List Char)) (last comp : List Char) (c : Char),
    comp ∈ cs → c ∈ comp → c ∈ joinDot cs last
  | d :: ds, last, comp, c, hcomp, hc => by
    rw [show joinDot (d :: ds) last = d ++ '.' :: joinDot ds last by rfl, List.mem_append, List.mem_cons]
    rcases List.mem_cons.1 hcomp with rfl | h
    · exact .inl hc
    · exact .inr (.inr (mem_joinDot_of_mem_comp ds last comp c h hc))

theorem mem_joinDot_of_mem_last : ∀ (cs : List (List Char)) (last : List Char) (c : Char),
    c ∈ last → c ∈ joinDot cs last
  | [], _, _, hc => hc
  | d :: ds, last, c, hc => by
    rw [show joinDot (d :: ds) last = d ++ '.' :: joinDot ds last by rfl, List.mem_append, List.mem_cons]
    exact .inr (.inr (mem_joinDot_of_mem_last ds last c hc))

/-- every character of every component is a character of the text -/
theorem mem_of_mem_splitDot {s comp : List Char} {c : Char} (h1 : comp ∈ splitDot s) (h2 : c ∈ comp) : c ∈ s := by
  obtain ⟨cs, last, rfl, hcs, hl⟩ := exists_joinDot s
  rw [splitDot_joinDot cs last hcs hl, List.mem_append, List.mem_singleton] at h1
  rcases h1 with h | rfl
  · exact mem_joinDot_of_mem_comp cs last comp c h h2
  · exact mem_joinDot_of_mem_last cs _ c h2

/-! ## 1c. the three URI shapes, for an arbitrary class -/

def dotR : Rx := lit '.'

/-- the AST shapes of `^(C+\.)*(C+)$`, `^(C+\.)*(C*)$`, `^((C+\.)|\.)*(C+)?$` -/
def uriShape : Mode → CClass → Rx
  | .nonEmpty, C => .seq (.star (.seq (.plus (.cls C)) dotR)) (.plus (.cls C))
  | .lastEmpty, C => .seq (.star (.seq (.plus (.cls C)) dotR)) (.star (.cls C))
  | .empty, C => .seq (.star (.alt (.seq (.plus (.cls C)) dotR) dotR)) (.opt (.plus (.cls C)))

/-- words of `X*` when the words of `X` are "component satisfying `Q`, then a dot" -/
theorem pow_comp {X : Rx} {Q : List Char → Prop}
    (hX : ∀ x, Rx.Lang X x ↔ ∃ comp, x = comp ++ ['.'] ∧ Q comp) :
    ∀ (k : Nat) (u : List Char),
      Pow (Rx.Lang X) k u ↔ ∃ cs : List (List Char), cs.length = k ∧ u = joinDot cs [] ∧ ∀ c ∈ cs, Q c
  | 0, u => by
    rw [pow_zero]
    constructor
    · rintro rfl; exact ⟨[], rfl, rfl, fun _ h => by cases h⟩
    · rintro ⟨cs, h, rfl, _⟩
      rw [List.eq_nil_of_length_eq_zero h]
      rfl
  | k + 1, u => by
    rw [pow_succ]
    constructor
    · rintro ⟨x, v, rfl, hx, hv⟩
      obtain ⟨comp, rfl, hq⟩ := (hX x).1 hx
      obtain ⟨cs, hl, rfl, hcs⟩ := (pow_comp hX k v).1 hv
      refine ⟨comp :: cs, by simp only [List.length_cons, hl], ?_, ?_⟩
      · simp only [joinDot, List.append_assoc, List.singleton_append]
      · intro c hc
        rcases List.mem_cons.1 hc with rfl | h
        · exact hq
        · exact hcs c h
    · rintro ⟨cs, hl, rfl, hcs⟩
      cases cs with
      | nil => simp at hl
      | cons comp cs =>
        simp only [List.length_cons, Nat.add_right_cancel_iff] at hl
        refine ⟨comp ++ ['.'], joinDot cs [], ?_, (hX _).2 ⟨comp, rfl, hcs comp (List.mem_cons_self ..)⟩,
          (pow_comp hX k _).2 ⟨cs, hl, rfl, fun c hc => hcs c (List.mem_cons_of_mem _ hc)⟩⟩
        simp only [joinDot, List.append_assoc, List.singleton_append]

theorem lang_compStar_seq {X Y : Rx} {Q : List Char → Prop}
    (hX : ∀ x, Rx.Lang X x ↔ ∃ comp, x = comp ++ ['.'] ∧ Q comp) (s : List Char) :
    Rx.Lang (.seq (.star X) Y) s ↔
      ∃ (cs : List (List Char)) (last : List Char), s = joinDot cs last ∧ (∀ c ∈ cs, Q c) ∧ Rx.Lang Y last := by
  rw [lang_seq]
  constructor
  · rintro ⟨u, v, rfl, hu, hv⟩
    obtain ⟨k, hk⟩ := lang_star.1 hu
    obtain ⟨cs, _, rfl, hcs⟩ := (pow_comp hX k u).1 hk
    exact ⟨cs, v, joinDot_append cs v, hcs, hv⟩
  · rintro ⟨cs, last, rfl, hcs, hl⟩
    exact ⟨joinDot cs [], last, (joinDot_append cs last).symm,
      lang_star.2 ⟨cs.length, (pow_comp hX _ _).2 ⟨cs, rfl, rfl, hcs⟩⟩, hl⟩

theorem lang_compNE (C : CClass) (x : List Char) :
    Rx.Lang (.seq (.plus (.cls C)) dotR) x ↔
      ∃ comp, x = comp ++ ['.'] ∧ (comp ≠ [] ∧ comp.all C.contains = true) := by
  rw [lang_seq]
  constructor
  · rintro ⟨u, v, rfl, hu, hv⟩
    rw [dotR, lang_lit] at hv
    subst hv
    exact ⟨u, rfl, lang_plus_cls.1 hu⟩
  · rintro ⟨comp, rfl, h⟩
    exact ⟨comp, ['.'], rfl, lang_plus_cls.2 h, lang_lit.2 rfl⟩

theorem lang_compAny (C : CClass) (x : List Char) :
    Rx.Lang (.alt (.seq (.plus (.cls C)) dotR) dotR) x ↔
      ∃ comp, x = comp ++ ['.'] ∧ comp.all C.contains = true := by
  rw [lang_alt, lang_compNE]
  constructor
  · rintro (⟨comp, rfl, _, h⟩ | h)
    · exact ⟨comp, rfl, h⟩
    · rw [dotR, lang_lit] at h
      subst h
      exact ⟨[], rfl, rfl⟩
  · rintro ⟨comp, rfl, h⟩
    cases comp with
    | nil => exact .inr (lang_lit.2 rfl)
    | cons c cs => exact .inl ⟨c :: cs, rfl, by simp, h⟩

theorem isEmpty_eq_false_iff {w : List Char} : (!w.isEmpty) = true ↔ w ≠ [] := by
  cases w <;> simp

/-- **shape theorem**: for any class not containing '.', the language of a URI shape is the generic Spec -/
theorem lang_uriShape (md : Mode) (C : CClass) (hdot : C.contains '.' = false) (s : List Char) :
    Rx.Lang (uriShape md C) s ↔ Spec.okWith C.contains md s = true := by
  have nd : ∀ {w : List Char}, w.all C.contains = true → NoDot w := fun h => noDot_of_all hdot h
  cases md with
  | nonEmpty =>
    rw [show uriShape .nonEmpty C = .seq (.star (.seq (.plus (.cls C)) dotR)) (.plus (.cls C)) by rfl,
      lang_compStar_seq (lang_compNE C)]
    constructor
    · rintro ⟨cs, last, rfl, hcs, hl⟩
      obtain ⟨hl1, hl2⟩ := lang_plus_cls.1 hl
      unfold Spec.okWith
      rw [splitDot_joinDot cs last (fun c hc => nd (hcs c hc).2) (nd hl2)]
      simp only [List.all_append, List.all_cons, List.all_nil, Bool.and_true, Bool.and_eq_true,
        List.all_eq_true, isEmpty_eq_false_iff]
      exact ⟨⟨fun c hc => List.all_eq_true.1 (hcs c hc).2, List.all_eq_true.1 hl2⟩,
        fun c hc => (hcs c hc).1, hl1⟩
    · intro h
      obtain ⟨cs, last, rfl, h1, h2⟩ := exists_joinDot s
      unfold Spec.okWith at h
      rw [splitDot_joinDot cs last h1 h2] at h
      simp only [List.all_append, List.all_cons, List.all_nil, Bool.and_true, Bool.and_eq_true,
        List.all_eq_true, isEmpty_eq_false_iff] at h
      obtain ⟨⟨ha, hb⟩, hc, hd⟩ := h
      exact ⟨cs, last, rfl, fun c hc' => ⟨hc c hc', List.all_eq_true.2 (ha c hc')⟩,
        lang_plus_cls.2 ⟨hd, List.all_eq_true.2 hb⟩⟩
  | lastEmpty =>
    rw [show uriShape .lastEmpty C = .seq (.star (.seq (.plus (.cls C)) dotR)) (.star (.cls C)) by rfl,
      lang_compStar_seq (lang_compNE C)]
    constructor
    · rintro ⟨cs, last, rfl, hcs, hl⟩
      have hl2 := lang_star_cls.1 hl
      unfold Spec.okWith
      rw [splitDot_joinDot cs last (fun c hc => nd (hcs c hc).2) (nd hl2)]
      simp only [List.dropLast_concat, List.all_append, List.all_cons, List.all_nil, Bool.and_true,
        Bool.and_eq_true, List.all_eq_true, isEmpty_eq_false_iff]
      exact ⟨⟨fun c hc => List.all_eq_true.1 (hcs c hc).2, List.all_eq_true.1 hl2⟩,
        fun c hc => (hcs c hc).1⟩
    · intro h
      obtain ⟨cs, last, rfl, h1, h2⟩ := exists_joinDot s
      unfold Spec.okWith at h
      rw [splitDot_joinDot cs last h1 h2] at h
      simp only [List.dropLast_concat, List.all_append, List.all_cons, List.all_nil, Bool.and_true,
        Bool.and_eq_true, List.all_eq_true, isEmpty_eq_false_iff] at h
      obtain ⟨⟨ha, hb⟩, hc⟩ := h
      exact ⟨cs, last, rfl, fun c hc' => ⟨hc c hc', List.all_eq_true.2 (ha c hc')⟩,
        lang_star_cls.2 (List.all_eq_true.2 hb)⟩
  | empty =>
    rw [show uriShape .empty C
        = .seq (.star (.alt (.seq (.plus (.cls C)) dotR) dotR)) (.opt (.plus (.cls C))) by rfl,
      lang_compStar_seq (lang_compAny C)]
    constructor
    · rintro ⟨cs, last, rfl, hcs, hl⟩
      have hl2 : last.all C.contains = true := by
        rcases lang_opt.1 hl with rfl | h
        · rfl
        · exact (lang_plus_cls.1 h).2
      unfold Spec.okWith
      rw [splitDot_joinDot cs last (fun c hc => nd (hcs c hc)) (nd hl2)]
      simp only [List.all_append, List.all_cons, List.all_nil, Bool.and_true, Bool.and_eq_true,
        List.all_eq_true]
      exact ⟨fun c hc => List.all_eq_true.1 (hcs c hc), List.all_eq_true.1 hl2⟩
    · intro h
      obtain ⟨cs, last, rfl, h1, h2⟩ := exists_joinDot s
      unfold Spec.okWith at h
      rw [splitDot_joinDot cs last h1 h2] at h
      simp only [List.all_append, List.all_cons, List.all_nil, Bool.and_true, Bool.and_eq_true,
        List.all_eq_true] at h
      obtain ⟨ha, hb⟩ := h
      refine ⟨cs, last, rfl, fun c hc' => List.all_eq_true.2 (ha c hc'), ?_⟩
      cases last with
      | nil => exact lang_opt.2 (.inl rfl)
      | cons c cs' => exact lang_opt.2 (.inr (lang_plus_cls.2 ⟨by simp, List.all_eq_true.2 hb⟩))

example : Rx.Lang (uriShape .lastEmpty ⟨false, [.range 'a' 'z']⟩) (chs! "ab.c.") :=
  (lang_uriShape .lastEmpty ⟨false, [.range 'a' 'z']⟩ (by decide) _).2 (by decide)

/-- the Spec only looks at characters of the text -/
theorem all_congr_mem {α : Type} {f g : α → Bool} : ∀ {l : List α}, (∀ x ∈ l, f x = g x) → l.all f = l.all g
  | [], _ => rfl
  | x :: xs, h => by
    simp only [List.all_cons, h x (List.mem_cons_self ..),
      all_congr_mem (l := xs) (fun y hy => h y (List.mem_cons_of_mem _ hy))]

theorem okWith_congr {P P' : Char → Bool} (md : Mode) {s : List Char} (h : ∀ c ∈ s, P c = P' c) :
    Spec.okWith P md s = Spec.okWith P' md s := by
  unfold Spec.okWith
  have : (splitDot s).all (fun comp => comp.all P) = (splitDot s).all (fun comp => comp.all P') :=
    all_congr_mem (fun comp hcomp => all_congr_mem (fun c hc => h c (mem_of_mem_splitDot hcomp hc)))
  simp only [this]

/-! ## 2. character classes against ASCII predicates -/

def _root_.Abverif.Rx.CItem.asciiOrDigit : CItem → Bool
  | .ch c => decide (c.toNat < 128)
  | .range _ hi => decide (hi.toNat < 128)
  | .digit => true
  | .space => false

def _root_.Abverif.Rx.CItem.isDigitItem : CItem → Bool
  | .digit => true
  | _ => false

/-- does the class mention `\d`? (false after the `[0-9]` fix) -/
def _root_.Abverif.Rx.CClass.usesDigit (C : CClass) : Bool := C.items.any CItem.isDigitItem

/-- decidable sufficient condition for "`C` is `spec` up to non-ASCII `\d` digits": `C` is a positive class of
ASCII items (and possibly `\d`), and agrees with `spec` on all 128 ASCII characters -/
def classOk (C : CClass) (spec : Char → Bool) : Bool :=
  !C.neg && C.items.all CItem.asciiOrDigit &&
    (List.range 128).all (fun n => C.contains (Char.ofNat n) == spec (Char.ofNat n))

/-- "`c` does not hit the `\d` part of F2 for class `C`" -/
def DigitOk (C : CClass) (c : Char) : Prop := C.usesDigit = true → isDigit c = true → c.toNat < 128

theorem contains_eq_of_classOk {C : CClass} {spec : Char → Bool} (hok : classOk C spec = true)
    (hspec : ∀ c : Char, 128 ≤ c.toNat → spec c = false) (c : Char) (hd : DigitOk C c) :
    C.contains c = spec c := by
  unfold classOk at hok
  simp only [Bool.and_eq_true, Bool.not_eq_true', List.all_eq_true, List.mem_range, beq_iff_eq] at hok
  obtain ⟨⟨hneg, hitems⟩, htab⟩ := hok
  by_cases hc : c.toNat < 128
  · have := htab c.toNat hc
    rw [Char.ofNat_toNat] at this
    exact this
  · rw [hspec c (by omega)]
    unfold CClass.contains
    rw [hneg]
    simp only [Bool.false_eq_true, if_false]
    rw [List.any_eq_false]
    intro it hit
    have h1 := hitems it hit
    cases it with
    | ch a =>
      simp only [CItem.asciiOrDigit, decide_eq_true_eq] at h1
      simp only [CItem.contains, decide_eq_true_eq]
      rintro rfl
      exact hc h1
    | range lo hi =>
      simp only [CItem.asciiOrDigit, decide_eq_true_eq] at h1
      simp only [CItem.contains, Bool.and_eq_true, decide_eq_true_eq, not_and]
      intro _ h2
      rw [char_le_iff] at h2
      omega
    | digit =>
      simp only [CItem.contains]
      intro h2
      have hu : C.usesDigit = true := by
        unfold CClass.usesDigit
        rw [List.any_eq_true]
        exact ⟨_, hit, rfl⟩
      exact hc (hd hu h2)
    | space => simp [CItem.asciiOrDigit] at h1

/-- two item lists with the same *set* of items define the same class (order / duplicates do not matter) -/
theorem any_eq_of_subsets {f : CItem → Bool} {l1 l2 : List CItem}
    (h12 : l1.all (fun i => decide (i ∈ l2)) = true) (h21 : l2.all (fun i => decide (i ∈ l1)) = true) :
    l1.any f = l2.any f := by
  simp only [List.all_eq_true, decide_eq_true_eq] at h12 h21
  rw [Bool.eq_iff_iff, List.any_eq_true, List.any_eq_true]
  constructor
  · rintro ⟨x, hx, hf⟩; exact ⟨x, h12 x hx, hf⟩
  · rintro ⟨x, hx, hf⟩; exact ⟨x, h21 x hx, hf⟩

def looseItems : List CItem := [.space, .ch '.', .ch '#']

/-- decidable condition for "`C` is `[^\s.#]`" (as a set of items) -/
def looseClassOk (C : CClass) : Bool :=
  C.neg && C.items.all (fun i => decide (i ∈ looseItems)) && looseItems.all (fun i => decide (i ∈ C.items))

theorem contains_eq_of_looseClassOk {C : CClass} (hok : looseClassOk C = true) (c : Char) :
    C.contains c = looseChar c := by
  unfold looseClassOk at hok
  simp only [Bool.and_eq_true] at hok
  obtain ⟨⟨hneg, h12⟩, h21⟩ := hok
  unfold CClass.contains
  rw [hneg, any_eq_of_subsets (f := (·.contains c)) h12 h21]
  simp only [if_true, looseItems, List.any_cons, List.any_nil, CItem.contains, Bool.or_false, looseChar,
    Bool.not_or, decide_not, Bool.and_assoc]

theorem asciiDigit_high {c : Char} (h : 128 ≤ c.toNat) : asciiDigit c = false := by
  unfold asciiDigit
  rw [Bool.and_eq_false_iff]
  right
  rw [decide_eq_false_iff_not, char_le_iff]
  have : ('9' : Char).toNat = 57 := by decide
  omega

theorem lowerChar_high {c : Char} (h : 128 ≤ c.toNat) : lowerChar c = false := by
  unfold lowerChar
  rw [Bool.and_eq_false_iff]
  right
  rw [decide_eq_false_iff_not, char_le_iff]
  have : ('z' : Char).toNat = 122 := by decide
  omega

theorem upperChar_high {c : Char} (h : 128 ≤ c.toNat) : upperChar c = false := by
  unfold upperChar
  rw [Bool.and_eq_false_iff]
  right
  rw [decide_eq_false_iff_not, char_le_iff]
  have : ('Z' : Char).toNat = 90 := by decide
  omega

theorem ne_of_high {c : Char} (h : 128 ≤ c.toNat) (a : Char) (ha : a.toNat < 128) : decide (c = a) = false := by
  rw [decide_eq_false_iff_not]
  rintro rfl
  omega

theorem strictChar_high (c : Char) (h : 128 ≤ c.toNat) : strictChar c = false := by
  unfold strictChar
  rw [asciiDigit_high h, lowerChar_high h, ne_of_high h '_' (by decide)]
  rfl

example : (⟨false, [.ch '_', .digit, .range 'a' 'z']⟩ : CClass).contains 'q' = strictChar 'q' :=
  contains_eq_of_classOk (by decide +kernel) strictChar_high 'q' (fun _ _ => by decide)

example : (⟨true, [.ch '#', .space, .ch '.', .ch '#']⟩ : CClass).contains 'é' = looseChar 'é' :=
  contains_eq_of_looseClassOk (by decide) 'é'

theorem matches_absEnd {p : Pat} (h : p.anchor = .absEnd) (s : List Char) : p.matches s = p.body.matchesFull s := by
  unfold Pat.matches
  rw [h]

theorem matches_dollar {p : Pat} (h : p.anchor = .dollar) (s : List Char) :
    p.matches s = (p.body.matchesFull s || (s.getLast? == some '\n' && p.body.matchesFull s.dropLast)) := by
  unfold Pat.matches
  rw [h]

theorem matches_of_no_trailing_newline {p : Pat} {s : List Char}
    (h : p.anchor = .dollar → s.getLast? ≠ some '\n') : p.matches s = p.body.matchesFull s := by
  cases ha : p.anchor with
  | absEnd => exact matches_absEnd ha s
  | dollar =>
    rw [matches_dollar ha]
    have : (s.getLast? == some '\n') = false := by
      rw [beq_eq_false_iff_ne]
      exact h ha
    rw [this, Bool.false_and, Bool.or_false]

/-! ### what the fixed source would be: `\Z` and ASCII classes — full strength, no hypotheses -/

def asciiStrictClass : CClass := ⟨false, [.range '0' '9', .range 'a' 'z', .ch '_']⟩
def looseClass : CClass := ⟨true, [.space, .ch '.', .ch '#']⟩

/-- `^(C+\.)*(C+)\Z` etc. with `C = [0-9a-z_]` *is* the strict grammar, for every text -/
theorem fixed_strict_pattern_correct (md : Mode) (s : List Char) :
    (⟨uriShape md asciiStrictClass, .absEnd⟩ : Pat).matches s = Spec.okWith strictChar md s := by
  rw [matches_absEnd rfl]
  have h1 : (uriShape md asciiStrictClass).matchesFull s = Spec.okWith asciiStrictClass.contains md s := by
    rw [Bool.eq_iff_iff, matchesFull_iff, lang_uriShape _ _ (by decide)]
  rw [h1]
  exact okWith_congr md (fun c _ =>
    contains_eq_of_classOk (spec := strictChar) (by decide +kernel) strictChar_high c
      (fun h => absurd h (by decide)))

/-- with `C = [^\s.#]` and `\Z` it *is* the loose grammar, for every text -/
theorem fixed_loose_pattern_correct (md : Mode) (s : List Char) :
    (⟨uriShape md looseClass, .absEnd⟩ : Pat).matches s = Spec.okWith looseChar md s := by
  rw [matches_absEnd rfl]
  have h1 : (uriShape md looseClass).matchesFull s = Spec.okWith looseClass.contains md s := by
    rw [Bool.eq_iff_iff, matchesFull_iff, lang_uriShape _ _ (by decide)]
  rw [h1]
  exact okWith_congr md (fun c _ => contains_eq_of_looseClassOk (by decide) c)

/-! ## 3. the six generated URI patterns -/

/-- all character classes of a regex, left to right -/
def classes : Rx → List CClass
  | .eps => []
  | .cls C => [C]
  | .seq a b => classes a ++ classes b
  | .alt a b => classes a ++ classes b
  | .star a => classes a
  | .plus a => classes a
  | .opt a => classes a
  | .rep a _ _ => classes a

def nthClass (r : Rx) (i : Nat) : CClass := (classes r).getD i ⟨false, []⟩

/-- the component class of the selected URI pattern (whatever the source says it is) -/
def uriClass (strict ae ale : Bool) : CClass := nthClass (pat strict ae ale).body 0

/-- the selected generated pattern has the shape of its mode around its own class -/
theorem pat_shape (strict ae ale : Bool) :
    (pat strict ae ale).body = uriShape (mode ae ale) (uriClass strict ae ale) := by
  cases strict <;> cases ae <;> cases ale <;> decide

theorem uriClass_noDot (strict ae ale : Bool) : (uriClass strict ae ale).contains '.' = false := by
  cases strict <;> cases ae <;> cases ale <;> decide

theorem uriClass_strict_ok (ae ale : Bool) : classOk (uriClass true ae ale) strictChar = true := by
  cases ae <;> cases ale <;> decide +kernel

theorem uriClass_loose_ok (ae ale : Bool) : looseClassOk (uriClass false ae ale) = true := by
  cases ae <;> cases ale <;> decide

theorem uriClass_loose_noDigit (ae ale : Bool) : (uriClass false ae ale).usesDigit = false := by
  cases ae <;> cases ale <;> decide

/-- the generated class is the Spec's character predicate on every character that is not a non-ASCII `\d` digit -/
theorem uriClass_contains (strict ae ale : Bool) (c : Char) (hd : DigitOk (uriClass strict ae ale) c) :
    (uriClass strict ae ale).contains c = charPred strict c := by
  cases strict with
  | true => exact contains_eq_of_classOk (uriClass_strict_ok ae ale) strictChar_high c hd
  | false => exact contains_eq_of_looseClassOk (uriClass_loose_ok ae ale) c

/-- whole-string match of the selected body = Spec, on texts without non-ASCII `\d` digits -/
theorem body_matchesFull_eq_spec (strict ae ale : Bool) (s : List Char)
    (hd : ∀ c ∈ s, DigitOk (uriClass strict ae ale) c) :
    (pat strict ae ale).body.matchesFull s = Spec.ok strict ae ale s := by
  have h1 : (pat strict ae ale).body.matchesFull s = Spec.okWith (uriClass strict ae ale).contains (mode ae ale) s := by
    rw [Bool.eq_iff_iff, matchesFull_iff, pat_shape, lang_uriShape _ _ (uriClass_noDot strict ae ale)]
  rw [h1]
  exact okWith_congr _ (fun c hc => uriClass_contains strict ae ale c (hd c hc))

/-- **full statement** (FALSE for today's source — F2; see `not_uriEquiv_of_dollar`, `not_uriEquiv_of_digit`) -/
def UriEquiv (strict ae ale : Bool) : Prop :=
  ∀ s : List Char, check strict ae ale s = Spec.ok strict ae ale s

/-- **partial**: the generated pattern equals the intended grammar on every input that does not hit F2:
no trailing "\n" (needed only while the anchor is `$`) and no non-ASCII decimal digit (needed only while the
class mentions `\d`; never needed in loose mode). -/
theorem uri_equiv_guarded (strict ae ale : Bool) (s : List Char)
    (hnl : (pat strict ae ale).anchor = .dollar → s.getLast? ≠ some '\n')
    (hdg : (uriClass strict ae ale).usesDigit = true → ∀ c ∈ s, isDigit c = true → c.toNat < 128) :
    check strict ae ale s = Spec.ok strict ae ale s := by
  unfold check
  rw [matches_of_no_trailing_newline hnl]
  exact body_matchesFull_eq_spec strict ae ale s (fun c hc hu hdc => hdg hu c hc hdc)

example : check true false false (chs! "com.example.topic_1") = Spec.ok true false false (chs! "com.example.topic_1") :=
  uri_equiv_guarded true false false _ (by decide) (by decide)

example : check false true false (chs! "com..é٣.x") = Spec.ok false true false (chs! "com..é٣.x") :=
  uri_equiv_guarded false true false _ (by decide) (by intro h; revert h; decide)

/-- exact characterisation including the `$` quirk: with `$`, a text is accepted iff it, or it minus one trailing
"\n", is in the intended grammar (still up to non-ASCII `\d` digits). -/
theorem uri_check_exact (strict ae ale : Bool) (s : List Char)
    (hdg : (uriClass strict ae ale).usesDigit = true → ∀ c ∈ s, isDigit c = true → c.toNat < 128) :
    check strict ae ale s =
      (Spec.ok strict ae ale s ||
        (decide ((pat strict ae ale).anchor = .dollar) && (s.getLast? == some '\n') &&
          Spec.ok strict ae ale s.dropLast)) := by
  have h1 := body_matchesFull_eq_spec strict ae ale s (fun c hc hu hdc => hdg hu c hc hdc)
  have h2 := body_matchesFull_eq_spec strict ae ale s.dropLast
    (fun c hc hu hdc => hdg hu c (List.dropLast_subset _ hc) hdc)
  unfold check
  cases ha : (pat strict ae ale).anchor with
  | absEnd =>
    rw [matches_absEnd ha, h1]
    simp
  | dollar =>
    rw [matches_dollar ha, h1, h2]
    simp

example : check true false false (chs! "a.b") = true ∧ check true false false (chs! "a..b") = false := by
  rw [uri_check_exact true false false _ (by decide), uri_check_exact true false false _ (by decide)]; decide

theorem mem_joinDot : ∀ (cs : List (List Char)) (last : List Char) (c : Char),
    c ∈ joinDot cs last → c = '.' ∨ (∃ comp ∈ cs, c ∈ comp) ∨ c ∈ last
  | [], _, _, h => .inr (.inr h)
  | d :: ds, last, c, h => by
    rw [show joinDot (d :: ds) last = d ++ '.' :: joinDot ds last by rfl, List.mem_append, List.mem_cons] at h
    rcases h with h | rfl | h
    · exact .inr (.inl ⟨d, List.mem_cons_self .., h⟩)
    · exact .inl rfl
    · rcases mem_joinDot ds last c h with h | ⟨comp, h1, h2⟩ | h
      · exact .inl h
      · exact .inr (.inl ⟨comp, List.mem_cons_of_mem _ h1, h2⟩)
      · exact .inr (.inr h)

/-- every character of a text accepted by the Spec is '.' or satisfies the character predicate -/
theorem char_of_okWith {P : Char → Bool} {md : Mode} {s : List Char} (h : Spec.okWith P md s = true)
    {c : Char} (hc : c ∈ s) : c = '.' ∨ P c = true := by
  obtain ⟨cs, last, rfl, h1, h2⟩ := exists_joinDot s
  unfold Spec.okWith at h
  rw [splitDot_joinDot cs last h1 h2] at h
  simp only [Bool.and_eq_true, List.all_eq_true] at h
  have hall := h.1
  rcases mem_joinDot cs last c hc with h | ⟨comp, hm, hcc⟩ | hl
  · exact .inl h
  · exact .inr (hall comp (List.mem_append_left _ hm) c hcc)
  · exact .inr (hall last (List.mem_append_right _ (List.mem_singleton_self _)) c hl)

/-- **completeness, no hypotheses**: every text of the intended grammar is accepted by the generated pattern
(F2 only ever makes the implementation accept *more*). -/
theorem uri_complete (strict ae ale : Bool) (s : List Char) (h : Spec.ok strict ae ale s = true) :
    check strict ae ale s = true := by
  have hd : ∀ c ∈ s, DigitOk (uriClass strict ae ale) c := by
    intro c hc hu _
    cases strict with
    | false => rw [uriClass_loose_noDigit] at hu; cases hu
    | true =>
      rcases char_of_okWith h hc with rfl | hp
      · decide
      · by_cases h128 : c.toNat < 128
        · exact h128
        · have hp' : strictChar c = true := hp
          rw [strictChar_high c (by omega)] at hp'
          cases hp'
  have hb := body_matchesFull_eq_spec strict ae ale s hd
  rw [h] at hb
  unfold check Pat.matches
  cases (pat strict ae ale).anchor with
  | absEnd => exact hb
  | dollar => simp only [hb, Bool.true_or]

/-- **soundness up to F2, no hypotheses on the text**: an accepted text is in the grammar, or ends in "\n" while
the anchor is `$`, or contains a non-ASCII decimal digit while the class mentions `\d` -/
theorem uri_sound_up_to_f2 (strict ae ale : Bool) (s : List Char) (h : check strict ae ale s = true) :
    Spec.ok strict ae ale s = true ∨
      ((pat strict ae ale).anchor = .dollar ∧ s.getLast? = some '\n') ∨
      ((uriClass strict ae ale).usesDigit = true ∧ ∃ c ∈ s, isDigit c = true ∧ 128 ≤ c.toNat) := by
  by_cases hnl : (pat strict ae ale).anchor = .dollar → s.getLast? ≠ some '\n'
  · by_cases hdg : (uriClass strict ae ale).usesDigit = true → ∀ c ∈ s, isDigit c = true → c.toNat < 128
    · rw [uri_equiv_guarded strict ae ale s hnl hdg] at h
      exact .inl h
    · refine .inr (.inr ?_)
      rw [Classical.not_imp] at hdg
      obtain ⟨hu, hex⟩ := hdg
      refine ⟨hu, ?_⟩
      apply Classical.byContradiction
      intro hne
      apply hex
      intro c hc hdc
      apply Classical.byContradiction
      intro hlt
      exact hne ⟨c, hc, hdc, by omega⟩
  · refine .inr (.inl ?_)
    rw [Classical.not_imp] at hnl
    exact ⟨hnl.1, Classical.not_not.1 hnl.2⟩

example : check false false true (chs! "com.myapp.") = true := uri_complete false false true _ (by decide)

/-- after the fix (`\Z`, no `\d`) the full statement holds; today the hypotheses are false -/
theorem uriEquiv_of_fixed (strict ae ale : Bool) (ha : (pat strict ae ale).anchor = .absEnd)
    (hu : (uriClass strict ae ale).usesDigit = false) : UriEquiv strict ae ale := by
  intro s
  apply uri_equiv_guarded
  · intro h; rw [ha] at h; cases h
  · intro h; rw [hu] at h; cases h

/-- loose mode needs only the anchor fix -/
theorem uriEquiv_loose_of_absEnd (ae ale : Bool) (ha : (pat false ae ale).anchor = .absEnd) :
    UriEquiv false ae ale :=
  uriEquiv_of_fixed false ae ale ha (uriClass_loose_noDigit ae ale)

/-! ### F2 witnesses (guarded, so that they stay true after the fix) -/

/-- F2a: while the anchor is `$`, "a.b\n" is accepted by every one of the six patterns, against the grammar -/
theorem f2_trailing_newline_witness (strict ae ale : Bool) :
    (pat strict ae ale).anchor = .dollar →
      check strict ae ale (chs! "a.b\n") = true ∧ Spec.ok strict ae ale (chs! "a.b\n") = false := by
  cases strict <;> cases ae <;> cases ale <;> decide

/-- F2b: while the strict class mentions `\d`, "a.٣" (ARABIC-INDIC DIGIT THREE) is accepted in strict mode -/
theorem f2_unicode_digit_witness (ae ale : Bool) :
    (uriClass true ae ale).usesDigit = true →
      check true ae ale ['a', '.', '٣'] = true ∧ Spec.ok true ae ale ['a', '.', '٣'] = false := by
  cases ae <;> cases ale <;> decide

theorem not_uriEquiv_of_dollar (strict ae ale : Bool) (h : (pat strict ae ale).anchor = .dollar) :
    ¬ UriEquiv strict ae ale := by
  intro he
  obtain ⟨h1, h2⟩ := f2_trailing_newline_witness strict ae ale h
  rw [he, h2] at h1
  cases h1

theorem not_uriEquiv_of_digit (ae ale : Bool) (h : (uriClass true ae ale).usesDigit = true) :
    ¬ UriEquiv true ae ale := by
  intro he
  obtain ⟨h1, h2⟩ := f2_unicode_digit_witness ae ale h
  rw [he, h2] at h1
  cases h1

/-! ## 4. generic helpers for the remaining patterns -/

theorem lang_cls_seq {A : CClass} {r : Rx} {w : List Char} :
    Rx.Lang (.seq (.cls A) r) w ↔ ∃ c t, w = c :: t ∧ A.contains c = true ∧ Rx.Lang r t := by
  rw [lang_seq]
  constructor
  · rintro ⟨u, v, rfl, hu, hv⟩
    obtain ⟨c, rfl, hc⟩ := lang_cls.1 hu
    exact ⟨c, v, rfl, hc, hv⟩
  · rintro ⟨c, t, rfl, hc, ht⟩
    exact ⟨[c], t, rfl, lang_cls.2 ⟨c, rfl, hc⟩, ht⟩

/-- `p.matches = spec` from `matchesFull = spec`, on texts without a trailing newline (or with `\Z`) -/
theorem pat_matches_eq {p : Pat} {spec : List Char → Bool} {s : List Char}
    (hnl : p.anchor = .dollar → s.getLast? ≠ some '\n') (hbody : p.body.matchesFull s = spec s) :
    p.matches s = spec s := by
  rw [matches_of_no_trailing_newline hnl, hbody]

/-- a class that passes `classOk` is its ASCII predicate on every character that is not a non-ASCII `\d` digit -/
theorem contains_eq_spec {C : CClass} {spec : Char → Bool} (hok : classOk C spec = true)
    (hspec : ∀ c : Char, 128 ≤ c.toNat → spec c = false) {s : List Char}
    (hdg : C.usesDigit = true → ∀ c ∈ s, isDigit c = true → c.toNat < 128) :
    ∀ c ∈ s, C.contains c = spec c :=
  fun c hc => contains_eq_of_classOk hok hspec c (fun hu hdc => hdg hu c hc hdc)

theorem punctChar_high (c : Char) (h : 128 ≤ c.toNat) : punctChar c = false := by
  unfold punctChar
  rw [ne_of_high h '_' (by decide), ne_of_high h '-' (by decide), ne_of_high h '@' (by decide),
    ne_of_high h '.' (by decide)]
  rfl

theorem alphaChar_high (c : Char) (h : 128 ≤ c.toNat) : alphaChar c = false := by
  unfold alphaChar
  rw [upperChar_high h, lowerChar_high h]
  rfl

theorem realmChar_high (c : Char) (h : 128 ≤ c.toNat) : realmChar c = false := by
  unfold realmChar
  rw [alphaChar_high c h, asciiDigit_high h, punctChar_high c h]
  rfl

theorem ensChar_high (c : Char) (h : 128 ≤ c.toNat) : ensChar c = false := by
  unfold ensChar
  rw [lowerChar_high h, asciiDigit_high h, punctChar_high c h]
  rfl

theorem hexChar_high (c : Char) (h : 128 ≤ c.toNat) : hexChar c = false := by
  unfold hexChar
  rw [asciiDigit_high h]
  have h1 : decide (c ≤ 'F') = false := by
    rw [decide_eq_false_iff_not, char_le_iff]
    have : ('F' : Char).toNat = 70 := by decide
    omega
  have h2 : decide (c ≤ 'f') = false := by
    rw [decide_eq_false_iff_not, char_le_iff]
    have : ('f' : Char).toNat = 102 := by decide
    omega
  rw [h1, h2]
  simp

/-! ## 5. `_CUSTOM_ATTRIBUTE` — intended: "x_" optionally followed by `[a-z][0-9a-z_]+` -/

/-- AST shape of `^x_(A C+)?$` -/
def caShape (A C : CClass) : Rx := litThen ['x', '_'] (.opt (.seq (.cls A) (.plus (.cls C))))

theorem lang_caShape (A C : CClass) (s : List Char) :
    Rx.Lang (caShape A C) s ↔ CustomAttr.Spec.okWith A.contains C.contains s = true := by
  unfold caShape
  rw [lang_litThen]
  constructor
  · rintro ⟨t, rfl, ht⟩
    rcases lang_opt.1 ht with rfl | ht
    · simp [CustomAttr.Spec.okWith]
    · obtain ⟨c, cs, rfl, hc, hcs⟩ := lang_cls_seq.1 ht
      obtain ⟨h1, h2⟩ := lang_plus_cls.1 hcs
      simp only [List.cons_append, List.nil_append, CustomAttr.Spec.okWith, decide_true, Bool.true_and, hc, h2,
        Bool.and_true, isEmpty_eq_false_iff]
      exact h1
  · intro h
    match s, h with
    | a :: b :: tl, h =>
      simp only [CustomAttr.Spec.okWith, Bool.and_eq_true, decide_eq_true_eq] at h
      obtain ⟨⟨rfl, rfl⟩, h3⟩ := h
      refine ⟨tl, rfl, ?_⟩
      match tl, h3 with
      | [], _ => exact lang_opt.2 (.inl rfl)
      | c :: cs, h3 =>
        simp only [Bool.and_eq_true, isEmpty_eq_false_iff] at h3
        exact lang_opt.2 (.inr (lang_cls_seq.2 ⟨c, cs, rfl, h3.1.1, lang_plus_cls.2 ⟨h3.1.2, h3.2⟩⟩))

theorem ca_okWith_congr {A A' C C' : Char → Bool} {s : List Char}
    (hA : ∀ c ∈ s, A c = A' c) (hC : ∀ c ∈ s, C c = C' c) :
    CustomAttr.Spec.okWith A C s = CustomAttr.Spec.okWith A' C' s := by
  match s with
  | [] => rfl
  | [_] => rfl
  | [_, _] => rfl
  | a :: b :: c :: cs =>
    have h1 : A c = A' c := hA c (by simp)
    have h2 : cs.all C = cs.all C' := all_congr_mem (fun x hx => hC x (by simp [hx]))
    simp only [CustomAttr.Spec.okWith, h1, h2]

def caFirst : CClass := nthClass _CUSTOM_ATTRIBUTE.body 2
def caRest : CClass := nthClass _CUSTOM_ATTRIBUTE.body 3

theorem ca_shape : _CUSTOM_ATTRIBUTE.body = caShape caFirst caRest := by decide
theorem caFirst_ok : classOk caFirst lowerChar = true := by decide +kernel
theorem caFirst_noDigit : caFirst.usesDigit = false := by decide
theorem caRest_ok : classOk caRest strictChar = true := by decide +kernel

/-- **full statement** (FALSE today: "x_\n", "x_a٣") -/
def CustomAttrEquiv : Prop := ∀ s : List Char, customAttr s = CustomAttr.Spec.ok s

/-- **partial**: equal on every input without trailing "\n" (while `$`) and without non-ASCII digit (while `\d`) -/
theorem custom_attr_equiv_guarded (s : List Char)
    (hnl : _CUSTOM_ATTRIBUTE.anchor = .dollar → s.getLast? ≠ some '\n')
    (hdg : caRest.usesDigit = true → ∀ c ∈ s, isDigit c = true → c.toNat < 128) :
    customAttr s = CustomAttr.Spec.ok s := by
  unfold customAttr
  apply pat_matches_eq hnl
  have h1 : _CUSTOM_ATTRIBUTE.body.matchesFull s = CustomAttr.Spec.okWith caFirst.contains caRest.contains s := by
    rw [Bool.eq_iff_iff, matchesFull_iff, ca_shape, lang_caShape]
  rw [h1]
  exact ca_okWith_congr
    (contains_eq_spec caFirst_ok (fun c h => lowerChar_high h) (fun h => by rw [caFirst_noDigit] at h; cases h))
    (contains_eq_spec caRest_ok strictChar_high hdg)

example : customAttr (chs! "x_my_attr1") = CustomAttr.Spec.ok (chs! "x_my_attr1") :=
  custom_attr_equiv_guarded _ (by decide) (by decide)

theorem customAttrEquiv_of_fixed (ha : _CUSTOM_ATTRIBUTE.anchor = .absEnd) (hu : caRest.usesDigit = false) :
    CustomAttrEquiv := by
  intro s
  apply custom_attr_equiv_guarded
  · intro h; rw [ha] at h; cases h
  · intro h; rw [hu] at h; cases h

theorem f2_custom_attr_newline_witness : _CUSTOM_ATTRIBUTE.anchor = .dollar →
    customAttr (chs! "x_\n") = true ∧ CustomAttr.Spec.ok (chs! "x_\n") = false := by decide

theorem f2_custom_attr_digit_witness : caRest.usesDigit = true →
    customAttr ['x', '_', 'a', '٣'] = true ∧ CustomAttr.Spec.ok ['x', '_', 'a', '٣'] = false := by decide

theorem not_customAttrEquiv_of_dollar (h : _CUSTOM_ATTRIBUTE.anchor = .dollar) : ¬ CustomAttrEquiv := by
  intro he
  obtain ⟨h1, h2⟩ := f2_custom_attr_newline_witness h
  rw [he, h2] at h1
  cases h1

/-! ## 6. realm names -/

/-! ### standalone: a letter then 2..254 of `[A-Za-z0-9_\-@.]` -/

theorem lang_nameShape (A B : CClass) (s : List Char) :
    Rx.Lang (.seq (.cls A) (.rep (.cls B) 2 254)) s ↔ Realm.Spec.nameWith A.contains B.contains s = true := by
  rw [lang_cls_seq]
  constructor
  · rintro ⟨c, t, rfl, hc, ht⟩
    obtain ⟨h1, h2, h3⟩ := lang_rep_cls.1 ht
    simp only [Realm.Spec.nameWith, hc, h3, Bool.and_true, Bool.true_and, Bool.and_eq_true, decide_eq_true_eq]
    exact ⟨h1, h2⟩
  · intro h
    match s, h with
    | c :: cs, h =>
      simp only [Realm.Spec.nameWith, Bool.and_eq_true, decide_eq_true_eq] at h
      exact ⟨c, cs, rfl, h.1.1.1, lang_rep_cls.2 ⟨h.1.1.2, h.1.2, h.2⟩⟩

theorem nameWith_congr {A A' B B' : Char → Bool} {s : List Char}
    (hA : ∀ c ∈ s, A c = A' c) (hB : ∀ c ∈ s, B c = B' c) :
    Realm.Spec.nameWith A B s = Realm.Spec.nameWith A' B' s := by
  match s with
  | [] => rfl
  | c :: cs =>
    have h1 : A c = A' c := hA c (by simp)
    have h2 : cs.all B = cs.all B' := all_congr_mem (fun x hx => hB x (by simp [hx]))
    simp only [Realm.Spec.nameWith, h1, h2]

def nameFirst : CClass := nthClass _URI_PAT_REALM_NAME.body 0
def nameRest : CClass := nthClass _URI_PAT_REALM_NAME.body 1

theorem name_shape : _URI_PAT_REALM_NAME.body = .seq (.cls nameFirst) (.rep (.cls nameRest) 2 254) := by decide
theorem nameFirst_ok : classOk nameFirst alphaChar = true := by decide +kernel
theorem nameFirst_noDigit : nameFirst.usesDigit = false := by decide
theorem nameRest_ok : classOk nameRest realmChar = true := by decide +kernel

/-- **full statement** (FALSE today: "abc\n", "ab٣") -/
def RealmNameEquiv : Prop := ∀ s : List Char, realmName s = Realm.Spec.name s

theorem realm_name_equiv_guarded (s : List Char)
    (hnl : _URI_PAT_REALM_NAME.anchor = .dollar → s.getLast? ≠ some '\n')
    (hdg : nameRest.usesDigit = true → ∀ c ∈ s, isDigit c = true → c.toNat < 128) :
    realmName s = Realm.Spec.name s := by
  unfold realmName
  apply pat_matches_eq hnl
  have h1 : _URI_PAT_REALM_NAME.body.matchesFull s = Realm.Spec.nameWith nameFirst.contains nameRest.contains s := by
    rw [Bool.eq_iff_iff, matchesFull_iff, name_shape, lang_nameShape]
  rw [h1]
  exact nameWith_congr
    (contains_eq_spec nameFirst_ok alphaChar_high (fun h => by rw [nameFirst_noDigit] at h; cases h))
    (contains_eq_spec nameRest_ok realmChar_high hdg)

example : realmName (chs! "realm-1.example@x") = Realm.Spec.name (chs! "realm-1.example@x") :=
  realm_name_equiv_guarded _ (by decide) (by decide)

theorem realmNameEquiv_of_fixed (ha : _URI_PAT_REALM_NAME.anchor = .absEnd) (hu : nameRest.usesDigit = false) :
    RealmNameEquiv := by
  intro s
  apply realm_name_equiv_guarded
  · intro h; rw [ha] at h; cases h
  · intro h; rw [hu] at h; cases h

theorem f2_realm_name_newline_witness : _URI_PAT_REALM_NAME.anchor = .dollar →
    realmName (chs! "abc\n") = true ∧ Realm.Spec.name (chs! "abc\n") = false := by decide

theorem f2_realm_name_digit_witness : nameRest.usesDigit = true →
    realmName ['a', 'b', '٣'] = true ∧ Realm.Spec.name ['a', 'b', '٣'] = false := by decide

/-! ### Ethereum address: "0x" + 40 hex digits -/

theorem lang_ethShape (H : CClass) (s : List Char) :
    Rx.Lang (litThen ['0', 'x'] (.rep (.cls H) 40 40)) s ↔ Realm.Spec.ethWith H.contains s = true := by
  rw [lang_litThen]
  constructor
  · rintro ⟨t, rfl, ht⟩
    obtain ⟨h1, h2, h3⟩ := lang_rep_cls.1 ht
    have hl : t.length = 40 := by omega
    simp only [Realm.Spec.ethWith, List.cons_append, List.nil_append, List.take_succ_cons, List.take_zero,
      List.drop_succ_cons, List.drop_zero, decide_true, Bool.true_and, hl, h3]
  · intro h
    simp only [Realm.Spec.ethWith, Bool.and_eq_true, decide_eq_true_eq] at h
    obtain ⟨⟨h1, h2⟩, h3⟩ := h
    refine ⟨s.drop 2, ?_, lang_rep_cls.2 ⟨by omega, by omega, h3⟩⟩
    rw [← h1, List.take_append_drop]

theorem ethWith_congr {H H' : Char → Bool} {s : List Char} (hH : ∀ c ∈ s, H c = H' c) :
    Realm.Spec.ethWith H s = Realm.Spec.ethWith H' s := by
  have : (s.drop 2).all H = (s.drop 2).all H' := all_congr_mem (fun x hx => hH x (List.mem_of_mem_drop hx))
  simp only [Realm.Spec.ethWith, this]

def ethHex : CClass := nthClass _URI_PAT_REALM_NAME_ETH.body 2

theorem eth_shape : _URI_PAT_REALM_NAME_ETH.body = litThen ['0', 'x'] (.rep (.cls ethHex) 40 40) := by decide
theorem ethHex_ok : classOk ethHex hexChar = true := by decide +kernel

/-- **full statement** (FALSE today) -/
def RealmEthEquiv : Prop := ∀ s : List Char, realmEth s = Realm.Spec.eth s

theorem realm_eth_equiv_guarded (s : List Char)
    (hnl : _URI_PAT_REALM_NAME_ETH.anchor = .dollar → s.getLast? ≠ some '\n')
    (hdg : ethHex.usesDigit = true → ∀ c ∈ s, isDigit c = true → c.toNat < 128) :
    realmEth s = Realm.Spec.eth s := by
  unfold realmEth
  apply pat_matches_eq hnl
  have h1 : _URI_PAT_REALM_NAME_ETH.body.matchesFull s = Realm.Spec.ethWith ethHex.contains s := by
    rw [Bool.eq_iff_iff, matchesFull_iff, eth_shape, lang_ethShape]
  rw [h1]
  exact ethWith_congr (contains_eq_spec ethHex_ok hexChar_high hdg)

example : realmEth (chs! "0x52908400098527886E0F7030069857D2E4169EE7")
    = Realm.Spec.eth (chs! "0x52908400098527886E0F7030069857D2E4169EE7") :=
  realm_eth_equiv_guarded _ (by decide) (by decide)

theorem realmEthEquiv_of_fixed (ha : _URI_PAT_REALM_NAME_ETH.anchor = .absEnd) (hu : ethHex.usesDigit = false) :
    RealmEthEquiv := by
  intro s
  apply realm_eth_equiv_guarded
  · intro h; rw [ha] at h; cases h
  · intro h; rw [hu] at h; cases h

theorem f2_realm_eth_newline_witness : _URI_PAT_REALM_NAME_ETH.anchor = .dollar →
    realmEth (chs! "0x52908400098527886E0F7030069857D2E4169EE7\n") = true ∧
      Realm.Spec.eth (chs! "0x52908400098527886E0F7030069857D2E4169EE7\n") = false := by decide +kernel

theorem f2_realm_eth_digit_witness : ethHex.usesDigit = true →
    realmEth (chs! "0x52908400098527886E0F7030069857D2E4169EE٣") = true ∧
      Realm.Spec.eth (chs! "0x52908400098527886E0F7030069857D2E4169EE٣") = false := by decide +kernel

/-! ### ENS name: 2..250 of `[a-z0-9_\-@.]` then ".eth"; reverse: "eth." then 2..250 of the same -/

theorem lang_ensShape (E : CClass) (s : List Char) :
    Rx.Lang (.seq (.rep (.cls E) 2 250) (litStr ['.', 'e', 't', 'h'])) s ↔
      Realm.Spec.ensWith E.contains s = true := by
  rw [lang_seq]
  constructor
  · rintro ⟨body, w, rfl, hb, hw⟩
    rw [lang_litStr] at hw
    subst hw
    obtain ⟨h1, h2, h3⟩ := lang_rep_cls.1 hb
    have hl : (body ++ ['.', 'e', 't', 'h']).length - 4 = body.length := by
      simp only [List.length_append, List.length_cons, List.length_nil]
      omega
    simp only [Realm.Spec.ensWith, hl, List.drop_left' rfl, List.take_left' rfl, decide_true, Bool.true_and, h3,
      Bool.and_true, Bool.and_eq_true, decide_eq_true_eq]
    exact ⟨h1, h2⟩
  · intro h
    simp only [Realm.Spec.ensWith, Bool.and_eq_true, decide_eq_true_eq] at h
    obtain ⟨⟨⟨h1, h2⟩, h3⟩, h4⟩ := h
    refine ⟨s.take (s.length - 4), s.drop (s.length - 4), (List.take_append_drop _ _).symm,
      lang_rep_cls.2 ⟨h2, h3, h4⟩, ?_⟩
    rw [h1, lang_litStr]

theorem ensWith_congr {P P' : Char → Bool} {s : List Char} (h : ∀ c ∈ s, P c = P' c) :
    Realm.Spec.ensWith P s = Realm.Spec.ensWith P' s := by
  have : (s.take (s.length - 4)).all P = (s.take (s.length - 4)).all P' :=
    all_congr_mem (fun x hx => h x (List.mem_of_mem_take hx))
  simp only [Realm.Spec.ensWith, this]

theorem lang_ensRevShape (E : CClass) (s : List Char) :
    Rx.Lang (litThen ['e', 't', 'h', '.'] (.rep (.cls E) 2 250)) s ↔
      Realm.Spec.ensReverseWith E.contains s = true := by
  rw [lang_litThen]
  constructor
  · rintro ⟨t, rfl, ht⟩
    obtain ⟨h1, h2, h3⟩ := lang_rep_cls.1 ht
    simp only [Realm.Spec.ensReverseWith, List.cons_append, List.nil_append, List.take_succ_cons, List.take_zero,
      List.drop_succ_cons, List.drop_zero, decide_true, Bool.true_and, h3, Bool.and_true, Bool.and_eq_true,
      decide_eq_true_eq]
    exact ⟨h1, h2⟩
  · intro h
    simp only [Realm.Spec.ensReverseWith, Bool.and_eq_true, decide_eq_true_eq] at h
    obtain ⟨⟨⟨h1, h2⟩, h3⟩, h4⟩ := h
    refine ⟨s.drop 4, ?_, lang_rep_cls.2 ⟨h2, h3, h4⟩⟩
    rw [← h1, List.take_append_drop]

theorem ensReverseWith_congr {P P' : Char → Bool} {s : List Char} (h : ∀ c ∈ s, P c = P' c) :
    Realm.Spec.ensReverseWith P s = Realm.Spec.ensReverseWith P' s := by
  have : (s.drop 4).all P = (s.drop 4).all P' := all_congr_mem (fun x hx => h x (List.mem_of_mem_drop hx))
  simp only [Realm.Spec.ensReverseWith, this]

def ensClass : CClass := nthClass _URI_PAT_REALM_NAME_ENS.body 0
def ensRevClass : CClass := nthClass _URI_PAT_REALM_NAME_ENS_REVERSE.body 4

theorem ens_shape :
    _URI_PAT_REALM_NAME_ENS.body = .seq (.rep (.cls ensClass) 2 250) (litStr ['.', 'e', 't', 'h']) := by decide
theorem ensRev_shape :
    _URI_PAT_REALM_NAME_ENS_REVERSE.body = litThen ['e', 't', 'h', '.'] (.rep (.cls ensRevClass) 2 250) := by decide
theorem ensClass_ok : classOk ensClass ensChar = true := by decide +kernel
theorem ensRevClass_ok : classOk ensRevClass ensChar = true := by decide +kernel

/-- **full statements** (FALSE today) -/
def RealmEnsEquiv : Prop := ∀ s : List Char, realmEns s = Realm.Spec.ens s
def RealmEnsReverseEquiv : Prop := ∀ s : List Char, realmEnsReverse s = Realm.Spec.ensReverse s

theorem realm_ens_equiv_guarded (s : List Char)
    (hnl : _URI_PAT_REALM_NAME_ENS.anchor = .dollar → s.getLast? ≠ some '\n')
    (hdg : ensClass.usesDigit = true → ∀ c ∈ s, isDigit c = true → c.toNat < 128) :
    realmEns s = Realm.Spec.ens s := by
  unfold realmEns
  apply pat_matches_eq hnl
  have h1 : _URI_PAT_REALM_NAME_ENS.body.matchesFull s = Realm.Spec.ensWith ensClass.contains s := by
    rw [Bool.eq_iff_iff, matchesFull_iff, ens_shape, lang_ensShape]
  rw [h1]
  exact ensWith_congr (contains_eq_spec ensClass_ok ensChar_high hdg)

theorem realm_ens_reverse_equiv_guarded (s : List Char)
    (hnl : _URI_PAT_REALM_NAME_ENS_REVERSE.anchor = .dollar → s.getLast? ≠ some '\n')
    (hdg : ensRevClass.usesDigit = true → ∀ c ∈ s, isDigit c = true → c.toNat < 128) :
    realmEnsReverse s = Realm.Spec.ensReverse s := by
  unfold realmEnsReverse
  apply pat_matches_eq hnl
  have h1 : _URI_PAT_REALM_NAME_ENS_REVERSE.body.matchesFull s
      = Realm.Spec.ensReverseWith ensRevClass.contains s := by
    rw [Bool.eq_iff_iff, matchesFull_iff, ensRev_shape, lang_ensRevShape]
  rw [h1]
  exact ensReverseWith_congr (contains_eq_spec ensRevClass_ok ensChar_high hdg)

example : realmEns (chs! "my-realm_1.eth") = Realm.Spec.ens (chs! "my-realm_1.eth") :=
  realm_ens_equiv_guarded _ (by decide) (by decide)

example : realmEnsReverse (chs! "eth.my-realm_1") = Realm.Spec.ensReverse (chs! "eth.my-realm_1") :=
  realm_ens_reverse_equiv_guarded _ (by decide) (by decide)

theorem realmEnsEquiv_of_fixed (ha : _URI_PAT_REALM_NAME_ENS.anchor = .absEnd) (hu : ensClass.usesDigit = false) :
    RealmEnsEquiv := by
  intro s
  apply realm_ens_equiv_guarded
  · intro h; rw [ha] at h; cases h
  · intro h; rw [hu] at h; cases h

theorem realmEnsReverseEquiv_of_fixed (ha : _URI_PAT_REALM_NAME_ENS_REVERSE.anchor = .absEnd)
    (hu : ensRevClass.usesDigit = false) : RealmEnsReverseEquiv := by
  intro s
  apply realm_ens_reverse_equiv_guarded
  · intro h; rw [ha] at h; cases h
  · intro h; rw [hu] at h; cases h

theorem f2_realm_ens_newline_witness : _URI_PAT_REALM_NAME_ENS.anchor = .dollar →
    realmEns (chs! "ab.eth\n") = true ∧ Realm.Spec.ens (chs! "ab.eth\n") = false := by decide

theorem f2_realm_ens_digit_witness : ensClass.usesDigit = true →
    realmEns ['a', '٣', '.', 'e', 't', 'h'] = true ∧ Realm.Spec.ens ['a', '٣', '.', 'e', 't', 'h'] = false := by
  decide

theorem f2_realm_ens_reverse_newline_witness : _URI_PAT_REALM_NAME_ENS_REVERSE.anchor = .dollar →
    realmEnsReverse (chs! "eth.ab\n") = true ∧ Realm.Spec.ensReverse (chs! "eth.ab\n") = false := by decide

theorem f2_realm_ens_reverse_digit_witness : ensRevClass.usesDigit = true →
    realmEnsReverse ['e', 't', 'h', '.', 'a', '٣'] = true ∧
      Realm.Spec.ensReverse ['e', 't', 'h', '.', 'a', '٣'] = false := by
  decide

/-! ### FULL statements (since /repo 8a098028: every pattern ends in `\Z` and uses `0-9`)

The `*_guarded` theorems above hold for any generated pattern of the right shape; their two hypotheses (end anchor `$`
⇒ no trailing newline, class uses `\d` ⇒ no non-ASCII digit) are now vacuous for the regenerated patterns, which the
`decide`s below check.  Re-introducing `$` or `\d` in message.py makes exactly these theorems fail to build. -/

/-- **check_or_raise_uri accepts exactly the intended URI grammar**, for every flag triple and every string -/
theorem uri_equiv (strict ae ale : Bool) : UriEquiv strict ae ale :=
  uriEquiv_of_fixed strict ae ale
    (by cases strict <;> cases ae <;> cases ale <;> decide)
    (by cases strict <;> cases ae <;> cases ale <;> decide)

theorem custom_attr_equiv : CustomAttrEquiv := customAttrEquiv_of_fixed (by decide) (by decide)
theorem realm_name_equiv : RealmNameEquiv := realmNameEquiv_of_fixed (by decide) (by decide)
theorem realm_eth_equiv : RealmEthEquiv := realmEthEquiv_of_fixed (by decide) (by decide)
theorem realm_ens_equiv : RealmEnsEquiv := realmEnsEquiv_of_fixed (by decide) (by decide)
theorem realm_ens_reverse_equiv : RealmEnsReverseEquiv := realmEnsReverseEquiv_of_fixed (by decide) (by decide)

end Abverif.Uri
