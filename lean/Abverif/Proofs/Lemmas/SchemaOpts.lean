import Abverif.Proofs.Lemmas.SchemaBasics
/-
Option entries: `OTy.check` accepts exactly the values of the declared type (`OTy.valid`), and a lookup in the
dictionary written by `marshal` finds exactly the entry of its own step.
-/
namespace Abverif.Wamp

def OTy.isRoles : OTy → Bool
  | .roles _ _ => true
  | _ => false

theorem OTy.encode_of_not_roles {ty : OTy} (h : ty.isRoles = false) (v : WVal) : ty.encode v = v := by
  cases ty <;> simp_all [OTy.encode, OTy.isRoles]

theorem isDflt_eq {d v : WVal} (h : isDflt d v = true) : v = d := by
  cases d <;> cases v <;> simp_all [isDflt]

theorem isDflt_self {d : WVal} (h : (match d with | .null => true | .str _ => true | _ => false) = true) :
    isDflt d d = true := by
  cases d <;> simp_all [isDflt]

/-- a value of the declared type passes the check unchanged -/
theorem OTy.check_of_valid (O : Oracles) (site : Str) {ty : OTy} {v : WVal}
    (hr : ty.isRoles = false) (h : ty.valid O v = true) : ty.check O site v = .ok v := by
  cases ty with
  | bool => cases v <;> simp_all [OTy.valid, OTy.check, WVal.isBool]
  | int min =>
    cases min with
    | none => cases v <;> simp_all [OTy.valid, OTy.check, WVal.isInt]
    | some lo =>
      cases v <;> simp_all [OTy.valid, OTy.check]
      omega
  | str => cases v <;> simp_all [OTy.valid, OTy.check, WVal.isStr]
  | strEnum vals => cases v <;> simp_all [OTy.valid, OTy.check]
  | listInt => cases v <;> simp_all [OTy.valid, OTy.check]
  | listStr => cases v <;> simp_all [OTy.valid, OTy.check]
  | dict => cases v <;> simp_all [OTy.valid, OTy.check, WVal.isDict]
  | uri fl => simp_all [OTy.valid, OTy.check, checkUri]
  | strUri n => cases v <;> simp_all [OTy.valid, OTy.check, checkUri, uriOk]
  | forwardFor atParse =>
    cases v <;> simp_all [OTy.valid, OTy.check]
    cases atParse <;> simp_all
  | id => cases v <;> simp_all [OTy.valid, OTy.check]
  | listId => cases v <;> simp_all [OTy.valid, OTy.check]
  | boolOrNull => cases v <;> simp_all [OTy.valid, OTy.check, WVal.isNull, WVal.isBool]
  | strOrNull => cases v <;> simp_all [OTy.valid, OTy.check, WVal.isNull, WVal.isStr]
  | dictOrNull => cases v <;> simp_all [OTy.valid, OTy.check, WVal.isNull, WVal.isDict]
  | roles a f => simp [OTy.isRoles] at hr

/-- what passes the check has the declared type (and, apart from `roles`, is returned unchanged) -/
theorem OTy.valid_of_check (O : Oracles) (site : Str) {ty : OTy} {v w : WVal}
    (hr : ty.isRoles = false) (h : ty.check O site v = .ok w) : w = v ∧ ty.valid O v = true := by
  cases ty with
  | bool => cases v <;> simp_all [OTy.valid, OTy.check, WVal.isBool, fail]
  | int min =>
    cases min with
    | none => cases v <;> simp_all [OTy.valid, OTy.check, WVal.isInt, fail]
    | some lo =>
      cases v <;> simp_all [OTy.valid, OTy.check, fail]
      split at h <;> simp_all
  | str => cases v <;> simp_all [OTy.valid, OTy.check, WVal.isStr, fail]
  | strEnum vals =>
    cases v <;> simp_all [OTy.valid, OTy.check, fail]
    split at h <;> simp_all
  | listInt =>
    cases v <;> simp_all [OTy.valid, OTy.check, fail]
    split at h <;> simp_all
  | listStr =>
    cases v <;> simp_all [OTy.valid, OTy.check, fail]
    split at h <;> simp_all
  | dict => cases v <;> simp_all [OTy.valid, OTy.check, WVal.isDict, fail]
  | uri fl =>
    simp only [OTy.check, checkUri, fail] at h
    split at h <;> simp_all [OTy.valid]
  | strUri n =>
    cases v <;> simp_all [OTy.valid, OTy.check, checkUri, uriOk, fail]
    all_goals first
      | (cases hc : O.uriCheck false false false _ <;> simp_all)
      | (split at h <;> simp_all)
  | forwardFor atParse =>
    cases v <;> simp_all [OTy.valid, OTy.check, fail]
    split at h <;> simp_all
    cases atParse <;> simp_all
  | id =>
    cases v <;> simp_all [OTy.valid, OTy.check, fail]
    split at h <;> simp_all
  | listId =>
    cases v <;> simp_all [OTy.valid, OTy.check, fail]
    split at h <;> simp_all
  | boolOrNull => cases v <;> simp_all [OTy.valid, OTy.check, WVal.isNull, WVal.isBool, fail]
  | strOrNull => cases v <;> simp_all [OTy.valid, OTy.check, WVal.isNull, WVal.isStr, fail]
  | dictOrNull => cases v <;> simp_all [OTy.valid, OTy.check, WVal.isNull, WVal.isDict, fail]
  | roles a f => simp [OTy.isRoles] at hr

end Abverif.Wamp
