import Abverif.Proofs.Lemmas.WsOps
/-
The invariant behind "reported clean only if close frames travelled in both directions":
`J s`: a connection that is CLOSING, or whose close is (so far) marked clean, has sent its close frame
(history variable `closeSent`, appended by `sendCloseFrame` together with the frame).  `JP a b := J a → J b` is proved
for every engine function, bottom-up, in the same order as `WsOps.lean`.
-/
namespace Abverif.Ws

def J (s : S) : Prop := (s.st = .closing → s.closeSent ≠ []) ∧ (s.wasClean = true → s.closeSent ≠ [])

def JP (a b : S) : Prop := J a → J b

theorem JP.refl (a : S) : JP a a := id
theorem JP.trans {a b c : S} (h1 : JP a b) (h2 : JP b c) : JP a c := fun h => h2 (h1 h)

theorem JP.of_le {a b : S} (h1 : b.st = .closing → a.st = .closing) (h2 : a.closeSent ≠ [] → b.closeSent ≠ [])
    (h3 : b.wasClean = true → a.wasClean = true) : JP a b :=
  fun j => ⟨fun hc => h2 (j.1 (h1 hc)), fun hw => h2 (j.2 (h3 hw))⟩

theorem JP.of_same {a b : S} (h1 : b.st = a.st) (h2 : b.closeSent = a.closeSent) (h3 : b.wasClean = a.wasClean) :
    JP a b :=
  JP.of_le (fun h => by rw [← h1]; exact h) (fun h => by rw [h2]; exact h) (fun h => by rw [← h3]; exact h)

theorem JP.pre {a a' b : S} (h : JP a' b) (h1 : a'.st = a.st) (h2 : a'.closeSent = a.closeSent)
    (h3 : a'.wasClean = a.wasClean) : JP a b := (JP.of_same h1 h2 h3).trans h

/-- the start state differs from `a` by fields `J` does not read, and its `wasClean` has been cleared -/
theorem JP.preF {a a' b : S} (h : JP a' b) (h1 : a'.st = a.st) (h2 : a'.closeSent = a.closeSent)
    (h3 : a'.wasClean = false) : JP a b :=
  (JP.of_le (fun x => by rw [← h1]; exact x) (fun x => by rw [h2]; exact x) (fun x => by rw [h3] at x; cases x)).trans h

theorem JP.post {a b b' : S} (h : JP a b) (h1 : b'.st = b.st) (h2 : b'.closeSent = b.closeSent)
    (h3 : b'.wasClean = b.wasClean) : JP a b' := h.trans (JP.of_same h1 h2 h3)


theorem JP.of_SendEq {a b : S} (h : SendEq a b) : JP a b := JP.of_same h.st h.closeSent h.wasClean

theorem emit_JP (s : S) (o : Out) : JP s (s.emit o) := JP.of_same rfl rfl rfl
theorem timer_JP (s : S) (d : Nat) : JP s (s.timer d).1 := JP.of_same rfl rfl rfl
theorem armCloseHs_JP (s : S) : JP s (armCloseHs s) := JP.of_same rfl rfl rfl
theorem armServerDrop_JP (s : S) : JP s (armServerDrop s) := JP.of_same rfl rfl rfl
theorem armPingNext_JP (s : S) : JP s (armPingNext s) := JP.of_same rfl rfl rfl
theorem armPingTimeout_JP (s : S) : JP s (armPingTimeout s) := JP.of_same rfl rfl rfl
theorem sendTick_JP (s : S) : JP s (sendTick s) := JP.of_SendEq (sendTick_SendEq s)
theorem sendFrame_JP (s : S) (op : Nat) (pl : Bytes) (fin : Bool) (rsv : Nat) (sync : Bool) (chop : Nat) :
    JP s (sendFrame s op pl fin rsv sync chop) := JP.of_SendEq (sendFrame_SendEq s op pl fin rsv sync chop)

theorem sendPing_JP (s : S) (pl : Bytes) : JP s (sendPing s pl) := by
  unfold sendPing
  split
  · exact JP.refl s
  · split
    · exact emit_JP _ _
    · exact sendFrame_JP _ _ _ _ _ _ _

theorem sendPong_JP (s : S) (pl : Bytes) : JP s (sendPong s pl) := by
  unfold sendPong
  split
  · exact JP.refl s
  · split
    · exact emit_JP _ _
    · exact sendFrame_JP _ _ _ _ _ _ _

/-- sending the close frame records it -/
theorem sendCloseFrame_opened (s : S) (c : Option Nat) (r : Option Bytes) (i : Bool) (ho : s.st = .opened) :
    (sendCloseFrame s c r i).closeSent ≠ [] := by
  unfold sendCloseFrame
  rw [ho]
  dsimp only
  split <;> simp [armCloseHs, S.timer]

theorem sendCloseFrame_JP (s : S) (c : Option Nat) (r : Option Bytes) (i : Bool) : JP s (sendCloseFrame s c r i) := by
  intro j
  have hne : s.st = .opened → (sendCloseFrame s c r i).closeSent ≠ [] := sendCloseFrame_opened s c r i
  unfold sendCloseFrame at hne ⊢
  split
  · exact j
  · exact j
  · exact emit_JP _ _ j
  · rename_i ho
    have h := hne ho
    rw [ho] at h
    exact ⟨fun _ => h, fun _ => h⟩

theorem sendClose_JP (s : S) (c : Option Nat) (r : Option Bytes) : JP s (sendClose s c r) := by
  unfold sendClose
  split
  · exact emit_JP _ _
  · split
    · exact emit_JP _ _
    · exact sendCloseFrame_JP _ _ _ _

theorem dropConnection_JP (s : S) (a : Bool) : JP s (dropConnection s a) := by
  unfold dropConnection
  split
  · exact JP.of_le (fun h => by simp [S.emit] at h) (fun h => h) (fun h => h)
  · exact JP.refl s

theorem failConnection_JP (s : S) (code : Nat) : JP s (failConnection s code) := by
  unfold failConnection
  split
  · dsimp only
    split
    · exact JP.preF (dropConnection_JP _ _) rfl rfl rfl
    · split
      · exact JP.pre (sendCloseFrame_JP _ _ _ _) rfl rfl rfl
      · exact JP.pre (dropConnection_JP _ _) rfl rfl rfl
  · exact JP.refl s

theorem violation_JP (s : S) (code : Nat) : JP s (violation s code).1 := failConnection_JP s code

theorem closeCodeStep_JP (s : S) (c : Option Nat) : JP s (closeCodeStep s c).1 := by
  unfold closeCodeStep
  split
  · split
    · have hv := violation_JP s 1002
      generalize violation s 1002 = r at hv
      obtain ⟨s', stop⟩ := r
      dsimp only
      split
      · exact hv
      · exact hv.post rfl rfl rfl
    · exact JP.of_same rfl rfl rfl
  · exact JP.of_same rfl rfl rfl

theorem closeReasonStep_JP (s : S) (r : Option Bytes) : JP s (closeReasonStep s r).1 := by
  unfold closeReasonStep
  split
  · split
    · exact violation_JP _ _
    · exact JP.of_same rfl rfl rfl
  · exact JP.refl s

theorem replyClose_JP (s : S) : JP s (replyClose s) := by
  unfold replyClose; split <;> exact sendCloseFrame_JP _ _ _ _

theorem afterCloseHandshake_JP (s : S) (a : Bool) : JP s (afterCloseHandshake s a).1 := by
  unfold afterCloseHandshake
  split
  · exact dropConnection_JP _ _
  · split
    · exact armServerDrop_JP _
    · exact JP.refl s

theorem replyClose_opened (s : S) (ho : s.st = .opened) : (replyClose s).closeSent ≠ [] := by
  unfold replyClose; split <;> exact sendCloseFrame_opened _ _ _ _ ho

theorem afterCloseHandshake_closeSent (s : S) (a : Bool) : (afterCloseHandshake s a).1.closeSent = s.closeSent := by
  unfold afterCloseHandshake dropConnection
  split
  · dsimp only; split <;> rfl
  · split <;> rfl

/-- the one place where a close is marked clean: the peer's close frame arrived while we are CLOSING (our close frame
has been sent: `J`) or OPEN (our reply is sent on the spot) -/
theorem closeStateStep_JP (s : S) : JP s (closeStateStep s).1 := by
  intro j
  unfold closeStateStep
  split
  · rename_i hc
    have h : (afterCloseHandshake { s with tCloseHs := none, wasClean := true } true).1.closeSent ≠ [] := by
      rw [afterCloseHandshake_closeSent]; exact j.1 hc
    exact ⟨fun _ => h, fun _ => h⟩
  · rename_i ho
    have h : (afterCloseHandshake (replyClose { s with wasClean := true }) false).1.closeSent ≠ [] := by
      rw [afterCloseHandshake_closeSent]; exact replyClose_opened _ ho
    exact ⟨fun _ => h, fun _ => h⟩
  · rename_i hx
    exact ⟨fun h => by simp [hx] at h, fun h => by simp at h⟩
  · exact emit_JP _ _ j

theorem onCloseFrame_JP (s : S) (c : Option Nat) (r : Option Bytes) : JP s (onCloseFrame s c r).1 := by
  unfold onCloseFrame
  dsimp only
  have h0 : JP s { s with remoteCloseCode := none, remoteCloseReason := none } := JP.of_same rfl rfl rfl
  have h1 := closeCodeStep_JP { s with remoteCloseCode := none, remoteCloseReason := none } c
  generalize closeCodeStep { s with remoteCloseCode := none, remoteCloseReason := none } c = r1 at h1
  split
  · exact h0.trans h1
  · have h2 := closeReasonStep_JP r1.1 r
    generalize closeReasonStep r1.1 r = r2 at h2
    split
    · exact (h0.trans h1).trans h2
    · exact ((h0.trans h1).trans h2).trans (closeStateStep_JP _)

theorem connectionLost_JP (s : S) : JP s (connectionLost s) := by
  unfold connectionLost
  split
  · exact JP.refl s
  · refine JP.of_le ?_ ?_ ?_
    · unfold reportClose markClosed cancelOnLost
      intro h
      split at h <;> split at h <;> (try split at h) <;> simp_all [S.emit]
    · unfold reportClose markClosed cancelOnLost
      intro h
      split <;> split <;> (try split) <;> simpa [S.emit] using h
    · unfold reportClose markClosed cancelOnLost
      intro h
      split at h <;> split at h <;> (try split at h) <;> simp_all [S.emit]

theorem sendAutoPing_JP (s : S) : JP s (sendAutoPing s) := by
  unfold sendAutoPing
  dsimp only
  have h : JP s (sendPing (beginAutoPing s) ((beginAutoPing s).pingPending.getD [])) :=
    JP.pre (sendPing_JP _ _) rfl rfl rfl
  split
  · exact h.trans (armPingTimeout_JP _)
  · split
    · exact h.trans (armPingNext_JP _)
    · exact h

theorem cancelAutoPingTimeout_JP (s : S) : JP s (cancelAutoPingTimeout s) := by
  unfold cancelAutoPingTimeout
  dsimp only
  split
  · exact JP.pre (armPingNext_JP _) rfl rfl rfl
  · exact JP.of_same rfl rfl rfl

theorem onMessageFrameBegin_JP (s : S) (n : Nat) : JP s (onMessageFrameBegin s n) := by
  unfold onMessageFrameBegin
  dsimp only
  split
  · split
    · exact JP.pre (failConnection_JP _ _) rfl rfl rfl
    · split
      · exact JP.pre (failConnection_JP _ _) rfl rfl rfl
      · exact JP.of_same rfl rfl rfl
  · exact JP.of_same rfl rfl rfl

theorem onFrameBegin_JP (s : S) (h : Hdr) : JP s (onFrameBegin s h) := by
  unfold onFrameBegin
  split
  · exact JP.of_same rfl rfl rfl
  · dsimp only
    split
    · split
      · exact JP.pre (onMessageFrameBegin_JP _ _) rfl rfl rfl
      · exact JP.pre (onMessageFrameBegin_JP _ _) rfl rfl rfl
    · exact onMessageFrameBegin_JP _ _

theorem utf8Step_JP (s : S) (p : Bytes) : JP s (utf8Step s p).1 := by
  unfold utf8Step
  split
  · split
    · exact JP.pre (violation_JP _ _) rfl rfl rfl
    · exact JP.of_same rfl rfl rfl
  · exact JP.refl s

theorem onFrameData_JP (s : S) (h : Hdr) (p : Bytes) : JP s (onFrameData s h p).1 := by
  unfold onFrameData
  split
  · exact JP.of_same rfl rfl rfl
  · dsimp only
    have h0 := utf8Step_JP s p
    generalize utf8Step s p = r at h0
    split
    · exact h0
    · unfold onMessageFrameData
      split
      · exact h0.post rfl rfl rfl
      · exact h0

theorem onPongFrame_JP (s : S) (p : Bytes) : JP s (onPongFrame s p) := by
  unfold onPongFrame
  split
  · split
    · dsimp only
      split
      · exact JP.pre (armPingNext_JP _) rfl rfl rfl
      · exact JP.of_same rfl rfl rfl
    · exact JP.refl s
  · exact JP.refl s

theorem onPingFrame_JP (s : S) (p : Bytes) : JP s (onPingFrame s p) := by
  unfold onPingFrame
  dsimp only
  split
  · exact JP.pre (sendPong_JP _ _) rfl rfl rfl
  · exact emit_JP _ _

theorem processControlFrame_JP (s : S) (h : Hdr) : JP s (processControlFrame s h) := by
  unfold processControlFrame
  dsimp only
  split
  · exact JP.pre (onCloseFrame_JP _ _ _) rfl rfl rfl
  · split
    · exact JP.pre (onPingFrame_JP _ _) rfl rfl rfl
    · split
      · exact JP.pre ((onPongFrame_JP _ _).trans (emit_JP _ _)) rfl rfl rfl
      · exact JP.of_same rfl rfl rfl

theorem endDataFrame_JP (s : S) : JP s (endDataFrame s) := by
  unfold endDataFrame
  dsimp only
  split <;> split <;> first | exact JP.of_same rfl rfl rfl | exact JP.pre (cancelAutoPingTimeout_JP _) rfl rfl rfl

theorem endMessageStep_JP (s : S) : JP s (endMessageStep s).1 := by
  unfold endMessageStep
  dsimp only
  have h0 : JP s (if (s.utf8On && !s.msgCompressed && !s.utf8Ends) = true
      then ((violation s 1007).1, !(violation s 1007).2) else (s, true)).1 := by
    split
    · exact violation_JP _ _
    · exact JP.refl s
  generalize (if (s.utf8On && !s.msgCompressed && !s.utf8Ends) = true
      then ((violation s 1007).1, !(violation s 1007).2) else (s, true)) = r at h0
  split
  · exact h0
  · unfold resetMessage deliverMessage
    split
    · exact h0.post rfl rfl rfl
    · exact h0.post rfl rfl rfl

theorem onFrameEnd_JP (s : S) (h : Hdr) : JP s (onFrameEnd s h).1 := by
  unfold onFrameEnd
  split
  · exact (processControlFrame_JP s h).post rfl rfl rfl
  · dsimp only
    split
    · exact (endDataFrame_JP s).trans (endMessageStep_JP _)
    · exact (endDataFrame_JP s).post rfl rfl rfl

theorem applyViolations_JP (s : S) (vs : List HV) : JP s (applyViolations s vs).1 := by
  induction vs generalizing s with
  | nil => exact JP.refl s
  | cons v vs ih =>
    unfold applyViolations
    have hv := violation_JP s 1002
    generalize violation s 1002 = r at hv
    obtain ⟨s', stop⟩ := r
    dsimp only
    split
    · exact hv
    · exact hv.trans (ih _)

theorem extLenStep_JP (s : S) (a b : Nat) : JP s (extLenStep s a b).1 := by
  unfold extLenStep
  split
  · split
    · exact violation_JP _ _
    · exact JP.refl s
  · split
    · dsimp only
      have h0 : JP s (if b > 0x7FFFFFFFFFFFFFFF then violation s 1002 else (s, false)).1 := by
        split
        · exact violation_JP _ _
        · exact JP.refl s
      generalize (if b > 0x7FFFFFFFFFFFFFFF then violation s 1002 else (s, false)) = r at h0
      split
      · exact h0
      · split
        · exact h0.trans (violation_JP _ _)
        · exact h0
    · exact JP.refl s

theorem processHeader_JP (s : S) (o0 o1 : UInt8) (buf : Bytes) : JP s (processHeader s o0 o1 buf).1 := by
  unfold processHeader
  dsimp only
  have h0 := applyViolations_JP s (headerViolations s.cfg s.insideMessage (o0.toNat / 128 = 1) (o0.toNat / 16 % 8)
    (o0.toNat % 16) (o1.toNat / 128 = 1) (o1.toNat % 128))
  generalize applyViolations s (headerViolations s.cfg s.insideMessage (o0.toNat / 128 = 1) (o0.toNat / 16 % 8)
    (o0.toNat % 16) (o1.toNat / 128 = 1) (o1.toNat % 128)) = r0 at h0
  split
  · exact h0
  · split
    · have h1 := extLenStep_JP r0.1 (o1.toNat % 128)
        (if o1.toNat % 128 < 126 then o1.toNat % 128 else
          beNat ((buf.drop 2).take (if o1.toNat % 128 = 126 then 2 else if o1.toNat % 128 = 127 then 8 else 0)))
      generalize extLenStep r0.1 (o1.toNat % 128)
        (if o1.toNat % 128 < 126 then o1.toNat % 128 else
          beNat ((buf.drop 2).take (if o1.toNat % 128 = 126 then 2 else if o1.toNat % 128 = 127 then 8 else 0))) = r1 at h1
      split
      · exact h0.trans h1
      · exact (h0.trans h1).trans (JP.pre (onFrameBegin_JP _ _) rfl rfl rfl)
    · exact h0

theorem processPayload_JP (s : S) (h : Hdr) (buf : Bytes) : JP s (processPayload s h buf).1 := by
  unfold processPayload
  dsimp only
  have h1 : JP s (onFrameData { s with ptr := s.ptr + (buf.take (h.length - s.ptr)).length }
      h (unmaskChunk s h (buf.take (h.length - s.ptr)))).1 := JP.pre (onFrameData_JP _ _ _) rfl rfl rfl
  generalize onFrameData { s with ptr := s.ptr + (buf.take (h.length - s.ptr)).length }
    h (unmaskChunk s h (buf.take (h.length - s.ptr))) = r at h1
  split
  · exact h1
  · have h2 : JP r.1 (if r.1.ptr = h.length then onFrameEnd r.1 h else (r.1, true)).1 := by
      split
      · exact onFrameEnd_JP _ _
      · exact JP.refl _
    generalize (if r.1.ptr = h.length then onFrameEnd r.1 h else (r.1, true)) = r2 at h2
    split
    · exact h1.trans h2
    · exact h1.trans h2

theorem processData_JP (s : S) (buf : Bytes) : JP s (processData s buf).1 := by
  unfold processData
  split
  · split
    · exact processHeader_JP _ _ _ _
    · exact JP.refl s
  · exact processPayload_JP _ _ _

theorem drain_JP (fuel : Nat) (s : S) (buf : Bytes) : JP s (drain fuel s buf).1 := by
  induction fuel generalizing s buf with
  | zero => exact JP.refl s
  | succ n ih =>
    unfold drain
    split
    · exact JP.refl s
    · have h := processData_JP s buf
      generalize processData s buf = r at h
      dsimp only
      split
      · exact h.trans (ih _ _)
      · exact h

theorem dataReceived_JP (s : S) (d : Bytes) : JP s (dataReceived s d) := by
  unfold dataReceived
  split
  · exact JP.refl s
  · have hd := drain_JP (drainFuel (s.data ++ d)) { s with data := [] } (s.data ++ d)
    split
    · exact (JP.pre hd rfl rfl rfl).post rfl rfl rfl
    · exact (JP.pre hd rfl rfl rfl).post rfl rfl rfl
    · exact JP.of_same rfl rfl rfl

theorem handshakeDone_JP (s : S) : JP s (handshakeDone s) := by
  unfold handshakeDone
  split
  · exact JP.refl s
  · dsimp only
    refine JP.of_le ?_ ?_ ?_
    · intro h; split at h <;> simp [armPingNext, S.timer] at h
    · intro h; split <;> simpa [armPingNext, S.timer] using h
    · intro h; split at h <;> simpa [armPingNext, S.timer] using h

theorem fire_JP (s : S) (k : TK) : JP s (fire s k) := by
  cases k <;> simp only [fire]
  · split
    · exact JP.preF (dropConnection_JP _ _) rfl rfl rfl
    · exact JP.of_same rfl rfl rfl
  · split
    · exact JP.preF (dropConnection_JP _ _) rfl rfl rfl
    · exact JP.of_same rfl rfl rfl
  · split
    · exact JP.preF (dropConnection_JP _ _) rfl rfl rfl
    · exact JP.of_same rfl rfl rfl
  · split
    · exact JP.preF (dropConnection_JP _ _) rfl rfl rfl
    · exact JP.of_same rfl rfl rfl
  · exact sendAutoPing_JP s
  · exact JP.pre (sendTick_JP _) rfl rfl rfl

theorem advanceTo_JP (target : Nat) : ∀ (fuel : Nat) (s : S), JP s (advanceTo target fuel s) := by
  intro fuel
  induction fuel with
  | zero => intro s; exact JP.refl s
  | succ n ih =>
    intro s
    unfold advanceTo
    split
    · split
      · exact JP.pre ((fire_JP _ _).trans (ih _)) rfl rfl rfl
      · exact JP.of_same rfl rfl rfl
    · exact JP.of_same rfl rfl rfl

theorem pump_JP (s : S) : JP s (pump s) := advanceTo_JP _ _ _
theorem advance_JP (s : S) (dt : Nat) : JP s (advance s dt) := advanceTo_JP _ _ _

end Abverif.Ws
