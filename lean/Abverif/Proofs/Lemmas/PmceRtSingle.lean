import Abverif.Model.Pmce
/- C12: the response header a server renders holds exactly ONE extension entry, named permessage-deflate — every
   lattice point (kernel-checked). Used by the whole-handshake theorems of Proofs/C12Handshake.lean: the client's loop
   walks the whole parsed list, not just the first permessage-deflate entry. -/
namespace Abverif.Pmce
open Abverif.DeflateConsts
theorem response_header_single_all :
    ∀ sn ∈ bools, ∀ sw ∈ winVals, ∀ cn ∈ bools, ∀ cw ∈ winVals,
      (parseExtensionsHeader (OfferAccept.render ⟨⟨true, true, sn, sw⟩, cn, cw, none, none, none⟩)).map Prod.fst
        = [extensionName] := by
  decide +kernel
end Abverif.Pmce
