import Abverif.Proofs.Lemmas.WsExt
import Abverif.Proofs.C15
/-
Segmentation independence of the receive path (fail-by-drop configurations): lemmas.
-/
namespace Abverif.Ws

/-! ### u8run -/

theorem u8run_append (s : U8) (a b : Bytes) : u8run s (a ++ b) = u8run (u8run s a) b := by
  simp [u8run, List.foldl_append]

theorem U8.step_rej (b : UInt8) : U8.step .rej b = .rej := rfl

theorem u8run_rej (bs : Bytes) : u8run .rej bs = .rej := by
  induction bs with
  | nil => rfl
  | cons b bs ih => simpa [u8run, U8.step_rej] using ih

/-! ### failing by drop closes the connection -/

theorem failConnection_drop (s : S) (code : Nat) (hf : s.cfg.failByDrop = true) (hst : s.st ≠ .closed) :
    (failConnection s code).st = .closed ∧
    (failConnection s code).log = s.log ++ [.closedResolved, .closeConn true] := by
  unfold failConnection
  simp only [hst, ne_eq, not_false_eq_true, if_true, hf]
  unfold dropConnection
  simp [hst, S.emit]

theorem violation_drop (s : S) (code : Nat) (hf : s.cfg.failByDrop = true) (hst : s.st ≠ .closed) :
    (violation s code).2 = true ∧ (violation s code).1.st = .closed ∧
    (violation s code).1.log = s.log ++ [.closedResolved, .closeConn true] := by
  unfold violation
  exact ⟨hf, failConnection_drop s code hf hst⟩

/-- two states of a connection that is over look the same from outside -/
def DeadSim (a b : S) : Prop := a.st = .closed ∧ b.st = .closed ∧ a.log = b.log ∧ a.lost = b.lost

/-- equal, or both over with the same history -/
def Sim (a b : S) : Prop := a = b ∨ DeadSim a b

theorem Sim.refl (a : S) : Sim a a := Or.inl rfl

theorem Sim.log {a b : S} (h : Sim a b) : a.log = b.log := by
  rcases h with h | h
  · rw [h]
  · exact h.2.2.1

theorem Sim.st {a b : S} (h : Sim a b) : a.st = b.st := by
  rcases h with h | h
  · rw [h]
  · rw [h.1, h.2.1]

/-! ### consuming payload octets of the current frame is compositional -/

/-- the payload part of `processPayload`: advance the masker pointer by the chunk and hand the unmasked chunk to
`onFrameData` -/
def consume (s : S) (h : Hdr) (chunk : Bytes) : S × Bool :=
  onFrameData { s with ptr := s.ptr + chunk.length } h (unmaskChunk s h chunk)

theorem processPayload_eq (s : S) (h : Hdr) (buf : Bytes) :
    processPayload s h buf =
      (let r := consume s h (buf.take (h.length - s.ptr))
       if !r.2 then (r.1, buf.drop (h.length - s.ptr), false) else
       let r2 := if r.1.ptr = h.length then onFrameEnd r.1 h else (r.1, true)
       if !r2.2 then (r2.1, buf.drop (h.length - s.ptr), false) else
       (r2.1, buf.drop (h.length - s.ptr), (buf.drop (h.length - s.ptr)).length > 0)) := rfl

theorem unmaskChunk_append (s : S) (h : Hdr) (a b : Bytes) :
    unmaskChunk s h (a ++ b) = unmaskChunk s h a ++ unmaskChunk { s with ptr := s.ptr + a.length } h b := by
  unfold unmaskChunk
  split
  · split
    · rename_i k _
      exact (Abverif.Xor.process_append k s.ptr a b).1
    · rfl
  · rfl

end Abverif.Ws

namespace Abverif.Ws

/-- `utf8Step` in rewrite form -/
theorem utf8Step_off (s : S) (p : Bytes) (h : (s.utf8On && !s.msgCompressed) = false) : utf8Step s p = (s, true) := by
  unfold utf8Step; simp [h]

theorem utf8Step_good (s : S) (p : Bytes) (h : (s.utf8On && !s.msgCompressed) = true) (hg : utf8Bad s p = false) :
    utf8Step s p = (setUtf8 s p, true) := by
  unfold utf8Step; simp [h, hg]

theorem setUtf8_proj (s : S) (p : Bytes) :
    (setUtf8 s p).st = s.st ∧ (setUtf8 s p).cfg = s.cfg ∧ (setUtf8 s p).log = s.log ∧ (setUtf8 s p).lost = s.lost ∧
    (setUtf8 s p).ptr = s.ptr ∧ (setUtf8 s p).unmask = s.unmask ∧ (setUtf8 s p).utf8On = s.utf8On ∧
    (setUtf8 s p).msgCompressed = s.msgCompressed ∧ (setUtf8 s p).utf8 = u8run s.utf8 p ∧
    (setUtf8 s p).failedByMe = s.failedByMe ∧ (setUtf8 s p).frameData = s.frameData := by
  simp [setUtf8]

theorem utf8Step_bad (s : S) (p : Bytes) (h : (s.utf8On && !s.msgCompressed) = true) (hb : utf8Bad s p = true)
    (hf : s.cfg.failByDrop = true) (hst : s.st ≠ .closed) :
    (utf8Step s p).2 = false ∧ (utf8Step s p).1.st = .closed ∧
    (utf8Step s p).1.log = s.log ++ [.closedResolved, .closeConn true] ∧ (utf8Step s p).1.lost = s.lost := by
  unfold utf8Step
  simp only [h, hb, if_true]
  have hp := setUtf8_proj s p
  have hv := violation_drop (setUtf8 s p) 1007 (by rw [hp.2.1]; exact hf) (by rw [hp.1]; exact hst)
  refine ⟨by simp [hv.1], hv.2.1, by rw [hv.2.2, hp.2.2.1], ?_⟩
  rw [(violation_Ext _ _ (by decide)).lost, hp.2.2.2.1]

theorem utf8Bad_append (s : S) (a b : Bytes) (ha : a ≠ []) (hga : utf8Bad s a = false) :
    utf8Bad s (a ++ b) = utf8Bad (setUtf8 s a) b := by
  unfold utf8Bad at *
  have hu : (setUtf8 s a).utf8 = u8run s.utf8 a := rfl
  rw [hu, u8run_append]
  have hna : u8run s.utf8 a ≠ .rej := by
    intro hr
    have : a.isEmpty = false := by
      cases a with
      | nil => exact absurd rfl ha
      | cons _ _ => rfl
    simp [hr, this] at hga
  cases b with
  | nil =>
    have h1 : u8run (u8run s.utf8 a) [] = u8run s.utf8 a := rfl
    simp [h1, hna]
  | cons x xs =>
    have : (a ++ x :: xs).isEmpty = false := by cases a <;> rfl
    simp [this]

theorem utf8Bad_append_bad (s : S) (a b : Bytes) (hba : utf8Bad s a = true) : utf8Bad s (a ++ b) = true := by
  unfold utf8Bad at *
  simp only [Bool.and_eq_true, decide_eq_true_eq, Bool.not_eq_true'] at hba ⊢
  refine ⟨by rw [u8run_append, hba.1, u8run_rej], ?_⟩
  cases a with
  | nil => simp at hba
  | cons _ _ => rfl

theorem setUtf8_append (s : S) (a b : Bytes) (ha : a ≠ []) (hga : utf8Bad s a = false) :
    setUtf8 (setUtf8 s a) b = setUtf8 s (a ++ b) := by
  have hb := utf8Bad_append s a b ha hga
  have e1 : setUtf8 (setUtf8 s a) b =
      { s with utf8 := u8run (u8run s.utf8 a) b, utf8Ok := !(utf8Bad (setUtf8 s a) b),
               utf8Ends := u8run (u8run s.utf8 a) b = .s0 } := rfl
  have e2 : setUtf8 s (a ++ b) =
      { s with utf8 := u8run s.utf8 (a ++ b), utf8Ok := !(utf8Bad s (a ++ b)),
               utf8Ends := u8run s.utf8 (a ++ b) = .s0 } := rfl
  rw [e1, e2, hb, u8run_append]

/-- fields `onFrameData` never touches when it does not fail the connection -/
theorem onMessageFrameData_proj (s : S) (p : Bytes) :
    (onMessageFrameData s p).ptr = s.ptr ∧ (onMessageFrameData s p).unmask = s.unmask ∧
    (onMessageFrameData s p).st = s.st ∧ (onMessageFrameData s p).cfg = s.cfg ∧
    (onMessageFrameData s p).utf8On = s.utf8On ∧ (onMessageFrameData s p).msgCompressed = s.msgCompressed ∧
    (onMessageFrameData s p).utf8 = s.utf8 ∧ (onMessageFrameData s p).failedByMe = s.failedByMe := by
  unfold onMessageFrameData; split <;> simp

end Abverif.Ws

namespace Abverif.Ws

theorem unmaskChunk_congr (a b : S) (h : Hdr) (c : Bytes) (h1 : a.unmask = b.unmask) (h2 : a.ptr = b.ptr) :
    unmaskChunk a h c = unmaskChunk b h c := by
  unfold unmaskChunk; rw [h1, h2]

/-- Lemma B, control frames: payload octets of a control frame may be consumed in any two pieces -/
theorem consume_append_control (s : S) (h : Hdr) (a b : Bytes) (hc : h.opcode > 7) :
    consume (consume s h a).1 h b = consume s h (a ++ b) := by
  have e1 : consume s h a = ({ s with ptr := s.ptr + a.length, controlData := s.controlData ++ unmaskChunk s h a }, true) := by
    simp [consume, onFrameData, hc]
  have e2 : consume s h (a ++ b) =
      ({ s with ptr := s.ptr + (a ++ b).length, controlData := s.controlData ++ unmaskChunk s h (a ++ b) }, true) := by
    simp [consume, onFrameData, hc]
  rw [e1, e2]
  simp only [consume, onFrameData, hc, if_true]
  rw [unmaskChunk_append s h a b]
  have : unmaskChunk { s with ptr := s.ptr + a.length, controlData := s.controlData ++ unmaskChunk s h a } h b
      = unmaskChunk { s with ptr := s.ptr + a.length } h b := unmaskChunk_congr _ _ _ _ rfl rfl
  rw [this]
  simp [List.append_assoc, Nat.add_assoc]

end Abverif.Ws

namespace Abverif.Ws

theorem specBytes_len (k : Abverif.Xor.Key) (p : Nat) (d : Bytes) : (Abverif.Xor.spec k p d).1.length = d.length := by
  simp [Abverif.Xor.spec, Abverif.Xor.specBytes_length]

theorem unmaskChunk_length (s : S) (h : Hdr) (c : Bytes) : (unmaskChunk s h c).length = c.length := by
  unfold unmaskChunk
  split
  · split
    · exact specBytes_len _ _ _
    · rfl
  · rfl

theorem unmaskChunk_ne_nil (s : S) (h : Hdr) (c : Bytes) (hc : c ≠ []) : unmaskChunk s h c ≠ [] := by
  intro he
  have := unmaskChunk_length s h c
  rw [he] at this
  cases c with
  | nil => exact hc rfl
  | cons _ _ => simp at this

/-- the data-frame state after a chunk that does not fail UTF-8 validation, in normal form -/
def afterChunk (s : S) (n : Nat) (u : Bytes) : S :=
  { s with ptr := s.ptr + n,
           utf8 := if s.utf8On && !s.msgCompressed then u8run s.utf8 u else s.utf8,
           utf8Ok := if s.utf8On && !s.msgCompressed then true else s.utf8Ok,
           utf8Ends := if s.utf8On && !s.msgCompressed then decide (u8run s.utf8 u = .s0) else s.utf8Ends,
           frameData := if s.failedByMe then s.frameData else s.frameData ++ u }

theorem utf8Bad_ptr (s : S) (n : Nat) (p : Bytes) : utf8Bad { s with ptr := n } p = utf8Bad s p := rfl

theorem consume_data_good (s : S) (h : Hdr) (c : Bytes) (hd : ¬ h.opcode > 7)
    (hg : (s.utf8On && !s.msgCompressed) = true → utf8Bad s (unmaskChunk s h c) = false) :
    consume s h c = (afterChunk s c.length (unmaskChunk s h c), true) := by
  unfold consume onFrameData
  simp only [hd, if_false]
  by_cases hon : (s.utf8On && !s.msgCompressed) = true
  · have hg' := hg hon
    have hs : utf8Step { s with ptr := s.ptr + c.length } (unmaskChunk s h c)
        = (setUtf8 { s with ptr := s.ptr + c.length } (unmaskChunk s h c), true) :=
      utf8Step_good _ _ hon (by rw [utf8Bad_ptr]; exact hg')
    rw [hs]
    simp only [Bool.not_true, Bool.false_eq_true, if_false]
    unfold onMessageFrameData setUtf8 afterChunk
    rw [utf8Bad_ptr, hg']
    cases hfm : s.failedByMe <;> simp [hon, hfm]
  · have hoff : (s.utf8On && !s.msgCompressed) = false := by simpa using hon
    have hs : utf8Step { s with ptr := s.ptr + c.length } (unmaskChunk s h c)
        = ({ s with ptr := s.ptr + c.length }, true) := utf8Step_off _ _ hoff
    rw [hs]
    simp only [Bool.not_true, Bool.false_eq_true, if_false]
    unfold onMessageFrameData afterChunk
    cases hfm : s.failedByMe <;> simp [hoff, hfm]

theorem consume_data_bad (s : S) (h : Hdr) (c : Bytes) (hd : ¬ h.opcode > 7)
    (hon : (s.utf8On && !s.msgCompressed) = true) (hb : utf8Bad s (unmaskChunk s h c) = true)
    (hf : s.cfg.failByDrop = true) (hst : s.st ≠ .closed) :
    (consume s h c).2 = false ∧ (consume s h c).1.st = .closed ∧
    (consume s h c).1.log = s.log ++ [.closedResolved, .closeConn true] ∧ (consume s h c).1.lost = s.lost := by
  unfold consume onFrameData
  simp only [hd, if_false]
  have hb' := utf8Step_bad { s with ptr := s.ptr + c.length } (unmaskChunk s h c) hon (by rw [utf8Bad_ptr]; exact hb) hf hst
  rw [hb'.1]
  simp only [Bool.not_false, if_true]
  exact ⟨trivial, hb'.2.1, hb'.2.2.1, hb'.2.2.2⟩

end Abverif.Ws

namespace Abverif.Ws

theorem afterChunk_append (s : S) (n m : Nat) (u v : Bytes) :
    afterChunk (afterChunk s n u) m v = afterChunk s (n + m) (u ++ v) := by
  unfold afterChunk
  cases hon : (s.utf8On && !s.msgCompressed) <;> cases hfm : s.failedByMe <;>
    simp [hon, hfm, u8run_append, Nat.add_assoc, List.append_assoc]

theorem afterChunk_proj (s : S) (n : Nat) (u : Bytes) :
    (afterChunk s n u).st = s.st ∧ (afterChunk s n u).cfg = s.cfg ∧ (afterChunk s n u).log = s.log ∧
    (afterChunk s n u).lost = s.lost ∧ (afterChunk s n u).ptr = s.ptr + n ∧ (afterChunk s n u).unmask = s.unmask ∧
    (afterChunk s n u).utf8On = s.utf8On ∧ (afterChunk s n u).msgCompressed = s.msgCompressed ∧
    (afterChunk s n u).cur = s.cur := by
  simp [afterChunk]

theorem utf8Bad_afterChunk (s : S) (n : Nat) (u v : Bytes) (hon : (s.utf8On && !s.msgCompressed) = true) :
    utf8Bad (afterChunk s n u) v = utf8Bad (setUtf8 s u) v := by
  unfold utf8Bad afterChunk setUtf8
  simp [hon]

/-- **Lemma B, data frames**: consuming the payload chunk `a ++ b` of a data frame in one call has the same effect as
consuming `a` and then `b` — same state when nothing fails; when UTF-8 validation fails (in either order of
discovery) both runs end CLOSED with the same log -/
theorem consume_append_data (s : S) (h : Hdr) (a b : Bytes) (hd : ¬ h.opcode > 7) (ha : a ≠ [])
    (hf : s.cfg.failByDrop = true) (hst : s.st ≠ .closed) :
    ((consume s h a).2 = false →
        (consume s h (a ++ b)).2 = false ∧ DeadSim (consume s h a).1 (consume s h (a ++ b)).1) ∧
    ((consume s h a).2 = true →
        (consume (consume s h a).1 h b).2 = (consume s h (a ++ b)).2 ∧
        ((consume s h (a ++ b)).2 = true → (consume (consume s h a).1 h b).1 = (consume s h (a ++ b)).1) ∧
        ((consume s h (a ++ b)).2 = false → DeadSim (consume (consume s h a).1 h b).1 (consume s h (a ++ b)).1)) := by
  have hua : unmaskChunk s h (a ++ b) = unmaskChunk s h a ++ unmaskChunk { s with ptr := s.ptr + a.length } h b :=
    unmaskChunk_append s h a b
  by_cases hon : (s.utf8On && !s.msgCompressed) = true
  · by_cases hba : utf8Bad s (unmaskChunk s h a) = true
    · -- the first chunk already fails
      have h1 := consume_data_bad s h a hd hon hba hf hst
      have hbab : utf8Bad s (unmaskChunk s h (a ++ b)) = true := by
        rw [hua]; exact utf8Bad_append_bad s _ _ hba
      have h2 := consume_data_bad s h (a ++ b) hd hon hbab hf hst
      refine ⟨fun _ => ⟨h2.1, h1.2.1, h2.2.1, by rw [h1.2.2.1, h2.2.2.1], by rw [h1.2.2.2, h2.2.2.2]⟩, ?_⟩
      intro hc; rw [h1.1] at hc; cases hc
    · have hga : utf8Bad s (unmaskChunk s h a) = false := by simpa using hba
      have e1 := consume_data_good s h a hd (fun _ => hga)
      refine ⟨fun hc => (by rw [e1] at hc; cases hc), fun _ => ?_⟩
      rw [e1]
      have hp := afterChunk_proj s a.length (unmaskChunk s h a)
      have hub : unmaskChunk (afterChunk s a.length (unmaskChunk s h a)) h b
          = unmaskChunk { s with ptr := s.ptr + a.length } h b :=
        unmaskChunk_congr _ _ _ _ hp.2.2.2.2.2.1 hp.2.2.2.2.1
      have hon1 : ((afterChunk s a.length (unmaskChunk s h a)).utf8On
          && !(afterChunk s a.length (unmaskChunk s h a)).msgCompressed) = true := by
        rw [hp.2.2.2.2.2.2.1, hp.2.2.2.2.2.2.2.1]; exact hon
      have hbad_eq : utf8Bad (afterChunk s a.length (unmaskChunk s h a))
            (unmaskChunk (afterChunk s a.length (unmaskChunk s h a)) h b)
          = utf8Bad s (unmaskChunk s h (a ++ b)) := by
        rw [hub, utf8Bad_afterChunk _ _ _ _ hon, hua,
          ← utf8Bad_append s _ _ (unmaskChunk_ne_nil s h a ha) hga]
      by_cases hbb : utf8Bad s (unmaskChunk s h (a ++ b)) = true
      · have h2 := consume_data_bad s h (a ++ b) hd hon hbb hf hst
        have h1 := consume_data_bad (afterChunk s a.length (unmaskChunk s h a)) h b hd hon1 (by rw [hbad_eq]; exact hbb)
          (by rw [hp.2.1]; exact hf) (by rw [hp.1]; exact hst)
        refine ⟨by rw [h1.1, h2.1], fun hc => (by rw [h2.1] at hc; cases hc), fun _ => ?_⟩
        exact ⟨h1.2.1, h2.2.1, by rw [h1.2.2.1, h2.2.2.1, hp.2.2.1], by rw [h1.2.2.2, h2.2.2.2, hp.2.2.2.1]⟩
      · have hgb : utf8Bad s (unmaskChunk s h (a ++ b)) = false := by simpa using hbb
        have e2 := consume_data_good s h (a ++ b) hd (fun _ => hgb)
        have e3 := consume_data_good (afterChunk s a.length (unmaskChunk s h a)) h b hd
          (fun _ => by rw [hbad_eq]; exact hgb)
        rw [e2, e3, hub, afterChunk_append, hua, List.length_append]
        exact ⟨rfl, fun _ => rfl, fun hc => by cases hc⟩
  · -- no UTF-8 validation for this message
    have hoff : (s.utf8On && !s.msgCompressed) = false := by simpa using hon
    have e1 := consume_data_good s h a hd (fun hc => by rw [hoff] at hc; cases hc)
    have e2 := consume_data_good s h (a ++ b) hd (fun hc => by rw [hoff] at hc; cases hc)
    have hp := afterChunk_proj s a.length (unmaskChunk s h a)
    have hub : unmaskChunk (afterChunk s a.length (unmaskChunk s h a)) h b
        = unmaskChunk { s with ptr := s.ptr + a.length } h b :=
      unmaskChunk_congr _ _ _ _ hp.2.2.2.2.2.1 hp.2.2.2.2.1
    have e3 := consume_data_good (afterChunk s a.length (unmaskChunk s h a)) h b hd
      (fun hc => by rw [hp.2.2.2.2.2.2.1, hp.2.2.2.2.2.2.2.1, hoff] at hc; cases hc)
    refine ⟨fun hc => (by rw [e1] at hc; cases hc), fun _ => ?_⟩
    rw [e1, e2, e3, hub, afterChunk_append, hua, List.length_append]
    exact ⟨rfl, fun _ => rfl, fun hc => by cases hc⟩

end Abverif.Ws
