import Abverif.Model.SchemaSpec
/-
Basic lemmas about association lists (`Msg.get`, `Dict.get?`), `nodup`, and `Except` sequencing used by the
schema-engine proofs (C03, C08).
-/
namespace Abverif.Wamp

theorem str_beq_iff (a b : Str) : (a == b) = true ↔ a = b := by simp

theorem str_beq_false_iff (a b : Str) : (a == b) = false ↔ a ≠ b := by simp

/-! ### `Msg.get` -/

theorem Msg.get_nil (f : Str) : Msg.get [] f = .null := rfl

theorem Msg.get_cons_self (f : Str) (v : WVal) (t : Msg) : Msg.get ((f, v) :: t) f = v := by
  simp [Msg.get, List.find?]

theorem Msg.get_cons_ne {g f : Str} (v : WVal) (t : Msg) (h : g ≠ f) : Msg.get ((g, v) :: t) f = Msg.get t f := by
  have : (g == f) = false := by simp [h]
  simp [Msg.get, List.find?, this]

theorem Msg.get_append_left {a b : Msg} {f : Str} (h : (a.map (·.1)).any (· == f) = true) :
    Msg.get (a ++ b) f = Msg.get a f := by
  induction a with
  | nil => simp at h
  | cons kv t ih =>
    obtain ⟨k, v⟩ := kv
    by_cases hk : k = f
    · subst hk; simp [Msg.get_cons_self]
    · have h' : (t.map (·.1)).any (· == f) = true := by
        simpa [hk] using h
      simp only [List.cons_append, Msg.get_cons_ne v _ hk, ih h']

theorem Msg.get_append_right {a b : Msg} {f : Str} (h : (a.map (·.1)).any (· == f) = false) :
    Msg.get (a ++ b) f = Msg.get b f := by
  induction a with
  | nil => rfl
  | cons kv t ih =>
    obtain ⟨k, v⟩ := kv
    have hk : k ≠ f := by
      intro e; subst e; simp at h
    have h' : (t.map (·.1)).any (· == f) = false := by
      simpa [hk] using h
    simp only [List.cons_append, Msg.get_cons_ne v _ hk, ih h']

theorem nodup_cons {x : Str} {xs : List Str} : nodup (x :: xs) = true ↔ (xs.any (· == x) = false ∧ nodup xs = true) := by
  simp [nodup]

theorem any_beq_false_iff {xs : List Str} {x : Str} : xs.any (· == x) = false ↔ x ∉ xs := by
  induction xs with
  | nil => simp
  | cons y ys ih =>
    simp only [List.any_cons, Bool.or_eq_false_iff, ih, List.mem_cons, not_or]
    constructor
    · rintro ⟨h1, h2⟩; exact ⟨by intro e; subst e; simp at h1, h2⟩
    · rintro ⟨h1, h2⟩; exact ⟨by simpa using fun e => h1 e.symm, h2⟩

theorem nodup_iff {xs : List Str} : nodup xs = true ↔ xs.Nodup := by
  induction xs with
  | nil => simp [nodup]
  | cons x xs ih => rw [nodup_cons, any_beq_false_iff, ih, List.nodup_cons]

/-- a message whose names are distinct is determined by its attribute values -/
theorem Msg.rebuild (m : Msg) (h : nodup (m.map (·.1)) = true) :
    (m.map (·.1)).map (fun f => (f, Msg.get m f)) = m := by
  induction m with
  | nil => rfl
  | cons kv t ih =>
    obtain ⟨k, v⟩ := kv
    simp only [List.map_cons] at h ⊢
    rw [nodup_cons] at h
    obtain ⟨hk, ht⟩ := h
    rw [Msg.get_cons_self]
    congr 1
    rw [any_beq_false_iff] at hk
    have : ∀ f ∈ t.map (·.1), (f, Msg.get ((k, v) :: t) f) = (f, Msg.get t f) := by
      intro f hf
      have : k ≠ f := by intro e; subst e; exact hk hf
      rw [Msg.get_cons_ne v t this]
    rw [List.map_congr_left this]
    exact ih ht

/-! ### `Dict.get?` -/

theorem Dict.get?_nil (k : Str) : Dict.get? [] k = none := rfl

theorem Dict.get?_cons_self (k : Str) (v : WVal) (t : Dict) : Dict.get? ((k, v) :: t) k = some v := by
  simp [Dict.get?, List.find?]

theorem Dict.get?_cons_ne {g k : Str} (v : WVal) (t : Dict) (h : g ≠ k) : Dict.get? ((g, v) :: t) k = Dict.get? t k := by
  have : (g == k) = false := by simp [h]
  simp [Dict.get?, List.find?, this]

theorem Dict.get?_none_of_not_mem {d : Dict} {k : Str} (h : k ∉ d.map (·.1)) : Dict.get? d k = none := by
  induction d with
  | nil => rfl
  | cons kv t ih =>
    obtain ⟨g, v⟩ := kv
    simp only [List.map_cons, List.mem_cons, not_or] at h
    rw [Dict.get?_cons_ne v t (fun e => h.1 e.symm)]
    exact ih h.2

theorem Dict.get?_append_of_not_mem {a b : Dict} {k : Str} (h : k ∉ a.map (·.1)) :
    Dict.get? (a ++ b) k = Dict.get? b k := by
  induction a with
  | nil => rfl
  | cons kv t ih =>
    obtain ⟨g, v⟩ := kv
    simp only [List.map_cons, List.mem_cons, not_or] at h
    rw [List.cons_append, Dict.get?_cons_ne v _ (fun e => h.1 e.symm)]
    exact ih h.2

theorem Dict.get?_append_of_some {a b : Dict} {k : Str} {v : WVal} (h : Dict.get? a k = some v) :
    Dict.get? (a ++ b) k = some v := by
  induction a with
  | nil => simp [Dict.get?] at h
  | cons kv t ih =>
    obtain ⟨g, w⟩ := kv
    by_cases hg : g = k
    · subst hg
      rw [Dict.get?_cons_self] at h
      rw [List.cons_append, Dict.get?_cons_self]; exact h
    · rw [Dict.get?_cons_ne w t hg] at h
      rw [List.cons_append, Dict.get?_cons_ne w _ hg]
      exact ih h

end Abverif.Wamp
