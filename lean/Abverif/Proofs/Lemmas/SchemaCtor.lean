import Abverif.Proofs.Lemmas.SchemaStrict
import Abverif.Proofs.Lemmas.SchemaTotal
/-
The constructor assertions are unreachable from `parse` (C08, after the F3 repair).

The model keeps the constructor `Klass(...)` with its `assert`s (`ctorStage`, exception class `AssertionError`)
exactly as message.py has it.  What changed with the repair is `parse`: every value the constructor asserts on is
validated before (`ProtocolError`).  Here that is a theorem about the model: whenever the part of `parse` in front of
the constructor call succeeds, none of the assertions fires, for every schema whose assertions are *covered*
(`Schema.ctorCovered`, a decidable property of the schema; it holds for all 25 classes).
-/
namespace Abverif.Wamp
open Schema

/-- the type `parse` checks an option for covers what the constructor asserts about it -/
def OptStep.ctyCovered (s : OptStep) : Bool :=
  match s.cty with
  | .none => true
  | .strOrNone => (match s.ty with | .strOrNull => true | .strUri _ => true | _ => false) && s.dflt.isNull
  | .dictOrNone => (match s.ty with | .dictOrNull => true | _ => false) && s.dflt.isNull
  | .ffItems => (match s.ty with | .forwardFor b => b | _ => false) && s.dflt.isNull

/-- every cross-field assertion is either about the tail of a class that has one (then `parseTail` establishes it)
or is checked by `parse` itself (`pcross`) -/
def Schema.crossCovered (σ : Schema) : Bool :=
  σ.cross.all (fun c => match c with
    | .zeroExcl _ _ => σ.pcross.contains c
    | _ => σ.tail.isSome)

def Schema.ctorCovered (σ : Schema) : Bool := σ.opts.all OptStep.ctyCovered && σ.crossCovered

theorem ffItemCtorOk_of_parseOk (v : WVal) (h : ffItemParseOk v = true) : ffItemCtorOk v = true := by
  unfold ffItemParseOk at h
  unfold ffItemCtorOk
  simp only [Bool.and_eq_true] at h ⊢
  obtain ⟨⟨⟨h1, h2⟩, h3⟩, h4⟩ := h
  refine ⟨⟨⟨h1, h2⟩, ?_⟩, h4⟩
  split at h3
  · rename_i heq; rw [heq]
  · rename_i heq; rw [heq]
  · simp at h3

theorem all_ffItemCtorOk (xs : List WVal) (h : xs.all ffItemParseOk = true) : xs.all ffItemCtorOk = true := by
  rw [List.all_eq_true] at h ⊢
  exact fun x hx => ffItemCtorOk_of_parseOk x (h x hx)

theorem null_of_isNull {v : WVal} (h : v.isNull = true) : v = .null := by
  cases v <;> simp_all [WVal.isNull]

/-- a value that passed the option's check satisfies the constructor's assertion on it -/
theorem cty_ok_of_parse {O : Oracles} {d : Dict} {s : OptStep} {v : WVal}
    (hwf : OptStep.wf s = true) (hc : s.ctyCovered = true) (h : s.parse O d = .ok v) : s.cty.ok v = true := by
  unfold OptStep.ctyCovered at hc
  cases hcty : s.cty with
  | none => rfl
  | strOrNone =>
    rw [hcty] at hc
    simp only [Bool.and_eq_true] at hc
    obtain ⟨hty, hd⟩ := hc
    cases hsty : s.ty <;> rw [hsty] at hty <;> simp at hty
    all_goals
      have hr : s.ty.isRoles = false := by rw [hsty]; rfl
      rcases OptStep.parse_ok hwf hr h with h0 | h1
      · rw [isDflt_eq h0, null_of_isNull hd]; rfl
      · rw [hsty] at h1
        first
          | (simpa [OTy.valid, CTy.ok] using h1)
          | (cases v <;> simp_all [OTy.valid, CTy.ok, uriOk, WVal.isNull, WVal.isStr])
  | dictOrNone =>
    rw [hcty] at hc
    simp only [Bool.and_eq_true] at hc
    obtain ⟨hty, hd⟩ := hc
    cases hsty : s.ty <;> rw [hsty] at hty <;> simp at hty
    have hr : s.ty.isRoles = false := by rw [hsty]; rfl
    rcases OptStep.parse_ok hwf hr h with h0 | h1
    · rw [isDflt_eq h0, null_of_isNull hd]; rfl
    · rw [hsty] at h1
      simpa [OTy.valid, CTy.ok] using h1
  | ffItems =>
    rw [hcty] at hc
    simp only [Bool.and_eq_true] at hc
    obtain ⟨hty, hd⟩ := hc
    cases hsty : s.ty <;> rw [hsty] at hty <;> simp at hty
    subst hty
    have hr : s.ty.isRoles = false := by rw [hsty]; rfl
    rcases OptStep.parse_ok hwf hr h with h0 | h1
    · rw [isDflt_eq h0, null_of_isNull hd]; rfl
    · rw [hsty] at h1
      cases v <;> simp only [OTy.valid, Bool.not_true, Bool.false_or, Bool.false_eq_true] at h1
      simp only [CTy.ok]
      exact all_ffItemCtorOk _ h1

theorem ctorOpts_ok_of_all (cls : ErrClass) (m : Msg) :
    ∀ ss : List OptStep, (∀ s ∈ ss, s.cty.ok (m.get s.field) = true) → ctorOpts cls m ss = .ok () := by
  intro ss
  induction ss with
  | nil => intro _; rfl
  | cons s t ih =>
    intro h
    unfold ctorOpts
    rw [if_pos (h s List.mem_cons_self)]
    exact ih (fun x hx => h x (List.mem_cons_of_mem _ hx))

theorem ctorCross_ok_of_all (cls : ErrClass) (O : Oracles) (m : Msg) :
    ∀ cs : List Cross, (∀ c ∈ cs, c.ok O m = true) → ctorCross cls O m cs = .ok () := by
  intro cs
  induction cs with
  | nil => intro _; rfl
  | cons c t ih =>
    intro h
    unfold ctorCross
    rw [if_pos (h c List.mem_cons_self)]
    exact ih (fun x hx => h x (List.mem_cons_of_mem _ hx))

/-- the cross-field assertions hold of whatever the part of `parse` in front of the constructor call returns -/
theorem cross_ok_of_parseStage {σ : Schema} {O : Oracles} {w : List WVal} {m : Msg}
    (hcov : σ.crossCovered = true) (inv : FieldsInv σ O w m) (hpc : ctorCross .protocol O m σ.pcross = .ok ()) :
    ∀ c ∈ σ.cross, c.ok O m = true := by
  intro c hc
  have hcv := List.all_eq_true.mp hcov c hc
  have htail : (σ.tail.isSome = true) → ∃ t, σ.tail = some t := by
    intro h; cases ht : σ.tail with
    | none => simp [ht] at h
    | some t => exact ⟨t, rfl⟩
  cases c with
  | payloadBytes =>
    obtain ⟨t, ht⟩ := htail hcv
    obtain ⟨_, _, f3, _⟩ := inv.tail t ht
    simpa [Cross.ok] using f3
  | encTypes =>
    obtain ⟨t, ht⟩ := htail hcv
    obtain ⟨_, _, _, f4, f5, f6, _⟩ := inv.tail t ht
    simp only [Cross.ok, Bool.and_eq_true, Bool.or_eq_true]
    exact ⟨⟨f4, f5⟩, f6⟩
  | encTriple =>
    obtain ⟨t, ht⟩ := htail hcv
    obtain ⟨_, _, _, _, _, _, f7⟩ := inv.tail t ht
    simp only [Cross.ok, Bool.and_eq_true, Bool.or_eq_true, Bool.not_eq_true']
    rcases f7 with ⟨x, y, z⟩ | ⟨x, y⟩
    · exact Or.inl ⟨⟨x, y⟩, z⟩
    · exact Or.inr ⟨x, y⟩
  | zeroExcl a b =>
    have hmem : Cross.zeroExcl a b ∈ σ.pcross := by simpa using hcv
    exact ctorCross_inv σ.pcross hpc _ hmem

/-- **the constructor assertions are unreachable from `parse`**: after the part of `parse` in front of the
constructor call has succeeded, the constructor does nothing but `_validate_kwargs` -/
theorem ctor_unreachable (σ : Schema) (O : Oracles) (w : List WVal) (m : Msg)
    (hwf : σ.wf = true) (hcov : σ.ctorCovered = true) (h : σ.parseStage O w = .ok m) :
    σ.ctorStage O m = (if σ.tail.isSome then kwargsCheck m else pure ()) := by
  simp only [Schema.ctorCovered, Bool.and_eq_true] at hcov
  obtain ⟨hf, hpc⟩ := parseStage_fields h
  have inv := parseFields_inv hwf hf
  have ho : ctorOpts σ.ctorErr m σ.opts = .ok () := by
    apply ctorOpts_ok_of_all
    intro s hs
    exact cty_ok_of_parse ((wf_parts hwf).2.2.2.2.2.2.2.1 s hs) (List.all_eq_true.mp hcov.1 s hs) (inv.opts s hs)
  have hc : ctorCross σ.ctorErr O m σ.cross = .ok () :=
    ctorCross_ok_of_all _ O m σ.cross (cross_ok_of_parseStage hcov.2 inv hpc)
  unfold Schema.ctorStage
  rw [ho, hc]
  rfl

/-- hence `parse` raises only the library's own errors — any class whose assertions are covered, HELLO and WELCOME
included -/
theorem parse_allowed_of_covered (σ : Schema) (O : Oracles) (w : List WVal)
    (hwf : σ.wf = true) (hcov : σ.ctorCovered = true) : ErrIn Allowed (σ.parse O w) := by
  unfold Schema.parse
  apply ErrIn.bind (parseStage_allowed σ O w)
  intro m hm
  have hcs : ErrIn Allowed (σ.ctorStage O m) := by
    rw [ctor_unreachable σ O w m hwf hcov hm]
    exact ErrIn.ite (kwargsCheck_allowed m) (ErrIn.pure _)
  exact ErrIn.bind hcs (fun _ _ => ErrIn.pure _)

end Abverif.Wamp
