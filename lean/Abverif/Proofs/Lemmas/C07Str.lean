import Abverif.Model.Http
/-!
C07 — lemmas about the string layer (`Abverif.Http`): find, strip, lower, split, splitlines, glob, int().
-/
namespace Abverif.Http

/-! ### find -/

theorem findGo_shift (pat s : Bytes) (i : Nat) : findGo pat s i = (findGo pat s 0).map (· + i) := by
  induction s generalizing i with
  | nil => simp only [findGo]; split <;> simp
  | cons c rest ih =>
    simp only [findGo]
    split
    · simp
    · rw [ih (i + 1), ih (0 + 1), Option.map_map]
      congr 1; funext k; simp; omega

theorem find_some_iff (pat s : Bytes) (i : Nat) :
    find pat s = some i ↔ (i ≤ s.length ∧ pat <+: s.drop i ∧ ∀ j < i, ¬ pat <+: s.drop j) := by
  unfold find
  induction s generalizing i with
  | nil =>
    simp only [findGo, List.length_nil, Nat.le_zero_eq, List.drop_nil, List.prefix_nil]
    by_cases hp : pat = []
    · subst hp; simp; constructor
      · intro h; subst h; simp
      · intro h; exact h.1.symm
    · have : pat.isEmpty = false := by simpa using hp
      simp [this, hp]
  | cons c rest ih =>
    simp only [findGo]
    by_cases hp : pat.isPrefixOf (c :: rest) = true
    · rw [if_pos hp]
      have hp' : pat <+: c :: rest := List.isPrefixOf_iff_prefix.mp hp
      constructor
      · intro h; cases h; simp [hp']
      · rintro ⟨_, _, h3⟩
        cases i with
        | zero => rfl
        | succ k => exact absurd hp' (h3 0 (Nat.succ_pos _))
    · rw [if_neg hp]
      have hp' : ¬ pat <+: c :: rest := fun h => hp (List.isPrefixOf_iff_prefix.mpr h)
      rw [findGo_shift]
      cases i with
      | zero =>
        constructor
        · intro h
          cases hh : findGo pat rest 0 <;> simp [hh] at h
        · rintro ⟨_, h2, _⟩; exact absurd h2 hp'
      | succ k =>
        have : Option.map (fun x => x + (0 + 1)) (findGo pat rest 0) = some (k + 1) ↔ findGo pat rest 0 = some k := by
          cases hh : findGo pat rest 0 <;> simp
        rw [this, ih k]
        simp only [List.length_cons, Nat.add_le_add_iff_right, List.drop_succ_cons]
        constructor
        · rintro ⟨h1, h2, h3⟩
          refine ⟨h1, h2, ?_⟩
          intro j hj
          cases j with
          | zero => exact hp'
          | succ j' => exact h3 j' (by omega)
        · rintro ⟨h1, h2, h3⟩
          refine ⟨h1, h2, ?_⟩
          intro j hj
          have := h3 (j + 1) (by omega)
          simpa using this

theorem find_none_iff (pat s : Bytes) : find pat s = none ↔ ∀ j ≤ s.length, ¬ pat <+: s.drop j := by
  unfold find
  induction s with
  | nil =>
    simp only [findGo, List.length_nil, Nat.le_zero_eq, List.drop_nil, List.prefix_nil]
    by_cases hp : pat = []
    · subst hp; simp
    · have : pat.isEmpty = false := by simpa using hp
      simp [this, hp]
  | cons c rest ih =>
    simp only [findGo]
    by_cases hp : pat.isPrefixOf (c :: rest) = true
    · rw [if_pos hp]
      have hp' : pat <+: c :: rest := List.isPrefixOf_iff_prefix.mp hp
      simp only [reduceCtorEq, false_iff]
      intro h; exact h 0 (Nat.zero_le _) hp'
    · rw [if_neg hp]
      have hp' : ¬ pat <+: c :: rest := fun h => hp (List.isPrefixOf_iff_prefix.mpr h)
      rw [findGo_shift]
      have : Option.map (fun x => x + (0 + 1)) (findGo pat rest 0) = none ↔ findGo pat rest 0 = none := by
        cases hh : findGo pat rest 0 <;> simp
      rw [this, ih]
      constructor
      · intro h j hj
        cases j with
        | zero => exact hp'
        | succ j' => simpa using h j' (by simpa using hj)
      · intro h j hj
        simpa using h (j + 1) (by simpa using hj)

theorem find_bound {pat s : Bytes} {i : Nat} (h : find pat s = some i) : i + pat.length ≤ s.length := by
  obtain ⟨h1, h2, _⟩ := (find_some_iff pat s i).mp h
  have := h2.length_le
  simp at this; omega

theorem prefix_drop_append {pat s t : Bytes} {j : Nat} (hl : j + pat.length ≤ s.length)
    (h : pat <+: (s ++ t).drop j) : pat <+: s.drop j := by
  rw [List.drop_append] at h
  have h2 : s.drop j <+: s.drop j ++ t.drop (j - s.length) := List.prefix_append _ _
  exact List.prefix_of_prefix_length_le h h2 (by simp; omega)

/-- once the pattern is in the buffer its first position never moves -/
theorem find_prefix_stable {pat s : Bytes} {i : Nat} (h : find pat s = some i) (t : Bytes) :
    find pat (s ++ t) = some i := by
  have hb := find_bound h
  obtain ⟨h1, h2, h3⟩ := (find_some_iff pat s i).mp h
  rw [find_some_iff]
  refine ⟨by simp; omega, ?_, ?_⟩
  · rw [List.drop_append]
    exact h2.trans (List.prefix_append _ _)
  · intro j hj hp
    exact h3 j hj (prefix_drop_append (by omega) hp)

/-- a match found after appending was not complete before -/
theorem find_append_new {pat s t : Bytes} {i : Nat} (h0 : find pat s = none) (h : find pat (s ++ t) = some i) :
    s.length < i + pat.length := by
  obtain ⟨h1, h2, h3⟩ := (find_some_iff pat (s ++ t) i).mp h
  apply Nat.lt_of_not_le
  intro hle
  exact (find_none_iff pat s).mp h0 i (by omega) (prefix_drop_append hle h2)


/-- Bounded universal quantification over `UInt8` is decidable. -/
private instance decForallU8 (P : UInt8 → Prop) [DecidablePred P] : Decidable (∀ a, P a) :=
  @decidable_of_iff _ (∀ n, n < 256 → P (UInt8.ofNat n))
    ⟨fun h a => by have := h a.toNat a.toNat_lt; simpa using this, fun h n _ => h _⟩
    (Nat.decidableBallLT 256 (fun n _ => P (UInt8.ofNat n)))

/-! ### strip -/

theorem dropWhile_of_head {p : UInt8 → Bool} {s : Bytes}
    (h : ∀ c, s.head? = some c → p c = false) : s.dropWhile p = s := by
  cases s with
  | nil => rfl
  | cons c r => simp [h c rfl]

theorem head_dropWhile (p : UInt8 → Bool) (s : Bytes) :
    ∀ c, (s.dropWhile p).head? = some c → p c = false := by
  intro c hc
  have := List.head?_dropWhile_not p s
  rw [hc] at this; simpa using this

theorem all_takeWhile' (p : UInt8 → Bool) (s : Bytes) : (s.takeWhile p).all p = true := by
  induction s with
  | nil => rfl
  | cons c r ih =>
    rw [List.takeWhile_cons]; split
    · simp_all
    · rfl

theorem rstripBy_spec (p : UInt8 → Bool) (m : Bytes) :
    ∃ r, m = rstripBy p m ++ r ∧ r.all p = true := by
  refine ⟨(m.reverse.takeWhile p).reverse, ?_, ?_⟩
  · unfold rstripBy
    rw [← List.reverse_append, List.takeWhile_append_dropWhile, List.reverse_reverse]
  · rw [List.all_reverse]; exact all_takeWhile' _ _

theorem strip_spec (s : Bytes) :
    ∃ l r, s = l ++ strip s ++ r ∧ l.all isSpace = true ∧ r.all isSpace = true := by
  obtain ⟨r, hr, hr2⟩ := rstripBy_spec isSpace (lstripBy isSpace s)
  refine ⟨s.takeWhile isSpace, r, ?_, all_takeWhile' _ _, hr2⟩
  unfold strip stripBy
  rw [List.append_assoc, ← hr]
  unfold lstripBy
  exact (List.takeWhile_append_dropWhile).symm

theorem strip_last (s : Bytes) : ∀ c, (strip s).getLast? = some c → isSpace c = false := by
  intro c hc
  unfold strip stripBy rstripBy at hc
  rw [List.getLast?_reverse] at hc
  exact head_dropWhile _ _ c hc

theorem strip_head (s : Bytes) : ∀ c, (strip s).head? = some c → isSpace c = false := by
  intro c hc
  obtain ⟨r, hr, _⟩ := rstripBy_spec isSpace (lstripBy isSpace s)
  apply head_dropWhile isSpace s c
  change (lstripBy isSpace s).head? = some c
  rw [hr]
  change (rstripBy isSpace (lstripBy isSpace s)).head? = some c at hc
  cases hx : rstripBy isSpace (lstripBy isSpace s) with
  | nil => rw [hx] at hc; simp at hc
  | cons a t => rw [hx] at hc; simpa using hc

theorem strip_of_clean {s : Bytes} (h1 : ∀ c, s.head? = some c → isSpace c = false)
    (h2 : ∀ c, s.getLast? = some c → isSpace c = false) : strip s = s := by
  unfold strip stripBy rstripBy lstripBy
  rw [dropWhile_of_head h1, dropWhile_of_head, List.reverse_reverse]
  intro c hc
  rw [List.head?_reverse] at hc
  exact h2 c hc

theorem strip_idem (s : Bytes) : strip (strip s) = strip s :=
  strip_of_clean (strip_head s) (strip_last s)

/-! ### lower -/

theorem lowerC_idem : ∀ c : UInt8, lowerC (lowerC c) = lowerC c := by decide +kernel

theorem lower_length (s : Bytes) : (lower s).length = s.length := by simp [lower]

theorem lower_idem (s : Bytes) : lower (lower s) = lower s := by
  simp [lower, lowerC_idem]

theorem lower_append (a b : Bytes) : lower (a ++ b) = lower a ++ lower b := by simp [lower]

/-! ### split / join / cut -/

theorem splitOn_ne_nil (sep : UInt8) (s : Bytes) : splitOn sep s ≠ [] := by
  cases s with
  | nil => simp [splitOn]
  | cons c r =>
    simp only [splitOn]
    split
    · simp
    · split <;> simp

theorem join_cons_cons (sep : Bytes) (c : UInt8) (h : Bytes) (t : List Bytes) :
    join sep ((c :: h) :: t) = c :: join sep (h :: t) := by
  cases t <;> simp [join]

theorem splitOn_join (sep : UInt8) (s : Bytes) : join [sep] (splitOn sep s) = s := by
  induction s with
  | nil => simp [splitOn, join]
  | cons c r ih =>
    simp only [splitOn]
    split
    · rename_i h; subst h
      cases hx : splitOn c r with
      | nil => exact absurd hx (splitOn_ne_nil _ _)
      | cons y ys => rw [hx] at ih; simp [join, ih]
    · cases hx : splitOn sep r with
      | nil => exact absurd hx (splitOn_ne_nil _ _)
      | cons y ys => rw [hx] at ih; simp only []; rw [join_cons_cons, ih]

theorem splitOn_no_sep (sep : UInt8) (s : Bytes) : ∀ p ∈ splitOn sep s, sep ∉ p := by
  induction s with
  | nil => simp [splitOn]
  | cons c r ih =>
    simp only [splitOn]
    split
    · intro p hp
      rcases List.mem_cons.mp hp with rfl | hp
      · simp
      · exact ih p hp
    · rename_i hne
      cases hx : splitOn sep r with
      | nil => exact absurd hx (splitOn_ne_nil _ _)
      | cons y ys =>
        rw [hx] at ih
        intro p hp
        rcases List.mem_cons.mp hp with rfl | hp
        · have := ih y (List.mem_cons_self)
          simp only [List.mem_cons, not_or]
          exact ⟨fun h => hne h.symm, this⟩
        · exact ih p (List.mem_cons_of_mem _ hp)

theorem splitOn_of_no_sep {sep : UInt8} {s : Bytes} (h : sep ∉ s) : splitOn sep s = [s] := by
  induction s with
  | nil => simp [splitOn]
  | cons c r ih =>
    simp only [List.mem_cons, not_or] at h
    simp only [splitOn]
    rw [if_neg (fun e => h.1 e.symm), ih h.2]

theorem splitWsGo_tokens (s cur : Bytes) (hc : ∀ c ∈ cur, isSpace c = false) :
    ∀ t ∈ splitWsGo s cur, t ≠ [] ∧ ∀ c ∈ t, isSpace c = false := by
  induction s generalizing cur with
  | nil =>
    simp only [splitWsGo]
    split
    · simp
    · rename_i hne
      intro t ht
      simp only [List.mem_singleton] at ht
      subst ht
      refine ⟨by simpa using hne, ?_⟩
      intro c hcm; exact hc c (List.mem_reverse.mp hcm)
  | cons c r ih =>
    simp only [splitWsGo]
    split
    · split
      · exact ih [] (by simp)
      · rename_i hne
        intro t ht
        rcases List.mem_cons.mp ht with rfl | ht
        · refine ⟨by simpa using hne, ?_⟩
          intro c hcm; exact hc c (List.mem_reverse.mp hcm)
        · exact ih [] (by simp) t ht
    · rename_i hsp
      apply ih
      intro d hd
      rcases List.mem_cons.mp hd with rfl | hd
      · simpa using hsp
      · exact hc d hd

theorem splitWs_tokens (s : Bytes) : ∀ t ∈ splitWs s, t ≠ [] ∧ ∀ c ∈ t, isSpace c = false :=
  splitWsGo_tokens s [] (by simp)

theorem splitWsGo_flatten (s cur : Bytes) :
    (splitWsGo s cur).flatten = cur.reverse ++ s.filter (fun c => !isSpace c) := by
  induction s generalizing cur with
  | nil =>
    simp only [splitWsGo]
    split
    · rename_i h; simp at h; simp [h]
    · simp
  | cons c r ih =>
    simp only [splitWsGo]
    split
    · rename_i hsp
      split
      · rename_i h; simp at h; simp [h, ih, hsp]
      · simp [ih, hsp]
    · rename_i hsp
      simp [ih, hsp]

theorem splitWs_flatten (s : Bytes) : (splitWs s).flatten = s.filter (fun c => !isSpace c) := by
  simp [splitWs, splitWsGo_flatten]

theorem cut_some_iff (c : UInt8) (s a b : Bytes) : cut c s = some (a, b) ↔ (s = a ++ c :: b ∧ c ∉ a) := by
  induction s generalizing a with
  | nil => simp [cut]
  | cons d r ih =>
    simp only [cut]
    split
    · rename_i h; subst h
      constructor
      · intro h; cases h; simp
      · rintro ⟨h1, h2⟩
        cases a with
        | nil => simp at h1; simp [h1]
        | cons x xs => simp at h1; simp [h1.1] at h2
    · rename_i hne
      cases a with
      | nil =>
        constructor
        · intro h; cases hx : cut c r <;> simp [hx] at h
        · rintro ⟨h1, _⟩; simp at h1; exact absurd h1.1 hne
      | cons x xs =>
        have : Option.map (fun p : Bytes × Bytes => (d :: p.1, p.2)) (cut c r) = some (x :: xs, b)
            ↔ (d = x ∧ cut c r = some (xs, b)) := by
          cases hx : cut c r with
          | none => simp
          | some p =>
            obtain ⟨p1, p2⟩ := p
            simp; constructor
            · rintro ⟨⟨h1, h2⟩, h3⟩; exact ⟨h1, h2, h3⟩
            · rintro ⟨h1, h2, h3⟩; exact ⟨⟨h1, h2⟩, h3⟩
        rw [this, ih xs]
        simp only [List.cons_append, List.cons.injEq, List.mem_cons, not_or]
        constructor
        · rintro ⟨h1, h2, h3⟩; subst h1; exact ⟨⟨rfl, h2⟩, fun e => hne e.symm, h3⟩
        · rintro ⟨⟨h1, h2⟩, _, h3⟩; exact ⟨h1, h2, h3⟩

theorem cut_none_iff (c : UInt8) (s : Bytes) : cut c s = none ↔ c ∉ s := by
  induction s with
  | nil => simp [cut]
  | cons d r ih =>
    simp only [cut]
    split
    · rename_i h; subst h; simp
    · rename_i hne
      simp only [Option.map_eq_none_iff, ih, List.mem_cons, not_or]
      exact ⟨fun h => ⟨fun e => hne e.symm, h⟩, fun h => h.2⟩

theorem rcut_some_iff (c : UInt8) (s a b : Bytes) : rcut c s = some (a, b) ↔ (s = a ++ c :: b ∧ c ∉ b) := by
  have h1 : rcut c s = some (a, b) ↔ cut c s.reverse = some (b.reverse, a.reverse) := by
    unfold rcut
    cases hx : cut c s.reverse with
    | none => simp
    | some p =>
      obtain ⟨p1, p2⟩ := p
      simp only [Option.map_some, Option.some.injEq, Prod.mk.injEq]
      constructor
      · rintro ⟨h1, h2⟩; subst h1; subst h2; simp
      · rintro ⟨h1, h2⟩; subst h1; subst h2; simp
  rw [h1, cut_some_iff]
  simp only [List.mem_reverse]
  constructor
  · rintro ⟨h, h2⟩
    refine ⟨?_, h2⟩
    have := congrArg List.reverse h
    simpa using this
  · rintro ⟨h, h2⟩
    refine ⟨?_, h2⟩
    subst h; simp

theorem findB_eq_cut (c : UInt8) (s : Bytes) : findB c s = (cut c s).map (fun p => p.1.length) := by
  induction s with
  | nil => simp [findB, cut]
  | cons d r ih =>
    simp only [findB, cut]
    split
    · simp
    · rw [ih, Option.map_map, Option.map_map]; rfl


/-! ### splitlines -/

theorem splitlinesGo_no_brk (b : Bool) (s cur : Bytes) (hc : ∀ c ∈ cur, isBrk c = false) :
    ∀ l ∈ splitlinesGo b s cur, ∀ c ∈ l, isBrk c = false := by
  induction s generalizing b cur with
  | nil =>
    simp only [splitlinesGo]
    split
    · simp
    · intro l hl c hcl
      simp only [List.mem_singleton] at hl
      subst hl
      exact hc c (List.mem_reverse.mp hcl)
  | cons d r ih =>
    simp only [splitlinesGo]
    split
    · exact ih false cur hc
    · split
      · intro l hl
        rcases List.mem_cons.mp hl with rfl | hl
        · intro c hcl; exact hc c (List.mem_reverse.mp hcl)
        · exact ih _ [] (by simp) l hl
      · rename_i hb
        apply ih
        intro x hx
        rcases List.mem_cons.mp hx with rfl | hx
        · simpa using hb
        · exact hc x hx

theorem splitlines_no_brk (s : Bytes) : ∀ l ∈ splitlines s, ∀ c ∈ l, isBrk c = false :=
  splitlinesGo_no_brk false s [] (by simp)

theorem splitlinesGo_ne_nil (b : Bool) (s cur : Bytes) (hc : cur ≠ []) : splitlinesGo b s cur ≠ [] := by
  induction s generalizing b cur with
  | nil => simp [splitlinesGo, hc]
  | cons d r ih =>
    simp only [splitlinesGo]
    split
    · exact ih false cur hc
    · split
      · simp
      · exact ih false (d :: cur) (by simp)

theorem splitlines_nil_iff (s : Bytes) : splitlines s = [] ↔ s = [] := by
  constructor
  · intro h
    cases s with
    | nil => rfl
    | cons d r =>
      exfalso
      unfold splitlines at h
      simp only [splitlinesGo, Bool.false_and, Bool.false_eq_true, if_false] at h
      split at h
      · simp at h
      · exact splitlinesGo_ne_nil false r [d] (by simp) h
  · intro h; subst h; simp [splitlines, splitlinesGo]

/-- the readable spec: a line is a maximal break-free run; terminators are CR LF, or one break character -/
inductive Lines : Bytes → List Bytes → Prop
  | nil : Lines [] []
  | last (l : Bytes) : l ≠ [] → (∀ c ∈ l, isBrk c = false) → Lines l [l]
  | crlf (l rest : Bytes) (ls : List Bytes) : (∀ c ∈ l, isBrk c = false) → Lines rest ls →
      Lines (l ++ 13 :: 10 :: rest) (l :: ls)
  | one (l : Bytes) (b : UInt8) (rest : Bytes) (ls : List Bytes) : (∀ c ∈ l, isBrk c = false) → isBrk b = true →
      ¬ (b = 13 ∧ rest.head? = some 10) → Lines rest ls → Lines (l ++ b :: rest) (l :: ls)

theorem splitlinesGo_true (s cur : Bytes) :
    splitlinesGo true s cur =
      if s.head? = some 10 then splitlinesGo false s.tail cur else splitlinesGo false s cur := by
  cases s with
  | nil => simp [splitlinesGo]
  | cons d r =>
    by_cases hd : d = 10
    · subst hd; simp [splitlinesGo]
    · have : (d == 10) = false := by simpa using hd
      simp [splitlinesGo, hd, this]

theorem splitlinesGo_spec (n : Nat) (s cur : Bytes) (hn : s.length ≤ n)
    (hc : ∀ c ∈ cur, isBrk c = false) : Lines (cur.reverse ++ s) (splitlinesGo false s cur) := by
  induction n generalizing s cur with
  | zero =>
    have : s = [] := List.eq_nil_of_length_eq_zero (by omega)
    subst this
    simp only [splitlinesGo, List.append_nil]
    split
    · rename_i h; simp at h; subst h; exact Lines.nil
    · rename_i h
      exact Lines.last _ (by simpa using h) (fun c hcl => hc c (List.mem_reverse.mp hcl))
  | succ n ih =>
    cases s with
    | nil =>
      simp only [splitlinesGo, List.append_nil]
      split
      · rename_i h; simp at h; subst h; exact Lines.nil
      · rename_i h
        exact Lines.last _ (by simpa using h) (fun c hcl => hc c (List.mem_reverse.mp hcl))
    | cons d r =>
      have hr : r.length ≤ n := by simpa using hn
      have hcr : ∀ c ∈ cur.reverse, isBrk c = false := fun c hcl => hc c (List.mem_reverse.mp hcl)
      simp only [splitlinesGo, Bool.false_and, Bool.false_eq_true, if_false]
      split
      · rename_i hb
        by_cases hcrlf : d = 13 ∧ r.head? = some 10
        · obtain ⟨hd, hh⟩ := hcrlf
          subst hd
          cases r with
          | nil => simp at hh
          | cons e r' =>
            simp only [List.head?_cons, Option.some.injEq] at hh
            subst hh
            rw [show ((13 : UInt8) == 13) = true from rfl, splitlinesGo_true]
            simp only [List.head?_cons, if_true, List.tail_cons]
            have := ih r' [] (by simp at hr; omega) (by simp)
            exact Lines.crlf _ _ _ hcr (by simpa using this)
        · have h1 : splitlinesGo (d == 13) r [] = splitlinesGo false r [] := by
            by_cases hd : d = 13
            · subst hd
              have : ¬ r.head? = some 10 := fun h => hcrlf ⟨rfl, h⟩
              rw [show ((13 : UInt8) == 13) = true from rfl, splitlinesGo_true, if_neg this]
            · have : (d == 13) = false := by simpa using hd
              rw [this]
          rw [h1]
          have := ih r [] hr (by simp)
          exact Lines.one _ _ _ _ hcr hb hcrlf (by simpa using this)
      · rename_i hb
        have := ih r (d :: cur) hr (by
          intro x hx
          rcases List.mem_cons.mp hx with rfl | hx
          · simpa using hb
          · exact hc x hx)
        simpa using this

theorem splitlines_spec (s : Bytes) : Lines s (splitlines s) := by
  have := splitlinesGo_spec s.length s [] (Nat.le_refl _) (by simp)
  simpa [splitlines] using this

theorem splitlines_ends_crlfcrlf (s : Bytes) : splitlines (s ++ [13, 10, 13, 10]) ≠ [] := by
  rw [Ne, splitlines_nil_iff]; simp


/-! ### wildcard patterns -/
namespace Glob

theorem anySuffix_true_iff (k : Bytes → Bool) (s : Bytes) :
    anySuffix k s = true ↔ ∃ t, t <:+ s ∧ k t = true := by
  induction s with
  | nil =>
    simp only [anySuffix, List.suffix_nil]
    exact ⟨fun h => ⟨[], rfl, h⟩, fun ⟨t, ht, hk⟩ => ht ▸ hk⟩
  | cons c cs ih =>
    simp only [anySuffix, Bool.or_eq_true, ih, List.suffix_cons_iff]
    constructor
    · rintro (h | ⟨t, ht, hk⟩)
      · exact ⟨_, Or.inl rfl, h⟩
      · exact ⟨t, Or.inr ht, hk⟩
    · rintro ⟨t, ht | ht, hk⟩
      · exact Or.inl (ht ▸ hk)
      · exact Or.inr ⟨t, ht, hk⟩

/-- without a newline in the subject the two suffix searches agree (for continuations that agree on suffixes) -/
theorem anySuffixNoNl_eq_anySuffix_of (k1 k2 : Bytes → Bool) (s : Bytes) (h : (10 : UInt8) ∉ s)
    (hk : ∀ t, t <:+ s → k1 t = k2 t) : anySuffixNoNl k1 s = anySuffix k2 s := by
  induction s with
  | nil => simp only [anySuffixNoNl, anySuffix]; exact hk [] (List.suffix_refl _)
  | cons c cs ih =>
    have hc : (c != 10) = true := by
      simp only [bne_iff_ne, ne_eq]; exact fun e => h (by simp [e])
    have hcs : (10 : UInt8) ∉ cs := fun e => h (List.mem_cons_of_mem _ e)
    simp only [anySuffixNoNl, anySuffix, hc, Bool.true_and]
    rw [hk _ (List.suffix_refl _), ih hcs (fun t ht => hk t (List.suffix_cons_iff.mpr (Or.inr ht)))]

theorem anySuffixNoNl_eq_anySuffix (k : Bytes → Bool) (s : Bytes) (h : (10 : UInt8) ∉ s) :
    anySuffixNoNl k s = anySuffix k s :=
  anySuffixNoNl_eq_anySuffix_of k k s h (fun _ _ => rfl)

theorem fullMatch_cons_eq (p : UInt8) (ps s : Bytes) :
    fullMatch (p :: ps) s = if p == 42 then anySuffix (fullMatch ps) s else
      match s with
      | [] => false
      | c :: cs => p == c && fullMatch ps cs := by
  cases s <;> rfl

theorem matchNoNl_cons_eq (p : UInt8) (ps s : Bytes) :
    matchNoNl (p :: ps) s = if p == 42 then anySuffixNoNl (matchNoNl ps) s else
      match s with
      | [] => false
      | c :: cs => p == c && matchNoNl ps cs := by
  cases s <;> rfl

theorem fullMatch_nil (s : Bytes) : fullMatch [] s = true ↔ s = [] := by
  simp [fullMatch]

/-- declarative reading of the glob: `*` stands for an arbitrary string -/
theorem fullMatch_star_cons (ps s : Bytes) :
    fullMatch (42 :: ps) s = true ↔ ∃ a b, s = a ++ b ∧ fullMatch ps b = true := by
  have : fullMatch (42 :: ps) s = anySuffix (fullMatch ps) s := by
    rw [fullMatch_cons_eq]; simp
  rw [this, anySuffix_true_iff]
  constructor
  · rintro ⟨t, ⟨a, ha⟩, hk⟩; exact ⟨a, t, ha.symm, hk⟩
  · rintro ⟨a, b, hs, hk⟩; exact ⟨b, ⟨a, hs.symm⟩, hk⟩

theorem fullMatch_char_cons (p : UInt8) (hp : p ≠ 42) (ps s : Bytes) :
    fullMatch (p :: ps) s = true ↔ ∃ cs, s = p :: cs ∧ fullMatch ps cs = true := by
  have hp' : (p == 42) = false := by simpa using hp
  rw [fullMatch_cons_eq]
  cases s with
  | nil => simp [hp']
  | cons c cs =>
    simp only [hp', Bool.false_eq_true, if_false, Bool.and_eq_true, beq_iff_eq, List.cons.injEq]
    constructor
    · rintro ⟨h1, h2⟩; exact ⟨cs, ⟨h1.symm, rfl⟩, h2⟩
    · rintro ⟨cs', ⟨h1, h2⟩, h3⟩; subst h1; subst h2; exact ⟨rfl, h3⟩

theorem fullMatch_star (s : Bytes) : fullMatch [42] s = true :=
  (fullMatch_star_cons [] s).mpr ⟨s, [], by simp, (fullMatch_nil []).mpr rfl⟩

theorem fullMatch_literal (p s : Bytes) (h : 42 ∉ p) : fullMatch p s = true ↔ p = s := by
  induction p generalizing s with
  | nil => rw [fullMatch_nil]; exact ⟨fun h => h.symm, fun h => h.symm⟩
  | cons a ps ih =>
    simp only [List.mem_cons, not_or] at h
    rw [fullMatch_char_cons a (fun e => h.1 e.symm)]
    constructor
    · rintro ⟨cs, hs, hm⟩; rw [hs, (ih cs h.2).mp hm]
    · intro e; exact ⟨ps, e.symm, (ih ps h.2).mpr rfl⟩

theorem fullMatch_not_prefix_witness :
    fullMatch (b!"*good.com") (b!"good.com") = true ∧
    fullMatch (b!"*good.com") (b!"good.com.evil.com") = false := by decide

theorem matchNoNl_eq_fullMatch (p s : Bytes) (h : (10 : UInt8) ∉ s) : matchNoNl p s = fullMatch p s := by
  induction p generalizing s with
  | nil => simp [matchNoNl, fullMatch]
  | cons a ps ih =>
    rw [matchNoNl_cons_eq, fullMatch_cons_eq]
    split
    · exact anySuffixNoNl_eq_anySuffix_of _ _ s h
        (fun t ht => ih t (fun e => h (ht.subset e)))
    · cases s with
      | nil => rfl
      | cons c cs =>
        simp only []
        rw [ih cs (fun e => h (List.mem_cons_of_mem _ e))]

theorem reMatch_eq_fullMatch (p s : Bytes) (h : (10 : UInt8) ∉ s) : reMatch p s = fullMatch p s := by
  unfold reMatch
  rw [matchNoNl_eq_fullMatch p s h]
  split
  · rename_i hl
    exact absurd (List.mem_of_getLast? hl) h
  · simp

/-- the `$` quirk is real on subjects that end in a newline -/
theorem reMatch_trailing_newline_witness :
    reMatch (b!"a") (b!"a" ++ [10]) = true ∧ fullMatch (b!"a") (b!"a" ++ [10]) = false := by decide

end Glob

/-! ### int() -/

theorem digit_not_intSpace : ∀ c : UInt8, isDigit c = true → isIntSpace c = false := by decide +kernel
theorem digit_not_sign : ∀ c : UInt8, isDigit c = true → c ≠ 43 ∧ c ≠ 45 := by decide +kernel

theorem digs_digits (need : Bool) (s : Bytes) (v n : Nat) (h : s.all isDigit = true)
    (hn : s ≠ [] ∨ need = false) :
    digs need s v n = some (s.foldl (fun v c => v * 10 + (c.toNat - 48)) v, n + s.length) := by
  induction s generalizing need v n with
  | nil =>
    rcases hn with hn | hn
    · exact absurd rfl hn
    · subst hn; simp [digs]
  | cons c r ih =>
    simp only [List.all_cons, Bool.and_eq_true] at h
    simp only [digs, h.1, if_true]
    rw [ih false _ _ h.2 (Or.inr rfl)]
    simp; omega

theorem pyInt_digits {s : Bytes} (h1 : s ≠ []) (h2 : s.all isDigit = true) (h3 : s.length ≤ 4300) :
    pyInt s = some ((s.foldl (fun v c => v * 10 + (c.toNat - 48)) 0 : Nat) : Int) := by
  have hall : ∀ c ∈ s, isDigit c = true := List.all_eq_true.mp h2
  have hh : ∀ c, s.head? = some c → isIntSpace c = false := fun c hc =>
    digit_not_intSpace c (hall c (List.mem_of_head? hc))
  have hl : ∀ c, s.reverse.head? = some c → isIntSpace c = false := fun c hc => by
    rw [List.head?_reverse] at hc
    exact digit_not_intSpace c (hall c (List.mem_of_getLast? hc))
  have hstrip : stripBy isIntSpace s = s := by
    unfold stripBy rstripBy lstripBy
    rw [dropWhile_of_head hh, dropWhile_of_head hl, List.reverse_reverse]
  unfold pyInt
  simp only [hstrip]
  -- `pyInt.match_1` is the compiled sign `match` inside `pyInt` (a `match` restated here would be a different constant)
  have hbody : pyInt.match_1 (fun _ => Bool × Bytes) s (fun r => (false, r)) (fun r => (true, r))
      (fun _ => (false, s)) = (false, s) := by
    split
    · exact absurd rfl (digit_not_sign 43 (hall 43 (by simp))).1
    · exact absurd rfl (digit_not_sign 45 (hall 45 (by simp))).2
    · rfl
  rw [hbody]
  simp only [digs_digits true s 0 0 h2 (Or.inl h1), Nat.zero_add]
  simp [maxStrDigits]; omega

theorem pyInt_plus13 : pyInt (b!"+13") = some 13 ∧ pyInt (b!"1_3") = some 13 ∧ pyInt (b!"013") = some 13 ∧
    pyInt (b!"1__3") = none ∧ pyInt (b!"+ 13") = none ∧ pyInt [0x1f, 49] = none ∧
    pyInt [0xa0, 49, 0x85] = some 1 := by decide +kernel

end Abverif.Http
