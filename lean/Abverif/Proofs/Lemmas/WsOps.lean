import Abverif.Proofs.Lemmas.WsExt
/-
Which frames (by opcode, history variable `S.sentOps`) each engine function may hand to `sendData`:
the receive path, the timers and the closing functions send only close/ping/pong frames, nothing once the
connection is CLOSING or CLOSED, and a close frame only on the way into CLOSING.
-/
namespace Abverif.Ws

/-- `b` comes after `a`; the frames sent in between are control frames only, none if `a` was already closing, and a
close frame among them means `b` is closing or closed -/
def OpsRel (a b : S) : Prop :=
  a.st.rank ≤ b.st.rank ∧ b.sendOpcode = a.sendOpcode ∧ ∃ d, b.sentOps = a.sentOps ++ d ∧ (2 ≤ a.st.rank → d = []) ∧
    (∀ x ∈ d, x = 8 ∨ x = 9 ∨ x = 10) ∧ (8 ∈ d → 2 ≤ b.st.rank)

theorem SendEq.sendOpcode {a b : S} (h : SendEq a b) : b.sendOpcode = a.sendOpcode := by
  unfold SendEq at h; rw [h]

theorem OpsRel.of_same {a b : S} (h1 : b.st = a.st) (h2 : b.sentOps = a.sentOps) (h3 : b.sendOpcode = a.sendOpcode) :
    OpsRel a b :=
  ⟨by rw [h1]; exact Nat.le_refl _, h3, [], by simp [h2], fun _ => rfl, by simp, by simp⟩

theorem OpsRel.of_rank {a b : S} (h1 : a.st.rank ≤ b.st.rank) (h2 : b.sentOps = a.sentOps)
    (h3 : b.sendOpcode = a.sendOpcode) : OpsRel a b :=
  ⟨h1, h3, [], by simp [h2], fun _ => rfl, by simp, by simp⟩

theorem OpsRel.refl (a : S) : OpsRel a a := OpsRel.of_same rfl rfl rfl

theorem OpsRel.trans {a b c : S} (h1 : OpsRel a b) (h2 : OpsRel b c) : OpsRel a c := by
  obtain ⟨r1, o1, d1, e1, z1, k1, c1⟩ := h1
  obtain ⟨r2, o2, d2, e2, z2, k2, c2⟩ := h2
  refine ⟨Nat.le_trans r1 r2, o2.trans o1, d1 ++ d2, by rw [e2, e1, List.append_assoc], ?_, ?_, ?_⟩
  · intro ha
    rw [z1 ha, z2 (Nat.le_trans ha r1)]; rfl
  · intro x hx
    rcases List.mem_append.mp hx with h | h
    · exact k1 x h
    · exact k2 x h
  · intro h8
    rcases List.mem_append.mp h8 with h | h
    · exact Nat.le_trans (c1 h) r2
    · exact c2 h

/-- replace the start state by one with the same connection state and frame history -/
theorem OpsRel.pre {a a' b : S} (h : OpsRel a' b) (h1 : a'.st = a.st) (h2 : a'.sentOps = a.sentOps)
    (h3 : a'.sendOpcode = a.sendOpcode) : OpsRel a b :=
  (OpsRel.of_same h1 h2 h3).trans h

theorem OpsRel.post {a b b' : S} (h : OpsRel a b) (h1 : b'.st = b.st) (h2 : b'.sentOps = b.sentOps)
    (h3 : b'.sendOpcode = b.sendOpcode) : OpsRel a b' :=
  h.trans (OpsRel.of_same h1 h2 h3)

theorem OpsRel.of_SendEq_same {a b : S} (h : SendEq a b) (hs : b.sentOps = a.sentOps) : OpsRel a b :=
  OpsRel.of_same h.st hs h.sendOpcode

theorem emit_Ops (s : S) (o : Out) : OpsRel s (s.emit o) := OpsRel.of_same rfl rfl rfl
theorem timer_Ops (s : S) (d : Nat) : OpsRel s (s.timer d).1 := OpsRel.of_same rfl rfl rfl
theorem armCloseHs_Ops (s : S) : OpsRel s (armCloseHs s) := OpsRel.of_same rfl rfl rfl
theorem armServerDrop_Ops (s : S) : OpsRel s (armServerDrop s) := OpsRel.of_same rfl rfl rfl
theorem armPingNext_Ops (s : S) : OpsRel s (armPingNext s) := OpsRel.of_same rfl rfl rfl
theorem armPingTimeout_Ops (s : S) : OpsRel s (armPingTimeout s) := OpsRel.of_same rfl rfl rfl

theorem sendTick_sentOps (s : S) : (sendTick s).sentOps = s.sentOps := by
  unfold sendTick
  split
  · dsimp only; split <;> rfl
  · rfl

theorem trigger_sentOps (s : S) : (trigger s).sentOps = s.sentOps := by
  unfold trigger; split
  · rw [sendTick_sentOps]
  · rfl

theorem sendData_sentOps (s : S) (d : Bytes) (sync : Bool) (chop : Nat) : (sendData s d sync chop).sentOps = s.sentOps := by
  unfold sendData
  split
  · rw [trigger_sentOps]
  · split
    · rw [trigger_sentOps]
    · split <;> rfl

theorem sendTick_Ops (s : S) : OpsRel s (sendTick s) :=
  OpsRel.of_same (sendTick_SendEq s).st (sendTick_sentOps s) (sendTick_SendEq s).sendOpcode

/-- one frame: its opcode is recorded (or nothing, when the frame cannot be encoded) -/
theorem sendFrame_sentOps (s : S) (op : Nat) (pl : Bytes) (fin : Bool) (rsv : Nat) (sync : Bool) (chop : Nat) :
    (sendFrame s op pl fin rsv sync chop).sentOps = s.sentOps ∨
    (sendFrame s op pl fin rsv sync chop).sentOps = s.sentOps ++ [op] := by
  unfold sendFrame
  dsimp only
  have hk : (drawKey s).1.sentOps = s.sentOps := by unfold drawKey; split <;> rfl
  split
  · left; show (drawKey s).1.sentOps = _; exact hk
  · right
    rw [sendData_sentOps]
    show (drawKey s).1.sentOps ++ [op] = _
    rw [hk]

theorem sendFrame_st (s : S) (op : Nat) (pl : Bytes) (fin : Bool) (rsv : Nat) (sync : Bool) (chop : Nat) :
    (sendFrame s op pl fin rsv sync chop).st = s.st := (sendFrame_SendEq s op pl fin rsv sync chop).st

theorem sendPing_Ops (s : S) (pl : Bytes) : OpsRel s (sendPing s pl) := by
  unfold sendPing
  split
  · exact OpsRel.refl s
  · rename_i hst
    have ho : s.st = .opened := by simpa using hst
    split
    · exact emit_Ops _ _
    · refine ⟨by rw [sendFrame_st]; exact Nat.le_refl _, (sendFrame_SendEq s 9 pl true 0 false 0).sendOpcode, ?_⟩
      rcases sendFrame_sentOps s 9 pl true 0 false 0 with h | h
      · exact ⟨[], by simp [h], fun _ => rfl, by simp, by simp⟩
      · exact ⟨[9], h, fun hr => (by rw [ho] at hr; simp [St.rank] at hr), by simp, by simp⟩

theorem sendPong_Ops (s : S) (pl : Bytes) : OpsRel s (sendPong s pl) := by
  unfold sendPong
  split
  · exact OpsRel.refl s
  · rename_i hst
    have ho : s.st = .opened := by simpa using hst
    split
    · exact emit_Ops _ _
    · refine ⟨by rw [sendFrame_st]; exact Nat.le_refl _, (sendFrame_SendEq s 10 pl true 0 false 0).sendOpcode, ?_⟩
      rcases sendFrame_sentOps s 10 pl true 0 false 0 with h | h
      · exact ⟨[], by simp [h], fun _ => rfl, by simp, by simp⟩
      · exact ⟨[10], h, fun hr => (by rw [ho] at hr; simp [St.rank] at hr), by simp, by simp⟩

theorem sendCloseFrame_Ops (s : S) (c : Option Nat) (r : Option Bytes) (i : Bool) : OpsRel s (sendCloseFrame s c r i) := by
  unfold sendCloseFrame
  split
  · exact OpsRel.refl s
  · exact OpsRel.refl s
  · exact emit_Ops _ _
  · rename_i ho
    dsimp only
    have key : ∀ t : S, t.st = .closing → t.sentOps = (sendFrame s 8 (closePayload c r)).sentOps →
        t.sendOpcode = (sendFrame s 8 (closePayload c r)).sendOpcode → OpsRel s t := by
      intro t ht hto hso
      refine ⟨by rw [ho, ht]; simp [St.rank],
        by rw [hso]; exact (sendFrame_SendEq s 8 (closePayload c r) true 0 false 0).sendOpcode, ?_⟩
      rcases sendFrame_sentOps s 8 (closePayload c r) true 0 false 0 with h | h
      · exact ⟨[], by simp [hto, h], fun _ => rfl, by simp, by simp⟩
      · exact ⟨[8], by rw [hto, h], fun hr => (by rw [ho] at hr; simp [St.rank] at hr), by simp,
          fun _ => (by rw [ht]; simp [St.rank])⟩
    split
    · exact key _ rfl rfl rfl
    · exact key _ rfl rfl rfl

theorem sendClose_Ops (s : S) (c : Option Nat) (r : Option Bytes) : OpsRel s (sendClose s c r) := by
  unfold sendClose
  split
  · exact emit_Ops _ _
  · split
    · exact emit_Ops _ _
    · exact sendCloseFrame_Ops _ _ _ _

theorem dropConnection_Ops (s : S) (a : Bool) : OpsRel s (dropConnection s a) := by
  unfold dropConnection flushQueue
  split
  · refine OpsRel.of_rank ?_ ?_ ?_
    · show s.st.rank ≤ St.closed.rank
      cases s.st <;> simp [St.rank]
    · cases a <;> rfl
    · cases a <;> rfl
  · exact OpsRel.refl s

theorem failConnection_Ops (s : S) (code : Nat) : OpsRel s (failConnection s code) := by
  unfold failConnection
  split
  · dsimp only
    split
    · exact OpsRel.pre (dropConnection_Ops _ _) rfl rfl rfl
    · split
      · exact OpsRel.pre (sendCloseFrame_Ops _ _ _ _) rfl rfl rfl
      · exact OpsRel.pre (dropConnection_Ops _ _) rfl rfl rfl
  · exact OpsRel.refl s

theorem violation_Ops (s : S) (code : Nat) : OpsRel s (violation s code).1 := failConnection_Ops s code

theorem closeCodeStep_Ops (s : S) (c : Option Nat) : OpsRel s (closeCodeStep s c).1 := by
  unfold closeCodeStep
  split
  · split
    · have hv := violation_Ops s 1002
      generalize violation s 1002 = r at hv
      obtain ⟨s', stop⟩ := r
      dsimp only
      split
      · exact hv
      · exact hv.post rfl rfl rfl
    · exact OpsRel.of_same rfl rfl rfl
  · exact OpsRel.of_same rfl rfl rfl

theorem closeReasonStep_Ops (s : S) (r : Option Bytes) : OpsRel s (closeReasonStep s r).1 := by
  unfold closeReasonStep
  split
  · split
    · exact violation_Ops _ _
    · exact OpsRel.of_same rfl rfl rfl
  · exact OpsRel.refl s

theorem replyClose_Ops (s : S) : OpsRel s (replyClose s) := by
  unfold replyClose; split <;> exact sendCloseFrame_Ops _ _ _ _

theorem afterCloseHandshake_Ops (s : S) (a : Bool) : OpsRel s (afterCloseHandshake s a).1 := by
  unfold afterCloseHandshake
  split
  · exact dropConnection_Ops _ _
  · split
    · exact armServerDrop_Ops _
    · exact OpsRel.refl s

theorem closeStateStep_Ops (s : S) : OpsRel s (closeStateStep s).1 := by
  unfold closeStateStep
  split
  · exact OpsRel.pre (afterCloseHandshake_Ops _ _) rfl rfl rfl
  · exact OpsRel.pre ((replyClose_Ops _).trans (afterCloseHandshake_Ops _ _)) rfl rfl rfl
  · exact OpsRel.of_same rfl rfl rfl
  · exact emit_Ops _ _

theorem onCloseFrame_Ops (s : S) (c : Option Nat) (r : Option Bytes) : OpsRel s (onCloseFrame s c r).1 := by
  unfold onCloseFrame
  dsimp only
  have h0 : OpsRel s { s with remoteCloseCode := none, remoteCloseReason := none } := OpsRel.of_same rfl rfl rfl
  have h1 := closeCodeStep_Ops { s with remoteCloseCode := none, remoteCloseReason := none } c
  generalize closeCodeStep { s with remoteCloseCode := none, remoteCloseReason := none } c = r1 at h1
  split
  · exact h0.trans h1
  · have h2 := closeReasonStep_Ops r1.1 r
    generalize closeReasonStep r1.1 r = r2 at h2
    split
    · exact (h0.trans h1).trans h2
    · exact ((h0.trans h1).trans h2).trans (closeStateStep_Ops _)

theorem connectionLost_Ops (s : S) : OpsRel s (connectionLost s) := by
  unfold connectionLost
  split
  · exact OpsRel.refl s
  · refine OpsRel.of_rank ?_ ?_ ?_
    · unfold reportClose unsentUnclean markClosed cancelOnLost
      split <;> split <;> (try split) <;> (try split) <;> (simp [S.emit] <;> cases s.st <;> simp_all [St.rank])
    · unfold reportClose unsentUnclean markClosed cancelOnLost
      split <;> split <;> (try split) <;> (try split) <;> rfl
    · unfold reportClose unsentUnclean markClosed cancelOnLost
      split <;> split <;> (try split) <;> (try split) <;> rfl

theorem sendAutoPing_Ops (s : S) : OpsRel s (sendAutoPing s) := by
  unfold sendAutoPing
  dsimp only
  have h : OpsRel s (sendPing (beginAutoPing s) ((beginAutoPing s).pingPending.getD [])) :=
    OpsRel.pre (sendPing_Ops _ _) rfl rfl rfl
  split
  · exact h.trans (armPingTimeout_Ops _)
  · split
    · exact h.trans (armPingNext_Ops _)
    · exact h

theorem cancelAutoPingTimeout_Ops (s : S) : OpsRel s (cancelAutoPingTimeout s) := by
  unfold cancelAutoPingTimeout
  dsimp only
  split
  · exact OpsRel.pre (armPingNext_Ops _) rfl rfl rfl
  · exact OpsRel.of_same rfl rfl rfl

theorem onMessageFrameBegin_Ops (s : S) (n : Nat) : OpsRel s (onMessageFrameBegin s n) := by
  unfold onMessageFrameBegin
  dsimp only
  split
  · split
    · exact OpsRel.pre (failConnection_Ops _ _) rfl rfl rfl
    · split
      · exact OpsRel.pre (failConnection_Ops _ _) rfl rfl rfl
      · exact OpsRel.of_same rfl rfl rfl
  · exact OpsRel.of_same rfl rfl rfl

theorem onFrameBegin_Ops (s : S) (h : Hdr) : OpsRel s (onFrameBegin s h) := by
  unfold onFrameBegin
  split
  · exact OpsRel.of_same rfl rfl rfl
  · dsimp only
    split
    · split
      · exact OpsRel.pre (onMessageFrameBegin_Ops _ _) rfl rfl rfl
      · exact OpsRel.pre (onMessageFrameBegin_Ops _ _) rfl rfl rfl
    · exact onMessageFrameBegin_Ops _ _

theorem utf8Step_Ops (s : S) (p : Bytes) : OpsRel s (utf8Step s p).1 := by
  unfold utf8Step
  split
  · split
    · exact OpsRel.pre (violation_Ops _ _) rfl rfl rfl
    · exact OpsRel.of_same rfl rfl rfl
  · exact OpsRel.refl s

theorem onFrameData_Ops (s : S) (h : Hdr) (p : Bytes) : OpsRel s (onFrameData s h p).1 := by
  unfold onFrameData
  split
  · exact OpsRel.of_same rfl rfl rfl
  · dsimp only
    have h0 := utf8Step_Ops s p
    generalize utf8Step s p = r at h0
    split
    · exact h0
    · unfold onMessageFrameData
      split
      · exact h0.post rfl rfl rfl
      · exact h0

theorem onPongFrame_Ops (s : S) (p : Bytes) : OpsRel s (onPongFrame s p) := by
  unfold onPongFrame
  split
  · split
    · dsimp only
      split
      · exact OpsRel.pre (armPingNext_Ops _) rfl rfl rfl
      · exact OpsRel.of_same rfl rfl rfl
    · exact OpsRel.refl s
  · exact OpsRel.refl s

theorem onPingFrame_Ops (s : S) (p : Bytes) : OpsRel s (onPingFrame s p) := by
  unfold onPingFrame
  dsimp only
  split
  · exact OpsRel.pre (sendPong_Ops _ _) rfl rfl rfl
  · exact emit_Ops _ _

theorem processControlFrame_Ops (s : S) (h : Hdr) : OpsRel s (processControlFrame s h) := by
  unfold processControlFrame
  dsimp only
  split
  · exact OpsRel.pre (onCloseFrame_Ops _ _ _) rfl rfl rfl
  · split
    · exact OpsRel.pre (onPingFrame_Ops _ _) rfl rfl rfl
    · split
      · exact OpsRel.pre ((onPongFrame_Ops _ _).trans (emit_Ops _ _)) rfl rfl rfl
      · exact OpsRel.of_same rfl rfl rfl

theorem endDataFrame_Ops (s : S) : OpsRel s (endDataFrame s) := by
  unfold endDataFrame
  dsimp only
  split <;> split <;> first | exact OpsRel.of_same rfl rfl rfl | exact OpsRel.pre (cancelAutoPingTimeout_Ops _) rfl rfl rfl

theorem endMessageStep_Ops (s : S) : OpsRel s (endMessageStep s).1 := by
  unfold endMessageStep
  dsimp only
  have h0 : OpsRel s (if (s.utf8On && !s.msgCompressed && !s.utf8Ends) = true
      then ((violation s 1007).1, !(violation s 1007).2) else (s, true)).1 := by
    split
    · exact violation_Ops _ _
    · exact OpsRel.refl s
  generalize (if (s.utf8On && !s.msgCompressed && !s.utf8Ends) = true
      then ((violation s 1007).1, !(violation s 1007).2) else (s, true)) = r at h0
  split
  · exact h0
  · unfold resetMessage deliverMessage
    split
    · exact h0.post rfl rfl rfl
    · exact h0.post rfl rfl rfl

theorem onFrameEnd_Ops (s : S) (h : Hdr) : OpsRel s (onFrameEnd s h).1 := by
  unfold onFrameEnd
  split
  · exact (processControlFrame_Ops s h).post rfl rfl rfl
  · dsimp only
    split
    · exact (endDataFrame_Ops s).trans (endMessageStep_Ops _)
    · exact (endDataFrame_Ops s).post rfl rfl rfl

theorem applyViolations_Ops (s : S) (vs : List HV) : OpsRel s (applyViolations s vs).1 := by
  induction vs generalizing s with
  | nil => exact OpsRel.refl s
  | cons v vs ih =>
    unfold applyViolations
    have hv := violation_Ops s 1002
    generalize violation s 1002 = r at hv
    obtain ⟨s', stop⟩ := r
    dsimp only
    split
    · exact hv
    · exact hv.trans (ih _)

theorem extLenStep_Ops (s : S) (a b : Nat) : OpsRel s (extLenStep s a b).1 := by
  unfold extLenStep
  split
  · split
    · exact violation_Ops _ _
    · exact OpsRel.refl s
  · split
    · dsimp only
      have h0 : OpsRel s (if b > 0x7FFFFFFFFFFFFFFF then violation s 1002 else (s, false)).1 := by
        split
        · exact violation_Ops _ _
        · exact OpsRel.refl s
      generalize (if b > 0x7FFFFFFFFFFFFFFF then violation s 1002 else (s, false)) = r at h0
      split
      · exact h0
      · split
        · exact h0.trans (violation_Ops _ _)
        · exact h0
    · exact OpsRel.refl s

theorem processHeader_Ops (s : S) (o0 o1 : UInt8) (buf : Bytes) : OpsRel s (processHeader s o0 o1 buf).1 := by
  unfold processHeader
  dsimp only
  have h0 := applyViolations_Ops s (headerViolations s.cfg s.insideMessage (o0.toNat / 128 = 1) (o0.toNat / 16 % 8)
    (o0.toNat % 16) (o1.toNat / 128 = 1) (o1.toNat % 128))
  generalize applyViolations s (headerViolations s.cfg s.insideMessage (o0.toNat / 128 = 1) (o0.toNat / 16 % 8)
    (o0.toNat % 16) (o1.toNat / 128 = 1) (o1.toNat % 128)) = r0 at h0
  split
  · exact h0
  · split
    · have h1 := extLenStep_Ops r0.1 (o1.toNat % 128)
        (if o1.toNat % 128 < 126 then o1.toNat % 128 else
          beNat ((buf.drop 2).take (if o1.toNat % 128 = 126 then 2 else if o1.toNat % 128 = 127 then 8 else 0)))
      generalize extLenStep r0.1 (o1.toNat % 128)
        (if o1.toNat % 128 < 126 then o1.toNat % 128 else
          beNat ((buf.drop 2).take (if o1.toNat % 128 = 126 then 2 else if o1.toNat % 128 = 127 then 8 else 0))) = r1 at h1
      split
      · exact h0.trans h1
      · exact (h0.trans h1).trans (OpsRel.pre (onFrameBegin_Ops _ _) rfl rfl rfl)
    · exact h0

theorem processPayload_Ops (s : S) (h : Hdr) (buf : Bytes) : OpsRel s (processPayload s h buf).1 := by
  unfold processPayload
  dsimp only
  have h1 : OpsRel s (onFrameData { s with ptr := s.ptr + (buf.take (h.length - s.ptr)).length }
      h (unmaskChunk s h (buf.take (h.length - s.ptr)))).1 := OpsRel.pre (onFrameData_Ops _ _ _) rfl rfl rfl
  generalize onFrameData { s with ptr := s.ptr + (buf.take (h.length - s.ptr)).length }
    h (unmaskChunk s h (buf.take (h.length - s.ptr))) = r at h1
  split
  · exact h1
  · have h2 : OpsRel r.1 (if r.1.ptr = h.length then onFrameEnd r.1 h else (r.1, true)).1 := by
      split
      · exact onFrameEnd_Ops _ _
      · exact OpsRel.refl _
    generalize (if r.1.ptr = h.length then onFrameEnd r.1 h else (r.1, true)) = r2 at h2
    split
    · exact h1.trans h2
    · exact h1.trans h2

theorem processData_Ops (s : S) (buf : Bytes) : OpsRel s (processData s buf).1 := by
  unfold processData
  split
  · split
    · exact processHeader_Ops _ _ _ _
    · exact OpsRel.refl s
  · exact processPayload_Ops _ _ _

theorem drain_Ops (fuel : Nat) (s : S) (buf : Bytes) : OpsRel s (drain fuel s buf).1 := by
  induction fuel generalizing s buf with
  | zero => exact OpsRel.refl s
  | succ n ih =>
    unfold drain
    split
    · exact OpsRel.refl s
    · have h := processData_Ops s buf
      generalize processData s buf = r at h
      dsimp only
      split
      · exact h.trans (ih _ _)
      · exact h

theorem dataReceived_Ops (s : S) (d : Bytes) : OpsRel s (dataReceived s d) := by
  unfold dataReceived
  split
  · exact OpsRel.refl s
  · have hd := drain_Ops (drainFuel (s.data ++ d)) { s with data := [] } (s.data ++ d)
    split
    · exact (OpsRel.pre hd rfl rfl rfl).post rfl rfl rfl
    · exact (OpsRel.pre hd rfl rfl rfl).post rfl rfl rfl
    · exact OpsRel.of_same rfl rfl rfl

theorem handshakeDone_Ops (s : S) : OpsRel s (handshakeDone s) := by
  unfold handshakeDone
  split
  · exact OpsRel.refl s
  · rename_i hc
    have hc' : s.st = .connecting := by simpa using hc
    dsimp only
    refine OpsRel.of_rank ?_ ?_ ?_
    · split <;> simp [hc', St.rank, armPingNext, S.timer]
    · split <;> rfl
    · split <;> rfl

theorem fire_Ops (s : S) (k : TK) : OpsRel s (fire s k) := by
  cases k <;> simp only [fire]
  · split
    · exact OpsRel.pre (dropConnection_Ops _ _) rfl rfl rfl
    · exact OpsRel.of_same rfl rfl rfl
  · split
    · exact OpsRel.pre (dropConnection_Ops _ _) rfl rfl rfl
    · exact OpsRel.of_same rfl rfl rfl
  · split
    · exact OpsRel.pre (dropConnection_Ops _ _) rfl rfl rfl
    · exact OpsRel.of_same rfl rfl rfl
  · split
    · exact OpsRel.pre (dropConnection_Ops _ _) rfl rfl rfl
    · exact OpsRel.of_same rfl rfl rfl
  · exact sendAutoPing_Ops s
  · exact OpsRel.pre (sendTick_Ops _) rfl rfl rfl

theorem advanceTo_Ops (target : Nat) : ∀ (fuel : Nat) (s : S), OpsRel s (advanceTo target fuel s) := by
  intro fuel
  induction fuel with
  | zero => intro s; exact OpsRel.refl s
  | succ n ih =>
    intro s
    unfold advanceTo
    split
    · split
      · exact OpsRel.pre ((fire_Ops _ _).trans (ih _)) rfl rfl rfl
      · exact OpsRel.of_same rfl rfl rfl
    · exact OpsRel.of_same rfl rfl rfl

theorem pump_Ops (s : S) : OpsRel s (pump s) := advanceTo_Ops _ _ _
theorem advance_Ops (s : S) (dt : Nat) : OpsRel s (advance s dt) := advanceTo_Ops _ _ _

end Abverif.Ws
