import Abverif.Proofs.Lemmas.WsOps
import Abverif.Proofs.WsRoundtrip
import Abverif.Proofs.C01
/-
The two history variables of the close theorems agree: `closeSent` (what `one_close_frame`, `clean_close_needs_both`
speak about) has exactly one entry per close frame recorded in `sentOps` (what `no_data_frame_after_close` speaks about,
compared with the real wire in every C05 run).  `G s : s.closeSent.length = s.sentOps.count 8`; `GP a b := G a → G b`
for every engine function, in the order of `WsOps.lean`.
-/
namespace Abverif.Ws

def G (s : S) : Prop := s.closeSent.length = s.sentOps.count 8

def GP (a b : S) : Prop := G a → G b

theorem GP.refl (a : S) : GP a a := id
theorem GP.trans {a b c : S} (h1 : GP a b) (h2 : GP b c) : GP a c := fun h => h2 (h1 h)

theorem GP.of_same {a b : S} (h1 : b.st = a.st) (h2 : b.sentOps = a.sentOps) (h3 : b.closeSent = a.closeSent) : GP a b := by
  intro g; unfold G at *; rw [h2, h3]; exact g

theorem GP.of_rank {a b : S} (h1 : a.st.rank ≤ b.st.rank) (h2 : b.sentOps = a.sentOps) (h3 : b.closeSent = a.closeSent) :
    GP a b := by
  intro g; unfold G at *; rw [h2, h3]; exact g

theorem GP.pre {a a' b : S} (h : GP a' b) (h1 : a'.st = a.st) (h2 : a'.sentOps = a.sentOps)
    (h3 : a'.closeSent = a.closeSent) : GP a b := (GP.of_same h1 h2 h3).trans h

theorem GP.post {a b b' : S} (h : GP a b) (h1 : b'.st = b.st) (h2 : b'.sentOps = b.sentOps)
    (h3 : b'.closeSent = b.closeSent) : GP a b' := h.trans (GP.of_same h1 h2 h3)

theorem emit_GP (s : S) (o : Out) : GP s (s.emit o) := GP.of_same rfl rfl rfl
theorem timer_GP (s : S) (d : Nat) : GP s (s.timer d).1 := GP.of_same rfl rfl rfl
theorem armCloseHs_GP (s : S) : GP s (armCloseHs s) := GP.of_same rfl rfl rfl
theorem armServerDrop_GP (s : S) : GP s (armServerDrop s) := GP.of_same rfl rfl rfl
theorem armPingNext_GP (s : S) : GP s (armPingNext s) := GP.of_same rfl rfl rfl
theorem armPingTimeout_GP (s : S) : GP s (armPingTimeout s) := GP.of_same rfl rfl rfl
theorem sendTick_GP (s : S) : GP s (sendTick s) :=
  GP.of_same (sendTick_SendEq s).st (sendTick_sentOps s) (sendTick_SendEq s).closeSent

/-- a frame other than a close frame leaves the count alone -/
theorem sendFrame_GP (s : S) (op : Nat) (pl : Bytes) (fin : Bool) (rsv : Nat) (sync : Bool) (chop : Nat) (hop : op ≠ 8) :
    GP s (sendFrame s op pl fin rsv sync chop) := by
  intro g
  unfold G at *
  rw [(sendFrame_SendEq s op pl fin rsv sync chop).closeSent]
  rcases sendFrame_sentOps s op pl fin rsv sync chop with h | h
  · rw [h]; exact g
  · rw [h, List.count_append, g]
    have : [op].count 8 = 0 := by simp [List.count_cons, hop]
    omega

theorem sendPing_GP (s : S) (pl : Bytes) : GP s (sendPing s pl) := by
  unfold sendPing
  split
  · exact GP.refl s
  · split
    · exact emit_GP _ _
    · exact sendFrame_GP _ _ _ _ _ _ _ (by decide)

theorem sendPong_GP (s : S) (pl : Bytes) : GP s (sendPong s pl) := by
  unfold sendPong
  split
  · exact GP.refl s
  · split
    · exact emit_GP _ _
    · exact sendFrame_GP _ _ _ _ _ _ _ (by decide)

/-- a close frame whose reason is at most 123 octets long is always encodable: it is recorded in both variables -/
theorem sendCloseFrame_GP (s : S) (c : Option Nat) (r : Option Bytes) (i : Bool)
    (hr : ∀ x, r = some x → x.length ≤ 123) : GP s (sendCloseFrame s c r i) := by
  intro g
  unfold sendCloseFrame
  split
  · exact g
  · exact g
  · exact emit_GP _ _ g
  · dsimp only
    have hlen : (closePayload c r).length < 2 ^ 63 := by
      have h2 : (r.getD []).length ≤ 123 := by
        cases r with
        | none => simp
        | some x => simpa using hr x rfl
      unfold closePayload
      cases c with
      | none => simp only [List.nil_append]; omega
      | some cc => simp only [List.length_append, beBytes_length]; omega
    have hso : (sendFrame s 8 (closePayload c r)).sentOps = s.sentOps ++ [8] := by
      unfold sendFrame
      dsimp only
      obtain ⟨raw, hraw⟩ := encodeFrame_some true 0 8 (drawKey s).2 (drawKey s).1.cfg.applyMask (closePayload c r) hlen
      rw [hraw]
      dsimp only
      rw [sendData_sentOps]
      show (drawKey s).1.sentOps ++ [8] = _
      have hk : (drawKey s).1.sentOps = s.sentOps := by unfold drawKey; split <;> rfl
      rw [hk]
    have hcs : (sendFrame s 8 (closePayload c r)).closeSent = s.closeSent :=
      (sendFrame_SendEq s 8 (closePayload c r) true 0 false 0).closeSent
    have key : ∀ t : S, t.sentOps = (sendFrame s 8 (closePayload c r)).sentOps →
        t.closeSent = (sendFrame s 8 (closePayload c r)).closeSent ++ [(c, r)] → G t := by
      intro t h1 h2
      unfold G at *
      rw [h1, h2, hso, hcs, List.length_append, List.count_append, g]
      simp
    split
    · exact key _ rfl rfl
    · exact key _ rfl rfl

theorem sendClose_GP (s : S) (c : Option Nat) (r : Option Bytes) : GP s (sendClose s c r) := by
  unfold sendClose
  split
  · exact emit_GP _ _
  · split
    · exact emit_GP _ _
    · exact sendCloseFrame_GP _ _ _ _ (by
        intro x hx
        cases r with
        | none => simp at hx
        | some u => simp at hx; subst hx; exact encodeTruncate_le _ _)

theorem dropConnection_GP (s : S) (a : Bool) : GP s (dropConnection s a) := by
  unfold dropConnection flushQueue
  split
  · refine GP.of_rank ?_ ?_ ?_
    · show s.st.rank ≤ St.closed.rank
      cases s.st <;> simp [St.rank]
    · cases a <;> rfl
    · cases a <;> rfl
  · exact GP.refl s

theorem failConnection_GP (s : S) (code : Nat) : GP s (failConnection s code) := by
  unfold failConnection
  split
  · dsimp only
    split
    · exact GP.pre (dropConnection_GP _ _) rfl rfl rfl
    · split
      · exact GP.pre (sendCloseFrame_GP _ _ _ _ (by intro x hx; cases hx)) rfl rfl rfl
      · exact GP.pre (dropConnection_GP _ _) rfl rfl rfl
  · exact GP.refl s

theorem violation_GP (s : S) (code : Nat) : GP s (violation s code).1 := failConnection_GP s code

theorem closeCodeStep_GP (s : S) (c : Option Nat) : GP s (closeCodeStep s c).1 := by
  unfold closeCodeStep
  split
  · split
    · have hv := violation_GP s 1002
      generalize violation s 1002 = r at hv
      obtain ⟨s', stop⟩ := r
      dsimp only
      split
      · exact hv
      · exact hv.post rfl rfl rfl
    · exact GP.of_same rfl rfl rfl
  · exact GP.of_same rfl rfl rfl

theorem closeReasonStep_GP (s : S) (r : Option Bytes) : GP s (closeReasonStep s r).1 := by
  unfold closeReasonStep
  split
  · split
    · exact violation_GP _ _
    · exact GP.of_same rfl rfl rfl
  · exact GP.refl s

theorem replyClose_GP (s : S) : GP s (replyClose s) := by
  unfold replyClose; split
  · exact sendCloseFrame_GP _ _ _ _ (by
      intro x hx
      cases hr : s.remoteCloseReason with
      | none => rw [hr] at hx; simp at hx
      | some u => rw [hr] at hx; simp at hx; subst hx; exact encodeTruncate_le _ _)
  · exact sendCloseFrame_GP _ _ _ _ (by intro x hx; cases hx)

theorem afterCloseHandshake_GP (s : S) (a : Bool) : GP s (afterCloseHandshake s a).1 := by
  unfold afterCloseHandshake
  split
  · exact dropConnection_GP _ _
  · split
    · exact armServerDrop_GP _
    · exact GP.refl s

theorem closeStateStep_GP (s : S) : GP s (closeStateStep s).1 := by
  unfold closeStateStep
  split
  · exact GP.pre (afterCloseHandshake_GP _ _) rfl rfl rfl
  · exact GP.pre ((replyClose_GP _).trans (afterCloseHandshake_GP _ _)) rfl rfl rfl
  · exact GP.of_same rfl rfl rfl
  · exact emit_GP _ _

theorem onCloseFrame_GP (s : S) (c : Option Nat) (r : Option Bytes) : GP s (onCloseFrame s c r).1 := by
  unfold onCloseFrame
  dsimp only
  have h0 : GP s { s with remoteCloseCode := none, remoteCloseReason := none } := GP.of_same rfl rfl rfl
  have h1 := closeCodeStep_GP { s with remoteCloseCode := none, remoteCloseReason := none } c
  generalize closeCodeStep { s with remoteCloseCode := none, remoteCloseReason := none } c = r1 at h1
  split
  · exact h0.trans h1
  · have h2 := closeReasonStep_GP r1.1 r
    generalize closeReasonStep r1.1 r = r2 at h2
    split
    · exact (h0.trans h1).trans h2
    · exact ((h0.trans h1).trans h2).trans (closeStateStep_GP _)

theorem connectionLost_GP (s : S) : GP s (connectionLost s) := by
  unfold connectionLost
  split
  · exact GP.refl s
  · refine GP.of_rank ?_ ?_ ?_
    · unfold reportClose unsentUnclean markClosed cancelOnLost
      split <;> split <;> (try split) <;> (try split) <;> (simp [S.emit] <;> cases s.st <;> simp_all [St.rank])
    · unfold reportClose unsentUnclean markClosed cancelOnLost
      split <;> split <;> (try split) <;> (try split) <;> rfl
    · unfold reportClose unsentUnclean markClosed cancelOnLost
      split <;> split <;> (try split) <;> (try split) <;> rfl

theorem sendAutoPing_GP (s : S) : GP s (sendAutoPing s) := by
  unfold sendAutoPing
  dsimp only
  have h : GP s (sendPing (beginAutoPing s) ((beginAutoPing s).pingPending.getD [])) :=
    GP.pre (sendPing_GP _ _) rfl rfl rfl
  split
  · exact h.trans (armPingTimeout_GP _)
  · split
    · exact h.trans (armPingNext_GP _)
    · exact h

theorem cancelAutoPingTimeout_GP (s : S) : GP s (cancelAutoPingTimeout s) := by
  unfold cancelAutoPingTimeout
  dsimp only
  split
  · exact GP.pre (armPingNext_GP _) rfl rfl rfl
  · exact GP.of_same rfl rfl rfl

theorem onMessageFrameBegin_GP (s : S) (n : Nat) : GP s (onMessageFrameBegin s n) := by
  unfold onMessageFrameBegin
  dsimp only
  split
  · split
    · exact GP.pre (failConnection_GP _ _) rfl rfl rfl
    · split
      · exact GP.pre (failConnection_GP _ _) rfl rfl rfl
      · exact GP.of_same rfl rfl rfl
  · exact GP.of_same rfl rfl rfl

theorem onFrameBegin_GP (s : S) (h : Hdr) : GP s (onFrameBegin s h) := by
  unfold onFrameBegin
  split
  · exact GP.of_same rfl rfl rfl
  · dsimp only
    split
    · split
      · exact GP.pre (onMessageFrameBegin_GP _ _) rfl rfl rfl
      · exact GP.pre (onMessageFrameBegin_GP _ _) rfl rfl rfl
    · exact onMessageFrameBegin_GP _ _

theorem utf8Step_GP (s : S) (p : Bytes) : GP s (utf8Step s p).1 := by
  unfold utf8Step
  split
  · split
    · exact GP.pre (violation_GP _ _) rfl rfl rfl
    · exact GP.of_same rfl rfl rfl
  · exact GP.refl s

theorem onFrameData_GP (s : S) (h : Hdr) (p : Bytes) : GP s (onFrameData s h p).1 := by
  unfold onFrameData
  split
  · exact GP.of_same rfl rfl rfl
  · dsimp only
    have h0 := utf8Step_GP s p
    generalize utf8Step s p = r at h0
    split
    · exact h0
    · unfold onMessageFrameData
      split
      · exact h0.post rfl rfl rfl
      · exact h0

theorem onPongFrame_GP (s : S) (p : Bytes) : GP s (onPongFrame s p) := by
  unfold onPongFrame
  split
  · split
    · dsimp only
      split
      · exact GP.pre (armPingNext_GP _) rfl rfl rfl
      · exact GP.of_same rfl rfl rfl
    · exact GP.refl s
  · exact GP.refl s

theorem onPingFrame_GP (s : S) (p : Bytes) : GP s (onPingFrame s p) := by
  unfold onPingFrame
  dsimp only
  split
  · exact GP.pre (sendPong_GP _ _) rfl rfl rfl
  · exact emit_GP _ _

theorem processControlFrame_GP (s : S) (h : Hdr) : GP s (processControlFrame s h) := by
  unfold processControlFrame
  dsimp only
  split
  · exact GP.pre (onCloseFrame_GP _ _ _) rfl rfl rfl
  · split
    · exact GP.pre (onPingFrame_GP _ _) rfl rfl rfl
    · split
      · exact GP.pre ((onPongFrame_GP _ _).trans (emit_GP _ _)) rfl rfl rfl
      · exact GP.of_same rfl rfl rfl

theorem endDataFrame_GP (s : S) : GP s (endDataFrame s) := by
  unfold endDataFrame
  dsimp only
  split <;> split <;> first | exact GP.of_same rfl rfl rfl | exact GP.pre (cancelAutoPingTimeout_GP _) rfl rfl rfl

theorem endMessageStep_GP (s : S) : GP s (endMessageStep s).1 := by
  unfold endMessageStep
  dsimp only
  have h0 : GP s (if (s.utf8On && !s.msgCompressed && !s.utf8Ends) = true
      then ((violation s 1007).1, !(violation s 1007).2) else (s, true)).1 := by
    split
    · exact violation_GP _ _
    · exact GP.refl s
  generalize (if (s.utf8On && !s.msgCompressed && !s.utf8Ends) = true
      then ((violation s 1007).1, !(violation s 1007).2) else (s, true)) = r at h0
  split
  · exact h0
  · unfold resetMessage deliverMessage
    split
    · exact h0.post rfl rfl rfl
    · exact h0.post rfl rfl rfl

theorem onFrameEnd_GP (s : S) (h : Hdr) : GP s (onFrameEnd s h).1 := by
  unfold onFrameEnd
  split
  · exact (processControlFrame_GP s h).post rfl rfl rfl
  · dsimp only
    split
    · exact (endDataFrame_GP s).trans (endMessageStep_GP _)
    · exact (endDataFrame_GP s).post rfl rfl rfl

theorem applyViolations_GP (s : S) (vs : List HV) : GP s (applyViolations s vs).1 := by
  induction vs generalizing s with
  | nil => exact GP.refl s
  | cons v vs ih =>
    unfold applyViolations
    have hv := violation_GP s 1002
    generalize violation s 1002 = r at hv
    obtain ⟨s', stop⟩ := r
    dsimp only
    split
    · exact hv
    · exact hv.trans (ih _)

theorem extLenStep_GP (s : S) (a b : Nat) : GP s (extLenStep s a b).1 := by
  unfold extLenStep
  split
  · split
    · exact violation_GP _ _
    · exact GP.refl s
  · split
    · dsimp only
      have h0 : GP s (if b > 0x7FFFFFFFFFFFFFFF then violation s 1002 else (s, false)).1 := by
        split
        · exact violation_GP _ _
        · exact GP.refl s
      generalize (if b > 0x7FFFFFFFFFFFFFFF then violation s 1002 else (s, false)) = r at h0
      split
      · exact h0
      · split
        · exact h0.trans (violation_GP _ _)
        · exact h0
    · exact GP.refl s

theorem processHeader_GP (s : S) (o0 o1 : UInt8) (buf : Bytes) : GP s (processHeader s o0 o1 buf).1 := by
  unfold processHeader
  dsimp only
  have h0 := applyViolations_GP s (headerViolations s.cfg s.insideMessage (o0.toNat / 128 = 1) (o0.toNat / 16 % 8)
    (o0.toNat % 16) (o1.toNat / 128 = 1) (o1.toNat % 128))
  generalize applyViolations s (headerViolations s.cfg s.insideMessage (o0.toNat / 128 = 1) (o0.toNat / 16 % 8)
    (o0.toNat % 16) (o1.toNat / 128 = 1) (o1.toNat % 128)) = r0 at h0
  split
  · exact h0
  · split
    · have h1 := extLenStep_GP r0.1 (o1.toNat % 128)
        (if o1.toNat % 128 < 126 then o1.toNat % 128 else
          beNat ((buf.drop 2).take (if o1.toNat % 128 = 126 then 2 else if o1.toNat % 128 = 127 then 8 else 0)))
      generalize extLenStep r0.1 (o1.toNat % 128)
        (if o1.toNat % 128 < 126 then o1.toNat % 128 else
          beNat ((buf.drop 2).take (if o1.toNat % 128 = 126 then 2 else if o1.toNat % 128 = 127 then 8 else 0))) = r1 at h1
      split
      · exact h0.trans h1
      · exact (h0.trans h1).trans (GP.pre (onFrameBegin_GP _ _) rfl rfl rfl)
    · exact h0

theorem processPayload_GP (s : S) (h : Hdr) (buf : Bytes) : GP s (processPayload s h buf).1 := by
  unfold processPayload
  dsimp only
  have h1 : GP s (onFrameData { s with ptr := s.ptr + (buf.take (h.length - s.ptr)).length }
      h (unmaskChunk s h (buf.take (h.length - s.ptr)))).1 := GP.pre (onFrameData_GP _ _ _) rfl rfl rfl
  generalize onFrameData { s with ptr := s.ptr + (buf.take (h.length - s.ptr)).length }
    h (unmaskChunk s h (buf.take (h.length - s.ptr))) = r at h1
  split
  · exact h1
  · have h2 : GP r.1 (if r.1.ptr = h.length then onFrameEnd r.1 h else (r.1, true)).1 := by
      split
      · exact onFrameEnd_GP _ _
      · exact GP.refl _
    generalize (if r.1.ptr = h.length then onFrameEnd r.1 h else (r.1, true)) = r2 at h2
    split
    · exact h1.trans h2
    · exact h1.trans h2

theorem processData_GP (s : S) (buf : Bytes) : GP s (processData s buf).1 := by
  unfold processData
  split
  · split
    · exact processHeader_GP _ _ _ _
    · exact GP.refl s
  · exact processPayload_GP _ _ _

theorem drain_GP (fuel : Nat) (s : S) (buf : Bytes) : GP s (drain fuel s buf).1 := by
  induction fuel generalizing s buf with
  | zero => exact GP.refl s
  | succ n ih =>
    unfold drain
    split
    · exact GP.refl s
    · have h := processData_GP s buf
      generalize processData s buf = r at h
      dsimp only
      split
      · exact h.trans (ih _ _)
      · exact h

theorem dataReceived_GP (s : S) (d : Bytes) : GP s (dataReceived s d) := by
  unfold dataReceived
  split
  · exact GP.refl s
  · have hd := drain_GP (drainFuel (s.data ++ d)) { s with data := [] } (s.data ++ d)
    split
    · exact (GP.pre hd rfl rfl rfl).post rfl rfl rfl
    · exact (GP.pre hd rfl rfl rfl).post rfl rfl rfl
    · exact GP.of_same rfl rfl rfl

theorem handshakeDone_GP (s : S) : GP s (handshakeDone s) := by
  unfold handshakeDone
  split
  · exact GP.refl s
  · rename_i hc
    have hc' : s.st = .connecting := by simpa using hc
    dsimp only
    refine GP.of_rank ?_ ?_ ?_
    · split <;> simp [hc', St.rank, armPingNext, S.timer]
    · split <;> rfl
    · split <;> rfl

theorem fire_GP (s : S) (k : TK) : GP s (fire s k) := by
  cases k <;> simp only [fire]
  · split
    · exact GP.pre (dropConnection_GP _ _) rfl rfl rfl
    · exact GP.of_same rfl rfl rfl
  · split
    · exact GP.pre (dropConnection_GP _ _) rfl rfl rfl
    · exact GP.of_same rfl rfl rfl
  · split
    · exact GP.pre (dropConnection_GP _ _) rfl rfl rfl
    · exact GP.of_same rfl rfl rfl
  · split
    · exact GP.pre (dropConnection_GP _ _) rfl rfl rfl
    · exact GP.of_same rfl rfl rfl
  · exact sendAutoPing_GP s
  · exact GP.pre (sendTick_GP _) rfl rfl rfl

theorem advanceTo_GP (target : Nat) : ∀ (fuel : Nat) (s : S), GP s (advanceTo target fuel s) := by
  intro fuel
  induction fuel with
  | zero => intro s; exact GP.refl s
  | succ n ih =>
    intro s
    unfold advanceTo
    split
    · split
      · exact GP.pre ((fire_GP _ _).trans (ih _)) rfl rfl rfl
      · exact GP.of_same rfl rfl rfl
    · exact GP.of_same rfl rfl rfl

theorem pump_GP (s : S) : GP s (pump s) := advanceTo_GP _ _ _
theorem advance_GP (s : S) (dt : Nat) : GP s (advance s dt) := advanceTo_GP _ _ _

end Abverif.Ws
