import Abverif.Proofs.Lemmas.C13TableDefs
/- C13: complete table of the 2^16 values of handshake octets 1–2 (reserved octets zero) for `aioServerHs genIds 15`. -/
namespace Abverif.RawSocket.Table

def chkAioS (n : Nat) : Bool := ((aioServerHs genIds 15 (o1 n) (o2 n) 0 0).accepted == specB genIds n)

theorem tableAioS : allRange chkAioS 0 16 = true := by decide +kernel

end Abverif.RawSocket.Table
