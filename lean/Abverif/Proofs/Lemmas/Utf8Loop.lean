import Abverif.Proofs.Lemmas.Utf8Dfa
/-
C09 helper lemmas, part 2: the `validate` loop, call sequences.
Generic in the step function; `Abs step rej` = the reject state is absorbing.
-/
namespace Abverif.Utf8

/-- what the loop computes, in terms of plain runs over prefixes -/
theorem loop_cases (step : Nat → Nat → Nat) (rej s i : Nat) (b : Bytes) (hs : s ≠ rej) :
    (run step s b ≠ rej ∧ loop step rej s i b = (run step s b, i + b.length, false)) ∨
    (∃ k, k < b.length ∧ run step s (b.take k) ≠ rej ∧ run step s (b.take (k + 1)) = rej ∧
      loop step rej s i b = (rej, i + k, true)) := by
  induction b generalizing s i with
  | nil => exact Or.inl ⟨hs, rfl⟩
  | cons a r ih =>
    by_cases h : step s a.toNat = rej
    · refine Or.inr ⟨0, by simp, by simpa [run] using hs, by simpa [run] using h, ?_⟩
      simp [loop, h]
    · rcases ih (step s a.toNat) (i + 1) h with ⟨h1, h2⟩ | ⟨k, hk, h1, h2, h3⟩
      · refine Or.inl ⟨by simpa [run] using h1, ?_⟩
        simp only [loop, h, ↓reduceIte, h2, run, List.length_cons]
        simp only [Prod.mk.injEq, and_true, true_and]; omega
      · refine Or.inr ⟨k + 1, by simpa using hk, by simpa [run] using h1, by simpa [run] using h2, ?_⟩
        simp only [loop, h, ↓reduceIte, h3]
        simp only [Prod.mk.injEq, and_true, true_and]; omega

/-- entered in the (absorbing) reject state: an empty chunk falls through, any byte is rejected at index 0 -/
theorem loop_rejected (step : Nat → Nat → Nat) (rej i : Nat) (habs : ∀ o, step rej o = rej) (b : Bytes) :
    loop step rej rej i b = (rej, i, !b.isEmpty) := by
  cases b with
  | nil => rfl
  | cons a r => simp [loop, habs]

theorem run_absorb (step : Nat → Nat → Nat) (rej : Nat) (habs : ∀ o, step rej o = rej) (b : Bytes) :
    run step rej b = rej := by
  induction b with
  | nil => rfl
  | cons x xs ih => simpa [run, habs] using ih

/-- agreement of two step functions on the 9 states and 256 octets transfers to the loop -/
theorem loop_congr (step : Nat → Nat → Nat) (hstep : ∀ s, s < 9 → ∀ o, o < 256 → step s o = rfcStep s o)
    (rej s i : Nat) (hs : s < 9) (b : Bytes) : loop step rej s i b = loop rfcStep rej s i b := by
  induction b generalizing s i with
  | nil => rfl
  | cons a r ih =>
    have e : step s a.toNat = rfcStep s a.toNat := hstep s hs _ (UInt8.toNat_lt a)
    simp only [loop, e]
    split
    · rfl
    · exact ih _ _ (rfcStep_lt _ _)

/-! ### `validateWith` -/

section
variable (step : Nat → Nat → Nat) (acc rej : Nat)

/-- the result of one call from a state that has not rejected -/
theorem validate_cases (st : St) (b : Bytes) (hs : st.state ≠ rej) :
    (run step st.state b ≠ rej ∧ validateWith step acc rej st b =
        (⟨true, run step st.state b == acc, b.length, st.index + b.length⟩,
         ⟨run step st.state b, st.index + b.length⟩)) ∨
    (∃ k, k < b.length ∧ run step st.state (b.take k) ≠ rej ∧ run step st.state (b.take (k + 1)) = rej ∧
      validateWith step acc rej st b = (⟨false, false, k, st.index + k⟩, ⟨rej, st.index + k⟩)) := by
  rcases loop_cases step rej st.state 0 b hs with ⟨h1, h2⟩ | ⟨k, hk, h1, h2, h3⟩
  · exact Or.inl ⟨h1, by simp [validateWith, h2]⟩
  · exact Or.inr ⟨k, hk, h1, h2, by simp [validateWith, h3]⟩

/-- the result of a call on a validator that has already rejected -/
theorem validate_rejected (habs : ∀ o, step rej o = rej) (st : St) (hs : st.state = rej) (b : Bytes) :
    validateWith step acc rej st b =
      if b.isEmpty then (⟨true, rej == acc, 0, st.index⟩, st) else (⟨false, false, 0, st.index⟩, st) := by
  cases st with
  | mk s idx =>
    simp only at hs; subst hs
    cases b with
    | nil => simp [validateWith, loop]
    | cons a r => simp [validateWith, loop, habs]

/-- two calls = one call on the concatenation: carried state, and verdict as conjunction -/
theorem validate_append (habs : ∀ o, step rej o = rej) (st : St) (a b : Bytes) :
    (validateWith step acc rej (validateWith step acc rej st a).2 b).2 = (validateWith step acc rej st (a ++ b)).2 ∧
    (validateWith step acc rej st (a ++ b)).1.valid =
      ((validateWith step acc rej st a).1.valid && (validateWith step acc rej (validateWith step acc rej st a).2 b).1.valid) := by
  by_cases hs : st.state = rej
  · rw [validate_rejected step acc rej habs st hs a, validate_rejected step acc rej habs st hs (a ++ b)]
    by_cases ha : a.isEmpty
    · have : a = [] := by simpa using ha
      subst this
      simp only [List.isEmpty_nil, ↓reduceIte, List.nil_append]
      rw [validate_rejected step acc rej habs st hs b]
      split <;> simp
    · have hab : (a ++ b).isEmpty = false := by simp at ha ⊢; intro h; exact absurd h ha
      simp only [ha, hab, Bool.false_eq_true, ↓reduceIte]
      rw [validate_rejected step acc rej habs st hs b]
      split <;> simp
  · rcases validate_cases step acc rej st a hs with ⟨h1, h2⟩ | ⟨k, hk, h1, h2, h3⟩
    · -- `a` passes
      rw [h2]
      simp only
      have hs' : (St.mk (run step st.state a) (st.index + a.length)).state ≠ rej := h1
      rcases validate_cases step acc rej ⟨run step st.state a, st.index + a.length⟩ b hs' with
        ⟨g1, g2⟩ | ⟨j, hj, g1, g2, g3⟩
      · rw [g2]
        simp only at g1
        rcases validate_cases step acc rej st (a ++ b) hs with ⟨f1, f2⟩ | ⟨m, hm, f1, f2, f3⟩
        · rw [f2]; simp [run_append, Nat.add_assoc]
        · exfalso
          -- a prefix of a run that never reaches `rej` cannot reach it
          have : run step st.state (a ++ b) = rej := by
            have e : a ++ b = (a ++ b).take (m + 1) ++ (a ++ b).drop (m + 1) := (List.take_append_drop _ _).symm
            rw [e, run_append, f2, run_absorb step rej habs]
          rw [run_append] at this
          exact g1 this
      · rw [g3]
        simp only at g1 g2
        rcases validate_cases step acc rej st (a ++ b) hs with ⟨f1, f2⟩ | ⟨m, hm, f1, f2, f3⟩
        · exfalso
          have e : b = b.take (j + 1) ++ b.drop (j + 1) := (List.take_append_drop _ _).symm
          have : run step st.state (a ++ b) = rej := by
            rw [run_append, e, run_append, g2, run_absorb step rej habs]
          exact f1 this
        · rw [f3]
          -- both name the first prefix reaching `rej`: m = a.length + j
          have hm_eq : m = a.length + j := by
            have ta : ∀ n, run step st.state ((a ++ b).take (a.length + n)) = run step (run step st.state a) (b.take n) := by
              intro n; rw [List.take_length_add_append, run_append]
            have mono : ∀ (l : Bytes) (p q : Nat), p ≤ q → run step st.state (l.take p) = rej →
                run step st.state (l.take q) = rej := by
              intro l p q hpq hp
              have : l.take q = (l.take q).take p ++ (l.take q).drop p := (List.take_append_drop _ _).symm
              rw [this, run_append, List.take_take, Nat.min_eq_left hpq, hp, run_absorb step rej habs]
            have ha_alive : ∀ p, p ≤ a.length → run step st.state ((a ++ b).take p) ≠ rej := by
              intro p hp hrej
              have := mono (a ++ b) p a.length hp hrej
              rw [List.take_left'] at this
              · exact h1 this
              · rfl
            rcases Nat.lt_trichotomy m (a.length + j) with hlt | heq | hgt
            · exfalso
              by_cases hma : m + 1 ≤ a.length
              · exact ha_alive (m + 1) hma f2
              · have : m + 1 = a.length + (m + 1 - a.length) := by omega
                rw [this, ta] at f2
                have := mono b (m + 1 - a.length) j (by omega)
                have t2 : run step (run step st.state a) (b.take j) = rej := by
                  have mono' : ∀ (p q : Nat), p ≤ q → run step (run step st.state a) (b.take p) = rej →
                      run step (run step st.state a) (b.take q) = rej := by
                    intro p q hpq hp
                    have : b.take q = (b.take q).take p ++ (b.take q).drop p := (List.take_append_drop _ _).symm
                    rw [this, run_append, List.take_take, Nat.min_eq_left hpq, hp, run_absorb step rej habs]
                  exact mono' (m + 1 - a.length) j (by omega) f2
                exact g1 t2
            · exact heq
            · exfalso
              have : run step st.state ((a ++ b).take (a.length + (j + 1))) = rej := by rw [ta]; exact g2
              exact f1 (mono (a ++ b) (a.length + (j + 1)) m (by omega) this)
          subst hm_eq
          simp [Nat.add_assoc]
    · -- `a` rejects at `k`
      rw [h3]
      simp only
      rw [validate_rejected step acc rej habs ⟨rej, st.index + k⟩ rfl b]
      rcases validate_cases step acc rej st (a ++ b) hs with ⟨f1, f2⟩ | ⟨m, hm, f1, f2, f3⟩
      · exfalso
        have e : a ++ b = a.take (k + 1) ++ (a.drop (k + 1) ++ b) := by
          rw [← List.append_assoc, List.take_append_drop]
        rw [e, run_append, h2, run_absorb step rej habs] at f1
        exact f1 rfl
      · rw [f3]
        have hm_eq : m = k := by
          have tk : ∀ n, n ≤ a.length → (a ++ b).take n = a.take n := by
            intro n hn; rw [List.take_append_of_le_length hn]
          have mono : ∀ (p q : Nat), p ≤ q → run step st.state (a.take p) = rej →
              run step st.state (a.take q) = rej := by
            intro p q hpq hp
            have : a.take q = (a.take q).take p ++ (a.take q).drop p := (List.take_append_drop _ _).symm
            rw [this, run_append, List.take_take, Nat.min_eq_left hpq, hp, run_absorb step rej habs]
          rcases Nat.lt_trichotomy m k with hlt | heq | hgt
          · exfalso
            rw [tk (m + 1) (by omega)] at f2
            exact h1 (mono (m + 1) k (by omega) f2)
          · exact heq
          · exfalso
            by_cases hma : m ≤ a.length
            · rw [tk m hma] at f1
              exact f1 (mono (k + 1) m (by omega) h2)
            · have : (a ++ b).take m = a.take (k + 1) ++ ((a.drop (k + 1)) ++ b.take (m - a.length)) := by
                rw [List.take_append, ← List.append_assoc, List.take_append_drop]
                rw [List.take_of_length_le (by omega)]
              rw [this, run_append, h2, run_absorb step rej habs] at f1
              exact f1 rfl
        subst hm_eq
        split <;> simp

end

end Abverif.Utf8
