import Abverif.Proofs.Lemmas.SchemaRT3
/-
Round trip, part 4: the args/kwargs/payload tail of the marshalled message.
-/
namespace Abverif.Wamp
open Schema

/-- the six tail attributes of `m` -/
def tailMsg (m : Msg) : Msg :=
  [(cs!"args", m.get cs!"args"), (cs!"kwargs", m.get cs!"kwargs"), (cs!"payload", m.get cs!"payload"),
   (cs!"enc_algo", m.get cs!"enc_algo"), (cs!"enc_key", m.get cs!"enc_key"),
   (cs!"enc_serializer", m.get cs!"enc_serializer")]

theorem not_dropped_of_tail {σ : Schema} {m : Msg} (hwf : σ.wf = true) (ht : σ.tail.isSome = true) :
    σ.dropped m = false := by
  rcases (wf_parts hwf).2.2.2.2.1 with h | ⟨h, _⟩
  · simp [Schema.dropped, h]
  · cases hh : σ.tail <;> simp_all

theorem marshal_tail_eq {σ : Schema} {m : Msg} (hwf : σ.wf = true) (ht : σ.tail.isSome = true) :
    σ.marshal m = .int σ.code :: (σ.posVals m ++ marshalTail m) := by
  rw [marshal_eq, not_dropped_of_tail hwf ht]
  simp [Schema.tailVals, ht]

theorem length_marshal_tail {σ : Schema} {m : Msg} (hwf : σ.wf = true) (ht : σ.tail.isSome = true) :
    (σ.marshal m).length = σ.k + 1 + (marshalTail m).length := by
  rw [marshal_tail_eq hwf ht]
  simp [posVals_length]
  omega

theorem getD_marshal_tail {σ : Schema} {m : Msg} (hwf : σ.wf = true) (ht : σ.tail.isSome = true) (j : Nat) :
    (σ.marshal m).getD (σ.k + 1 + j) .null = (marshalTail m).getD j .null := by
  rw [marshal_tail_eq hwf ht]
  rw [show σ.k + 1 + j = (σ.k + j) + 1 by omega, List.getD_cons_succ]
  rw [List.getD_eq_getElem?_getD, List.getD_eq_getElem?_getD]
  rw [List.getElem?_append_right (by rw [posVals_length]; omega)]
  rw [posVals_length]
  congr 2
  omega

theorem parseTail_marshal {σ : Schema} {O : Oracles} {m : Msg} {t : TailSpec}
    (hwf : σ.wf = true) (htl : σ.tail = some t)
    (hst : σ.strict O m = true) (hres : σ.residual O m = true) :
    parseTail O t σ.k (σ.marshalDict m) (σ.marshal m) = .ok (tailMsg m) := by
  have ht : σ.tail.isSome = true := by simp [htl]
  have hts := (strict_parts hst).2.2.2.1
  rw [htl] at hts
  have htr := (residual_parts hres).2.1
  rw [htl] at htr
  obtain ⟨sp, sk, sx, sa, sky, ss, s3⟩ := tailStrict_parts hts
  obtain ⟨rp, rk, ra, rak, rpub⟩ := tailResidual_parts htr
  have hlen := length_marshal_tail (m := m) hwf ht
  have hg0 := getD_marshal_tail (m := m) hwf ht 0
  have hg1 := getD_marshal_tail (m := m) hwf ht 1
  simp only [Nat.add_zero] at hg0
  rw [show σ.k + 1 + 1 = σ.k + 2 by omega] at hg1
  unfold parseTail
  by_cases hp : (m.get cs!"payload").truthy = true
  · -- payload mode
    have hmt : marshalTail m = [m.get cs!"payload"] := by simp [marshalTail, hp]
    rw [hmt] at hlen hg0
    have hbytes : (m.get cs!"payload").isBytes = true := by
      rcases sp with h | h
      · cases hv : m.get cs!"payload" <;> simp_all [WVal.isNull, WVal.truthy]
      · exact h
    have hnn : (m.get cs!"payload").isNull = false := by
      cases hv : m.get cs!"payload" <;> simp_all [WVal.isNull, WVal.isBytes]
    have hmode : payloadMode σ.k (σ.marshal m) = true := by
      unfold payloadMode
      rw [hlen, hg0]
      simp only [List.length_cons, List.length_nil, List.getD_cons_zero]
      cases hv : m.get cs!"payload" <;> simp_all [WVal.isBytes]
    rcases sx with h | ⟨hargs, hkw⟩
    · rw [hnn] at h; exact absurd h (by simp)
    simp only [hmode, if_true, hg0, List.getD_cons_zero]
    have e1 : encGet (σ.marshalDict m) cs!"enc_algo" (validEncAlgo O) = .ok (m.get cs!"enc_algo") := by
      apply encGet_ok _ sa
      rw [get?_marshalDict_enc hwf ht (by decide), get?_marshalEnc_algo]
      by_cases hn : (m.get cs!"enc_algo").isNull = true
      · simp only [hp, hn]
        cases hv : m.get cs!"enc_algo" <;> simp_all [WVal.isNull]
      · simp [hp, hn]
    have e2 : encGet (σ.marshalDict m) cs!"enc_key" WVal.isStr = .ok (m.get cs!"enc_key") := by
      apply encGet_ok _ sky
      rw [get?_marshalDict_enc hwf ht (by decide), get?_marshalEnc_key]
      by_cases hn : (m.get cs!"enc_key").isNull = true
      · simp only [hp, hn]
        cases hv : m.get cs!"enc_key" <;> simp_all [WVal.isNull]
      · simp [hp, hn]
    have e3 : encGet (σ.marshalDict m) cs!"enc_serializer" (validEncSer O) = .ok (m.get cs!"enc_serializer") := by
      apply encGet_ok _ ss
      rw [get?_marshalDict_enc hwf ht (by decide), get?_marshalEnc_ser]
      by_cases hn : (m.get cs!"enc_serializer").isNull = true
      · simp only [hp, hn]
        cases hv : m.get cs!"enc_serializer" <;> simp_all [WVal.isNull]
      · simp [hp, hn]
    have e4 : encTripleGate (m.get cs!"enc_algo") (m.get cs!"enc_key") (m.get cs!"enc_serializer") = .ok () := by
      unfold encTripleGate
      rcases s3 with ⟨a, b, c⟩ | ⟨_, a⟩
      · simp [a, b, c, pure, Except.pure]
      · simp [a, pure, Except.pure]
    rw [e1, e2, e3]
    simp only [bind, Except.bind, e4]
    have ha : m.get cs!"args" = .null := by cases hv : m.get cs!"args" <;> simp_all [WVal.isNull]
    have hk : m.get cs!"kwargs" = .null := by cases hv : m.get cs!"kwargs" <;> simp_all [WVal.isNull]
    simp only [tailMsg, ha, hk]
    rfl
  · -- no payload on the wire, hence none in the message
    have hpn : m.get cs!"payload" = .null := by
      rcases rp with h | h
      · cases hv : m.get cs!"payload" <;> simp_all [WVal.isNull]
      · exact absurd h hp
    have henc : m.get cs!"enc_algo" = .null ∧ m.get cs!"enc_key" = .null ∧ m.get cs!"enc_serializer" = .null := by
      rcases s3 with ⟨a, b, c⟩ | ⟨a, _⟩
      · refine ⟨?_, ?_, ?_⟩
        · cases hv : m.get cs!"enc_algo" <;> simp_all [WVal.isNull]
        · cases hv : m.get cs!"enc_key" <;> simp_all [WVal.isNull]
        · cases hv : m.get cs!"enc_serializer" <;> simp_all [WVal.isNull]
      · rw [hpn] at a; simp [WVal.isNull] at a
    obtain ⟨ea, ek, es⟩ := henc
    -- in every remaining case: not payload mode, and args / kwargs read back as they are
    suffices h : payloadMode σ.k (σ.marshal m) = false ∧
        argsPart t σ.k (σ.marshal m) = .ok (m.get cs!"args") ∧
        kwargsPart t σ.k (σ.marshal m) = .ok (m.get cs!"kwargs") by
      obtain ⟨hmode, ha, hk⟩ := h
      simp only [hmode, Bool.false_eq_true, if_false, ha, hk, tailMsg, hpn, ea, ek, es]
      rfl
    by_cases hkw : (m.get cs!"kwargs").truthy = true
    · -- [args, kwargs]
      have hmt : marshalTail m = [m.get cs!"args", m.get cs!"kwargs"] := by simp [marshalTail, hp, hkw]
      rw [hmt] at hlen hg0 hg1
      simp only [List.getD_cons_zero, List.getD_cons_succ, List.length_cons, List.length_nil] at hlen hg0 hg1
      have hkd : ∃ kvs, m.get cs!"kwargs" = .dict kvs := by
        cases hv : m.get cs!"kwargs" <;> simp_all [WVal.truthy]
      obtain ⟨kvs, hkd⟩ := hkd
      have hlt1 : σ.k + 1 + (0 + 1 + 1) > σ.k + 1 := by omega
      have hlt2 : σ.k + 1 + (0 + 1 + 1) > σ.k + 2 := by omega
      refine ⟨?_, ?_, ?_⟩
      · unfold payloadMode
        rw [hlen]
        have : (σ.k + 1 + (0 + 1 + 1) == σ.k + 2) = false := by simp
        simp [this]
      · unfold argsPart
        rw [hlen, if_pos hlt1, hg0]
        cases hvar : t.variant with
        | std =>
          rcases ra with h | h
          · cases hv : m.get cs!"args" <;> simp_all [WVal.isNull, checkArgs]
          · cases hv : m.get cs!"args" <;> simp_all [WVal.isList, checkArgs]
        | publish =>
          have := rpub hvar hkw
          cases hv : m.get cs!"args" <;> simp_all [WVal.isList, checkArgs]
      · unfold kwargsPart
        rw [hlen, if_pos hlt2, hg1, hkd]
        cases t.variant <;> rfl
    · have hkn : m.get cs!"kwargs" = .null := by
        rcases rk with h | h
        · cases hv : m.get cs!"kwargs" <;> simp_all [WVal.isNull]
        · exact absurd h hkw
      by_cases hat : (m.get cs!"args").truthy = true
      · -- [args]
        have hmt : marshalTail m = [m.get cs!"args"] := by simp [marshalTail, hp, hkw, hat]
        rw [hmt] at hlen hg0
        simp only [List.getD_cons_zero, List.length_cons, List.length_nil] at hlen hg0
        have hal : ∃ xs, m.get cs!"args" = .list xs := by
          rcases ra with h | h
          · cases hv : m.get cs!"args" <;> simp_all [WVal.isNull, WVal.truthy]
          · cases hv : m.get cs!"args" <;> simp_all [WVal.isList]
        obtain ⟨xs, hal⟩ := hal
        have hlt1 : σ.k + 1 + (0 + 1) > σ.k + 1 := by omega
        have hlt2 : ¬ (σ.k + 1 + (0 + 1) > σ.k + 2) := by omega
        refine ⟨?_, ?_, ?_⟩
        · unfold payloadMode
          rw [hg0, hal]
          simp
        · unfold argsPart
          rw [hlen, if_pos hlt1, hg0, hal]
          cases t.variant <;> rfl
        · unfold kwargsPart
          rw [hlen, if_neg hlt2, hkn]
      · -- nothing
        have han : m.get cs!"args" = .null := by
          rcases rak with h | h | h
          · exact absurd h hkw
          · cases hv : m.get cs!"args" <;> simp_all [WVal.isNull]
          · exact absurd h hat
        have hmt : marshalTail m = [] := by simp [marshalTail, hp, hkw, hat]
        rw [hmt] at hlen
        simp only [List.length_nil, Nat.add_zero] at hlen
        have hlt1 : ¬ (σ.k + 1 > σ.k + 1) := by omega
        have hlt2 : ¬ (σ.k + 1 > σ.k + 2) := by omega
        refine ⟨?_, ?_, ?_⟩
        · unfold payloadMode
          rw [hlen]
          have : (σ.k + 1 == σ.k + 2) = false := by simp
          simp [this]
        · unfold argsPart
          rw [hlen, if_neg hlt1, han]
        · unfold kwargsPart
          rw [hlen, if_neg hlt2, hkn]

end Abverif.Wamp
