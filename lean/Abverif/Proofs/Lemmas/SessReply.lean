import Abverif.Proofs.Lemmas.SessFrame
/-
Accounting of terminal replies (C10): through every step of the model, for every request id,

    terminal replies sent for it  +  [it is in `_invocations` afterwards]
      ≤  endpoint calls made for it  +  [it was in `_invocations` before]

— a terminal reply is only ever sent by the `success` / `error` closure of an invocation (`invDone`), which first
removes the id from `_invocations`; the id only gets there through an accepted INVOCATION. The request/reply side and
the session-lifecycle side come from the generic layers (`LiftQ`, `LiftS`); the callee side is walked here.
-/
namespace Abverif.Session
open Abverif.SessCodes

def isProg (m : OutMsg) : Bool := m.opts.any (fun e => e.1 == .progress)

/-- a terminal reply for invocation `req`: a non-progressive YIELD or an ERROR carrying that id -/
def terminalFor (req : ReqId) : SOut → Bool
  | .send m => ((m.typ == .yield_ && !isProg m) || m.typ == .error) && m.req == req
  | _ => false

/-- the endpoint was called for invocation `req` -/
def acceptFor (req : ReqId) : SOut → Bool
  | .endpoint r _ _ _ _ => r == req
  | _ => false

def terminals (req : ReqId) (o : List SOut) : Nat := o.countP (terminalFor req)
def accepts (req : ReqId) (o : List SOut) : Nat := o.countP (acceptFor req)

/-- 1 iff `req` is in `_invocations` -/
def owing (req : ReqId) (s : Sess) : Nat := if (alookup req s.invs).isSome then 1 else 0

def okRep (req : ReqId) (o : SOut) : Bool := !terminalFor req o && !acceptFor req o

/-- nothing that waits in the callback queue is a terminal reply or an endpoint call -/
def RepInv (req : ReqId) (s : Sess) : Prop := ∀ o ∈ s.cbq, okRep req o = true

def RepRel (req : ReqId) (s : Sess) (o : List SOut) (s' : Sess) : Prop :=
  RepInv req s' ∧ terminals req o + owing req s' ≤ accepts req o + owing req s

theorem terminals_append (req : ReqId) (a b : List SOut) : terminals req (a ++ b) = terminals req a + terminals req b := by
  simp [terminals]
theorem accepts_append (req : ReqId) (a b : List SOut) : accepts req (a ++ b) = accepts req a + accepts req b := by
  simp [accepts]

theorem counts_of_ok {req : ReqId} {os : List SOut} (h : ∀ o ∈ os, okRep req o = true) : terminals req os = 0 ∧ accepts req os = 0 := by
  simp only [terminals, accepts, List.countP_eq_zero]
  constructor <;> intro o ho <;> have := h o ho <;> simp [okRep] at this <;> simp [this]

theorem okRep_of_not_lifeOut {req : ReqId} {o : SOut} (h : lifeOut o = false) : okRep req o = true := by
  cases o <;> simp [okRep, terminalFor, acceptFor, lifeOut] at h ⊢
  next m => cases hm : m.typ <;> simp [hm, lcMsg] at h ⊢

theorem okRep_of_sessOut {req : ReqId} (o : SOut) (h : sessOut o = true) : okRep req o = true := by
  cases o <;> simp [okRep, terminalFor, acceptFor, sessOut] at h ⊢
  next m => cases hm : m.typ <;> simp [hm, sessMsg] at h ⊢

theorem RepRel.refl {req : ReqId} {s : Sess} (h : RepInv req s) : RepRel req s [] s := ⟨h, by simp [terminals, accepts]⟩

theorem RepRel.trans {req : ReqId} {s1 s2 s3 : Sess} {o1 o2 : List SOut} (h1 : RepRel req s1 o1 s2) (h2 : RepRel req s2 o2 s3) :
    RepRel req s1 (o1 ++ o2) s3 := by
  refine ⟨h2.1, ?_⟩
  rw [terminals_append, accepts_append]
  have := h1.2; have := h2.2
  omega

/-- a step that sends / calls nothing relevant and leaves `_invocations` alone -/
theorem RepRel.of_same {req : ReqId} {s s' : Sess} {os : List SOut} (hq : RepInv req s') (hi : s'.invs = s.invs)
    (ho : ∀ o ∈ os, okRep req o = true) : RepRel req s os s' := by
  obtain ⟨h1, h2⟩ := counts_of_ok ho
  refine ⟨hq, ?_⟩
  simp [h1, h2, owing, hi]

theorem okRep_toCaught {req : ReqId} (o : SOut) : okRep req (toCaught o) = okRep req o := by cases o <;> rfl
theorem okRep_toLost {req : ReqId} (o : SOut) : okRep req (toLost o) = okRep req o := by cases o <;> rfl

theorem countP_map_eq {f : SOut → SOut} {p : SOut → Bool} (h : ∀ o, p (f o) = p o) (l : List SOut) :
    (l.map f).countP p = l.countP p := by
  induction l with
  | nil => rfl
  | cons x xs ih => simp [List.countP_cons, h, ih]

theorem repLiftQ (req : ReqId) : LiftQ (RepRel req) (RepInv req) where
  refl := RepRel.refl
  trans := RepRel.trans
  post := fun _ r => r.1
  caught := fun {s o s'} r => by
    refine ⟨r.1, ?_⟩
    have e1 : terminals req (o.map toCaught) = terminals req o := countP_map_eq (fun x => by cases x <;> rfl) o
    have e2 : accepts req (o.map toCaught) = accepts req o := countP_map_eq (fun x => by cases x <;> rfl) o
    rw [e1, e2]; exact r.2
  quiet := fun {s o s'} h q => by
    have hi : s'.invs = s.invs := by have := q.life; simp only [Sess.life, Life.mk.injEq] at this; exact this.2.2.2.2.1
    refine RepRel.of_same ?_ hi (fun x hx => okRep_of_not_lifeOut (q.outs x hx))
    intro x hx
    rcases q.queue x hx with h1 | h1
    · exact h x h1
    · exact okRep_of_not_lifeOut h1
  lifeApi := fun {s} a ha h => by
    cases a <;> simp [Api.isLife] at ha
    · simp only [apiStep, apiJoin]
      split
      · exact RepRel.of_same h rfl (by simp [okRep, terminalFor, acceptFor])
      · split
        · exact RepRel.of_same h rfl (by simp [okRep, terminalFor, acceptFor])
        · exact RepRel.of_same h rfl (by simp [okRep, terminalFor, acceptFor])
    · simp only [apiStep, apiLeave]
      split
      · exact RepRel.refl h
      · split
        · exact RepRel.refl h
        · split
          · exact RepRel.of_same h rfl (by simp [okRep, terminalFor, acceptFor])
          · exact RepRel.of_same h rfl (by simp [okRep, terminalFor, acceptFor])
    · simp only [apiStep, apiDisconnect]
      split
      · exact RepRel.of_same h rfl (by simp [okRep, terminalFor, acceptFor])
      · exact RepRel.refl h

theorem clearTables_life (s : Sess) : s.clearTables.life = s.life := rfl

theorem repLiftS (req : ReqId) : LiftS (RepRel req) (RepInv req) (okRep req) where
  toLift := (repLiftQ req).toLift
  okOf := okRep_of_sessOut
  lc := fun {s s'} h hc hk => by
    have e5 := (core_fields hc).2.2.2.2
    have hi : s'.invs = s.invs := by simp only [Sess.callee, Callee.mk.injEq] at hk; exact hk.1
    exact RepRel.of_same (by intro x hx; exact h x (e5 ▸ hx)) hi (by simp)
  out := fun h ho => RepRel.of_same h rfl ho
  emit := fun {s o} h ho => by
    unfold emitCb
    split
    · exact RepRel.of_same h rfl (by simpa using ho)
    · refine RepRel.of_same ?_ rfl (by simp)
      intro x hx
      rcases List.mem_append.mp hx with hx | hx
      · exact h x hx
      · simp at hx; subst hx; exact ho
  enq := fun k h => RepRel.of_same (by
    intro x hx
    rcases List.mem_append.mp hx with hx | hx
    · exact h x hx
    · simp at hx; subst hx; rfl) rfl (by simp)
  lostMap := fun {s o s'} r => by
    refine ⟨r.1, ?_⟩
    have e1 : terminals req (o.map toLost) = terminals req o := countP_map_eq (fun x => by cases x <;> rfl) o
    have e2 : accepts req (o.map toLost) = accepts req o := countP_map_eq (fun x => by cases x <;> rfl) o
    rw [e1, e2]; exact r.2
  cbqOk := fun h o ho => h o ho
  clearQ := fun _ => RepRel.of_same (by intro x hx; simp at hx) rfl (by simp)
  rejectAll := fun {s} o h =>
    (repLiftQ req).quiet h (Quiet.congr_left (rejectList_quiet s.clearTables o s.outstanding) rfl rfl)

/-! ### the callee side -/

theorem owing_faults (req : ReqId) (s : Sess) (f : List SendOut) : owing req { s with faults := f } = owing req s := rfl

/-- one `send()` on a reply path: at most the message itself goes out -/
theorem replySend_rep {req : ReqId} {s : Sess} (h : RepInv req s) (m : OutMsg) :
    RepInv req (replySend s m).1 ∧ (replySend s m).1.invs = s.invs ∧ accepts req (replySend s m).2.1 = 0 ∧
    terminals req (replySend s m).2.1 ≤ 1 ∧ ((replySend s m).2.2 ≠ .ok → terminals req (replySend s m).2.1 = 0) ∧
    (terminalFor req (.send m) = false → terminals req (replySend s m).2.1 = 0) := by
  unfold replySend
  split
  · refine ⟨h, rfl, by simp [accepts, acceptFor], ?_, by simp, ?_⟩
    · simp only [terminals, List.countP_cons, List.countP_nil]; split <;> omega
    · intro hm; simp [terminals, hm]
  · refine ⟨h, rfl, by simp [accepts, acceptFor], ?_, by simp, ?_⟩
    · simp only [terminals, List.countP_cons, List.countP_nil]; split <;> omega
    · intro hm; simp [terminals, hm]
  · next f r hne =>
    refine ⟨h, rfl, by simp [accepts, acceptFor], by simp [terminals, terminalFor], by simp [terminals, terminalFor], by simp [terminals, terminalFor]⟩

theorem lost_counts (req : ReqId) (e : Exc) : terminals req [.lost e] = 0 ∧ accepts req [.lost e] = 0 := by
  simp [terminals, accepts, terminalFor, acceptFor]

/-- `try: send(reply) except …: send(ERROR)`: at most one terminal reply altogether -/
theorem sendWithFallback_rep {req : ReqId} {s : Sess} (h : RepInv req s) (r : ReqId) (m : OutMsg) :
    RepInv req (sendWithFallback s r m).1 ∧ (sendWithFallback s r m).1.invs = s.invs ∧
    accepts req (sendWithFallback s r m).2 = 0 ∧ terminals req (sendWithFallback s r m).2 ≤ 1 ∧
    (r ≠ req → m.req = r → terminals req (sendWithFallback s r m).2 = 0) := by
  unfold sendWithFallback
  obtain ⟨a1, a2, a3, a4, a5, a6⟩ := replySend_rep (req := req) h m
  simp only []
  split
  · refine ⟨a1, a2, a3, a4, fun hne hm => a6 ?_⟩
    simp only [terminalFor, hm, Bool.and_eq_false_iff, beq_eq_false_iff_ne, ne_eq]
    exact Or.inr hne
  · next hnok =>
    have t0 := a5 hnok
    split
    · refine ⟨a1, a2, ?_, ?_, fun _ _ => ?_⟩ <;>
        simp [accepts_append, terminals_append, a3, t0, (lost_counts req _).1, (lost_counts req _).2]
    · next u _ =>
      obtain ⟨b1, b2, b3, b4, b5, b6⟩ := replySend_rep (req := req) a1 { typ := .error, req := r, uri := u }
      have hl : ∀ l : List SOut, (l = [] ∨ ∃ e, l = [.lost e]) → terminals req l = 0 ∧ accepts req l = 0 := by
        intro l hl; rcases hl with rfl | ⟨e, rfl⟩
        · simp [terminals, accepts]
        · exact lost_counts req e
      have hl' := hl (if (replySend (replySend s m).1 { typ := .error, req := r, uri := u }).2.2 = SendOut.ok then []
        else [SOut.lost (replySend (replySend s m).1 { typ := .error, req := r, uri := u }).2.2.exc]) (by split <;> simp)
      refine ⟨b1, b2.trans a2, ?_, ?_, fun hne _ => ?_⟩
      · simp [accepts_append, a3, b3, hl'.2]
      · simp only [terminals_append, t0, hl'.1]; omega
      · have := b6 (by simp [terminalFor]; exact hne)
        simp [terminals_append, t0, this, hl'.1]

theorem owing_adel_self (req : ReqId) (s : Sess) : owing req { s with invs := adel req s.invs } = 0 := by
  simp [owing]

theorem owing_adel_ne {req r : ReqId} (hne : req ≠ r) (s : Sess) : owing req { s with invs := adel r s.invs } = owing req s := by
  simp [owing, alookup_adel_ne hne]

theorem owing_of_invs {req : ReqId} {s s' : Sess} (h : s'.invs = s.invs) : owing req s' = owing req s := by
  simp [owing, h]

theorem invDone_rep {req : ReqId} {s : Sess} (h : RepInv req s) (r : ReqId) (o : EOut) :
    RepRel req s (invDone s r o).2 (invDone s r o).1 := by
  unfold invDone
  split
  · exact RepRel.of_same h rfl (by simp [okRep, terminalFor, acceptFor])
  · next x hx =>
    have h0 : RepInv req { s with invs := adel r s.invs } := h
    have hsome : (alookup r s.invs).isSome = true := by simp [hx]
    -- what the removal of `r` does to the debt for `req`
    have key : ∀ (s2 : Sess) (os : List SOut), RepInv req s2 → s2.invs = adel r s.invs → accepts req os = 0 →
        terminals req os ≤ 1 → (r ≠ req → terminals req os = 0) → RepRel req s os s2 := by
      intro s2 os hq hi ha ht hz
      refine ⟨hq, ?_⟩
      by_cases e : req = r
      · subst e
        have : owing req s2 = 0 := by simp [owing, hi]
        have : owing req s = 1 := by simp [owing, hsome]
        omega
      · have : owing req s2 = owing req s := by simp [owing, hi, alookup_adel_ne e]
        have := hz (fun e' => e e'.symm)
        omega
    simp only []
    split
    · split
      · exact key _ _ h0 rfl (by simp [accepts]) (by simp [terminals]) (fun _ => by simp [terminals])
      · obtain ⟨c1, c2, c3, c4, c5⟩ := sendWithFallback_rep (req := req) h0 r { typ := .yield_, req := r, args := _, kwargs := _ }
        exact key _ _ c1 c2 c3 c4 (fun hne => c5 hne rfl)
    · next e =>
      split
      · exact key _ _ h0 rfl (by simp [accepts, acceptFor]) (by simp [terminals, terminalFor]) (fun _ => by simp [terminals, terminalFor])
      · obtain ⟨c1, c2, c3, c4, c5⟩ := sendWithFallback_rep (req := req) h0 r
          { typ := .error, req := r, uri := e.errorReply.1, args := e.errorReply.2.1, kwargs := e.errorReply.2.2 }
        refine key _ _ c1 c2 ?_ ?_ (fun hne => ?_)
        · simpa [accepts, List.countP_cons, acceptFor] using c3
        · simpa [terminals, List.countP_cons, terminalFor] using c4
        · simpa [terminals, List.countP_cons, terminalFor] using c5 hne rfl

theorem alookup_aupd_isSome {β : Type} (k k' : Nat) (v : β) (l : List (Nat × β)) :
    (alookup k (aupd k' v l)).isSome = (alookup k l).isSome := by
  by_cases e : k = k'
  · subst e; rw [alookup_aupd_self]; cases alookup k l <;> rfl
  · rw [alookup_aupd_ne e]

theorem settleInv_rep {req : ReqId} {s : Sess} (h : RepInv req s) (r : ReqId) (o : EOut) :
    RepRel req s (settleInv s r o).2 (settleInv s r o).1 := by
  unfold settleInv
  split
  · exact RepRel.refl h
  · next x _ =>
    split
    · exact RepRel.refl h
    · have h1 : RepRel req s [] { s with invs := aupd r { x with st := .fired } s.invs } := by
        refine ⟨h, ?_⟩
        simp [terminals, accepts, owing, alookup_aupd_isSome]
      have h2 := (repLiftS req).defer (fun r o h => invDone_rep h r o) h1.1 (.invDone r o)
      exact RepRel.trans h1 h2

theorem isProg_progress (req : ReqId) (v : Val) :
    terminalFor req (.send { typ := .yield_, req := req, opts := [(.progress, .b true)], args := [v] }) = false := by
  simp [terminalFor, isProg]

theorem progressLoop_rep {req : ReqId} {s : Sess} (h : RepInv req s) (r : ReqId) (vs : List Val) :
    RepRel req s (progressLoop s r vs).2.1 (progressLoop s r vs).1 ∧ (progressLoop s r vs).1.invs = s.invs := by
  induction vs generalizing s with
  | nil => exact ⟨RepRel.refl h, rfl⟩
  | cons v vs ih =>
    unfold progressLoop
    split
    · exact ⟨RepRel.refl h, rfl⟩
    · obtain ⟨a1, a2, a3, a4, a5, a6⟩ := replySend_rep (req := req) h { typ := .yield_, req := r, opts := [(.progress, .b true)], args := [v] }
      have t0 := a6 (by simp [terminalFor, isProg])
      have h1 : RepRel req s (progressSend s r v).2.1 (progressSend s r v).1 := by
        refine ⟨a1, ?_⟩
        have : owing req (progressSend s r v).1 = owing req s := owing_of_invs a2
        simp only [progressSend] at this ⊢
        omega
      simp only []
      split
      · obtain ⟨i1, i2⟩ := ih (s := (progressSend s r v).1) a1
        exact ⟨RepRel.trans h1 i1, i2.trans a2⟩
      · exact ⟨h1, a2⟩

theorem terminals_endpoint (req r : ReqId) (obj : FutId) (hh : HId) (a : Args) (k : List (Key × KwVal)) (os : List SOut) :
    terminals req (.endpoint r obj hh a k :: os) = terminals req os := by
  simp [terminals, List.countP_cons, terminalFor]

theorem accepts_endpoint (req r : ReqId) (obj : FutId) (hh : HId) (a : Args) (k : List (Key × KwVal)) (os : List SOut) :
    accepts req (.endpoint r obj hh a k :: os) = accepts req os + (if r = req then 1 else 0) := by
  simp only [accepts, List.countP_cons, acceptFor]
  by_cases e : r = req <;> simp [e]

theorem owing_aset_self (req : ReqId) (v : InvRec) (s : Sess) : owing req { s with invs := aset req v s.invs } = 1 := by
  simp [owing]

theorem onInvocation_rep {req : ReqId} {s : Sess} (h : RepInv req s) (beh : List HAct) (r : ReqId) (reg : RegId)
    (p : Payload) (rp : Bool) : RepRel req s (onInvocation s beh r reg p rp).2 (onInvocation s beh r reg p rp).1 := by
  unfold onInvocation
  split
  · exact RepRel.of_same h rfl (by simp [okRep, terminalFor, acceptFor])
  · next hfree =>
    split
    · exact RepRel.of_same h rfl (by simp [okRep, terminalFor, acceptFor])
    · next g _ =>
      simp only []
      generalize hs0 : (if (g.detailsArg.isSome && rp) = true then { s with progs := r :: s.progs } else s) = s0
      have hq0 : RepInv req s0 := by subst hs0; split <;> exact h
      have hi0 : s0.invs = s.invs := by subst hs0; split <;> rfl
      obtain ⟨h1, hi1⟩ := progressLoop_rep (req := req) hq0 r (if (g.detailsArg.isSome && rp) = true then (beh.headD {}).progress else [])
      generalize (progressLoop s0 r (if (g.detailsArg.isSome && rp) = true then (beh.headD {}).progress else [])) = r1 at h1 hi1 ⊢
      have h2 : RepRel req r1.1 (if r1.2.2 = true then (r1.1, []) else runCalls r1.1 none (beh.headD {}).calls).2
          (if r1.2.2 = true then (r1.1, []) else runCalls r1.1 none (beh.headD {}).calls).1 := by
        split
        · exact RepRel.refl h1.1
        · exact (repLiftQ req).toLift.runCalls h1.1 none _
      generalize (if r1.2.2 = true then (r1.1, []) else runCalls r1.1 none (beh.headD {}).calls) = r2 at h2 ⊢
      generalize (if r1.2.2 = true then some (EOut.raised .sendExc)
        else if (beh.headD {}).raises = true then some (EOut.raised (beh.headD {}).exc)
        else if (beh.headD {}).ret = Ret.pending then none else some (retOut (beh.headD {}).ret)) = outcome
      -- the debt for `req` from `s` to `r2.1`, then the record is written, then (maybe) the closure runs
      have h012 : RepRel req s (r1.2.1 ++ r2.2) r2.1 := by
        have h01 : RepRel req s r1.2.1 r1.1 := ⟨h1.1, by have := h1.2; rw [owing_of_invs hi0] at this; exact this⟩
        exact RepRel.trans h01 h2
      have hfree' : (alookup r s.invs).isSome = false := by simpa using hfree
      refine ⟨?_, ?_⟩
      · cases outcome with
        | none => exact h012.1
        | some o => exact ((repLiftS req).defer (fun r o h => invDone_rep h r o) (s := { r2.1 with invs := aset r _ r2.1.invs }) h012.1 _).1
      · -- counting
        simp only [List.cons_append, terminals_endpoint, accepts_endpoint, terminals_append, accepts_append]
        have hb := h012.2
        simp only [terminals_append, accepts_append] at hb
        -- writing the record
        have hset : ∀ v : InvRec, owing req { r2.1 with invs := aset r v r2.1.invs } ≤ owing req r2.1 + (if r = req then 1 else 0) := by
          intro v
          by_cases e : r = req
          · subst e; simp [owing]
          · have : req ≠ r := fun e' => e e'.symm
            simp [owing, alookup_aset_ne this, e]
        cases outcome with
        | none =>
          have hs := hset { reg := reg, st := IState.pending }
          simp only [Option.isSome_none, Bool.false_eq_true, ↓reduceIte, terminals, accepts, List.countP_nil] at hs ⊢
          simp only [terminals, accepts] at hb
          omega
        | some o =>
          have hd := ((repLiftS req).defer (fun r o h => invDone_rep h r o)
            (s := { r2.1 with invs := aset r { reg := reg, st := IState.fired } r2.1.invs }) h012.1 (.invDone r o)).2
          have hs := hset { reg := reg, st := IState.fired }
          simp only [Option.isSome_some, ↓reduceIte] at hd hs ⊢
          omega

theorem lateProgress_rep {req : ReqId} {s : Sess} (h : RepInv req s) (r : ReqId) (v : Val) :
    RepRel req s (lateProgress s r v).2 (lateProgress s r v).1 := by
  unfold lateProgress
  split
  · exact RepRel.of_same h rfl (by simp [okRep, terminalFor, acceptFor])
  · split
    · exact RepRel.of_same h rfl (by simp [okRep, terminalFor, acceptFor])
    · obtain ⟨a1, a2, a3, a4, a5, a6⟩ := replySend_rep (req := req) h { typ := .yield_, req := r, opts := [(.progress, .b true)], args := [v] }
      have t0 := a6 (by simp [terminalFor, isProg])
      have hc : ∀ l : List SOut, (l = [] ∨ ∃ e, l = [.caught e]) → terminals req l = 0 ∧ accepts req l = 0 := by
        intro l hl; rcases hl with rfl | ⟨e, rfl⟩ <;> simp [terminals, accepts, terminalFor, acceptFor]
      refine ⟨a1, ?_⟩
      have e : owing req (progressSend s r v).1 = owing req s := owing_of_invs a2
      simp only []
      rw [terminals_append, accepts_append]
      obtain ⟨c1, c2⟩ := hc (if (progressSend s r v).2.2 = SendOut.ok then [] else [SOut.caught (progressSend s r v).2.2.exc]) (by split <;> simp)
      rw [c1, c2]
      have t0' : terminals req (progressSend s r v).2.1 = 0 := t0
      have a3' : accepts req (progressSend s r v).2.1 = 0 := a3
      omega

theorem onEstablished_rep {req : ReqId} {s : Sess} (h : RepInv req s) (beh : List HAct) (m : InMsg) :
    RepRel req s (onEstablished s beh m).2 (onEstablished s beh m).1 := by
  by_cases hm : m.isReplySide = true
  · exact (repLiftQ req).established h beh m hm
  · cases m <;> simp [InMsg.isReplySide] at hm
    · -- GOODBYE
      simp only [onEstablished]
      split
      · exact RepRel.of_same h rfl (by simp [okRep, terminalFor, acceptFor])
      · exact (repLiftS req).goodbye h _
    · exact onInvocation_rep h beh _ _ _ _
    · exact settleInv_rep h _ _

theorem step_rep {req : ReqId} {s : Sess} (e : SEv) (h : RepInv req s) : RepRel req s (step s e).2 (step s e).1 := by
  have hInv : ∀ {s : Sess} (r : ReqId) (o : EOut), RepInv req s → RepRel req s (invDone s r o).2 (invDone s r o).1 :=
    fun r o h => invDone_rep h r o
  cases e with
  | api a => exact (repLiftQ req).toLift.api a h
  | msg m beh =>
    simp only [step, onMessage]
    split
    · exact (repLiftS req).preSession hInv h beh m
    · exact onEstablished_rep h beh m
  | pump => exact (repLiftS req).drain hInv 8 h
  | tick => exact (repLiftS req).tick hInv h
  | open_ acts => exact (repLiftS req).onOpen hInv h acts
  | closed acts => exact (repLiftS req).onClose h acts
  | fault l => exact RepRel.of_same h rfl (fun _ hx => by cases hx)
  | resolve r v => exact settleInv_rep h r _
  | fail r e => exact settleInv_rep h r _
  | lateProgress r v => exact lateProgress_rep h r v

theorem run_rep {req : ReqId} {s : Sess} (h : RepInv req s) (hist : List SEv) :
    RepRel req s (runOuts s hist) (runState s hist) :=
  run_lift (R := RepRel req) (P := RepInv req) RepRel.refl RepRel.trans (fun _ r => r.1) (fun e h => step_rep e h) h hist

end Abverif.Session
