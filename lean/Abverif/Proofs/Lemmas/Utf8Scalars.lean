import Abverif.Proofs.Lemmas.Utf8Dfa
/-
C09 helper lemmas, part 3: UTF8-char ⇔ shortest-form encoding of a Unicode scalar value (arithmetic by omega).
-/
namespace Abverif.Utf8

theorem inR_iff (lo hi : Nat) (a : UInt8) : inR lo hi a = true ↔ lo ≤ a.toNat ∧ a.toNat ≤ hi := by
  simp [inR]

theorem ofNat_eq (a : UInt8) (n : Nat) (h : n = a.toNat) : UInt8.ofNat n = a := by
  subst h; simp

theorem encode1 (cp : Nat) (h : cp < 0x80) : encode cp = [UInt8.ofNat cp] := by
  rw [encode, if_pos h]
theorem encode2 (cp : Nat) (h1 : ¬ cp < 0x80) (h : cp < 0x800) :
    encode cp = [UInt8.ofNat (0xC0 + cp / 64), UInt8.ofNat (0x80 + cp % 64)] := by
  rw [encode, if_neg h1, if_pos h]
theorem encode3 (cp : Nat) (h1 : ¬ cp < 0x80) (h2 : ¬ cp < 0x800) (h : cp < 0x10000) :
    encode cp = [UInt8.ofNat (0xE0 + cp / 4096), UInt8.ofNat (0x80 + cp / 64 % 64), UInt8.ofNat (0x80 + cp % 64)] := by
  rw [encode, if_neg h1, if_neg h2, if_pos h]
theorem encode4 (cp : Nat) (h1 : ¬ cp < 0x80) (h2 : ¬ cp < 0x800) (h3 : ¬ cp < 0x10000) :
    encode cp = [UInt8.ofNat (0xF0 + cp / 262144), UInt8.ofNat (0x80 + cp / 4096 % 64),
      UInt8.ofNat (0x80 + cp / 64 % 64), UInt8.ofNat (0x80 + cp % 64)] := by
  rw [encode, if_neg h1, if_neg h2, if_neg h3]

theorem isScalar_iff (c : Nat) : isScalar c = true ↔ c ≤ 0x10FFFF ∧ ¬ (0xD800 ≤ c ∧ c ≤ 0xDFFF) := by
  simp only [isScalar, Bool.and_eq_true, decide_eq_true_eq, Bool.not_eq_true', Bool.and_eq_false_iff,
    decide_eq_false_iff_not]
  omega

theorem dec2 (a b : UInt8) (ha : 0xC2 ≤ a.toNat ∧ a.toNat ≤ 0xDF) (hb : 0x80 ≤ b.toNat ∧ b.toNat ≤ 0xBF) :
    ∃ cp, isScalar cp = true ∧ [a, b] = encode cp := by
  obtain ⟨cp, hcp⟩ : ∃ cp, cp = (a.toNat - 0xC0) * 64 + (b.toNat - 0x80) := ⟨_, rfl⟩
  refine ⟨cp, (isScalar_iff cp).mpr (by omega), ?_⟩
  rw [encode2 cp (by omega) (by omega), ofNat_eq a _ (by omega), ofNat_eq b _ (by omega)]

theorem dec3 (a b c : UInt8) (ha : 0xE0 ≤ a.toNat ∧ a.toNat ≤ 0xEF) (hb : 0x80 ≤ b.toNat ∧ b.toNat ≤ 0xBF)
    (hc : 0x80 ≤ c.toNat ∧ c.toNat ≤ 0xBF) (hE0 : a.toNat = 0xE0 → 0xA0 ≤ b.toNat) (hED : a.toNat = 0xED → b.toNat ≤ 0x9F) :
    ∃ cp, isScalar cp = true ∧ [a, b, c] = encode cp := by
  obtain ⟨cp, hcp⟩ : ∃ cp, cp = (a.toNat - 0xE0) * 4096 + (b.toNat - 0x80) * 64 + (c.toNat - 0x80) := ⟨_, rfl⟩
  refine ⟨cp, (isScalar_iff cp).mpr (by omega), ?_⟩
  rw [encode3 cp (by omega) (by omega) (by omega), ofNat_eq a _ (by omega), ofNat_eq b _ (by omega),
    ofNat_eq c _ (by omega)]

theorem dec4 (a b c d : UInt8) (ha : 0xF0 ≤ a.toNat ∧ a.toNat ≤ 0xF4) (hb : 0x80 ≤ b.toNat ∧ b.toNat ≤ 0xBF)
    (hc : 0x80 ≤ c.toNat ∧ c.toNat ≤ 0xBF) (hd : 0x80 ≤ d.toNat ∧ d.toNat ≤ 0xBF)
    (hF0 : a.toNat = 0xF0 → 0x90 ≤ b.toNat) (hF4 : a.toNat = 0xF4 → b.toNat ≤ 0x8F) :
    ∃ cp, isScalar cp = true ∧ [a, b, c, d] = encode cp := by
  obtain ⟨cp, hcp⟩ : ∃ cp, cp = (a.toNat - 0xF0) * 262144 + (b.toNat - 0x80) * 4096 + (c.toNat - 0x80) * 64
      + (d.toNat - 0x80) := ⟨_, rfl⟩
  refine ⟨cp, (isScalar_iff cp).mpr (by omega), ?_⟩
  rw [encode4 cp (by omega) (by omega) (by omega), ofNat_eq a _ (by omega), ofNat_eq b _ (by omega),
    ofNat_eq c _ (by omega), ofNat_eq d _ (by omega)]

/-- every UTF8-char is the shortest-form encoding of a Unicode scalar value -/
theorem UChar_encode (c : Bytes) (h : UChar c) : ∃ cp, isScalar cp = true ∧ c = encode cp := by
  cases h with
  | utf8_1 a h =>
    rw [inR_iff] at h
    refine ⟨a.toNat, (isScalar_iff _).mpr (by omega), ?_⟩
    rw [encode1 _ (by omega), UInt8.ofNat_toNat]
  | utf8_2 a b h hb => simp only [isTail, inR_iff] at h hb; exact dec2 a b h hb
  | utf8_3_e0 a b c h hb hc =>
    simp only [isTail, inR_iff] at h hb hc; exact dec3 a b c (by omega) (by omega) hc (by omega) (by omega)
  | utf8_3_e1_ec a b c h hb hc =>
    simp only [isTail, inR_iff] at h hb hc; exact dec3 a b c (by omega) (by omega) hc (by omega) (by omega)
  | utf8_3_ed a b c h hb hc =>
    simp only [isTail, inR_iff] at h hb hc; exact dec3 a b c (by omega) (by omega) hc (by omega) (by omega)
  | utf8_3_ee_ef a b c h hb hc =>
    simp only [isTail, inR_iff] at h hb hc; exact dec3 a b c (by omega) (by omega) hc (by omega) (by omega)
  | utf8_4_f0 a b c d h hb hc hd =>
    simp only [isTail, inR_iff] at h hb hc hd
    exact dec4 a b c d (by omega) (by omega) hc hd (by omega) (by omega)
  | utf8_4_f1_f3 a b c d h hb hc hd =>
    simp only [isTail, inR_iff] at h hb hc hd
    exact dec4 a b c d (by omega) (by omega) hc hd (by omega) (by omega)
  | utf8_4_f4 a b c d h hb hc hd =>
    simp only [isTail, inR_iff] at h hb hc hd
    exact dec4 a b c d (by omega) (by omega) hc hd (by omega) (by omega)

theorem toNat_ofNat_lt (n : Nat) (h : n < 256) : (UInt8.ofNat n).toNat = n := by
  simp; omega

theorem inR_ofNat (lo hi n : Nat) (h : lo ≤ n ∧ n ≤ hi) (h256 : hi < 256) : inR lo hi (UInt8.ofNat n) = true := by
  rw [inR_iff, toNat_ofNat_lt n (by omega)]; exact h

/-- the encoding of every Unicode scalar value is a UTF8-char -/
theorem encode_UChar (cp : Nat) (h : isScalar cp = true) : UChar (encode cp) := by
  rw [isScalar_iff] at h
  by_cases h1 : cp < 0x80
  · rw [encode1 cp h1]; exact UChar.utf8_1 _ (inR_ofNat _ _ _ (by omega) (by omega))
  by_cases h2 : cp < 0x800
  · rw [encode2 cp h1 h2]
    exact UChar.utf8_2 _ _ (inR_ofNat _ _ _ (by omega) (by omega)) (inR_ofNat _ _ _ (by omega) (by omega))
  by_cases h3 : cp < 0x10000
  · rw [encode3 cp h1 h2 h3]
    by_cases c1 : cp < 0x1000
    · exact UChar.utf8_3_e0 _ _ _ (inR_ofNat _ _ _ (by omega) (by omega)) (inR_ofNat _ _ _ (by omega) (by omega))
        (inR_ofNat _ _ _ (by omega) (by omega))
    by_cases c2 : cp < 0xD000
    · exact UChar.utf8_3_e1_ec _ _ _ (inR_ofNat _ _ _ (by omega) (by omega)) (inR_ofNat _ _ _ (by omega) (by omega))
        (inR_ofNat _ _ _ (by omega) (by omega))
    by_cases c3 : cp < 0xE000
    · exact UChar.utf8_3_ed _ _ _ (inR_ofNat _ _ _ (by omega) (by omega)) (inR_ofNat _ _ _ (by omega) (by omega))
        (inR_ofNat _ _ _ (by omega) (by omega))
    · exact UChar.utf8_3_ee_ef _ _ _ (inR_ofNat _ _ _ (by omega) (by omega)) (inR_ofNat _ _ _ (by omega) (by omega))
        (inR_ofNat _ _ _ (by omega) (by omega))
  · rw [encode4 cp h1 h2 h3]
    by_cases c1 : cp < 0x40000
    · exact UChar.utf8_4_f0 _ _ _ _ (inR_ofNat _ _ _ (by omega) (by omega)) (inR_ofNat _ _ _ (by omega) (by omega))
        (inR_ofNat _ _ _ (by omega) (by omega)) (inR_ofNat _ _ _ (by omega) (by omega))
    by_cases c2 : cp < 0x100000
    · exact UChar.utf8_4_f1_f3 _ _ _ _ (inR_ofNat _ _ _ (by omega) (by omega)) (inR_ofNat _ _ _ (by omega) (by omega))
        (inR_ofNat _ _ _ (by omega) (by omega)) (inR_ofNat _ _ _ (by omega) (by omega))
    · exact UChar.utf8_4_f4 _ _ _ _ (inR_ofNat _ _ _ (by omega) (by omega)) (inR_ofNat _ _ _ (by omega) (by omega))
        (inR_ofNat _ _ _ (by omega) (by omega)) (inR_ofNat _ _ _ (by omega) (by omega))

end Abverif.Utf8
