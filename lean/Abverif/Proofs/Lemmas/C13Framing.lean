import Abverif.Model.RawSocket
/-
C13 helper lemmas: the receive loop of the length-prefixed framing equals the whole-stream parser
under every segmentation. Strategy: rewrite-form step lemmas for `parse` / `loop`; fuel irrelevance;
`parse_append`; `loop = canon ∘ parse` when the saved header is consistent; induction over the reads.
-/
namespace Abverif.RawSocket

/-! ### split4 -/

theorem split4_none {b : Bytes} : split4 b = none ↔ b.length < 4 := by
  match b with
  | [] => simp [split4]
  | [_] => simp [split4]
  | [_, _] => simp [split4]
  | [_, _, _] => simp [split4]
  | _ :: _ :: _ :: _ :: _ => simp [split4]

theorem split4_some {b : Bytes} {a0 a1 a2 a3 : UInt8} {r : Bytes} :
    split4 b = some (a0, a1, a2, a3, r) ↔ b = a0 :: a1 :: a2 :: a3 :: r := by
  match b with
  | [] => simp [split4]
  | [_] => simp [split4]
  | [_, _] => simp [split4]
  | [_, _, _] => simp [split4]
  | _ :: _ :: _ :: _ :: _ =>
    simp only [split4, Option.some.injEq, Prod.mk.injEq, List.cons.injEq]

theorem split4_append {b : Bytes} {a0 a1 a2 a3 : UInt8} {r : Bytes} (x : Bytes)
    (h : split4 b = some (a0, a1, a2, a3, r)) : split4 (b ++ x) = some (a0, a1, a2, a3, r ++ x) := by
  rw [split4_some] at h ⊢; subst h; rfl

/-! ### `parse` in rewrite form -/

section steps
variable (F : Framing)

theorem parse_none {s : Bytes} (n : Nat) (h : split4 s = none) : parse F (n + 1) s = ([], some s) := by
  simp [parse, h]

theorem parse_reject {s : Bytes} {b0 b1 b2 b3 : UInt8} {rest : Bytes} {evs : List Ev} (n : Nat)
    (h : split4 s = some (b0, b1, b2, b3, rest)) (hj : F.judge b0 b1 b2 b3 = .reject evs) :
    parse F (n + 1) s = (evs, none) := by
  simp [parse, h, hj]

theorem parse_short {s : Bytes} {b0 b1 b2 b3 : UInt8} {rest : Bytes} {k l : Nat} (n : Nat)
    (h : split4 s = some (b0, b1, b2, b3, rest)) (hj : F.judge b0 b1 b2 b3 = .frame k l)
    (hl : ¬ l ≤ rest.length) : parse F (n + 1) s = ([], some s) := by
  simp [parse, h, hj, hl]

theorem parse_raise {s : Bytes} {b0 b1 b2 b3 : UInt8} {rest : Bytes} {k l : Nat} (n : Nat)
    (h : split4 s = some (b0, b1, b2, b3, rest)) (hj : F.judge b0 b1 b2 b3 = .frame k l)
    (hl : l ≤ rest.length) (hr : (F.dispatch k (rest.take l)).2 = true) :
    parse F (n + 1) s = ((F.dispatch k (rest.take l)).1, none) := by
  simp [parse, h, hj, hl, hr]

theorem parse_ok {s : Bytes} {b0 b1 b2 b3 : UInt8} {rest : Bytes} {k l : Nat} (n : Nat)
    (h : split4 s = some (b0, b1, b2, b3, rest)) (hj : F.judge b0 b1 b2 b3 = .frame k l)
    (hl : l ≤ rest.length) (hr : (F.dispatch k (rest.take l)).2 = false) :
    parse F (n + 1) s = ((F.dispatch k (rest.take l)).1 ++ (parse F n (rest.drop l)).1,
                          (parse F n (rest.drop l)).2) := by
  simp [parse, h, hj, hl, hr]

end steps

/-- enough fuel is enough: the result does not depend on how much more there is -/
theorem parse_fuel (F : Framing) : ∀ (n m : Nat) (s : Bytes), s.length < n → s.length < m →
    parse F n s = parse F m s := by
  intro n
  induction n with
  | zero => intro m s h; omega
  | succ n ih =>
    intro m s hn hm
    cases m with
    | zero => omega
    | succ m =>
      cases h4 : split4 s with
      | none => rw [parse_none F n h4, parse_none F m h4]
      | some q =>
        obtain ⟨b0, b1, b2, b3, rest⟩ := q
        have hs := split4_some.mp h4
        cases hj : F.judge b0 b1 b2 b3 with
        | reject evs => rw [parse_reject F n h4 hj, parse_reject F m h4 hj]
        | frame k l =>
          by_cases hl : l ≤ rest.length
          · cases hr : (F.dispatch k (rest.take l)).2 with
            | true => rw [parse_raise F n h4 hj hl hr, parse_raise F m h4 hj hl hr]
            | false =>
              rw [parse_ok F n h4 hj hl hr, parse_ok F m h4 hj hl hr]
              have hlen : (rest.drop l).length < n ∧ (rest.drop l).length < m := by
                subst hs; simp at hn hm ⊢; omega
              rw [ih m (rest.drop l) hlen.1 hlen.2]
          · rw [parse_short F n h4 hj hl, parse_short F m h4 hj hl]

theorem parseStream_eq (F : Framing) (s : Bytes) (n : Nat) (h : s.length < n) :
    parseStream F s = parse F n s := parse_fuel F _ _ s (by omega) h

/-- the whole-stream parse of `a ++ b` is the parse of `a` continued on its unconsumed rest `++ b` -/
theorem parse_append (F : Framing) : ∀ (n : Nat) (a b : Bytes), a.length < n →
    parseStream F (a ++ b) =
      (match parse F n a with
       | (e1, none) => (e1, none)
       | (e1, some r1) => (e1 ++ (parseStream F (r1 ++ b)).1, (parseStream F (r1 ++ b)).2)) := by
  intro n
  induction n with
  | zero => intro a b h; omega
  | succ n ih =>
    intro a b hn
    cases h4 : split4 a with
    | none => rw [parse_none F n h4]; simp
    | some q =>
      obtain ⟨b0, b1, b2, b3, rest⟩ := q
      have hs := split4_some.mp h4
      have h4' := split4_append b h4
      have hfuel : parseStream F (a ++ b) = parse F ((a ++ b).length + 1) (a ++ b) := rfl
      cases hj : F.judge b0 b1 b2 b3 with
      | reject evs => rw [parse_reject F n h4 hj, hfuel, parse_reject F _ h4' hj]
      | frame k l =>
        by_cases hl : l ≤ rest.length
        · have hl' : l ≤ (rest ++ b).length := by simp; omega
          have htake : (rest ++ b).take l = rest.take l := by
            rw [List.take_append_of_le_length hl]
          have hdrop : (rest ++ b).drop l = rest.drop l ++ b := by
            rw [List.drop_append_of_le_length hl]
          cases hr : (F.dispatch k (rest.take l)).2 with
          | true =>
            rw [parse_raise F n h4 hj hl hr, hfuel, parse_raise F _ h4' hj hl' (by rw [htake]; exact hr), htake]
          | false =>
            rw [parse_ok F n h4 hj hl hr, hfuel, parse_ok F _ h4' hj hl' (by rw [htake]; exact hr), htake, hdrop]
            have hlen : (rest.drop l).length < n := by subst hs; simp at hn ⊢; omega
            have hlen2 : (rest.drop l ++ b).length < (a ++ b).length := by
              subst hs; simp; omega
            rw [← parseStream_eq F _ _ hlen2, ih (rest.drop l) b hlen]
            cases hp : parse F n (rest.drop l) with
            | mk e1 r =>
              cases r with
              | none => simp
              | some r1 => simp [List.append_assoc]
        · rw [parse_short F n h4 hj hl]; simp

/-- every event of a parse comes out of a header verdict or out of a dispatch: a predicate that holds of
all of those holds of every event of the stream -/
theorem parse_events_src (F : Framing) (P : Ev → Prop)
    (hjP : ∀ b0 b1 b2 b3 evs, F.judge b0 b1 b2 b3 = .reject evs → ∀ e ∈ evs, P e)
    (hdP : ∀ k p, ∀ e ∈ (F.dispatch k p).1, P e) :
    ∀ (n : Nat) (s : Bytes), ∀ e ∈ (parse F n s).1, P e := by
  intro n
  induction n with
  | zero => intro s e he; simp [parse] at he
  | succ n ih =>
    intro s e he
    cases h4 : split4 s with
    | none => rw [parse_none F n h4] at he; simp at he
    | some q =>
      obtain ⟨b0, b1, b2, b3, rest⟩ := q
      cases hj : F.judge b0 b1 b2 b3 with
      | reject evs =>
        rw [parse_reject F n h4 hj] at he
        exact hjP b0 b1 b2 b3 evs hj e he
      | frame k l =>
        by_cases hl : l ≤ rest.length
        · cases hr : (F.dispatch k (rest.take l)).2 with
          | true =>
            rw [parse_raise F n h4 hj hl hr] at he
            exact hdP _ _ e he
          | false =>
            rw [parse_ok F n h4 hj hl hr] at he
            rcases List.mem_append.mp he with h | h
            · exact hdP _ _ e h
            · exact ih _ e h
        · rw [parse_short F n h4 hj hl] at he; simp at he

/-- a buffer is settled when its whole-stream parse consumes nothing and refuses nothing -/
def Settled (F : Framing) (b : Bytes) : Prop := parseStream F b = ([], some b)

/-- what the parser leaves unconsumed is settled -/
theorem parse_rest_settled (F : Framing) : ∀ (n : Nat) (s : Bytes) (e : List Ev) (r : Bytes),
    s.length < n → parse F n s = (e, some r) → Settled F r := by
  intro n
  induction n with
  | zero => intro s e r h; omega
  | succ n ih =>
    intro s e r hn hp
    cases h4 : split4 s with
    | none =>
      rw [parse_none F n h4] at hp
      simp only [Prod.mk.injEq, Option.some.injEq] at hp
      obtain ⟨_, rfl⟩ := hp
      exact parse_none F _ h4
    | some q =>
      obtain ⟨b0, b1, b2, b3, rest⟩ := q
      have hs := split4_some.mp h4
      cases hj : F.judge b0 b1 b2 b3 with
      | reject evs => rw [parse_reject F n h4 hj] at hp; simp at hp
      | frame k l =>
        by_cases hl : l ≤ rest.length
        · cases hr : (F.dispatch k (rest.take l)).2 with
          | true => rw [parse_raise F n h4 hj hl hr] at hp; simp at hp
          | false =>
            rw [parse_ok F n h4 hj hl hr] at hp
            have hlen : (rest.drop l).length < n := by subst hs; simp at hn ⊢; omega
            cases hq : parse F n (rest.drop l) with
            | mk e1 r1 =>
              rw [hq] at hp
              simp only [Prod.mk.injEq] at hp
              exact ih (rest.drop l) e1 r hlen (by rw [hq, hp.2])
        · rw [parse_short F n h4 hj hl] at hp
          simp only [Prod.mk.injEq, Option.some.injEq] at hp
          obtain ⟨_, rfl⟩ := hp
          exact parse_short F _ h4 hj hl

/-! ### the model loop -/

/-- the saved header a settled buffer carries: set exactly when a judged header waits for its payload -/
def hdrOf (F : Framing) (buf : Bytes) : Option (Nat × Nat) :=
  match split4 buf with
  | some (b0, b1, b2, b3, rest) =>
    match F.judge b0 b1 b2 b3 with
    | .frame k l => if l ≤ rest.length then none else some (k, l)
    | .reject _ => none
  | none => none

/-- the saved header, if any, is the judgement of the first four octets of the buffer -/
def CacheOK (F : Framing) (h : Option (Nat × Nat)) (buf : Bytes) : Prop :=
  match h with
  | none => True
  | some (k, l) => ∃ b0 b1 b2 b3 rest, split4 buf = some (b0, b1, b2, b3, rest) ∧ F.judge b0 b1 b2 b3 = .frame k l

theorem hdrOf_short (F : Framing) {buf : Bytes} {b0 b1 b2 b3 : UInt8} {rest : Bytes} {k l : Nat}
    (h4 : split4 buf = some (b0, b1, b2, b3, rest)) (hj : F.judge b0 b1 b2 b3 = .frame k l)
    (hl : ¬ l ≤ rest.length) : hdrOf F buf = some (k, l) := by
  simp [hdrOf, h4, hj, hl]

theorem cacheOK_hdrOf (F : Framing) (buf : Bytes) : CacheOK F (hdrOf F buf) buf := by
  cases h4 : split4 buf with
  | none => simp [hdrOf, h4, CacheOK]
  | some q =>
    obtain ⟨b0, b1, b2, b3, rest⟩ := q
    cases hj : F.judge b0 b1 b2 b3 with
    | reject evs => simp [hdrOf, h4, hj, CacheOK]
    | frame k l =>
      by_cases hl : l ≤ rest.length
      · simp [hdrOf, h4, hj, hl, CacheOK]
      · rw [hdrOf_short F h4 hj hl]
        exact ⟨b0, b1, b2, b3, rest, h4, hj⟩

theorem cacheOK_append (F : Framing) {h : Option (Nat × Nat)} {buf : Bytes} (x : Bytes)
    (hc : CacheOK F h buf) : CacheOK F h (buf ++ x) := by
  cases h with
  | none => trivial
  | some kl =>
    obtain ⟨k, l⟩ := kl
    obtain ⟨b0, b1, b2, b3, rest, h4, hj⟩ := hc
    exact ⟨b0, b1, b2, b3, rest ++ x, split4_append x h4, hj⟩

theorem verdict_eq (F : Framing) {h : Option (Nat × Nat)} {buf : Bytes} {b0 b1 b2 b3 : UInt8} {rest : Bytes}
    (hc : CacheOK F h buf) (h4 : split4 buf = some (b0, b1, b2, b3, rest)) :
    verdict F h b0 b1 b2 b3 = F.judge b0 b1 b2 b3 := by
  cases h with
  | none => rfl
  | some kl =>
    obtain ⟨k, l⟩ := kl
    obtain ⟨c0, c1, c2, c3, r', h4', hj'⟩ := hc
    rw [h4] at h4'
    simp only [Option.some.injEq, Prod.mk.injEq] at h4'
    obtain ⟨rfl, rfl, rfl, rfl, rfl⟩ := h4'
    simp [verdict, hj']

/-- model result that corresponds to a Spec result -/
def canon (F : Framing) (r : List Ev × Option Bytes) : Option PSt × List Ev :=
  (r.2.map (fun b => (⟨b, hdrOf F b⟩ : PSt)), r.1)

/-- with a consistent saved header the loop computes the whole-stream parse of its buffer -/
theorem loop_eq_parse (F : Framing) : ∀ (n : Nat) (h : Option (Nat × Nat)) (buf : Bytes),
    buf.length < n → CacheOK F h buf → loop F n h buf = canon F (parse F n buf) := by
  intro n
  induction n with
  | zero => intro h buf hn; omega
  | succ n ih =>
    intro h buf hn hc
    cases h4 : split4 buf with
    | none =>
      rw [parse_none F n h4]
      have hh : h = none := by
        cases h with
        | none => rfl
        | some kl =>
          obtain ⟨k, l⟩ := kl
          obtain ⟨_, _, _, _, _, h4', _⟩ := hc
          rw [h4] at h4'; cases h4'
      subst hh
      simp [loop, h4, canon, hdrOf]
    | some q =>
      obtain ⟨b0, b1, b2, b3, rest⟩ := q
      have hs := split4_some.mp h4
      have hv := verdict_eq F hc h4
      cases hj : F.judge b0 b1 b2 b3 with
      | reject evs =>
        rw [parse_reject F n h4 hj]
        simp only [loop, h4, hv, hj, canon, Option.map_none]
      | frame k l =>
        by_cases hl : l ≤ rest.length
        · cases hr : (F.dispatch k (rest.take l)).2 with
          | true =>
            rw [parse_raise F n h4 hj hl hr]
            simp [loop, h4, hv, hj, hl, hr, canon]
          | false =>
            rw [parse_ok F n h4 hj hl hr]
            have hlen : (rest.drop l).length < n := by subst hs; simp at hn ⊢; omega
            have := ih none (rest.drop l) hlen trivial
            simp only [loop, h4, hv, hj, hl, hr, if_true, this, canon]
            simp
        · rw [parse_short F n h4 hj hl]
          simp only [loop, h4, hv, hj, hl, if_false, canon, Option.map_some]
          simp [hdrOf, h4, hj, hl]

/-- invariant of a live receive state between reads -/
def Inv (F : Framing) (s : PSt) : Prop := s.hdr = hdrOf F s.buf ∧ Settled F s.buf

theorem inv_init (F : Framing) : Inv F PSt.init := by
  constructor
  · simp [PSt.init, hdrOf, split4]
  · simp [Settled, parseStream, PSt.init, parse, split4]

/-- one read = whole-stream parse of (buffer ++ read) -/
theorem feed_eq (F : Framing) (s : PSt) (d : Bytes) (hi : Inv F s) :
    feed F s d = canon F (parseStream F (s.buf ++ d)) := by
  unfold feed parseStream
  apply loop_eq_parse F _ _ _ (by omega)
  rw [hi.1]
  exact cacheOK_append F d (cacheOK_hdrOf F s.buf)

theorem inv_canon (F : Framing) (s : Bytes) (e : List Ev) (r : Bytes)
    (h : parseStream F s = (e, some r)) : Inv F ⟨r, hdrOf F r⟩ :=
  ⟨rfl, parse_rest_settled F _ s e r (by omega) h⟩

/-- **every segmentation**: feeding the reads one by one gives the whole-stream parse of their concatenation -/
theorem feedAll_eq_parse (F : Framing) : ∀ (cs : List Bytes) (s : PSt), Inv F s →
    feedAll F (some s) cs = canon F (parseStream F (s.buf ++ cs.flatten)) := by
  intro cs
  induction cs with
  | nil =>
    intro s hi
    obtain ⟨bf, hd⟩ := s
    simp only [feedAll, List.flatten_nil, List.append_nil]
    have h2 : parseStream F bf = ([], some bf) := hi.2
    have h1 : hd = hdrOf F bf := hi.1
    rw [h2]
    simp [canon, h1]
  | cons c cs ih =>
    intro s hi
    have happ := parse_append F _ (s.buf ++ c) cs.flatten (Nat.lt_succ_self _)
    rw [show parse F ((s.buf ++ c).length + 1) (s.buf ++ c) = parseStream F (s.buf ++ c) from rfl] at happ
    simp only [feedAll, List.flatten_cons]
    rw [feed_eq F s c hi, ← List.append_assoc, happ]
    cases hp : parseStream F (s.buf ++ c) with
    | mk e1 r =>
      cases r with
      | none => simp [canon, feedAll]
      | some r1 =>
        have hi1 := inv_canon F _ e1 r1 hp
        simp only [canon, Option.map_some]
        rw [ih ⟨r1, hdrOf F r1⟩ hi1]
        simp [canon]

/-- the same for the model loop under any segmentation -/
theorem feedAll_events_src (F : Framing) (P : Ev → Prop)
    (hjP : ∀ b0 b1 b2 b3 evs, F.judge b0 b1 b2 b3 = .reject evs → ∀ e ∈ evs, P e)
    (hdP : ∀ k p, ∀ e ∈ (F.dispatch k p).1, P e) (cs : List Bytes) :
    ∀ e ∈ (feedAll F (some PSt.init) cs).2, P e := by
  intro e he
  rw [feedAll_eq_parse F cs _ (inv_init F)] at he
  exact parse_events_src F P hjP hdP _ _ e he

/-- corollary: two segmentations of the same stream are indistinguishable -/
theorem feedAll_chunking (F : Framing) (cs cs' : List Bytes) (h : cs.flatten = cs'.flatten) :
    feedAll F (some PSt.init) cs = feedAll F (some PSt.init) cs' := by
  rw [feedAll_eq_parse F cs _ (inv_init F), feedAll_eq_parse F cs' _ (inv_init F), h]

/-- a live state reached from `init` satisfies the invariant -/
theorem inv_feedAll (F : Framing) (cs : List Bytes) (s : PSt) (hi : Inv F s) (s' : PSt)
    (h : (feedAll F (some s) cs).1 = some s') : Inv F s' := by
  rw [feedAll_eq_parse F cs s hi] at h
  cases hp : parseStream F (s.buf ++ cs.flatten) with
  | mk e r =>
    rw [hp] at h
    cases r with
    | none => simp [canon] at h
    | some r1 =>
      simp only [canon, Option.map_some, Option.some.injEq] at h
      subst h
      exact inv_canon F _ e r1 hp

end Abverif.RawSocket
