import Abverif.Proofs.Lemmas.SessLiftX
/-
The request/reply side of the session model (the six request APIs, cancel, the reply branches of `onMessage`, EVENT
dispatch) neither touches the lifecycle / callee fields of the state (`Sess.life`) nor produces a lifecycle / callee
output (`lifeOut`) — except through what user code calls. A relation that only reads those fields and outputs gets
that whole side from the three facts of `LiftQ` (what `join()`, `leave()`, `disconnect()` do to it).
-/
namespace Abverif.Session
open Abverif.SessCodes

structure Life where
  mode : Sched
  transport : Bool
  sessionId : Option Nat
  goodbyeSent : Bool
  invs : List (ReqId × InvRec)
  faults : List SendOut
  progs : List ReqId
  ended : Bool
deriving DecidableEq

def Sess.life (s : Sess) : Life :=
  { mode := s.mode, transport := s.transport, sessionId := s.sessionId, goodbyeSent := s.goodbyeSent, invs := s.invs,
    faults := s.faults, progs := s.progs, ended := s.ended }

/-- outputs of the lifecycle and of the callee side -/
def lifeOut : SOut → Bool
  | .hook _ _ | .fire _ | .endpoint _ _ _ _ _ | .sendFail _ _ | .lost _ | .later _ | .transportClose => true
  | .send m => lcMsg m.typ
  | _ => false

/-- a step of the request/reply side: lifecycle fields unchanged, no lifecycle / callee output -/
structure Quiet (s : Sess) (o : List SOut) (s' : Sess) : Prop where
  life : s'.life = s.life
  outs : ∀ x ∈ o, lifeOut x = false
  queue : ∀ x ∈ s'.cbq, x ∈ s.cbq ∨ lifeOut x = false     -- what it queues is no lifecycle / callee output either

theorem Quiet.refl (s : Sess) : Quiet s [] s := ⟨rfl, by simp, fun x hx => Or.inl hx⟩

theorem Quiet.trans {s1 s2 s3 : Sess} {o1 o2 : List SOut} (h1 : Quiet s1 o1 s2) (h2 : Quiet s2 o2 s3) : Quiet s1 (o1 ++ o2) s3 :=
  ⟨h2.1.trans h1.1, fun x hx => by rcases List.mem_append.mp hx with h | h; exact h1.2 x h; exact h2.2 x h,
   fun x hx => by
    rcases h2.3 x hx with h | h
    · exact h1.3 x h
    · exact Or.inr h⟩

/-- a step that changes neither the lifecycle fields nor the queue -/
theorem Quiet.same {s s' : Sess} {o : List SOut} (h : s'.life = s.life) (hq : s'.cbq = s.cbq) (ho : ∀ x ∈ o, lifeOut x = false) :
    Quiet s o s' := ⟨h, ho, fun x hx => Or.inl (hq ▸ hx)⟩

theorem Quiet.congr_left {s s1 s' : Sess} {o : List SOut} (q : Quiet s1 o s') (h : s1.life = s.life) (hq : s1.cbq = s.cbq) : Quiet s o s' :=
  ⟨q.1.trans h, q.2, fun x hx => hq ▸ q.3 x hx⟩

theorem Quiet.cons {s s' : Sess} {o : List SOut} {x : SOut} (hx : lifeOut x = false) (q : Quiet s o s') : Quiet s (x :: o) s' :=
  ⟨q.1, fun y hy => by rcases List.mem_cons.mp hy with h | h; exact h ▸ hx; exact q.2 y h, q.3⟩

theorem Quiet.map_toCaught {s s' : Sess} {o : List SOut} (q : Quiet s o s') : Quiet s (o.map toCaught) s' := by
  refine ⟨q.1, fun x hx => ?_, q.3⟩
  obtain ⟨y, hy, rfl⟩ := List.mem_map.mp hx
  have := q.2 y hy
  cases y <;> simp_all [toCaught, lifeOut]

theorem setTbl_life (s : Sess) (k : Kind) (t : Table) : (s.setTbl k t).life = s.life := by cases k <;> rfl
theorem setTbl_cbq' (s : Sess) (k : Kind) (t : Table) : (s.setTbl k t).cbq = s.cbq := by cases k <;> rfl

theorem emitCb_quiet (s : Sess) {o : SOut} (ho : lifeOut o = false) : Quiet s (emitCb s o).2 (emitCb s o).1 := by
  unfold emitCb
  split
  · exact Quiet.same rfl rfl (by simp [ho])
  · refine ⟨rfl, by simp, fun x hx => ?_⟩
    rcases List.mem_append.mp hx with h | h
    · exact Or.inl h
    · simp at h; subst h; exact Or.inr ho

theorem emitCb_life (s : Sess) (o : SOut) : (emitCb s o).1.life = s.life := by
  unfold emitCb; split <;> rfl

theorem settle_quiet (s : Sess) (f : FutId) (o : Outcome) : Quiet s (settle s f o).2 (settle s f o).1 := by
  unfold settle
  split
  · exact Quiet.same rfl rfl (by simp [lifeOut])
  · split
    · exact Quiet.same rfl rfl (by simp [lifeOut])
    · split
      · exact Quiet.cons rfl (Quiet.congr_left (emitCb_quiet _ rfl) rfl rfl)
      · exact Quiet.same rfl rfl (by simp [lifeOut])

theorem rejectList_quiet (s : Sess) (o : Outcome) (fs : List FutId) : Quiet s (rejectList s o fs).2 (rejectList s o fs).1 := by
  induction fs generalizing s with
  | nil => exact Quiet.refl s
  | cons f fs ih =>
    rw [rejectList_cons]
    split
    · exact ih s
    · exact (settle_quiet s f o).trans (ih _)

theorem unwatch_life (s : Sess) (f : FutId) : (s.unwatch f).life = s.life := by
  unfold Sess.unwatch; split <;> rfl
theorem unwatch_cbq' (s : Sess) (f : FutId) : (s.unwatch f).cbq = s.cbq := by
  unfold Sess.unwatch; split <;> rfl

theorem sendReq_quiet (s : Sess) (k : Kind) (id : ReqId) (m : OutMsg) (f : Option FutId) (keep : Bool) (snd : SendRes)
    (hm : lcMsg m.typ = false) : Quiet s (sendReq s k id m f keep snd).2 (sendReq s k id m f keep snd).1 := by
  have houts : ∀ (o2 : SOut), lifeOut o2 = false → ∀ x ∈ [SOut.send m, o2], lifeOut x = false := by
    intro o2 h2 x hx
    simp at hx
    rcases hx with hx | hx
    · subst hx; simpa [lifeOut] using hm
    · subst hx; exact h2
  cases snd
  · simp only [sendReq]
    exact Quiet.same rfl rfl (houts _ (by cases f <;> rfl))
  · simp only [sendReq]
    refine Quiet.same ?_ ?_ (houts _ rfl)
    · cases f with
      | none => split <;> first | rfl | exact setTbl_life _ _ _
      | some f =>
        split
        · exact unwatch_life _ _
        · exact (setTbl_life _ _ _).trans (unwatch_life _ _)
    · cases f with
      | none => split <;> first | rfl | exact setTbl_cbq' _ _ _
      | some f =>
        split
        · exact unwatch_cbq' _ _
        · exact (setTbl_cbq' _ _ _).trans (unwatch_cbq' _ _)

theorem request_quiet (s : Sess) (k : Kind) (mkReq : FutId → Req) (mkMsg : ReqId → OutMsg) (keep : Bool) (snd : SendRes)
    (hm : ∀ id, lcMsg (mkMsg id).typ = false) :
    Quiet s (request s k mkReq mkMsg keep snd).2 (request s k mkReq mkMsg keep snd).1 := by
  unfold request
  refine Quiet.congr_left (sendReq_quiet _ _ _ _ _ _ _ (hm _)) ?_ ?_
  · exact setTbl_life _ _ _
  · exact setTbl_cbq' _ _ _

theorem futureSuccess_quiet (s : Sess) (k : Kind) (o : Outcome) : Quiet s (futureSuccess s k o).2 (futureSuccess s k o).1 := by
  unfold futureSuccess
  have h := emitCb_quiet { s with futs := s.futs ++ [{ kind := k, cell := some o, count := 1 }] } (o := .callback s.futs.length o) rfl
  refine ⟨h.1, ?_, h.3⟩
  intro x hx
  simp only [List.cons_append, List.nil_append, List.mem_cons] at hx
  rcases hx with hx | hx | hx
  · subst hx; rfl
  · subst hx; rfl
  · exact h.2 x hx

theorem cancelMsgs_quiet (s : Sess) (f : FutId) (k : Kind) : ∀ x ∈ cancelMsgs s f k, lifeOut x = false := by
  intro x hx
  unfold cancelMsgs at hx
  split at hx
  · split at hx <;> simp at hx
    subst hx; rfl
  · simp at hx

theorem apiCancel_quiet (s : Sess) (f : FutId) : Quiet s (apiCancel s f).2 (apiCancel s f).1 := by
  unfold apiCancel
  split
  · exact Quiet.same rfl rfl (by simp [lifeOut])
  · split
    · exact Quiet.refl s
    · split
      · exact Quiet.same rfl rfl (by simp [lifeOut])
      · next x _ _ _ =>
        unfold cancelDo
        split
        · refine Quiet.same rfl rfl (fun y hy => ?_)
          rcases List.mem_append.mp hy with hy | hy
          · exact cancelMsgs_quiet s f x.kind y hy
          · simp at hy; rcases hy with hy | hy <;> subst hy <;> rfl
        · refine ⟨rfl, by simp [lifeOut], fun y hy => ?_⟩
          simp only [List.mem_append, List.mem_singleton] at hy
          rcases hy with (hy | hy) | hy
          · exact Or.inl hy
          · exact Or.inr (cancelMsgs_quiet s f x.kind y hy)
          · subst hy; exact Or.inr rfl

/-- the request APIs and `cancel` -/
def Api.isLife : Api → Bool
  | .join | .leave | .disconnect => true
  | _ => false

theorem apiStep_quiet (s : Sess) (a : Api) (ha : a.isLife = false) : Quiet s (apiStep s a).2 (apiStep s a).1 := by
  cases a with
  | call u a k o r =>
    simp only [apiStep, apiCall]; split
    · exact Quiet.same rfl rfl (by simp [lifeOut])
    · exact request_quiet _ _ _ _ _ _ (fun _ => rfl)
  | publish u a k o r =>
    simp only [apiStep, apiPublish]; split
    · exact Quiet.same rfl rfl (by simp [lifeOut])
    · split
      · exact request_quiet _ _ _ _ _ _ (fun _ => rfl)
      · exact Quiet.congr_left (sendReq_quiet _ _ _ _ _ _ _ rfl) rfl rfl
  | subscribe h t o r =>
    simp only [apiStep, apiSubscribe]; split
    · exact Quiet.same rfl rfl (by simp [lifeOut])
    · exact request_quiet _ _ _ _ _ _ (fun _ => rfl)
  | register h t o r =>
    simp only [apiStep, apiRegister]; split
    · exact Quiet.same rfl rfl (by simp [lifeOut])
    · exact request_quiet _ _ _ _ _ _ (fun _ => rfl)
  | unsubscribe obj r =>
    simp only [apiStep, apiUnsubscribe]; split
    · exact Quiet.same rfl rfl (by simp [lifeOut])
    · split
      · exact Quiet.same rfl rfl (by simp [lifeOut])
      · split
        · exact Quiet.congr_left (request_quiet _ _ _ _ _ _ (fun _ => rfl)) rfl rfl
        · exact Quiet.congr_left (futureSuccess_quiet _ _ _) rfl rfl
  | unregister obj r =>
    simp only [apiStep, apiUnregister]; split
    · exact Quiet.same rfl rfl (by simp [lifeOut])
    · split
      · exact Quiet.same rfl rfl (by simp [lifeOut])
      · exact request_quiet _ _ _ _ _ _ (fun _ => rfl)
  | cancel f => exact apiCancel_quiet s f
  | join => simp [Api.isLife] at ha
  | leave => simp [Api.isLife] at ha
  | disconnect => simp [Api.isLife] at ha

theorem popReply_quiet (s : Sess) (kind : Kind) (id : ReqId) (k : Sess → Req → Sess × List SOut)
    (hk : ∀ s1 r, Quiet s1 (k s1 r).2 (k s1 r).1) : Quiet s (popReply s kind id k).2 (popReply s kind id k).1 := by
  unfold popReply
  split
  · exact Quiet.same rfl rfl (by simp [lifeOut])
  · simp only []
    split
    · exact Quiet.same (setTbl_life _ _ _) (setTbl_cbq' _ _ _) (by simp)
    · exact Quiet.congr_left (hk _ _) (setTbl_life _ _ _) (setTbl_cbq' _ _ _)

/-! ## relations that read only the lifecycle / callee fields -/

structure LiftQ (R : Sess → List SOut → Sess → Prop) (P : Sess → Prop) : Prop where
  refl : ∀ {s}, P s → R s [] s
  trans : ∀ {s1 o1 s2 o2 s3}, R s1 o1 s2 → R s2 o2 s3 → R s1 (o1 ++ o2) s3
  post : ∀ {s o s'}, P s → R s o s' → P s'
  caught : ∀ {s o s'}, R s o s' → R s (o.map toCaught) s'
  quiet : ∀ {s o s'}, P s → Quiet s o s' → R s o s'
  lifeApi : ∀ {s} (a : Api), a.isLife = true → P s → R s (apiStep s a).2 (apiStep s a).1

variable {R : Sess → List SOut → Sess → Prop} {P : Sess → Prop}

theorem LiftQ.toLift (L : LiftQ R P) : Lift R P where
  refl := L.refl
  trans := L.trans
  post := L.post
  caught := L.caught
  api := fun a h => by
    by_cases ha : a.isLife = true
    · exact L.lifeApi a ha h
    · exact L.quiet h (apiStep_quiet _ a (by simpa using ha))
  userError := fun h => L.quiet h (emitCb_quiet _ rfl)
  invoke := fun _ _ h _ => L.quiet h (Quiet.same rfl rfl (by simp [lifeOut]))

/-- the reply branches of an established session, EVENT dispatch included (everything but GOODBYE, INVOCATION,
INTERRUPT) -/
def InMsg.isReplySide : InMsg → Bool
  | .goodbye | .invocation _ _ _ _ | .interrupt _ => false
  | _ => true

theorem LiftQ.established (L : LiftQ R P) {s : Sess} (hs : P s) (beh : List HAct) (m : InMsg) (hm : m.isReplySide = true) :
    R s (onEstablished s beh m).2 (onEstablished s beh m).1 := by
  have raise1 : ∀ e : Exc, R s [.raise_ e] s := fun e => L.quiet hs (Quiet.same rfl rfl (by simp [lifeOut]))
  cases m with
  | goodbye => simp [InMsg.isReplySide] at hm
  | invocation _ _ _ _ => simp [InMsg.isReplySide] at hm
  | interrupt _ => simp [InMsg.isReplySide] at hm
  | event sub pub p =>
    simp only [onEstablished]
    split
    · exact raise1 _
    · exact L.toLift.dispatch hs _ _ _ _ _
  | published id pub =>
    simp only [onEstablished]
    exact L.quiet hs (popReply_quiet _ _ _ _ (fun s1 r => settle_quiet _ _ _))
  | subscribed id sub =>
    simp only [onEstablished]
    exact L.quiet hs (popReply_quiet _ _ _ _ (fun s1 r => Quiet.congr_left (settle_quiet _ _ _) rfl rfl))
  | unsubscribed id =>
    simp only [onEstablished]
    exact L.quiet hs (popReply_quiet _ _ _ _ (fun s1 r => Quiet.congr_left (settle_quiet _ _ _) rfl rfl))
  | result id p progress =>
    simp only [onEstablished]
    split
    · exact raise1 _
    · split
      · split
        · exact L.refl hs
        · exact L.trans (L.quiet hs (o := [_]) (Quiet.same rfl rfl (by simp [lifeOut]))) (L.toLift.runAct hs none _)
      · split
        · exact L.quiet hs (Quiet.same rfl rfl (by simp))
        · exact L.quiet hs (Quiet.congr_left (settle_quiet _ _ _) rfl rfl)
  | registered id reg =>
    simp only [onEstablished]
    refine L.quiet hs (popReply_quiet _ _ _ _ (fun s1 r => ?_))
    split
    · exact Quiet.congr_left (settle_quiet _ _ _) rfl rfl
    · exact Quiet.same rfl rfl (by simp [lifeOut])
  | unregistered id reg =>
    simp only [onEstablished]
    split
    · split
      · exact raise1 _
      · exact L.refl hs
    · exact L.quiet hs (popReply_quiet _ _ _ _ (fun s1 r => Quiet.congr_left (settle_quiet _ _ _) rfl rfl))
  | error reqType id uri p =>
    simp only [onEstablished]
    split
    · exact raise1 _
    · split
      · exact raise1 _
      · split
        · exact L.quiet hs (Quiet.same (setTbl_life _ _ _) (setTbl_cbq' _ _ _) (by simp))
        · exact L.quiet hs (Quiet.congr_left (settle_quiet _ _ _) (setTbl_life _ _ _) (setTbl_cbq' _ _ _))
  | welcome _ => exact raise1 _
  | abort => exact raise1 _
  | challenge => exact raise1 _
  | other => exact raise1 _

end Abverif.Session
