import Abverif.Model.Ws
/-
Frame lemmas for the send path: every sending primitive changes only the log, the timer sequence number,
the send-tick timer, the send queue, the `triggered` flag and the key counter.
-/
namespace Abverif.Ws

/-- `b` equals `a` except in the fields the send path may touch -/
def SendEq (a b : S) : Prop :=
  b = { a with log := b.log, seq := b.seq, tSendTick := b.tSendTick, sendQueue := b.sendQueue,
               triggered := b.triggered, keyCtr := b.keyCtr, sentOps := b.sentOps }

theorem SendEq.refl (a : S) : SendEq a a := by unfold SendEq; rfl

theorem SendEq.trans {a b c : S} (h1 : SendEq a b) (h2 : SendEq b c) : SendEq a c := by
  unfold SendEq at *
  rw [h2, h1]

theorem SendEq.st {a b : S} (h : SendEq a b) : b.st = a.st := by unfold SendEq at h; rw [h]
theorem SendEq.cfg {a b : S} (h : SendEq a b) : b.cfg = a.cfg := by unfold SendEq at h; rw [h]
theorem SendEq.lost {a b : S} (h : SendEq a b) : b.lost = a.lost := by unfold SendEq at h; rw [h]
theorem SendEq.now {a b : S} (h : SendEq a b) : b.now = a.now := by unfold SendEq at h; rw [h]
theorem SendEq.tCloseHs {a b : S} (h : SendEq a b) : b.tCloseHs = a.tCloseHs := by unfold SendEq at h; rw [h]
theorem SendEq.tServerDrop {a b : S} (h : SendEq a b) : b.tServerDrop = a.tServerDrop := by unfold SendEq at h; rw [h]
theorem SendEq.tPingTimeout {a b : S} (h : SendEq a b) : b.tPingTimeout = a.tPingTimeout := by unfold SendEq at h; rw [h]
theorem SendEq.tPingNext {a b : S} (h : SendEq a b) : b.tPingNext = a.tPingNext := by unfold SendEq at h; rw [h]
theorem SendEq.tOpenHs {a b : S} (h : SendEq a b) : b.tOpenHs = a.tOpenHs := by unfold SendEq at h; rw [h]
theorem SendEq.wasClean {a b : S} (h : SendEq a b) : b.wasClean = a.wasClean := by unfold SendEq at h; rw [h]
theorem SendEq.notClean {a b : S} (h : SendEq a b) : b.notClean = a.notClean := by unfold SendEq at h; rw [h]
theorem SendEq.closedByMe {a b : S} (h : SendEq a b) : b.closedByMe = a.closedByMe := by unfold SendEq at h; rw [h]
theorem SendEq.failedByMe {a b : S} (h : SendEq a b) : b.failedByMe = a.failedByMe := by unfold SendEq at h; rw [h]
theorem SendEq.droppedByMe {a b : S} (h : SendEq a b) : b.droppedByMe = a.droppedByMe := by unfold SendEq at h; rw [h]
theorem SendEq.remoteCloseCode {a b : S} (h : SendEq a b) : b.remoteCloseCode = a.remoteCloseCode := by unfold SendEq at h; rw [h]
theorem SendEq.remoteCloseReason {a b : S} (h : SendEq a b) : b.remoteCloseReason = a.remoteCloseReason := by unfold SendEq at h; rw [h]
theorem SendEq.closeSent {a b : S} (h : SendEq a b) : b.closeSent = a.closeSent := by unfold SendEq at h; rw [h]
theorem SendEq.data {a b : S} (h : SendEq a b) : b.data = a.data := by unfold SendEq at h; rw [h]
theorem SendEq.cur {a b : S} (h : SendEq a b) : b.cur = a.cur := by unfold SendEq at h; rw [h]

theorem emit_SendEq (s : S) (o : Out) : SendEq s (s.emit o) := by unfold SendEq S.emit; rfl

theorem sendTick_SendEq (s : S) : SendEq s (sendTick s) := by
  unfold SendEq sendTick S.timer S.emit
  split
  · dsimp only
    split <;> rfl
  · rfl

theorem trigger_SendEq (s : S) : SendEq s (trigger s) := by
  unfold trigger
  split
  · exact SendEq.trans (by unfold SendEq; rfl) (sendTick_SendEq _)
  · exact SendEq.refl s

theorem sendData_SendEq (s : S) (d : Bytes) (sync : Bool) (chop : Nat) : SendEq s (sendData s d sync chop) := by
  unfold sendData
  split
  · exact SendEq.trans (by unfold SendEq; rfl) (trigger_SendEq _)
  · split
    · exact SendEq.trans (by unfold SendEq; rfl) (trigger_SendEq _)
    · split
      · exact emit_SendEq _ _
      · exact emit_SendEq _ _

theorem drawKey_SendEq (s : S) : SendEq s (drawKey s).1 := by
  unfold drawKey
  split
  · unfold SendEq; rfl
  · exact SendEq.refl _

theorem recordOp_SendEq (s : S) (op : Nat) : SendEq s (recordOp s op) := by unfold SendEq recordOp; rfl

theorem sendFrame_SendEq (s : S) (opcode : Nat) (pl : Bytes) (fin : Bool) (rsv : Nat) (sync : Bool) (chop : Nat) :
    SendEq s (sendFrame s opcode pl fin rsv sync chop) := by
  unfold sendFrame
  dsimp only
  split
  · exact (drawKey_SendEq s).trans (emit_SendEq _ _)
  · exact (drawKey_SendEq s).trans ((recordOp_SendEq _ _).trans (sendData_SendEq _ _ _ _))

theorem sendPing_SendEq (s : S) (pl : Bytes) : SendEq s (sendPing s pl) := by
  unfold sendPing
  split
  · exact SendEq.refl s
  · split
    · exact emit_SendEq _ _
    · exact sendFrame_SendEq _ _ _ _ _ _ _

theorem sendPong_SendEq (s : S) (pl : Bytes) : SendEq s (sendPong s pl) := by
  unfold sendPong
  split
  · exact SendEq.refl s
  · split
    · exact emit_SendEq _ _
    · exact sendFrame_SendEq _ _ _ _ _ _ _

/-- `dropConnection` always ends in CLOSED -/
theorem dropConnection_st (s : S) (a : Bool) : (dropConnection s a).st = .closed := by
  unfold dropConnection
  split
  · simp [S.emit]
  · rename_i h; simpa using h

end Abverif.Ws
