import Abverif.Model.Batch
/-
Batching lemmas (C03): `unbatch (batch ms) = ms` for every number of messages.
-/
namespace Abverif.Batch

theorem splitSep_ne_nil (p : Bytes) : splitSep p ≠ [] := by
  induction p with
  | nil => simp [splitSep]
  | cons b bs ih =>
    unfold splitSep
    split
    · simp
    · split <;> simp

theorem splitSep_cons_ne {b : UInt8} (bs : Bytes) (h : b ≠ SEP) :
    ∃ p ps, splitSep bs = p :: ps ∧ splitSep (b :: bs) = (b :: p) :: ps := by
  have hne := splitSep_ne_nil bs
  cases hs : splitSep bs with
  | nil => exact absurd hs hne
  | cons p ps =>
    refine ⟨p, ps, rfl, ?_⟩
    have : (b == SEP) = false := by simp [h]
    simp [splitSep, this, hs]

theorem splitSep_append_sep (m rest : Bytes) (h : SEP ∉ m) :
    splitSep (m ++ SEP :: rest) = m :: splitSep rest := by
  induction m with
  | nil => simp [splitSep]
  | cons b bs ih =>
    have hb : b ≠ SEP := by intro e; apply h; simp [e]
    have hbs : SEP ∉ bs := by intro e; apply h; simp [e]
    obtain ⟨p, ps, h1, h2⟩ := splitSep_cons_ne (bs ++ SEP :: rest) hb
    rw [List.cons_append, h2]
    rw [ih hbs] at h1
    injection h1 with hp hps
    rw [← hp, ← hps]

theorem splitSep_batchJson (ms : List Bytes) (h : ∀ m ∈ ms, SEP ∉ m) :
    splitSep (batchJson ms) = ms ++ [[]] := by
  induction ms with
  | nil => simp [batchJson, splitSep]
  | cons m t ih =>
    simp only [batchJson]
    rw [splitSep_append_sep m _ (h m List.mem_cons_self), ih (fun x hx => h x (List.mem_cons_of_mem _ hx))]
    rfl

/-! ### u32 big endian -/

theorem u32dec_u32be (n : Nat) (h : n < 4294967296) :
    ∃ a b c d, u32be n = [a, b, c, d] ∧ u32dec a b c d = n := by
  refine ⟨_, _, _, _, rfl, ?_⟩
  simp only [u32dec, UInt8.toNat_ofNat']
  omega

theorem batchBin_length_ge (ms : List Bytes) : ms.length ≤ (batchBin ms).length := by
  induction ms with
  | nil => simp
  | cons m t ih =>
    simp only [batchBin, List.length_append, List.length_cons]
    simp only [u32be, List.length_cons, List.length_nil]
    omega

theorem unbatchBinAux_batchBin (ms : List Bytes) (h : ∀ m ∈ ms, m.length < 4294967296) :
    ∀ fuel, ms.length ≤ fuel → unbatchBinAux fuel (batchBin ms) = .ok ms := by
  induction ms with
  | nil => intro fuel _; cases fuel <;> simp [batchBin, unbatchBinAux]
  | cons m t ih =>
    intro fuel hf
    cases fuel with
    | zero => simp at hf
    | succ f =>
      obtain ⟨a, b, c, d, hu, hd⟩ := u32dec_u32be m.length (h m List.mem_cons_self)
      have ht := ih (fun x hx => h x (List.mem_cons_of_mem _ hx)) f (by simpa using hf)
      simp only [batchBin, hu, List.cons_append, List.nil_append, unbatchBinAux, hd]
      have hlen : ¬ (m.length > (m ++ batchBin t).length) := by simp
      simp only [hlen, if_false, List.drop_left, List.take_left, ht]

end Abverif.Batch
