import Abverif.Proofs.Lemmas.C14Base
/-!
C14 — the simulation relation between the model state and the Spec bookkeeping (`Spec.Core`), and the generic
"monitor accepts every step" induction.
-/
namespace Abverif.Comp
open Spec

/-! ### generic facts about `specAll` / `feedAll` -/

theorem feedAll_nil (c : Conf) (k : Core) : feedAll c k [] = k := rfl

theorem feedAll_cons (c : Conf) (k : Core) (o : Obs) (l : List Obs) :
    feedAll c k (o :: l) = feedAll c (k.feed c o) l := rfl

theorem feedAll_append (c : Conf) (k : Core) (a b : List Obs) :
    feedAll c k (a ++ b) = feedAll c (feedAll c k a) b := by
  simp [feedAll, List.foldl_append]

theorem specAll_append (chk : Chk) (fin : Fin) (c : Conf) (k : Core) (idle : Bool) (a b : List Obs) :
    specAll chk fin c k idle (a ++ b)
      = (specAll chk finTrue c k false a && specAll chk fin c (feedAll c k a) idle b) := by
  induction a generalizing k with
  | nil => simp [specAll, finTrue, feedAll]
  | cons o r ih => simp [specAll, ih, feedAll_cons, Bool.and_assoc]

/-- observations that neither the bookkeeping nor any check looks at -/
def Obs.neutral : Obs → Bool
  | .sfire _ _ | .call _ _ | .fail _ | .lateDone _ | .sess _ _ => true
  | _ => false

/-- a check that only ever rejects attempts and completions -/
def ChkAttDone (chk : Chk) : Prop :=
  ∀ c k o, (∀ i w t, o ≠ .att i w t) → (∀ b, o ≠ .done b) → chk c k o = true

theorem feed_neutral (c : Conf) (k : Core) (o : Obs) (h : o.neutral = true) : k.feed c o = k := by
  cases o <;> simp [Obs.neutral] at h <;> rfl

theorem feedAll_neutral (c : Conf) (k : Core) (l : List Obs) (h : ∀ o ∈ l, o.neutral = true) :
    feedAll c k l = k := by
  induction l generalizing k with
  | nil => rfl
  | cons o r ih =>
    rw [feedAll_cons, feed_neutral c k o (h o (by simp)), ih]
    intro o' ho'; exact h o' (by simp [ho'])

theorem specAll_neutral (chk : Chk) (hc : ChkAttDone chk) (c : Conf) (k : Core) (l : List Obs)
    (h : ∀ o ∈ l, o.neutral = true) : specAll chk finTrue c k false l = true := by
  induction l generalizing k with
  | nil => rfl
  | cons o r ih =>
    have ho := h o (by simp)
    simp only [specAll, Bool.and_eq_true]
    refine ⟨hc c k o ?_ ?_, ?_⟩
    · intro i w t he; subst he; simp [Obs.neutral] at ho
    · intro b he; subst he; simp [Obs.neutral] at ho
    · rw [feed_neutral c k o ho]
      exact ih k (fun o' ho' => h o' (by simp [ho']))

theorem userCalls_neutral (n : Nat) (hs : List Handler) : ∀ o ∈ userCalls n hs, o.neutral = true := by
  induction hs with
  | nil => simp [userCalls]
  | cons h r ih =>
    cases h <;> simp [userCalls, Obs.neutral] <;> exact ih

theorem sfire_neutral (cfg : Cfg) (ev : Ev) (n : Nat) : ∀ o ∈ sfire cfg ev n, o.neutral = true := by
  intro o ho
  simp only [sfire, List.mem_cons] at ho
  rcases ho with rfl | ho
  · rfl
  · exact userCalls_neutral _ _ o ho

theorem chkBudget_ad : ChkAttDone chkBudget := by
  intro c k o h1 h2; cases o <;> first | rfl | exact absurd rfl (h1 _ _ _)
theorem chkFatal_ad : ChkAttDone chkFatal := by
  intro c k o h1 h2; cases o <;> first | rfl | exact absurd rfl (h1 _ _ _)
theorem chkRoundRobin_ad : ChkAttDone chkRoundRobin := by
  intro c k o h1 h2; cases o <;> first | rfl | exact absurd rfl (h1 _ _ _)
theorem chkFirst_ad : ChkAttDone chkFirst := by
  intro c k o h1 h2; cases o <;> first | rfl | exact absurd rfl (h1 _ _ _)
theorem chkDelay_ad : ChkAttDone chkDelay := by
  intro c k o h1 h2; cases o <;> first | rfl | exact absurd rfl (h1 _ _ _)
theorem chkStop_ad : ChkAttDone chkStop := by
  intro c k o h1 h2; cases o <;> first | rfl | exact absurd rfl (h1 _ _ _)
theorem chkGiveUp_ad : ChkAttDone chkGiveUp := by
  intro c k o h1 h2; cases o <;> first | rfl | exact absurd rfl (h2 _)
theorem chkDoneOnce_ad : ChkAttDone chkDoneOnce := by
  intro c k o h1 h2; cases o <;> first | rfl | exact absurd rfl (h2 _)
theorem chkPolarity_ad : ChkAttDone chkPolarity := by
  intro c k o h1 h2
  cases o <;> first | rfl | exact absurd rfl (h1 _ _ _) | exact absurd rfl (h2 _)

/-! ### the shapes of `transport_check` -/

/-- state after `transport_check` chose transport `i` (record `t`, updated to `t'` by `next_delay`) -/
def tcState (s : State) (i : Nat) (t t' : Tr) : State :=
  { s with trs := updAt (fun _ => t') s.trs i, cursor := (i + 1) % s.trs.length,
           zs := if t.attempts = 0 then s.zs else s.zs.tail }

inductive TcCase (s : State) : State × List Obs → Prop
  | stopped (hs : s.stopping = true) : TcCase s (stopCheck s)
  | giveUp (h : s.trs.any Tr.canReconnect = false) :
      TcCase s ({ (setDone false s).1 with phase := .dead }, (setDone false s).2)
  | wait (i : Nat) (t t' : Tr) (d : Q)
      (hpick : pick s.trs s.cursor s.trs.length = some i) (hget : s.trs[i]? = some t)
      (hcan : t.canReconnect = true) (hnd : t.nextDelay (s.zs.headD Q.zero) = some (t', d))
      (hpos : d.pos = true) :
      TcCase s ({ tcState s i t t' with phase := .waiting i d }, [])
  | now (i : Nat) (t t' : Tr) (d : Q)
      (hpick : pick s.trs s.cursor s.trs.length = some i) (hget : s.trs[i]? = some t)
      (hcan : t.canReconnect = true) (hnd : t.nextDelay (s.zs.headD Q.zero) = some (t', d))
      (hpos : d.pos = false) :
      TcCase s (attemptConnect i Q.zero (tcState s i t t'))

theorem tc_cases (s : State) : TcCase s (transportCheck s) := by
  unfold transportCheck
  by_cases hst : s.stopping = true
  · rw [if_pos hst]
    exact TcCase.stopped hst
  rw [if_neg hst]
  by_cases hany : s.trs.any Tr.canReconnect = true
  · simp only [hany, Bool.not_true, Bool.false_eq_true, if_false]
    obtain ⟨i, hi⟩ := pick_some_of_any s.trs s.cursor hany
    obtain ⟨t, hget, hcan⟩ := pick_lt _ _ _ _ hi
    obtain ⟨⟨t', d⟩, hnd⟩ := Tr.nextDelay_some_of_can t (s.zs.headD Q.zero) hcan
    simp only [hi, hget, hnd]
    by_cases hpos : d.pos = true
    · simp only [hpos, if_true]
      exact TcCase.wait i t t' d hi hget hcan hnd hpos
    · have hpos' : d.pos = false := by simpa using hpos
      simp only [hpos', Bool.false_eq_true, if_false]
      exact TcCase.now i t t' d hi hget hcan hnd hpos'
  · have hany' : s.trs.any Tr.canReconnect = false := by simpa using hany
    simp only [hany', Bool.not_false, if_true]
    exact TcCase.giveUp hany'

end Abverif.Comp

namespace Abverif.Comp
open Spec

/-! ### the relation -/

/-- per-transport part: configuration agrees, the Spec's counters bound / equal the model's -/
structure TrRel (c : Conf) (k : Core) (i : Nat) (t : Tr) : Prop where
  mr : c.mr i = t.maxRetries
  maxD : c.maxD i = t.maxDelay
  cnt_eq : k.cnt i = t.attempts
  ever : t.attempts ≤ k.ever i
  failed : k.failed i = t.permFail

/-- data part (independent of the phase) -/
structure RelT (c : Conf) (trs : List Tr) (done : Option Bool) (k : Core) : Prop where
  n_eq : c.n = trs.length
  tr : ∀ i t, trs[i]? = some t → TrRel c k i t
  done_eq : k.done = done

/-- relation in the middle of a step (the phase field is stale) -/
structure RelM (c : Conf) (s : State) (k : Core) : Prop where
  t : RelT c s.trs s.done k
  cur : s.cursor = startOf k.last % c.n

def PhaseOK (c : Conf) (s : State) (k : Core) : Prop :=
  match s.phase with
  | .waiting i d =>
      ∃ t, s.trs[i]? = some t ∧ t.canReconnect = true ∧ t.attempts ≠ 0
        ∧ ((0 ≤ (c.maxD i).num) → d.le (c.maxD i) = true)
        ∧ firstElig c k (startOf k.last) = some i
        ∧ s.cursor = (i + 1) % c.n
  | .connecting i | .up i | .closing i =>
      (∃ t, s.trs[i]? = some t) ∧ s.cursor = startOf k.last % c.n
  | .idle => s.cursor = startOf k.last % c.n
  | .dead => s.done.isSome = true
  | .crashed => False

structure Rel (c : Conf) (s : State) (k : Core) : Prop where
  t : RelT c s.trs s.done k
  ph : PhaseOK c s k

/-! ### checks bundle -/

structure ChecksOK (c : Conf) (k : Core) (out : List Obs) : Prop where
  budget : specAll chkBudget finTrue c k false out = true
  fatal : specAll chkFatal finTrue c k false out = true
  first : specAll chkFirst finTrue c k false out = true
  doneOnce : specAll chkDoneOnce finTrue c k false out = true
  delay : (∀ i, 0 ≤ (c.maxD i).num) → specAll chkDelay finTrue c k false out = true
  rr : specAll chkRoundRobin finTrue c k false out = true
  giveUp : specAll chkGiveUp finTrue c k false out = true

theorem ChecksOK.append {c : Conf} {k : Core} {a b : List Obs}
    (ha : ChecksOK c k a) (hb : ChecksOK c (feedAll c k a) b) : ChecksOK c k (a ++ b) := by
  constructor
  · rw [specAll_append]; simp [ha.budget, hb.budget]
  · rw [specAll_append]; simp [ha.fatal, hb.fatal]
  · rw [specAll_append]; simp [ha.first, hb.first]
  · rw [specAll_append]; simp [ha.doneOnce, hb.doneOnce]
  · intro h; rw [specAll_append]; simp [ha.delay h, hb.delay h]
  · rw [specAll_append]; simp [ha.rr, hb.rr]
  · rw [specAll_append]; simp [ha.giveUp, hb.giveUp]

/-- observations that are neither attempts nor completions -/
def Obs.quiet : Obs → Bool
  | .att _ _ _ | .done _ => false
  | _ => true

theorem specAll_quiet (chk : Chk) (hc : ChkAttDone chk) (c : Conf) (k : Core) (l : List Obs)
    (h : ∀ o ∈ l, o.quiet = true) : specAll chk finTrue c k false l = true := by
  induction l generalizing k with
  | nil => rfl
  | cons o r ih =>
    have ho := h o (by simp)
    simp only [specAll, Bool.and_eq_true]
    refine ⟨hc c k o ?_ ?_, ih _ (fun o' ho' => h o' (by simp [ho']))⟩
    · intro i w t he; subst he; simp [Obs.quiet] at ho
    · intro b he; subst he; simp [Obs.quiet] at ho

theorem ChecksOK.quiet (c : Conf) (k : Core) (l : List Obs) (h : ∀ o ∈ l, o.quiet = true) :
    ChecksOK c k l :=
  ⟨specAll_quiet _ chkBudget_ad c k l h, specAll_quiet _ chkFatal_ad c k l h, specAll_quiet _ chkFirst_ad c k l h,
   specAll_quiet _ chkDoneOnce_ad c k l h, fun _ => specAll_quiet _ chkDelay_ad c k l h,
   specAll_quiet _ chkRoundRobin_ad c k l h, specAll_quiet _ chkGiveUp_ad c k l h⟩

theorem neutral_quiet (o : Obs) (h : o.neutral = true) : o.quiet = true := by
  cases o <;> simp [Obs.neutral] at h <;> rfl

theorem ChecksOK.nil (c : Conf) (k : Core) : ChecksOK c k [] :=
  ChecksOK.quiet c k [] (by simp)

/-! ### eligibility: Spec vs model -/

theorem elig_eq_can {c : Conf} {k : Core} {i : Nat} {t : Tr} (h : TrRel c k i t) :
    elig c k i = t.canReconnect := by
  simp only [elig, budgetOk, Tr.canReconnect, h.mr, h.failed, h.cnt_eq]
  cases t.permFail <;> simp
  by_cases h1 : t.maxRetries = -1 <;> simp [h1]

theorem elig_eq_canAt {c : Conf} {trs : List Tr} {done : Option Bool} {k : Core}
    (h : RelT c trs done k) (j : Nat) (hj : j < c.n) :
    elig c k j = canAt trs j := by
  have hj' : j < trs.length := h.n_eq ▸ hj
  have hg : trs[j]? = some trs[j] := List.getElem?_eq_getElem hj'
  simp only [canAt, hg]
  exact elig_eq_can (h.tr j _ hg)

theorem anyElig_eq {c : Conf} {trs : List Tr} {done : Option Bool} {k : Core}
    (h : RelT c trs done k) :
    anyElig c k = trs.any Tr.canReconnect := by
  rw [Bool.eq_iff_iff]
  simp only [anyElig, List.any_eq_true, List.mem_range]
  constructor
  · rintro ⟨j, hj, he⟩
    rw [elig_eq_canAt h j hj] at he
    have hj' : j < trs.length := h.n_eq ▸ hj
    simp only [canAt, List.getElem?_eq_getElem hj'] at he
    exact ⟨trs[j], List.getElem_mem hj', he⟩
  · rintro ⟨t, hmem, hcan⟩
    obtain ⟨j, hj, hget⟩ := List.getElem_of_mem hmem
    refine ⟨j, h.n_eq ▸ hj, ?_⟩
    rw [elig_eq_canAt h j (h.n_eq ▸ hj)]
    simp [canAt, List.getElem?_eq_getElem hj, hget, hcan]

theorem find?_congr' {α : Type} {l : List α} {p q : α → Bool} (h : ∀ x ∈ l, p x = q x) :
    l.find? p = l.find? q := by
  induction l with
  | nil => rfl
  | cons a r ih =>
    simp only [List.find?_cons, h a (by simp)]
    rw [ih (fun x hx => h x (by simp [hx]))]

theorem firstElig_eq_pick {c : Conf} {trs : List Tr} {done : Option Bool} {k : Core}
    (h : RelT c trs done k) (start : Nat) :
    firstElig c k start = pick trs (start % c.n) trs.length := by
  rw [pick_eq_find, firstElig, ← h.n_eq]
  have e1 : (List.range c.n).map (fun j => (start % c.n + j) % c.n)
      = (List.range c.n).map (fun j => (start + j) % c.n) := by
    apply List.map_congr_left
    intro a _
    exact Nat.mod_add_mod _ _ _
  rw [e1]
  apply find?_congr'
  intro x hx
  rw [List.mem_map] at hx
  obtain ⟨a, ha, rfl⟩ := hx
  have hn : 0 < c.n := by
    have := List.mem_range.mp ha; omega
  exact elig_eq_canAt h _ (Nat.mod_lt _ hn)

end Abverif.Comp

namespace Abverif.Comp
open Spec

/-! ### moving the relation along bookkeeping -/

theorem TrRel.of_eq {c : Conf} {k k' : Core} {i : Nat} {t t' : Tr} (h : TrRel c k i t)
    (h1 : k'.cnt i = k.cnt i) (h2 : k'.ever i = k.ever i) (h3 : k'.failed i = k.failed i)
    (e1 : t'.maxRetries = t.maxRetries) (e2 : t'.maxDelay = t.maxDelay) (e3 : t'.attempts = t.attempts)
    (e4 : t'.permFail = t.permFail) : TrRel c k' i t' :=
  ⟨by rw [e1]; exact h.mr, by rw [e2]; exact h.maxD,
   by rw [h1, e3]; exact h.cnt_eq, by rw [h2, e3]; exact h.ever, by rw [h3, e4]; exact h.failed⟩

/-- changing only the Spec side on fields the per-transport relation does not read -/
theorem RelT.core_congr {c : Conf} {trs : List Tr} {done done' : Option Bool} {k k' : Core}
    (h : RelT c trs done k) (h1 : k'.cnt = k.cnt) (h2 : k'.ever = k.ever) (h3 : k'.failed = k.failed)
    (hd : k'.done = done') : RelT c trs done' k' :=
  ⟨h.n_eq, fun i t hg => (h.tr i t hg).of_eq (by rw [h1]) (by rw [h2]) (by rw [h3]) rfl rfl rfl rfl, hd⟩

/-- updating transport `i` by `f` where `f` keeps the fields the relation reads -/
theorem RelT.updAt_congr {c : Conf} {trs : List Tr} {done : Option Bool} {k : Core}
    (h : RelT c trs done k) (i : Nat) (f : Tr → Tr)
    (e1 : ∀ t, (f t).maxRetries = t.maxRetries) (e2 : ∀ t, (f t).maxDelay = t.maxDelay)
    (e3 : ∀ t, (f t).attempts = t.attempts) (e4 : ∀ t, (f t).permFail = t.permFail) :
    RelT c (updAt f trs i) done k := by
  refine ⟨by rw [updAt_length]; exact h.n_eq, ?_, h.done_eq⟩
  intro j t' hg
  rw [updAt_get] at hg
  by_cases hji : j = i
  · simp only [hji, if_true] at hg
    cases hgi : trs[i]? with
    | none => simp [hgi] at hg
    | some t =>
      simp only [hgi, Option.map_some, Option.some.injEq] at hg
      subst hg; subst hji
      exact (h.tr _ t hgi).of_eq rfl rfl rfl (e1 t) (e2 t) (e3 t) (e4 t)
  · simp only [hji, if_false] at hg
    exact h.tr j t' hg

/-- a connection attempt on transport `i` -/
theorem RelT.att {c : Conf} {trs : List Tr} {done : Option Bool} {k : Core}
    (h : RelT c trs done k) (i : Nat) (w tm : Q) :
    RelT c (updAt (fun t => { t with attempts := t.attempts + 1 }) trs i) done (k.feed c (.att i w tm)) := by
  refine ⟨by rw [updAt_length]; exact h.n_eq, ?_, h.done_eq⟩
  intro j t' hg
  rw [updAt_get] at hg
  by_cases hji : j = i
  · simp only [hji, if_true] at hg
    cases hgi : trs[i]? with
    | none => simp [hgi] at hg
    | some t =>
      simp only [hgi, Option.map_some, Option.some.injEq] at hg
      subst hg; subst hji
      have r := h.tr _ t hgi
      exact ⟨r.mr, r.maxD, by simp [Core.feed, upd]; exact r.cnt_eq,
             by simp [Core.feed, upd]; exact r.ever, by simp [Core.feed]; exact r.failed⟩
  · simp only [hji, if_false] at hg
    have r := h.tr j t' hg
    exact ⟨r.mr, r.maxD, by simp [Core.feed, upd, hji]; exact r.cnt_eq,
           by simp [Core.feed, upd, hji]; exact r.ever, by simp [Core.feed]; exact r.failed⟩

/-- `failed()` on transport `i` together with the `fatal i` observation -/
theorem RelT.fatal {c : Conf} {trs : List Tr} {done : Option Bool} {k : Core}
    (h : RelT c trs done k) (i : Nat) :
    RelT c (updAt Tr.failed trs i) done (k.feed c (.fatal i)) := by
  refine ⟨by rw [updAt_length]; exact h.n_eq, ?_, h.done_eq⟩
  intro j t' hg
  rw [updAt_get] at hg
  by_cases hji : j = i
  · simp only [hji, if_true] at hg
    cases hgi : trs[i]? with
    | none => simp [hgi] at hg
    | some t =>
      simp only [hgi, Option.map_some, Option.some.injEq] at hg
      subst hg; subst hji
      have r := h.tr _ t hgi
      exact ⟨r.mr, r.maxD, r.cnt_eq, r.ever, by simp [Core.feed, upd, Tr.failed]⟩
  · simp only [hji, if_false] at hg
    have r := h.tr j t' hg
    exact ⟨r.mr, r.maxD, r.cnt_eq, r.ever, by simp [Core.feed, upd, hji]; exact r.failed⟩

/-- a join on transport `i`: `on_join` resets the transport, the Spec resets its counter -/
theorem RelT.join {c : Conf} {trs : List Tr} {done : Option Bool} {k : Core}
    (h : RelT c trs done k) (i : Nat) :
    RelT c (updAt (fun t => { t.reset with successes := 1 }) trs i) done (k.feed c (.join i)) := by
  refine ⟨by rw [updAt_length]; exact h.n_eq, ?_, by simp [Core.feed]; exact h.done_eq⟩
  intro j t' hg
  rw [updAt_get] at hg
  by_cases hji : j = i
  · simp only [hji, if_true] at hg
    cases hgi : trs[i]? with
    | none => simp [hgi] at hg
    | some t =>
      simp only [hgi, Option.map_some, Option.some.injEq] at hg
      subst hg; subst hji
      have r := h.tr _ t hgi
      exact ⟨r.mr, r.maxD, by simp [Core.feed, upd, Tr.reset],
             by simp [Core.feed, Tr.reset], by simp [Core.feed, Tr.reset]; exact r.failed⟩
  · simp only [hji, if_false] at hg
    have r := h.tr j t' hg
    exact ⟨r.mr, r.maxD, by simp [Core.feed, upd, hji]; exact r.cnt_eq,
           by simp [Core.feed]; exact r.ever, by simp [Core.feed]; exact r.failed⟩

end Abverif.Comp
